import PGA.Spec.CorrHistory
import PGA.Proofs.Merge
import PGA.Proofs.ThermoRange
import PGA.Props.C14Eval
/-! Helper lemmas for `Props/CorrHistory.lean`. -/
namespace PGA.CorrHistory
open PGA.Thermo PGA.Yaml PGA.Merge

/-! ### the table correlation and its reference values -/

/-- `ThermochemRawData.__init__` does not look at the reference values: with other ones it succeeds or fails alike and
builds the same object but for the two stored values -/
theorem mk_refs (ip : Interp) (h s h' s' : Rat) (pts : List Pt) (Tref : Rat) (range : Option Range) :
    RawData.mk ip h' s' pts Tref range =
      (RawData.mk ip h s pts Tref range).map (fun d => { d with Href := h', Sref := s' }) := by
  unfold RawData.mk
  cases sortPts pts with
  | nil => rfl
  | cons p0 rest =>
    simp only
    split
    · rfl
    · split
      · rfl
      · split
        · rfl
        · cases rest with
          | nil => rfl
          | cons q qs =>
            simp only
            split <;> rfl

theorem cpoR_refs (d : RawData) (h s : Rat) (T : Rat) : ({ d with Href := h, Sref := s } : RawData).CpoR T = d.CpoR T := rfl
theorem hoRT_sref (d : RawData) (s : Rat) (T : Rat) : ({ d with Sref := s } : RawData).HoRT T = d.HoRT T := rfl
theorem soR_href (d : RawData) (h : Rat) (T : Rat) : ({ d with Href := h } : RawData).SoR T = d.SoR T := rfl

/-! ### constructor and `_setup_correlation` -/

/-- the constructor is the base-class assertion followed by `_setup_correlation()` on the stored data -/
theorem construct_eq (S : Spl) (o : Incomplete) :
    construct S (held o) =
      if baseInitOk o.range = false then .error .assertion
      else match setup S o with
        | (o', none) => .ok o'
        | (_, some e) => .error e := by
  unfold construct Incomplete.mk setup held
  simp only
  split
  · rfl
  · cases o.cp with
    | nil => rfl
    | cons p ps =>
      simp only
      rw [mk_sortPts]
      cases RawData.mk (S (sortPts (p :: ps))) (o.Href.getD 0) (o.Sref.getD 0) (p :: ps) o.Tref o.range <;> rfl

theorem setup_held (S : Spl) (o : Incomplete) : held (setup S o).1 = held o := by
  unfold setup
  split
  · rfl
  · split <;> rfl

/-- `_setup_correlation()` reads the held data only -/
theorem setup_corr_irrel (S : Spl) (o : Incomplete) (x : Option RawData) : setup S { o with corr := x } = setup S o := by
  unfold setup
  rfl

/-- the getters see the table only through "is there one" -/
theorem getter_congr {a b : Incomplete} (hH : a.Href = b.Href) (hS : a.Sref = b.Sref) (hcp : a.cp = [] ↔ b.cp = [])
    (hT : a.Tref = b.Tref) (hr : a.range = b.range) (hc : a.corr = b.corr) : SameValues a b := by
  obtain ⟨aH, aS, acp, aT, ar, ac⟩ := a
  obtain ⟨bH, bS, bcp, bT, br, bc⟩ := b
  simp only at hH hS hcp hT hr hc
  subst hH hS hT hr hc
  intro q T
  cases acp with
  | nil =>
    have : bcp = [] := hcp.mp rfl
    subst this
    rfl
  | cons p ps =>
    cases bcp with
    | nil => exact absurd (hcp.mpr rfl) (by simp)
    | cons p' ps' =>
      cases q <;> simp only [getter, Incomplete.CpoR, Incomplete.HoRT, Incomplete.SoR, Incomplete.GoRT]

/-- a structurally fresh object and the object `_setup_correlation()` would make of it answer alike -/
theorem FreshS.setup_same {S : Spl} {o : Incomplete} (hf : FreshS S o) :
    (setup S o).2 = none ∧ SameValues o (setup S o).1 := by
  obtain ⟨oH, oS, ocp, oT, orr, oc⟩ := o
  cases ocp with
  | nil =>
    have := hf.nocp rfl
    simp only at this
    subst this
    exact ⟨rfl, fun _ _ => rfl⟩
  | cons p ps =>
    obtain ⟨h, s, d, hmk, hc, hh, hs⟩ := hf.hascp (by simp)
    simp only at hmk hc hh hs
    subst hc
    have hb := RawData.mk_built hmk
    have hmk' := mk_refs (S (sortPts (p :: ps))) h s (oH.getD 0) (oS.getD 0) (sortPts (p :: ps)) oT orr
    rw [hmk] at hmk'
    simp only [Except.map] at hmk'
    have hsetup : setup S ⟨oH, oS, p :: ps, oT, orr, some d⟩ =
        (⟨oH, oS, p :: ps, oT, orr, some { d with Href := oH.getD 0, Sref := oS.getD 0 }⟩, none) := by
      simp only [setup]
      rw [hmk']
    rw [hsetup]
    refine ⟨rfl, ?_⟩
    intro q T
    have hH : ∀ x, oH = some x → d.Href = x := fun x hx => by rw [hb.href]; exact hh x hx
    have hS : ∀ x, oS = some x → d.Sref = x := fun x hx => by rw [hb.sref]; exact hs x hx
    have eH : ∀ T, (match oH with
        | none => ((.error .incomplete, false) : Out)
        | some _ => (convertErr (d.HoRT T), false)) =
        (match oH with
        | none => ((.error .incomplete, false) : Out)
        | some _ => (convertErr (({ d with Href := oH.getD 0, Sref := oS.getD 0 } : RawData).HoRT T), false)) := by
      intro T
      cases oH with
      | none => rfl
      | some x =>
        have := hH x rfl
        subst this
        rfl
    have eS : ∀ T, (match oS with
        | none => ((.error .incomplete, false) : Out)
        | some _ => (convertErr (d.SoR T), false)) =
        (match oS with
        | none => ((.error .incomplete, false) : Out)
        | some _ => (convertErr (({ d with Href := oH.getD 0, Sref := oS.getD 0 } : RawData).SoR T), false)) := by
      intro T
      cases oS with
      | none => rfl
      | some x =>
        have := hS x rfl
        subst this
        rfl
    have gH : ∀ T, Incomplete.HoRT ⟨oH, oS, p :: ps, oT, orr, some d⟩ T =
        Incomplete.HoRT ⟨oH, oS, p :: ps, oT, orr, some { d with Href := oH.getD 0, Sref := oS.getD 0 }⟩ T := by
      intro T
      have := eH T
      cases oH <;> simpa [Incomplete.HoRT] using this
    have gS : ∀ T, Incomplete.SoR ⟨oH, oS, p :: ps, oT, orr, some d⟩ T =
        Incomplete.SoR ⟨oH, oS, p :: ps, oT, orr, some { d with Href := oH.getD 0, Sref := oS.getD 0 }⟩ T := by
      intro T
      have := eS T
      cases oS <;> simpa [Incomplete.SoR] using this
    cases q with
    | cp => rfl
    | h => exact gH T
    | s => exact gS T
    | g =>
      simp only [getter, Incomplete.GoRT]
      rw [gH T]
      congr 1
      funext _
      exact gS T

/-! ### the table is a dictionary -/

theorem keys_perm {a b : List Pt} (h : a.Perm b) : (keys a).Perm (keys b) := h.map _

theorem strictInc_keys_nodup {l : List Pt} (h : strictInc l = true) : (keys l).Nodup := by
  have hlt := (strictInc_iff l).mp h
  unfold keys
  rw [List.Nodup, List.pairwise_map]
  exact hlt.imp (fun h => ne_of_lt h)

/-- SciPy accepts the sorted table only when its temperatures are distinct -/
theorem nodup_of_mk {ip : Interp} {h s : Rat} {cp : List Pt} {Tref : Rat} {range : Option Range} {d : RawData}
    (hmk : RawData.mk ip h s (sortPts cp) Tref range = .ok d) : (keys cp).Nodup := by
  obtain ⟨p0, rest, hs, -, -, -, -, -, -, hinc⟩ := (RawData.mk_built hmk).sorted
  rw [sortPts_idem] at hs
  have hp : (keys (sortPts cp)).Perm (keys cp) := keys_perm (sortPts_perm cp)
  rw [← hp.nodup_iff, hs]
  cases rest with
  | nil => simp [keys]
  | cons q qs => exact strictInc_keys_nodup (hinc (by simp)).2

theorem keys_nodup_sorted_strict {cp : List Pt} (hn : (keys cp).Nodup) : strictInc (sortPts cp) = true := by
  rw [strictInc_iff]
  have hs := sortPts_sorted cp
  have hn' : (keys (sortPts cp)).Nodup := (keys_perm (sortPts_perm cp)).nodup_iff.mpr hn
  unfold keys at hn'
  rw [List.Nodup, List.pairwise_map] at hn'
  exact (hs.and hn').imp (fun ⟨h1, h2⟩ => lt_of_le_of_ne h1 h2)

theorem mem_keys_iff {l : List Pt} {k : Rat} : k ∈ keys l ↔ ∃ p ∈ l, p.1 = k := by
  unfold keys
  simp

/-- the constructor's check, positively: consistent data whose table is a dictionary are accepted by `ThermochemRawData` -/
theorem mk_ok_of_valid (ip : Interp) (h s : Rat) {cp : List Pt} {Tref : Rat} {range : Option Range}
    (hv : ValidP (keys cp) Tref range) (hn : (keys cp).Nodup) (hne : cp ≠ []) :
    ∃ d, RawData.mk ip h s (sortPts cp) Tref range = .ok d := by
  have hk : keys cp ≠ [] := fun h => hne (keys_eq_nil.mp h)
  have hmem : ∀ p, p ∈ sortPts cp ↔ p ∈ cp := fun p => (sortPts_perm cp).mem_iff
  apply RawData.mk_ok_of
  · intro h0
    have := (sortPts_perm cp).length_eq
    rw [h0] at this
    exact hne (List.eq_nil_of_length_eq_zero this.symm)
  · exact keys_nodup_sorted_strict hn
  · intro r hr
    subst hr
    obtain ⟨lo, hi⟩ := r
    obtain ⟨hle, hall⟩ := hv
    obtain ⟨ha, h1, h2⟩ := hall hk
    refine ⟨hle, ?_, h1, h2⟩
    intro p hp
    exact ha p.1 (mem_keys_iff.mpr ⟨p, (hmem p).mp hp, rfl⟩)
  · intro hr
    subst hr
    obtain ⟨⟨k1, hk1, h1⟩, ⟨k2, hk2, h2⟩⟩ := hv hk
    obtain ⟨p, hp, rfl⟩ := mem_keys_iff.mp hk1
    obtain ⟨q, hq, rfl⟩ := mem_keys_iff.mp hk2
    exact ⟨p, (hmem p).mpr hp, q, (hmem q).mpr hq, h1, h2⟩

/-! ### establishing the invariant -/

/-- when `_setup_correlation()` returns normally on an object whose range is in order, the object is fresh -/
theorem freshS_of_setup {S : Spl} {o : Incomplete} (hb : baseInitOk o.range = true) (hn : (keys o.cp).Nodup)
    (hs : (setup S o).2 = none) : FreshS S (setup S o).1 := by
  obtain ⟨oH, oS, ocp, oT, orr, oc⟩ := o
  cases ocp with
  | nil => exact ⟨hb, hn, fun _ => rfl, fun h => absurd rfl h⟩
  | cons p ps =>
    simp only [setup] at hs ⊢
    cases hmk : RawData.mk (S (sortPts (p :: ps))) (oH.getD 0) (oS.getD 0) (sortPts (p :: ps)) oT orr with
    | error e => rw [hmk] at hs; simp at hs
    | ok d =>
      simp only
      refine ⟨hb, hn, (fun h => by cases h), fun _ => ⟨_, _, d, hmk, rfl, ?_, ?_⟩⟩
      · intro x hx; simp only at hx; subst hx; rfl
      · intro x hx; simp only at hx; subst hx; rfl

theorem nodup_of_setup {S : Spl} {o : Incomplete} (hs : (setup S o).2 = none) : (keys o.cp).Nodup := by
  obtain ⟨oH, oS, ocp, oT, orr, oc⟩ := o
  cases ocp with
  | nil => simp [keys]
  | cons p ps =>
    simp only [setup] at hs
    cases hmk : RawData.mk (S (sortPts (p :: ps))) (oH.getD 0) (oS.getD 0) (sortPts (p :: ps)) oT orr with
    | error e => rw [hmk] at hs; simp at hs
    | ok d => exact nodup_of_mk hmk

/-- what the constructor returns is `_setup_correlation()` of the stored data, and it is fresh -/
theorem construct_ok {S : Spl} {c : Corr} {o : Incomplete} (h : construct S c = .ok o) :
    FreshS S o ∧ held o = c ∧ baseInitOk c.range = true ∧
      setup S ⟨c.H, c.S, c.cp, c.Tref, c.range, none⟩ = (o, none) := by
  have e := construct_eq S ⟨c.H, c.S, c.cp, c.Tref, c.range, none⟩
  have hh : held ⟨c.H, c.S, c.cp, c.Tref, c.range, none⟩ = c := rfl
  rw [hh, h] at e
  split at e
  · cases e
  · rename_i hb
    have hb' : baseInitOk c.range = true := by simpa using hb
    split at e
    · rename_i o' hs
      simp only [Except.ok.injEq] at e
      subst e
      have h2 : (setup S ⟨c.H, c.S, c.cp, c.Tref, c.range, none⟩).2 = none := by rw [hs]
      have h1 : (setup S ⟨c.H, c.S, c.cp, c.Tref, c.range, none⟩).1 = o := by rw [hs]
      have hf := freshS_of_setup (S := S) (o := ⟨c.H, c.S, c.cp, c.Tref, c.range, none⟩) hb' (nodup_of_setup h2) h2
      rw [h1] at hf
      have hheld := setup_held S ⟨c.H, c.S, c.cp, c.Tref, c.range, none⟩
      rw [h1] at hheld
      exact ⟨hf, hheld, hb', hs⟩
    · cases e

/-! ### `update`: what a merge that is not refused stores -/

theorem mergeCp_nodup (ow : Bool) (self : List Pt) : ∀ (other acc r : List Pt),
    mergeCp ow self acc other = .ok r → (keys acc).Nodup → (keys r).Nodup
  | [], acc, r, h, hn => by
    simp only [mergeCp, Except.ok.injEq] at h
    subst h; exact hn
  | (T, v) :: rest, acc, r, h, hn => by
    rw [mergeCp] at h
    split at h
    · cases h
    · exact mergeCp_nodup ow self rest _ r h (nodup_dinsert T v acc hn)

/-- a merge that is not refused stores data that passed the constructor's check, keeps `T_ref`, and keeps the table a
dictionary — whatever `other` holds -/
theorem update_ok_data (ev : RawEval) (self : Obj) (d : Corr) (ow : Bool) (h : (update ev self d ow).2 = none) :
    checkValid (update ev self d ow).1.c.cp (update ev self d ow).1.c.Tref (update ev self d ow).1.c.range = .ok () ∧
    (update ev self d ow).1.c.Tref = self.c.Tref ∧
    ((keys self.c.cp).Nodup → (keys (update ev self d ow).1.c.cp).Nodup) := by
  unfold update at h ⊢
  simp only at h ⊢
  cases hm : mergeCp ow self.c.cp self.c.cp d.cp with
  | error e1 => simp [hm] at h
  | ok cp =>
    simp only [hm] at h ⊢
    cases hr : mergeRefs ev ow self.c d cp (unionRange self.c.range d.range) with
    | error e2 => simp [hr] at h
    | ok HS =>
      obtain ⟨H, S⟩ := HS
      simp only [hr] at h ⊢
      cases hv : checkValid cp self.c.Tref (unionRange self.c.range d.range) with
      | error e3 => simp [hv] at h
      | ok u =>
        simp only [hv] at h ⊢
        have hs : setupCheck cp self.c.Tref (unionRange self.c.range d.range) = .ok () := setupCheck_of_checkValid hv
        rw [Merge.setup_ok (c := ⟨H, S, cp, self.c.Tref, unionRange self.c.range d.range⟩) hs]
        exact ⟨hv, rfl, fun hn => mergeCp_nodup ow self.c.cp d.cp self.c.cp cp hm hn⟩

theorem baseInitOk_of_valid {ks : List Rat} {Tref : Rat} {range : Option Range} (hv : ValidP ks Tref range) :
    baseInitOk range = true := by
  cases range with
  | none => rfl
  | some r =>
    obtain ⟨lo, hi⟩ := r
    simp only [baseInitOk, decide_eq_true_eq]
    exact hv.1

/-- on consistent data whose table is a dictionary `_setup_correlation()` returns normally -/
theorem setup_ok_of_valid (S : Spl) {o : Incomplete} (hv : ValidP (keys o.cp) o.Tref o.range) (hn : (keys o.cp).Nodup) :
    (setup S o).2 = none := by
  obtain ⟨oH, oS, ocp, oT, orr, oc⟩ := o
  cases ocp with
  | nil => rfl
  | cons p ps =>
    obtain ⟨d, hd⟩ := mk_ok_of_valid (S (sortPts (p :: ps))) (oH.getD 0) (oS.getD 0) hv hn (by simp)
    simp only [setup, hd]

/-! ### every call preserves the invariant; a call that raises leaves the object as it was -/

theorem freshS_update {S : Spl} {o : Incomplete} (hf : FreshS S o) (d : Corr) (ow : Bool) :
    FreshS S (stepUpdate S o d ow).1 ∧ ((stepUpdate S o d ow).2.isRaised = true → (stepUpdate S o d ow).1 = o) := by
  unfold stepUpdate
  simp only
  cases hu : (update (rawEvalOf S) (toObj o) d ow).2 with
  | some e => exact ⟨hf, fun _ => rfl⟩
  | none =>
    simp only
    obtain ⟨hv, -, hn⟩ := update_ok_data (rawEvalOf S) (toObj o) d ow hu
    have hn' := hn hf.nodup
    have hvp := (checkValid_iff _ _ _).mp hv
    generalize (update (rawEvalOf S) (toObj o) d ow).1.c = c at hv hn' hvp ⊢
    have hs := setup_ok_of_valid S (o := ⟨c.H, c.S, c.cp, c.Tref, c.range, none⟩) hvp hn'
    have hfr := freshS_of_setup (S := S) (o := ⟨c.H, c.S, c.cp, c.Tref, c.range, none⟩) (baseInitOk_of_valid hvp) hn' hs
    cases hst : setup S ⟨c.H, c.S, c.cp, c.Tref, c.range, none⟩ with
    | mk o' e =>
      rw [hst] at hs hfr
      simp only at hs hfr
      subst hs
      exact ⟨hfr, fun h => by simp [Res.isRaised] at h⟩

theorem keys_derase_sublist (k : Rat) : ∀ l : List Pt, (keys (derase k l)).Sublist (keys l)
  | [] => List.Sublist.slnil
  | (k', v) :: l => by
    unfold derase
    split
    · exact List.sublist_cons_self _ _
    · exact (keys_derase_sublist k l).cons₂ _

theorem freshS_delCp {S : Spl} {o : Incomplete} (hf : FreshS S o) (T : Option Rat) :
    FreshS S (stepDelCp S o T).1 ∧ ((stepDelCp S o T).2.isRaised = true → (stepDelCp S o T).1 = o) := by
  cases T with
  | none =>
    have : setup S { o with cp := [] } = ({ o with cp := [], corr := none }, none) := rfl
    simp only [stepDelCp, this]
    exact ⟨⟨hf.base, by simp [keys], fun _ => rfl, fun h => absurd rfl h⟩, fun h => by simp [Res.isRaised] at h⟩
  | some T =>
    simp only [stepDelCp]
    cases dlookup T o.cp with
    | none => exact ⟨hf, fun _ => rfl⟩
    | some v =>
      simp only
      cases hc : construct S ⟨o.Href, o.Sref, derase T o.cp, o.Tref, o.range⟩ with
      | error e => exact ⟨hf, fun _ => rfl⟩
      | ok o'' =>
        simp only
        obtain ⟨hfr, -, -, hs⟩ := construct_ok hc
        have : setup S { o with cp := derase T o.cp } = (o'', none) := by
          rw [← hs]
          exact setup_corr_irrel S ⟨o.Href, o.Sref, derase T o.cp, o.Tref, o.range, none⟩ o.corr
        rw [this]
        exact ⟨hfr, fun h => by simp [Res.isRaised] at h⟩

/-- a fresh object whose `_correlation` is rebuilt in place stays fresh, holds the same data and answers alike -/
theorem FreshS.resetup {S : Spl} {o : Incomplete} (hf : FreshS S o) :
    (setup S o).2 = none ∧ FreshS S (setup S o).1 ∧ held (setup S o).1 = held o ∧ SameValues o (setup S o).1 :=
  ⟨hf.setup_same.1, freshS_of_setup hf.base hf.nodup hf.setup_same.1, setup_held S o, hf.setup_same.2⟩

theorem freshS_setRange {S : Spl} {o : Incomplete} (hf : FreshS S o) (r : Option Range) :
    FreshS S (stepSetRange S o r).1 ∧
    ((stepSetRange S o r).2.isRaised = true →
      held (stepSetRange S o r).1 = held o ∧ SameValues o (stepSetRange S o r).1 ∧ (stepSetRange S o r).1 = (setup S o).1 ∨
      (stepSetRange S o r).1 = o) := by
  unfold stepSetRange
  split
  · exact ⟨hf, fun _ => Or.inr rfl⟩
  · rename_i hb
    have hb' : baseInitOk r = true := by simpa using hb
    cases hs : setup S { o with range := r } with
    | mk o1 e1 =>
      cases e1 with
      | none =>
        simp only
        have h2 : (setup S { o with range := r }).2 = none := by rw [hs]
        have := freshS_of_setup (S := S) (o := { o with range := r }) hb' hf.nodup h2
        rw [hs] at this
        exact ⟨this, fun h => by simp [Res.isRaised] at h⟩
      | some e =>
        simp only [hf.base]
        obtain ⟨h1, h2, h3, h4⟩ := hf.resetup
        cases hs0 : setup S o with
        | mk o0 e0 =>
          rw [hs0] at h1 h2 h3 h4
          simp only at h1 h2 h3 h4
          subst h1
          simp only [Bool.true_eq_false, if_false]
          exact ⟨h2, fun _ => Or.inl ⟨h3, h4, trivial⟩⟩

theorem freshS_copy {S : Spl} {o : Incomplete} (hf : FreshS S o) :
    FreshS S (stepCopy S o).1 ∧ (stepCopy S o).2.isRaised = false ∧ held (stepCopy S o).1 = held o ∧
      (stepCopy S o).1 = (setup S o).1 := by
  unfold stepCopy
  have e := construct_eq S o
  obtain ⟨h1, h2, h3, -⟩ := hf.resetup
  rw [hf.base] at e
  simp only [Bool.true_eq_false, if_false] at e
  cases hs0 : setup S o with
  | mk o0 e0 =>
    rw [hs0] at h1 h2 h3 e
    simp only at h1 h2 h3 e
    subst h1
    simp only at e
    rw [e]
    exact ⟨h2, rfl, h3, rfl⟩

theorem freshS_delH {S : Spl} {o : Incomplete} (hf : FreshS S o) : FreshS S { o with Href := none } := by
  refine ⟨hf.base, hf.nodup, hf.nocp, fun hne => ?_⟩
  obtain ⟨h, s, d, hmk, hc, -, hs⟩ := hf.hascp hne
  exact ⟨h, s, d, hmk, hc, (fun x hx => by cases hx), hs⟩

theorem freshS_delS {S : Spl} {o : Incomplete} (hf : FreshS S o) : FreshS S { o with Sref := none } := by
  refine ⟨hf.base, hf.nodup, hf.nocp, fun hne => ?_⟩
  obtain ⟨h, s, d, hmk, hc, hh, -⟩ := hf.hascp hne
  exact ⟨h, s, d, hmk, hc, hh, fun x hx => by cases hx⟩

theorem freshS_step {S : Spl} {o : Incomplete} (hf : FreshS S o) (op : Op) : FreshS S (step S o op).1 := by
  cases op with
  | update d ow => exact (freshS_update hf d ow).1
  | delCp T => exact (freshS_delCp hf T).1
  | delH => exact freshS_delH hf
  | delS => exact freshS_delS hf
  | setRange r => exact (freshS_setRange hf r).1
  | copy => exact (freshS_copy hf).1
  | eval q T => exact hf

theorem freshS_run {S : Spl} : ∀ (ops : List Op) {o : Incomplete}, FreshS S o → FreshS S (run S o ops)
  | [], _, hf => hf
  | op :: ops, _, hf => freshS_run ops (freshS_step hf op)

theorem freshS_trace {S : Spl} : ∀ (ops : List Op) {o : Incomplete}, FreshS S o → ∀ x ∈ trace S o ops, FreshS S x.1
  | [], _, _, x, hx => by cases hx
  | op :: ops, o, hf, x, hx => by
    simp only [trace, List.mem_cons] at hx
    rcases hx with rfl | hx
    · exact freshS_step hf op
    · exact freshS_trace ops (freshS_step hf op) x hx

/-! ### from the structural to the observational notion; independence of the history -/

theorem mem_of_dlookup {T v : Rat} : ∀ {l : List Pt}, dlookup T l = some v → (T, v) ∈ l
  | [], h => by simp [dlookup] at h
  | (k, w) :: l, h => by
    simp only [dlookup] at h
    split at h
    · rename_i hk
      simp only [Option.some.injEq] at h
      subst hk h
      exact List.mem_cons_self ..
    · exact List.mem_cons_of_mem _ (mem_of_dlookup h)

theorem sameData_perm {a b : Incomplete} (ha : (keys a.cp).Nodup) (hb : (keys b.cp).Nodup) (h : SameData a b) :
    a.cp.Perm b.cp := by
  have na : a.cp.Nodup := List.Pairwise.of_map Prod.fst (fun _ _ h e => h (by rw [e])) ha
  have nb : b.cp.Nodup := List.Pairwise.of_map Prod.fst (fun _ _ h e => h (by rw [e])) hb
  rw [List.perm_ext_iff_of_nodup na nb]
  intro p
  obtain ⟨T, v⟩ := p
  have hcp : ∀ T, dlookup T a.cp = dlookup T b.cp := h.cp
  constructor
  · intro hp
    have := dlookup_of_mem_nodup ha hp
    rw [hcp] at this
    exact mem_of_dlookup this
  · intro hp
    have := dlookup_of_mem_nodup hb hp
    rw [← hcp] at this
    exact mem_of_dlookup this

theorem setup_fields (S : Spl) (o : Incomplete) :
    (setup S o).1.Href = o.Href ∧ (setup S o).1.Sref = o.Sref ∧ (setup S o).1.cp = o.cp ∧ (setup S o).1.Tref = o.Tref ∧
      (setup S o).1.range = o.range := by
  unfold setup
  split
  · exact ⟨rfl, rfl, rfl, rfl, rfl⟩
  · split <;> exact ⟨rfl, rfl, rfl, rfl, rfl⟩

/-- the table correlation `_setup_correlation()` leaves, as a function of the held data -/
def corrOf (S : Spl) (H S' : Option Rat) (cp : List Pt) (Tref : Rat) (range : Option Range) : Option RawData :=
  match cp with
  | [] => none
  | _ :: _ =>
    match RawData.mk (S (sortPts cp)) (H.getD 0) (S'.getD 0) (sortPts cp) Tref range with
    | .ok d => some d
    | .error _ => none

theorem setup_corr (S : Spl) (o : Incomplete) : (setup S o).1.corr = corrOf S o.Href o.Sref o.cp o.Tref o.range := by
  obtain ⟨oH, oS, ocp, oT, orr, oc⟩ := o
  cases ocp with
  | nil => rfl
  | cons p ps =>
    simp only [setup, corrOf]
    cases RawData.mk (S (sortPts (p :: ps))) (oH.getD 0) (oS.getD 0) (sortPts (p :: ps)) oT orr <;> rfl

/-- `_setup_correlation()` sees the table only as a set of points -/
theorem setup_sameData {S : Spl} {a b : Incomplete} (ha : (keys a.cp).Nodup) (hb : (keys b.cp).Nodup) (h : SameData a b) :
    SameValues (setup S a).1 (setup S b).1 := by
  have hp := sameData_perm ha hb h
  have hs : sortPts a.cp = sortPts b.cp := sortPts_perm_eq a.cp b.cp hp ha
  have hnil : a.cp = [] ↔ b.cp = [] :=
    ⟨fun e => by rw [e] at hp; exact hp.symm.eq_nil, fun e => by rw [e] at hp; exact hp.eq_nil⟩
  have e1 : a.Href = b.Href := h.h
  have e2 : a.Sref = b.Sref := h.s
  have e3 : a.Tref = b.Tref := h.tref
  have e4 : a.range = b.range := h.range
  obtain ⟨a1, a2, a3, a4, a5⟩ := setup_fields S a
  obtain ⟨b1, b2, b3, b4, b5⟩ := setup_fields S b
  apply getter_congr
  · rw [a1, b1, e1]
  · rw [a2, b2, e2]
  · rw [a3, b3]; exact hnil
  · rw [a4, b4, e3]
  · rw [a5, b5, e4]
  · rw [setup_corr, setup_corr, e1, e2, e3, e4]
    unfold corrOf
    cases hac : a.cp with
    | nil => rw [hnil.mp hac]
    | cons p ps =>
      cases hbc : b.cp with
      | nil => rw [hnil.mpr hbc] at hac; cases hac
      | cons p' ps' =>
        simp only
        rw [← hac, ← hbc, hs]

/-- **two fresh objects holding the same data answer alike** -/
theorem freshS_sameValues {S : Spl} {a b : Incomplete} (ha : FreshS S a) (hb : FreshS S b) (h : SameData a b) :
    SameValues a b := by
  intro q T
  rw [ha.setup_same.2 q T, hb.setup_same.2 q T]
  exact setup_sameData ha.nodup hb.nodup h q T

theorem fresh_of_freshS {S : Spl} {o : Incomplete} (hf : FreshS S o) : Fresh S o := by
  refine ⟨(setup S o).1, ?_, setup_held S o, hf.setup_same.2⟩
  rw [construct_eq, hf.base]
  simp only [Bool.true_eq_false, if_false]
  have := hf.setup_same.1
  cases hs : setup S o with
  | mk o' e =>
    rw [hs] at this
    simp only at this
    subst this
    rfl

/-! ### reading does not write -/

theorem run_eval (S : Spl) (o : Incomplete) (q : Getter) (T : Rat) (ops : List Op) :
    run S o (.eval q T :: ops) = run S o ops := rfl

theorem run_filter (S : Spl) : ∀ (ops : List Op) (o : Incomplete),
    run S o (ops.filter (fun op => !op.isEval)) = run S o ops
  | [], _ => rfl
  | op :: ops, o => by
    cases he : op.isEval with
    | true =>
      have : (op :: ops).filter (fun op => !op.isEval) = ops.filter (fun op => !op.isEval) := by
        simp [List.filter, he]
      rw [this, run_filter S ops o]
      cases op <;> first | cases he; rfl | cases he
    | false =>
      have : (op :: ops).filter (fun op => !op.isEval) = op :: ops.filter (fun op => !op.isEval) := by
        simp [List.filter, he]
      rw [this]
      exact run_filter S ops _

theorem run_append (S : Spl) : ∀ (ops ops' : List Op) (o : Incomplete), run S o (ops ++ ops') = run S (run S o ops) ops'
  | [], _, _ => rfl
  | op :: ops, ops', o => run_append S ops ops' _

/-! ### estimates -/

theorem sumEval_congr (f g : Incomplete → Out) {cs cs' : List (Incomplete × Rat)}
    (h : List.Forall₂ (fun a b => f a.1 = g b.1 ∧ a.2 = b.2) cs cs') :
    ∀ (acc : Rat) (w : Bool), sumEval f cs acc w = sumEval g cs' acc w := by
  induction h with
  | nil => intro _ _; rfl
  | @cons a b l l' h1 _ ih =>
    intro acc w
    obtain ⟨c, n⟩ := a
    obtain ⟨c', n'⟩ := b
    obtain ⟨hf, hn⟩ := h1
    simp only at hf hn
    subst hn
    simp only [sumEval, hf]
    split
    · rfl
    · exact ih _ _

/-- an estimate sees its constituents through their getters, their ranges and the counts -/
theorem estimate_congr {cs cs' : List (Incomplete × Rat)}
    (h : List.Forall₂ (fun a b => SameValues a.1 b.1 ∧ a.1.range = b.1.range ∧ a.2 = b.2) cs cs')
    {e : Estimate} (hmk : Estimate.mk cs = .ok e) :
    ∃ e', Estimate.mk cs' = .ok e' ∧ e'.range = e.range ∧
      ∀ T, e.CpoR T = e'.CpoR T ∧ e.HoRT T = e'.HoRT T ∧ e.SoR T = e'.SoR T ∧ e.GoRT T = e'.GoRT T := by
  have hr : cs.map (fun c => c.1.range) = cs'.map (fun c => c.1.range) := by
    clear hmk
    induction h with
    | nil => rfl
    | cons h1 _ ih => simp only [List.map_cons, h1.2.1, ih]
  unfold Estimate.mk at hmk ⊢
  simp only at hmk ⊢
  rw [← hr]
  split at hmk
  · cases hmk
  · rename_i hb
    simp only [Except.ok.injEq] at hmk
    subst hmk
    refine ⟨⟨cs', estRange (cs.map fun c => c.1.range)⟩, by rw [if_neg hb], rfl, fun T => ?_⟩
    have hq : ∀ q : Getter, List.Forall₂ (fun a b => (fun c => getter q c T) a.1 = (fun c => getter q c T) b.1 ∧ a.2 = b.2) cs cs' :=
      fun q => h.imp (fun _ _ hab => ⟨hab.1 q T, hab.2.2⟩)
    have hcp := sumEval_congr (fun c => getter .cp c T) (fun c => getter .cp c T) (hq .cp) 0 false
    have hh := sumEval_congr (fun c => getter .h c T) (fun c => getter .h c T) (hq .h) 0 false
    have hs := sumEval_congr (fun c => getter .s c T) (fun c => getter .s c T) (hq .s) 0 false
    refine ⟨hcp, hh, hs, ?_⟩
    show gibbs _ _ = gibbs _ _
    have hh' : Estimate.HoRT ⟨cs, estRange (cs.map fun c => c.1.range)⟩ T =
        Estimate.HoRT ⟨cs', estRange (cs.map fun c => c.1.range)⟩ T := hh
    have hs' : Estimate.SoR ⟨cs, estRange (cs.map fun c => c.1.range)⟩ T =
        Estimate.SoR ⟨cs', estRange (cs.map fun c => c.1.range)⟩ T := hs
    rw [hh', hs']

/-- the C13 view of the state after `update` is `Merge.update`'s result: the state machine refines the C13 model -/
theorem update_ok_built (ev : RawEval) (self : Obj) (d : Corr) (ow : Bool) (h : (update ev self d ow).2 = none) :
    (update ev self d ow).1.built = !(update ev self d ow).1.c.cp.isEmpty := by
  unfold update at h ⊢
  simp only at h ⊢
  cases hm : mergeCp ow self.c.cp self.c.cp d.cp with
  | error e1 => simp [hm] at h
  | ok cp =>
    simp only [hm] at h ⊢
    cases hr : mergeRefs ev ow self.c d cp (unionRange self.c.range d.range) with
    | error e2 => simp [hr] at h
    | ok HS =>
      obtain ⟨H, S⟩ := HS
      simp only [hr] at h ⊢
      cases hv : checkValid cp self.c.Tref (unionRange self.c.range d.range) with
      | error e3 => simp [hv] at h
      | ok u =>
        simp only [hv] at h ⊢
        have hs : setupCheck cp self.c.Tref (unionRange self.c.range d.range) = .ok () := setupCheck_of_checkValid hv
        rw [Merge.setup_ok (c := ⟨H, S, cp, self.c.Tref, unionRange self.c.range d.range⟩) hs]

theorem update_refines {S : Spl} {o : Incomplete} (hf : FreshS S o) (d : Corr) (ow : Bool) :
    toObj (stepUpdate S o d ow).1 = (update (rawEvalOf S) (toObj o) d ow).1 := by
  unfold stepUpdate
  simp only
  cases hu : (update (rawEvalOf S) (toObj o) d ow).2 with
  | some e => exact (update_atomic _ _ _ _ e hu).symm
  | none =>
    simp only
    obtain ⟨hv, -, hn⟩ := update_ok_data (rawEvalOf S) (toObj o) d ow hu
    have hbuilt := update_ok_built (rawEvalOf S) (toObj o) d ow hu
    have hn' := hn hf.nodup
    have hvp := (checkValid_iff _ _ _).mp hv
    generalize (update (rawEvalOf S) (toObj o) d ow).1 = r at hv hn' hvp hbuilt ⊢
    obtain ⟨c, b⟩ := r
    simp only at hv hn' hvp hbuilt ⊢
    subst hbuilt
    have hs := setup_ok_of_valid S (o := ⟨c.H, c.S, c.cp, c.Tref, c.range, none⟩) hvp hn'
    have hfr := freshS_of_setup (S := S) (o := ⟨c.H, c.S, c.cp, c.Tref, c.range, none⟩) (baseInitOk_of_valid hvp) hn' hs
    have hh := setup_held S ⟨c.H, c.S, c.cp, c.Tref, c.range, none⟩
    obtain ⟨-, -, f3, -, -⟩ := setup_fields S ⟨c.H, c.S, c.cp, c.Tref, c.range, none⟩
    cases hst : setup S ⟨c.H, c.S, c.cp, c.Tref, c.range, none⟩ with
    | mk o' e =>
      rw [hst] at hs hfr hh f3
      simp only at hs hfr hh f3
      subst hs
      simp only [toObj]
      have hc : held o' = c := hh
      rw [hc]
      congr 1
      cases hcp : o'.cp with
      | nil => rw [hfr.nocp hcp, ← f3, hcp]; rfl
      | cons p ps =>
        obtain ⟨_, _, dd, -, hcorr, -, -⟩ := hfr.hascp (by rw [hcp]; simp)
        rw [hcorr, ← f3, hcp]; rfl

/-! ### the translation of reference values inside `update` is the C05 evaluation -/

/-- exception classes of the getters, read as C13's `UErr` -/
def liftOut : Except Err Rat → Except UErr Rat
  | .ok v => .ok v
  | .error .nonfinite => .error .zeroDiv
  | .error .incomplete => .error .incomplete
  | .error .assertion => .error .assertion
  | .error _ => .error .value

/-- what the constructor leaves when there is a table -/
theorem construct_cons {S : Spl} {c : Corr} {o : Incomplete} (h : construct S c = .ok o) {p : Pt} {ps : List Pt}
    (hcp : c.cp = p :: ps) :
    ∃ d, RawData.mk (S (sortPts c.cp)) (c.H.getD 0) (c.S.getD 0) (sortPts c.cp) c.Tref c.range = .ok d ∧
      o = ⟨c.H, c.S, c.cp, c.Tref, c.range, some d⟩ := by
  obtain ⟨-, -, -, hs⟩ := construct_ok h
  simp only [setup, hcp] at hs
  rw [hcp]
  cases hmk : RawData.mk (S (sortPts (p :: ps))) (c.H.getD 0) (c.S.getD 0) (sortPts (p :: ps)) c.Tref c.range with
  | error e => rw [hmk] at hs; simp at hs
  | ok d =>
    rw [hmk] at hs
    simp only [Prod.mk.injEq, and_true] at hs
    exact ⟨d, rfl, hs.symm⟩

/-- C13's range test of the temporary correlation is the range check of its table correlation -/
theorem inRange_iff {ip : Interp} {h s : Rat} {cp : List Pt} {Tref : Rat} {range : Option Range} {d : RawData}
    (hmk : RawData.mk ip h s (sortPts cp) Tref range = .ok d) (hne : cp ≠ []) (T : Rat) :
    Merge.inRange cp range T = true ↔ d.range.1 ≤ T ∧ T ≤ d.range.2 := by
  have hb := RawData.mk_built hmk
  cases range with
  | some r =>
    obtain ⟨lo, hi⟩ := r
    rw [hb.range_some (lo, hi) rfl]
    simp [Merge.inRange, not_or, not_lt]
  | none =>
    rw [hb.range_none rfl]
    obtain ⟨mn, hmn⟩ := minKey_isSome hne
    obtain ⟨mx, hmx⟩ := maxKey_isSome hne
    obtain ⟨mnmem, mnle⟩ := minKey_spec hmn
    obtain ⟨mxmem, mxle⟩ := maxKey_spec hmx
    have hmem : ∀ q, q ∈ sortPts cp ↔ q ∈ cp := fun q => (sortPts_perm cp).mem_iff
    have e1 : mn = d.minT := by
      apply le_antisymm
      · exact mnle _ (mem_keys_iff.mpr ⟨_, (hmem _).mp hb.min_mem, rfl⟩)
      · obtain ⟨q, hq, rfl⟩ := mem_keys_iff.mp mnmem
        exact hb.min_le q ((hmem q).mpr hq)
    have e2 : mx = d.maxT := by
      apply le_antisymm
      · obtain ⟨q, hq, rfl⟩ := mem_keys_iff.mp mxmem
        exact hb.le_max q ((hmem q).mpr hq)
      · exact mxle _ (mem_keys_iff.mpr ⟨_, (hmem _).mp hb.max_mem, rfl⟩)
    subst e1 e2
    simp [Merge.inRange, hmn, hmx, not_or, not_lt]

theorem hNum_refs (d : RawData) (s : Rat) (T : Rat) : ({ d with Sref := s } : RawData).hNum T = d.hNum T := rfl
theorem sVal_refs (d : RawData) (h : Rat) (T : Rat) : ({ d with Href := h } : RawData).sVal T = d.sVal T := rfl

/-- **away from the reference temperature** (and from 0 K) C13's `getH` over `rawEvalOf S` is the C05 getter of the
constructed correlation -/
theorem getH_is_thermo {S : Spl} {c : Corr} {o : Incomplete} (hc : construct S c = .ok o) (T : Rat)
    (h0 : T = 0 → T = c.Tref)
    (href : T = c.Tref → T ≠ 0 → ∀ d, o.corr = some d → d.HoRT T = .ok d.Href) :
    Merge.getH (rawEvalOf S) c T = liftOut (o.HoRT T).1 := by
  cases hcp : c.cp with
  | nil =>
    have e := construct_eq S ⟨c.H, c.S, c.cp, c.Tref, c.range, none⟩
    have hh : held ⟨c.H, c.S, c.cp, c.Tref, c.range, none⟩ = c := rfl
    obtain ⟨-, -, -, hs⟩ := construct_ok hc
    simp only [setup, hcp] at hs
    simp only [Prod.mk.injEq, and_true] at hs
    subst hs
    unfold Merge.getH Incomplete.HoRT
    cases c.H with
    | none => rfl
    | some h => simp [hcp, liftOut]
  | cons p ps =>
    obtain ⟨cH, cS, ccp, cT, cr⟩ := c
    simp only at hcp
    subst hcp
    obtain ⟨d, hmk, rfl⟩ := construct_cons hc rfl
    simp only at hmk h0 href
    have hb := RawData.mk_built hmk
    have hne : (p :: ps) ≠ [] := by simp
    have hin := inRange_iff hmk hne T
    unfold Merge.getH Incomplete.HoRT
    simp only
    cases cH with
    | none => rfl
    | some h =>
      simp only [List.isEmpty_cons, Bool.false_eq_true, if_false]
      by_cases hr : d.range.1 ≤ T ∧ T ≤ d.range.2
      · rw [if_pos (hin.mpr hr)]
        have hd : d.HoRT T = if T = 0 then .error .nonfinite else .ok (d.hNum T / T) := by
          unfold RawData.HoRT
          rw [checkRange_ok.mpr hr]
        unfold Merge.evalAt
        by_cases hT : T = cT
        · rw [if_pos hT]
          by_cases hz : T = 0
          · rw [if_pos hz, hd, if_pos hz]; rfl
          · rw [if_neg hz, href hT hz d rfl, hb.href]; rfl
        · rw [if_neg hT]
          have hz : T ≠ 0 := fun hz => hT (h0 hz)
          rw [hd, if_neg hz]
          simp only [rawEvalOf]
          have := mk_refs (S (sortPts (p :: ps))) ((some h : Option Rat).getD 0) (cS.getD 0) h 0 (sortPts (p :: ps)) cT cr
          rw [hmk] at this
          simp only [Except.map] at this
          rw [this]
          simp only [convertErr, liftOut]
          have : ({ d with Href := h, Sref := 0 } : RawData).hNum T = d.hNum T := by
            have e : d.Href = h := by rw [hb.href]; rfl
            subst e; rfl
          rw [this]
      · have hf : Merge.inRange (p :: ps) cr T = false := by
          cases hx : Merge.inRange (p :: ps) cr T with
          | false => rfl
          | true => exact absurd (hin.mp hx) hr
        rw [hf]
        simp only [Bool.false_eq_true, if_false]
        have : d.HoRT T = .error .outside := by
          unfold RawData.HoRT
          rw [checkRange_err hr]
        rw [this]; rfl

theorem getS_is_thermo {S : Spl} {c : Corr} {o : Incomplete} (hc : construct S c = .ok o) (T : Rat)
    (href : T = c.Tref → ∀ d, o.corr = some d → d.SoR T = .ok d.Sref ∧ T ≠ 0) :
    Merge.getS (rawEvalOf S) c T = liftOut (o.SoR T).1 := by
  cases hcp : c.cp with
  | nil =>
    obtain ⟨-, -, -, hs⟩ := construct_ok hc
    simp only [setup, hcp] at hs
    simp only [Prod.mk.injEq, and_true] at hs
    subst hs
    unfold Merge.getS Incomplete.SoR
    cases c.S with
    | none => rfl
    | some h => simp [hcp, liftOut]
  | cons p ps =>
    obtain ⟨cH, cS, ccp, cT, cr⟩ := c
    simp only at hcp
    subst hcp
    obtain ⟨d, hmk, rfl⟩ := construct_cons hc rfl
    simp only at hmk href
    have hb := RawData.mk_built hmk
    have hne : (p :: ps) ≠ [] := by simp
    have hin := inRange_iff hmk hne T
    unfold Merge.getS Incomplete.SoR
    simp only
    cases cS with
    | none => rfl
    | some s =>
      simp only [List.isEmpty_cons, Bool.false_eq_true, if_false]
      by_cases hr : d.range.1 ≤ T ∧ T ≤ d.range.2
      · rw [if_pos (hin.mpr hr)]
        have hd : d.SoR T = .ok (d.sVal T) := by
          unfold RawData.SoR
          rw [checkRange_ok.mpr hr]
        unfold Merge.evalAt
        by_cases hT : T = cT
        · rw [if_pos hT]
          obtain ⟨h1, hz⟩ := href hT d rfl
          rw [if_neg hz, h1, hb.sref]; rfl
        · rw [if_neg hT, hd]
          simp only [rawEvalOf]
          have := mk_refs (S (sortPts (p :: ps))) (cH.getD 0) ((some s : Option Rat).getD 0) 0 s (sortPts (p :: ps)) cT cr
          rw [hmk] at this
          simp only [Except.map] at this
          rw [this]
          simp only [convertErr, liftOut]
          have : ({ d with Href := 0, Sref := s } : RawData).sVal T = d.sVal T := by
            have e : d.Sref = s := by rw [hb.sref]; rfl
            subst e; rfl
          rw [this]
      · have hf : Merge.inRange (p :: ps) cr T = false := by
          cases hx : Merge.inRange (p :: ps) cr T with
          | false => rfl
          | true => exact absurd (hin.mp hx) hr
        rw [hf]
        simp only [Bool.false_eq_true, if_false]
        have : d.SoR T = .error .outside := by
          unfold RawData.SoR
          rw [checkRange_err hr]
        rw [this]; rfl

end PGA.CorrHistory
