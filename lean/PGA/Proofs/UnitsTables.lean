import PGA.Spec.SIExt
/-!
# Decidable table checks for C10 and the lemmas that lift them to statements about `lookup`

`checkX … = true` is decided by the kernel over the regenerated tables (`PGA.Gen.Units`);
the `…_sound` lemmas turn the Boolean into the proposition the property talks about.
-/
namespace PGA.Units
open PGA.SI

/-- the name `nm` resolves to the exact magnitude `v` and dimension `dm` admitted by `r` scaled by `k` -/
def ResolvesTo (cfg : Cfg) (nm : Name) (k : Rat) (r : Ref) : Prop :=
  ∃ v dm, lookup cfg nm = .ok ⟨.exact v, dm⟩ ∧ dm = r.dim ∧ r.admits k v = true

def checkResolves (cfg : Cfg) (nm : Name) (k : Rat) (r : Ref) : Bool :=
  match lookup cfg nm with
  | .ok ⟨.exact v, dm⟩ => dm == r.dim && r.admits k v
  | _ => false

theorem checkResolves_sound {cfg nm k r} (h : checkResolves cfg nm k r = true) : ResolvesTo cfg nm k r := by
  unfold checkResolves at h
  split at h
  · next v dm heq =>
    simp only [Bool.and_eq_true, beq_iff_eq] at h
    exact ⟨v, dm, heq, h.1, h.2⟩
  · exact absurd h (by simp)

/-- a prefixed (or bare, `p = []`, `k = 0`) name: the unit itself if the concatenation is a unit name
of the reference, otherwise `10^k` times the unit -/
def checkPrefixed (cfg : Cfg) (p : Name) (k : Int) (r : Ref) : Bool :=
  match find (p ++ r.name) with
  | some r' => checkResolves cfg (p ++ r.name) 1 r'
  | none => checkResolves cfg (p ++ r.name) ((10 : Rat) ^ k) r

def allPrefixes : List (Name × Int) := ([], 0) :: SI.prefixes

def checkAllUnits (cfg : Cfg) : Bool :=
  SI.units.all fun r => allPrefixes.all fun pk => checkPrefixed cfg pk.1 pk.2 r

theorem checkAllUnits_sound {cfg} (h : checkAllUnits cfg = true) :
    ∀ r ∈ SI.units, ∀ pk ∈ allPrefixes,
      (find (pk.1 ++ r.name) = none → ResolvesTo cfg (pk.1 ++ r.name) ((10 : Rat) ^ pk.2) r) ∧
      (∀ r', find (pk.1 ++ r.name) = some r' → ResolvesTo cfg (pk.1 ++ r.name) 1 r') := by
  intro r hr pk hpk
  have h1 := (List.all_eq_true.mp h) r hr
  have h2 := (List.all_eq_true.mp h1) pk hpk
  unfold checkPrefixed at h2
  constructor
  · intro hn
    rw [hn] at h2
    exact checkResolves_sound h2
  · intro r' hs
    rw [hs] at h2
    exact checkResolves_sound h2

/-- the prefixed names that are themselves unit names -/
def collisions : List (Name × Name × Name) :=
  (SI.units.map fun r => (SI.prefixes.filter fun pk => (find (pk.1 ++ r.name)).isSome).map
      fun pk => (pk.1, r.name, pk.1 ++ r.name)).flatten

/-- the model builds the live key list; every live name is a unit of the reference or a new unit consistent with
its definition (a unit of the extended reference); every reference unit is in the live database -/
def checkNames (cfg : Cfg) : Bool :=
  (cfg.db.map (·.1) == PGA.Gen.Units.dbNames) &&
  PGA.Gen.Units.dbNames.all (fun n => (extFind n).isSome) &&
  SI.units.all (fun r => PGA.Gen.Units.dbNames.contains r.name)

/-! ## units the reference does not know (`PGA/Spec/SIExt.lean`) -/

/-- every live unit the reference does not know is acceptable: no spelling of it had a meaning, and its definition
evaluates over the reference extended by the new units before it -/
def checkNewAccepted : Bool := liveVerdicts.all fun x => x.2.2.isAccepted

/-- T1 for the new units: the package's value of every spelling is `10^k` times what the definition means -/
def checkNewUnits (cfg : Cfg) : Bool :=
  newUnits.all fun r => allPrefixes.all fun pk => checkResolves cfg (pk.1 ++ r.name) ((10 : Rat) ^ pk.2) r

theorem checkNewUnits_sound {cfg} (h : checkNewUnits cfg = true) :
    ∀ r ∈ newUnits, ∀ pk ∈ allPrefixes, ResolvesTo cfg (pk.1 ++ r.name) ((10 : Rat) ^ pk.2) r := by
  intro r hr pk hpk
  have h1 := (List.all_eq_true.mp h) r hr
  exact checkResolves_sound ((List.all_eq_true.mp h1) pk hpk)

/-- the name `nm` resolves over `cfg` to exactly the magnitude `v` and the dimension `d` -/
def resolvesExactly (cfg : Cfg) (nm : Name) (v : Rat) (d : Dim) : Bool :=
  match lookup cfg nm with
  | .ok ⟨.exact q, dm⟩ => decide (q = v) && decide (dm = d)
  | _ => false

theorem resolvesExactly_sound {cfg nm v d} (h : resolvesExactly cfg nm v d = true) :
    lookup cfg nm = .ok ⟨.exact v, d⟩ := by
  unfold resolvesExactly at h
  split at h
  · next q dm heq =>
    simp only [Bool.and_eq_true, decide_eq_true_eq] at h
    rw [heq, h.1, h.2]
  · exact absurd h (by simp)

/-- the reference table read through the three-step lookup means what it says: every spelling `p ++ name` resolves
to `10^k · value` with the unit's dimension, unless it is itself a unit name (`min`, `ft`), which it then is -/
def checkRefSelf : Bool :=
  SI.units.all fun r => allPrefixes.all fun pk =>
    match find (pk.1 ++ r.name) with
    | some r' => resolvesExactly (cfgOf SI.units) (pk.1 ++ r.name) r'.value r'.dim
    | none => resolvesExactly (cfgOf SI.units) (pk.1 ++ r.name) ((10 : Rat) ^ pk.2 * r.value) r.dim

theorem checkRefSelf_sound (h : checkRefSelf = true) :
    ∀ r ∈ SI.units, ∀ pk ∈ allPrefixes,
      (find (pk.1 ++ r.name) = none →
        lookup (cfgOf SI.units) (pk.1 ++ r.name) = .ok ⟨.exact ((10 : Rat) ^ pk.2 * r.value), r.dim⟩) ∧
      (∀ r', find (pk.1 ++ r.name) = some r' →
        lookup (cfgOf SI.units) (pk.1 ++ r.name) = .ok ⟨.exact r'.value, r'.dim⟩) := by
  intro r hr pk hpk
  have h1 := (List.all_eq_true.mp h) r hr
  have h2 := (List.all_eq_true.mp h1) pk hpk
  constructor
  · intro hn
    rw [hn] at h2
    exact resolvesExactly_sound h2
  · intro r' hs
    rw [hs] at h2
    exact resolvesExactly_sound h2

/-- every spelling of every new unit resolves over the extended reference to `10^k` times what the unit means -/
def checkExtNew : Bool :=
  newUnits.all fun r => allPrefixes.all fun pk =>
    resolvesExactly extCfg (pk.1 ++ r.name) ((10 : Rat) ^ pk.2 * r.value) r.dim

theorem checkExtNew_sound (h : checkExtNew = true) :
    ∀ r ∈ newUnits, ∀ pk ∈ allPrefixes,
      lookup extCfg (pk.1 ++ r.name) = .ok ⟨.exact ((10 : Rat) ^ pk.2 * r.value), r.dim⟩ := by
  intro r hr pk hpk
  have h1 := (List.all_eq_true.mp h) r hr
  exact resolvesExactly_sound ((List.all_eq_true.mp h1) pk hpk)

/-- the live prefix table is the SI one -/
def checkPrefixes (cfg : Cfg) : Bool :=
  SI.prefixes.all (fun pk => cfg.prefixes.find pk.1 == some ((10 : Rat) ^ pk.2)) &&
  cfg.prefixes.all (fun pv => SI.prefixes.any (fun pk => pk.1 == pv.1))

theorem checkPrefixes_sound {cfg} (h : checkPrefixes cfg = true) :
    (∀ pk ∈ SI.prefixes, cfg.prefixes.find pk.1 = some ((10 : Rat) ^ pk.2)) ∧
    (∀ pv ∈ cfg.prefixes, ∃ pk ∈ SI.prefixes, pk.1 = pv.1) := by
  unfold checkPrefixes at h
  rw [Bool.and_eq_true] at h
  refine ⟨fun pk hpk => ?_, fun pv hpv => ?_⟩
  · have := (List.all_eq_true.mp h.1) pk hpk
    exact beq_iff_eq.mp this
  · have := (List.all_eq_true.mp h.2) pv hpv
    obtain ⟨pk, hm, he⟩ := List.any_eq_true.mp this
    exact ⟨pk, hm, beq_iff_eq.mp he⟩

def Mag.isExactPos : Mag → Bool
  | .exact q => decide (0 < q)
  | .inexact _ => false

def Dim.isIntegral (d : Dim) : Bool := d.toList.all isInt

/-- every database entry is an exact positive magnitude with integer exponents; prefixes are positive;
the snapping threshold lies strictly between 0 and 1/2 -/
def checkIntegral (cfg : Cfg) : Bool :=
  cfg.db.all (fun kv => kv.2.mag.isExactPos && kv.2.dim.isIntegral) &&
  cfg.prefixes.all (fun pv => decide (0 < pv.2)) &&
  decide (0 < cfg.thr) && decide (cfg.thr < 1 / 2)

/-- dimension described by a list of (primitive name, exponent) -/
def dimOfExps : List (Name × Dec) → Option Dim
  | [] => some Dim.zero
  | (n, e) :: rest =>
    match Dim.ofPrim n, dimOfExps rest with
    | some b, some d => some (Dim.zip (· + ·) (b.map (e.toRat * ·)) d)
    | _, _ => none

def checkGasConstant : Bool :=
  dimOfExps PGA.Gen.Units.gasConstantExps == some SI.gasConstant.dim &&
  SI.gasConstant.admits 1 PGA.Gen.Units.gasConstantValue.toRat

end PGA.Units
