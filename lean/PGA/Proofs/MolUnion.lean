import PGA.Spec.MolUnion
import PGA.Proofs.MolIso
import PGA.Proofs.Decompose
/-! The disjoint union of two graphs (`Mol.union`): it is well formed, both injections are `OpenMap`s, the neighbour
lists are those of the parts, and the Benson perception acts on the two parts separately. -/
namespace PGA.Spec
open PGA PGA.Arom

theorem union_natoms (A B : Mol) : (A.union B).natoms = A.natoms + B.natoms := by
  simp [Mol.union, Mol.natoms]

theorem add_injective (k : Nat) : Function.Injective (fun x : Nat => x + k) :=
  fun _ _ h => Nat.add_right_cancel h

theorem relabelBond_id (e : Bond) : relabelBond id e = e := by
  cases e; simp [relabelBond]

theorem mol_ext {m m' : Mol} (h1 : m.atoms = m'.atoms) (h2 : m.bonds = m'.bonds) (h3 : m.rings = m'.rings) :
    m = m' := by
  cases m; cases m'; simp only at h1 h2 h3; subst h1 h2 h3; rfl

/-- every ring atom of a well-formed graph is an atom -/
theorem wf_rings_lt (m : Mol) (h : m.wf = true) : ∀ r ∈ m.rings, ∀ x ∈ r, x < m.natoms := by
  simp only [Mol.wf, Bool.and_eq_true, List.all_eq_true, decide_eq_true_eq] at h
  intro r hr x hx
  exact (h.2 r hr).2 x hx

/-! ### a bond none of whose endpoints is `x` -/
theorem joins_eq_false (e : Bond) (x y : Nat) (ha : e.a ≠ x) (hb : e.b ≠ x) : e.joins x y = false := by
  cases h : e.joins x y
  · rfl
  · simp only [Bond.joins, Bool.or_eq_true, Bool.and_eq_true, beq_iff_eq] at h
    rcases h with ⟨h1, _⟩ | ⟨_, h2⟩
    · exact absurd h1 ha
    · exact absurd h2 hb

theorem touches_eq_false (e : Bond) (x : Nat) (ha : e.a ≠ x) (hb : e.b ≠ x) : e.touches x = false := by
  cases h : e.touches x
  · rfl
  · simp only [Bond.touches, Bool.or_eq_true, beq_iff_eq] at h
    rcases h with h | h
    · exact absurd h ha
    · exact absurd h hb

theorem union_bond_sides (A B : Mol) (hA : A.wf = true) (hB : B.wf = true) :
    ∀ e ∈ (A.union B).bonds, (e.a < A.natoms ∧ e.b < A.natoms) ∨ (A.natoms ≤ e.a ∧ A.natoms ≤ e.b) := by
  have _ := hB
  intro e he
  simp only [Mol.union, List.mem_append, List.mem_map] at he
  rcases he with he | ⟨e0, _, rfl⟩
  · obtain ⟨ha, hb, _⟩ := (PGA.Match.wf_bonds A hA).1 e he
    exact Or.inl ⟨ha, hb⟩
  · exact Or.inr ⟨Nat.le_add_left _ _, Nat.le_add_left _ _⟩

theorem wf_union (A B : Mol) (hA : A.wf = true) (hB : B.wf = true) : (A.union B).wf = true := by
  obtain ⟨a1, a2, a3⟩ := PGA.Match.wf_bonds A hA
  obtain ⟨b1, b2, b3⟩ := PGA.Match.wf_bonds B hB
  have a4 := wf_rings_lt A hA
  have b4 := wf_rings_lt B hB
  unfold Mol.wf
  rw [union_natoms]
  simp only [Bool.and_eq_true, List.all_eq_true, decide_eq_true_eq, bne_iff_ne, ne_eq]
  refine ⟨⟨?_, ?_⟩, ?_⟩
  · intro e he
    simp only [Mol.union, List.mem_append, List.mem_map] at he
    rcases he with he | ⟨e0, he0, rfl⟩
    · obtain ⟨ha, hb, hne⟩ := a1 e he
      exact ⟨⟨by omega, by omega⟩, hne⟩
    · obtain ⟨ha, hb, hne⟩ := b1 e0 he0
      simp only [relabelBond]
      exact ⟨⟨by omega, by omega⟩, by omega⟩
  · simp only [Mol.union]
    rw [List.pairwise_append]
    refine ⟨?_, ?_, ?_⟩
    · exact a2.imp (by intro a b hab; simp [hab])
    · rw [List.pairwise_map]
      refine b2.imp ?_
      intro e e' hab
      have : (relabelBond (fun x => x + A.natoms) e').joins (relabelBond (fun x => x + A.natoms) e).a
          (relabelBond (fun x => x + A.natoms) e).b = e'.joins e.a e.b :=
        joins_relabel (add_injective A.natoms) e' e.a e.b
      rw [this, hab]; rfl
    · intro e he e' he'
      obtain ⟨e0, _, rfl⟩ := List.mem_map.1 he'
      obtain ⟨ha, hb, _⟩ := a1 e he
      rw [joins_eq_false]
      · rfl
      · simp only [relabelBond]; omega
      · simp only [relabelBond]; omega
  · intro r hr
    simp only [Mol.union, List.mem_append, List.mem_map] at hr
    rcases hr with hr | ⟨r0, hr0, rfl⟩
    · refine ⟨a3 r hr, fun x hx => ?_⟩
      have := a4 r hr x hx
      omega
    · refine ⟨(b3 r0 hr0).map (add_injective A.natoms), fun x hx => ?_⟩
      obtain ⟨y, hy, rfl⟩ := List.mem_map.1 hx
      have := b4 r0 hr0 y hy
      omega

/-! ### lookups in the union -/
theorem atom?_union_left (A B : Mol) (x : Nat) (hx : x < A.natoms) : (A.union B).atom? x = A.atom? x := by
  unfold Mol.atom? Mol.union
  exact List.getElem?_append_left hx

theorem atom?_union_right (A B : Mol) (x : Nat) : (A.union B).atom? (x + A.natoms) = B.atom? x := by
  unfold Mol.atom? Mol.union
  simp only
  rw [List.getElem?_append_right (by unfold Mol.natoms; omega)]
  congr 1
  unfold Mol.natoms; omega

/-- a shifted bond has no endpoint below the shift -/
theorem shifted_ne (k : Nat) (e : Bond) (x : Nat) (hx : x < k) :
    (relabelBond (fun x => x + k) e).a ≠ x ∧ (relabelBond (fun x => x + k) e).b ≠ x := by
  simp only [relabelBond]; constructor <;> omega

theorem bondBetween_union_left (A B : Mol) (x y : Nat) (hx : x < A.natoms) :
    (A.union B).bondBetween x y = A.bondBetween x y := by
  unfold Mol.bondBetween Mol.union
  simp only
  rw [List.find?_append]
  have : (B.bonds.map (relabelBond (fun x => x + A.natoms))).find? (fun e => e.joins x y) = none := by
    rw [List.find?_eq_none]
    intro e he
    obtain ⟨e0, _, rfl⟩ := List.mem_map.1 he
    obtain ⟨h1, h2⟩ := shifted_ne A.natoms e0 x hx
    rw [joins_eq_false _ _ _ h1 h2]; simp
  rw [this, Option.or_none]

theorem bondBetween_union_right (A B : Mol) (hA : A.wf = true) (x y : Nat) :
    (A.union B).bondBetween (x + A.natoms) (y + A.natoms) =
      (B.bondBetween x y).map (relabelBond (fun x => x + A.natoms)) := by
  unfold Mol.bondBetween Mol.union
  simp only
  rw [List.find?_append]
  have : A.bonds.find? (fun e => e.joins (x + A.natoms) (y + A.natoms)) = none := by
    rw [List.find?_eq_none]
    intro e he
    obtain ⟨ha, hb, _⟩ := (PGA.Match.wf_bonds A hA).1 e he
    rw [joins_eq_false _ _ _ (by omega) (by omega)]; simp
  rw [this, Option.none_or, List.find?_map]
  congr 2
  funext e
  exact joins_relabel (add_injective A.natoms) e x y

theorem bondsOf_union_left (A B : Mol) (x : Nat) (hx : x < A.natoms) : (A.union B).bondsOf x = A.bondsOf x := by
  unfold Mol.bondsOf Mol.union
  simp only
  rw [List.filter_append]
  have : (B.bonds.map (relabelBond (fun x => x + A.natoms))).filter (fun e => e.touches x) = [] := by
    rw [List.filter_eq_nil_iff]
    intro e he
    obtain ⟨e0, _, rfl⟩ := List.mem_map.1 he
    obtain ⟨h1, h2⟩ := shifted_ne A.natoms e0 x hx
    rw [touches_eq_false _ _ h1 h2]; simp
  rw [this, List.append_nil]

theorem bondsOf_union_right (A B : Mol) (hA : A.wf = true) (x : Nat) :
    (A.union B).bondsOf (x + A.natoms) = (B.bondsOf x).map (relabelBond (fun x => x + A.natoms)) := by
  unfold Mol.bondsOf Mol.union
  simp only
  rw [List.filter_append]
  have : A.bonds.filter (fun e => e.touches (x + A.natoms)) = [] := by
    rw [List.filter_eq_nil_iff]
    intro e he
    obtain ⟨ha, hb, _⟩ := (PGA.Match.wf_bonds A hA).1 e he
    rw [touches_eq_false _ _ (by omega) (by omega)]; simp
  rw [this, List.nil_append, List.filter_map]
  congr 1
  apply List.filter_congr
  intro e _
  exact touches_relabel (add_injective A.natoms) e x

theorem ringsThrough_union_left (A B : Mol) (hA : A.wf = true) (x : Nat) (hx : x < A.natoms) :
    ringsThrough (A.union B) x = ringsThrough A x := by
  have _ := hA
  unfold ringsThrough Mol.union
  simp only
  rw [List.filter_append]
  have : (B.rings.map (List.map (fun x => x + A.natoms))).filter (fun r => decide (x ∈ r)) = [] := by
    rw [List.filter_eq_nil_iff]
    intro r hr
    obtain ⟨r0, _, rfl⟩ := List.mem_map.1 hr
    simp only [decide_eq_true_eq, List.mem_map, not_exists, not_and]
    intro y _; omega
  rw [this, List.append_nil]

theorem ringsThrough_union_right (A B : Mol) (hA : A.wf = true) (x : Nat) :
    ringsThrough (A.union B) (x + A.natoms) = (ringsThrough B x).map (List.map (fun x => x + A.natoms)) := by
  unfold ringsThrough Mol.union
  simp only
  rw [List.filter_append]
  have : A.rings.filter (fun r => decide (x + A.natoms ∈ r)) = [] := by
    rw [List.filter_eq_nil_iff]
    intro r hr
    simp only [decide_eq_true_eq]
    intro hx
    have := wf_rings_lt A hA r hr _ hx
    omega
  rw [this, List.nil_append, List.filter_map]
  congr 1
  apply List.filter_congr
  intro r _
  simp only [Function.comp]
  rw [Bool.eq_iff_iff, decide_eq_true_eq, decide_eq_true_eq]
  exact mem_map_inj (add_injective A.natoms) r x

theorem exists_bond_iff (m : Mol) (x : Nat) (P : Bond → Prop) :
    (∃ e ∈ m.bonds, e.touches x = true ∧ P e) ↔ (∃ e ∈ m.bondsOf x, P e) := by
  unfold Mol.bondsOf
  simp only [List.mem_filter]
  constructor
  · rintro ⟨e, he, ht, hp⟩; exact ⟨e, ⟨he, ht⟩, hp⟩
  · rintro ⟨e, ⟨he, ht⟩, hp⟩; exact ⟨e, he, ht, hp⟩

theorem union_openMap_left (A B : Mol) (hA : A.wf = true) (hB : B.wf = true) : OpenMap id A (A.union B) := by
  have _ := hB
  refine OpenMap.ofRingsEq Function.injective_id (fun x hx => atom?_union_left A B x hx) ?_ ?_ ?_ ?_
  · intro x y hx _
    simp only [id]
    rw [bondBetween_union_left A B x y hx]
    cases A.bondBetween x y with
    | none => rfl
    | some e => simp only [Option.map, relabelBond_id]
  · intro x y' e' hx hb
    simp only [id] at hb
    rw [bondBetween_union_left A B x y' hx] at hb
    have he : e' ∈ A.bonds := by unfold Mol.bondBetween at hb; exact List.mem_of_find?_eq_some hb
    have hj : e'.joins x y' = true := by
      unfold Mol.bondBetween at hb; exact List.find?_some (p := fun e : Bond => e.joins x y') hb
    obtain ⟨ha, hb', _⟩ := (PGA.Match.wf_bonds A hA).1 e' he
    refine ⟨y', ?_, rfl⟩
    simp only [Bond.joins, Bool.or_eq_true, Bool.and_eq_true, beq_iff_eq] at hj
    rcases hj with ⟨_, h2⟩ | ⟨h1, _⟩ <;> omega
  · intro x hx
    simp only [id]
    rw [exists_bond_iff, exists_bond_iff, bondsOf_union_left A B x hx]
  · intro x hx
    simp only [id]
    rw [ringsThrough_union_left A B hA x hx]
    simp

theorem union_openMap_right (A B : Mol) (hA : A.wf = true) (hB : B.wf = true) :
    OpenMap (· + A.natoms) B (A.union B) := by
  refine OpenMap.ofRingsEq (add_injective A.natoms) (fun x _ => atom?_union_right A B x)
    (fun x y _ _ => bondBetween_union_right A B hA x y) ?_ ?_ (fun x _ => ringsThrough_union_right A B hA x)
  · intro x y' e' hx hb
    have he : e' ∈ (A.union B).bonds := by unfold Mol.bondBetween at hb; exact List.mem_of_find?_eq_some hb
    have hj : e'.joins (x + A.natoms) y' = true := by
      unfold Mol.bondBetween at hb; exact List.find?_some (p := fun e : Bond => e.joins (x + A.natoms) y') hb
    simp only [Mol.union, List.mem_append, List.mem_map] at he
    simp only [Bond.joins, Bool.or_eq_true, Bool.and_eq_true, beq_iff_eq] at hj
    rcases he with he | ⟨e0, he0, rfl⟩
    · obtain ⟨ha, hb', _⟩ := (PGA.Match.wf_bonds A hA).1 e' he
      rcases hj with ⟨h1, _⟩ | ⟨_, h2⟩ <;> omega
    · obtain ⟨ha, hb', _⟩ := (PGA.Match.wf_bonds B hB).1 e0 he0
      simp only [relabelBond] at hj
      rcases hj with ⟨_, h2⟩ | ⟨h1, _⟩
      · exact ⟨e0.b, hb', h2.symm⟩
      · exact ⟨e0.a, ha, h1.symm⟩
  · intro x _
    show (∃ e ∈ (A.union B).bonds, e.touches (x + A.natoms) = true ∧ e.kind = .double) ↔ _
    rw [exists_bond_iff, exists_bond_iff, bondsOf_union_right A B hA x]
    constructor
    · rintro ⟨e', he', hk⟩
      obtain ⟨e, he, rfl⟩ := List.mem_map.1 he'
      exact ⟨e, he, hk⟩
    · rintro ⟨e, he, hk⟩
      exact ⟨_, List.mem_map.2 ⟨e, he, rfl⟩, hk⟩

/-! ### neighbour lists -/
theorem neighbours_union_left (A B : Mol) (hA : A.wf = true) (hB : B.wf = true) (i : Nat) (hi : i < A.natoms) :
    Decompose.neighbours (A.union B) i = Decompose.neighbours A i := by
  have _ := hA; have _ := hB
  unfold Decompose.neighbours
  rw [bondsOf_union_left A B i hi]

theorem neighbours_union_right (A B : Mol) (hA : A.wf = true) (hB : B.wf = true) (j : Nat) :
    Decompose.neighbours (A.union B) (j + A.natoms) = (Decompose.neighbours B j).map (· + A.natoms) := by
  have _ := hB
  unfold Decompose.neighbours
  rw [bondsOf_union_right A B hA j, List.map_map, List.map_map]
  apply List.map_congr_left
  intro e _
  exact other_relabel (add_injective A.natoms) e j

/-! ### the Benson perception on a union -/
theorem isC_union_left (A B : Mol) (x : Nat) (hx : x < A.natoms) : isC (A.union B) x = isC A x := by
  unfold isC; rw [atom?_union_left A B x hx]

theorem isC_union_right (A B : Mol) (x : Nat) : isC (A.union B) (x + A.natoms) = isC B x := by
  unfold isC; rw [atom?_union_right A B x]

theorem kindAt_union_left (A B : Mol) (x y : Nat) (hx : x < A.natoms) : kindAt (A.union B) x y = kindAt A x y := by
  unfold kindAt; rw [bondBetween_union_left A B x y hx]

theorem kindAt_union_right (A B : Mol) (hA : A.wf = true) (x y : Nat) :
    kindAt (A.union B) (x + A.natoms) (y + A.natoms) = kindAt B x y := by
  unfold kindAt; rw [bondBetween_union_right A B hA x y]
  cases B.bondBetween x y <;> rfl

theorem eligible_union_left (A B : Mol) (r : List Nat) (hr : ∀ x ∈ r, x < A.natoms) :
    eligible (A.union B) r = eligible A r := by
  rcases r with _ | ⟨a0, _ | ⟨a1, _ | ⟨a2, _ | ⟨a3, _ | ⟨a4, _ | ⟨a5, _ | ⟨a6, l⟩⟩⟩⟩⟩⟩⟩ <;> try rfl
  have h0 := hr a0 (by simp)
  have h1 := hr a1 (by simp)
  have h2 := hr a2 (by simp)
  have h3 := hr a3 (by simp)
  have h4 := hr a4 (by simp)
  have h5 := hr a5 (by simp)
  rw [eligible_six, eligible_six]
  simp only [isC_union_left, kindAt_union_left, h0, h1, h2, h3, h4, h5]

theorem eligible_union_right (A B : Mol) (hA : A.wf = true) (r : List Nat) :
    eligible (A.union B) (r.map (fun x => x + A.natoms)) = eligible B r := by
  rcases r with _ | ⟨a0, _ | ⟨a1, _ | ⟨a2, _ | ⟨a3, _ | ⟨a4, _ | ⟨a5, _ | ⟨a6, l⟩⟩⟩⟩⟩⟩⟩ <;> try rfl
  simp only [List.map_cons, List.map_nil]
  rw [eligible_six, eligible_six]
  simp only [isC_union_right, kindAt_union_right A B hA]

/-- a ring bond of `r` has both endpoints in `r` -/
theorem ringEdge_mem (r : List Nat) (e : Bond) (h : ringEdge r e = true) : e.a ∈ r ∧ e.b ∈ r := by
  rcases r with _ | ⟨a0, _ | ⟨a1, _ | ⟨a2, _ | ⟨a3, _ | ⟨a4, _ | ⟨a5, _ | ⟨a6, l⟩⟩⟩⟩⟩⟩⟩ <;>
    try (simp [ringEdge, edgePairs] at h; done)
  simp only [ringEdge, edgePairs, List.any_cons, List.any_nil, Bool.or_false, Bool.or_eq_true, Bond.joins,
    Bool.and_eq_true, beq_iff_eq] at h
  rcases h with h | h | h | h | h | h <;> rcases h with ⟨a, b⟩ | ⟨a, b⟩ <;> rw [a, b] <;> simp

theorem ringEdge_eq_false (r : List Nat) (e : Bond) (h : e.a ∉ r) : ringEdge r e = false := by
  cases hh : ringEdge r e
  · rfl
  · exact absurd (ringEdge_mem r e hh).1 h

theorem setAromatic_union_left (A B : Mol) (r : List Nat) (hr : ∀ x ∈ r, x < A.natoms) :
    setAromatic (A.union B) r = (setAromatic A r).union B := by
  apply mol_ext
  · show (A.atoms ++ B.atoms).mapIdx _ = A.atoms.mapIdx _ ++ B.atoms
    apply List.ext_getElem?
    intro i
    rw [List.getElem?_mapIdx]
    by_cases hi : i < A.atoms.length
    · rw [List.getElem?_append_left hi, List.getElem?_append_left (by rw [List.length_mapIdx]; exact hi),
        List.getElem?_mapIdx]
    · have hi' : A.atoms.length ≤ i := Nat.le_of_not_lt hi
      rw [List.getElem?_append_right hi', List.getElem?_append_right (by rw [List.length_mapIdx]; exact hi'),
        List.length_mapIdx]
      have hc : r.contains i = false := by
        cases hc : r.contains i
        · rfl
        · have := hr i (List.contains_iff_mem.1 hc)
          unfold Mol.natoms at this; omega
      cases B.atoms[i - A.atoms.length]? with
      | none => rfl
      | some a => simp only [Option.map, hc, Bool.false_eq_true, ↓reduceIte]
  · show (A.bonds ++ B.bonds.map _).map _ = A.bonds.map _ ++ B.bonds.map _
    rw [List.map_append, setAromatic_natoms, List.map_map]
    congr 1
    apply List.map_congr_left
    intro e _
    simp only [Function.comp]
    rw [ringEdge_eq_false]
    · rfl
    · intro hm
      have := hr _ hm
      simp only [relabelBond] at this
      omega
  · show A.rings ++ _ = A.rings ++ _
    rw [setAromatic_natoms]

theorem relabelBond_kind (π : Nat → Nat) (e : Bond) (k : BondKind) :
    relabelBond π { e with kind := k } = { relabelBond π e with kind := k } := rfl

theorem setAromatic_union_right (A B : Mol) (hA : A.wf = true) (r : List Nat) :
    setAromatic (A.union B) (r.map (fun x => x + A.natoms)) = A.union (setAromatic B r) := by
  apply mol_ext
  · show (A.atoms ++ B.atoms).mapIdx _ = A.atoms ++ B.atoms.mapIdx _
    apply List.ext_getElem?
    intro i
    rw [List.getElem?_mapIdx]
    by_cases hi : i < A.atoms.length
    · rw [List.getElem?_append_left hi, List.getElem?_append_left hi]
      have hc : (r.map (fun x => x + A.natoms)).contains i = false := by
        cases hc : (r.map (fun x => x + A.natoms)).contains i
        · rfl
        · obtain ⟨y, _, hy⟩ := List.mem_map.1 (List.contains_iff_mem.1 hc)
          unfold Mol.natoms at hy; omega
      cases A.atoms[i]? with
      | none => rfl
      | some a => simp only [Option.map, hc, Bool.false_eq_true, ↓reduceIte]
    · have hi' : A.atoms.length ≤ i := Nat.le_of_not_lt hi
      rw [List.getElem?_append_right hi', List.getElem?_append_right hi', List.getElem?_mapIdx]
      have hc : (r.map (fun x => x + A.natoms)).contains i = r.contains (i - A.atoms.length) := by
        have := contains_map_inj (add_injective A.natoms) r (i - A.atoms.length)
        rw [← this]
        congr 1
        unfold Mol.natoms; omega
      rw [hc]
  · show (A.bonds ++ B.bonds.map _).map _ = A.bonds ++ (B.bonds.map _).map _
    rw [List.map_append, List.map_map, List.map_map]
    congr 1
    · conv => rhs; rw [← List.map_id A.bonds]
      apply List.map_congr_left
      intro e he
      obtain ⟨ha, _, _⟩ := (PGA.Match.wf_bonds A hA).1 e he
      rw [ringEdge_eq_false]
      · rfl
      · intro hm
        obtain ⟨y, _, hy⟩ := List.mem_map.1 hm
        omega
    · apply List.map_congr_left
      intro e _
      simp only [Function.comp]
      rw [ringEdge_relabel (add_injective A.natoms)]
      split <;> rfl
  · rfl

theorem aromStep_natoms (m : Mol) (r : List Nat) : (aromStep m r).natoms = m.natoms := by
  unfold aromStep; split
  · exact setAromatic_natoms m r
  · rfl

theorem aromatizeRings_natoms (rs : List (List Nat)) (m : Mol) : (aromatizeRings rs m).natoms = m.natoms := by
  induction rs generalizing m with
  | nil => rfl
  | cons r rs ih =>
    unfold aromatizeRings at ih ⊢
    simp only [List.foldl_cons]
    rw [ih, aromStep_natoms]

theorem aromStep_union_left (A B : Mol) (r : List Nat) (hr : ∀ x ∈ r, x < A.natoms) :
    aromStep (A.union B) r = (aromStep A r).union B := by
  unfold aromStep
  rw [eligible_union_left A B r hr]
  split
  · exact setAromatic_union_left A B r hr
  · rfl

theorem aromStep_union_right (A B : Mol) (hA : A.wf = true) (r : List Nat) :
    aromStep (A.union B) (r.map (fun x => x + A.natoms)) = A.union (aromStep B r) := by
  unfold aromStep
  rw [eligible_union_right A B hA r]
  split
  · exact setAromatic_union_right A B hA r
  · rfl

theorem aromatizeRings_union_left (rs : List (List Nat)) (A B : Mol) (hr : ∀ r ∈ rs, ∀ x ∈ r, x < A.natoms) :
    aromatizeRings rs (A.union B) = (aromatizeRings rs A).union B := by
  induction rs generalizing A with
  | nil => rfl
  | cons r rs ih =>
    unfold aromatizeRings at ih ⊢
    simp only [List.foldl_cons]
    rw [aromStep_union_left A B r (hr r List.mem_cons_self)]
    apply ih
    intro r' hr' x hx
    rw [aromStep_natoms]
    exact hr r' (List.mem_cons_of_mem _ hr') x hx

theorem aromatizeRings_union_right (rs : List (List Nat)) (A B : Mol) (hA : A.wf = true) :
    aromatizeRings (rs.map (List.map (fun x => x + A.natoms))) (A.union B) = A.union (aromatizeRings rs B) := by
  induction rs generalizing B with
  | nil => rfl
  | cons r rs ih =>
    unfold aromatizeRings at ih ⊢
    simp only [List.map_cons, List.foldl_cons]
    rw [aromStep_union_right A B hA r]
    exact ih _

theorem aromatizeBenson_union (A B : Mol) (hA : A.wf = true) (hB : B.wf = true) :
    aromatizeBenson (A.union B) = (aromatizeBenson A).union (aromatizeBenson B) := by
  have _ := hB
  unfold aromatizeBenson
  show aromatizeRings (A.rings ++ B.rings.map (List.map (fun x => x + A.natoms))) (A.union B) = _
  have hsplit : ∀ (rs rs' : List (List Nat)) (m : Mol),
      aromatizeRings (rs ++ rs') m = aromatizeRings rs' (aromatizeRings rs m) := by
    intro rs rs' m; unfold aromatizeRings; exact List.foldl_append
  rw [hsplit, aromatizeRings_union_left A.rings A B (wf_rings_lt A hA)]
  have hn : (aromatizeRings A.rings A).natoms = A.natoms := aromatizeRings_natoms _ _
  have hw : (aromatizeRings A.rings A).wf = true := PGA.Decompose.wf_aromatizeRings _ _ hA
  have := aromatizeRings_union_right B.rings (aromatizeRings A.rings A) B hw
  rw [hn] at this
  exact this

end PGA.Spec
