import PGA.Proofs.UnitsTables
/-! The second expensive kernel evaluation of C10 (about 40 s): every spelling of the SI reference read through the
three-step lookup over the reference's own table.  In its own module so that it is built in parallel with
`UnitsTablesLive`. -/
namespace PGA.Units

theorem checkRefSelf_holds : checkRefSelf = true := by decide +kernel

end PGA.Units
