import PGA.Model.Aromatize
import PGA.Spec.MolIso
/-! Lemmas about the Benson perception model (`PGA/Model/Aromatize.lean`): symmetry of the ring check
under rotation and reflection of the ring's atom list, commutation of the updates, and the
behaviour of the ring check under an update of another ring. -/
namespace PGA.Arom

theorem joins_comm (e : Bond) (x y : Nat) : e.joins x y = e.joins y x := by
  unfold Bond.joins; exact Bool.or_comm _ _

theorem bondBetween_comm (m : Mol) (x y : Nat) : m.bondBetween x y = m.bondBetween y x := by
  unfold Mol.bondBetween
  congr 1; funext e; exact joins_comm e x y

theorem kindAt_comm (m : Mol) (x y : Nat) : kindAt m x y = kindAt m y x := by
  unfold kindAt; rw [bondBetween_comm]

/-- the bond part of `eligible` as a function of the six kinds -/
def alt (k0 k1 k2 k3 k4 k5 : Option BondKind) : Bool :=
  if k0 == some .single then
    k1 == some .double && k2 == some .single && k3 == some .double && k4 == some .single && k5 == some .double
  else if k0 == some .double then
    k1 == some .single && k2 == some .double && k3 == some .single && k4 == some .double && k5 == some .single
  else false

theorem alt_iff (k0 k1 k2 k3 k4 k5 : Option BondKind) : alt k0 k1 k2 k3 k4 k5 = true ↔
    (k0 = some .single ∧ k1 = some .double ∧ k2 = some .single ∧ k3 = some .double ∧ k4 = some .single ∧ k5 = some .double) ∨
    (k0 = some .double ∧ k1 = some .single ∧ k2 = some .double ∧ k3 = some .single ∧ k4 = some .double ∧ k5 = some .single) := by
  unfold alt
  by_cases h0s : k0 = some .single
  · subst h0s; simp [and_assoc]
  · by_cases h0d : k0 = some .double
    · subst h0d; simp [and_assoc]
    · simp [h0s, h0d]

theorem alt_rot (k0 k1 k2 k3 k4 k5 : Option BondKind) : alt k1 k2 k3 k4 k5 k0 = alt k0 k1 k2 k3 k4 k5 := by
  rw [Bool.eq_iff_iff, alt_iff, alt_iff]
  constructor <;> (rintro (⟨a, b, c, d, e, f⟩ | ⟨a, b, c, d, e, f⟩) <;> simp_all)

theorem alt_rev (k0 k1 k2 k3 k4 k5 : Option BondKind) : alt k4 k3 k2 k1 k0 k5 = alt k0 k1 k2 k3 k4 k5 := by
  rw [Bool.eq_iff_iff, alt_iff, alt_iff]
  constructor <;> (rintro (⟨a, b, c, d, e, f⟩ | ⟨a, b, c, d, e, f⟩) <;> simp_all)

theorem eligible_six (m : Mol) (a0 a1 a2 a3 a4 a5 : Nat) :
    eligible m [a0, a1, a2, a3, a4, a5] =
      (isC m a0 && isC m a1 && isC m a2 && isC m a3 && isC m a4 && isC m a5 &&
       alt (kindAt m a0 a1) (kindAt m a1 a2) (kindAt m a2 a3) (kindAt m a3 a4) (kindAt m a4 a5) (kindAt m a5 a0)) := rfl

theorem eligible_length (m : Mol) (r : List Nat) (h : eligible m r = true) : r.length = 6 := by
  rcases r with _ | ⟨a0, _ | ⟨a1, _ | ⟨a2, _ | ⟨a3, _ | ⟨a4, _ | ⟨a5, _ | ⟨a6, l⟩⟩⟩⟩⟩⟩⟩ <;>
    first | rfl | (simp [eligible] at h)

theorem edgePairs_length_ne (r : List Nat) (h : r.length ≠ 6) : edgePairs r = [] := by
  rcases r with _ | ⟨a0, _ | ⟨a1, _ | ⟨a2, _ | ⟨a3, _ | ⟨a4, _ | ⟨a5, _ | ⟨a6, l⟩⟩⟩⟩⟩⟩⟩ <;>
    first | rfl | (simp at h)

/-! ### rotation by one place and reflection of a six-ring -/

theorem eligible_rot (m : Mol) (a0 a1 a2 a3 a4 a5 : Nat) :
    eligible m [a1, a2, a3, a4, a5, a0] = eligible m [a0, a1, a2, a3, a4, a5] := by
  rw [eligible_six, eligible_six, alt_rot]
  cases isC m a0 <;> cases isC m a1 <;> cases isC m a2 <;> cases isC m a3 <;> cases isC m a4 <;> cases isC m a5 <;> rfl

theorem eligible_rev (m : Mol) (a0 a1 a2 a3 a4 a5 : Nat) :
    eligible m [a5, a4, a3, a2, a1, a0] = eligible m [a0, a1, a2, a3, a4, a5] := by
  rw [eligible_six, eligible_six, kindAt_comm m a5 a4, kindAt_comm m a4 a3, kindAt_comm m a3 a2, kindAt_comm m a2 a1,
    kindAt_comm m a1 a0, kindAt_comm m a0 a5, alt_rev]
  cases isC m a0 <;> cases isC m a1 <;> cases isC m a2 <;> cases isC m a3 <;> cases isC m a4 <;> cases isC m a5 <;> rfl

theorem ringEdge_rot (e : Bond) (a0 a1 a2 a3 a4 a5 : Nat) :
    ringEdge [a1, a2, a3, a4, a5, a0] e = ringEdge [a0, a1, a2, a3, a4, a5] e := by
  simp only [ringEdge, edgePairs, List.any_cons, List.any_nil, Bool.or_false]
  cases e.joins a0 a1 <;> cases e.joins a1 a2 <;> cases e.joins a2 a3 <;> cases e.joins a3 a4 <;>
    cases e.joins a4 a5 <;> cases e.joins a5 a0 <;> rfl

theorem ringEdge_rev (e : Bond) (a0 a1 a2 a3 a4 a5 : Nat) :
    ringEdge [a5, a4, a3, a2, a1, a0] e = ringEdge [a0, a1, a2, a3, a4, a5] e := by
  simp only [ringEdge, edgePairs, List.any_cons, List.any_nil, Bool.or_false]
  rw [joins_comm e a5 a4, joins_comm e a4 a3, joins_comm e a3 a2, joins_comm e a2 a1, joins_comm e a1 a0, joins_comm e a0 a5]
  cases e.joins a0 a1 <;> cases e.joins a1 a2 <;> cases e.joins a2 a3 <;> cases e.joins a3 a4 <;>
    cases e.joins a4 a5 <;> cases e.joins a5 a0 <;> rfl

theorem contains_rot (i a0 a1 a2 a3 a4 a5 : Nat) :
    [a1, a2, a3, a4, a5, a0].contains i = [a0, a1, a2, a3, a4, a5].contains i := by
  simp only [List.contains_cons, List.contains_nil, Bool.or_false]
  cases i == a0 <;> cases i == a1 <;> cases i == a2 <;> cases i == a3 <;> cases i == a4 <;> cases i == a5 <;> rfl

theorem contains_rev (i a0 a1 a2 a3 a4 a5 : Nat) :
    [a5, a4, a3, a2, a1, a0].contains i = [a0, a1, a2, a3, a4, a5].contains i := by
  simp only [List.contains_cons, List.contains_nil, Bool.or_false]
  cases i == a0 <;> cases i == a1 <;> cases i == a2 <;> cases i == a3 <;> cases i == a4 <;> cases i == a5 <;> rfl

theorem setAromatic_congr (m : Mol) (r r' : List Nat) (hc : ∀ i, r'.contains i = r.contains i)
    (he : ∀ e, ringEdge r' e = ringEdge r e) : setAromatic m r' = setAromatic m r := by
  unfold setAromatic
  congr 1
  · congr 1; funext i a; rw [hc]
  · congr 1; funext e; rw [he]

theorem aromStep_not_six (m : Mol) (r : List Nat) (h : r.length ≠ 6) : aromStep m r = m := by
  unfold aromStep
  have : eligible m r = false := by
    cases he : eligible m r
    · rfl
    · exact absurd (eligible_length m r he) h
  simp [this]

theorem aromStep_rot (m : Mol) (a : Nat) (l : List Nat) : aromStep m (l ++ [a]) = aromStep m (a :: l) := by
  by_cases h : l.length = 5
  · rcases l with _ | ⟨a1, _ | ⟨a2, _ | ⟨a3, _ | ⟨a4, _ | ⟨a5, _ | ⟨a6, l⟩⟩⟩⟩⟩⟩ <;> simp at h
    show aromStep m [a1, a2, a3, a4, a5, a] = aromStep m [a, a1, a2, a3, a4, a5]
    unfold aromStep
    rw [eligible_rot, setAromatic_congr m _ _ (fun i => contains_rot i a a1 a2 a3 a4 a5) (fun e => ringEdge_rot e a a1 a2 a3 a4 a5)]
  · rw [aromStep_not_six, aromStep_not_six]
    · simp; omega
    · simp; omega

theorem aromStep_rev (m : Mol) (r : List Nat) : aromStep m r.reverse = aromStep m r := by
  by_cases h : r.length = 6
  · rcases r with _ | ⟨a0, _ | ⟨a1, _ | ⟨a2, _ | ⟨a3, _ | ⟨a4, _ | ⟨a5, _ | ⟨a6, l⟩⟩⟩⟩⟩⟩⟩ <;> simp at h
    show aromStep m [a5, a4, a3, a2, a1, a0] = aromStep m [a0, a1, a2, a3, a4, a5]
    unfold aromStep
    rw [eligible_rev, setAromatic_congr m _ _ (fun i => contains_rev i a0 a1 a2 a3 a4 a5) (fun e => ringEdge_rev e a0 a1 a2 a3 a4 a5)]
  · rw [aromStep_not_six, aromStep_not_six]
    · exact h
    · simpa using h

/-! ### the updates: what they leave alone, and that they commute -/

@[simp] theorem setAromatic_rings (m : Mol) (r : List Nat) : (setAromatic m r).rings = m.rings := rfl
@[simp] theorem setAromatic_natoms (m : Mol) (r : List Nat) : (setAromatic m r).natoms = m.natoms := by
  simp [setAromatic, Mol.natoms]

theorem ringEdge_kind (r : List Nat) (e : Bond) (k : BondKind) : ringEdge r { e with kind := k } = ringEdge r e := rfl

theorem setAromatic_comm (m : Mol) (r r' : List Nat) :
    setAromatic (setAromatic m r) r' = setAromatic (setAromatic m r') r := by
  unfold setAromatic
  simp only [List.mapIdx_mapIdx, List.map_map]
  congr 1
  · congr 1; funext i a
    simp only [Function.comp]
    cases hc : r.contains i <;> cases hc' : r'.contains i <;> rfl
  · congr 1; funext e
    simp only [Function.comp]
    cases hc : ringEdge r e <;> cases hc' : ringEdge r' e <;> simp [hc, hc', ringEdge_kind]

theorem isC_setAromatic (m : Mol) (r : List Nat) (x : Nat) : isC (setAromatic m r) x = isC m x := by
  unfold isC Mol.atom? setAromatic
  simp only [List.getElem?_mapIdx]
  cases m.atoms[x]? with
  | none => rfl
  | some a => simp only [Option.map]; split <;> rfl

theorem joins_update (r : List Nat) (x y : Nat) :
    ((fun e : Bond => e.joins x y) ∘ fun e : Bond => if ringEdge r e then { e with kind := BondKind.aromatic } else e)
      = fun e : Bond => e.joins x y := by
  funext e; simp only [Function.comp]; split <;> rfl

theorem bondBetween_setAromatic (m : Mol) (r : List Nat) (x y : Nat) :
    (setAromatic m r).bondBetween x y =
      (m.bondBetween x y).map fun e => if ringEdge r e then { e with kind := BondKind.aromatic } else e := by
  unfold Mol.bondBetween setAromatic
  simp only [List.find?_map]
  rw [joins_update]

theorem kindAt_setAromatic (m : Mol) (r : List Nat) (x y : Nat) :
    kindAt (setAromatic m r) x y = (m.bondBetween x y).map fun e => if ringEdge r e then BondKind.aromatic else e.kind := by
  unfold kindAt
  rw [bondBetween_setAromatic]
  cases m.bondBetween x y with
  | none => rfl
  | some e => simp only [Option.map]; split <;> rfl

/-- an update never creates a SINGLE or DOUBLE bond -/
theorem kindAt_setAromatic_sd (m : Mol) (r : List Nat) (x y : Nat) (k : BondKind) (hk : k ≠ .aromatic)
    (h : kindAt (setAromatic m r) x y = some k) : kindAt m x y = some k := by
  rw [kindAt_setAromatic] at h
  unfold kindAt
  cases hb : m.bondBetween x y with
  | none => rw [hb] at h; cases h
  | some e =>
    rw [hb] at h
    simp only [Option.map, Option.some.injEq] at h ⊢
    split at h
    · exact absurd h.symm hk
    · exact h

/-- a ring that fails the check keeps failing it whatever other ring is made aromatic -/
theorem eligible_mono (m : Mol) (r r' : List Nat) (h : eligible (setAromatic m r) r' = true) : eligible m r' = true := by
  have hl := eligible_length _ _ h
  rcases r' with _ | ⟨a0, _ | ⟨a1, _ | ⟨a2, _ | ⟨a3, _ | ⟨a4, _ | ⟨a5, _ | ⟨a6, l⟩⟩⟩⟩⟩⟩⟩ <;> simp at hl
  rw [eligible_six] at h ⊢
  simp only [isC_setAromatic, Bool.and_eq_true] at h ⊢
  refine ⟨h.1, ?_⟩
  have ha := (alt_iff _ _ _ _ _ _).1 h.2
  apply (alt_iff _ _ _ _ _ _).2
  have S := fun x y hh => kindAt_setAromatic_sd m r x y .single (by decide) hh
  have D := fun x y hh => kindAt_setAromatic_sd m r x y .double (by decide) hh
  rcases ha with ⟨h0, h1, h2, h3, h4, h5⟩ | ⟨h0, h1, h2, h3, h4, h5⟩
  · exact Or.inl ⟨S _ _ h0, D _ _ h1, S _ _ h2, D _ _ h3, S _ _ h4, D _ _ h5⟩
  · exact Or.inr ⟨D _ _ h0, S _ _ h1, D _ _ h2, S _ _ h3, D _ _ h4, S _ _ h5⟩

/-! ### rings that share no bond -/

open PGA.Spec (sharesBond)

theorem sharesBond_comm (r r' : List Nat) : sharesBond r r' = sharesBond r' r := by
  rw [Bool.eq_iff_iff]
  unfold sharesBond
  simp only [List.any_eq_true, Bool.or_eq_true, Bool.and_eq_true, beq_iff_eq]
  constructor
  · rintro ⟨p, hp, p', hp', h⟩
    refine ⟨p', hp', p, hp, ?_⟩
    rcases h with ⟨a, b⟩ | ⟨a, b⟩
    · exact Or.inl ⟨a.symm, b.symm⟩
    · exact Or.inr ⟨b.symm, a.symm⟩
  · rintro ⟨p, hp, p', hp', h⟩
    refine ⟨p', hp', p, hp, ?_⟩
    rcases h with ⟨a, b⟩ | ⟨a, b⟩
    · exact Or.inl ⟨a.symm, b.symm⟩
    · exact Or.inr ⟨b.symm, a.symm⟩

/-- a bond joining a consecutive pair of `r'` is not a ring bond of a ring `r` sharing no bond with `r'` -/
theorem ringEdge_of_disjoint (r r' : List Nat) (hd : sharesBond r r' = false) (e : Bond) (p' : Nat × Nat)
    (hp' : p' ∈ edgePairs r') (hj : e.joins p'.1 p'.2 = true) : ringEdge r e = false := by
  cases hre : ringEdge r e
  · rfl
  · exfalso
    unfold ringEdge at hre
    simp only [List.any_eq_true] at hre
    obtain ⟨p, hp, hpj⟩ := hre
    have : sharesBond r r' = true := by
      unfold sharesBond
      simp only [List.any_eq_true, Bool.or_eq_true, Bool.and_eq_true, beq_iff_eq]
      refine ⟨p, hp, p', hp', ?_⟩
      unfold Bond.joins at hj hpj
      simp only [Bool.or_eq_true, Bool.and_eq_true, beq_iff_eq] at hj hpj
      rcases hj with ⟨a, b⟩ | ⟨a, b⟩ <;> rcases hpj with ⟨c, d⟩ | ⟨c, d⟩
      · exact Or.inl ⟨c.symm.trans a, d.symm.trans b⟩
      · exact Or.inr ⟨d.symm.trans b, c.symm.trans a⟩
      · exact Or.inr ⟨c.symm.trans a, d.symm.trans b⟩
      · exact Or.inl ⟨d.symm.trans b, c.symm.trans a⟩
    rw [hd] at this; cases this

theorem kindAt_setAromatic_disjoint (m : Mol) (r r' : List Nat) (hd : sharesBond r r' = false) (p' : Nat × Nat)
    (hp' : p' ∈ edgePairs r') : kindAt (setAromatic m r) p'.1 p'.2 = kindAt m p'.1 p'.2 := by
  rw [kindAt_setAromatic]
  unfold kindAt
  cases hb : m.bondBetween p'.1 p'.2 with
  | none => rfl
  | some e =>
    have hj : e.joins p'.1 p'.2 = true := by
      unfold Mol.bondBetween at hb
      exact List.find?_some (p := fun x : Bond => x.joins p'.1 p'.2) hb
    simp [ringEdge_of_disjoint r r' hd e p' hp' hj]

/-- making a ring aromatic does not change the check of a ring that shares no bond with it -/
theorem eligible_setAromatic_disjoint (m : Mol) (r r' : List Nat) (hd : sharesBond r r' = false) :
    eligible (setAromatic m r) r' = eligible m r' := by
  by_cases hl : r'.length = 6
  · rcases r' with _ | ⟨a0, _ | ⟨a1, _ | ⟨a2, _ | ⟨a3, _ | ⟨a4, _ | ⟨a5, _ | ⟨a6, l⟩⟩⟩⟩⟩⟩⟩ <;> simp at hl
    have K := fun p' hp' => kindAt_setAromatic_disjoint m r [a0, a1, a2, a3, a4, a5] hd p' hp'
    rw [eligible_six, eligible_six]
    simp only [isC_setAromatic]
    rw [K (a0, a1) (by simp [edgePairs]), K (a1, a2) (by simp [edgePairs]), K (a2, a3) (by simp [edgePairs]),
      K (a3, a4) (by simp [edgePairs]), K (a4, a5) (by simp [edgePairs]), K (a5, a0) (by simp [edgePairs])]
  · have e1 : eligible (setAromatic m r) r' = false := by
      cases he : eligible (setAromatic m r) r'
      · rfl
      · exact absurd (eligible_length _ _ he) hl
    have e2 : eligible m r' = false := by
      cases he : eligible m r'
      · rfl
      · exact absurd (eligible_length _ _ he) hl
    rw [e1, e2]

/-! ### the loop over the rings -/

/-- all the updates of a list of rings, unconditionally -/
def setAll (rs : List (List Nat)) (m : Mol) : Mol := rs.foldl setAromatic m

theorem setAll_perm (rs rs' : List (List Nat)) (hp : rs.Perm rs') (m : Mol) : setAll rs m = setAll rs' m :=
  List.Perm.foldl_eq' hp (fun x _ y _ z => setAromatic_comm z x y) m

/-- If the rings of `rs` that pass the check on `m0` pairwise share no bond, the loop applies exactly their updates:
visiting one of them neither spoils another one nor makes a failing ring pass. -/
theorem aromatizeRings_eq_setAll (m0 : Mol) :
    ∀ (rs : List (List Nat)) (s : Mol),
      (rs.filter (eligible m0)).Pairwise (fun r r' => sharesBond r r' = false) →
      (∀ r ∈ rs, eligible m0 r = true → eligible s r = true) →
      (∀ r, eligible s r = true → eligible m0 r = true) →
      aromatizeRings rs s = setAll (rs.filter (eligible m0)) s := by
  intro rs
  induction rs with
  | nil => intro s _ _ _; rfl
  | cons r rs ih =>
    intro s hpw h1 h2
    unfold aromatizeRings setAll
    simp only [List.foldl_cons]
    by_cases he : eligible m0 r = true
    · have hs : eligible s r = true := h1 r (List.mem_cons_self) he
      rw [List.filter_cons_of_pos he] at hpw ⊢
      simp only [List.foldl_cons]
      have hstep : aromStep s r = setAromatic s r := by unfold aromStep; simp [hs]
      rw [hstep]
      obtain ⟨hhead, htail⟩ := List.pairwise_cons.1 hpw
      apply ih (setAromatic s r) htail
      · intro r' hr' he'
        rw [eligible_setAromatic_disjoint s r r' (hhead r' (List.mem_filter.2 ⟨hr', he'⟩))]
        exact h1 r' (List.mem_cons_of_mem _ hr') he'
      · intro r' he'
        exact h2 r' (eligible_mono s r r' he')
    · have hs : eligible s r = false := by
        cases hh : eligible s r
        · rfl
        · exact absurd (h2 r hh) he
      rw [List.filter_cons_of_neg he] at hpw ⊢
      have hstep : aromStep s r = s := by unfold aromStep; simp [hs]
      rw [hstep]
      exact ih s hpw (fun r' hr' => h1 r' (List.mem_cons_of_mem _ hr')) h2

end PGA.Arom
