import PGA.Proofs.UnitsTables
/-! The one expensive kernel evaluation of C10 (about a minute): every unit name x every prefix of the SI
reference against the live tables.  Kept in its own module so that it is rebuilt only when the
regenerated tables or the model change. -/
namespace PGA.Units

theorem checkAllUnits_live : checkAllUnits liveCfg = true := by decide +kernel

/-- the same for the units the reference does not know, against what their definitions mean (`PGA/Spec/SIExt.lean`) -/
theorem checkNewUnits_live : checkNewUnits liveCfg = true := by decide +kernel

end PGA.Units
