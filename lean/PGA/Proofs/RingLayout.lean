import PGA.Proofs.RingParse
/-!
# Layout lemmas for the RING engine (towards C08-T3, layout part)

`LG G hard r r'` — the texts `r` and `r'` differ only in *opaque gaps*: a maximal piece of filler that is
at least two characters long or contains a *hard* filler character (one that occurs in no token of the
grammar: newline and tab for the shipped tables) may be replaced by any other such piece; filler at the
very end of the text may be replaced by any filler (also none).  Single blanks stay where they are (a
token such as `bond to` contains one).

`eval_layout`: on two states whose remaining texts are so related, the engine takes the same decisions:
both runs fail, or both abort alike, or both succeed with the **same output trees** and related
remaining texts — for every grammar whose tokens contain no hard filler, no two adjacent filler
characters and no filler at their end (`LayoutOK`), and whose filler characters are neither identifier
characters nor decimal digits.  `parse_layout` is the statement for `parse`.
-/
set_option linter.unusedVariables false
namespace PGA.Ring
open PGA.Chars

/-- `c` is a one-character entry of the filler list (what `skip_filler` skips) -/
def isFil (G : Grammar) (c : Char) : Bool := decide ([c] ∈ G.filler)

def allFil (G : Grammar) (g : List Char) : Prop := ∀ c ∈ g, isFil G c = true

instance (G : Grammar) (g : List Char) : Decidable (allFil G g) :=
  inferInstanceAs (Decidable (∀ c ∈ g, isFil G c = true))

/-- a piece of filler no token can reach across: two or more characters, or one that is hard -/
def Opaque (G : Grammar) (hard : Char → Bool) (g : List Char) : Prop :=
  allFil G g ∧ (2 ≤ g.length ∨ ∃ c ∈ g, hard c = true)

inductive LG (G : Grammar) (hard : Char → Bool) : List Char → List Char → Prop
  | trail {g g' : List Char} : allFil G g → allFil G g' → LG G hard g g'
  | cons (c : Char) {r r' : List Char} : LG G hard r r' → LG G hard (c :: r) (c :: r')
  | gap {g g' r r' : List Char} : Opaque G hard g → Opaque G hard g' → LG G hard r r' →
      LG G hard (g ++ r) (g' ++ r')

theorem LG.refl (G : Grammar) (hard : Char → Bool) : ∀ r, LG G hard r r
  | [] => .trail (fun _ h => by cases h) (fun _ h => by cases h)
  | c :: r => .cons c (LG.refl G hard r)

theorem LG.symm {G : Grammar} {hard : Char → Bool} {r r' : List Char} (h : LG G hard r r') : LG G hard r' r := by
  induction h with
  | trail h1 h2 => exact .trail h2 h1
  | cons c _ ih => exact .cons c ih
  | gap h1 h2 _ ih => exact .gap h2 h1 ih

/-- what is left after `skip_filler` -/
def stripF (G : Grammar) : List Char → List Char
  | [] => []
  | c :: r => if isFil G c then stripF G r else c :: r

theorem stripF_cons_fil (G : Grammar) {c : Char} (r : List Char) (h : isFil G c = true) : stripF G (c :: r) = stripF G r := by
  show (if isFil G c then stripF G r else c :: r) = _
  rw [if_pos h]

theorem stripF_cons_nonfil (G : Grammar) {c : Char} (r : List Char) (h : isFil G c = false) : stripF G (c :: r) = c :: r := by
  show (if isFil G c then stripF G r else c :: r) = _
  rw [if_neg (by rw [h]; simp)]

/-- the text does not begin with a filler character (every state the engine reaches: `take` ends with `skip_filler`) -/
def Normal (G : Grammar) (r : List Char) : Prop := ∀ c r', r = c :: r' → isFil G c = false

theorem stripF_normal (G : Grammar) : ∀ r, Normal G (stripF G r)
  | [] => fun _ _ h => by cases h
  | c :: r => by
    cases hc : isFil G c with
    | true => rw [stripF_cons_fil G r hc]; exact stripF_normal G r
    | false =>
      rw [stripF_cons_nonfil G r hc]
      intro c' r' h
      cases h
      exact hc

theorem stripF_allFil (G : Grammar) : ∀ g, allFil G g → stripF G g = []
  | [], _ => rfl
  | c :: g, h => by
    rw [stripF_cons_fil G g (h c (List.mem_cons_self ..))]
    exact stripF_allFil G g (fun x hx => h x (List.mem_cons_of_mem _ hx))

theorem stripF_append (G : Grammar) : ∀ (g r : List Char), allFil G g → stripF G (g ++ r) = stripF G r
  | [], _, _ => rfl
  | c :: g, r, h => by
    show stripF G (c :: (g ++ r)) = _
    rw [stripF_cons_fil G _ (h c (List.mem_cons_self ..))]
    exact stripF_append G g r (fun x hx => h x (List.mem_cons_of_mem _ hx))

theorem stripF_of_normal (G : Grammar) (r : List Char) (h : Normal G r) : stripF G r = r := by
  cases r with
  | nil => rfl
  | cons c r => exact stripF_cons_nonfil G r (h c r rfl)

theorem LG.strip {G : Grammar} {hard : Char → Bool} {r r' : List Char} (h : LG G hard r r') :
    LG G hard (stripF G r) (stripF G r') := by
  induction h with
  | trail h1 h2 => rw [stripF_allFil G _ h1, stripF_allFil G _ h2]; exact LG.refl G hard []
  | cons c h ih =>
    cases hc : isFil G c with
    | true => rw [stripF_cons_fil G _ hc, stripF_cons_fil G _ hc]; exact ih
    | false => rw [stripF_cons_nonfil G _ hc, stripF_cons_nonfil G _ hc]; exact .cons c h
  | gap h1 h2 _ ih => rw [stripF_append G _ _ h1.1, stripF_append G _ _ h2.1]; exact ih

theorem skipFillerAux_rest (G : Grammar) : ∀ (r : List Char) (i l c : Nat) (st : St),
    skipFillerAux G.filler r i l c = some st → st.rest = stripF G r := by
  intro r
  induction r with
  | nil =>
    intro i l c st h
    simp only [skipFillerAux] at h
    split at h
    · cases h
    · cases h; rfl
  | cons ch r ih =>
    intro i l c st h
    simp only [skipFillerAux] at h
    split at h
    · rename_i hm
      rw [stripF_cons_fil G r (by simpa [isFil] using hm)]
      split at h <;> exact ih _ _ _ _ h
    · rename_i hm
      rw [stripF_cons_nonfil G r (by simpa [isFil] using hm)]
      cases h; rfl

theorem take_rest (G : Grammar) (st : St) (n : Nat) (s : List Char) (st' : St)
    (h : take G.filler st n = some (s, st')) : s = st.rest.take n ∧ st'.rest = stripF G (st.rest.drop n) := by
  unfold take at h
  simp only [skipFiller] at h
  split at h
  · cases h
  · rename_i st'' hs
    cases h
    exact ⟨rfl, skipFillerAux_rest G _ _ _ _ _ hs⟩

/-! ### heads -/

theorem Opaque.ne_nil {G : Grammar} {hard : Char → Bool} {g : List Char} (h : Opaque G hard g) : g ≠ [] := by
  rintro rfl
  rcases h.2 with h2 | ⟨c, hc, _⟩
  · simp at h2
  · cases hc

/-- a related text that starts with a non-filler character starts with the same character -/
theorem LG.head_inv {G : Grammar} {hard : Char → Bool} {c : Char} {r r' : List Char}
    (h : LG G hard (c :: r) r') (hc : isFil G c = false) : ∃ r'', r' = c :: r'' ∧ LG G hard r r'' := by
  generalize hx : c :: r = x at h
  cases h with
  | trail h1 h2 =>
    subst hx
    have := h1 c (List.mem_cons_self ..)
    rw [hc] at this; cases this
  | cons c' h' => cases hx; exact ⟨_, rfl, h'⟩
  | @gap g g' r1 r1' h1 h2 h' =>
    obtain ⟨a, g1, rfl⟩ := List.exists_cons_of_ne_nil h1.ne_nil
    simp only [List.cons_append, List.cons.injEq] at hx
    have := h1.1 a (List.mem_cons_self ..)
    rw [← hx.1, hc] at this; cases this

theorem LG.nil_inv {G : Grammar} {hard : Char → Bool} {r' : List Char} (h : LG G hard [] r') : allFil G r' := by
  generalize hx : ([] : List Char) = x at h
  cases h with
  | trail h1 h2 => exact h2
  | cons c' h' => cases hx
  | @gap g g' r1 r1' h1 h2 h' =>
    have : g = [] := by
      cases g with
      | nil => rfl
      | cons a g => simp at hx
    exact absurd this h1.ne_nil

/-- end of text: related normal texts are empty together -/
theorem LG.nil_iff {G : Grammar} {hard : Char → Bool} {r r' : List Char} (h : LG G hard r r')
    (hn : Normal G r) (hn' : Normal G r') : r = [] ↔ r' = [] := by
  constructor
  · rintro rfl
    have := h.nil_inv
    cases r' with
    | nil => rfl
    | cons c r'' =>
      have h1 := this c (List.mem_cons_self ..)
      rw [hn' c r'' rfl] at h1; cases h1
  · rintro rfl
    have := h.symm.nil_inv
    cases r with
    | nil => rfl
    | cons c r'' =>
      have h1 := this c (List.mem_cons_self ..)
      rw [hn c r'' rfl] at h1; cases h1

/-! ### tokens -/

/-- what the layout lemmas need of a token: non-empty, no hard filler character, no two adjacent filler
characters, last character not a filler -/
def tokOK (G : Grammar) (hard : Char → Bool) : List Char → Bool
  | [] => false
  | [c] => !isFil G c && !hard c
  | a :: b :: r => !hard a && !(isFil G a && isFil G b) && tokOK G hard (b :: r)

theorem tokOK_has_nonfil (G : Grammar) (hard : Char → Bool) : ∀ tok, tokOK G hard tok = true → ∃ c ∈ tok, isFil G c = false
  | [], h => by simp [tokOK] at h
  | [c], h => by
    simp only [tokOK, Bool.and_eq_true, Bool.not_eq_true'] at h
    exact ⟨c, List.mem_cons_self .., h.1⟩
  | a :: b :: r, h => by
    simp only [tokOK, Bool.and_eq_true] at h
    obtain ⟨c, hc, hf⟩ := tokOK_has_nonfil G hard (b :: r) h.2
    exact ⟨c, List.mem_cons_of_mem _ hc, hf⟩

/-- the central list fact: a token that matches at the front of a text matches at the front of every related
text, and what follows it stays related — a token never reaches into an opaque gap or into trailing filler -/
theorem LG.window {G : Grammar} {hard : Char → Bool} {r r' : List Char} (h : LG G hard r r') :
    ∀ tok, tokOK G hard tok = true → r.take tok.length = tok →
      r'.take tok.length = tok ∧ LG G hard (r.drop tok.length) (r'.drop tok.length) := by
  induction h with
  | @trail g g' h1 h2 =>
    intro tok htok hm
    obtain ⟨c, hc, hf⟩ := tokOK_has_nonfil G hard tok htok
    rw [← hm] at hc
    have := h1 c (List.mem_of_mem_take hc)
    rw [hf] at this; cases this
  | @cons c r r' h ih =>
    intro tok htok hm
    cases tok with
    | nil => simp [tokOK] at htok
    | cons t ts =>
      simp only [List.length_cons, List.take_succ_cons, List.cons.injEq] at hm
      obtain ⟨rfl, hm⟩ := hm
      cases ts with
      | nil => simp only [List.length_cons, List.length_nil, Nat.zero_add, List.take_succ_cons, List.take_zero,
                 List.drop_succ_cons, List.drop_zero, true_and]; exact h
      | cons b rest =>
        have htok' : tokOK G hard (b :: rest) = true := by
          simp only [tokOK, Bool.and_eq_true] at htok; exact htok.2
        obtain ⟨g1, g2⟩ := ih (b :: rest) htok' hm
        simp only [List.length_cons] at g1 g2 ⊢
        simp only [List.take_succ_cons, List.drop_succ_cons]
        exact ⟨by rw [g1], g2⟩
  | @gap g g' r r' h1 h2 h ih =>
    intro tok htok hm
    exfalso
    obtain ⟨a, g1, rfl⟩ := List.exists_cons_of_ne_nil h1.ne_nil
    have ha := h1.1 a (List.mem_cons_self ..)
    cases tok with
    | nil => simp [tokOK] at htok
    | cons t ts =>
      simp only [List.cons_append, List.length_cons, List.take_succ_cons, List.cons.injEq] at hm
      obtain ⟨rfl, hm⟩ := hm
      cases ts with
      | nil =>
        simp only [tokOK, Bool.and_eq_true, Bool.not_eq_true'] at htok
        rw [ha] at htok; cases htok.1
      | cons b rest =>
        simp only [tokOK, Bool.and_eq_true, Bool.not_eq_true', Bool.and_eq_false_iff] at htok
        obtain ⟨⟨hha, hab⟩, _⟩ := htok
        have hb : isFil G b = false := by
          rcases hab with h | h
          · rw [ha] at h; cases h
          · exact h
        cases g1 with
        | nil =>
          rcases h1.2 with h2' | ⟨c, hc, hh⟩
          · simp at h2'
          · simp only [List.mem_singleton] at hc; subst hc; rw [hha] at hh; cases hh
        | cons x g2 =>
          simp only [List.cons_append, List.length_cons, List.take_succ_cons, List.cons.injEq] at hm
          have hx := h1.1 x (List.mem_cons_of_mem _ (List.mem_cons_self ..))
          rw [hm.1, hb] at hx; cases hx

theorem LG.window_iff {G : Grammar} {hard : Char → Bool} {r r' : List Char} (h : LG G hard r r')
    (tok : List Char) (htok : tokOK G hard tok = true) :
    (r.take tok.length = tok ↔ r'.take tok.length = tok) :=
  ⟨fun hm => (h.window tok htok hm).1, fun hm => (h.symm.window tok htok hm).1⟩

theorem identRun_fil (G : Grammar) (hch : ∀ c, isFil G c = true → identChar G c = false) (g r : List Char)
    (hg : allFil G g) (hne : g ≠ []) : identRun G (g ++ r) = 0 := by
  obtain ⟨a, g1, rfl⟩ := List.exists_cons_of_ne_nil hne
  show identRun G (a :: (g1 ++ r)) = 0
  unfold identRun
  rw [if_neg (by rw [hch a (hg a (List.mem_cons_self ..))]; simp)]

/-- identifiers stop at filler: the identifier scanned at the front of related texts is the same, and what follows
it stays related -/
theorem LG.ident {G : Grammar} {hard : Char → Bool} (hch : ∀ c, isFil G c = true → identChar G c = false)
    {r r' : List Char} (h : LG G hard r r') :
    identRun G r = identRun G r' ∧ r.take (identRun G r) = r'.take (identRun G r) ∧
      LG G hard (r.drop (identRun G r)) (r'.drop (identRun G r)) := by
  induction h with
  | @trail g g' h1 h2 =>
    have e1 : identRun G g = 0 := by
      cases g with
      | nil => rfl
      | cons a g1 => simpa using identRun_fil G hch (a :: g1) [] h1 (by simp)
    have e2 : identRun G g' = 0 := by
      cases g' with
      | nil => rfl
      | cons a g1 => simpa using identRun_fil G hch (a :: g1) [] h2 (by simp)
    rw [e1, e2]
    exact ⟨rfl, rfl, .trail h1 h2⟩
  | @cons c r r' h ih =>
    by_cases hc : identChar G c = true
    · have e1 : identRun G (c :: r) = identRun G r + 1 := by rw [identRun, if_pos hc]
      have e2 : identRun G (c :: r') = identRun G r' + 1 := by rw [identRun, if_pos hc]
      rw [e1, e2]
      obtain ⟨i1, i2, i3⟩ := ih
      exact ⟨by rw [i1], by simp only [List.take_succ_cons, i2], by simpa using i3⟩
    · have e1 : identRun G (c :: r) = 0 := by rw [identRun, if_neg hc]
      have e2 : identRun G (c :: r') = 0 := by rw [identRun, if_neg hc]
      rw [e1, e2]
      exact ⟨rfl, rfl, .cons c h⟩
  | @gap g g' r r' h1 h2 h ih =>
    rw [identRun_fil G hch g r h1.1 h1.ne_nil, identRun_fil G hch g' r' h2.1 h2.ne_nil]
    exact ⟨rfl, rfl, .gap h1 h2 h⟩

/-! ### states -/

/-- two stream states that may differ in position and in opaque gaps / trailing filler of the remaining text -/
structure SR (G : Grammar) (hard : Char → Bool) (st st' : St) : Prop where
  lg : LG G hard st.rest st'.rest
  n : Normal G st.rest
  n' : Normal G st'.rest

/-- progress agreement of two runs: neither moves backwards and one advances exactly when the other does -/
structure Prog (st st1 st' st1' : St) : Prop where
  le : st1.rest.length ≤ st.rest.length
  le' : st1'.rest.length ≤ st'.rest.length
  lt : st1.rest.length < st.rest.length ↔ st1'.rest.length < st'.rest.length

theorem Prog.refl (st st' : St) : Prog st st st' st' := ⟨Nat.le_refl _, Nat.le_refl _, by simp⟩

theorem Prog.strict {st st1 st' st1' : St} (h : st1.rest.length < st.rest.length)
    (h' : st1'.rest.length < st'.rest.length) : Prog st st1 st' st1' :=
  ⟨Nat.le_of_lt h, Nat.le_of_lt h', by simp [h, h']⟩

theorem Prog.trans {st st1 st2 st' st1' st2' : St} (p : Prog st st1 st' st1') (q : Prog st1 st2 st1' st2') :
    Prog st st2 st' st2' := by
  obtain ⟨a1, a2, a3⟩ := p
  obtain ⟨b1, b2, b3⟩ := q
  refine ⟨by omega, by omega, ?_⟩
  constructor
  · intro h
    by_cases h1 : st1.rest.length < st.rest.length
    · have := a3.mp h1; omega
    · have h2 : st2.rest.length < st1.rest.length := by omega
      have := b3.mp h2; omega
  · intro h
    by_cases h1 : st1'.rest.length < st'.rest.length
    · have := a3.mpr h1; omega
    · have h2 : st2'.rest.length < st1'.rest.length := by omega
      have := b3.mpr h2; omega

theorem Prog.eq_iff {st st1 st' st1' : St} (p : Prog st st1 st' st1') :
    st1.rest.length = st.rest.length ↔ st1'.rest.length = st'.rest.length := by
  obtain ⟨a1, a2, a3⟩ := p
  constructor
  · intro h
    have : ¬ st1'.rest.length < st'.rest.length := fun h' => by have := a3.mpr h'; omega
    omega
  · intro h
    have : ¬ st1.rest.length < st.rest.length := fun h' => by have := a3.mp h'; omega
    omega

def CurRel (c c' : Option Err) : Prop := c.isSome = c'.isSome

theorem CurRel.catch (e e' : Err) {c c' : Option Err} (h : CurRel c c') : CurRel (catchErr e c) (catchErr e' c') := by
  cases c <;> cases c' <;> simp_all [CurRel, catchErr]

/-- the two runs take the same decision: both succeed with the same output on related states, or both fail,
or both abort alike -/
inductive ResRel (G : Grammar) (hard : Char → Bool) (st st' : St) : Res → Res → Prop
  | ok {st1 st1' : St} {out : List Ast} {cur cur' : Option Err} : SR G hard st1 st1' → Prog st st1 st' st1' →
      CurRel cur cur' → ResRel G hard st st' (.ok st1 out cur) (.ok st1' out cur')
  | fail {e e' : Err} {cur cur' : Option Err} : CurRel cur cur' → ResRel G hard st st' (.fail e cur) (.fail e' cur')
  | abort (a : Abort) : ResRel G hard st st' (.abort a) (.abort a)

/-- related normal states: both at the end of the text, or both at the same non-filler character -/
theorem SR.cases {G : Grammar} {hard : Char → Bool} {st st' : St} (h : SR G hard st st') :
    (st.rest = [] ∧ st'.rest = []) ∨
    ∃ c r r', st.rest = c :: r ∧ st'.rest = c :: r' ∧ isFil G c = false ∧ LG G hard r r' := by
  cases hr : st.rest with
  | nil => exact Or.inl ⟨rfl, (h.lg.nil_iff h.n h.n').mp hr⟩
  | cons c r =>
    have hc := h.n c r hr
    have hl := h.lg
    rw [hr] at hl
    obtain ⟨r'', e, hl'⟩ := hl.head_inv hc
    exact Or.inr ⟨c, r, r'', rfl, e, hc, hl'⟩

/-- consuming the same `n ≥ 1` characters from related states whose texts stay related beyond them -/
theorem take_sim {G : Grammar} {hard : Char → Bool} (hf : [] ∉ G.filler) {st st' : St} (n : Nat) (hn : 0 < n)
    (hr : st.rest ≠ []) (hr' : st'.rest ≠ []) (heq : st.rest.take n = st'.rest.take n)
    (hlg : LG G hard (st.rest.drop n) (st'.rest.drop n)) :
    ∃ st1 st1', take G.filler st n = some (st.rest.take n, st1) ∧ take G.filler st' n = some (st.rest.take n, st1') ∧
      SR G hard st1 st1' ∧ st1.rest.length < st.rest.length ∧ st1'.rest.length < st'.rest.length := by
  obtain ⟨s, st1, ht, hs⟩ := take_isSome G.filler hf st n
  obtain ⟨s', st1', ht', hs'⟩ := take_isSome G.filler hf st' n
  have r1 := (take_rest G st n s st1 ht).2
  have r2 := (take_rest G st' n s' st1' ht').2
  refine ⟨st1, st1', by rw [ht, hs], by rw [ht', hs', heq], ⟨?_, ?_, ?_⟩,
    take_lt G.filler st n s st1 ht hn hr, take_lt G.filler st' n s' st1' ht' hn hr'⟩
  · rw [r1, r2]; exact hlg.strip
  · rw [r1]; exact stripF_normal G _
  · rw [r2]; exact stripF_normal G _

/-- … for a token that matches -/
theorem take_tok_sim {G : Grammar} {hard : Char → Bool} (hf : [] ∉ G.filler) {st st' : St} (h : SR G hard st st')
    (tok : List Char) (htok : tokOK G hard tok = true) (hm : st.rest.take tok.length = tok) :
    ∃ st1 st1', take G.filler st tok.length = some (tok, st1) ∧ take G.filler st' tok.length = some (tok, st1') ∧
      SR G hard st1 st1' ∧ st1.rest.length < st.rest.length ∧ st1'.rest.length < st'.rest.length := by
  obtain ⟨hm', hl⟩ := h.lg.window tok htok hm
  have hne : tok ≠ [] := by rintro rfl; simp [tokOK] at htok
  have hr : st.rest ≠ [] := by intro h0; rw [h0] at hm; simp at hm; exact hne hm
  have hr' : st'.rest ≠ [] := by intro h0; rw [h0] at hm'; simp at hm'; exact hne hm'
  obtain ⟨st1, st1', t1, t2, g⟩ := take_sim hf tok.length (List.length_pos_iff.mpr hne) hr hr' (by rw [hm, hm']) hl
  rw [hm] at t1 t2
  exact ⟨st1, st1', t1, t2, g⟩

/-! ### the grammar hypotheses -/

/-- every token of the expression meets `tokOK` -/
def exprOK (G : Grammar) (hard : Char → Bool) : Expr → Bool
  | .lit tok _ => tokOK G hard tok
  | .filler tok _ => tokOK G hard tok
  | .literals toks _ => toks.all (tokOK G hard)
  | .opt a => exprOK G hard a
  | .star a => exprOK G hard a
  | .allCons a r => exprOK G hard a && exprOK G hard r
  | .anyCons a r => exprOK G hard a && exprOK G hard r
  | _ => true

/-- executable form of the layout hypotheses on a grammar table -/
def checkLayout (G : Grammar) (hard : Char → Bool) : Bool :=
  !(G.filler.contains []) &&
  (G.filler.all fun f => match f with
    | [c] => !identChar G c && !isDecimalChar c
    | _ => true) &&
  G.rules.all fun r => match r with | some b => exprOK G hard b | none => true

/-- what the layout theorem asks of a grammar table: `''` is not a filler; filler characters are neither identifier
characters nor decimal digits; every token is non-empty, free of hard filler, free of two adjacent filler
characters, and does not end with a filler character -/
structure LayoutOK (G : Grammar) (hard : Char → Bool) : Prop where
  filler : [] ∉ G.filler
  ident : ∀ c, isFil G c = true → identChar G c = false
  dec : ∀ c, isFil G c = true → isDecimalChar c = false
  toks : ∀ (n : Nat) body, G.rules[n]? = some (some body) → exprOK G hard body = true

theorem checkLayout_sound (G : Grammar) (hard : Char → Bool) (h : checkLayout G hard = true) : LayoutOK G hard := by
  simp only [checkLayout, Bool.and_eq_true, Bool.not_eq_true', List.all_eq_true] at h
  obtain ⟨⟨h1, h2⟩, h3⟩ := h
  have hc : ∀ c, isFil G c = true → identChar G c = false ∧ isDecimalChar c = false := by
    intro c hc
    have := h2 [c] (by simpa [isFil] using hc)
    simpa using this
  refine ⟨by simpa using h1, fun c hc' => (hc c hc').1, fun c hc' => (hc c hc').2, ?_⟩
  intro n body hb
  exact h3 (some body) (List.mem_of_getElem? hb)

/-! ### one-step unfoldings of `numberLoop` -/

theorem numberLoop_nil (G : Grammar) (st : St) (acc : List Char) (hr : st.rest = []) :
    numberLoop G st acc = some (st, acc) := by
  rw [numberLoop]
  split
  · rfl
  · rename_i c r h; rw [hr] at h; cases h

theorem numberLoop_stop (G : Grammar) (st : St) (acc : List Char) (c : Char) (r : List Char) (hr : st.rest = c :: r)
    (hd : isDecimalChar c = false) : numberLoop G st acc = some (st, acc) := by
  rw [numberLoop]
  split
  · rename_i h; simp [hr] at h
  · rename_i c' r' h
    rw [hr] at h; cases h
    simp [hd]

theorem numberLoop_step (G : Grammar) (st : St) (acc : List Char) (c : Char) (r : List Char) (hr : st.rest = c :: r)
    (hd : isDecimalChar c = true) (s : List Char) (st1 : St) (ht : take G.filler st 1 = some (s, st1)) :
    numberLoop G st acc = numberLoop G st1 (acc ++ s) := by
  rw [numberLoop]
  split
  · rename_i h; simp [hr] at h
  · rename_i c' r' h
    rw [hr] at h; cases h
    simp only [hd, if_true]
    split
    · rename_i h2; rw [ht] at h2; cases h2
    · rename_i s' st1' h2; rw [ht] at h2; cases h2; rfl

/-! ### the leaf combinators -/

theorem digitLoop_sim {G : Grammar} {hard : Char → Bool} (hL : LayoutOK G hard) (base base' : St) :
    ∀ (n : Nat) (st st' : St) (acc : List Char) (cur cur' : Option Err), SR G hard st st' → Prog base st base' st' →
      CurRel cur cur' → ResRel G hard base base' (digitLoop G n st acc cur) (digitLoop G n st' acc cur') := by
  intro n
  induction n with
  | zero =>
    intro st st' acc cur cur' h p hc
    simp only [digitLoop, pyInt]
    cases readNat acc with
    | none => exact .abort _
    | some v => exact .ok h p hc
  | succ n ih =>
    intro st st' acc cur cur' h p hc
    rcases h.cases with ⟨e1, e2⟩ | ⟨c, r, r', e1, e2, hcf, hl⟩
    · unfold digitLoop; rw [e1, e2]; exact .fail hc
    · unfold digitLoop
      rw [e1, e2]
      simp only
      by_cases hd : isDecimalChar c = true
      · rw [if_pos hd, if_pos hd]
        obtain ⟨st1, st1', t1, t2, hs, l1, l2⟩ := take_sim (G := G) (hard := hard) hL.filler (st := st) (st' := st') 1
          (by omega) (by rw [e1]; simp) (by rw [e2]; simp) (by rw [e1, e2]; rfl) (by rw [e1, e2]; simpa using hl)
        rw [t1, t2]
        exact ih st1 st1' _ cur cur' hs (p.trans (Prog.strict l1 l2)) hc
      · rw [if_neg hd, if_neg hd]; exact .fail hc

theorem numberLoop_sim {G : Grammar} {hard : Char → Bool} (hL : LayoutOK G hard) :
    ∀ (k : Nat) (st st' : St) (acc : List Char), st.rest.length ≤ k → SR G hard st st' →
      ∃ st1 st1' out, numberLoop G st acc = some (st1, out) ∧ numberLoop G st' acc = some (st1', out) ∧
        SR G hard st1 st1' ∧ Prog st st1 st' st1' := by
  intro k
  induction k with
  | zero =>
    intro st st' acc hk h
    have e1 : st.rest = [] := List.length_eq_zero_iff.mp (by omega)
    have e2 := (h.lg.nil_iff h.n h.n').mp e1
    exact ⟨st, st', acc, numberLoop_nil G st acc e1, numberLoop_nil G st' acc e2, h, Prog.refl _ _⟩
  | succ k ih =>
    intro st st' acc hk h
    rcases h.cases with ⟨e1, e2⟩ | ⟨c, r, r', e1, e2, hcf, hl⟩
    · exact ⟨st, st', acc, numberLoop_nil G st acc e1, numberLoop_nil G st' acc e2, h, Prog.refl _ _⟩
    · by_cases hd : isDecimalChar c = true
      · obtain ⟨st1, st1', t1, t2, hs, l1, l2⟩ := take_sim (G := G) (hard := hard) hL.filler (st := st) (st' := st') 1
          (by omega) (by rw [e1]; simp) (by rw [e2]; simp) (by rw [e1, e2]; rfl) (by rw [e1, e2]; simpa using hl)
        obtain ⟨st2, st2', out, n1, n2, hs2, p2⟩ := ih st1 st1' (acc ++ st.rest.take 1) (by omega) hs
        refine ⟨st2, st2', out, ?_, ?_, hs2, (Prog.strict l1 l2).trans p2⟩
        · rw [numberLoop_step G st acc c r e1 hd _ _ t1]; exact n1
        · rw [numberLoop_step G st' acc c r' e2 hd _ _ t2]; exact n2
      · have hd' : isDecimalChar c = false := by simpa using hd
        exact ⟨st, st', acc, numberLoop_stop G st acc c r e1 hd', numberLoop_stop G st' acc c r' e2 hd', h, Prog.refl _ _⟩

theorem literalsLoop_sim {G : Grammar} {hard : Char → Bool} (hL : LayoutOK G hard) {st st' : St} (h : SR G hard st st') :
    ∀ (toks : List (List Char)) (cur cur' : Option Err), (∀ t ∈ toks, tokOK G hard t = true) → CurRel cur cur' →
      ResRel G hard st st' (literalsLoop G st toks cur) (literalsLoop G st' toks cur') := by
  intro toks
  induction toks with
  | nil =>
    intro cur cur' _ hc
    cases cur <;> cases cur' <;> simp_all [CurRel, literalsLoop]
    · exact .abort _
    · exact .fail (by simp [CurRel])
  | cons tok more ih =>
    intro cur cur' hall hc
    have htok := hall tok (List.mem_cons_self ..)
    unfold literalsLoop
    by_cases hm : st.rest.take tok.length = tok
    · have hm' := (h.lg.window_iff tok htok).mp hm
      rw [if_pos hm, if_pos hm']
      obtain ⟨st1, st1', t1, t2, hs, l1, l2⟩ := take_tok_sim hL.filler h tok htok hm
      rw [t1, t2]
      exact .ok hs (Prog.strict l1 l2) hc
    · have hm' : ¬ st'.rest.take tok.length = tok := fun h' => hm ((h.lg.window_iff tok htok).mpr h')
      rw [if_neg hm, if_neg hm']
      exact ih _ _ (fun t ht => hall t (List.mem_cons_of_mem _ ht)) (hc.catch _ _)

/-! ### one-step unfoldings of `eval` (what each composite combinator does with the results of its parts) -/

/-- `Optional` / `with stream:` — what is done with the body's result -/
def optPost (st : St) : Res → Res
  | .fail err cur' => .ok st [] (catchErr err cur')
  | r => r

/-- append the outputs of a second part -/
def seqPost (out1 : List Ast) : Res → Res
  | .ok st2 out2 cur2 => .ok st2 (out1 ++ out2) cur2
  | r => r

def nodePost (n : Nat) : Res → Res
  | .ok st' out cur' => .ok st' [.node n out] cur'
  | r => r

theorem eval_opt (G : Grammar) (a : Expr) (st : St) (cur : Option Err) (bound : Nat) :
    eval G (.opt a) st cur bound = optPost st (eval G a st cur bound) := by
  rw [eval]
  generalize eval G a st cur bound = r
  cases r <;> rfl

theorem eval_allCons (G : Grammar) (a rest : Expr) (st : St) (cur : Option Err) (bound : Nat) :
    eval G (.allCons a rest) st cur bound =
      match eval G a st cur bound with
      | .ok st1 out1 cur1 =>
        if st1.rest.length < st.rest.length then seqPost out1 (eval G rest st1 cur1 G.top)
        else if st1.rest.length = st.rest.length then seqPost out1 (eval G rest st1 cur1 bound)
        else .abort .stuck
      | r => r := by
  rw [eval]
  generalize eval G a st cur bound = r
  cases r with
  | ok st1 out1 cur1 =>
    simp only
    by_cases h1 : st1.rest.length < st.rest.length
    · simp only [h1, dite_true, if_true]
      generalize eval G rest st1 cur1 G.top = r2
      cases r2 <;> rfl
    · simp only [h1, dite_false, if_false]
      by_cases h2 : st1.rest.length = st.rest.length
      · simp only [h2, dite_true, if_true]
        generalize eval G rest st1 cur1 bound = r2
        cases r2 <;> rfl
      · simp only [h2, dite_false, if_false]
  | fail e c => rfl
  | abort a => rfl

theorem eval_star (G : Grammar) (a : Expr) (st : St) (cur : Option Err) (bound : Nat) :
    eval G (.star a) st cur bound =
      match eval G a st cur bound with
      | .fail err cur' => .ok st [] (catchErr err cur')
      | .ok st1 out1 cur1 =>
        if st1.rest.length < st.rest.length then seqPost out1 (eval G (.star a) st1 cur1 G.top)
        else .abort .hang
      | r => r := by
  rw [eval]
  generalize eval G a st cur bound = r
  cases r with
  | ok st1 out1 cur1 =>
    simp only
    by_cases h1 : st1.rest.length < st.rest.length
    · simp only [h1, dite_true, if_true]
      generalize eval G (.star a) st1 cur1 G.top = r2
      cases r2 <;> rfl
    · simp only [h1, dite_false, if_false]
  | fail e c => rfl
  | abort a => rfl

theorem eval_anyCons (G : Grammar) (a rest : Expr) (st : St) (cur : Option Err) (bound : Nat) :
    eval G (.anyCons a rest) st cur bound =
      match eval G a st cur bound with
      | .fail err cur' => eval G rest st (catchErr err cur') bound
      | r => r := by
  rw [eval]
  generalize eval G a st cur bound = r
  cases r <;> rfl

theorem eval_ref (G : Grammar) (n : Nat) (st : St) (cur : Option Err) (bound : Nat) :
    eval G (.ref n) st cur bound =
      match G.rules[n]? with
      | some (some body) =>
        match G.rank[n]? with
        | some r => if r < bound then nodePost n (eval G body st cur r) else .abort .stuck
        | none => .abort .stuck
      | _ => .abort (.missingRule n) := by
  rw [eval]
  cases h1 : G.rules[n]? with
  | none => rfl
  | some ob =>
    cases ob with
    | none => rfl
    | some body =>
      cases h2 : G.rank[n]? with
      | none => rfl
      | some r =>
        simp only
        by_cases h3 : r < bound
        · simp only [h3, if_true]
          generalize eval G body st cur r = r2
          cases r2 <;> rfl
        · simp only [h3, if_false]


theorem eval_allNil (G : Grammar) (st : St) (cur : Option Err) (bound : Nat) :
    eval G .allNil st cur bound = .ok st [] cur := by rw [eval]

theorem eval_anyNil (G : Grammar) (st : St) (cur : Option Err) (bound : Nat) :
    eval G .anyNil st cur bound = match cur with | none => .abort (.internal .raiseNone) | some c => .fail c cur := by
  cases cur <;> simp [eval]

/-! ### results -/

theorem ResRel.rebase {G : Grammar} {hard : Char → Bool} {st st1 st' st1' : St} {r r' : Res}
    (p : Prog st st1 st' st1') (h : ResRel G hard st1 st1' r r') : ResRel G hard st st' r r' := by
  cases h with
  | ok hs q hc => exact .ok hs (p.trans q) hc
  | fail hc => exact .fail hc
  | abort a => exact .abort a

theorem optPost_rel {G : Grammar} {hard : Char → Bool} {st st' : St} {r r' : Res} (hs : SR G hard st st')
    (h : ResRel G hard st st' r r') : ResRel G hard st st' (optPost st r) (optPost st' r') := by
  cases h with
  | ok hs1 q hc => exact .ok hs1 q hc
  | fail hc => exact .ok hs (Prog.refl _ _) (hc.catch _ _)
  | abort a => exact .abort a

theorem seqPost_rel {G : Grammar} {hard : Char → Bool} {st st' : St} {r r' : Res} (out1 : List Ast)
    (h : ResRel G hard st st' r r') : ResRel G hard st st' (seqPost out1 r) (seqPost out1 r') := by
  cases h with
  | ok hs1 q hc => exact .ok hs1 q hc
  | fail hc => exact .fail hc
  | abort a => exact .abort a

theorem nodePost_rel {G : Grammar} {hard : Char → Bool} {st st' : St} {r r' : Res} (n : Nat)
    (h : ResRel G hard st st' r r') : ResRel G hard st st' (nodePost n r) (nodePost n r') := by
  cases h with
  | ok hs1 q hc => exact .ok hs1 q hc
  | fail hc => exact .fail hc
  | abort a => exact .abort a

/-! ### the leaf combinators, together -/

theorem evalLeaf_sim {G : Grammar} {hard : Char → Bool} (hL : LayoutOK G hard) (e : Expr) {st st' : St}
    {cur cur' : Option Err} (h : SR G hard st st') (hc : CurRel cur cur') (he : exprOK G hard e = true) :
    ResRel G hard st st' (evalLeaf G e st cur) (evalLeaf G e st' cur') := by
  cases e with
  | eos =>
    simp only [evalLeaf]
    by_cases h0 : st.rest = []
    · rw [if_pos h0, if_pos ((h.lg.nil_iff h.n h.n').mp h0)]; exact .ok h (Prog.refl _ _) hc
    · rw [if_neg h0, if_neg (fun h1 => h0 ((h.lg.nil_iff h.n h.n').mpr h1))]; exact .fail hc
  | digit n => simp only [evalLeaf]; exact digitLoop_sim hL st st' n st st' [] cur cur' h (Prog.refl _ _) hc
  | number =>
    simp only [evalLeaf]
    rcases h.cases with ⟨e1, e2⟩ | ⟨c, r, r', e1, e2, hcf, hl⟩
    · rw [e1, e2]; exact .fail hc
    · rw [e1, e2]
      simp only
      by_cases hd : isDecimalChar c = true
      · rw [if_pos hd, if_pos hd]
        obtain ⟨st1, st1', t1, t2, hs, l1, l2⟩ := take_sim (G := G) (hard := hard) hL.filler (st := st) (st' := st') 1
          (by omega) (by rw [e1]; simp) (by rw [e2]; simp) (by rw [e1, e2]; rfl) (by rw [e1, e2]; simpa using hl)
        rw [t1, t2]
        obtain ⟨st2, st2', out, n1, n2, hs2, p2⟩ := numberLoop_sim hL st1.rest.length st1 st1' (st.rest.take 1) (Nat.le_refl _) hs
        simp only [n1, n2]
        cases readNat out with
        | none => exact .fail hc
        | some v => exact .ok hs2 ((Prog.strict l1 l2).trans p2) hc
      · rw [if_neg hd, if_neg hd]; exact .fail hc
  | string =>
    simp only [evalLeaf]
    rcases h.cases with ⟨e1, e2⟩ | ⟨c, r, r', e1, e2, hcf, hl⟩
    · rw [e1, e2]; exact .fail hc
    · rw [e1, e2]
      simp only
      by_cases hi : identChar G c = true
      · rw [if_pos hi, if_pos hi]
        obtain ⟨i1, i2, i3⟩ := hl.ident hL.ident
        obtain ⟨st1, st1', t1, t2, hs, l1, l2⟩ := take_sim (G := G) (hard := hard) hL.filler (st := st) (st' := st')
          (identRun G r + 1) (by omega) (by rw [e1]; simp) (by rw [e2]; simp)
          (by rw [e1, e2]; simp only [List.take_succ_cons, i2]) (by rw [e1, e2]; simpa using i3)
        rw [← i1, t1, t2]
        exact .ok hs (Prog.strict l1 l2) hc
      · rw [if_neg hi, if_neg hi]; exact .fail hc
  | lit tok noErr =>
    simp only [exprOK] at he
    simp only [evalLeaf]
    by_cases hm : st.rest.take tok.length = tok
    · rw [if_pos hm, if_pos ((h.lg.window_iff tok he).mp hm)]
      obtain ⟨st1, st1', t1, t2, hs, l1, l2⟩ := take_tok_sim hL.filler h tok he hm
      rw [t1, t2]
      exact .ok hs (Prog.strict l1 l2) hc
    · rw [if_neg hm, if_neg (fun h' => hm ((h.lg.window_iff tok he).mpr h'))]; exact .fail hc
  | filler tok noErr =>
    simp only [exprOK] at he
    simp only [evalLeaf]
    by_cases hm : st.rest.take tok.length = tok
    · rw [if_pos hm, if_pos ((h.lg.window_iff tok he).mp hm)]
      obtain ⟨st1, st1', t1, t2, hs, l1, l2⟩ := take_tok_sim hL.filler h tok he hm
      rw [t1, t2]
      exact .ok hs (Prog.strict l1 l2) hc
    · rw [if_neg hm, if_neg (fun h' => hm ((h.lg.window_iff tok he).mpr h'))]; exact .fail hc
  | literals toks name =>
    simp only [exprOK, List.all_eq_true] at he
    have g := literalsLoop_sim hL h toks cur cur' he hc
    simp only [evalLeaf]
    generalize literalsLoop G st toks cur = r1 at g ⊢
    generalize literalsLoop G st' toks cur' = r2 at g ⊢
    cases g with
    | ok hs1 q hc1 => exact .ok hs1 q hc1
    | fail hc1 => cases name <;> exact .fail hc1
    | abort a => exact .abort a
  | _ => simp only [evalLeaf]; exact .abort _

/-! ### the engine -/

def isLeaf : Expr → Bool
  | .eos | .digit _ | .number | .string | .lit _ _ | .filler _ _ | .literals _ _ => true
  | _ => false

theorem eval_leaf (G : Grammar) (e : Expr) (he : isLeaf e = true) (st : St) (cur : Option Err) (bound : Nat) :
    eval G e st cur bound = evalLeaf G e st cur := by
  cases e <;> first | (simp [isLeaf] at he; done) | (rw [eval] <;> simp)

/-- **lock-step simulation**: on related states, with error registers that are both empty or both set, the engine
run on any expression whose tokens meet the layout hypotheses takes the same decisions: both succeed with the same
output trees on related states (advancing together), or both fail, or both abort alike. -/
theorem eval_sim {G : Grammar} {hard : Char → Bool} (hL : LayoutOK G hard) (e : Expr) (st : St) (cur : Option Err)
    (bound : Nat) (st' : St) (cur' : Option Err) (h : SR G hard st st') (hc : CurRel cur cur')
    (he : exprOK G hard e = true) :
    ResRel G hard st st' (eval G e st cur bound) (eval G e st' cur' bound) := by
  match e with
  | .opt a =>
    rw [eval_opt, eval_opt]
    exact optPost_rel h (eval_sim hL a st cur bound st' cur' h hc (by simpa [exprOK] using he))
  | .star a =>
    have he' : exprOK G hard a = true := by simpa [exprOK] using he
    rw [eval_star, eval_star]
    have g := eval_sim hL a st cur bound st' cur' h hc he'
    generalize eval G a st cur bound = r1 at g ⊢
    generalize eval G a st' cur' bound = r2 at g ⊢
    cases g with
    | fail hc1 => exact .ok h (Prog.refl _ _) (hc1.catch _ _)
    | abort a' => exact .abort a'
    | @ok st1 st1' out1 cur1 cur1' hs1 q hc1 =>
      simp only
      by_cases hlt : st1.rest.length < st.rest.length
      · have hlt' := q.lt.mp hlt
        rw [if_pos hlt, if_pos hlt']
        exact (seqPost_rel out1 (eval_sim hL (.star a) st1 cur1 G.top st1' cur1' hs1 hc1 he)).rebase q
      · have hlt' : ¬ st1'.rest.length < st'.rest.length := fun h' => hlt (q.lt.mpr h')
        rw [if_neg hlt, if_neg hlt']
        exact .abort _
  | .allNil => rw [eval_allNil, eval_allNil]; exact .ok h (Prog.refl _ _) hc
  | .allCons a rest =>
    have he' : exprOK G hard a = true ∧ exprOK G hard rest = true := by simpa [exprOK] using he
    rw [eval_allCons, eval_allCons]
    have g := eval_sim hL a st cur bound st' cur' h hc he'.1
    generalize eval G a st cur bound = r1 at g ⊢
    generalize eval G a st' cur' bound = r2 at g ⊢
    cases g with
    | fail hc1 => exact .fail hc1
    | abort a' => exact .abort a'
    | @ok st1 st1' out1 cur1 cur1' hs1 q hc1 =>
      simp only
      by_cases hlt : st1.rest.length < st.rest.length
      · have hlt' := q.lt.mp hlt
        rw [if_pos hlt, if_pos hlt']
        exact (seqPost_rel out1 (eval_sim hL rest st1 cur1 G.top st1' cur1' hs1 hc1 he'.2)).rebase q
      · have hlt' : ¬ st1'.rest.length < st'.rest.length := fun h' => hlt (q.lt.mpr h')
        rw [if_neg hlt, if_neg hlt']
        by_cases heq : st1.rest.length = st.rest.length
        · have heq' := q.eq_iff.mp heq
          rw [if_pos heq, if_pos heq']
          exact (seqPost_rel out1 (eval_sim hL rest st1 cur1 bound st1' cur1' hs1 hc1 he'.2)).rebase q
        · have heq' : ¬ st1'.rest.length = st'.rest.length := fun h' => heq (q.eq_iff.mpr h')
          rw [if_neg heq, if_neg heq']
          exact .abort _
  | .anyNil =>
    rw [eval_anyNil, eval_anyNil]
    cases cur <;> cases cur' <;> simp_all [CurRel]
    · exact .abort _
    · exact .fail (by simp [CurRel])
  | .anyCons a rest =>
    have he' : exprOK G hard a = true ∧ exprOK G hard rest = true := by simpa [exprOK] using he
    rw [eval_anyCons, eval_anyCons]
    have g := eval_sim hL a st cur bound st' cur' h hc he'.1
    generalize eval G a st cur bound = r1 at g ⊢
    generalize eval G a st' cur' bound = r2 at g ⊢
    cases g with
    | ok hs1 q hc1 => exact .ok hs1 q hc1
    | abort a' => exact .abort a'
    | fail hc1 => exact eval_sim hL rest st _ bound st' _ h (hc1.catch _ _) he'.2
  | .ref n =>
    rw [eval_ref, eval_ref]
    cases h1 : G.rules[n]? with
    | none => exact .abort _
    | some ob =>
      cases ob with
      | none => exact .abort _
      | some body =>
        cases h2 : G.rank[n]? with
        | none => exact .abort _
        | some r =>
          simp only
          by_cases h3 : r < bound
          · rw [if_pos h3, if_pos h3]
            exact nodePost_rel n (eval_sim hL body st cur r st' cur' h hc (hL.toks n body h1))
          · rw [if_neg h3, if_neg h3]; exact .abort _
  | .eos => rw [eval_leaf G _ rfl, eval_leaf G _ rfl]; exact evalLeaf_sim hL _ h hc he
  | .digit k => rw [eval_leaf G _ rfl, eval_leaf G _ rfl]; exact evalLeaf_sim hL _ h hc he
  | .number => rw [eval_leaf G _ rfl, eval_leaf G _ rfl]; exact evalLeaf_sim hL _ h hc he
  | .string => rw [eval_leaf G _ rfl, eval_leaf G _ rfl]; exact evalLeaf_sim hL _ h hc he
  | .lit tok b => rw [eval_leaf G _ rfl, eval_leaf G _ rfl]; exact evalLeaf_sim hL _ h hc he
  | .filler tok b => rw [eval_leaf G _ rfl, eval_leaf G _ rfl]; exact evalLeaf_sim hL _ h hc he
  | .literals toks nm => rw [eval_leaf G _ rfl, eval_leaf G _ rfl]; exact evalLeaf_sim hL _ h hc he
termination_by (st.rest.length, bound, sizeOf e)
decreasing_by
  all_goals simp_wf
  all_goals first
    | (apply Prod.Lex.left; omega)
    | (apply Prod.Lex.right; apply Prod.Lex.left; omega)
    | (apply Prod.Lex.right; apply Prod.Lex.right; omega)
    | (rw [heq]; apply Prod.Lex.right; apply Prod.Lex.right; omega)

/-! ### `parse` -/

/-- two parse outcomes of the same class; accepted ones carry the same tree -/
inductive ParseRel : ParseRes → ParseRes → Prop
  | accepted (t : Ast) (fin fin' : St) : ParseRel (.accepted t fin) (.accepted t fin')
  | syntaxError (e e' : Err) : ParseRel (.syntaxError e) (.syntaxError e')
  | abort (a : Abort) : ParseRel (.abort a) (.abort a)

theorem skipFiller_rest (G : Grammar) (hf : [] ∉ G.filler) (st : St) :
    ∃ st0, skipFiller G.filler st = some st0 ∧ st0.rest = stripF G st.rest := by
  unfold skipFiller
  obtain ⟨st0, h0⟩ := skipFillerAux_isSome G.filler hf st.rest st.idx st.line st.col
  exact ⟨st0, h0, skipFillerAux_rest G _ _ _ _ _ h0⟩

/-- **layout theorem for `parse`**: two texts that, once leading filler is dropped, differ only in opaque gaps and
trailing filler are both rejected, or abort alike, or are both accepted **with the same tree**. -/
theorem parse_layout {G : Grammar} {hard : Char → Bool} (hL : LayoutOK G hard) (s s' : List Char)
    (h : LG G hard (stripF G s) (stripF G s')) : ParseRel (parse G s) (parse G s') := by
  unfold parse
  obtain ⟨st0, e0, r0⟩ := skipFiller_rest G hL.filler ⟨s, 0, 1, 1⟩
  obtain ⟨st0', e0', r0'⟩ := skipFiller_rest G hL.filler ⟨s', 0, 1, 1⟩
  rw [e0, e0']
  simp only
  have hs : SR G hard st0 st0' := ⟨by rw [r0, r0']; exact h, by rw [r0]; exact stripF_normal G _, by rw [r0']; exact stripF_normal G _⟩
  have g := eval_sim hL (.ref G.root) st0 none G.top st0' none hs rfl rfl
  generalize eval G (.ref G.root) st0 none G.top = r1 at g ⊢
  generalize eval G (.ref G.root) st0' none G.top = r2 at g ⊢
  cases g with
  | fail _ => exact .syntaxError _ _
  | abort a => exact .abort a
  | @ok st1 st1' out cur cur' hs1 q hc1 =>
    simp only
    by_cases hr : st1.rest = []
    · rw [if_pos hr, if_pos ((hs1.lg.nil_iff hs1.n hs1.n').mp hr)]
      cases out with
      | nil => exact .abort _
      | cons t ts => exact .accepted t _ _
    · rw [if_neg hr, if_neg (fun h' => hr ((hs1.lg.nil_iff hs1.n hs1.n').mpr h'))]
      exact .syntaxError _ _

theorem LG.append_left {G : Grammar} {hard : Char → Bool} (x : List Char) {r r' : List Char} (h : LG G hard r r') :
    LG G hard (x ++ r) (x ++ r') := by
  induction x with
  | nil => exact h
  | cons c x ih => exact .cons c ih

end PGA.Ring
