import PGA.Proofs.UnitsParser
/-! Evaluation of a parsed tree ends in a value, the units parse error or an arithmetic error. -/
namespace PGA.Units

theorem Mag.div_error {a b : Mag} {e : Err} (h : a.div b = .error e) : e = .math := by
  unfold Mag.div at h
  split at h
  · injection h with h; exact h.symm
  · simp at h

theorem Mag.pow_error {a : Mag} {x : Rat} {e : Err} (h : a.pow x = .error e) :
    e = .math ∨ (e = .internal .complexPower ∧ a.isNeg = true ∧ isInt x = false) := by
  unfold Mag.pow at h
  split at h
  · split at h
    · split at h
      · injection h with h; exact Or.inl h.symm
      · simp at h
    · split at h <;> simp at h
  · next hx =>
    have hx' : isInt x = false := by simpa using hx
    split at h
    · next q =>
      split at h
      · simp at h
      · split at h
        · split at h
          · simp at h
          · injection h with h; exact Or.inl h.symm
        · split at h
          · simp at h
          · next h1 h0 hpos =>
            injection h with h
            refine Or.inr ⟨h.symm, ?_, hx'⟩
            simp only [Mag.isNeg, decide_eq_true_eq]
            rcases lt_trichotomy q 0 with hlt | heq | hgt
            · exact hlt
            · exact absurd heq h0
            · exact absurd hgt hpos
    · next n =>
      split at h
      · next hn =>
        injection h with h
        exact Or.inr ⟨h.symm, by simpa [Mag.isNeg] using hn, hx'⟩
      · simp at h

theorem lookup_error {cfg : Cfg} {name : Name} {e : Err} (h : lookup cfg name = .error e) : e = .unitsParse := by
  unfold lookup at h
  split at h
  · simp at h
  · split at h
    · simp at h
    · split at h
      · simp at h
      · injection h with h; exact h.symm

/-- evaluating a tree never ends in an internal error or the units error -/
theorem evalTree_error (cfg : Cfg) (t : Tree) (e : Err) (h : evalTree cfg t = .error e) :
    e = .unitsParse ∨ e = .math := by
  induction t generalizing e with
  | num q => simp [evalTree] at h
  | name s => exact Or.inl (lookup_error h)
  | mul a b iha ihb =>
    simp only [evalTree, bind, Except.bind] at h
    split at h
    · next e' he => injection h with h; subst h; exact iha e' he
    · split at h
      · next e' he => injection h with h; subst h; exact ihb e' he
      · simp [pure, Except.pure] at h
  | div a b iha ihb =>
    simp only [evalTree, bind, Except.bind] at h
    split at h
    · next e' he => injection h with h; subst h; exact iha e' he
    · split at h
      · next e' he => injection h with h; subst h; exact ihb e' he
      · next x hx y hy =>
        simp only [Val.div, bind, Except.bind] at h
        split at h
        · next e' he => injection h with h; subst h; exact Or.inr (Mag.div_error he)
        · simp [pure, Except.pure] at h
  | pow a x iha =>
    simp only [evalTree, bind, Except.bind] at h
    split at h
    · next e' he => injection h with h; subst h; exact iha e' he
    · next v hv =>
      split at h
      · injection h with h; exact Or.inl h.symm
      · next hguard =>
        simp only [Val.pow, bind, Except.bind] at h
        split at h
        · next e' he =>
          injection h with h; subst h
          rcases Mag.pow_error he with hm | ⟨_, hneg, hint⟩
          · exact Or.inr hm
          · exact absurd (by simp [hneg, hint]) hguard
        · simp [pure, Except.pure] at h

end PGA.Units
