import PGA.Spec.Rxn
/-! # Helper lemmas for C16 (`PGA/Props/C16.lean`): RDKit primitives, frame and balance of every edit -/
namespace PGA.Rxn
open List

/-! ### unordered pairs and `joins` -/

theorem joins_iff (e : WBond) (x y : Nat) : e.joins x y = true ↔ SamePair e.a e.b x y := by
  simp [WBond.joins, SamePair]

theorem joins_comm (e : WBond) (x y : Nat) : e.joins x y = e.joins y x := by
  simp only [WBond.joins, Bool.or_comm]

theorem samePair_of_joins {e : WBond} {u v x y : Nat} (h1 : e.joins u v = true) (h2 : e.joins x y = true) :
    SamePair u v x y := by
  rw [joins_iff] at h1 h2
  unfold SamePair at *
  omega

theorem joins_congr {e : WBond} {u v x y : Nat} (h : SamePair u v x y) : e.joins u v = e.joins x y := by
  unfold SamePair at h
  rcases h with ⟨rfl, rfl⟩ | ⟨rfl, rfl⟩
  · rfl
  · exact joins_comm _ _ _

theorem touches_of_joins {e : WBond} {x y z : Nat} (h : e.joins x y = true) :
    e.touches z = (decide (z = x) || decide (z = y)) := by
  rw [joins_iff] at h
  unfold SamePair at h
  rw [Bool.eq_iff_iff]
  simp only [WBond.touches, Bool.or_eq_true, beq_iff_eq, decide_eq_true_eq]
  omega

/-! ### `bondBetween` / `kindBetween` -/

theorem kindBetween_none_iff (m : WMol) (x y : Nat) :
    m.kindBetween x y = none ↔ ∀ e ∈ m.bonds, e.joins x y = false := by
  simp [WMol.kindBetween, WMol.bondBetween, List.find?_eq_none]

theorem bondBetween_isSome_iff (m : WMol) (x y : Nat) : (m.bondBetween x y).isSome = true ↔ m.kindBetween x y ≠ none := by
  simp [WMol.kindBetween, Option.isSome_iff_ne_none]

theorem kindBetween_congr (m : WMol) {u v x y : Nat} (h : SamePair u v x y) : m.kindBetween u v = m.kindBetween x y := by
  have : (fun e : WBond => e.joins u v) = (fun e : WBond => e.joins x y) := funext fun e => joins_congr h
  simp only [WMol.kindBetween, WMol.bondBetween, this]

/-- frame of `RemoveBond` on bond types -/
theorem kindBetween_removeBond (m : WMol) (x y u v : Nat) :
    (m.removeBond x y).kindBetween u v = if SamePair u v x y then none else m.kindBetween u v := by
  simp only [WMol.kindBetween, WMol.bondBetween, WMol.removeBond, List.find?_filter]
  by_cases h : SamePair u v x y
  · simp only [h, if_true, Option.map_eq_none_iff, List.find?_eq_none]
    intro e _
    simp only [decide_eq_true_eq, not_and, Bool.not_eq_eq_eq_not, Bool.not_true]
    intro h1 h2
    rw [joins_congr h] at h2
    rw [h1] at h2; exact Bool.noConfusion h2
  · simp only [h, if_false]
    congr 1
    congr 1
    funext e
    by_cases hj : e.joins u v = true
    · have : e.joins x y = false := by
        cases hxy : e.joins x y with
        | false => rfl
        | true => exact absurd (samePair_of_joins hj hxy) h
      simp [hj, this]
    · simp [hj]

theorem atoms_removeBond (m : WMol) (x y : Nat) : (m.removeBond x y).atoms = m.atoms := rfl


/-! ### atoms: `core` observations -/

theorem core_getElem? {m m' : WMol} (h : m'.atoms.map WAtom.core = m.atoms.map WAtom.core) (z : Nat) :
    (m'.atoms[z]?).map WAtom.core = (m.atoms[z]?).map WAtom.core := by
  have := congrArg (fun l => l[z]?) h
  simpa [List.getElem?_map] using this

theorem radAt_of_core {m m' : WMol} (h : m'.atoms.map WAtom.core = m.atoms.map WAtom.core) (z : Nat) :
    m'.radAt z = m.radAt z ∧ m'.chgAt z = m.chgAt z := by
  have hz := core_getElem? h z
  unfold WMol.radAt WMol.chgAt
  cases h1 : m'.atoms[z]? <;> cases h2 : m.atoms[z]? <;> simp [h1, h2, WAtom.core] at hz ⊢
  exact ⟨by rw [hz.2.2], hz.2.1⟩

theorem elements_of_core {m m' : WMol} (h : m'.atoms.map WAtom.core = m.atoms.map WAtom.core) :
    m'.elements = m.elements := by
  have := congrArg (List.map (fun c : Nat × Int × Nat => c.1)) h
  simpa [WMol.elements, List.map_map, Function.comp_def, WAtom.core] using this

theorem core_modify_flag (l : List WAtom) (x : Nat) :
    (l.modify x fun a => { a with aromatic := true }).map WAtom.core = l.map WAtom.core := by
  apply List.ext_getElem?
  intro j
  simp only [List.getElem?_map, List.getElem?_modify]
  cases l[j]? with
  | none => rfl
  | some a => by_cases h : x = j <;> simp [h, WAtom.core]

/-! ### `AddBond` -/

theorem addBond_ok {m m' : WMol} {x y : Nat} {k : BK} (h : m.addBond x y k = .ok m') :
    x ≠ y ∧ m.kindBetween x y = none ∧ m'.bonds = m.bonds ++ [⟨x, y, k⟩] ∧
    m'.atoms.map WAtom.core = m.atoms.map WAtom.core ∧ m'.atoms.length = m.atoms.length := by
  unfold WMol.addBond at h
  by_cases hxy : (x == y) = true
  · simp [hxy, throw, throwThe, MonadExceptOf.throw] at h
  · by_cases hb : (m.bondBetween x y).isSome = true
    · simp [hxy, hb, throw, throwThe, MonadExceptOf.throw] at h
    · simp only [hxy, hb, if_false, pure, Except.pure, Except.ok.injEq, Bool.false_eq_true] at h
      subst h
      refine ⟨by simpa using hxy, ?_, rfl, ?_, ?_⟩
      · exact Decidable.of_not_not fun hc => hb ((bondBetween_isSome_iff m x y).2 hc)
      · dsimp only
        split
        · rw [core_modify_flag, core_modify_flag]
        · rfl
      · dsimp only
        split
        · simp [List.length_modify]
        · rfl

theorem kindBetween_addBond {m m' : WMol} {x y : Nat} {k : BK} (h : m.addBond x y k = .ok m') (u v : Nat) :
    m'.kindBetween u v = if SamePair u v x y then some k else m.kindBetween u v := by
  obtain ⟨_, hnone, hb, _, _⟩ := addBond_ok h
  simp only [WMol.kindBetween, WMol.bondBetween, hb, List.find?_append]
  by_cases hp : SamePair u v x y
  · have h1 : m.kindBetween u v = none := by rw [kindBetween_congr m hp]; exact hnone
    have h1' : List.find? (fun e : WBond => e.joins u v) m.bonds = none := by
      simpa [WMol.kindBetween, WMol.bondBetween] using h1
    have h2 : (⟨x, y, k⟩ : WBond).joins u v = true := by
      rw [joins_congr hp]; simp [WBond.joins]
    simp [hp, h1', h2]
  · have h2 : (⟨x, y, k⟩ : WBond).joins u v = false := by
      cases hj : (⟨x, y, k⟩ : WBond).joins u v with
      | false => rfl
      | true => exact absurd (samePair_of_joins hj (by simp [WBond.joins])) hp
    simp [hp, h2]

theorem bondSum2_addBond {m m' : WMol} {x y : Nat} {k : BK} (h : m.addBond x y k = .ok m') (z : Nat) :
    m'.bondSum2 z = m.bondSum2 z + (if z = x ∨ z = y then k.half else 0) := by
  obtain ⟨_, _, hb, _, _⟩ := addBond_ok h
  simp only [WMol.bondSum2, hb, List.filter_append, List.map_append, List.sum_append]
  congr 1
  by_cases hz : z = x ∨ z = y
  · have : (⟨x, y, k⟩ : WBond).touches z = true := by
      simp only [WBond.touches, Bool.or_eq_true, beq_iff_eq]; omega
    simp [hz, this]
  · have : (⟨x, y, k⟩ : WBond).touches z = false := by
      rw [Bool.eq_false_iff]; simp only [WBond.touches, ne_eq, Bool.or_eq_true, beq_iff_eq]; omega
    simp [hz, this]

theorem wf_addBond {m m' : WMol} {x y : Nat} {k : BK} (h : m.addBond x y k = .ok m') (hw : m.wf = true)
    (hx : x < m.natoms) (hy : y < m.natoms) : m'.wf = true := by
  obtain ⟨hne, hnone, hb, _, hlen⟩ := addBond_ok h
  have hn : m'.natoms = m.natoms := hlen
  simp only [WMol.wf, Bool.and_eq_true, List.all_eq_true, decide_eq_true_eq, bne_iff_ne, ne_eq] at hw ⊢
  rw [hb, hn]
  refine ⟨?_, ?_⟩
  · intro e he
    rcases List.mem_append.1 he with he | he
    · exact hw.1 e he
    · have : e = ⟨x, y, k⟩ := by simpa using he
      subst this
      exact ⟨⟨hx, hy⟩, hne⟩
  · rw [List.pairwise_append]
    refine ⟨hw.2, by simp, ?_⟩
    intro e he e' he'
    have : e' = ⟨x, y, k⟩ := by simpa using he'
    subst this
    have h1 := (kindBetween_none_iff m x y).1 hnone e he
    have h2 : (⟨x, y, k⟩ : WBond).joins e.a e.b = e.joins x y := by
      rw [Bool.eq_iff_iff, joins_iff, joins_iff]
      unfold SamePair
      dsimp only
      constructor <;> intro h <;> omega
    rw [h2, h1]; rfl


/-! ### `RemoveBond` -/

theorem filter_not_joins_of_none (l : List WBond) (x y : Nat) (h : ∀ e ∈ l, e.joins x y = false) :
    l.filter (fun e => !e.joins x y) = l := by
  rw [List.filter_eq_self]
  intro e he
  simp [h e he]

/-- removing the (unique) bond between `x` and `y` lowers the bond sums at its two ends by its order -/
theorem sum_filter_remove (x y z : Nat) : ∀ (l : List WBond) (e : WBond),
    l.Pairwise (fun e e' => (!(e'.joins e.a e.b)) = true) → l.find? (·.joins x y) = some e →
    (((l.filter (fun e => !e.joins x y)).filter (·.touches z)).map (·.kind.half)).sum =
      ((l.filter (·.touches z)).map (·.kind.half)).sum - (if e.touches z = true then e.kind.half else 0) := by
  intro l
  induction l with
  | nil => intro e _ h; simp at h
  | cons b t ih =>
    intro e hp hf
    rw [List.pairwise_cons] at hp
    by_cases hb : b.joins x y = true
    · have he : e = b := by simpa [List.find?_cons, hb] using hf.symm
      subst he
      have ht : ∀ e' ∈ t, e'.joins x y = false := by
        intro e' he'
        have h1 := hp.1 e' he'
        have hsp : SamePair e.a e.b x y := (joins_iff e x y).1 hb
        rw [joins_congr hsp] at h1
        simpa using h1
      rw [List.filter_cons]
      simp only [hb, Bool.not_true, Bool.false_eq_true, if_false]
      rw [filter_not_joins_of_none t x y ht]
      by_cases hz : e.touches z = true
      · simp only [List.filter_cons, hz, if_true, List.map_cons, List.sum_cons]; omega
      · simp [hz]
    · have hb' : b.joins x y = false := by simpa using hb
      have hf' : t.find? (·.joins x y) = some e := by simpa [List.find?_cons, hb'] using hf
      have := ih e hp.2 hf'
      rw [List.filter_cons]
      simp only [hb', Bool.not_false, if_true]
      by_cases hz : b.touches z = true
      · simp only [List.filter_cons, hz, if_true, List.map_cons, List.sum_cons, this]; omega
      · simp only [List.filter_cons, hz, if_false, this, Bool.false_eq_true]

theorem wf_pairwise {m : WMol} (hw : m.wf = true) : m.bonds.Pairwise (fun e e' => (!(e'.joins e.a e.b)) = true) := by
  simp only [WMol.wf, Bool.and_eq_true, decide_eq_true_eq] at hw
  exact hw.2

theorem wf_noloop {m : WMol} (hw : m.wf = true) (x : Nat) : m.kindBetween x x = none := by
  rw [kindBetween_none_iff]
  intro e he
  simp only [WMol.wf, Bool.and_eq_true, List.all_eq_true, decide_eq_true_eq, bne_iff_ne, ne_eq] at hw
  have := (hw.1 e he).2
  rw [Bool.eq_false_iff]
  intro hj
  rw [joins_iff] at hj
  unfold SamePair at hj
  omega

theorem bondSum2_removeBond {m : WMol} (hw : m.wf = true) {x y : Nat} {k : BK} (hk : m.kindBetween x y = some k) (z : Nat) :
    (m.removeBond x y).bondSum2 z = m.bondSum2 z - (if z = x ∨ z = y then k.half else 0) := by
  simp only [WMol.kindBetween, WMol.bondBetween, Option.map_eq_some_iff] at hk
  obtain ⟨e, hf, hek⟩ := hk
  have hj : e.joins x y = true := List.find?_some (p := fun e : WBond => e.joins x y) hf
  have := sum_filter_remove x y z m.bonds e (wf_pairwise hw) hf
  simp only [WMol.bondSum2, WMol.removeBond, this, touches_of_joins hj, hek]
  simp

theorem wf_removeBond {m : WMol} (hw : m.wf = true) (x y : Nat) : (m.removeBond x y).wf = true := by
  simp only [WMol.wf, Bool.and_eq_true, List.all_eq_true, decide_eq_true_eq, bne_iff_ne, ne_eq] at hw ⊢
  refine ⟨?_, ?_⟩
  · intro e he
    exact hw.1 e (List.mem_filter.1 he).1
  · exact hw.2.filter _

theorem natoms_removeBond (m : WMol) (x y : Nat) : (m.removeBond x y).natoms = m.natoms := rfl

theorem radAt_removeBond (m : WMol) (x y z : Nat) : (m.removeBond x y).radAt z = m.radAt z := rfl
theorem chgAt_removeBond (m : WMol) (x y z : Nat) : (m.removeBond x y).chgAt z = m.chgAt z := rfl

/-! ### atom edits -/

theorem atoms_modifyAtom_getElem? (m : WMol) (x : Nat) (g : WAtom → WAtom) (z : Nat) :
    (m.modifyAtom x g).atoms[z]? = if x = z then (m.atoms[z]?).map g else m.atoms[z]? := by
  simp only [WMol.modifyAtom, List.getElem?_modify]
  cases m.atoms[z]? with
  | none => simp
  | some a => by_cases h : x = z <;> simp [h]

theorem bonds_modifyAtom (m : WMol) (x : Nat) (g : WAtom → WAtom) : (m.modifyAtom x g).bonds = m.bonds := rfl
theorem kindBetween_modifyAtom (m : WMol) (x : Nat) (g : WAtom → WAtom) (u v : Nat) :
    (m.modifyAtom x g).kindBetween u v = m.kindBetween u v := rfl
theorem bondSum2_modifyAtom (m : WMol) (x : Nat) (g : WAtom → WAtom) (z : Nat) :
    (m.modifyAtom x g).bondSum2 z = m.bondSum2 z := rfl
theorem natoms_modifyAtom (m : WMol) (x : Nat) (g : WAtom → WAtom) : (m.modifyAtom x g).natoms = m.natoms := by
  simp [WMol.natoms, WMol.modifyAtom, List.length_modify]
theorem wf_modifyAtom {m : WMol} (hw : m.wf = true) (x : Nat) (g : WAtom → WAtom) : (m.modifyAtom x g).wf = true := by
  simp only [WMol.wf, natoms_modifyAtom, bonds_modifyAtom] at hw ⊢
  exact hw

theorem elements_modifyAtom (m : WMol) (x : Nat) (g : WAtom → WAtom) (hg : ∀ a, (g a).Z = a.Z) :
    (m.modifyAtom x g).elements = m.elements := by
  apply List.ext_getElem?
  intro j
  simp only [WMol.elements, List.getElem?_map, atoms_modifyAtom_getElem?]
  by_cases h : x = j
  · simp only [h, if_true]
    cases m.atoms[j]? with
    | none => rfl
    | some a => simp [hg]
  · simp [h]


/-! ### one step on one bond -/

def halfO : Option BK → Int
  | none => 0
  | some k => k.half

/-- a change of the bond between `x` and `y` from `before` to `after` and of nothing else -/
structure BondStep (m m' : WMol) (x y : Nat) (b0 b1 : Option BK) : Prop where
  ne : x ≠ y
  wf : m'.wf = true
  natoms : m'.natoms = m.natoms
  before : m.kindBetween x y = b0
  after : m'.kindBetween x y = b1
  frame : BondsSameExcept m m' x y
  core : CoreSame m m'
  sum : ∀ z, m'.bondSum2 z = m.bondSum2 z + (if z = x ∨ z = y then halfO b1 - halfO b0 else 0)

theorem samePair_refl (x y : Nat) : SamePair x y x y := Or.inl ⟨rfl, rfl⟩

theorem step_add {m m' : WMol} {x y : Nat} {k : BK} (hw : m.wf = true) (hx : x < m.natoms) (hy : y < m.natoms)
    (h : m.addBond x y k = .ok m') : BondStep m m' x y none (some k) := by
  obtain ⟨hne, hnone, _, hcore, hlen⟩ := addBond_ok h
  refine ⟨hne, wf_addBond h hw hx hy, hlen, hnone, ?_, ?_, hcore, ?_⟩
  · rw [kindBetween_addBond h]; simp [samePair_refl]
  · intro u v huv; rw [kindBetween_addBond h]; simp [huv]
  · intro z; rw [bondSum2_addBond h]; simp [halfO]

theorem step_remove {m : WMol} {x y : Nat} {k : BK} (hw : m.wf = true) (hk : m.kindBetween x y = some k) :
    BondStep m (m.removeBond x y) x y (some k) none := by
  have hne : x ≠ y := by
    intro hxy; subst hxy; rw [wf_noloop hw] at hk; cases hk
  refine ⟨hne, wf_removeBond hw x y, rfl, hk, ?_, ?_, rfl, ?_⟩
  · rw [kindBetween_removeBond]; simp [samePair_refl]
  · intro u v huv; rw [kindBetween_removeBond]; simp [huv]
  · intro z; rw [bondSum2_removeBond hw hk]; simp only [halfO]; split <;> omega

theorem BondStep.trans {m m1 m2 : WMol} {x y : Nat} {a b c : Option BK} (h1 : BondStep m m1 x y a b)
    (h2 : BondStep m1 m2 x y b c) : BondStep m m2 x y a c := by
  refine ⟨h1.ne, h2.wf, h2.natoms.trans h1.natoms, h1.before, h2.after, ?_, ?_, ?_⟩
  · intro u v huv; rw [h2.frame u v huv, h1.frame u v huv]
  · exact Eq.trans h2.core h1.core
  · intro z; rw [h2.sum, h1.sum]; split <;> omega

theorem step_replace {m m' : WMol} {x y : Nat} {k k' : BK} (hw : m.wf = true) (hk : m.kindBetween x y = some k)
    (hx : x < m.natoms) (hy : y < m.natoms) (h : (m.removeBond x y).addBond x y k' = .ok m') :
    BondStep m m' x y (some k) (some k') :=
  (step_remove hw hk).trans (step_add (wf_removeBond hw x y) hx hy h)

theorem BondStep.E {m m' : WMol} {x y : Nat} {a b : Option BK} (h : BondStep m m' x y a b) (z : Nat) :
    m'.E z = m.E z + (if z = x ∨ z = y then halfO b - halfO a else 0) := by
  obtain ⟨hr, hc⟩ := radAt_of_core h.core z
  simp only [WMol.E, h.sum, hr, hc]; omega

theorem BondStep.elements {m m' : WMol} {x y : Nat} {a b : Option BK} (h : BondStep m m' x y a b) :
    m'.elements = m.elements := elements_of_core h.core

/-! ### index maps -/

theorem mapped_ok {f : List Nat} {m : WMol} {i x : Nat} (h : mapped f m i = .ok x) : f[i]? = some x ∧ x < m.natoms := by
  unfold mapped at h
  cases hf : f[i]? with
  | none => simp [hf, throw, throwThe, MonadExceptOf.throw] at h
  | some x' =>
    simp only [hf] at h
    by_cases hx : x' < m.natoms
    · simp only [hx, if_true, pure, Except.pure, Except.ok.injEq] at h; subst h; exact ⟨rfl, hx⟩
    · simp [hx, throw, throwThe, MonadExceptOf.throw] at h

theorem label_eq_iff {f : List Nat} (hf : f.Nodup) {l i z x : Nat} (hl : f[l]? = some z) (hi : f[i]? = some x) :
    z = x ↔ l = i := by
  have hl' : l < f.length := by
    rcases List.getElem?_eq_some_iff.1 hl with ⟨h, _⟩; exact h
  constructor
  · intro hzx
    subst hzx
    exact (List.getElem?_inj hl' hf).1 (hl.trans hi.symm)
  · intro hli
    subst hli
    rw [hl] at hi; exact Option.some.inj hi

/-- a change `δ` of `E` at the two (different) atoms `x = f[i]`, `y = f[j]`, read at the label `l` of atom `z` -/
theorem pair_law {f : List Nat} (hf : f.Nodup) {i j x y l z : Nat} (hi : f[i]? = some x) (hj : f[j]? = some y)
    (hl : f[l]? = some z) (hxy : x ≠ y) (δ : Int) :
    (if z = x ∨ z = y then δ else 0) = -((if l = i then -δ else 0) + (if l = j then -δ else 0)) := by
  have h1 := label_eq_iff hf hl hi
  have h2 := label_eq_iff hf hl hj
  have hij : i ≠ j := by
    intro h; subst h; rw [hi] at hj; exact hxy (Option.some.inj hj)
  by_cases hli : l = i
  · have hlj : l ≠ j := fun h => hij (hli.symm.trans h)
    have hzx : z = x := h1.2 hli
    rw [if_pos (Or.inl hzx), if_pos hli, if_neg hlj]; omega
  · by_cases hlj : l = j
    · have hzy : z = y := h2.2 hlj
      rw [if_pos (Or.inr hzy), if_neg hli, if_pos hlj]; omega
    · have hzx : z ≠ x := fun h => hli (h1.1 h)
      have hzy : z ≠ y := fun h => hlj (h2.1 h)
      rw [if_neg (by intro h; rcases h with h | h; exact hzx h; exact hzy h), if_neg hli, if_neg hlj]; omega

theorem single_law {f : List Nat} (hf : f.Nodup) {i x l z : Nat} (hi : f[i]? = some x) (hl : f[l]? = some z) (δ : Int) :
    (if z = x then δ else 0) = -(if l = i then -δ else 0) := by
  have h1 := label_eq_iff hf hl hi
  by_cases hzx : z = x
  · simp [hzx, h1.1 hzx]
  · have : l ≠ i := fun h => hzx (h1.2 h)
    simp [hzx, this]


theorem bind_ok {α β ε : Type} {x : Except ε α} {g : α → Except ε β} {b : β} (h : (x >>= g) = .ok b) :
    ∃ a, x = .ok a ∧ g a = .ok b := by
  cases x with
  | error e => simp [bind, Except.bind] at h
  | ok a => exact ⟨a, rfl, h⟩

/-- what is proved of one successfully applied edit -/
structure EditSpec (f : List Nat) (m m' : WMol) (e : Edit) : Prop where
  effect : e.Effect f m m'
  wf : m'.wf = true
  natoms : m'.natoms = m.natoms
  elements : m'.elements = m.elements
  balance : f.Nodup → e.isText = true → ∀ l z, f[l]? = some z → m'.E z = m.E z - e.inc l

theorem bondStep_editSpec {f : List Nat} {m m' : WMol} {e : Edit} {i j x y : Nat} {a b : Option BK}
    (hi : f[i]? = some x) (hj : f[j]? = some y) (hs : BondStep m m' x y a b)
    (heff : e.Effect f m m')
    (hinc : ∀ l, e.inc l = (if l = i then -(halfO b - halfO a) else 0) + (if l = j then -(halfO b - halfO a) else 0)) :
    EditSpec f m m' e := by
  refine ⟨heff, hs.wf, hs.natoms, hs.elements, ?_⟩
  intro hf _ l z hl
  rw [hs.E z, hinc l, pair_law hf hi hj hl hs.ne]
  omega

theorem E_modifyAtom (m : WMol) (x : Nat) (g : WAtom → WAtom) (a : WAtom) (ha : m.atoms[x]? = some a) (z : Nat) :
    (m.modifyAtom x g).E z = m.E z + (if z = x then
      2 * (((g a).radicals : Int) - (a.radicals : Int)) + 2 * ((g a).charge - a.charge) else 0) := by
  simp only [WMol.E, bondSum2_modifyAtom, WMol.radAt, WMol.chgAt, atoms_modifyAtom_getElem?]
  by_cases hz : z = x
  · subst hz; simp only [if_true, ha, Option.map_some]; omega
  · have : ¬ x = z := fun h => hz h.symm
    simp only [this, hz, if_false]; omega

theorem atomStep_editSpec {f : List Nat} {m : WMol} {e : Edit} {i x : Nat} (g : WAtom → WAtom) (a : WAtom)
    (hw : m.wf = true) (hi : f[i]? = some x) (ha : m.atoms[x]? = some a) (hg : ∀ a, (g a).Z = a.Z)
    (heff : e.Effect f m (m.modifyAtom x g))
    (hinc : ∀ l, e.inc l = if l = i then
      -(2 * (((g a).radicals : Int) - (a.radicals : Int)) + 2 * ((g a).charge - a.charge)) else 0) :
    EditSpec f m (m.modifyAtom x g) e := by
  refine ⟨heff, wf_modifyAtom hw x g, natoms_modifyAtom m x g, elements_modifyAtom m x g hg, ?_⟩
  intro hf _ l z hl
  rw [E_modifyAtom m x g a ha z, hinc l, single_law hf hi hl]
  omega

theorem atomsSameExcept_modifyAtom (m : WMol) (x : Nat) (g : WAtom → WAtom) : AtomsSameExcept m (m.modifyAtom x g) x := by
  refine ⟨by simp [WMol.modifyAtom, List.length_modify], ?_⟩
  intro z hz
  rw [atoms_modifyAtom_getElem?]
  have : ¬ x = z := fun h => hz h.symm
  simp [this]

theorem modifyAtom_at (m : WMol) (x : Nat) (g : WAtom → WAtom) (a : WAtom) (ha : m.atoms[x]? = some a) :
    (m.modifyAtom x g).atoms[x]? = some (g a) := by
  rw [atoms_modifyAtom_getElem?]; simp [ha]

theorem ladderUp_half {k k' : BK} (h : ladderUp k = .ok k') : k'.half - k.half = 2 := by
  cases k <;> simp [ladderUp, throw, throwThe, MonadExceptOf.throw, pure, Except.pure] at h <;> subst h <;> rfl

theorem ladderDown_half {k : BK} {r : Option BK} (h : ladderDown k = .ok r) : halfO r - k.half = -2 := by
  cases k <;> simp [ladderDown, throw, throwThe, MonadExceptOf.throw, pure, Except.pure] at h <;> subst h <;> rfl

theorem applyEdit_spec (f : List Nat) (m m' : WMol) (e : Edit) (hw : m.wf = true) (h : applyEdit f m e = .ok m') :
    EditSpec f m m' e := by
  cases e with
  | bondForm i j k =>
    simp only [applyEdit] at h
    obtain ⟨x, hx, h1⟩ := bind_ok h
    obtain ⟨y, hy, h2⟩ := bind_ok h1
    obtain ⟨hfx, hxn⟩ := mapped_ok hx
    obtain ⟨hfy, hyn⟩ := mapped_ok hy
    have hs := step_add hw hxn hyn h2
    exact bondStep_editSpec hfx hfy hs ⟨x, y, hfx, hfy, hs.ne, hs.before, hs.after, hs.frame, hs.core⟩
      (by intro l; simp [Edit.inc, halfO])
  | bondBreak i j old =>
    simp only [applyEdit] at h
    obtain ⟨x, hx, h1⟩ := bind_ok h
    obtain ⟨y, hy, h2⟩ := bind_ok h1
    obtain ⟨hfx, hxn⟩ := mapped_ok hx
    obtain ⟨hfy, hyn⟩ := mapped_ok hy
    cases hk : m.kindBetween x y with
    | none => simp [hk, throw, throwThe, MonadExceptOf.throw] at h2
    | some k =>
      simp only [hk] at h2
      by_cases hko : (k == old) = true
      · simp only [hko, if_true, pure, Except.pure, Except.ok.injEq] at h2
        subst h2
        have hko' : k = old := by simpa using hko
        subst hko'
        have hs := step_remove hw hk
        exact bondStep_editSpec hfx hfy hs ⟨x, y, hfx, hfy, hs.ne, hs.before, hs.after, hs.frame, hs.core⟩
          (by intro l; simp [Edit.inc, halfO])
      · simp [hko, throw, throwThe, MonadExceptOf.throw] at h2
  | bondModify i j new old =>
    simp only [applyEdit] at h
    obtain ⟨x, hx, h1⟩ := bind_ok h
    obtain ⟨y, hy, h2⟩ := bind_ok h1
    obtain ⟨hfx, hxn⟩ := mapped_ok hx
    obtain ⟨hfy, hyn⟩ := mapped_ok hy
    cases hk : m.kindBetween x y with
    | none => simp [hk, throw, throwThe, MonadExceptOf.throw] at h2
    | some k =>
      simp only [hk] at h2
      by_cases hko : (k == old) = true
      · simp only [hko, if_true] at h2
        have hko' : k = old := by simpa using hko
        subst hko'
        have hs := step_replace hw hk hxn hyn h2
        exact bondStep_editSpec hfx hfy hs ⟨x, y, hfx, hfy, hs.ne, hs.before, hs.after, hs.frame, hs.core⟩
          (by intro l; simp [Edit.inc, halfO])
      · simp [hko, throw, throwThe, MonadExceptOf.throw] at h2
  | bondIncrease i j =>
    simp only [applyEdit] at h
    obtain ⟨x, hx, h1⟩ := bind_ok h
    obtain ⟨y, hy, h2⟩ := bind_ok h1
    obtain ⟨hfx, hxn⟩ := mapped_ok hx
    obtain ⟨hfy, hyn⟩ := mapped_ok hy
    cases hk : m.kindBetween x y with
    | none => simp [hk, throw, throwThe, MonadExceptOf.throw] at h2
    | some k =>
      simp only [hk] at h2
      obtain ⟨k', hk', h3⟩ := bind_ok h2
      have hs := step_replace hw hk hxn hyn h3
      have hh := ladderUp_half hk'
      exact bondStep_editSpec hfx hfy hs ⟨x, y, k, k', hfx, hfy, hs.ne, hs.before, hk', hs.after, hs.frame, hs.core⟩
        (by intro l; simp only [Edit.inc, halfO]; split <;> split <;> omega)
  | bondDecrease i j =>
    simp only [applyEdit] at h
    obtain ⟨x, hx, h1⟩ := bind_ok h
    obtain ⟨y, hy, h2⟩ := bind_ok h1
    obtain ⟨hfx, hxn⟩ := mapped_ok hx
    obtain ⟨hfy, hyn⟩ := mapped_ok hy
    cases hk : m.kindBetween x y with
    | none => simp [hk, throw, throwThe, MonadExceptOf.throw] at h2
    | some k =>
      simp only [hk] at h2
      obtain ⟨r, hr, h3⟩ := bind_ok h2
      have hh := ladderDown_half hr
      cases r with
      | none =>
        simp only [pure, Except.pure, Except.ok.injEq] at h3
        subst h3
        have hs := step_remove hw hk
        exact bondStep_editSpec hfx hfy hs ⟨x, y, k, none, hfx, hfy, hs.ne, hs.before, hr, hs.after, hs.frame, hs.core⟩
          (by intro l; simp only [Edit.inc, halfO] at hh ⊢; split <;> split <;> omega)
      | some k' =>
        simp only at h3
        have hs := step_replace hw hk hxn hyn h3
        exact bondStep_editSpec hfx hfy hs ⟨x, y, k, some k', hfx, hfy, hs.ne, hs.before, hr, hs.after, hs.frame, hs.core⟩
          (by intro l; simp only [Edit.inc, halfO] at hh ⊢; split <;> split <;> omega)
  | radicalModify i r old =>
    simp only [applyEdit] at h
    obtain ⟨x, hx, h1⟩ := bind_ok h
    obtain ⟨hfx, hxn⟩ := mapped_ok hx
    cases ha : m.atoms[x]? with
    | none => simp [ha, throw, throwThe, MonadExceptOf.throw] at h1
    | some a =>
      simp only [ha] at h1
      by_cases hro : (a.radicals == old) = true
      · simp only [hro, if_true, pure, Except.pure, Except.ok.injEq] at h1
        subst h1
        have hro' : a.radicals = old := by simpa using hro
        exact atomStep_editSpec _ a hw hfx ha (fun _ => rfl)
          ⟨x, a, hfx, ha, hro', modifyAtom_at m x _ a ha, atomsSameExcept_modifyAtom m x _, rfl⟩
          (by intro l; simp only [Edit.inc, hro']; split <;> omega)
      · simp [hro, throw, throwThe, MonadExceptOf.throw] at h1
  | radicalIncrease i =>
    simp only [applyEdit] at h
    obtain ⟨x, hx, h1⟩ := bind_ok h
    obtain ⟨hfx, hxn⟩ := mapped_ok hx
    simp only [pure, Except.pure, Except.ok.injEq] at h1
    subst h1
    obtain ⟨a, ha⟩ : ∃ a, m.atoms[x]? = some a := ⟨m.atoms[x]'hxn, List.getElem?_eq_getElem hxn⟩
    exact atomStep_editSpec _ a hw hfx ha (fun _ => rfl)
      ⟨x, a, hfx, ha, modifyAtom_at m x _ a ha, atomsSameExcept_modifyAtom m x _, rfl⟩
      (by intro l; simp only [Edit.inc]; split <;> push_cast <;> omega)
  | radicalDecrease i =>
    simp only [applyEdit] at h
    obtain ⟨x, hx, h1⟩ := bind_ok h
    obtain ⟨hfx, hxn⟩ := mapped_ok hx
    cases ha : m.atoms[x]? with
    | none => simp [ha, throw, throwThe, MonadExceptOf.throw] at h1
    | some a =>
      simp only [ha] at h1
      by_cases hr0 : (a.radicals == 0) = true
      · simp [hr0, throw, throwThe, MonadExceptOf.throw] at h1
      · simp only [hr0, if_false, pure, Except.pure, Except.ok.injEq, Bool.false_eq_true] at h1
        subst h1
        have hpos : 0 < a.radicals := by
          have : a.radicals ≠ 0 := by simpa using hr0
          omega
        exact atomStep_editSpec _ a hw hfx ha (fun _ => rfl)
          ⟨x, a, hfx, ha, hpos, modifyAtom_at m x _ a ha, atomsSameExcept_modifyAtom m x _, rfl⟩
          (by intro l; simp only [Edit.inc]; split <;> omega)
  | chargeIncrease i =>
    simp only [applyEdit] at h
    obtain ⟨x, hx, h1⟩ := bind_ok h
    obtain ⟨hfx, hxn⟩ := mapped_ok hx
    simp only [pure, Except.pure, Except.ok.injEq] at h1
    subst h1
    obtain ⟨a, ha⟩ : ∃ a, m.atoms[x]? = some a := ⟨m.atoms[x]'hxn, List.getElem?_eq_getElem hxn⟩
    exact atomStep_editSpec _ a hw hfx ha (fun _ => rfl)
      ⟨x, a, hfx, ha, modifyAtom_at m x _ a ha, atomsSameExcept_modifyAtom m x _, rfl⟩
      (by intro l; simp only [Edit.inc]; split <;> omega)
  | chargeDecrease i =>
    simp only [applyEdit] at h
    obtain ⟨x, hx, h1⟩ := bind_ok h
    obtain ⟨hfx, hxn⟩ := mapped_ok hx
    simp only [pure, Except.pure, Except.ok.injEq] at h1
    subst h1
    obtain ⟨a, ha⟩ : ∃ a, m.atoms[x]? = some a := ⟨m.atoms[x]'hxn, List.getElem?_eq_getElem hxn⟩
    exact atomStep_editSpec _ a hw hfx ha (fun _ => rfl)
      ⟨x, a, hfx, ha, modifyAtom_at m x _ a ha, atomsSameExcept_modifyAtom m x _, rfl⟩
      (by intro l; simp only [Edit.inc]; split <;> omega)
  | atomTypeModify i r c =>
    simp only [applyEdit] at h
    obtain ⟨x, hx, h1⟩ := bind_ok h
    obtain ⟨hfx, hxn⟩ := mapped_ok hx
    simp only [pure, Except.pure, Except.ok.injEq] at h1
    subst h1
    obtain ⟨a, ha⟩ : ∃ a, m.atoms[x]? = some a := ⟨m.atoms[x]'hxn, List.getElem?_eq_getElem hxn⟩
    refine ⟨⟨x, a, hfx, ha, modifyAtom_at m x _ a ha, atomsSameExcept_modifyAtom m x _, rfl⟩,
      wf_modifyAtom hw x _, natoms_modifyAtom m x _, elements_modifyAtom m x _ (fun _ => rfl), ?_⟩
    intro _ ht; simp [Edit.isText] at ht


/-! ### frame of one edit, from its `Effect` -/

theorem effect_frame_atoms {f : List Nat} {m m' : WMol} {e : Edit} (h : e.Effect f m m') (z : Nat)
    (hz : z ∉ namedAtoms f [e]) : (m'.atoms[z]?).map WAtom.core = (m.atoms[z]?).map WAtom.core := by
  cases e with
  | bondForm i j k => obtain ⟨x, y, _, _, _, _, _, _, hc⟩ := h; exact core_getElem? hc z
  | bondBreak i j o => obtain ⟨x, y, _, _, _, _, _, _, hc⟩ := h; exact core_getElem? hc z
  | bondModify i j n o => obtain ⟨x, y, _, _, _, _, _, _, hc⟩ := h; exact core_getElem? hc z
  | bondIncrease i j => obtain ⟨x, y, _, _, _, _, _, _, _, _, _, hc⟩ := h; exact core_getElem? hc z
  | bondDecrease i j => obtain ⟨x, y, _, _, _, _, _, _, _, _, _, hc⟩ := h; exact core_getElem? hc z
  | radicalModify i r o =>
    obtain ⟨x, a, hi, _, _, _, hs, _⟩ := h
    have : z ≠ x := by intro hzx; apply hz; simp [namedAtoms, Edit.atomLabel, hi, hzx]
    rw [hs.2 z this]
  | radicalIncrease i =>
    obtain ⟨x, a, hi, _, _, hs, _⟩ := h
    have : z ≠ x := by intro hzx; apply hz; simp [namedAtoms, Edit.atomLabel, hi, hzx]
    rw [hs.2 z this]
  | radicalDecrease i =>
    obtain ⟨x, a, hi, _, _, _, hs, _⟩ := h
    have : z ≠ x := by intro hzx; apply hz; simp [namedAtoms, Edit.atomLabel, hi, hzx]
    rw [hs.2 z this]
  | chargeIncrease i =>
    obtain ⟨x, a, hi, _, _, hs, _⟩ := h
    have : z ≠ x := by intro hzx; apply hz; simp [namedAtoms, Edit.atomLabel, hi, hzx]
    rw [hs.2 z this]
  | chargeDecrease i =>
    obtain ⟨x, a, hi, _, _, hs, _⟩ := h
    have : z ≠ x := by intro hzx; apply hz; simp [namedAtoms, Edit.atomLabel, hi, hzx]
    rw [hs.2 z this]
  | atomTypeModify i r c =>
    obtain ⟨x, a, hi, _, _, hs, _⟩ := h
    have : z ≠ x := by intro hzx; apply hz; simp [namedAtoms, Edit.atomLabel, hi, hzx]
    rw [hs.2 z this]

theorem kindBetween_of_bonds {m m' : WMol} (h : m'.bonds = m.bonds) (u v : Nat) : m'.kindBetween u v = m.kindBetween u v := by
  simp only [WMol.kindBetween, WMol.bondBetween, h]

theorem effect_frame_bonds {f : List Nat} {m m' : WMol} {e : Edit} (h : e.Effect f m m') (u v : Nat)
    (hp : ∀ p ∈ namedPairs f [e], ¬ SamePair u v p.1 p.2) : m'.kindBetween u v = m.kindBetween u v := by
  cases e with
  | bondForm i j k =>
    obtain ⟨x, y, hi, hj, _, _, _, hfr, _⟩ := h
    exact hfr u v (hp (x, y) (by simp [namedPairs, Edit.bondLabels, hi, hj]))
  | bondBreak i j o =>
    obtain ⟨x, y, hi, hj, _, _, _, hfr, _⟩ := h
    exact hfr u v (hp (x, y) (by simp [namedPairs, Edit.bondLabels, hi, hj]))
  | bondModify i j n o =>
    obtain ⟨x, y, hi, hj, _, _, _, hfr, _⟩ := h
    exact hfr u v (hp (x, y) (by simp [namedPairs, Edit.bondLabels, hi, hj]))
  | bondIncrease i j =>
    obtain ⟨x, y, _, _, hi, hj, _, _, _, _, hfr, _⟩ := h
    exact hfr u v (hp (x, y) (by simp [namedPairs, Edit.bondLabels, hi, hj]))
  | bondDecrease i j =>
    obtain ⟨x, y, _, _, hi, hj, _, _, _, _, hfr, _⟩ := h
    exact hfr u v (hp (x, y) (by simp [namedPairs, Edit.bondLabels, hi, hj]))
  | radicalModify i r o => obtain ⟨x, a, _, _, _, _, _, hb⟩ := h; exact kindBetween_of_bonds hb u v
  | radicalIncrease i => obtain ⟨x, a, _, _, _, _, hb⟩ := h; exact kindBetween_of_bonds hb u v
  | radicalDecrease i => obtain ⟨x, a, _, _, _, _, _, hb⟩ := h; exact kindBetween_of_bonds hb u v
  | chargeIncrease i => obtain ⟨x, a, _, _, _, _, hb⟩ := h; exact kindBetween_of_bonds hb u v
  | chargeDecrease i => obtain ⟨x, a, _, _, _, _, hb⟩ := h; exact kindBetween_of_bonds hb u v
  | atomTypeModify i r c => obtain ⟨x, a, _, _, _, _, hb⟩ := h; exact kindBetween_of_bonds hb u v

/-! ### edit lists -/

theorem namedAtoms_cons (f : List Nat) (e : Edit) (es : List Edit) :
    namedAtoms f (e :: es) = namedAtoms f [e] ++ namedAtoms f es := by
  simp only [namedAtoms, List.filterMap_cons, List.filterMap_nil]
  cases e.atomLabel.bind (f[·]?) <;> simp

theorem namedPairs_cons (f : List Nat) (e : Edit) (es : List Edit) :
    namedPairs f (e :: es) = namedPairs f [e] ++ namedPairs f es := by
  simp only [namedPairs, List.filterMap_cons, List.filterMap_nil]
  split <;> simp

theorem incSum_cons (e : Edit) (es : List Edit) (l : Nat) : incSum (e :: es) l = e.inc l + incSum es l := by
  simp [incSum]

/-- everything proved of a successfully applied edit list -/
structure EditsSpec (f : List Nat) (m m' : WMol) (es : List Edit) : Prop where
  wf : m'.wf = true
  natoms : m'.natoms = m.natoms
  elements : m'.elements = m.elements
  frameAtoms : ∀ z, z ∉ namedAtoms f es → (m'.atoms[z]?).map WAtom.core = (m.atoms[z]?).map WAtom.core
  frameBonds : ∀ u v, (∀ p ∈ namedPairs f es, ¬ SamePair u v p.1 p.2) → m'.kindBetween u v = m.kindBetween u v
  balance : f.Nodup → (∀ e ∈ es, e.isText = true) → ∀ l z, f[l]? = some z → m'.E z = m.E z - incSum es l

theorem applyEdits_spec (f : List Nat) : ∀ (es : List Edit) (m m' : WMol), m.wf = true →
    applyEdits f m es = .ok m' → EditsSpec f m m' es := by
  intro es
  induction es with
  | nil =>
    intro m m' hw h
    simp only [applyEdits, pure, Except.pure, Except.ok.injEq] at h
    subst h
    exact ⟨hw, rfl, rfl, fun _ _ => rfl, fun _ _ _ => rfl, fun _ _ l z _ => by simp [incSum]⟩
  | cons e es ih =>
    intro m m' hw h
    simp only [applyEdits] at h
    obtain ⟨m1, h1, h2⟩ := bind_ok h
    have s1 := applyEdit_spec f m m1 e hw h1
    have s2 := ih m1 m' s1.wf h2
    refine ⟨s2.wf, s2.natoms.trans s1.natoms, s2.elements.trans s1.elements, ?_, ?_, ?_⟩
    · intro z hz
      rw [namedAtoms_cons, List.mem_append, not_or] at hz
      rw [s2.frameAtoms z hz.2, effect_frame_atoms s1.effect z hz.1]
    · intro u v hp
      rw [namedPairs_cons] at hp
      rw [s2.frameBonds u v (fun p hpm => hp p (List.mem_append.2 (Or.inr hpm))),
          effect_frame_bonds s1.effect u v (fun p hpm => hp p (List.mem_append.2 (Or.inl hpm)))]
    · intro hf ht l z hl
      rw [s2.balance hf (fun e' he' => ht e' (List.mem_cons_of_mem _ he')) l z hl,
          s1.balance hf (ht e (List.mem_cons_self)) l z hl, incSum_cons]
      omega


namespace ReadRule

theorem bondType_half {w : String} {k : BK} {b : Int} (h : bondType w = .ok (k, b)) : b = k.half := by
  unfold bondType at h
  split at h <;> simp [pure, Except.pure, throw, throwThe, MonadExceptOf.throw] at h <;>
    (obtain ⟨rfl, rfl⟩ := h; rfl)

theorem optBondType_half {w : Option String} {k : BK} {b : Int} (h : optBondType w = .ok (k, b)) : b = k.half := by
  cases w with
  | none => simp [optBondType, pure, Except.pure] at h; obtain ⟨rfl, rfl⟩ := h; rfl
  | some w => exact bondType_half h

theorem existingBalance_half {k : BK} {b : Int} (h : existingBalance k = .ok b) : b = k.half := by
  cases k <;> simp [existingBalance, pure, Except.pure, throw, throwThe, MonadExceptOf.throw] at h <;> subst h <;> rfl

theorem lookup_lt {q : Query} {l : String} {i : Nat} (h : lookup q l = .ok i) : i < q.atoms.length := by
  unfold lookup at h
  cases hi : (q.atoms.map (·.label)).idxOf? l with
  | none => simp [hi, throw, throwThe, MonadExceptOf.throw] at h
  | some j =>
    simp only [hi, pure, Except.pure, Except.ok.injEq] at h
    subst h
    obtain ⟨hlt, _⟩ := List.idxOf?_eq_some_iff.1 hi
    simpa using hlt

theorem getD_bump (s : St) (i : Nat) (d : Int) (hi : i < s.balance.length) (l : Nat) :
    (bump s i d).balance.getD l 0 = s.balance.getD l 0 + (if l = i then d else 0) := by
  simp only [bump, List.getD_eq_getElem?_getD, List.getElem?_modify]
  by_cases hl : l = i
  · subst hl
    rw [List.getElem?_eq_getElem hi]; simp
  · have : ¬ i = l := fun h => hl h.symm
    cases s.balance[l]? <;> simp [this, hl]

theorem length_bump (s : St) (i : Nat) (d : Int) : (bump s i d).balance.length = s.balance.length := by
  simp [bump, List.length_modify]


/-- what one reader step does to the state: one text edit appended, its labels declared atoms of the reactant, the
balance moved by exactly the increments the edit declares -/
structure StepSpec (q : Query) (s s' : St) : Prop where
  ex : ∃ ed : Edit, s'.edits = s.edits ++ [ed] ∧ ed.isText = true ∧ (∀ l ∈ ed.labels, l < q.atoms.length) ∧
    ∀ l, s'.balance.getD l 0 = s.balance.getD l 0 + ed.inc l
  len : s'.balance.length = s.balance.length

theorem push_bump2 (q : Query) (s : St) (i j : Nat) (d : Int) (ed : Edit) (hlen : s.balance.length = q.atoms.length)
    (hi : i < q.atoms.length) (hj : j < q.atoms.length) (ht : ed.isText = true) (hl : ed.labels = [i, j])
    (hinc : ∀ l, ed.inc l = (if l = i then d else 0) + (if l = j then d else 0)) :
    StepSpec q s (push (bump (bump s i d) j d) ed) := by
  refine ⟨⟨ed, rfl, ht, ?_, ?_⟩, ?_⟩
  · intro l hl'; rw [hl] at hl'; simp at hl'; rcases hl' with rfl | rfl <;> assumption
  · intro l
    show (bump (bump s i d) j d).balance.getD l 0 = _
    rw [getD_bump _ j d (by rw [length_bump, hlen]; exact hj), getD_bump _ i d (by rw [hlen]; exact hi), hinc]
    omega
  · show (bump (bump s i d) j d).balance.length = _
    rw [length_bump, length_bump]

theorem push_bump1 (q : Query) (s : St) (i : Nat) (d : Int) (ed : Edit) (hlen : s.balance.length = q.atoms.length)
    (hi : i < q.atoms.length) (ht : ed.isText = true) (hl : ed.labels = [i])
    (hinc : ∀ l, ed.inc l = (if l = i then d else 0)) :
    StepSpec q s (push (bump s i d) ed) := by
  refine ⟨⟨ed, rfl, ht, ?_, ?_⟩, ?_⟩
  · intro l hl'; rw [hl] at hl'; simp at hl'; subst hl'; exact hi
  · intro l
    show (bump s i d).balance.getD l 0 = _
    rw [getD_bump _ i d (by rw [hlen]; exact hi), hinc]
  · show (bump s i d).balance.length = _
    rw [length_bump]

theorem step_spec (q : Query) (s s' : St) (e : RawEdit) (hlen : s.balance.length = q.atoms.length)
    (h : step q s e = .ok s') : StepSpec q s s' := by
  cases e with
  | form bt l1 l2 =>
    simp only [step] at h
    obtain ⟨⟨k, bal⟩, hb, h1⟩ := bind_ok h
    obtain ⟨i, hi, h2⟩ := bind_ok h1
    obtain ⟨j, hj, h3⟩ := bind_ok h2
    simp only [pure, Except.pure, Except.ok.injEq] at h3
    subst h3
    have := optBondType_half hb
    subst this
    exact push_bump2 q s i j _ _ hlen (lookup_lt hi) (lookup_lt hj) rfl rfl (by intro l; simp [Edit.inc])
  | brk bt l1 l2 =>
    simp only [step] at h
    obtain ⟨⟨k, bal⟩, hb, h1⟩ := bind_ok h
    obtain ⟨i, hi, h2⟩ := bind_ok h1
    obtain ⟨j, hj, h3⟩ := bind_ok h2
    have := optBondType_half hb
    subst this
    split at h3
    · simp [throw, throwThe, MonadExceptOf.throw] at h3
    · simp [throw, throwThe, MonadExceptOf.throw] at h3
    · split at h3
      · simp [throw, throwThe, MonadExceptOf.throw] at h3
      · simp only [pure, Except.pure, Except.ok.injEq] at h3
        subst h3
        exact push_bump2 q s i j _ _ hlen (lookup_lt hi) (lookup_lt hj) rfl rfl (by intro l; simp [Edit.inc])
  | modify l1 l2 bt =>
    simp only [step] at h
    obtain ⟨i, hi, h2⟩ := bind_ok h
    obtain ⟨j, hj, h3⟩ := bind_ok h2
    split at h3
    · simp [throw, throwThe, MonadExceptOf.throw] at h3
    · simp [throw, throwThe, MonadExceptOf.throw] at h3
    · obtain ⟨bal1, hb1, h4⟩ := bind_ok h3
      obtain ⟨⟨k, bal⟩, hb, h5⟩ := bind_ok h4
      simp only [pure, Except.pure, Except.ok.injEq] at h5
      subst h5
      have := bondType_half hb
      subst this
      have := existingBalance_half hb1
      subst this
      exact push_bump2 q s i j _ _ hlen (lookup_lt hi) (lookup_lt hj) rfl rfl (by intro l; simp [Edit.inc])
  | increase l1 l2 =>
    simp only [step] at h
    obtain ⟨i, hi, h2⟩ := bind_ok h
    obtain ⟨j, hj, h3⟩ := bind_ok h2
    simp only [pure, Except.pure, Except.ok.injEq] at h3
    subst h3
    exact push_bump2 q s i j _ _ hlen (lookup_lt hi) (lookup_lt hj) rfl rfl (by intro l; simp [Edit.inc])
  | decrease l1 l2 =>
    simp only [step] at h
    obtain ⟨i, hi, h2⟩ := bind_ok h
    obtain ⟨j, hj, h3⟩ := bind_ok h2
    simp only [pure, Except.pure, Except.ok.injEq] at h3
    subst h3
    exact push_bump2 q s i j _ _ hlen (lookup_lt hi) (lookup_lt hj) rfl rfl (by intro l; simp [Edit.inc])
  | atomType l ty =>
    simp only [step] at h
    obtain ⟨i, hi, h2⟩ := bind_ok h
    simp [throw, throwThe, MonadExceptOf.throw] at h2
  | radSet l n =>
    simp only [step] at h
    obtain ⟨i, hi, h2⟩ := bind_ok h
    split at h2
    · simp [throw, throwThe, MonadExceptOf.throw] at h2
    · split at h2
      · simp [throw, throwThe, MonadExceptOf.throw] at h2
      · simp only [pure, Except.pure, Except.ok.injEq] at h2
        subst h2
        exact push_bump1 q s i _ _ hlen (lookup_lt hi) rfl rfl (by intro l; simp [Edit.inc])
  | radInc l =>
    simp only [step] at h
    obtain ⟨i, hi, h2⟩ := bind_ok h
    simp only [pure, Except.pure, Except.ok.injEq] at h2
    subst h2
    exact push_bump1 q s i _ _ hlen (lookup_lt hi) rfl rfl (by intro l; simp [Edit.inc])
  | radDec l =>
    simp only [step] at h
    obtain ⟨i, hi, h2⟩ := bind_ok h
    simp only [pure, Except.pure, Except.ok.injEq] at h2
    subst h2
    exact push_bump1 q s i _ _ hlen (lookup_lt hi) rfl rfl (by intro l; simp [Edit.inc])
  | chgInc l =>
    simp only [step] at h
    obtain ⟨i, hi, h2⟩ := bind_ok h
    simp only [pure, Except.pure, Except.ok.injEq] at h2
    subst h2
    exact push_bump1 q s i _ _ hlen (lookup_lt hi) rfl rfl (by intro l; simp [Edit.inc])
  | chgDec l =>
    simp only [step] at h
    obtain ⟨i, hi, h2⟩ := bind_ok h
    simp only [pure, Except.pure, Except.ok.injEq] at h2
    subst h2
    exact push_bump1 q s i _ _ hlen (lookup_lt hi) rfl rfl (by intro l; simp [Edit.inc])

end ReadRule

namespace ReadRule

/-- what reading a whole transformation chain does -/
structure StepsSpec (q : Query) (s s' : St) : Prop where
  ex : ∃ new : List Edit, s'.edits = s.edits ++ new ∧ (∀ e ∈ new, e.isText = true) ∧
    (∀ e ∈ new, ∀ l ∈ e.labels, l < q.atoms.length) ∧
    ∀ l, s'.balance.getD l 0 = s.balance.getD l 0 + incSum new l
  len : s'.balance.length = s.balance.length

theorem steps_spec (q : Query) : ∀ (es : List RawEdit) (s s' : St), s.balance.length = q.atoms.length →
    steps q s es = .ok s' → StepsSpec q s s' := by
  intro es
  induction es with
  | nil =>
    intro s s' _ h
    simp only [steps, pure, Except.pure, Except.ok.injEq] at h
    subst h
    exact ⟨⟨[], by simp, by simp, by simp, by simp [incSum]⟩, rfl⟩
  | cons e es ih =>
    intro s s' hlen h
    simp only [steps] at h
    obtain ⟨s1, h1, h2⟩ := bind_ok h
    have a := step_spec q s s1 e hlen h1
    have b := ih s1 s' (a.len.trans hlen) h2
    obtain ⟨ed, he, ht, hr, hb⟩ := a.ex
    obtain ⟨new, hn, hts, hrs, hbs⟩ := b.ex
    refine ⟨⟨ed :: new, ?_, ?_, ?_, ?_⟩, b.len.trans a.len⟩
    · rw [hn, he]; simp
    · intro e' he'; rcases List.mem_cons.1 he' with rfl | h'; exact ht; exact hts e' h'
    · intro e' he'; rcases List.mem_cons.1 he' with rfl | h'; exact hr; exact hrs e' h'
    · intro l; rw [hbs l, hb l, incSum_cons]; omega

end ReadRule

theorem getD_replicate_zero (n l : Nat) : (List.replicate n (0 : Int)).getD l 0 = 0 := by
  simp only [List.getD_eq_getElem?_getD, List.getElem?_replicate]
  split <;> rfl

theorem all_zero_iff (b : List Int) : b.all (· == 0) = true ↔ ∀ l, b.getD l 0 = 0 := by
  constructor
  · intro h l
    rw [List.getD_eq_getElem?_getD]
    cases hl : b[l]? with
    | none => rfl
    | some v =>
      have hm : v ∈ b := List.mem_of_getElem? hl
      have := List.all_eq_true.1 h v hm
      simpa using this
  · intro h
    rw [List.all_eq_true]
    intro v hv
    obtain ⟨l, hl, rfl⟩ := List.mem_iff_getElem.1 hv
    have := h l
    rw [List.getD_eq_getElem?_getD, List.getElem?_eq_getElem hl] at this
    simpa using this

/-- the pieces of a successful `readRaw` -/
theorem readRaw_ok {r : RawRule} {rule : Rule} (h : readRaw r = .ok rule) :
    ∃ q s, readFragment (.node "Fragment" r.reactant) = .ok q ∧ r.hasConstraints = false ∧
      ReadRule.steps q ⟨List.replicate q.atoms.length 0, []⟩ r.edits = .ok s ∧
      s.balance.all (· == 0) = true ∧ rule = ⟨r.name, q, s.edits⟩ := by
  unfold readRaw at h
  cases hq : readFragment (.node "Fragment" r.reactant) with
  | error e => simp [hq, bind, Except.bind, throw, throwThe, MonadExceptOf.throw] at h
  | ok q =>
    simp only [hq, bind, Except.bind, pure, Except.pure] at h
    by_cases hc : r.hasConstraints = true
    · simp [hc, throw, throwThe, MonadExceptOf.throw] at h
    · simp only [hc, if_false, Bool.false_eq_true] at h
      cases hs : ReadRule.steps q ⟨List.replicate q.atoms.length 0, []⟩ r.edits with
      | error e => simp [hs] at h
      | ok s =>
        simp only [hs] at h
        by_cases hb : s.balance.all (· == 0) = true
        · simp only [hb, if_true, Except.ok.injEq] at h
          exact ⟨q, s, rfl, by simpa using hc, hs, hb, h.symm⟩
        · simp [hb, throw, throwThe, MonadExceptOf.throw] at h

theorem readRaw_spec {r : RawRule} {rule : Rule} (h : readRaw r = .ok rule) :
    readFragment (.node "Fragment" r.reactant) = .ok rule.query ∧
    (∀ e ∈ rule.edits, e.isText = true) ∧
    (∀ e ∈ rule.edits, ∀ l ∈ e.labels, l < rule.query.atoms.length) ∧
    ∀ l, incSum rule.edits l = 0 := by
  obtain ⟨q, s, hq, _, hs, hb, rfl⟩ := readRaw_ok h
  have sp := ReadRule.steps_spec q r.edits _ s (by simp) hs
  obtain ⟨new, hn, ht, hr, hbal⟩ := sp.ex
  simp only [List.nil_append] at hn
  subst hn
  refine ⟨hq, ht, hr, ?_⟩
  intro l
  have h0 := (all_zero_iff s.balance).1 hb l
  have := hbal l
  rw [h0, getD_replicate_zero] at this
  show incSum s.edits l = 0
  omega

/-- reading rejects exactly when some label's declared increments do not cancel -/
theorem readRaw_unbalanced {r : RawRule} {q : Query} {s : ReadRule.St}
    (hq : readFragment (.node "Fragment" r.reactant) = .ok q) (hc : r.hasConstraints = false)
    (hs : ReadRule.steps q ⟨List.replicate q.atoms.length 0, []⟩ r.edits = .ok s) :
    (readRaw r = .ok ⟨r.name, q, s.edits⟩ ↔ ∀ l, incSum s.edits l = 0) ∧
    ((∃ l, incSum s.edits l ≠ 0) → readRaw r = .error .reader) := by
  have sp := ReadRule.steps_spec q r.edits _ s (by simp) hs
  obtain ⟨new, hn, _, _, hbal⟩ := sp.ex
  simp only [List.nil_append] at hn
  have key : s.balance.all (· == 0) = true ↔ ∀ l, incSum s.edits l = 0 := by
    rw [all_zero_iff, hn]
    constructor
    · intro h l; have := hbal l; rw [h l, getD_replicate_zero] at this; omega
    · intro h l; rw [hbal l, getD_replicate_zero, h l]; rfl
  have hr : readRaw r = if s.balance.all (· == 0) = true then .ok ⟨r.name, q, s.edits⟩ else .error .reader := by
    unfold readRaw
    simp only [hq, hc, hs, bind, Except.bind, pure, Except.pure, Bool.false_eq_true, if_false]
    split <;> rfl
  refine ⟨?_, ?_⟩
  · rw [hr, ← key]
    by_cases hb : s.balance.all (· == 0) = true <;> simp [hb]
  · rintro ⟨l, hl⟩
    have : ¬ (s.balance.all (· == 0) = true) := fun hb => hl (key.1 hb l)
    rw [hr]; simp [this]


/-! ### splitting into molecules -/

theorem length_relax (bonds : List WBond) : ∀ lab : List Nat, (relax bonds lab).length = lab.length := by
  unfold relax
  induction bonds with
  | nil => intro lab; rfl
  | cons e t ih =>
    intro lab
    rw [List.foldl_cons, ih]
    simp [List.length_set]

theorem length_relaxFix (bonds : List WBond) : ∀ (k : Nat) (lab : List Nat), (relaxFix bonds k lab).length = lab.length := by
  intro k
  induction k with
  | zero => intro lab; rfl
  | succ k ih =>
    intro lab
    simp only [relaxFix]
    split
    · rfl
    · rw [ih, length_relax]

theorem length_compLabels (m : WMol) : (compLabels m).length = m.natoms := by
  simp [compLabels, length_relaxFix]

theorem mem_dedup : ∀ (l : List Nat) (a : Nat), a ∈ dedup l ↔ a ∈ l := by
  intro l
  induction l with
  | nil => intro a; simp [dedup]
  | cons x xs ih =>
    intro a
    simp only [dedup, List.mem_cons, List.mem_filter, ih, bne_iff_ne, ne_eq]
    constructor
    · rintro (h | ⟨h, _⟩); exact Or.inl h; exact Or.inr h
    · intro h
      by_cases hax : a = x
      · exact Or.inl hax
      · rcases h with h | h
        · exact absurd h hax
        · exact Or.inr ⟨h, hax⟩

theorem nodup_dedup : ∀ l : List Nat, (dedup l).Nodup := by
  intro l
  induction l with
  | nil => simp [dedup]
  | cons x xs ih =>
    simp only [dedup, List.nodup_cons, List.mem_filter, bne_iff_ne, ne_eq, not_and]
    exact ⟨fun _ => by simp, ih.filter _⟩

theorem sum_indicator (c : Nat) (r0 : Nat) : ∀ (D : List Nat), D.Nodup →
    (D.map (fun r => if r0 = r then c else 0)).sum = if r0 ∈ D then c else 0 := by
  intro D
  induction D with
  | nil => intro _; simp
  | cons d t ih =>
    intro hnd
    rw [List.nodup_cons] at hnd
    rw [List.map_cons, List.sum_cons, ih hnd.2]
    by_cases h : r0 = d
    · subst h; simp [hnd.1]
    · have : ¬ r0 ∈ d :: t ↔ ¬ r0 ∈ t := by simp [h]
      by_cases ht : r0 ∈ t <;> simp [h, ht]

theorem count_filter_range (p : Nat → Bool) (a n : Nat) :
    ((List.range n).filter p).count a = if p a = true then (if a < n then 1 else 0) else 0 := by
  by_cases h : p a = true
  · rw [List.count_filter h, List.count_range]; simp [h]
  · rw [if_neg h, List.count_eq_zero]
    intro hm; exact h (List.mem_filter.1 hm).2

/-- the groups of a labelling partition the indices -/
theorem groupsBy_perm (lab : List Nat) : (groupsBy lab).flatten.Perm (List.range lab.length) := by
  rw [List.perm_iff_count]
  intro a
  unfold groupsBy
  rw [← List.flatMap_def, List.count_flatMap, List.count_range]
  have hfun : (List.count a ∘ fun r => (List.range lab.length).filter fun i => lab.getD i i == r) =
      fun r => if lab.getD a a = r then (if a < lab.length then 1 else 0) else 0 := by
    funext r
    simp only [Function.comp, count_filter_range, beq_iff_eq]
  rw [hfun, sum_indicator _ _ _ (nodup_dedup lab)]
  by_cases ha : a < lab.length
  · have : lab.getD a a ∈ dedup lab := by
      rw [mem_dedup, List.getD_eq_getElem?_getD, List.getElem?_eq_getElem ha]
      exact List.getElem_mem ha
    rw [if_pos this]
  · rw [if_neg ha]; split <;> rfl

theorem components_perm (m : WMol) : (components m).flatten.Perm (List.range m.natoms) := by
  have := groupsBy_perm (compLabels m)
  rwa [length_compLabels] at this


/-! ### `mapM` in `Except` -/

theorem mapM_getElem {α β ε : Type} (g : α → Except ε β) : ∀ (l : List α) (r : List β), l.mapM g = .ok r →
    ∀ (k : Nat) (a : α), l[k]? = some a → ∃ b, r[k]? = some b ∧ g a = .ok b := by
  intro l
  induction l with
  | nil => intro r _ k a hk; simp at hk
  | cons x l ih =>
    intro r h k a hk
    rw [List.mapM_cons] at h
    obtain ⟨b, hb, h1⟩ := bind_ok h
    obtain ⟨bs, hbs, h2⟩ := bind_ok h1
    simp only [pure, Except.pure, Except.ok.injEq] at h2
    subst h2
    cases k with
    | zero =>
      simp only [List.getElem?_cons_zero, Option.some.injEq] at hk
      subst hk
      exact ⟨b, by simp, hb⟩
    | succ k =>
      simp only [List.getElem?_cons_succ] at hk ⊢
      exact ih bs hbs k a hk

/-! ### connectedness of the product molecules -/

theorem Adj.symm {p : WMol} {a b : Nat} (h : Adj p a b) : Adj p b a := by
  obtain ⟨e, he, hj⟩ := h
  exact ⟨e, he, by rw [joins_comm]; exact hj⟩

theorem Conn.trans {p : WMol} {a b c : Nat} (h1 : Conn p a b) (h2 : Conn p b c) : Conn p a c := by
  induction h2 with
  | refl => exact h1
  | step _ hadj ih => exact Conn.step ih hadj

theorem Conn.single {p : WMol} {a b : Nat} (h : Adj p a b) : Conn p a b := Conn.step (Conn.refl a) h

theorem Conn.symm {p : WMol} {a b : Nat} (h : Conn p a b) : Conn p b a := by
  induction h with
  | refl => exact Conn.refl _
  | step _ hadj ih => exact (Conn.single hadj.symm).trans ih

theorem getD_set (l : List Nat) (i v j : Nat) : (l.set i v).getD j j = if i = j ∧ i < l.length then v else l.getD j j := by
  simp only [List.getD_eq_getElem?_getD, List.getElem?_set]
  by_cases hij : i = j
  · subst hij
    by_cases hi : i < l.length
    · simp [hi]
    · simp [hi]
  · simp [hij]

/-- one bond of a relaxation pass -/
def relaxStep (l : List Nat) (e : WBond) : List Nat :=
  let mn := min (l.getD e.a e.a) (l.getD e.b e.b)
  (l.set e.a mn).set e.b mn

theorem relax_eq_foldl (bonds : List WBond) (lab : List Nat) : relax bonds lab = bonds.foldl relaxStep lab := rfl

/-- every label is an atom of the same connected piece -/
def LabelsConn (p : WMol) (lab : List Nat) : Prop := ∀ i, Conn p i (lab.getD i i)

theorem relaxStep_conn {p : WMol} {lab : List Nat} (h : LabelsConn p lab) {e : WBond} (he : e ∈ p.bonds) :
    LabelsConn p (relaxStep lab e) := by
  intro i
  have hab : Adj p e.a e.b := ⟨e, he, by simp [WBond.joins]⟩
  have hmn : Conn p e.a (min (lab.getD e.a e.a) (lab.getD e.b e.b)) ∧ Conn p e.b (min (lab.getD e.a e.a) (lab.getD e.b e.b)) := by
    rcases Nat.le_total (lab.getD e.a e.a) (lab.getD e.b e.b) with hle | hle
    · rw [Nat.min_eq_left hle]
      exact ⟨h e.a, (Conn.single hab.symm).trans (h e.a)⟩
    · rw [Nat.min_eq_right hle]
      exact ⟨(Conn.single hab).trans (h e.b), h e.b⟩
  simp only [relaxStep, getD_set, List.length_set]
  split
  · rename_i hc; rw [← hc.1]; exact hmn.2
  · split
    · rename_i hc; rw [← hc.1]; exact hmn.1
    · exact h i

theorem foldl_relaxStep_conn {p : WMol} : ∀ (bs : List WBond) (lab : List Nat), (∀ e ∈ bs, e ∈ p.bonds) →
    LabelsConn p lab → LabelsConn p (bs.foldl relaxStep lab) := by
  intro bs
  induction bs with
  | nil => intro lab _ h; exact h
  | cons e t ih =>
    intro lab hsub h
    rw [List.foldl_cons]
    exact ih _ (fun x hx => hsub x (List.mem_cons_of_mem _ hx)) (relaxStep_conn h (hsub e (List.mem_cons_self)))

theorem relaxFix_conn {p : WMol} : ∀ (k : Nat) (lab : List Nat), LabelsConn p lab → LabelsConn p (relaxFix p.bonds k lab) := by
  intro k
  induction k with
  | zero => intro lab h; exact h
  | succ k ih =>
    intro lab h
    simp only [relaxFix]
    split
    · exact h
    · exact ih _ (by rw [relax_eq_foldl]; exact foldl_relaxStep_conn _ _ (fun _ he => he) h)

theorem compLabels_conn (p : WMol) : LabelsConn p (compLabels p) := by
  apply relaxFix_conn
  intro i
  rw [List.getD_eq_getElem?_getD]
  by_cases hi : i < p.natoms
  · rw [List.getElem?_range hi]; exact Conn.refl i
  · rw [List.getElem?_eq_none (by simpa using hi)]; exact Conn.refl i

/-- the atoms of one product molecule are connected to each other along bonds of the product -/
theorem components_connected (p : WMol) : ∀ c ∈ components p, ∀ a ∈ c, ∀ b ∈ c, Conn p a b := by
  intro c hc a ha b hb
  simp only [components, groupsBy, List.mem_map] at hc
  obtain ⟨r, _, rfl⟩ := hc
  have ha' := (List.mem_filter.1 ha).2
  have hb' := (List.mem_filter.1 hb).2
  simp only [beq_iff_eq] at ha' hb'
  have h1 := compLabels_conn p a
  have h2 := compLabels_conn p b
  rw [ha'] at h1
  rw [hb'] at h2
  exact h1.trans h2.symm

/-- pointwise order of labellings -/
def LabLe (l l' : List Nat) : Prop := ∀ i, l.getD i i ≤ l'.getD i i

theorem relaxStep_le (l : List Nat) (e : WBond) : LabLe (relaxStep l e) l := by
  intro i
  simp only [relaxStep, getD_set, List.length_set]
  split
  · rename_i hc; rw [← hc.1]; exact Nat.min_le_right _ _
  · split
    · rename_i hc; rw [← hc.1]; exact Nat.min_le_left _ _
    · exact Nat.le_refl _

theorem foldl_relaxStep_le : ∀ (bs : List WBond) (l : List Nat), LabLe (bs.foldl relaxStep l) l := by
  intro bs
  induction bs with
  | nil => intro l i; exact Nat.le_refl _
  | cons e t ih =>
    intro l i
    rw [List.foldl_cons]
    exact Nat.le_trans (ih _ i) (relaxStep_le l e i)

/-- at a fixed point of a relaxation pass the two ends of every bond (inside the labelling) carry the same label -/
theorem fixpoint_closed : ∀ (bs : List WBond) (l : List Nat), bs.foldl relaxStep l = l →
    ∀ e ∈ bs, e.a < l.length → e.b < l.length → l.getD e.a e.a = l.getD e.b e.b := by
  intro bs
  induction bs with
  | nil => intro l _ e he; simp at he
  | cons e0 t ih =>
    intro l hfix e he ha hb
    rw [List.foldl_cons] at hfix
    -- the first step is already the identity (labels only go down)
    have hstep : ∀ i, (relaxStep l e0).getD i i = l.getD i i := by
      intro i
      apply Nat.le_antisymm (relaxStep_le l e0 i)
      have := foldl_relaxStep_le t (relaxStep l e0) i
      rw [hfix] at this
      exact this
    have hlen : (relaxStep l e0).length = l.length := by simp [relaxStep, List.length_set]
    have heq : relaxStep l e0 = l := by
      apply List.ext_getElem?
      intro i
      by_cases hi : i < l.length
      · have h1 := hstep i
        rw [List.getD_eq_getElem?_getD, List.getD_eq_getElem?_getD, List.getElem?_eq_getElem hi,
            List.getElem?_eq_getElem (by rw [hlen]; exact hi)] at h1
        rw [List.getElem?_eq_getElem hi, List.getElem?_eq_getElem (by rw [hlen]; exact hi)]
        simpa using h1
      · rw [List.getElem?_eq_none (by omega), List.getElem?_eq_none (by omega)]
    rcases List.mem_cons.1 he with rfl | het
    · -- the bond just processed: both ends got the minimum, and nothing changed
      have h1 := hstep e.a
      have h2 := hstep e.b
      simp only [relaxStep, getD_set, List.length_set] at h1 h2
      by_cases hab : e.a = e.b
      · rw [hab]
      · have hba : ¬ e.b = e.a := fun h => hab h.symm
        simp only [hab, hba, false_and, if_false, ha, hb, and_self, if_true] at h1 h2
        omega
    · rw [heq] at hfix
      exact ih l hfix e het ha hb


/-- pointwise smaller, same length, different somewhere: the sum is strictly smaller -/
theorem sum_lt_of_le_ne : ∀ (l l' : List Nat), l'.length = l.length → (∀ i (h : i < l.length) (h' : i < l'.length), l'[i] ≤ l[i]) →
    l' ≠ l → l'.sum < l.sum := by
  intro l
  induction l with
  | nil => intro l' hlen _ hne; cases l' with
    | nil => exact absurd rfl hne
    | cons _ _ => simp at hlen
  | cons a t ih =>
    intro l' hlen hle hne
    cases l' with
    | nil => simp at hlen
    | cons b t' =>
      have hlen' : t'.length = t.length := by simpa using hlen
      have hab : b ≤ a := hle 0 (by simp) (by simp)
      have hle' : ∀ i (h : i < t.length) (h' : i < t'.length), t'[i] ≤ t[i] := by
        intro i h h'
        have := hle (i + 1) (by simp; omega) (by simp; omega)
        simpa using this
      have hsum_le : t'.sum ≤ t.sum := by
        by_cases hte : t' = t
        · rw [hte]; exact Nat.le_refl _
        · exact Nat.le_of_lt (ih t' hlen' hle' hte)
      simp only [List.sum_cons]
      by_cases hba : b = a
      · subst hba
        have hte : t' ≠ t := fun h => hne (by rw [h])
        have := ih t' hlen' hle' hte
        omega
      · omega

theorem labLe_getElem {l l' : List Nat} (h : LabLe l' l) (_hlen : l'.length = l.length) :
    ∀ i (h1 : i < l.length) (h2 : i < l'.length), l'[i] ≤ l[i] := by
  intro i h1 h2
  have := h i
  rw [List.getD_eq_getElem?_getD, List.getD_eq_getElem?_getD, List.getElem?_eq_getElem h1, List.getElem?_eq_getElem h2] at this
  simpa using this

theorem relax_le (bonds : List WBond) (l : List Nat) : LabLe (relax bonds l) l := by
  rw [relax_eq_foldl]; exact foldl_relaxStep_le bonds l

/-- with more fuel than the sum of the labels, `relaxFix` ends at a fixed point of `relax` -/
theorem relaxFix_fixed (bonds : List WBond) : ∀ (k : Nat) (lab : List Nat), lab.sum < k →
    relax bonds (relaxFix bonds k lab) = relaxFix bonds k lab := by
  intro k
  induction k with
  | zero => intro lab h; omega
  | succ k ih =>
    intro lab h
    simp only [relaxFix]
    by_cases heq : (relax bonds lab == lab) = true
    · simp only [heq, if_true]; simpa using heq
    · simp only [heq, if_false, Bool.false_eq_true]
      apply ih
      have hne : relax bonds lab ≠ lab := by simpa using heq
      have := sum_lt_of_le_ne lab (relax bonds lab) (length_relax bonds lab)
        (labLe_getElem (relax_le bonds lab) (length_relax bonds lab)) hne
      omega

theorem sum_range_le (n : Nat) : (List.range n).sum ≤ n * n := by
  induction n with
  | zero => simp
  | succ n ih =>
    rw [List.range_succ, List.sum_append]
    simp only [List.sum_cons, List.sum_nil, Nat.add_zero]
    have : (n + 1) * (n + 1) = n * n + 2 * n + 1 := by
      rw [Nat.add_mul, Nat.mul_add, Nat.mul_one, Nat.one_mul]; omega
    omega

/-- the component labelling is always a fixed point of the relaxation pass -/
theorem compLabels_fixed (m : WMol) : relax m.bonds (compLabels m) = compLabels m := by
  apply relaxFix_fixed
  have := sum_range_le m.natoms
  omega

theorem componentsClosed_true (m : WMol) : componentsClosed m = true := by
  simp [componentsClosed, compLabels_fixed]


/-- with the labelling at a fixed point, the two ends of every bond are in the same product molecule -/
theorem components_closed_of_fixpoint (p : WMol) (hw : p.wf = true) (hfix : componentsClosed p = true) :
    ∀ e ∈ p.bonds, ∃ c ∈ components p, e.a ∈ c ∧ e.b ∈ c := by
  intro e he
  have hfix' : p.bonds.foldl relaxStep (compLabels p) = compLabels p := by
    simpa [componentsClosed, relax_eq_foldl] using hfix
  simp only [WMol.wf, Bool.and_eq_true, List.all_eq_true, decide_eq_true_eq, bne_iff_ne, ne_eq] at hw
  obtain ⟨⟨ha, hb⟩, _⟩ := hw.1 e he
  have hlen := length_compLabels p
  have heq := fixpoint_closed p.bonds (compLabels p) hfix' e he (by rw [hlen]; exact ha) (by rw [hlen]; exact hb)
  refine ⟨(List.range (compLabels p).length).filter (fun i => (compLabels p).getD i i == (compLabels p).getD e.a e.a), ?_, ?_, ?_⟩
  · simp only [components, groupsBy, List.mem_map]
    refine ⟨(compLabels p).getD e.a e.a, ?_, rfl⟩
    rw [mem_dedup, List.getD_eq_getElem?_getD, List.getElem?_eq_getElem (by rw [hlen]; exact ha)]
    exact List.getElem_mem _
  · rw [List.mem_filter, List.mem_range, hlen]; exact ⟨ha, by simp⟩
  · rw [List.mem_filter, List.mem_range, hlen]; exact ⟨hb, by rw [heq]; simp⟩

/-! ### applicability -/

theorem mapped_of {f : List Nat} {m : WMol} {i x : Nat} (h : f[i]? = some x) (hx : x < m.natoms) : mapped f m i = .ok x := by
  simp [mapped, h, hx, pure, Except.pure]

theorem addBond_succeeds {m : WMol} {x y : Nat} (k : BK) (hne : x ≠ y) (hn : m.kindBetween x y = none) :
    ∃ m', m.addBond x y k = .ok m' := by
  have h1 : (x == y) = false := by simpa using hne
  have h2 : (m.bondBetween x y).isSome = false := by
    cases hb : (m.bondBetween x y).isSome with
    | false => rfl
    | true => exact absurd hn ((bondBetween_isSome_iff m x y).1 hb)
  unfold WMol.addBond
  simp only [h1, h2, Bool.false_eq_true, if_false]
  exact ⟨_, rfl⟩

theorem replace_succeeds {m : WMol} (hw : m.wf = true) {x y : Nat} {k : BK} (k' : BK) (hk : m.kindBetween x y = some k) :
    ∃ m', (m.removeBond x y).addBond x y k' = .ok m' := by
  have s := step_remove hw hk
  exact addBond_succeeds k' s.ne s.after

theorem atom_getElem?_of_lt {m : WMol} {x : Nat} (hx : x < m.natoms) : ∃ a, m.atoms[x]? = some a :=
  ⟨m.atoms[x]'hx, List.getElem?_eq_getElem hx⟩

theorem lt_of_atom {m : WMol} {x : Nat} {a : WAtom} (h : m.atoms[x]? = some a) : x < m.natoms := by
  rcases List.getElem?_eq_some_iff.1 h with ⟨h', _⟩; exact h'

/-- an edit is applied successfully exactly when its precondition holds -/
theorem applyEdit_ok_iff (f : List Nat) (m : WMol) (e : Edit) (hw : m.wf = true) :
    (∃ m', applyEdit f m e = .ok m') ↔ e.Pre f m := by
  constructor
  · rintro ⟨m', h⟩
    have sp := applyEdit_spec f m m' e hw h
    cases e with
    | bondForm i j k =>
      simp only [applyEdit] at h
      obtain ⟨x, hx, h1⟩ := bind_ok h
      obtain ⟨y, hy, h2⟩ := bind_ok h1
      obtain ⟨hfx, hxn⟩ := mapped_ok hx
      obtain ⟨hfy, hyn⟩ := mapped_ok hy
      obtain ⟨hne, hnone, _⟩ := addBond_ok h2
      exact ⟨x, y, hfx, hfy, hxn, hyn, hne, hnone⟩
    | bondBreak i j old =>
      simp only [applyEdit] at h
      obtain ⟨x, hx, h1⟩ := bind_ok h
      obtain ⟨y, hy, h2⟩ := bind_ok h1
      obtain ⟨hfx, hxn⟩ := mapped_ok hx
      obtain ⟨hfy, hyn⟩ := mapped_ok hy
      obtain ⟨x', y', hfx', hfy', _, hk, _⟩ := sp.effect
      rw [hfx] at hfx'; rw [hfy] at hfy'
      cases hfx'; cases hfy'
      exact ⟨x, y, hfx, hfy, hxn, hyn, hk⟩
    | bondModify i j new old =>
      simp only [applyEdit] at h
      obtain ⟨x, hx, h1⟩ := bind_ok h
      obtain ⟨y, hy, h2⟩ := bind_ok h1
      obtain ⟨hfx, hxn⟩ := mapped_ok hx
      obtain ⟨hfy, hyn⟩ := mapped_ok hy
      obtain ⟨x', y', hfx', hfy', _, hk, _⟩ := sp.effect
      rw [hfx] at hfx'; rw [hfy] at hfy'
      cases hfx'; cases hfy'
      exact ⟨x, y, hfx, hfy, hxn, hyn, hk⟩
    | bondIncrease i j =>
      simp only [applyEdit] at h
      obtain ⟨x, hx, h1⟩ := bind_ok h
      obtain ⟨y, hy, h2⟩ := bind_ok h1
      obtain ⟨hfx, hxn⟩ := mapped_ok hx
      obtain ⟨hfy, hyn⟩ := mapped_ok hy
      obtain ⟨x', y', k, k', hfx', hfy', _, hk, hl, _⟩ := sp.effect
      rw [hfx] at hfx'; rw [hfy] at hfy'
      cases hfx'; cases hfy'
      exact ⟨x, y, k, k', hfx, hfy, hxn, hyn, hk, hl⟩
    | bondDecrease i j =>
      simp only [applyEdit] at h
      obtain ⟨x, hx, h1⟩ := bind_ok h
      obtain ⟨y, hy, h2⟩ := bind_ok h1
      obtain ⟨hfx, hxn⟩ := mapped_ok hx
      obtain ⟨hfy, hyn⟩ := mapped_ok hy
      obtain ⟨x', y', k, r, hfx', hfy', _, hk, hl, _⟩ := sp.effect
      rw [hfx] at hfx'; rw [hfy] at hfy'
      cases hfx'; cases hfy'
      exact ⟨x, y, k, r, hfx, hfy, hxn, hyn, hk, hl⟩
    | radicalModify i r old => obtain ⟨x, a, hi, ha, ho, _⟩ := sp.effect; exact ⟨x, a, hi, ha, ho⟩
    | radicalIncrease i => obtain ⟨x, a, hi, ha, _⟩ := sp.effect; exact ⟨x, hi, lt_of_atom ha⟩
    | radicalDecrease i => obtain ⟨x, a, hi, ha, hp, _⟩ := sp.effect; exact ⟨x, a, hi, ha, hp⟩
    | chargeIncrease i => obtain ⟨x, a, hi, ha, _⟩ := sp.effect; exact ⟨x, hi, lt_of_atom ha⟩
    | chargeDecrease i => obtain ⟨x, a, hi, ha, _⟩ := sp.effect; exact ⟨x, hi, lt_of_atom ha⟩
    | atomTypeModify i r c => obtain ⟨x, a, hi, ha, _⟩ := sp.effect; exact ⟨x, hi, lt_of_atom ha⟩
  · intro hp
    cases e with
    | bondForm i j k =>
      obtain ⟨x, y, hi, hj, hx, hy, hne, hn⟩ := hp
      obtain ⟨m', hm'⟩ := addBond_succeeds k hne hn
      exact ⟨m', by simp only [applyEdit, mapped_of hi hx, mapped_of hj hy, bind, Except.bind]; exact hm'⟩
    | bondBreak i j old =>
      obtain ⟨x, y, hi, hj, hx, hy, hk⟩ := hp
      exact ⟨m.removeBond x y, by simp [applyEdit, mapped_of hi hx, mapped_of hj hy, bind, Except.bind, hk, pure, Except.pure]⟩
    | bondModify i j new old =>
      obtain ⟨x, y, hi, hj, hx, hy, hk⟩ := hp
      obtain ⟨m', hm'⟩ := replace_succeeds hw new hk
      exact ⟨m', by simp only [applyEdit, mapped_of hi hx, mapped_of hj hy, bind, Except.bind, hk, beq_self_eq_true, if_true]; exact hm'⟩
    | bondIncrease i j =>
      obtain ⟨x, y, k, k', hi, hj, hx, hy, hk, hl⟩ := hp
      obtain ⟨m', hm'⟩ := replace_succeeds hw k' hk
      exact ⟨m', by simp only [applyEdit, mapped_of hi hx, mapped_of hj hy, bind, Except.bind, hk, hl]; exact hm'⟩
    | bondDecrease i j =>
      obtain ⟨x, y, k, r, hi, hj, hx, hy, hk, hl⟩ := hp
      cases r with
      | none => exact ⟨m.removeBond x y, by simp [applyEdit, mapped_of hi hx, mapped_of hj hy, bind, Except.bind, hk, hl, pure, Except.pure]⟩
      | some k' =>
        obtain ⟨m', hm'⟩ := replace_succeeds hw k' hk
        exact ⟨m', by simp only [applyEdit, mapped_of hi hx, mapped_of hj hy, bind, Except.bind, hk, hl]; exact hm'⟩
    | radicalModify i r old =>
      obtain ⟨x, a, hi, ha, ho⟩ := hp
      exact ⟨_, by simp [applyEdit, mapped_of hi (lt_of_atom ha), bind, Except.bind, ha, ho, pure, Except.pure]; rfl⟩
    | radicalIncrease i =>
      obtain ⟨x, hi, hx⟩ := hp
      exact ⟨_, by simp only [applyEdit, mapped_of hi hx, bind, Except.bind]; rfl⟩
    | radicalDecrease i =>
      obtain ⟨x, a, hi, ha, hpos⟩ := hp
      have : (a.radicals == 0) = false := by simpa using (Nat.pos_iff_ne_zero.1 hpos)
      exact ⟨_, by simp only [applyEdit, mapped_of hi (lt_of_atom ha), bind, Except.bind, ha, this, Bool.false_eq_true, if_false]; rfl⟩
    | chargeIncrease i =>
      obtain ⟨x, hi, hx⟩ := hp
      exact ⟨_, by simp only [applyEdit, mapped_of hi hx, bind, Except.bind]; rfl⟩
    | chargeDecrease i =>
      obtain ⟨x, hi, hx⟩ := hp
      exact ⟨_, by simp only [applyEdit, mapped_of hi hx, bind, Except.bind]; rfl⟩
    | atomTypeModify i r c =>
      obtain ⟨x, hi, hx⟩ := hp
      exact ⟨_, by simp only [applyEdit, mapped_of hi hx, bind, Except.bind]; rfl⟩


/-- the two ends of every bond are in the same product molecule -/
theorem components_closed (p : WMol) (hw : p.wf = true) : ∀ e ∈ p.bonds, ∃ c ∈ components p, e.a ∈ c ∧ e.b ∈ c :=
  components_closed_of_fixpoint p hw (componentsClosed_true p)

end PGA.Rxn
