import PGA.Spec.History
/-! Helper lemmas for C15: the invariant of reachable states and the frame facts of each operation. -/
namespace PGA.History
variable {Scheme Data Val : Type} (W : World Scheme Data Val) (ps sc : Nat)

theorem inv_init : Inv W ps sc (init ps sc : State Scheme Data) :=
  ⟨Or.inl rfl, rfl, rfl, by simp [init], by simp [init]⟩

/-- the directory a load reads is the one the environment designates, whatever the cache holds -/
theorem load_dir (s : State Scheme Data) (hI : Inv W ps sc s) (bp : Bool) :
    (if bp then W.env else (match s.datadir with | some d => d | none => W.env)) = W.env := by
  cases bp with
  | true => rfl
  | false =>
    rcases hI.datadir with h | h <;> simp [h]

theorem step_load (s : State Scheme Data) (hI : Inv W ps sc s) (L : LibName) (bp : Bool) :
    step W s (.load L bp) =
      (match W.loadF ps sc W.env L with
       | .error c => ((if bp then s else { s with datadir := some W.env }), Out.failed (.world c))
       | .ok (sch, d) =>
         ({ (if bp then s else { s with datadir := some W.env }) with
              libs := s.libs ++ [⟨sch, d, none, L, .loaded L⟩] }, Out.loaded s.libs.length d)) := by
  cases bp with
  | true => simp only [step, hI.propsets, hI.schemas]; rfl
  | false =>
    rcases hI.datadir with h | h <;> simp only [step, hI.propsets, hI.schemas, h] <;> rfl

theorem lt_of_getElem? {α : Type} {l : List α} {i : Nat} {a : α} (h : l[i]? = some a) : i < l.length := by
  rcases Nat.lt_or_ge i l.length with h' | h'
  · exact h'
  · rw [List.getElem?_eq_none h'] at h
    cases h

theorem inv_step (s : State Scheme Data) (hI : Inv W ps sc s) (op : Op) : Inv W ps sc (step W s op).1 := by
  cases op with
  | load L bp =>
    rw [step_load W ps sc s hI L bp]
    cases hl : W.loadF ps sc W.env L with
    | error c =>
      cases bp
      · exact ⟨Or.inr rfl, hI.propsets, hI.schemas, hI.libs, hI.ests⟩
      · exact hI
    | ok r =>
      obtain ⟨sch, d⟩ := r
      have hlibs : ∀ l ∈ s.libs ++ [(⟨sch, d, none, L, .loaded L⟩ : Lib Scheme Data)],
          schemeOf W ps sc l.origin = some l.scheme ∧ denote W ps sc l.prov = some l.data := by
        intro l hl'
        rcases List.mem_append.mp hl' with h | h
        · exact hI.libs l h
        · simp only [List.mem_singleton] at h
          subst h
          simp [schemeOf, denote, hl]
      have hests : ∀ e ∈ s.ests, e.lib < (s.libs ++ [(⟨sch, d, none, L, .loaded L⟩ : Lib Scheme Data)]).length ∧
          denote W ps sc e.snapProv = some e.snap := by
        intro e he
        obtain ⟨h1, h2⟩ := hI.ests e he
        exact ⟨by simp; omega, h2⟩
      cases bp
      · exact ⟨Or.inr rfl, hI.propsets, hI.schemas, hlibs, hests⟩
      · exact ⟨hI.datadir, hI.propsets, hI.schemas, hlibs, hests⟩
  | decompose i m =>
    simp only [step]
    split
    · exact hI
    · rename_i l hl
      refine ⟨hI.datadir, hI.propsets, hI.schemas, ?_, ?_⟩
      · intro l' hl'
        rcases List.mem_or_eq_of_mem_set hl' with h | h
        · exact hI.libs l' h
        · subst h
          exact hI.libs l (List.mem_of_getElem? hl)
      · intro e he
        obtain ⟨h1, h2⟩ := hI.ests e he
        exact ⟨by simpa using h1, h2⟩
  | estimate i d fm =>
    simp only [step]
    split
    · exact hI
    · rename_i l hl
      split
      · exact hI
      · split
        · exact hI
        · refine ⟨hI.datadir, hI.propsets, hI.schemas, hI.libs, ?_⟩
          intro e he
          rcases List.mem_append.mp he with h | h
          · exact hI.ests e h
          · simp only [List.mem_singleton] at h
            subst h
            exact ⟨lt_of_getElem? hl, (hI.libs l (List.mem_of_getElem? hl)).2⟩
  | evaluate e T q el =>
    simp only [step]
    split
    · exact hI
    · split <;> exact hI
  | merge dst src ow =>
    simp only [step]
    split
    · rename_i a b ha hb
      cases hm : W.mergeF a.data b.data ow with
      | error c => exact hI
      | ok d =>
        refine ⟨hI.datadir, hI.propsets, hI.schemas, ?_, ?_⟩
        · intro l' hl'
          rcases List.mem_or_eq_of_mem_set hl' with h | h
          · exact hI.libs l' h
          · subst h
            obtain ⟨a1, a2⟩ := hI.libs a (List.mem_of_getElem? ha)
            obtain ⟨_, b2⟩ := hI.libs b (List.mem_of_getElem? hb)
            exact ⟨a1, by simp [denote, a2, b2, hm]⟩
        · intro e he
          obtain ⟨h1, h2⟩ := hI.ests e he
          exact ⟨by simpa using h1, h2⟩
    · exact hI

theorem run_cons (s : State Scheme Data) (op : Op) (rest : List Op) :
    (run W s (op :: rest)).1 = (run W (step W s op).1 rest).1 := rfl

theorem after_nil (s : State Scheme Data) : after W s [] = s := rfl

theorem after_cons (s : State Scheme Data) (op : Op) (rest : List Op) :
    after W s (op :: rest) = after W (step W s op).1 rest := rfl

theorem after_append (s : State Scheme Data) (h1 h2 : List Op) :
    after W s (h1 ++ h2) = after W (after W s h1) h2 := by
  induction h1 generalizing s with
  | nil => rfl
  | cons op rest ih => simp only [List.cons_append, after_cons, ih]

theorem inv_after (s : State Scheme Data) (hI : Inv W ps sc s) (h : List Op) : Inv W ps sc (after W s h) := by
  induction h generalizing s with
  | nil => exact hI
  | cons op rest ih => rw [after_cons]; exact ih _ (inv_step W ps sc s hI op)

/-- every state reachable from the initial one satisfies the invariant -/
theorem inv_reachable (h : List Op) : Inv W ps sc (after W (init ps sc : State Scheme Data) h) :=
  inv_after W ps sc _ (inv_init W ps sc) h

/-! ### outputs are determined by the declared inputs -/

theorem output_of_declared (s : State Scheme Data) (hI : Inv W ps sc s) (op : Op) (dcl : Decl)
    (hd : declared s op = some dcl) (hf : f1Safe W s op) :
    some ((step W s op).2.erase) = outOf W ps sc dcl := by
  cases op with
  | load L bp =>
    simp only [declared, Option.some.injEq] at hd
    subst hd
    rw [step_load W ps sc s hI L bp]
    simp only [outOf]
    cases W.loadF ps sc W.env L with
    | error c => rfl
    | ok r => rfl
  | decompose i m =>
    simp only [declared] at hd
    cases hl : s.libs[i]? with
    | none => simp [hl] at hd
    | some l =>
      simp only [hl, Option.map_some, Option.some.injEq] at hd
      subst hd
      simp only [step, hl, outOf, (hI.libs l (List.mem_of_getElem? hl)).1, Option.map_some]
      rfl
  | estimate i d fm =>
    simp only [declared] at hd
    cases hl : s.libs[i]? with
    | none => simp [hl] at hd
    | some l =>
      simp only [hl, Option.map_some, Option.some.injEq] at hd
      subst hd
      have hname : (l.name.isNone && !W.f1Fixed) = false := by
        rcases hf with h | ⟨l', hl', hn⟩
        · simp [h]
        · rw [hl] at hl'
          cases hl'
          cases hnm : l.name with
          | none => simp [hnm] at hn
          | some m => simp
      simp only [step, hl, outOf, (hI.libs l (List.mem_of_getElem? hl)).2, Option.map_some, hI.propsets]
      cases W.estF ps l.data d with
      | some c => rfl
      | none => simp only [hname]; rfl
  | evaluate e T q el =>
    simp only [declared] at hd
    cases he : s.ests[e]? with
    | none => simp [he] at hd
    | some est =>
      simp only [he] at hd
      cases hl : s.libs[est.lib]? with
      | none => simp [hl] at hd
      | some l =>
        simp only [hl, Option.map_some, Option.some.injEq] at hd
        subst hd
        simp only [step, he, hl, outOf, (hI.libs l (List.mem_of_getElem? hl)).2,
          (hI.ests est (List.mem_of_getElem? he)).2]
        rfl
  | merge dst src ow =>
    simp only [declared] at hd
    cases ha : s.libs[dst]? with
    | none => simp [ha] at hd
    | some a =>
      cases hb : s.libs[src]? with
      | none => simp [ha, hb] at hd
      | some b =>
        simp only [ha, hb, Option.some.injEq] at hd
        subst hd
        simp only [step, ha, hb, outOf, (hI.libs a (List.mem_of_getElem? ha)).2,
          (hI.libs b (List.mem_of_getElem? hb)).2]
        cases W.mergeF a.data b.data ow <;> rfl

/-! ### frame: what each operation leaves alone -/

theorem libs_length_le (s : State Scheme Data) (op : Op) : s.libs.length ≤ (step W s op).1.libs.length := by
  cases op with
  | load L bp =>
    simp only [step]
    split
    · cases bp <;> simp
    · cases bp <;> simp
  | decompose i m => simp only [step]; split <;> simp
  | estimate i d fm =>
    simp only [step]
    split
    · simp
    · split
      · simp
      · split <;> simp
  | evaluate e T q el =>
    simp only [step]
    split
    · simp
    · split <;> simp
  | merge dst src ow =>
    simp only [step]
    split
    · split <;> simp
    · simp

/-- library `i` after an operation: scheme and origin never change; data and provenance change only by a merge
*into* `i`; the remembered name changes only by a decomposition with `i`. -/
theorem frame_lib (s : State Scheme Data) (op : Op) (i : Nat) (l : Lib Scheme Data) (hl : s.libs[i]? = some l) :
    ∃ l', (step W s op).1.libs[i]? = some l' ∧ l'.scheme = l.scheme ∧ l'.origin = l.origin ∧
      ((∀ src ow, op ≠ .merge i src ow) → l'.data = l.data ∧ l'.prov = l.prov) ∧
      ((∀ m, op ≠ .decompose i m) → l'.name = l.name) := by
  have hi := lt_of_getElem? hl
  cases op with
  | load L bp =>
    simp only [step]
    split
    · refine ⟨l, ?_, rfl, rfl, fun _ => ⟨rfl, rfl⟩, fun _ => rfl⟩
      cases bp <;> simpa using hl
    · refine ⟨l, ?_, rfl, rfl, fun _ => ⟨rfl, rfl⟩, fun _ => rfl⟩
      cases bp <;> simp [List.getElem?_append_left hi, hl]
  | decompose j m =>
    simp only [step]
    split
    · exact ⟨l, hl, rfl, rfl, fun _ => ⟨rfl, rfl⟩, fun _ => rfl⟩
    · rename_i lj hlj
      by_cases hji : j = i
      · subst hji
        rw [hl] at hlj
        cases hlj
        refine ⟨{ l with name := some m }, by simp [List.getElem?_set_self hi], rfl, rfl, fun _ => ⟨rfl, rfl⟩, ?_⟩
        intro hne
        exact absurd rfl (hne m)
      · exact ⟨l, by simp [List.getElem?_set_ne hji, hl], rfl, rfl, fun _ => ⟨rfl, rfl⟩, fun _ => rfl⟩
  | estimate j d fm =>
    simp only [step]
    split
    · exact ⟨l, hl, rfl, rfl, fun _ => ⟨rfl, rfl⟩, fun _ => rfl⟩
    · split
      · exact ⟨l, hl, rfl, rfl, fun _ => ⟨rfl, rfl⟩, fun _ => rfl⟩
      · split <;> exact ⟨l, hl, rfl, rfl, fun _ => ⟨rfl, rfl⟩, fun _ => rfl⟩
  | evaluate e T q el =>
    simp only [step]
    split
    · exact ⟨l, hl, rfl, rfl, fun _ => ⟨rfl, rfl⟩, fun _ => rfl⟩
    · split <;> exact ⟨l, hl, rfl, rfl, fun _ => ⟨rfl, rfl⟩, fun _ => rfl⟩
  | merge dst src ow =>
    simp only [step]
    split
    · rename_i a b ha hb
      split
      · exact ⟨l, hl, rfl, rfl, fun _ => ⟨rfl, rfl⟩, fun _ => rfl⟩
      · rename_i d hm
        by_cases hdi : dst = i
        · subst hdi
          rw [hl] at ha
          cases ha
          refine ⟨{ l with data := d, prov := .merged l.prov b.prov ow },
            by simp [List.getElem?_set_self hi], rfl, rfl, ?_, fun _ => rfl⟩
          intro hne
          exact absurd rfl (hne src ow)
        · exact ⟨l, by simp [List.getElem?_set_ne hdi, hl], rfl, rfl, fun _ => ⟨rfl, rfl⟩, fun _ => rfl⟩
    · exact ⟨l, hl, rfl, rfl, fun _ => ⟨rfl, rfl⟩, fun _ => rfl⟩

/-- an estimate, once made, is never changed by any operation -/
theorem frame_est (s : State Scheme Data) (op : Op) (e : Nat) (est : Est Data) (he : s.ests[e]? = some est) :
    (step W s op).1.ests[e]? = some est := by
  have hi := lt_of_getElem? he
  cases op with
  | load L bp =>
    simp only [step]
    split <;> cases bp <;> simpa using he
  | decompose j m => simp only [step]; split <;> simpa using he
  | estimate j d fm =>
    simp only [step]
    split
    · exact he
    · split
      · exact he
      · split
        · exact he
        · simp [List.getElem?_append_left hi, he]
  | evaluate e' T q el =>
    simp only [step]
    split
    · exact he
    · split <;> exact he
  | merge dst src ow =>
    simp only [step]
    split
    · split <;> simpa using he
    · exact he

/-- the registries: the property-set table and the schema repository never change; the data-directory cache only
goes from empty to the directory the environment designates, and only by a load by builtin name -/
theorem frame_registries (s : State Scheme Data) (op : Op) :
    (step W s op).1.propsets = s.propsets ∧ (step W s op).1.schemas = s.schemas ∧
    ((step W s op).1.datadir = s.datadir ∨
      (s.datadir = none ∧ (step W s op).1.datadir = some W.env ∧ ∃ L, op = .load L false)) := by
  cases op with
  | load L bp =>
    cases bp with
    | true => simp only [step]; split <;> simp
    | false =>
      cases hd : s.datadir with
      | none =>
        simp only [step, hd]
        split <;> simp
      | some dd =>
        simp only [step, hd]
        split <;> exact ⟨rfl, rfl, Or.inl rfl⟩
  | decompose j m => simp only [step]; split <;> exact ⟨rfl, rfl, Or.inl rfl⟩
  | estimate j d fm =>
    simp only [step]
    split
    · exact ⟨rfl, rfl, Or.inl rfl⟩
    · split
      · exact ⟨rfl, rfl, Or.inl rfl⟩
      · split <;> exact ⟨rfl, rfl, Or.inl rfl⟩
  | evaluate e' T q el =>
    simp only [step]
    split
    · exact ⟨rfl, rfl, Or.inl rfl⟩
    · split <;> exact ⟨rfl, rfl, Or.inl rfl⟩
  | merge dst src ow =>
    simp only [step]
    split
    · split <;> exact ⟨rfl, rfl, Or.inl rfl⟩
    · exact ⟨rfl, rfl, Or.inl rfl⟩

/-- a merge that is refused leaves the whole state — every library, its provenance included, every estimate, the
registries — as it was -/
theorem step_merge_refused (s : State Scheme Data) (dst src : Nat) (ow : Bool) (a b : Lib Scheme Data)
    (ha : s.libs[dst]? = some a) (hb : s.libs[src]? = some b) (c : Code) (hm : W.mergeF a.data b.data ow = .error c) :
    step W s (.merge dst src ow) = (s, .merged a.data (some c)) := by
  simp only [step, ha, hb, hm]

/-! ### histories -/

theorem after_libs_length_le (s : State Scheme Data) (h : List Op) : s.libs.length ≤ (after W s h).libs.length := by
  induction h generalizing s with
  | nil => exact Nat.le_refl _
  | cons op rest ih =>
    rw [after_cons]
    exact Nat.le_trans (libs_length_le W s op) (ih _)

theorem after_est (s : State Scheme Data) (h : List Op) (e : Nat) (est : Est Data) (he : s.ests[e]? = some est) :
    (after W s h).ests[e]? = some est := by
  induction h generalizing s with
  | nil => exact he
  | cons op rest ih => rw [after_cons]; exact ih _ (frame_est W s op e est he)

/-- without a merge into library `i`, its scheme, data and provenance after any history are what they were -/
theorem after_lib_unmerged (s : State Scheme Data) (h : List Op) (i : Nat) (l : Lib Scheme Data)
    (hl : s.libs[i]? = some l) (hm : ∀ src ow, Op.merge i src ow ∉ h) :
    ∃ l', (after W s h).libs[i]? = some l' ∧ l'.scheme = l.scheme ∧ l'.origin = l.origin ∧
      l'.data = l.data ∧ l'.prov = l.prov := by
  induction h generalizing s l with
  | nil => exact ⟨l, hl, rfl, rfl, rfl, rfl⟩
  | cons op rest ih =>
    rw [after_cons]
    obtain ⟨l1, h1, hs1, ho1, hd1, _⟩ := frame_lib W s op i l hl
    have hne : ∀ src ow, op ≠ .merge i src ow := by
      intro src ow e
      exact hm src ow (by rw [e]; exact List.mem_cons_self)
    obtain ⟨hdat, hprov⟩ := hd1 hne
    obtain ⟨l2, h2, hs2, ho2, hd2, hp2⟩ := ih _ l1 h1 (fun src ow hmem => hm src ow (List.mem_cons_of_mem _ hmem))
    exact ⟨l2, h2, hs2.trans hs1, ho2.trans ho1, hd2.trans hdat, hp2.trans hprov⟩

/-- scheme and origin survive every history, merges included -/
theorem after_lib_scheme (s : State Scheme Data) (h : List Op) (i : Nat) (l : Lib Scheme Data)
    (hl : s.libs[i]? = some l) :
    ∃ l', (after W s h).libs[i]? = some l' ∧ l'.scheme = l.scheme ∧ l'.origin = l.origin := by
  induction h generalizing s l with
  | nil => exact ⟨l, hl, rfl, rfl⟩
  | cons op rest ih =>
    rw [after_cons]
    obtain ⟨l1, h1, hs1, ho1, _, _⟩ := frame_lib W s op i l hl
    obtain ⟨l2, h2, hs2, ho2⟩ := ih _ l1 h1
    exact ⟨l2, h2, hs2.trans hs1, ho2.trans ho1⟩

theorem nameOf_step_decompose (s : State Scheme Data) (i : Nat) (m : Mol) (hi : i < s.libs.length) :
    nameOf (step W s (.decompose i m)).1 i = some m := by
  have : s.libs[i]? = some s.libs[i] := List.getElem?_eq_getElem hi
  simp [step, this, nameOf, List.getElem?_set_self hi]

theorem nameOf_step_other (s : State Scheme Data) (op : Op) (i : Nat) (hi : i < s.libs.length)
    (h : ∀ m, op ≠ .decompose i m) : nameOf (step W s op).1 i = nameOf s i := by
  have hl : s.libs[i]? = some s.libs[i] := List.getElem?_eq_getElem hi
  obtain ⟨l', h1, _, _, _, hn⟩ := frame_lib W s op i _ hl
  simp [nameOf, h1, hl, hn h]

/-- the name a library remembers after a history is the last molecule the history decomposed with it (or what it
remembered before, if none) -/
theorem name_is_last_decomposed (s : State Scheme Data) (h : List Op) (i : Nat) (hi : i < s.libs.length) :
    nameOf (after W s h) i = (match lastDecomp h i with | some m => some m | none => nameOf s i) := by
  induction h generalizing s with
  | nil => rfl
  | cons op rest ih =>
    rw [after_cons, ih _ (Nat.lt_of_lt_of_le hi (libs_length_le W s op))]
    simp only [lastDecomp]
    cases lastDecomp rest i with
    | some m => rfl
    | none =>
      cases op with
      | decompose j m =>
        by_cases hji : j = i
        · subst hji
          simp [nameOf_step_decompose W s j m hi]
        · have : ∀ m', Op.decompose j m ≠ Op.decompose i m' := by
            intro m' e
            cases e
            exact hji rfl
          simp [nameOf_step_other W s _ i hi this, hji]
      | load L bp => exact nameOf_step_other W s (.load L bp) i hi (fun m e => by cases e)
      | estimate j d fm => exact nameOf_step_other W s (.estimate j d fm) i hi (fun m e => by cases e)
      | evaluate e T q el => exact nameOf_step_other W s (.evaluate e T q el) i hi (fun m e => by cases e)
      | merge dst src ow => exact nameOf_step_other W s (.merge dst src ow) i hi (fun m e => by cases e)

/-- a successful `Estimate` appends an estimate that captured the library's data, provenance and remembered name -/
theorem estimate_captures (s : State Scheme Data) (i : Nat) (d : Descr) (fm : Mol) (e : Nat)
    (h : (step W s (.estimate i d fm)).2 = .estimated e) :
    ∃ l, s.libs[i]? = some l ∧
      (step W s (.estimate i d fm)).1.ests[e]? = some ⟨i, d, l.name, l.data, l.prov, fm⟩ := by
  simp only [step] at h ⊢
  cases hl : s.libs[i]? with
  | none => simp [hl] at h
  | some l =>
    simp only [hl] at h ⊢
    cases hest : W.estF s.propsets l.data d with
    | some c => simp [hest] at h
    | none =>
      simp only [hest] at h ⊢
      split at h
      · cases h
      · rename_i hc
        simp only [hc]
        cases h
        exact ⟨l, rfl, by simp⟩

/-- what an evaluation returns -/
theorem evaluate_out (s : State Scheme Data) (e : Nat) (est : Est Data) (l : Lib Scheme Data) (T : Temp) (q : Qty)
    (el : Bool) (he : s.ests[e]? = some est) (hl : s.libs[est.lib]? = some l) :
    (step W s (.evaluate e T q el)).2 =
      .value (W.evalF est.snap l.data est.descr T q (if el then some est.name else none)) := by
  simp only [step, he, hl]

end PGA.History
