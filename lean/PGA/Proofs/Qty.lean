import PGA.Spec.Qty
import PGA.Proofs.UnitsSnap
/-! Helper lemmas for C11: the guard, the element-wise operations, snapping of a differing exponent. -/
namespace PGA.Qty
open PGA.Units

theorem hasUnits_iff (d : Dim) : hasUnits d = true ↔ d ≠ Dim.zero := by
  unfold hasUnits
  rw [Bool.not_eq_true', ← Bool.not_eq_true, Dim.isZero_iff]

theorem hasUnits_false_iff (d : Dim) : hasUnits d = false ↔ d = Dim.zero := by
  rw [← Bool.not_eq_true, hasUnits_iff]; exact not_not

theorem compatible_of_same {a b : Q} (ha : IsQty a) (h : a.dim = b.dim) : compatible a b = true := by
  unfold compatible
  have : hasUnits b.dim = true := (hasUnits_iff _).mpr (h ▸ ha)
  rw [if_pos this]; exact beq_iff_eq.mpr h

theorem compatible_of_bareZero {a b : Q} (h : BareZero b) : compatible a b = true := by
  unfold compatible
  have : hasUnits b.dim = false := (hasUnits_false_iff _).mpr h.1
  simp [this, h.2]

theorem compatible_of {a b : Q} (ha : IsQty a) (h : a.dim = b.dim ∨ BareZero b) : compatible a b = true :=
  h.elim (compatible_of_same ha) compatible_of_bareZero

theorem not_compatible_of {a b : Q} (hd : a.dim ≠ b.dim) (hb : ¬ BareZero b) : compatible a b = false := by
  unfold compatible
  by_cases hu : hasUnits b.dim = true
  · rw [if_pos hu]; exact beq_eq_false_iff_ne.mpr hd
  · rw [if_neg hu]
    have hz : b.dim = Dim.zero := (hasUnits_false_iff _).mp (by simpa using hu)
    cases hv : b.val.isZero
    · rfl
    · exact absurd ⟨hz, hv⟩ hb

theorem beq_fun_eq : (fun x y : Rat => x == y) = (fun x y => decide (x = y)) := by
  funext x y; exact Bool.beq_eq_decide_eq x y

theorem bne_fun_eq : (fun x y : Rat => x != y) = (fun x y => !decide (x = y)) := by
  funext x y
  simp only [bne, Bool.beq_eq_decide_eq x y]

theorem ofCmp_compare (f : Rat → Rat → Bool) (x y : Num) : ofCmp (compare f x y) = cmpOut (onMagnitudes f x y) := by
  cases x <;> cases y <;> simp only [compare, zipNum, onMagnitudes, ofCmp, cmpOut]
  next l m => by_cases h : l.length = m.length <;> simp [h]

theorem build_arith (f : Rat → Rat → Rat) (x y : Num) (d : Dim) : build (arith f x y) d = valOut d (onMagnitudes f x y) := by
  cases x <;> cases y <;> simp only [arith, zipNum, onMagnitudes, build, valOut]
  next l m => by_cases h : l.length = m.length <;> simp [h]

theorem onMagnitudes_flip {α} (f : Rat → Rat → α) (x y : Num) :
    onMagnitudes (fun p q => f q p) y x = onMagnitudes f x y := by
  cases x <;> cases y <;> simp [onMagnitudes]
  next l m =>
    by_cases h : l.length = m.length
    · rw [if_pos h, if_pos h.symm, List.zipWith_comm]
    · rw [if_neg h, if_neg (fun h' => h h'.symm)]

/-- an exponent farther than the threshold from zero is not snapped to zero -/
theorem snap_ne_zero {thr e : Rat} (h : 0 ≤ thr) (hf : thr < absR e) : snap thr e ≠ 0 := by
  have hne : e ≠ 0 := by
    rintro rfl; rw [absR_zero] at hf; linarith
  unfold snap
  split
  · exact hne
  · next hn =>
    intro h0
    rw [h0] at hn
    simp at hn
    linarith

theorem div_ne_zero_of_differs {thr : Rat} (h : 0 ≤ thr) {a b : Dim} (hd : Dim.Differs thr a b) :
    Dim.div thr a b ≠ Dim.zero := by
  intro hz
  have hc := congrArg Dim.toList hz
  simp only [Dim.div, Dim.build, Dim.map, Dim.zip, Dim.toList, Dim.zero, List.cons.injEq, and_true] at hc
  obtain ⟨h1, h2, h3, h4, h5, h6, h7⟩ := hc
  rcases hd with d | d | d | d | d | d | d
  · exact snap_ne_zero h d h1
  · exact snap_ne_zero h d h2
  · exact snap_ne_zero h d h3
  · exact snap_ne_zero h d h4
  · exact snap_ne_zero h d h5
  · exact snap_ne_zero h d h6
  · exact snap_ne_zero h d h7

/-- two integer exponents that differ, differ by at least 1 -/
theorem int_differs {thr x y : Rat} (ht : thr < 1) (hx : isInt x = true) (hy : isInt y = true) (hne : x ≠ y) :
    thr < absR (x - y) := by
  obtain ⟨k, rfl⟩ := (isInt_iff x).mp hx
  obtain ⟨l, rfl⟩ := (isInt_iff y).mp hy
  have hkl : k ≠ l := fun h => hne (by rw [h])
  unfold absR
  split
  · next hlt =>
    have : k < l := by
      have : (k : Rat) < l := by linarith
      exact_mod_cast this
    have : (k : Rat) + 1 ≤ l := by exact_mod_cast this
    linarith
  · next hge =>
    have : l ≤ k := by
      have : (l : Rat) ≤ k := by linarith
      exact_mod_cast this
    have : l < k := lt_of_le_of_ne this (Ne.symm hkl)
    have : (l : Rat) + 1 ≤ k := by exact_mod_cast this
    linarith

theorem differs_of_integral {thr : Rat} (ht : thr < 1) {a b : Dim} (ha : a.Integral) (hb : b.Integral) (hne : a ≠ b) :
    Dim.Differs thr a b := by
  obtain ⟨a1, a2, a3, a4, a5, a6, a7⟩ := ha
  obtain ⟨b1, b2, b3, b4, b5, b6, b7⟩ := hb
  by_contra hnd
  simp only [Dim.Differs, not_or] at hnd
  obtain ⟨n1, n2, n3, n4, n5, n6, n7⟩ := hnd
  apply hne
  apply Dim.ext'
  · by_contra h; exact n1 (int_differs ht a1 b1 h)
  · by_contra h; exact n2 (int_differs ht a2 b2 h)
  · by_contra h; exact n3 (int_differs ht a3 b3 h)
  · by_contra h; exact n4 (int_differs ht a4 b4 h)
  · by_contra h; exact n5 (int_differs ht a5 b5 h)
  · by_contra h; exact n6 (int_differs ht a6 b6 h)
  · by_contra h; exact n7 (int_differs ht a7 b7 h)

end PGA.Qty
