import PGA.Spec.Qty
import PGA.Proofs.UnitsSnap
/-! Helper lemmas for C11: the guard, the element-wise operations, snapping of a differing exponent. -/
namespace PGA.Qty
open PGA.Units

theorem hasUnits_iff (d : Dim) : hasUnits d = true ↔ d ≠ Dim.zero := by
  unfold hasUnits
  rw [Bool.not_eq_true', ← Bool.not_eq_true, Dim.isZero_iff]

theorem hasUnits_false_iff (d : Dim) : hasUnits d = false ↔ d = Dim.zero := by
  rw [← Bool.not_eq_true, hasUnits_iff]; exact not_not

theorem absR_sub_comm (x y : Rat) : absR (x - y) = absR (y - x) := by
  unfold absR
  split <;> split <;> linarith

theorem sameUnits_iff (thr : Rat) (a b : Dim) : sameUnits thr a b = true ↔ Dim.Within thr a b := by
  simp only [sameUnits, Dim.zip, Dim.toList, List.all_cons, List.all_nil, Bool.and_true, Bool.and_eq_true,
    decide_eq_true_eq, Dim.Within]

theorem Dim.within_iff_not_differs (thr : Rat) (a b : Dim) : Dim.Within thr a b ↔ ¬ Dim.Differs thr a b := by
  simp only [Dim.Within, Dim.Differs, not_or, not_lt]

theorem Dim.Within.refl {thr : Rat} (h : 0 ≤ thr) (a : Dim) : Dim.Within thr a a := by
  simp only [Dim.Within, sub_self, absR_zero, h, and_self]

theorem Dim.Within.symm {thr : Rat} {a b : Dim} (h : Dim.Within thr a b) : Dim.Within thr b a := by
  simp only [Dim.Within] at h ⊢
  rw [absR_sub_comm b.m, absR_sub_comm b.kg, absR_sub_comm b.s, absR_sub_comm b.A, absR_sub_comm b.K,
    absR_sub_comm b.mol, absR_sub_comm b.cd]
  exact h

theorem Dim.Differs.symm {thr : Rat} {a b : Dim} (h : Dim.Differs thr a b) : Dim.Differs thr b a := by
  by_contra hn
  exact ((Dim.within_iff_not_differs thr a b).mp ((Dim.within_iff_not_differs thr b a).mpr hn).symm) h

theorem Dim.Within.of_eq {thr : Rat} (h : 0 ≤ thr) {a b : Dim} (he : a = b) : Dim.Within thr a b :=
  he ▸ Dim.Within.refl h a

/-- the guard, in the vocabulary of the property -/
theorem compatible_iff (thr : Rat) (a b : Q) : compatible thr a b = true ↔ Compatible thr a b := by
  unfold compatible Compatible
  by_cases hu : hasUnits b.dim = true
  · have hq : IsQty b := (hasUnits_iff _).mp hu
    rw [if_pos hu, sameUnits_iff]
    exact ⟨fun h => Or.inl ⟨hq, h⟩, fun h => h.elim (fun h => h.2) (fun h => absurd h.1 hq)⟩
  · have hz : b.dim = Dim.zero := (hasUnits_false_iff _).mp (by simpa using hu)
    rw [if_neg hu]
    exact ⟨fun h => Or.inr ⟨hz, h⟩, fun h => h.elim (fun h => absurd hz h.1) (fun h => h.2)⟩

theorem compatible_of_bareZero {thr : Rat} {a b : Q} (h : BareZero b) : compatible thr a b = true :=
  (compatible_iff thr a b).mpr (Or.inr h)

theorem compatible_of_same {thr : Rat} (hthr : 0 ≤ thr) {a b : Q} (ha : IsQty a) (h : a.dim = b.dim) :
    Compatible thr a b :=
  Or.inl ⟨fun hb => ha (h.trans hb), Dim.Within.of_eq hthr h⟩

theorem not_compatible_of {thr : Rat} {a b : Q} (hd : Dim.Differs thr a.dim b.dim) (hb : ¬ BareZero b) :
    compatible thr a b = false := by
  rw [← Bool.not_eq_true, compatible_iff]
  rintro (⟨_, hw⟩ | hz)
  · exact (Dim.within_iff_not_differs _ _ _).mp hw hd
  · exact hb hz

theorem not_compatible_of_plain {thr : Rat} {a b : Q} (hb : b.dim = Dim.zero) (hnz : b.val.isZero = false) :
    compatible thr a b = false := by
  rw [← Bool.not_eq_true, compatible_iff]
  rintro (⟨hq, _⟩ | hz)
  · exact hq hb
  · rw [hz.2] at hnz; exact Bool.noConfusion hnz

theorem beq_fun_eq : (fun x y : Rat => x == y) = (fun x y => decide (x = y)) := by
  funext x y; exact Bool.beq_eq_decide_eq x y

theorem bne_fun_eq : (fun x y : Rat => x != y) = (fun x y => !decide (x = y)) := by
  funext x y
  simp only [bne, Bool.beq_eq_decide_eq x y]

theorem ofCmp_compare (f : Rat → Rat → Bool) (x y : Num) : ofCmp (compare f x y) = cmpOut (onMagnitudes f x y) := by
  cases x <;> cases y <;> simp only [compare, zipNum, onMagnitudes, ofCmp, cmpOut]
  next l m => by_cases h : l.length = m.length <;> simp [h]

theorem build_arith (f : Rat → Rat → Rat) (x y : Num) (d : Dim) : build (arith f x y) d = valOut d (onMagnitudes f x y) := by
  cases x <;> cases y <;> simp only [arith, zipNum, onMagnitudes, build, valOut]
  next l m => by_cases h : l.length = m.length <;> simp [h]

theorem ofCmp_compare_ne_unitsError (f : Rat → Rat → Bool) (x y : Num) : ofCmp (compare f x y) ≠ .err .unitsError := by
  rw [ofCmp_compare]
  cases h : onMagnitudes f x y with
  | none => simp [cmpOut]
  | some r => cases r <;> simp [cmpOut]

theorem build_arith_ne_unitsError (f : Rat → Rat → Rat) (x y : Num) (d : Dim) : build (arith f x y) d ≠ .err .unitsError := by
  rw [build_arith]
  cases h : onMagnitudes f x y with
  | none => simp [valOut]
  | some r => cases r <;> simp [valOut]

theorem onMagnitudes_flip {α} (f : Rat → Rat → α) (x y : Num) :
    onMagnitudes (fun p q => f q p) y x = onMagnitudes f x y := by
  cases x <;> cases y <;> simp [onMagnitudes]
  next l m =>
    by_cases h : l.length = m.length
    · rw [if_pos h, if_pos h.symm, List.zipWith_comm]
    · rw [if_neg h, if_neg (fun h' => h h'.symm)]

/-- an exponent farther than the threshold from zero is not snapped to zero -/
theorem snap_ne_zero {thr e : Rat} (h : 0 ≤ thr) (hf : thr < absR e) : snap thr e ≠ 0 := by
  have hne : e ≠ 0 := by
    rintro rfl; rw [absR_zero] at hf; linarith
  unfold snap
  split
  · exact hne
  · next hn =>
    intro h0
    rw [h0] at hn
    simp at hn
    linarith

/-- for a threshold below one half, `_build` sends an exponent to zero exactly when it is within the threshold of zero -/
theorem snap_eq_zero_iff {thr e : Rat} (h : 0 ≤ thr) (ht : thr < 1 / 2) : snap thr e = 0 ↔ absR e ≤ thr := by
  constructor
  · intro hs
    by_contra hn
    exact snap_ne_zero h (not_le.mp hn) hs
  · intro ha
    have hlo : -thr ≤ e := by unfold absR at ha; split at ha <;> linarith
    have hhi : e ≤ thr := by unfold absR at ha; split at ha <;> linarith
    have hn : nearest e = 0 := by
      unfold nearest
      have : (e + 1 / 2).floor = 0 := by
        apply le_antisymm
        · have h' : ¬ ((0 : Int) + 1 ≤ (e + 1 / 2).floor) := by
            rw [Rat.le_floor_iff]; push_cast; intro h''; linarith
          omega
        · rw [Rat.le_floor_iff]; push_cast; linarith
      rw [this]; rfl
    unfold snap
    rw [hn, sub_zero, if_neg (not_lt.mpr ha)]

/-- equality of units (repaired `__eq__`) is what division followed by `_build` decides: no units remain -/
theorem div_isZero_iff_within {thr : Rat} (h : 0 ≤ thr) (ht : thr < 1 / 2) (a b : Dim) :
    (Dim.div thr a b).isZero = true ↔ Dim.Within thr a b := by
  rw [Dim.isZero_iff]
  constructor
  · intro hz
    have hc := congrArg Dim.toList hz
    simp only [Dim.div, Dim.build, Dim.map, Dim.zip, Dim.toList, Dim.zero, List.cons.injEq, and_true] at hc
    obtain ⟨h1, h2, h3, h4, h5, h6, h7⟩ := hc
    exact ⟨(snap_eq_zero_iff h ht).mp h1, (snap_eq_zero_iff h ht).mp h2, (snap_eq_zero_iff h ht).mp h3,
      (snap_eq_zero_iff h ht).mp h4, (snap_eq_zero_iff h ht).mp h5, (snap_eq_zero_iff h ht).mp h6,
      (snap_eq_zero_iff h ht).mp h7⟩
  · rintro ⟨h1, h2, h3, h4, h5, h6, h7⟩
    apply Dim.ext' <;> simp only [Dim.div, Dim.build, Dim.map, Dim.zip, Dim.zero] <;>
      exact (snap_eq_zero_iff h ht).mpr ‹_›

theorem div_ne_zero_of_differs {thr : Rat} (h : 0 ≤ thr) {a b : Dim} (hd : Dim.Differs thr a b) :
    Dim.div thr a b ≠ Dim.zero := by
  intro hz
  have hc := congrArg Dim.toList hz
  simp only [Dim.div, Dim.build, Dim.map, Dim.zip, Dim.toList, Dim.zero, List.cons.injEq, and_true] at hc
  obtain ⟨h1, h2, h3, h4, h5, h6, h7⟩ := hc
  rcases hd with d | d | d | d | d | d | d
  · exact snap_ne_zero h d h1
  · exact snap_ne_zero h d h2
  · exact snap_ne_zero h d h3
  · exact snap_ne_zero h d h4
  · exact snap_ne_zero h d h5
  · exact snap_ne_zero h d h6
  · exact snap_ne_zero h d h7

/-- two integer exponents that differ, differ by at least 1 -/
theorem int_differs {thr x y : Rat} (ht : thr < 1) (hx : isInt x = true) (hy : isInt y = true) (hne : x ≠ y) :
    thr < absR (x - y) := by
  obtain ⟨k, rfl⟩ := (isInt_iff x).mp hx
  obtain ⟨l, rfl⟩ := (isInt_iff y).mp hy
  have hkl : k ≠ l := fun h => hne (by rw [h])
  unfold absR
  split
  · next hlt =>
    have : k < l := by
      have : (k : Rat) < l := by linarith
      exact_mod_cast this
    have : (k : Rat) + 1 ≤ l := by exact_mod_cast this
    linarith
  · next hge =>
    have : l ≤ k := by
      have : (l : Rat) ≤ k := by linarith
      exact_mod_cast this
    have : l < k := lt_of_le_of_ne this (Ne.symm hkl)
    have : (l : Rat) + 1 ≤ k := by exact_mod_cast this
    linarith

theorem differs_of_integral {thr : Rat} (ht : thr < 1) {a b : Dim} (ha : a.Integral) (hb : b.Integral) (hne : a ≠ b) :
    Dim.Differs thr a b := by
  obtain ⟨a1, a2, a3, a4, a5, a6, a7⟩ := ha
  obtain ⟨b1, b2, b3, b4, b5, b6, b7⟩ := hb
  by_contra hnd
  simp only [Dim.Differs, not_or] at hnd
  obtain ⟨n1, n2, n3, n4, n5, n6, n7⟩ := hnd
  apply hne
  apply Dim.ext'
  · by_contra h; exact n1 (int_differs ht a1 b1 h)
  · by_contra h; exact n2 (int_differs ht a2 b2 h)
  · by_contra h; exact n3 (int_differs ht a3 b3 h)
  · by_contra h; exact n4 (int_differs ht a4 b4 h)
  · by_contra h; exact n5 (int_differs ht a5 b5 h)
  · by_contra h; exact n6 (int_differs ht a6 b6 h)
  · by_contra h; exact n7 (int_differs ht a7 b7 h)

end PGA.Qty
