import PGA.Proofs.UnitsSnap
/-!
# The recursive-descent parser never runs out of its recursion budget, and consumes input

`WB r ts` ("well behaved"): a successful result leaves a strict suffix of the input, and the only
internal error possible is the interpreter's digit limit on some number token of the input.
Proved for `parseExpr d ts` whenever `ts.length < d` — in particular for `parseTokens`.
-/
namespace PGA.Units

/-- the token does not exceed the interpreter's `int()` digit limit -/
def Tok.digitsOK : Tok → Prop
  | .num _ body => body.length ≤ PGA.Gen.Chars.intMaxStrDigits
  | _ => True

/-- the errors the parser may end in on input `ts`: the units parse error, or the interpreter's digit limit on a
number token of `ts` -/
def ErrOK (ts : List Tok) (e : Err) : Prop :=
  e = .unitsParse ∨ (e = .internal .intLimit ∧ ∃ t ∈ ts, ¬ t.digitsOK)

theorem ErrOK.mono {ts ts' : List Tok} {e : Err} (h : ErrOK ts e) (hsub : ∀ t ∈ ts, t ∈ ts') : ErrOK ts' e :=
  h.imp id (fun ⟨a, t, hm, hb⟩ => ⟨a, t, hsub t hm, hb⟩)

structure WB {α} (r : Res (α × List Tok)) (ts : List Tok) : Prop where
  suffix : ∀ x rest, r = .ok (x, rest) → rest <:+ ts ∧ rest.length < ts.length
  errors : ∀ e, r = .error e → ErrOK ts e

/-- same, but the rest may be the whole input (the loop may consume nothing) -/
structure WBle {α} (r : Res (α × List Tok)) (ts : List Tok) : Prop where
  suffix : ∀ x rest, r = .ok (x, rest) → rest <:+ ts
  errors : ∀ e, r = .error e → ErrOK ts e

theorem WB_perr {α} (ts : List Tok) : WB (perr : Res (α × List Tok)) ts :=
  ⟨fun _ _ h => by simp [perr] at h, fun e h => by injection h with h; exact Or.inl h.symm⟩

theorem WB_ok {α} {x : α} {rest ts : List Tok} (h1 : rest <:+ ts) (h2 : rest.length < ts.length) :
    WB (.ok (x, rest) : Res (α × List Tok)) ts :=
  ⟨fun _ _ h => by injection h with h; injection h with _ h; subst h; exact ⟨h1, h2⟩, fun _ h => by simp at h⟩

theorem WB_error {α} {e : Err} {ts : List Tok} (h : ErrOK ts e) : WB (.error e : Res (α × List Tok)) ts :=
  ⟨fun _ _ h => by simp at h, fun _ h' => by injection h' with h'; subst h'; exact h⟩

theorem numberOf_wb (t : Tok) (rest : List Tok) : WB (numberOf t rest) (t :: rest) := by
  unfold numberOf
  split
  · next neg body =>
    split
    · split
      · next hl =>
        refine WB_error (Or.inr ⟨rfl, .num neg body, List.mem_cons_self, ?_⟩)
        simp only [Tok.digitsOK]; omega
      · exact WB_ok (List.suffix_cons _ _) (by simp)
    · exact WB_perr _
  · exact WB_perr _

theorem WB.mono {α} {r : Res (α × List Tok)} {ts ts' : List Tok} (h : WB r ts) (hs : ts <:+ ts') : WB r ts' :=
  ⟨fun x rest hr => let ⟨a, b⟩ := h.suffix x rest hr
    ⟨a.trans hs, Nat.lt_of_lt_of_le b hs.length_le⟩,
   fun e he => (h.errors e he).mono (fun _ hm => hs.subset hm)⟩

theorem numberOf_ok {t : Tok} {rest : List Tok} {q : Rat} {r : List Tok} (h : numberOf t rest = .ok (q, r)) : r = rest := by
  have := (numberOf_wb t rest).suffix q r h
  unfold numberOf at h
  split at h
  · split at h
    · split at h
      · simp at h
      · injection h with h; injection h with _ h; exact h.symm
    · simp [perr] at h
  · simp [perr] at h

theorem parseNumber_wb (ts : List Tok) : WB (parseNumber ts) ts := by
  unfold parseNumber
  split
  · exact WB_perr _
  · next t rest =>
    split
    · split
      · next n c rest' =>
        split
        · have hw := numberOf_wb n rest'
          refine ⟨fun x r hr => ?_, fun e he => ?_⟩
          · have := numberOf_ok hr
            subst this
            exact ⟨⟨[t, n, c], rfl⟩, by simp only [List.length_cons]; omega⟩
          · exact (hw.errors e he).mono (fun t' hm => by
              rcases List.mem_cons.mp hm with h | h
              · subst h; simp
              · simp [h])
        · exact WB_perr _
      · exact WB_perr _
    · exact numberOf_wb t rest

/-- `pe` is well behaved on every input shorter than `n` -/
def WBBelow (pe : List Tok → PRes) (n : Nat) : Prop := ∀ ts', ts'.length < n → WB (pe ts') ts'

theorem parseBaseWith_wb (pe : List Tok → PRes) (ts : List Tok) (hpe : WBBelow pe ts.length) :
    WB (parseBaseWith pe ts) ts := by
  unfold parseBaseWith
  split
  · exact WB_perr _
  · next t rest =>
    split
    · have hw := hpe rest (by simp)
      split
      · next e c r heq =>
        split
        · have := hw.suffix e (c :: r) heq
          refine WB_ok (((List.suffix_cons c r).trans this.1).trans (List.suffix_cons _ _)) ?_
          have := this.2
          simp at this ⊢; omega
        · exact WB_perr _
      · exact WB_perr _
      · next e heq =>
        exact WB_error ((hw.errors e heq).mono (fun _ hm => List.mem_cons_of_mem _ hm))
    · split
      · have hw := numberOf_wb t rest
        split
        · next q r heq =>
          have := hw.suffix q r heq
          exact WB_ok this.1 this.2
        · next e heq => exact WB_error (hw.errors e heq)
      · split
        · exact WB_ok (List.suffix_cons _ _) (by simp)
        · exact WB_perr _

theorem parseFactorWith_wb (pe : List Tok → PRes) (ts : List Tok) (hpe : WBBelow pe ts.length) :
    WB (parseFactorWith pe ts) ts := by
  have hb := parseBaseWith_wb pe ts hpe
  unfold parseFactorWith
  split
  · next e heq => exact WB_error (hb.errors e heq)
  · next left r heq =>
    have hs := hb.suffix left r heq
    split
    · next c r2 =>
      split
      · have hn := parseNumber_wb r2
        split
        · next x r3 heq2 =>
          have := hn.suffix x r3 heq2
          refine WB_ok ((this.1.trans (List.suffix_cons c r2)).trans hs.1) ?_
          have h2 := hs.2
          simp at h2; omega
        · next e heq2 =>
          exact WB_error ((hn.errors e heq2).mono (fun _ hm => hs.1.subset (List.mem_cons_of_mem _ hm)))
      · exact WB_ok hs.1 hs.2
    · exact WB_ok hs.1 hs.2

theorem parseLoopWith_wb (pf : List Tok → PRes) :
    ∀ (n : Nat) (acc : Tree) (ts : List Tok), ts.length < n →
      (∀ ts', ts'.length ≤ ts.length → WB (pf ts') ts') → WBle (parseLoopWith pf n acc ts) ts := by
  intro n
  induction n with
  | zero => intro acc ts h; omega
  | succ n ih =>
    intro acc ts hlen hpf
    cases ts with
    | nil =>
      simp only [parseLoopWith]
      exact ⟨fun x r h => by injection h with h; injection h with _ h2; subst h2; exact List.suffix_refl _,
             fun _ h => by simp at h⟩
    | cons t rest =>
      have step : ∀ (mk : Tree → Tree) (inp : List Tok), inp <:+ (t :: rest) → inp.length ≤ (t :: rest).length →
          WBle (match pf inp with
                | .ok (f, r) => parseLoopWith pf n (mk f) r
                | .error e => .error e) (t :: rest) := by
        intro mk inp hsuf hle
        have hw := hpf inp hle
        split
        · next f r heq =>
          have hs := hw.suffix f r heq
          have hs2 := hs.2
          have hlen' : (t :: rest).length < n + 1 := hlen
          have hr : r.length < n := by omega
          have := ih (mk f) r hr (fun ts' h' => hpf ts' (by omega))
          exact ⟨fun x rr h => (this.suffix x rr h).trans (hs.1.trans hsuf),
                 fun e h => (this.errors e h).mono (fun _ hm => (hs.1.trans hsuf).subset hm)⟩
        · next e heq =>
          exact ⟨fun _ _ h => by simp at h,
                 fun e' h => by
                   injection h with h; subst h
                   exact (hw.errors e heq).mono (fun _ hm => hsuf.subset hm)⟩
      simp only [parseLoopWith]
      split
      · exact step _ rest (List.suffix_cons _ _) (by simp)
      · split
        · exact step _ rest (List.suffix_cons _ _) (by simp)
        · have hw := hpf (t :: rest) (Nat.le_refl _)
          split
          · next f r heq =>
            have hs := hw.suffix f r heq
            have hs2 := hs.2
            have hlen' : (t :: rest).length < n + 1 := hlen
            have hr : r.length < n := by omega
            have := ih (.mul acc f) r hr (fun ts' h' => hpf ts' (by omega))
            exact ⟨fun x rr h => (this.suffix x rr h).trans hs.1,
                   fun e h => (this.errors e h).mono (fun _ hm => hs.1.subset hm)⟩
          · exact ⟨fun x rr h => by injection h with h; injection h with _ h2; subst h2; exact List.suffix_refl _,
                   fun _ h => by simp at h⟩
          · next e hne heq =>
            exact ⟨fun _ _ h => by simp at h,
                   fun e' h => by injection h with h; subst h; exact hw.errors e heq⟩

theorem parseExpr_wb : ∀ (d : Nat) (ts : List Tok), ts.length < d → WB (parseExpr d ts) ts := by
  intro d
  induction d with
  | zero => intro ts h; omega
  | succ d ih =>
    intro ts hlen
    have hpe : ∀ m, m ≤ d → WBBelow (parseExpr d) m := fun m hm ts' h' => ih ts' (by omega)
    have hf : ∀ ts', ts'.length ≤ d → WB (parseFactorWith (parseExpr d) ts') ts' :=
      fun ts' h' => parseFactorWith_wb _ ts' (hpe _ h')
    simp only [parseExpr]
    have hw := hf ts (by omega)
    split
    · next e heq => exact WB_error (hw.errors e heq)
    · next f r heq =>
      have hs := hw.suffix f r heq
      have := parseLoopWith_wb (parseFactorWith (parseExpr d)) (r.length + 1) f r (by omega)
        (fun ts' h' => hf ts' (by omega))
      exact ⟨fun x rr h => ⟨(this.suffix x rr h).trans hs.1, by
                have := (this.suffix x rr h).length_le; omega⟩,
             fun e h => (this.errors e h).mono (fun _ hm => hs.1.subset hm)⟩

/-- the parser ends in a tree, the units parse error, or the digit limit on a token of the input -/
theorem parseTokens_errors (ts : List Tok) (e : Err) (h : parseTokens ts = .error e) : ErrOK ts e := by
  have hw := parseExpr_wb (ts.length + 1) ts (by omega)
  unfold parseTokens at h
  split at h
  · next e' heq => injection h with h; subst h; exact hw.errors e' heq
  · simp at h
  · injection h with h; exact Or.inl h.symm

end PGA.Units
