import PGA.Model.Merge
/-!
# Specification vocabulary for C13

* `Valid c` — the consistency requirement of the constructor, as a proposition about the data (not about the checking
  code): a range is ordered; a correlation with a table has the table and `T_ref` inside its range, or, when it gives no
  range, `T_ref` inside the span of the table.
* `PartOf p W` — `p` holds some of the data of the whole `W` (same `T_ref`; its reference values, table points and range
  are `W`'s or absent): "a way of splitting a group's data (H, S, individual Cp points, range) over files".
* `Covers ps c` — `c` holds a datum exactly when some member of `ps` does: with `PartOf c W` this says that `c` is the
  pointwise union of `ps`.
-/
namespace PGA.Merge
open PGA.Yaml

/-- keys of a dictionary -/
def keys {V : Type} (l : List (Rat × V)) : List Rat := l.map Prod.fst

/-- the constructor's consistency requirement, declaratively -/
def ValidP (ks : List Rat) (Tref : Rat) (range : Option (Rat × Rat)) : Prop :=
  match range with
  | some (lo, hi) => lo ≤ hi ∧ (ks ≠ [] → (∀ k ∈ ks, lo ≤ k ∧ k ≤ hi) ∧ lo ≤ Tref ∧ Tref ≤ hi)
  | none => ks ≠ [] → (∃ k ∈ ks, k ≤ Tref) ∧ (∃ k ∈ ks, Tref ≤ k)

/-- a consistent correlation whose table is a dictionary (distinct keys) -/
structure Valid (c : Corr) : Prop where
  ok : ValidP (keys c.cp) c.Tref c.range
  nodup : (keys c.cp).Nodup

/-- `p` holds part of the data of `W` -/
structure PartOf (p W : Corr) : Prop where
  tref : p.Tref = W.Tref
  h : p.H = none ∨ p.H = W.H
  s : p.S = none ∨ p.S = W.S
  cp : ∀ T v, dlookup T p.cp = some v → dlookup T W.cp = some v
  range : p.range = none ∨ p.range = W.range

/-- `c` holds a datum exactly when some member of `ps` holds it -/
structure Covers (ps : List Corr) (c : Corr) : Prop where
  h : c.H.isSome = true ↔ ∃ p ∈ ps, p.H.isSome = true
  s : c.S.isSome = true ↔ ∃ p ∈ ps, p.S.isSome = true
  cp : ∀ T, (dlookup T c.cp).isSome = true ↔ ∃ p ∈ ps, (dlookup T p.cp).isSome = true
  range : c.range.isSome = true ↔ ∃ p ∈ ps, p.range.isSome = true

/-- observable equality of two correlations: the dictionary order of the table is not observable -/
structure Same (a b : Corr) : Prop where
  h : a.H = b.H
  s : a.S = b.S
  cp : ∀ T, dlookup T a.cp = dlookup T b.cp
  tref : a.Tref = b.Tref
  range : a.range = b.range

/-- an object as the constructor leaves it: `_correlation` exists exactly when there is a table -/
def fresh (c : Corr) : Obj := ⟨c, !c.cp.isEmpty⟩

/-- assumption A-ref is built into `evalAt`; nothing is assumed about `ev` itself -/
def anyEval : RawEval := ⟨fun _ _ _ _ _ => 0, fun _ _ _ _ _ => 0⟩

/-- merging a list of correlations into the copy of the first, left to right (what `Update` does to one group) -/
def mergeAll (ev : RawEval) : Obj → List Corr → Obj × Option UErr
  | o, [] => (o, none)
  | o, d :: ds =>
    match update ev o d false with
    | (o', none) => mergeAll ev o' ds
    | (o', some e) => (o', some e)

/-! ### libraries and file trees -/

open PGA.GroupName in
/-- the canonical name a group text is filed under (`Group.parse(...).name`); texts that do not parse have none -/
def canonOf (text : List Char) : Option Name :=
  match parse text with
  | .ok g => some g.name
  | .error _ => none

/-- the groups of one file are well formed for the theorems: every text parses, its entry loaded to a consistent part
of the whole `Wg name` (plain numbers), and no two texts of the file denote the same group -/
structure GroupsOK (Wg : GroupName.Name → Corr) (groups : GroupsD) : Prop where
  each : ∀ te ∈ groups, ∃ g l c, GroupName.parse te.1 = .ok g ∧ te.2 = .ok (some l) ∧ toCorr l = some c ∧
    PartOf c (Wg g.name) ∧ Valid c
  distinct : (groups.map fun te => canonOf te.1).Nodup

/-- every file of the tree is well formed -/
def TreeOK (Wg : GroupName.Name → Corr) : Incs → Prop
  | .nil => True
  | .cons groups sub rest => GroupsOK Wg groups ∧ TreeOK Wg sub ∧ TreeOK Wg rest

/-- the correlations one file gives for the group `g` -/
def ownEntries (groups : GroupsD) (g : GroupName.Name) : List Corr :=
  groups.filterMap fun te =>
    if canonOf te.1 = some g then
      match te.2 with
      | .ok (some l) => toCorr l
      | _ => none
    else none

/-- all correlations a tree of files gives for the group `g` -/
def treeEntries : Incs → GroupName.Name → List Corr
  | .nil, _ => []
  | .cons groups sub rest, g => ownEntries groups g ++ treeEntries sub g ++ treeEntries rest g

/-- what a library holds for each group, relative to the entries `E` merged into it: nothing when there are none, else
a freshly built consistent part of the whole that holds exactly the data of those entries -/
def LibInv (Wg : GroupName.Name → Corr) (E : GroupName.Name → List Corr) (lib : Lib) : Prop :=
  (lib.map Prod.fst).Nodup ∧
  ∀ g, match libLookup g lib with
    | none => E g = []
    | some none => False
    | some (some o) => o = fresh o.c ∧ PartOf o.c (Wg g) ∧ Valid o.c ∧ Covers (E g) o.c ∧ E g ≠ []

end PGA.Merge
