import PGA.Model.Rxn
/-! # Vocabulary of C16: what "exactly the declared edit" and "electrons balanced" mean

Observations of a molecule graph (`radAt`, `chgAt`, `zAt`, `kindBetween`, `bondSum2`, `E`), the unordered
pair relation, what an edit *declares* (`Edit.inc`: the increment the reader books per label, in half
electrons; `Edit.atomLabels` / `Edit.bondLabels`: the labels it names), and which atoms / atom pairs an
edit list names under an index map (`namedAtoms`, `namedPairs`).  Written independently of `applyEdit`.
-/
namespace PGA.Rxn

/-- element, formal charge and radical electrons of an atom: what the property calls the atom's state -/
def WAtom.core (a : WAtom) : Nat × Int × Nat := (a.Z, a.charge, a.radicals)

namespace WMol
/-- radical electrons of atom `x` (0 when there is no such atom) -/
def radAt (m : WMol) (x : Nat) : Int := match m.atoms[x]? with | some a => (a.radicals : Int) | none => 0
/-- formal charge of atom `x` -/
def chgAt (m : WMol) (x : Nat) : Int := match m.atoms[x]? with | some a => a.charge | none => 0
/-- the elements, atom by atom -/
def elements (m : WMol) : List Nat := m.atoms.map (·.Z)
/-- twice the sum of the bond orders at atom `x` -/
def bondSum2 (m : WMol) (x : Nat) : Int := ((m.bonds.filter (·.touches x)).map (·.kind.half)).sum
/-- twice (bond order sum + radical electrons + formal charge) at atom `x`: the quantity the reader's electron
balance is about (lone pairs are not represented) -/
def E (m : WMol) (x : Nat) : Int := m.bondSum2 x + 2 * m.radAt x + 2 * m.chgAt x
end WMol

/-- `{u, v} = {x, y}` as unordered pairs -/
def SamePair (u v x y : Nat) : Prop := (u = x ∧ v = y) ∨ (u = y ∧ v = x)

instance (u v x y : Nat) : Decidable (SamePair u v x y) := by unfold SamePair; exact inferInstance

namespace Edit

/-- the increment of the electron balance the reader books for this edit at label `l` (half electrons):
form −order, break +order, modify −(new − old), increase −1, decrease +1, radical/charge +1 ↦ −1, −1 ↦ +1,
radical set −(r − declared) -/
def inc (e : Edit) (l : Nat) : Int :=
  let at2 (i j : Nat) (d : Int) : Int := (if l = i then d else 0) + (if l = j then d else 0)
  let at1 (i : Nat) (d : Int) : Int := if l = i then d else 0
  match e with
  | bondForm i j k => at2 i j (-(k.half))
  | bondBreak i j old => at2 i j old.half
  | bondModify i j new old => at2 i j (-(new.half - old.half))
  | bondIncrease i j => at2 i j (-2)
  | bondDecrease i j => at2 i j 2
  | radicalModify i r old => at1 i (-(2 * ((r : Int) - (old : Int))))
  | radicalIncrease i => at1 i (-2)
  | radicalDecrease i => at1 i 2
  | chargeIncrease i => at1 i (-2)
  | chargeDecrease i => at1 i 2
  | atomTypeModify _ _ _ => 0

/-- the edit is one a rule text can produce (`AtomTypeModify` objects are never built by the reader) -/
def isText : Edit → Bool
  | atomTypeModify _ _ _ => false
  | _ => true

/-- the label pair of a bond edit -/
def bondLabels : Edit → Option (Nat × Nat)
  | bondForm i j _ | bondBreak i j _ | bondModify i j _ _ | bondIncrease i j | bondDecrease i j => some (i, j)
  | _ => none

/-- the label of an atom (radical / charge) edit -/
def atomLabel : Edit → Option Nat
  | radicalModify i _ _ | radicalIncrease i | radicalDecrease i | chargeIncrease i | chargeDecrease i
  | atomTypeModify i _ _ => some i
  | _ => none

/-- every label the edit names -/
def labels (e : Edit) : List Nat :=
  match e.bondLabels, e.atomLabel with
  | some (i, j), _ => [i, j]
  | none, some i => [i]
  | none, none => []

end Edit

/-- total declared increment of an edit list at label `l` -/
def incSum (es : List Edit) (l : Nat) : Int := (es.map (·.inc l)).sum

/-- the molecule atoms named by the radical / charge edits of `es` under the index map `f` -/
def namedAtoms (f : List Nat) (es : List Edit) : List Nat :=
  es.filterMap fun e => e.atomLabel.bind (f[·]?)

/-- the atom pairs named by the bond edits of `es` under `f` -/
def namedPairs (f : List Nat) (es : List Edit) : List (Nat × Nat) :=
  es.filterMap fun e => match e.bondLabels with
    | some (i, j) => (match f[i]?, f[j]? with
      | some x, some y => some (x, y)
      | _, _ => none)
    | none => none

/-! ## Frame vocabulary -/

/-- every bond type except possibly the one between `x` and `y` is the same in `m'` as in `m` -/
def BondsSameExcept (m m' : WMol) (x y : Nat) : Prop :=
  ∀ u v, ¬ SamePair u v x y → m'.kindBetween u v = m.kindBetween u v
/-- all bond types are the same -/
def BondsSame (m m' : WMol) : Prop := ∀ u v, m'.kindBetween u v = m.kindBetween u v
/-- element, charge and radical electrons of every atom are the same -/
def CoreSame (m m' : WMol) : Prop := m'.atoms.map WAtom.core = m.atoms.map WAtom.core
/-- every atom except possibly `x` is the same -/
def AtomsSameExcept (m m' : WMol) (x : Nat) : Prop :=
  m'.atoms.length = m.atoms.length ∧ ∀ z, z ≠ x → m'.atoms[z]? = m.atoms[z]?

/-- **What a successfully applied edit has done** (`m` before, `m'` after, `f` the index map): the declared change at
the named bond / atom, stated as before-and-after values, and nothing else. -/
def Edit.Effect (f : List Nat) (m m' : WMol) : Edit → Prop
  | .bondForm i j k => ∃ x y, f[i]? = some x ∧ f[j]? = some y ∧ x ≠ y ∧
      m.kindBetween x y = none ∧ m'.kindBetween x y = some k ∧ BondsSameExcept m m' x y ∧ CoreSame m m'
  | .bondBreak i j old => ∃ x y, f[i]? = some x ∧ f[j]? = some y ∧ x ≠ y ∧
      m.kindBetween x y = some old ∧ m'.kindBetween x y = none ∧ BondsSameExcept m m' x y ∧ CoreSame m m'
  | .bondModify i j new old => ∃ x y, f[i]? = some x ∧ f[j]? = some y ∧ x ≠ y ∧
      m.kindBetween x y = some old ∧ m'.kindBetween x y = some new ∧ BondsSameExcept m m' x y ∧ CoreSame m m'
  | .bondIncrease i j => ∃ x y k k', f[i]? = some x ∧ f[j]? = some y ∧ x ≠ y ∧
      m.kindBetween x y = some k ∧ ladderUp k = .ok k' ∧ m'.kindBetween x y = some k' ∧
      BondsSameExcept m m' x y ∧ CoreSame m m'
  | .bondDecrease i j => ∃ x y k r, f[i]? = some x ∧ f[j]? = some y ∧ x ≠ y ∧
      m.kindBetween x y = some k ∧ ladderDown k = .ok r ∧ m'.kindBetween x y = r ∧
      BondsSameExcept m m' x y ∧ CoreSame m m'
  | .radicalModify i r old => ∃ x a, f[i]? = some x ∧ m.atoms[x]? = some a ∧ a.radicals = old ∧
      m'.atoms[x]? = some { a with radicals := r } ∧ AtomsSameExcept m m' x ∧ m'.bonds = m.bonds
  | .radicalIncrease i => ∃ x a, f[i]? = some x ∧ m.atoms[x]? = some a ∧
      m'.atoms[x]? = some { a with radicals := a.radicals + 1 } ∧ AtomsSameExcept m m' x ∧ m'.bonds = m.bonds
  | .radicalDecrease i => ∃ x a, f[i]? = some x ∧ m.atoms[x]? = some a ∧ 0 < a.radicals ∧
      m'.atoms[x]? = some { a with radicals := a.radicals - 1 } ∧ AtomsSameExcept m m' x ∧ m'.bonds = m.bonds
  | .chargeIncrease i => ∃ x a, f[i]? = some x ∧ m.atoms[x]? = some a ∧
      m'.atoms[x]? = some { a with charge := a.charge + 1 } ∧ AtomsSameExcept m m' x ∧ m'.bonds = m.bonds
  | .chargeDecrease i => ∃ x a, f[i]? = some x ∧ m.atoms[x]? = some a ∧
      m'.atoms[x]? = some { a with charge := a.charge - 1 } ∧ AtomsSameExcept m m' x ∧ m'.bonds = m.bonds
  | .atomTypeModify i r c => ∃ x a, f[i]? = some x ∧ m.atoms[x]? = some a ∧
      m'.atoms[x]? = some { a with radicals := r, charge := c } ∧ AtomsSameExcept m m' x ∧ m'.bonds = m.bonds

/-! ## Applicability -/

/-- **When an edit can be applied** (`f` the index map, `m` the molecule at that point): the labels are mapped to
atoms of the molecule and the named bond / atom is in the state the operator needs. -/
def Edit.Pre (f : List Nat) (m : WMol) : Edit → Prop
  | .bondForm i j _ => ∃ x y, f[i]? = some x ∧ f[j]? = some y ∧ x < m.natoms ∧ y < m.natoms ∧ x ≠ y ∧ m.kindBetween x y = none
  | .bondBreak i j old => ∃ x y, f[i]? = some x ∧ f[j]? = some y ∧ x < m.natoms ∧ y < m.natoms ∧ m.kindBetween x y = some old
  | .bondModify i j _ old => ∃ x y, f[i]? = some x ∧ f[j]? = some y ∧ x < m.natoms ∧ y < m.natoms ∧ m.kindBetween x y = some old
  | .bondIncrease i j => ∃ x y k k', f[i]? = some x ∧ f[j]? = some y ∧ x < m.natoms ∧ y < m.natoms ∧
      m.kindBetween x y = some k ∧ ladderUp k = .ok k'
  | .bondDecrease i j => ∃ x y k r, f[i]? = some x ∧ f[j]? = some y ∧ x < m.natoms ∧ y < m.natoms ∧
      m.kindBetween x y = some k ∧ ladderDown k = .ok r
  | .radicalModify i _ old => ∃ x a, f[i]? = some x ∧ m.atoms[x]? = some a ∧ a.radicals = old
  | .radicalIncrease i => ∃ x, f[i]? = some x ∧ x < m.natoms
  | .radicalDecrease i => ∃ x a, f[i]? = some x ∧ m.atoms[x]? = some a ∧ 0 < a.radicals
  | .chargeIncrease i => ∃ x, f[i]? = some x ∧ x < m.natoms
  | .chargeDecrease i => ∃ x, f[i]? = some x ∧ x < m.natoms
  | .atomTypeModify i _ _ => ∃ x, f[i]? = some x ∧ x < m.natoms


/-! ## Connectedness -/

/-- `a` and `b` are joined by a bond of `p` -/
def Adj (p : WMol) (a b : Nat) : Prop := ∃ e ∈ p.bonds, e.joins a b = true

/-- `b` can be reached from `a` along bonds of `p` -/
inductive Conn (p : WMol) : Nat → Nat → Prop
  | refl (a : Nat) : Conn p a a
  | step {a b c : Nat} : Conn p a b → Adj p b c → Conn p a c


end PGA.Rxn
