import PGA.Model.Scheme
import Batteries.Data.List.Basic
/-! The disjoint union of two inputs of one scheme (C04): the atoms of `B` renumbered after those of `A`, no edge
between the two parts, every pattern's matches the matches on `A` followed by the shifted matches on `B`. -/
namespace PGA.Scheme

def shift (k : Nat) (m : Match) : Match := m.map (· + k)

def union (A B : Input) : Input :=
  { n := A.n + B.n
    nbrs := A.nbrs ++ B.nbrs.map (shift A.n)
    centres := List.zipWith (fun p q => ⟨p.center, p.periph, p.ms ++ q.ms.map (shift A.n)⟩) A.centres B.centres
    descs := List.zipWith (fun d e => ⟨d.name, d.ms ++ e.ms.map (shift A.n)⟩) A.descs B.descs
    remaps := A.remaps }

/-- both inputs come from the same scheme: same pattern entries (names) in the same order, same remap table -/
structure SameScheme (A B : Input) : Prop where
  centres : List.Forall₂ (fun p q => q.center = p.center ∧ q.periph = p.periph) A.centres B.centres
  descs : List.Forall₂ (fun d e => e.name = d.name) A.descs B.descs
  remaps : B.remaps = A.remaps

/-- indices stay inside the molecule; matches are non-empty -/
structure WF (A : Input) : Prop where
  nbrs_len : A.nbrs.length = A.n
  nbrs_lt : ∀ l ∈ A.nbrs, ∀ j ∈ l, j < A.n
  centre_lt : ∀ p ∈ A.centres, ∀ m ∈ p.ms, ∀ j ∈ m, j < A.n
  desc_lt : ∀ d ∈ A.descs, ∀ m ∈ d.ms, m ≠ [] ∧ ∀ j ∈ m, j < A.n

end PGA.Scheme
