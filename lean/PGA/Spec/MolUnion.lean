import PGA.Spec.MolIso
/-! # The disjoint union of two molecule graphs (C04) and connected queries

`Mol.union A B`: the atoms of `B` renumbered after those of `A`, the bonds and rings of `A` followed by the
renumbered bonds and rings of `B`, no bond between the two parts — a mixture `A.B` as a graph.
`Query.connected`: every labelled atom but the first is declared with a bond to an earlier atom (what
`readFragment` produces: `Read.frag_connected`).
-/
namespace PGA

/-- the disjoint union of two graphs -/
def Mol.union (A B : Mol) : Mol :=
  { atoms := A.atoms ++ B.atoms
    bonds := A.bonds ++ B.bonds.map (Spec.relabelBond (· + A.natoms))
    rings := A.rings ++ B.rings.map (List.map (· + A.natoms)) }

/-- every declared atom after the first has a declared bond to an atom declared before it -/
def Query.connected (q : Query) : Bool :=
  (List.range q.atoms.length).all fun k =>
    k == 0 || q.bonds.any fun b => (b.i == k && decide (b.j < k)) || (b.j == k && decide (b.i < k))

end PGA
