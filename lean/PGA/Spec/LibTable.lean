import PGA.Model.LibTable
/-! Declarative meaning of the C14 table conditions (what the Boolean checks are checks *of*). -/
namespace PGA.LibTable

/-- no remap target is itself remapped (so applying the rules once is applying them completely,
independently of the order in which keys are visited) -/
def ChainFree (rs : List Remap) : Prop :=
  ∀ r ∈ rs, ∀ t ∈ r.targets, ∀ r' ∈ rs, r'.key ≠ t.2

/-- all values plain numbers, reference temperature positive -/
def PlainValues (g : GroupRec) : Prop :=
  g.tref.isNum = true ∧ g.href.okOrAbsent = true ∧ g.sref.okOrAbsent = true ∧ ∀ p ∈ g.cp, p.2.isNum = true

/-- positive semi-definite on the first `n` coordinates -/
def PSD (n : Nat) (m : List (List Int)) : Prop := ∀ x : Nat → Rat, 0 ≤ quadForm n m x

end PGA.LibTable
