import PGA.Spec.MolIso
import Batteries.Data.List.Basic
/-! The same ring set presented differently (C03): what distinguishes RDKit's ring lists of two spellings of one molecule. -/
namespace PGA.Spec

/-- the same rings presented differently: every ring's atom list rotated/reflected at will (`rs''`), then the list of
rings reordered at will -/
def RingsSame (rs rs' : List (List Nat)) : Prop := ∃ rs'', List.Forall₂ RingEquiv rs rs'' ∧ rs''.Perm rs'

end PGA.Spec
