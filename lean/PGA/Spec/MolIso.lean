import PGA.Model.Aromatize
import PGA.Spec.Embeds
/-! # "The same molecule written differently", on molecule graphs (C03)

Vocabulary for the statements about the Benson perception and the end-to-end decomposition:
two atom lists naming the same ring (`RingEquiv`: rotation and reflection), rings that share a
bond, the decidable guard under which the perception does not depend on the order of the ring list
(`EligibleRingsBondDisjoint`), and a renumbering of the atoms of a graph (`MolIso`).
-/
namespace PGA.Spec
open PGA PGA.Arom

/-- two atom lists name the same ring: one is obtained from the other by rotations and reflections -/
inductive RingEquiv : List Nat → List Nat → Prop
  | refl (r : List Nat) : RingEquiv r r
  /-- start one atom later -/
  | rot (a : Nat) (l : List Nat) : RingEquiv (a :: l) (l ++ [a])
  /-- walk the ring the other way round -/
  | rev (r : List Nat) : RingEquiv r r.reverse
  | trans {r r' r'' : List Nat} : RingEquiv r r' → RingEquiv r' r'' → RingEquiv r r''

/-- two six-rings have a pair of consecutive atoms in common (in either direction) -/
def sharesBond (r r' : List Nat) : Bool :=
  (edgePairs r).any fun p => (edgePairs r').any fun p' => (p.1 == p'.1 && p.2 == p'.2) || (p.1 == p'.2 && p.2 == p'.1)

/-- **Guard of the order theorem**: no two rings of the list that pass Benson's check on `m` share a bond
(in particular no ring is listed twice).  Decidable. -/
def BondDisjointEligible (m : Mol) (rs : List (List Nat)) : Prop :=
  (rs.filter (eligible m)).Pairwise fun r r' => sharesBond r r' = false

instance (m : Mol) (rs : List (List Nat)) : Decidable (BondDisjointEligible m rs) := by
  unfold BondDisjointEligible; infer_instance

/-- the guard for the molecule's own ring list -/
def EligibleRingsBondDisjoint (m : Mol) : Prop := BondDisjointEligible m m.rings

instance (m : Mol) : Decidable (EligibleRingsBondDisjoint m) := by
  unfold EligibleRingsBondDisjoint; infer_instance

/-- the bond with its atoms renamed -/
def relabelBond (π : Nat → Nat) (e : Bond) : Bond :=
  { e with a := π e.a, b := π e.b, stereoAtoms := e.stereoAtoms.map π }

/-- `φ` maps the graph `m` onto a union of connected components of `m'`, keeping everything a RING atom constraint can
see: the atom itself, the bonds at it (none leaves the image), the rings through it.  Renumberings (`MolIso`) and the
two injections into a disjoint union are the instances used (C03, C04). -/
structure OpenMap (φ : Nat → Nat) (m m' : Mol) : Prop where
  inj : Function.Injective φ
  atoms : ∀ x, x < m.natoms → m'.atom? (φ x) = m.atom? x
  bonds : ∀ x y, x < m.natoms → y < m.natoms → m'.bondBetween (φ x) (φ y) = (m.bondBetween x y).map (relabelBond φ)
  closed : ∀ x y' e', x < m.natoms → m'.bondBetween (φ x) y' = some e' → ∃ y, y < m.natoms ∧ y' = φ y
  double : ∀ x, x < m.natoms → ((∃ e ∈ m'.bonds, e.touches (φ x) = true ∧ e.kind = .double) ↔
      (∃ e ∈ m.bonds, e.touches x = true ∧ e.kind = .double))
  /-- the rings through an atom: the atom is on a ring of one graph iff its image is on a ring of the other, … -/
  onRing : ∀ x, x < m.natoms → (OnRing m' (φ x) ↔ OnRing m x)
  /-- … with the same ring sizes, … -/
  ringSize : ∀ x, x < m.natoms → ∀ cn : CN,
    ((∃ r ∈ m'.rings, φ x ∈ r ∧ CNHolds cn r.length) ↔ (∃ r ∈ m.rings, x ∈ r ∧ CNHolds cn r.length))
  /-- … and the same number of rings (how the rings are listed and where each ring's atom list starts does not matter) -/
  nRing : ∀ x, x < m.natoms → (ringsThrough m' (φ x)).length = (ringsThrough m x).length

/-- `m'` is `m` with every atom `i` renamed `π i`: the atom at `π i` of `m'` is the atom at `i` of `m`, the bonds are
the renamed bonds **in any order** (same begin/end atoms), the rings are the renamed rings **in the same order**.  `π` is a bijection of the naturals that
preserves the index range (any permutation of `0..n-1`, extended by the identity). -/
structure MolIso (π : Nat → Nat) (m m' : Mol) : Prop where
  inj : Function.Injective π
  surj : Function.Surjective π
  range : ∀ i, π i < m.natoms ↔ i < m.natoms
  natoms : m'.natoms = m.natoms
  atoms : ∀ i, m'.atoms[π i]? = m.atoms[i]?
  bonds : m'.bonds.Perm (m.bonds.map (relabelBond π))
  rings : m'.rings = m.rings.map (List.map π)

end PGA.Spec
