import PGA.Model.Scheme
import Mathlib.Data.Finset.Image
/-! What "the same molecule, atoms numbered differently" means for the input of the decomposition model (C03),
and what "a disconnected union of two molecules" means (C04).  Match lists are related as *sets* (of first atoms,
of matched atom sets) and neighbour lists as multisets — exactly what a correct matcher guarantees (C08) — never as
lists, so nothing about enumeration order is assumed. -/
namespace PGA.Scheme

/-- `inp'` is `inp` with every atom `i` renamed `π i` -/
structure Relabel (inp inp' : Input) (π : Nat → Nat) : Prop where
  inj : Function.Injective π
  surj : Function.Surjective π
  n_eq : inp'.n = inp.n
  range : ∀ i, π i < inp.n ↔ i < inp.n
  nbrs : ∀ i, (inp'.nbrs.getD (π i) []).Perm ((inp.nbrs.getD i []).map π)
  centres : List.Forall₂ (fun p p' => p'.center = p.center ∧ p'.periph = p.periph ∧
      ∀ i, π i ∈ firstAtoms p'.ms ↔ i ∈ firstAtoms p.ms) inp.centres inp'.centres
  descs : List.Forall₂ (fun d d' => d'.name = d.name ∧
      (d'.ms.map List.toFinset).toFinset = ((d.ms.map List.toFinset).toFinset).image (Finset.image π)) inp.descs inp'.descs
  remaps : inp'.remaps = inp.remaps

end PGA.Scheme
