import PGA.Model.Decompose
import PGA.Spec.Embeds
import PGA.Spec.MolUnion
/-! Decidable guards on a loaded scheme used as hypotheses of the end-to-end theorems (and reported by the driver for
every scheme it is sent). -/
namespace PGA.Decompose
open PGA.Spec

/-- every query of the scheme is well-formed (guaranteed by the reader: `load_wf`) -/
def SchemeDef.wf (S : SchemeDef) : Bool := S.centres.all (·.q.wf) && S.descs.all (·.q.wf)

/-- no pattern of the scheme uses the `*` suffix (guard of C08's theorem, finding FM1) -/
def SchemeDef.noStar (S : SchemeDef) : Bool := S.centres.all (NoStar ·.q) && S.descs.all (NoStar ·.q)

/-- no pattern of the scheme has a molecule-level prefix (`cyclic fragment …`, `olefinic fragment …`) -/
def SchemeDef.noMolPrefix (S : SchemeDef) : Bool := S.centres.all (·.q.molPre.isEmpty) && S.descs.all (·.q.molPre.isEmpty)

/-- every pattern of the scheme is connected and has at least one atom (guaranteed by the reader: `load_connected`) -/
def SchemeDef.connected (S : SchemeDef) : Bool :=
  S.centres.all (fun c => c.q.connected && decide (0 < c.q.atoms.length)) &&
  S.descs.all (fun d => d.q.connected && decide (0 < d.q.atoms.length))

end PGA.Decompose
