import PGA.Model.Estimate
/-!
# Vocabulary of the properties C01, C07, C20 (specification side)

Written independently of the model's algorithms: plain sums, "every constituent has the datum", the list of
descriptors without data, the quadratic form as a double sum, the count vector in basis order, and the
hand-written reference tables (unit conversion factors, standard entropies of the elements).
-/
namespace PGA.Estimate

/-- the value of a constituent's own correlation where it has one (0 otherwise; only used under `AllOk`) -/
def valD (get : Corr → Val) (c : Corr) : Rat :=
  match get c with
  | .ok v => v
  | .error _ => 0

/-- every constituent has the datum -/
def AllOk (get : Corr → Val) (cs : List (Corr × Rat)) : Prop :=
  ∀ p ∈ cs, ∃ w, get p.1 = .ok w

/-- `Σ count · value` over the `(correlation, count)` terms -/
def specSum (get : Corr → Val) (cs : List (Corr × Rat)) : Rat :=
  (cs.map fun p => p.2 * valD get p.1).sum

section
variable {N S : Type} [DecidableEq N] [DecidableEq S]

/-- the property set `s` of descriptor `g`, if the library has one (`{}` for unknown descriptors) -/
def corrOf (lib : Library N S) (s : S) (g : N) : Option Corr := (lib.getItem g).lookup s

/-- descriptors of the mapping without the property set, in mapping order -/
def specMissing (lib : Library N S) (s : S) (groups : List (N × Rat)) : List N :=
  (groups.map (·.1)).filter fun g => (corrOf lib s g).isNone

/-- the terms of an estimate are the constituents' correlations with the mapping's counts, in mapping order -/
def Terms (lib : Library N S) (s : S) : List (N × Rat) → List (Corr × Rat) → Prop
  | [], [] => True
  | g :: gs, c :: cs => corrOf lib s g.1 = some c.1 ∧ g.2 = c.2 ∧ Terms lib s gs cs
  | _, _ => False

/-- the value of descriptor `g`'s own correlation for the datum `get` (0 where there is none) -/
def valOf (lib : Library N S) (s : S) (get : Corr → Val) (g : N) : Rat :=
  match corrOf lib s g with
  | some c => valD get c
  | none => 0

/-- descriptor `g` has the property set and its correlation has the datum `get` -/
def HasDatum (lib : Library N S) (s : S) (get : Corr → Val) (g : N) : Prop :=
  ∃ c w, corrOf lib s g = some c ∧ get c = .ok w

/-- descriptor `g` has the property set but evaluating the datum `get` fails with `err` -/
def FailsWith (lib : Library N S) (s : S) (get : Corr → Val) (g : N) (err : Err) : Prop :=
  ∃ c, corrOf lib s g = some c ∧ get c = .error err

/-- `Σ_{(d,n) ∈ mapping} n · (d's own value)` -/
def specEstimate (lib : Library N S) (s : S) (get : Corr → Val) (groups : List (N × Rat)) : Rat :=
  (groups.map fun g => g.2 * valOf lib s get g.1).sum

/-- the count vector in basis order: entry `i` is the count the mapping gives to `basis[i]` (0 if absent) -/
def specX (basis : List N) (groups : List (N × Rat)) : List Rat :=
  basis.map fun b => match groups.lookup b with
    | some n => n
    | none => 0
end

/-- `Σ_j a_j b_j` -/
def specDot (a b : List Rat) : Rat := (List.zipWith (· * ·) a b).sum

/-- the quadratic form `xᵀ M x = Σ_i x_i (Σ_j M_ij x_j)`, `M` given by rows -/
def specQuad (M : List (List Rat)) (x : List Rat) : Rat :=
  (List.zipWith (fun xi row => xi * specDot row x) x M).sum

/-- `M` is an `n × n` table -/
def Square (n : Nat) (M : List (List Rat)) : Prop := M.length = n ∧ ∀ row ∈ M, row.length = n

/-- positive semi-definiteness of the stored matrix (certified for the shipped matrices under C14) -/
def PSD (n : Nat) (M : List (List Rat)) : Prop := ∀ x : List Rat, x.length = n → 0 ≤ specQuad M x

/-- absolute value -/
def rabs (a : Rat) : Rat := if a < 0 then -a else a

/-- What is assumed of the square root that `np.sqrt` computes (not modelled numerically, DESIGN 2.3). -/
structure SqrtLike (sqrt : Rat → Rat) : Prop where
  zero : sqrt 0 = 0
  nonneg : ∀ x, 0 ≤ sqrt x
  mono : ∀ x y, 0 ≤ x → x ≤ y → sqrt x ≤ sqrt y
  sq_mul : ∀ a b, 0 ≤ b → sqrt (a * a * b) = rabs a * sqrt b

/-! ### reference tables (hand-written; these are specification and are meant to be read) -/

/-- Value of one unit of each gas-constant unit string in J/(mol·K): exact definitional factors
(cal = 4.184 J, atm = 101325 Pa, torr = atm/760, bar = 10⁵ Pa, L = 10⁻³ m³) and, for the per-molecule units,
CODATA-2014 `N_A·e = 96485.33289 C/mol` and `E_h = 27.21138602 eV`. -/
def refUnitInSI : List (List Char × Rat) := [
  (['J', '/', 'm', 'o', 'l', '/', 'K'], 1),
  (['k', 'J', '/', 'm', 'o', 'l', '/', 'K'], 1000),
  (['L', ' ', 'k', 'P', 'a', '/', 'm', 'o', 'l', '/', 'K'], 1),
  (['c', 'm', '3', ' ', 'k', 'P', 'a', '/', 'm', 'o', 'l', '/', 'K'], 1/1000),
  (['m', '3', ' ', 'P', 'a', '/', 'm', 'o', 'l', '/', 'K'], 1),
  (['c', 'm', '3', ' ', 'M', 'P', 'a', '/', 'm', 'o', 'l', '/', 'K'], 1),
  (['m', '3', ' ', 'b', 'a', 'r', '/', 'm', 'o', 'l', '/', 'K'], 100000),
  (['L', ' ', 'b', 'a', 'r', '/', 'm', 'o', 'l', '/', 'K'], 100),
  (['L', ' ', 't', 'o', 'r', 'r', '/', 'm', 'o', 'l', '/', 'K'], 101325/760/1000),
  (['c', 'a', 'l', '/', 'm', 'o', 'l', '/', 'K'], 4184/1000),
  (['k', 'c', 'a', 'l', '/', 'm', 'o', 'l', '/', 'K'], 4184),
  (['L', ' ', 'a', 't', 'm', '/', 'm', 'o', 'l', '/', 'K'], 101325/1000),
  (['c', 'm', '3', ' ', 'a', 't', 'm', '/', 'm', 'o', 'l', '/', 'K'], 101325/1000000),
  (['e', 'V', '/', 'K'], 9648533289/100000),
  (['E', 'h', '/', 'K'], 2721138602/100000000 * (9648533289/100000)),
  (['H', 'a', '/', 'K'], 2721138602/100000000 * (9648533289/100000))]

/-- Standard entropy of the elements in their reference state at 298.15 K, per mole of atoms, in J/(mol·K)
(CODATA key values / NIST-JANAF: ½S°(H₂) = ½·130.680, B 5.90, C graphite 5.74, ½S°(N₂) = ½·191.609,
½S°(O₂) = ½·205.152, ½S°(F₂) = ½·202.791, Si 18.81, P white 41.09, S rhombic 32.054, ½S°(Cl₂) = ½·223.081,
½S°(Br₂,l) = ½·152.21, Ru 28.53, Pt 41.63): the elements the shipped schemes can decompose. -/
def refEntropy : List (Nat × Rat) := [
  (1, 65340/1000), (5, 590/100), (6, 574/100), (7, 958045/10000), (8, 102576/1000), (9, 1013955/10000),
  (14, 1881/100), (15, 4109/100), (16, 32054/1000), (17, 1115405/10000), (35, 76105/1000), (44, 2853/100), (78, 4163/100)]

/-- element symbols of `refEntropy` (for the agreement of the two key spaces of `S_elements`) -/
def refSymbols : List (List Char × Nat) := [
  (['H'], 1), (['B'], 5), (['C'], 6), (['N'], 7), (['O'], 8), (['F'], 9), (['S','i'], 14), (['P'], 15), (['S'], 16),
  (['C','l'], 17), (['B','r'], 35), (['R','u'], 44), (['P','t'], 78)]

/-- the energy units the documentation of the dimensional getters names -/
def docEnergyUnits : List (List Char) := [
  ['J','/','m','o','l'], ['k','J','/','m','o','l'], ['c','a','l','/','m','o','l'], ['k','c','a','l','/','m','o','l'], ['e','V']]

end PGA.Estimate
