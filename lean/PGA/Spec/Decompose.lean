import PGA.Model.Decompose
import PGA.Spec.Embeds
import PGA.Spec.SchemeGuards
import Batteries.Data.List.Basic
/-! # What a scheme declares for a molecule graph (C02, end to end)

`Declares S m inp`: `inp` is an input of the decomposition logic (`PGA.Scheme.Input`) in which

* the atoms are the atoms of `m` and the neighbour list of every atom lists its neighbours in `m`
  (in any order),
* every centre pattern / correction descriptor of the scheme `S` carries, under its names, a match
  list whose members are **exactly the embeddings** (`Spec.Embeds`) of its query in `m` — in any
  order, with any multiplicity,
* the remap table is the scheme's.

Nothing of the matcher, of RDKit's enumeration or of the reader's internals occurs here.
-/
namespace PGA.Spec
open PGA PGA.Scheme PGA.Decompose

structure Declares (S : SchemeDef) (m : Mol) (inp : Input) : Prop where
  n : inp.n = m.natoms
  nbrs : ∀ i, (inp.nbrs.getD i []).Perm (Decompose.neighbours m i)
  centres : List.Forall₂ (fun (c : CentreDef) (p : CentrePat) =>
      p.center = c.center ∧ p.periph = c.periph ∧ ∀ f, f ∈ p.ms ↔ Embeds c.q m f) S.centres inp.centres
  descs : List.Forall₂ (fun (d : DescDef) (p : DescPat) =>
      p.name = d.name ∧ ∀ f, f ∈ p.ms ↔ Embeds d.q m f) S.descs inp.descs
  remaps : inp.remaps = S.remaps

end PGA.Spec


namespace PGA.Spec
open PGA PGA.Decompose

/-- the number of centre entries of the scheme that have an embedding in `m` whose first (centre) atom is `i` -/
noncomputable def centreCount (S : SchemeDef) (m : Mol) (i : Nat) : Nat :=
  (S.centres.filter fun c => @decide (∃ f, Embeds c.q m f ∧ f.head? = some i) (Classical.propDecidable _)).length

end PGA.Spec
