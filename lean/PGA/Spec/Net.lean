import PGA.Model.Net
import Mathlib.Logic.Relation
/-! Specification vocabulary for C17, independent of the work-list algorithm: one rule application, reachability
from the seeds, closedness, "is the duplicate-free closure of the seeds". -/
namespace PGA.Net
variable {α : Type}

/-- `b` is obtained from `a` by one application of one of the rules (valence filter included in `Rule.run`) -/
def Step (rules : List (Rule α)) (a b : α) : Prop := ∃ r ∈ rules, b ∈ r.run a

/-- `b` is obtainable from `a` by repeatedly applying the rules (zero or more times) -/
def Reach (rules : List (Rule α)) : α → α → Prop := Relation.ReflTransGen (Step rules)

/-- the set of species is closed under the rules -/
def Closed (rules : List (Rule α)) (S : α → Prop) : Prop := ∀ a b, S a → Step rules a b → S b

/-- every rule is unimolecular (the property's quantifier) -/
def Unary (rules : List (Rule α)) : Prop := ∀ r ∈ rules, r.arity = 1

/-- `res` lists exactly the closure of `seeds` under `rules`, each species once -/
def IsClosureOf (rules : List (Rule α)) (seeds res : List α) : Prop :=
  (∀ x, x ∈ res ↔ ∃ s ∈ seeds, Reach rules s x) ∧ res.Nodup

/-- the closure is finite: some finite list contains the seeds and is closed under the rules -/
def FiniteClosure (rules : List (Rule α)) (seeds C : List α) : Prop :=
  (∀ s ∈ seeds, s ∈ C) ∧ Closed rules (· ∈ C)

end PGA.Net
