import PGA.Model.Query
import PGA.Model.RingAstBridge
/-! # Token-level rendering of a fragment and its layouts (vocabulary of C08-T3, layout part)

A RING fragment is written as a sequence of *tokens* — the grammar's own literal strings (some of
which contain a blank: `connected to`, `in ring of size`, `bond to`, `stereo double bond`,
`for double bond between`, `radical electrons`, `any atom`, `heavy atom`), identifiers (fragment name,
labels, element symbols with their suffix glued on) and constraint numbers (optional operator and one
digit, written as one token).  A *layout* puts a run of filler characters (the `filler` list of
`Parser.py`: blank, newline, tab) before the first token and after every token; between two tokens
the run must be non-empty unless one of them is a brace, a comma or follows `!`.  This is exactly
what `harness/lib_ringgen_c08.py` (`tokens`, `render`) writes; it is the specification side of
"layout and whitespace do not matter". -/
namespace PGA.Spec.Layout
open PGA

abbrev Tok := List Char

def tk (s : String) : Tok := s.toList

def atomTypeToks (t : RawAtomType) : List Tok :=
  (match t.pre with | some p => [tk p] | none => []) ++ [tk (t.sym ++ t.suf.getD "")]

def cnTok (c : RawCN) : Tok := tk (c.op.getD "" ++ toString c.n)

def boolToks : Option String → List Tok
  | some b => [tk b]
  | none => []

def consToks : RawCons → List Tok
  | .conn b cn tgt bond =>
    boolToks b ++ [tk "connected to"] ++ (match cn with | some c => [cnTok c] | none => []) ++
    (match tgt with
     | .atomType t => atomTypeToks t
     | .group g => [tk "group", tk g]) ++
    (match bond with | some w => [tk "with", tk w, tk "bond"] | none => [])
  | .ringSize b cn => boolToks b ++ [tk "in ring of size", cnTok cn]
  | .radical b cn => boolToks b ++ [tk "has", cnTok cn, tk "radical electrons"]
  | .nRing b cn => boolToks b ++ [tk "in", cnTok cn, tk "ring"]

/-- `{ c1 , c2 , … }` (nothing for an empty chain) -/
def chainToks : List RawCons → List Tok
  | [] => []
  | c :: cs => [tk "{"] ++ consToks c ++ (cs.flatMap fun d => tk "," :: consToks d) ++ [tk "}"]

def itemToks : RawItem → List Tok
  | .bonded ty l b to ch => atomTypeToks ty ++ [tk "labeled", tk l, tk b, tk "bond to", tk to] ++ chainToks ch
  | .ringBond l1 b l2 => [tk "ringbond", tk l1, tk b, tk "bond to", tk l2]
  | .stereo l1 bo k l2 l3 l4 =>
    [tk "stereo double bond", tk l1] ++ boolToks bo ++
    [tk k, tk "to", tk l2, tk "for double bond between", tk l3, tk "and", tk l4]

/-- the token sequence of a fragment -/
def tokens (f : Frag) : List Tok :=
  f.pre.map tk ++ [tk "fragment", tk f.name, tk "{"] ++
  atomTypeToks f.ty0 ++ [tk "labeled", tk f.label0] ++ chainToks f.chain0 ++
  f.items.flatMap itemToks ++ [tk "}"]

/-! ### lexical well-formedness of a typed fragment (every field is a token of its class) -/

def identLike (s : String) : Bool :=
  !s.isEmpty && s.toList.all fun c => PGA.Ring.identChar PGA.Gen.RingGrammar.enhanced c

def classSyms : List String := ["any atom", "$", "heteroatom", "&", "heavy atom", "X"]
def suffixes : List String := ["+", "-", ".", ":", "+.", "-.", "*", "?", ":."]
def atomPrefixes : List String := ["aromatic", "nonaromatic", "ringatom", "nonringatom", "allylic"]
def bondWords : List String := ["single", "double", "triple", "quadruple", "ring", "nonring", "aromatic", "any", "strong", "partial"]
def cmpWords : List String := [">", "=", "<", ">=", "<="]
def molPrefixWords : List String := ["positive", "negative", "neutral", "aromatic", "olefinic", "paraffinic", "cyclic", "linear"]

def optIn (l : List String) : Option String → Bool
  | none => true
  | some s => l.contains s

def atomTypeLex (t : RawAtomType) : Bool :=
  optIn atomPrefixes t.pre && (classSyms.contains t.sym || identLike t.sym) && optIn suffixes t.suf

def cnLex (c : RawCN) : Bool := optIn cmpWords c.op && decide (c.n < 10)

def consLex : RawCons → Bool
  | .conn b cn tgt bond =>
    optIn ["!"] b && (match cn with | some c => cnLex c | none => true) &&
    (match tgt with | .atomType t => atomTypeLex t | .group g => identLike g) && optIn bondWords bond
  | .ringSize b cn => optIn ["!"] b && cnLex cn
  | .radical b cn => optIn ["!"] b && cnLex cn
  | .nRing b cn => optIn ["!"] b && cnLex cn

def itemLex : RawItem → Bool
  | .bonded ty l b to ch => atomTypeLex ty && identLike l && bondWords.contains b && identLike to && ch.all consLex
  | .ringBond l1 b l2 => identLike l1 && bondWords.contains b && identLike l2
  | .stereo l1 bo k l2 l3 l4 =>
    identLike l1 && optIn ["!"] bo && ["cis", "trans", "notspecified"].contains k &&
    identLike l2 && identLike l3 && identLike l4

def lexOK (f : Frag) : Bool :=
  f.pre.all (molPrefixWords.contains ·) && identLike f.name && atomTypeLex f.ty0 && identLike f.label0 &&
  f.chain0.all consLex && f.items.all itemLex

def isFillerChar (c : Char) : Bool := decide ([c] ∈ PGA.Gen.RingGrammar.filler)

def punct (t : Tok) : Bool := t == ['{'] || t == ['}'] || t == [',']

/-- the gap between token `a` and the following token `b` may be empty -/
def mayGlue (a b : Tok) : Bool := punct b || punct a || a == ['!']

/-- a layout of `toks`: the run before the first token and the run after each token -/
structure Layout where
  lead : List Char
  gaps : List (List Char)

/-- `gaps` are valid for `toks`: one filler run per token, non-empty between two tokens that may not be glued -/
def gapsOK : List Tok → List (List Char) → Bool
  | [], [] => true
  | [_], [g] => g.all isFillerChar
  | a :: b :: ts, g :: gs => g.all isFillerChar && (!g.isEmpty || mayGlue a b) && gapsOK (b :: ts) gs
  | _, _ => false

def Layout.ok (toks : List Tok) (L : Layout) : Bool := L.lead.all isFillerChar && gapsOK toks L.gaps

def interleave : List Tok → List (List Char) → List Char
  | t :: ts, g :: gs => t ++ g ++ interleave ts gs
  | _, _ => []

/-- the text of the tokens in a layout -/
def render (toks : List Tok) (L : Layout) : List Char := L.lead ++ interleave toks L.gaps

/-- the tree the parser model (with the bridge) builds, when it accepts the text -/
def treeOf (s : List Char) : Option Ast := (parseText s).toOption

/-- the plain layout: one blank after every token -/
def plain (toks : List Tok) : Layout := ⟨[], toks.map fun _ => [' ']⟩

end PGA.Spec.Layout
