import PGA.Model.Mol
import PGA.Model.Query
/-! # What a RING fragment denotes: the embeddings of a query in a molecule graph

Written from the text of property C08, independently of how the implementation computes matches:
an embedding assigns distinct molecule atoms (hydrogens included) to the fragment's labelled atoms,
in declaration order, such that every atom's element class, charge/radical suffix and prefix hold,
every declared bond exists with the declared kind, every atom constraint holds (neighbour counts
with optional negation and comparison, ring size, ring count, radical count), the molecule-level
prefixes hold (and the stereo statements of the enhanced grammar hold).

The *reference tables* below say what each RING word means.  They are the specification and are
meant to be read.  Where the RING papers leave room, the tables follow the reading the package
documents in its comments and pins in its test-suite: `&` is N/O/P/S, `M` is `Z ≥ 20`, `allylic`
is "bears a double bond", `positive`/`negative` is a net charge of exactly ±1, a radical suffix
(`.`, `:`) leaves the charge free and a charge suffix (`+`, `-`) leaves the radical count free.
-/
namespace PGA.Spec

/-- Reference table: the five comparison operators. -/
def Cmp : CmpOp → Int → Int → Prop
  | .gt, a, b => b < a
  | .lt, a, b => a < b
  | .ge, a, b => b ≤ a
  | .le, a, b => a ≤ b
  | .eq, a, b => a = b

instance : Decidable (Cmp o a b) := by cases o <;> simp only [Cmp] <;> infer_instance

/-- Reference table: how the operators are written in RING text. -/
def opOfText : String → Option CmpOp
  | ">" => some .gt
  | "<" => some .lt
  | ">=" => some .ge
  | "<=" => some .le
  | "=" => some .eq
  | _ => none

/-- `x` compares to the constraint's number as its operator says -/
def CNHolds (c : CN) (x : Int) : Prop := Cmp c.op x c.n

instance : Decidable (CNHolds c x) := by unfold CNHolds; infer_instance

/-- with `!` the statement must fail, without it it must hold -/
def Negated (neg : Bool) (P : Prop) : Prop := if neg = true then ¬ P else P

instance [Decidable P] : Decidable (Negated neg P) := by unfold Negated; infer_instance

/-- Reference table: element classes. -/
def ClassHolds : ElemClass → Atom → Prop
  | .any, a => 1 ≤ a.Z
  | .hetero, a => a.Z = 7 ∨ a.Z = 8 ∨ a.Z = 15 ∨ a.Z = 16
  | .heavy, a => 2 ≤ a.Z
  | .metal, a => 20 ≤ a.Z
  | .elem z, a => a.Z = z
  | .aromElem z, a => a.Z = z ∧ a.aromatic = true

instance : Decidable (ClassHolds c a) := by cases c <;> simp only [ClassHolds] <;> infer_instance

/-- RDKit's default valence of an element (generated table) -/
def defaultValence (z : Nat) : Option Int :=
  (PGA.Gen.MolQuery.defaultValence.find? (·.1 == z)).map (·.2)

/-- `*` on an element symbol: one bond more than the element's default valence -/
def StarValence : ElemClass → Atom → Prop
  | .elem z, a =>
    match defaultValence z, a.valence with
    | some d, some v => (v : Int) = d + 1
    | _, _ => False
  | _, _ => True

instance : Decidable (StarValence c a) := by
  cases c <;> simp only [StarValence] <;> first | infer_instance | (split <;> infer_instance)

/-- Reference table: atom suffixes (formal charge and radical electrons). -/
def SuffixHolds (cls : ElemClass) : Suffix → Atom → Prop
  | .none, a => a.charge = 0 ∧ a.radicals = 0
  | .plus, a => a.charge = 1
  | .minus, a => a.charge = -1
  | .rad1, a => a.radicals = 1
  | .rad2, a => a.radicals = 2
  | .rad3, a => a.radicals = 3
  | .plusRad, a => a.charge = 1 ∧ a.radicals = 1
  | .minusRad, a => a.charge = -1 ∧ a.radicals = 1
  | .star, a => a.charge = 1 ∧ StarValence cls a
  | .free, _ => True

instance : Decidable (SuffixHolds c s a) := by cases s <;> simp only [SuffixHolds] <;> infer_instance

/-- the atom lies on one of the molecule's rings -/
def OnRing (m : Mol) (x : Nat) : Prop := ∃ r ∈ m.rings, x ∈ r

instance : Decidable (OnRing m x) := by unfold OnRing; infer_instance

/-- Reference table: atom prefixes. -/
def PrefixHolds (m : Mol) (x : Nat) (a : Atom) : APrefix → Prop
  | .aromatic => a.aromatic = true
  | .nonaromatic => a.aromatic = false
  | .ringatom => OnRing m x
  | .nonringatom => ¬ OnRing m x
  | .allylic => ∃ e ∈ m.bonds, e.touches x = true ∧ e.kind = .double

instance : Decidable (PrefixHolds m x a p) := by cases p <;> simp only [PrefixHolds] <;> infer_instance

/-- Reference table: bond words. -/
def BondHolds : BondSpec → Bond → Prop
  | .single, e => e.kind = .single
  | .double, e => e.kind = .double
  | .triple, e => e.kind = .triple
  | .quadruple, e => e.kind = .quadruple
  | .aromatic, e => e.kind = .aromatic
  | .any, _ => True
  | .ring, e => e.inRing = true
  | .nonring, e => e.inRing = false
  | .strong, e => e.kind = .double ∨ e.kind = .triple ∨ e.kind = .quadruple ∨ e.kind = .aromatic
  | .part, e => e.kind = .dative ∨ e.kind = .other ∨ e.kind = .zero

instance : Decidable (BondHolds s e) := by cases s <;> simp only [BondHolds] <;> infer_instance

/-- Reference table: how the bond words are written in RING text. -/
def bondOfText : String → Option BondSpec
  | "single" => some .single
  | "double" => some .double
  | "triple" => some .triple
  | "quadruple" => some .quadruple
  | "aromatic" => some .aromatic
  | "any" => some .any
  | "ring" => some .ring
  | "nonring" => some .nonring
  | "strong" => some .strong
  | "partial" => some .part
  | _ => none

/-- the atom at `y` is of the atom type `t` (prefix, element class, suffix) -/
def TypeHolds (m : Mol) (t : AtomType) (y : Nat) : Prop :=
  match m.atom? y with
  | some a => ClassHolds t.cls a ∧ SuffixHolds t.cls t.suf a ∧
      (match t.pre with
        | some p => PrefixHolds m y a p
        | none => True)
  | none => False

instance : Decidable (TypeHolds m t y) := by
  unfold TypeHolds; split
  · refine @instDecidableAnd _ _ _ (@instDecidableAnd _ _ _ ?_); split <;> infer_instance
  · infer_instance

/-- `x` and `y` are joined by a bond satisfying `P` -/
def Adjacent (m : Mol) (x y : Nat) (P : Bond → Prop) : Prop :=
  match m.bondBetween x y with
  | some e => P e
  | none => False

instance [DecidablePred P] : Decidable (Adjacent m x y P) := by unfold Adjacent; split <;> infer_instance

/-- the neighbours of `x` of atom type `t` joined to it by a bond of kind `bs` -/
def neighbours (m : Mol) (x : Nat) (t : AtomType) (bs : BondSpec) : List Nat :=
  (List.range m.natoms).filter fun y => decide (Adjacent m x y (BondHolds bs) ∧ TypeHolds m t y)

/-- the rings through `x` -/
def ringsThrough (m : Mol) (x : Nat) : List (List Nat) := m.rings.filter fun r => decide (x ∈ r)

/-- one item of an atom's constraint chain holds at atom `x` -/
def ConsHolds (m : Mol) (x : Nat) : ACons → Prop
  | .conn neg cn t bs => Negated neg (CNHolds cn (neighbours m x t bs).length)
  | .ringSize neg cn => Negated neg (∃ r ∈ m.rings, x ∈ r ∧ CNHolds cn r.length)
  | .radical neg cn =>
    match m.atom? x with
    | some a => Negated neg (CNHolds cn a.radicals)
    | none => False
  | .nRing neg cn => Negated neg (CNHolds cn (ringsThrough m x).length)

instance : Decidable (ConsHolds m x c) := by
  cases c <;> simp only [ConsHolds] <;> first | infer_instance | (split <;> infer_instance)

/-- everything the fragment says about one labelled atom holds at molecule atom `x` -/
def AtomHolds (m : Mol) (qa : QAtom) (x : Nat) : Prop :=
  TypeHolds m qa.ty x ∧ ∀ c ∈ qa.chain, ConsHolds m x c

instance : Decidable (AtomHolds m qa x) := by unfold AtomHolds; infer_instance

/-- the molecule has a carbon–carbon double bond -/
def HasCC (m : Mol) : Prop :=
  ∃ e ∈ m.bonds, e.kind = .double ∧ (∃ a b, m.atom? e.a = some a ∧ m.atom? e.b = some b ∧ a.Z = 6 ∧ b.Z = 6)

/-- Reference table: molecule-level prefixes. -/
def MolPrefixHolds (m : Mol) : MolPrefix → Prop
  | .positive => m.totalCharge = 1
  | .negative => m.totalCharge = -1
  | .neutral => m.totalCharge = 0
  | .aromatic => ∃ a ∈ m.atoms, a.aromatic = true
  | .olefinic => HasCC m
  | .paraffinic => ¬ HasCC m
  | .cyclic => m.rings ≠ []
  | .linear => m.rings = []

/-- the images of the declared atoms `i`, `j` are joined by a bond satisfying `P` -/
def BondAt (m : Mol) (f : List Nat) (i j : Nat) (P : Bond → Prop) : Prop :=
  ∃ x y e, f[i]? = some x ∧ f[j]? = some y ∧ m.bondBetween x y = some e ∧ P e

/-- are the substituents `x1` (on one end) and `x2` (on the other end) of the double bond `e` on
the same side?  RDKit records Z/E relative to two reference substituents (`stereoAtoms`, one per
end); replacing one of them by the other substituent of its end flips the relation. `none`: the
bond carries no Z/E mark. -/
def sameSide (e : Bond) (x1 x2 : Nat) : Option Bool :=
  let refs := (([x1, x2].eraseDups).filter (e.stereoAtoms.contains ·)).length
  match e.stereo with
  | .z => some (refs != 1)
  | .e => some (refs == 1)
  | _ => none

/-- Reference table: double-bond stereo words. -/
def StereoRel (e : Bond) (x1 x2 : Nat) : StereoKind → Prop
  | .cis => sameSide e x1 x2 = some true
  | .trans => sameSide e x1 x2 = some false
  | .notspecified => e.stereo = .none

/-- a `stereo double bond …` statement holds under the assignment `f` -/
def StereoHolds (m : Mol) (f : List Nat) (s : QStereo) : Prop :=
  ∃ x1 x2 x3 x4 e, f[s.i1]? = some x1 ∧ f[s.i2]? = some x2 ∧ f[s.i3]? = some x3 ∧ f[s.i4]? = some x4 ∧
    m.bondBetween x3 x4 = some e ∧ Negated s.neg (StereoRel e x1 x2 s.kind)

/-- **The denotation of a fragment**: `f` assigns molecule atoms to the declared atoms, in
declaration order, and everything the fragment says holds. -/
structure Embeds (q : Query) (m : Mol) (f : List Nat) : Prop where
  /-- one molecule atom per labelled atom -/
  length : f.length = q.atoms.length
  /-- distinct molecule atoms -/
  inj : f.Nodup
  /-- atoms of the molecule -/
  range : ∀ x ∈ f, x < m.natoms
  /-- element class, suffix, prefix and constraint chain of every labelled atom -/
  atoms : ∀ (i : Nat) (qa : QAtom) (x : Nat), q.atoms[i]? = some qa → f[i]? = some x → AtomHolds m qa x
  /-- every declared bond exists with the declared kind -/
  bonds : ∀ b ∈ q.bonds, BondAt m f b.i b.j (BondHolds b.spec)
  /-- every molecule-level prefix -/
  molecule : ∀ p ∈ q.molPre, MolPrefixHolds m p
  /-- every stereo statement -/
  stereo : ∀ s ∈ q.stereo, StereoHolds m f s

/-- Guard: the fragment does not use the `*` suffix (on a labelled atom or inside a
`connected to` constraint).  `MolQueryRead.ReadAtomSuffix` drops what `*` asks for (finding FM1). -/
def NoStar (q : Query) : Bool :=
  q.atoms.all fun a => a.ty.suf != .star && a.chain.all fun
    | .conn _ _ t _ => t.suf != .star
    | _ => true

end PGA.Spec
