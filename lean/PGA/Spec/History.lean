import PGA.Model.History
/-! Specification vocabulary for C15: the *declared inputs* of an operation (which files, merged in which order;
which molecule; which descriptor mapping; which temperature), the output those inputs determine, the invariant of
reachable states, and "the last molecule decomposed with a library". None of this mentions the history. -/
namespace PGA.History
variable {Scheme Data Val : Type}

/-- handles (positions of new objects) are not values: erase them before comparing outputs -/
def Out.erase : Out Data Val → Out Data Val
  | .loaded _ d => .loaded 0 d
  | .estimated _ => .estimated 0
  | o => o

section
variable (W : World Scheme Data Val) (ps sc : Nat)

/-- the scheme of builtin library `L` as the files say -/
def schemeOf (L : LibName) : Option Scheme :=
  match W.loadF ps sc W.env L with
  | .ok (s, _) => some s
  | .error _ => none

/-- the data a provenance denotes: what the files say, merged in the recorded order -/
def denote : Prov → Option Data
  | .loaded L =>
    match W.loadF ps sc W.env L with
    | .ok (_, d) => some d
    | .error _ => none
  | .merged a b ow =>
    match denote a, denote b with
    | some da, some db =>
      -- a provenance `merged` is only ever recorded for a merge that went through
      match W.mergeF da db ow with
      | .ok d => some d
      | .error _ => none
    | _, _ => none

/-- the declared inputs of an operation -/
inductive Decl where
  | load (L : LibName)
  | decompose (origin : LibName) (m : Mol)
  | estimate (lib : Prov) (d : Descr)
  | evaluate (snap now : Prov) (d : Descr) (T : Temp) (q : Qty) (elem : Option (Option Mol))
  | merge (dst src : Prov) (overwrite : Bool)
  deriving DecidableEq, Repr

/-- the output the declared inputs determine (handles erased); `none` when a provenance names files that cannot be read -/
def outOf : Decl → Option (Out Data Val)
  | .load L =>
    match W.loadF ps sc W.env L with
    | .ok (_, d) => some (.loaded 0 d)
    | .error c => some (.failed (.world c))
  | .decompose L m => (schemeOf W ps sc L).map fun sch => .descr (W.decompF sch m)
  | .estimate p d =>
    (denote W ps sc p).map fun data =>
      match W.estF ps data d with
      | some c => .failed (.world c)
      | none => .estimated 0
  | .evaluate snap now d T q el =>
    match denote W ps sc snap, denote W ps sc now with
    | some a, some b => some (.value (W.evalF a b d T q el))
    | _, _ => none
  | .merge p1 p2 ow =>
    match denote W ps sc p1, denote W ps sc p2 with
    | some a, some b =>
      some (match W.mergeF a b ow with
        | .ok d => .merged d none
        | .error c => .merged a (some c))       -- refused: the destination's data as they were, and the error class
    | _, _ => none
end

/-- the declared inputs of `op` in state `s` (read off the ghost fields); `none` for a dangling reference -/
def declared (s : State Scheme Data) : Op → Option Decl
  | .load L _ => some (.load L)
  | .decompose i m => (s.libs[i]?).map fun l => .decompose l.origin m
  | .estimate i d _ => (s.libs[i]?).map fun l => .estimate l.prov d
  | .evaluate e T q el =>
    match s.ests[e]? with
    | none => none
    | some est => (s.libs[est.lib]?).map fun l =>
        .evaluate est.snapProv l.prov est.descr T q (if el then some est.name else none)
  | .merge i j ow =>
    match s.libs[i]?, s.libs[j]? with
    | some a, some b => some (.merge a.prov b.prov ow)
    | _, _ => none

/-- F1 guard: `Estimate` does not trip over the missing attribute -/
def f1Safe (W : World Scheme Data Val) (s : State Scheme Data) : Op → Prop
  | .estimate i _ _ => W.f1Fixed = true ∨ ∃ l, s.libs[i]? = some l ∧ l.name.isSome = true
  | _ => True

/-- invariant of the states reachable from `init ps sc` -/
structure Inv (W : World Scheme Data Val) (ps sc : Nat) (s : State Scheme Data) : Prop where
  datadir : s.datadir = none ∨ s.datadir = some W.env
  propsets : s.propsets = ps
  schemas : s.schemas = sc
  libs : ∀ l ∈ s.libs, schemeOf W ps sc l.origin = some l.scheme ∧ denote W ps sc l.prov = some l.data
  ests : ∀ e ∈ s.ests, e.lib < s.libs.length ∧ denote W ps sc e.snapProv = some e.snap

/-- `lib.name` of library `i` (`none`: no such library, or never set) -/
def nameOf (s : State Scheme Data) (i : Nat) : Option Mol := (s.libs[i]?).bind (·.name)

/-- the last molecule a history decomposes with library `i` -/
def lastDecomp : List Op → Nat → Option Mol
  | [], _ => none
  | op :: rest, i =>
    match lastDecomp rest i with
    | some m => some m
    | none => (match op with
      | .decompose j m => if j = i then some m else none
      | _ => none)

/-- the history merges something into library `i` -/
def mergesInto (h : List Op) (i : Nat) : Prop := ∃ src ow, Op.merge i src ow ∈ h

end PGA.History
