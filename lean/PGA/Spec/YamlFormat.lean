import PGA.Model.YamlFormat
import PGA.Spec.Yaml
import PGA.Spec.Merge
/-!
# Specification vocabulary for C18

`readBack` says, independently of formatter and loader, what a correlation becomes when each of its numbers is written
with six significant digits in the chosen unit and read again: `rnd (x / f) · f` for a temperature written in a unit of
SI factor `f`, `rnd (R·x / f) · f / R` for an entropy or heat capacity, `rnd (R·T_ref·h / f) · f / (R·T_ref')` for the
reference enthalpy (the reference temperature it is divided by on reading is the *written* one).  In the
non-dimensional form reference values and heat capacities are untouched.  The table comes back in ascending order of
temperature.
-/
namespace PGA.YamlFormat
open PGA.Yaml PGA.Merge

/-- the output units with their SI factors resolved: (unit string, factor) -/
structure RUnits where
  T : String × Rat
  H : Option (String × Rat)
  S : Option (String × Rat)
  Cp : Option (String × Rat)
  deriving DecidableEq, Repr

def RUnits.toFmt (ru : RUnits) : FmtUnits := ⟨ru.H.map Prod.fst, ru.S.map Prod.fst, ru.Cp.map Prod.fst, ru.T.1⟩

/-- the unit strings are known to the unit table, with the stated non-zero factors and the right dimensions -/
structure RUnits.OK (tab : UnitTable) (ru : RUnits) : Prop where
  t : tab.lookup ru.T.1 = some ⟨ru.T.2, Dim.temperature⟩ ∧ ru.T.2 ≠ 0
  h : ∀ us f, ru.H = some (us, f) → tab.lookup us = some ⟨f, Dim.molarEnergy⟩ ∧ f ≠ 0
  s : ∀ us f, ru.S = some (us, f) → tab.lookup us = some ⟨f, Dim.molarEntropy⟩ ∧ f ≠ 0
  cp : ∀ us f, ru.Cp = some (us, f) → tab.lookup us = some ⟨f, Dim.molarEntropy⟩ ∧ f ≠ 0

/-- a temperature written in a unit of factor `f` and read back -/
def rT (rnd : Rat → Rat) (f : Rat) (T : Rat) : Rat := rnd (T / f) * f

/-- an entropy-like value (`S/R`, `Cp/R`) written in a unit of factor `f` and read back; `none`: non-dimensional -/
def rS (rnd : Rat → Rat) (r : Rat) (fu : Option (String × Rat)) (v : Rat) : Rat :=
  match fu with
  | none => v
  | some (_, f) => rnd (r * v / f) * f / r

/-- the reference enthalpy written in a unit of factor `f` and read back against the written reference temperature -/
def rH (rnd : Rat → Rat) (r Tref Tref' : Rat) (fu : Option (String × Rat)) (h : Rat) : Rat :=
  match fu with
  | none => h
  | some (_, f) => rnd (r * Tref * h / f) * f / (r * Tref')

/-- the points of the table as they are written and read: ascending temperature -/
def readBackPts (rnd : Rat → Rat) (r : Rat) (ru : RUnits) (cp : List (Rat × Rat)) : List Rat → List (Rat × Rat)
  | [] => []
  | T :: rest => (rT rnd ru.T.2 T, rS rnd r ru.Cp ((dlookup T cp).getD 0)) :: readBackPts rnd r ru cp rest

/-- what a correlation becomes when written with the units `ru` and read again -/
def readBack (rnd : Rat → Rat) (r : Rat) (ru : RUnits) (c : Corr) : Corr :=
  let Tref' := rT rnd ru.T.2 c.Tref
  { H := c.H.map (rH rnd r c.Tref Tref' ru.H)
    S := c.S.map (rS rnd r ru.S)
    cp := dictOfList (readBackPts rnd r ru c.cp (sortedKeys c.cp))
    Tref := Tref'
    range := c.range.map fun lh => (rT rnd ru.T.2 lh.1, rT rnd ru.T.2 lh.2) }

/-- the six-significant-digit property of `'%g'` (assumption A-float): relative error at most 5·10⁻⁶ -/
def Round6 (rnd : Rat → Rat) : Prop := ∀ x, absR (rnd x - x) ≤ (5 / 1000000 : Rat) * absR x

/-- the keys `yaml_format` must emit, in the order of its lines -/
def expectedKeys (c : Corr) (u : FmtUnits) : List String :=
  ["T_ref"] ++
  (match c.H with | none => [] | some _ => [if u.H.isSome then "H_ref" else "ND_H_ref"]) ++
  (match c.S with | none => [] | some _ => [if u.S.isSome then "S_ref" else "ND_S_ref"]) ++
  (if c.cp.isEmpty then [] else [if u.Cp.isSome then "Cp_data" else "ND_Cp_data"]) ++
  (match c.range with | none => [] | some _ => ["range"])

end PGA.YamlFormat
