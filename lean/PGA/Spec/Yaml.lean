import PGA.Model.Yaml
/-!
# Specification vocabulary for C12 (and the loading half of C18)

What it means for a value written in a library file to *denote* a physical quantity, independently of the loaders:
a bare number denotes `number × (SI factor of the file's default unit for its kind)`, a string `"<number> <unit>"` denotes
`number × (SI factor of that unit)`, in both cases provided the unit has the dimension of the kind.  An entry denotes the
non-dimensional correlation obtained by dividing the denoted quantities by `R` (and by `R·T_ref` for the enthalpy).
-/
namespace PGA.Yaml

/-- the dimension a value of each kind must have -/
def Kind.dim : Kind → Dim
  | .temperature => Dim.temperature
  | .molarEnthalpy => Dim.molarEnergy
  | .molarEntropy => Dim.molarEntropy
  | .molarHeatCapacity => Dim.molarEntropy

/-- how one dimensional value is written -/
inductive Pres
  | bare (v : Rat)                    -- a number: its unit is the file's default unit for the kind
  | explicit (v : Rat) (u : String)   -- the string "<v> <u>"
  deriving DecidableEq, Repr

def Pres.node : Pres → YVal
  | .bare v => .num v
  | .explicit v u => .qstr v u

/-- in a file whose units block is `units`, the presentation `p` of a value of kind `k` denotes the physical quantity
of SI magnitude `x` (with the dimension of the kind) -/
def Denotes (tab : UnitTable) (units : List (Kind × String)) (k : Kind) (p : Pres) (x : Rat) : Prop :=
  match p with
  | .bare v => ∃ us u, units.lookup k = some us ∧ tab.lookup us = some u ∧ u.dim = k.dim ∧ x = v * u.factor
  | .explicit v us => ∃ u, tab.lookup us = some u ∧ u.dim = k.dim ∧ x = v * u.factor

/-- a reference value / heat capacity: dimensional (keys `H_ref`, `S_ref`, `Cp_data`) or already divided by `R`
(and `T_ref`) (keys `ND_H_ref`, `ND_S_ref`, `ND_Cp_data`) -/
inductive RefPres
  | dim (p : Pres)
  | nd (x : Rat)
  deriving DecidableEq, Repr

/-- the table: all rows dimensional (`Cp_data`) or all non-dimensional (`ND_Cp_data`); first component the temperature -/
inductive CpPres
  | dim (rows : List (Pres × Pres))
  | nd (rows : List (Pres × Rat))
  deriving DecidableEq, Repr

/-- how one `thermochem:` entry is written -/
structure EntryPres where
  Tref : Option Pres          -- `none`: key omitted, the schema default `298.15 K` applies
  H : Option RefPres
  S : Option RefPres
  cp : Option CpPres
  range : Option (Pres × Pres)
  deriving DecidableEq, Repr

def CpPres.node : CpPres → YVal
  | .dim rows => .seq (rows.map fun r => .seq [r.1.node, r.2.node])
  | .nd rows => .seq (rows.map fun r => .seq [r.1.node, .num r.2])

/-- the YAML mapping `data` is the entry `e` (whatever the order of its keys) -/
structure Renders (data : List (String × YVal)) (e : EntryPres) : Prop where
  tref : data.lookup "T_ref" = e.Tref.map Pres.node
  h_dim : data.lookup "H_ref" = match e.H with | some (.dim p) => some p.node | _ => none
  h_nd : data.lookup "ND_H_ref" = match e.H with | some (.nd x) => some (.num x) | _ => none
  s_dim : data.lookup "S_ref" = match e.S with | some (.dim p) => some p.node | _ => none
  s_nd : data.lookup "ND_S_ref" = match e.S with | some (.nd x) => some (.num x) | _ => none
  cp_dim : data.lookup "Cp_data" = match e.cp with | some (.dim rows) => some (CpPres.dim rows).node | _ => none
  cp_nd : data.lookup "ND_Cp_data" = match e.cp with | some (.nd rows) => some (CpPres.nd rows).node | _ => none
  range : data.lookup "range" = e.range.map fun r => .seq [r.1.node, r.2.node]

/-- the rows of a dimensional table denote the points `pts` (temperature in K, `Cp/R`) -/
def DimRowsDenote (tab : UnitTable) (units : List (Kind × String)) (r : Rat) :
    List (Pres × Pres) → List (Rat × Rat) → Prop
  | [], [] => True
  | (pT, pc) :: rows, (T, v) :: pts =>
    Denotes tab units .temperature pT T ∧ (∃ c, Denotes tab units .molarHeatCapacity pc c ∧ v = c / r) ∧
      DimRowsDenote tab units r rows pts
  | _, _ => False

def NdRowsDenote (tab : UnitTable) (units : List (Kind × String)) : List (Pres × Rat) → List (Rat × Rat) → Prop
  | [], [] => True
  | (pT, x) :: rows, (T, v) :: pts => Denotes tab units .temperature pT T ∧ v = x ∧ NdRowsDenote tab units rows pts
  | _, _ => False

/-- the entry `e`, in a file with units block `units`, denotes the non-dimensional correlation `L`
(`r` = magnitude of the gas constant in SI) -/
structure EntryDenotes (tab : UnitTable) (units : List (Kind × String)) (r : Rat) (e : EntryPres) (L : CorrOf Rat) : Prop where
  tref : match e.Tref with
    | none => L.Tref = 29815 / 100
    | some p => Denotes tab units .temperature p L.Tref
  h : match e.H with
    | none => L.H = none
    | some (.nd x) => L.H = some x
    | some (.dim p) => ∃ h, Denotes tab units .molarEnthalpy p h ∧ L.H = some (h / (r * L.Tref))
  s : match e.S with
    | none => L.S = none
    | some (.nd x) => L.S = some x
    | some (.dim p) => ∃ s, Denotes tab units .molarEntropy p s ∧ L.S = some (s / r)
  cp : match e.cp with
    | none => L.cp = []
    | some (.dim rows) => ∃ pts, DimRowsDenote tab units r rows pts ∧ L.cp = dictOfList pts
    | some (.nd rows) => ∃ pts, NdRowsDenote tab units rows pts ∧ L.cp = dictOfList pts
  range : match e.range with
    | none => L.range = none
    | some (a, b) => ∃ lo hi, Denotes tab units .temperature a lo ∧ Denotes tab units .temperature b hi ∧ L.range = some (lo, hi)

/-- a correlation of plain numbers as the loader returns it -/
def embed (L : CorrOf Rat) : Loaded :=
  ⟨L.H.map QV.num, L.S.map QV.num, L.cp.map fun kv => (kv.1, QV.num kv.2), L.Tref, L.range⟩

/-- every value of a loaded correlation is a plain number -/
def Loaded.AllPlain (c : Loaded) : Prop :=
  (∀ v, c.H = some v → v.isNum = true) ∧ (∀ v, c.S = some v → v.isNum = true) ∧ ∀ kv ∈ c.cp, kv.2.isNum = true

/-- the environment the theorems need: `R` is a quantity of dimension J/(mol K) with non-zero magnitude `r`, `K` is the
kelvin, and the unit string of the schema default, `"K"`, is in the table (table obligations `C12_tab_*`) -/
structure EnvOK (tab : UnitTable) (R : QV) (K : UnitQ) (r : Rat) : Prop where
  R_eq : R = .qty r Dim.molarEntropy
  r_ne : r ≠ 0
  K_eq : K = ⟨1, Dim.temperature⟩
  K_tab : tab.lookup "K" = some ⟨1, Dim.temperature⟩

end PGA.Yaml
