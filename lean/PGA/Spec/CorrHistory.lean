import PGA.Model.CorrHistory
import PGA.Spec.Merge
/-!
# Vocabulary for the histories of a correlation object

* `SameValues a b` — every getter gives the same outcome (value or exception class, warning flag) at every temperature.
* `Fresh S o` — **observational**: the constructor accepts the data `o` holds, and the object it builds holds the same data
  and answers every getter at every temperature exactly as `o` does.  ("The object is what the constructor builds from its
  data.")  This is deliberately not "`o` *equals* the constructed object": `del_ND_H_ref()` does not rebuild `_correlation`,
  which goes on carrying the withdrawn reference value — but is never asked for it.
* `FreshS S o` — **structural** (the inductive invariant): the range passed the base-class assertion, the table is a
  dictionary (distinct temperatures), `_correlation` exists exactly when there is a table, and it was built by
  `ThermochemRawData` from the held table, `T_ref` and range with the interpolant of that table and with reference values that
  agree with the held ones *wherever one is held*.
* `SameData a b` — same held data, the dictionary order of the table being unobservable (`Merge.Same`).
-/
namespace PGA.CorrHistory
open PGA.Thermo PGA.Yaml

def SameValues (a b : Incomplete) : Prop := ∀ (q : Getter) (T : Rat), getter q a T = getter q b T

def Fresh (S : Spl) (o : Incomplete) : Prop :=
  ∃ o', construct S (held o) = .ok o' ∧ held o' = held o ∧ SameValues o o'

structure FreshS (S : Spl) (o : Incomplete) : Prop where
  base : baseInitOk o.range = true
  nodup : (Merge.keys o.cp).Nodup
  nocp : o.cp = [] → o.corr = none
  hascp : o.cp ≠ [] → ∃ h s d, RawData.mk (S (sortPts o.cp)) h s (sortPts o.cp) o.Tref o.range = .ok d ∧ o.corr = some d ∧
    (∀ x, o.Href = some x → h = x) ∧ (∀ x, o.Sref = some x → s = x)

def SameData (a b : Incomplete) : Prop := Merge.Same (held a) (held b)

/-- the calls that only read -/
def Op.isEval : Op → Bool
  | .eval _ _ => true
  | _ => false

/-- what a call did was to raise -/
def Res.isRaised : Res → Bool
  | .raised _ => true
  | _ => false

end PGA.CorrHistory
