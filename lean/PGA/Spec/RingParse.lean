import PGA.Model.RingParse
/-!
# C09 vocabulary: positions inside a text, and the static well-rankedness of a grammar table

Independent of the interpreter's algorithm:

* `lineOf p` / `colOf p` — the human-readable line and column *after* the prefix `p` of a text;
  `Inside s l c` — `(l, c)` is the position of some index `i ≤ |s|` (end position included).
* `WellRanked G nt` — a *static* property of a grammar table with a rank table and a nullable
  table as witnesses: every referenced rule is defined, every literal / filler token is non-empty,
  every `Either`/`Literals` has an alternative, no loop body can succeed on the empty string, and
  a rule that can be entered before any character has been consumed has a strictly smaller rank
  than the rule it is entered from.  `checkGrammar` is its executable form (used by `decide +kernel`
  over the regenerated tables).
-/
namespace PGA.Ring

def lineOf (p : List Char) : Nat := 1 + p.count '\n'
def colOf (p : List Char) : Nat := 1 + (p.reverse.takeWhile (· ≠ '\n')).length

/-- `(l, c)` is the line/column of an index of `s` (the end of the text included) -/
def Inside (s : List Char) (l c : Nat) : Prop :=
  ∃ i, i ≤ s.length ∧ l = lineOf (s.take i) ∧ c = colOf (s.take i)

/-- can `e` succeed without consuming a character? (`nt`: the same question for each rule) -/
def nullE (nt : List Bool) : Expr → Bool
  | .eos => true
  | .digit n => n == 0
  | .number => false
  | .string => false
  | .lit tok _ => tok.isEmpty
  | .filler tok _ => tok.isEmpty
  | .opt _ => true
  | .star _ => true
  | .allNil => true
  | .allCons a r => nullE nt a && nullE nt r
  | .anyNil => false
  | .anyCons a r => nullE nt a || nullE nt r
  | .literals toks _ => toks.any (·.isEmpty)
  | .ref n => (nt[n]?).getD true

/-- local well-formedness. `tail = true`: `e` is the remainder of an `Either`'s alternative list
(may be empty: an earlier alternative has already failed, so `current_error` is set). -/
def wfE (G : Grammar) (nt : List Bool) : Bool → Expr → Bool
  | t, .anyNil => t
  | _, .anyCons a r => wfE G nt false a && wfE G nt true r
  | true, _ => false
  | false, .eos => true
  | false, .digit n => decide (1 ≤ n) && decide (n ≤ PGA.Gen.Chars.intMaxStrDigits)
  | false, .number => true
  | false, .string => true
  | false, .lit tok _ => !tok.isEmpty
  | false, .filler tok _ => !tok.isEmpty
  | false, .opt a => wfE G nt false a
  | false, .star a => wfE G nt false a && !nullE nt a
  | false, .allNil => true
  | false, .allCons a r => wfE G nt false a && wfE G nt false r
  | false, .literals toks _ => !toks.isEmpty && toks.all (fun t => !t.isEmpty)
  | false, .ref n =>
    (match G.rules[n]? with | some (some _) => true | _ => false) &&
    (match G.rank[n]? with | some r => decide (r < G.top) | none => false)

/-- every rule that `e` can enter before consuming a character has rank `< bd` -/
def leftOK (G : Grammar) (nt : List Bool) : Expr → Nat → Bool
  | .opt a, bd => leftOK G nt a bd
  | .star a, bd => leftOK G nt a bd
  | .allCons a r, bd => leftOK G nt a bd && (if nullE nt a then leftOK G nt r bd else true)
  | .anyCons a r, bd => leftOK G nt a bd && leftOK G nt r bd
  | .ref n, bd => match G.rank[n]? with | some r => decide (r < bd) | none => false
  | _, _ => true

structure WellRanked (G : Grammar) (nt : List Bool) : Prop where
  filler : [] ∉ G.filler
  root : ∃ b, G.rules[G.root]? = some (some b)
  wf : ∀ (n : Nat) body, G.rules[n]? = some (some body) → wfE G nt false body = true
  left : ∀ (n : Nat) body r, G.rules[n]? = some (some body) → G.rank[n]? = some r → leftOK G nt body r = true
  nul : ∀ (n : Nat) body, G.rules[n]? = some (some body) → nullE nt body = true → nt[n]? = some true
  ranked : ∀ (n : Nat) body, G.rules[n]? = some (some body) → ∃ r, G.rank[n]? = some r ∧ r < G.top

/-- executable form of `WellRanked` -/
def checkRule (G : Grammar) (nt : List Bool) (n : Nat) : Bool :=
  match G.rules[n]? with
  | some (some body) =>
    (match G.rank[n]? with
     | some r => decide (r < G.top) && leftOK G nt body r
     | none => false) &&
    wfE G nt false body && (!nullE nt body || nt[n]? == some true)
  | _ => true

def checkGrammar (G : Grammar) (nt : List Bool) : Bool :=
  !(G.filler.contains []) &&
  (match G.rules[G.root]? with | some (some _) => true | _ => false) &&
  (List.range G.rules.length).all (checkRule G nt)

/-- every rule name referenced anywhere in `e` is defined in `G` -/
def refsDefined (G : Grammar) : Expr → Bool
  | .opt a => refsDefined G a
  | .star a => refsDefined G a
  | .allCons a r => refsDefined G a && refsDefined G r
  | .anyCons a r => refsDefined G a && refsDefined G r
  | .ref n => match G.rules[n]? with | some (some _) => true | _ => false
  | _ => true

def allRefsDefined (G : Grammar) : Bool :=
  G.rules.all fun r => match r with | some b => refsDefined G b | none => true

/-- every `Literal`, `Filler` and `Literals` token is a non-empty string; every `Literals` has an alternative -/
def tokensNonEmpty : Expr → Bool
  | .lit tok _ => !tok.isEmpty
  | .filler tok _ => !tok.isEmpty
  | .literals toks _ => !toks.isEmpty && toks.all (fun t => !t.isEmpty)
  | .opt a => tokensNonEmpty a
  | .star a => tokensNonEmpty a
  | .allCons a r => tokensNonEmpty a && tokensNonEmpty r
  | .anyCons a r => tokensNonEmpty a && tokensNonEmpty r
  | _ => true

def allTokensNonEmpty (G : Grammar) : Bool :=
  (G.filler.all fun f => !f.isEmpty) &&
  G.rules.all fun r => match r with | some b => tokensNonEmpty b | none => true

/-- position invariant of a stream state with respect to the whole text `s` -/
def Inv (s : List Char) (st : St) : Prop :=
  st.idx ≤ s.length ∧ st.rest = s.drop st.idx ∧ st.line = lineOf (s.take st.idx) ∧ st.col = colOf (s.take st.idx)

def ErrInside (s : List Char) (e : Err) : Prop := Inside s e.line e.col

def CurInside (s : List Char) : Option Err → Prop
  | none => True
  | some e => ErrInside s e

end PGA.Ring
