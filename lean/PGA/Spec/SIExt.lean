import PGA.Spec.SI
/-!
# The SI reference, extended by the units the package defines beyond it (specification for C10 — meant to be read)

`PGA/Spec/SI.lean` gives a meaning to 38 unit names.  A maintainer may add a unit the reference does not
know (`yd`, `mi`, `kWh`).  Such a unit has no independent reference value: **its meaning is its definition**,
the string (or, for a base unit, the multiple of a primitive unit) it is registered with in `builtin.py`,
read over the units that had a meaning before it.  This file says, without reference to the package's own
evaluation of that string at import time, which new units are *acceptable* and what they mean:

* the live definitions are visited in the order of `builtin.py`; a name the reference knows is skipped (the
  reference gives its meaning; the table obligation T1 compares the package's value with it);
* a new name `n` is accepted over the table `refs` accepted so far (the whole reference, then the new units
  before it) when
  0. it is a word of the unit grammar (`[a-zA-Z]+`; a name with a digit in it can never be written);
  1. **none of its 21 spellings** — `n` itself and `p ++ n` for each SI prefix `p` — **has a meaning over
     `refs`** (`firstTaken`): otherwise `n` would take over a spelling that is already a unit or a prefixed
     unit (`Eh` = exa-hour, `min` ≠ milli-inch), or one of its prefixed forms would be hidden by, or hide,
     an existing one (`dam` = deca-metre vs deci-`am`);
  2. its definition evaluates over `refs` (the C10 evaluator: scanner, parser, `eval_subtree`, three-step
     lookup) to an exact positive magnitude with integer exponents;
  and it then means that value, with the relative tolerance its definition inherits from the reference units
  it mentions (`tolTree`: 0 unless it is defined through a unit tied to a measured constant).

Every unit accepted this way leaves the meaning of every older spelling unchanged — this is a theorem
(`PGA/Proofs/UnitsExt.lean`: `lookup_extend`, `evalTree_extend`), not a table check.
-/
namespace PGA.SI
open PGA.Units

/-- the unit database a reference table describes: each unit with its exact reference value, the twenty SI
prefixes, the documented snapping threshold (same shape as `PGA.Drv.C10.refCfg` / `PGA.Yaml.refCfg`) -/
def cfgOf (refs : List Ref) : Cfg :=
  { thr := 1 / 10 ^ 7,
    prefixes := prefixes.map fun pk => (pk.1, (10 : Rat) ^ pk.2),
    db := refs.map fun r => (r.name, ⟨.exact r.value, r.dim⟩) }

def findIn (refs : List Ref) (n : Name) : Option Ref := refs.find? (fun r => r.name == n)

/-- how a unit is registered in `builtin.py` -/
inductive Defn
  | base (mult : Rat) (prim : Name)   -- `Quantity(mult, FundamentalUnits.new(prim))`
  | text (s : List Char)              -- `eval_qty(s)`
  deriving DecidableEq, Repr

/-- the definitions of `builtin.py`, in the order they are registered -/
def liveDefs : List (Name × Defn) :=
  PGA.Gen.Units.baseUnits.map (fun x => (x.1, Defn.base x.2.1.toRat x.2.2)) ++
  PGA.Gen.Units.derivedUnits.map (fun x => (x.1, Defn.text x.2)) ++
  PGA.Gen.Units.otherUnits.map (fun x => (x.1, Defn.text x.2))

/-- relative tolerance of the spelling `s` (resolved like `lookup`: the name, a one-letter prefix, `da`) -/
def tolName (refs : List Ref) (s : Name) : Rat :=
  match findIn refs s with
  | some r => r.tol
  | none =>
    match findIn refs (s.drop 1), (cfgOf refs).prefixes.find (s.take 1) with
    | some r, some _ => r.tol
    | _, _ =>
      match findIn refs (s.drop 2), (cfgOf refs).prefixes.find (s.take 2) with
      | some r, some _ => r.tol
      | _, _ => 0

/-- relative tolerance a definition inherits from the units it mentions (first order: tolerances of factors add,
a power multiplies) -/
def tolTree (refs : List Ref) : Tree → Rat
  | .num _ => 0
  | .name s => tolName refs s
  | .mul a b => tolTree refs a + tolTree refs b
  | .div a b => tolTree refs a + tolTree refs b
  | .pow a x => absR x * tolTree refs a

/-- the 21 spellings of a unit name: bare and with each SI prefix -/
def ownSpellings (n : Name) : List Name := n :: prefixes.map (·.1 ++ n)

def hasMeaning (refs : List Ref) (s : Name) : Bool :=
  match lookup (cfgOf refs) s with
  | .ok _ => true
  | .error _ => false

/-- the first spelling of `n` that already has a meaning over `refs` -/
def firstTaken (refs : List Ref) (n : Name) : Option Name := (ownSpellings n).find? (hasMeaning refs)

/-- value and inherited tolerance of a definition over `refs` -/
def defValue (refs : List Ref) : Defn → Res (Val × Rat)
  | .base m p =>
    match Dim.ofPrim p with
    | none => .error (.internal .keyError)
    | some d => .ok (⟨.exact m, d⟩, 0)
  | .text s =>
    match parseTokens (lex s) with
    | .error e => .error e
    | .ok t =>
      match evalTree (cfgOf refs) t with
      | .error e => .error e
      | .ok v => .ok (v, tolTree refs t)

inductive Verdict
  | accepted (r : Ref)            -- new, consistent: it means `r`
  | ambiguous (spelling : Name)   -- this spelling of the new unit already has a meaning
  | badDefinition (e : Err)       -- the definition does not evaluate (malformed, unknown or later name, zero divisor)
  | unsupported                   -- inexact (irrational power), non-positive magnitude, or non-integer exponent
  | notAWord                      -- the name is not a word of the unit grammar (`[a-zA-Z]+`): no text denotes it
  deriving Repr

def Verdict.isAccepted : Verdict → Bool
  | .accepted _ => true
  | _ => false

/-- a name the scanner reads as one word token -/
def isWord (n : Name) : Bool := n != [] && n.all isAsciiAlpha

def judgeWord (refs : List Ref) (n : Name) (df : Defn) : Verdict :=
  match firstTaken refs n with
  | some s => .ambiguous s
  | none =>
    match defValue refs df with
    | .error e => .badDefinition e
    | .ok (⟨.exact q, d⟩, tol) =>
      if 0 < q ∧ d.toList.all isInt = true then .accepted ⟨n, q, d, tol⟩ else .unsupported
    | .ok (⟨.inexact _, _⟩, _) => .unsupported

def judge (refs : List Ref) (n : Name) (df : Defn) : Verdict :=
  if isWord n then judgeWord refs n df else .notAWord

def grow (refs : List Ref) : Verdict → List Ref
  | .accepted r => refs ++ [r]
  | _ => refs

/-- verdicts on the names the reference does not know, in registration order; `refs` = what has a meaning so far -/
def judgeAll : List Ref → List (Name × Defn) → List (Name × Defn × Verdict)
  | _, [] => []
  | refs, (n, df) :: rest =>
    if (find n).isSome then judgeAll refs rest
    else (n, df, judge refs n df) :: judgeAll (grow refs (judge refs n df)) rest

def acceptedOf : List (Name × Defn × Verdict) → List Ref
  | [] => []
  | (_, _, .accepted r) :: rest => r :: acceptedOf rest
  | _ :: rest => acceptedOf rest

/-- verdicts on the new units of the working tree -/
def liveVerdicts : List (Name × Defn × Verdict) := judgeAll units liveDefs

/-- the new units of the working tree that are consistent with their definitions, with what they mean -/
def newUnits : List Ref := acceptedOf liveVerdicts

/-- the extended reference -/
def extUnits : List Ref := units ++ newUnits

def extCfg : Cfg := cfgOf extUnits

def extFind (n : Name) : Option Ref := findIn extUnits n

end PGA.SI
