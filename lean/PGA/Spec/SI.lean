import PGA.Model.Units
/-!
# The SI reference table (specification for C10 — meant to be read)

Written from the definitions of the units (SI brochure, 9th edition 2019; NIST SP 811 for the
customary units), **not** from `pgradd/Units/builtin.py`.  Each entry: the unit's name as the
package documents it, the magnitude of one such unit in coherent SI units, its dimension as
exponents of (m, kg, s, A, K, mol, cd), and a relative tolerance:

* `tol = 0`   — the unit is defined by an exact decimal (or exact rational) factor; the code must
  give exactly this value;
* `tol = 10⁻⁸` — the unit is defined exactly, but its decimal expansion is long and tables quote it
  rounded to 9–12 significant digits (lbf, psi, hp, BTU);
* `tol = 10⁻⁶` — the unit is tied to a measured constant whose recommended value changes between
  CODATA adjustments (u, the 2006/2010 values of the Avogadro constant and of the elementary
  charge differ from the exact 2019 SI values by 1–2·10⁻⁷).
-/
namespace PGA.SI
open PGA.Units

structure Ref where
  name : Name
  value : Rat
  dim : Dim
  tol : Rat
  deriving Repr

/-- exponents in the order m, kg, s, A, K, mol, cd -/
def d (m kg s A K mol cd : Rat) : Dim := ⟨m, kg, s, A, K, mol, cd⟩

def force : Dim := d 1 1 (-2) 0 0 0 0
def pressure : Dim := d (-1) 1 (-2) 0 0 0 0
def energy : Dim := d 2 1 (-2) 0 0 0 0
def power : Dim := d 2 1 (-3) 0 0 0 0
def length : Dim := d 1 0 0 0 0 0 0
def mass : Dim := d 0 1 0 0 0 0 0
def time : Dim := d 0 0 1 0 0 0 0
def amount : Dim := d 0 0 0 0 0 1 0

/-- standard acceleration of gravity, m/s² (exact, CGPM 1901) -/
def g0 : Rat := 980665 / 100000
/-- international avoirdupois pound, kg (exact, 1959) -/
def pound : Rat := 45359237 / 100000000
/-- international inch, m (exact, 1959) -/
def inch : Rat := 254 / 10000
/-- Avogadro constant, 1/mol (exact, SI 2019) -/
def avogadro : Rat := 602214076 * 10 ^ 15
/-- elementary charge, C (exact, SI 2019) -/
def eCharge : Rat := 1602176634 / 10 ^ 28
/-- thermochemical calorie, J (exact by definition) -/
def calTh : Rat := 4184 / 1000

def units : List Ref := [
  -- base units (the gram is the named mass unit so that prefixes apply to it)
  ⟨['m'], 1, length, 0⟩,
  ⟨['g'], 1 / 1000, mass, 0⟩,
  ⟨['s'], 1, time, 0⟩,
  ⟨['A'], 1, d 0 0 0 1 0 0 0, 0⟩,
  ⟨['K'], 1, d 0 0 0 0 1 0 0, 0⟩,
  ⟨['m', 'o', 'l'], 1, amount, 0⟩,
  ⟨['c', 'd'], 1, d 0 0 0 0 0 0 1, 0⟩,
  -- coherent derived units
  ⟨['N'], 1, force, 0⟩,                          -- kg·m/s²
  ⟨['P', 'a'], 1, pressure, 0⟩,                  -- N/m²
  ⟨['J'], 1, energy, 0⟩,                         -- N·m
  ⟨['W'], 1, power, 0⟩,                          -- J/s
  ⟨['C'], 1, d 0 0 1 1 0 0 0, 0⟩,                -- A·s
  ⟨['V'], 1, d 2 1 (-3) (-1) 0 0 0, 0⟩,          -- W/A
  ⟨['F'], 1, d (-2) (-1) 4 2 0 0 0, 0⟩,          -- C/V
  ⟨['O', 'h', 'm'], 1, d 2 1 (-3) (-2) 0 0 0, 0⟩, -- V/A
  -- count
  ⟨['m', 'o', 'l', 'e', 'c', 'u', 'l', 'e'], 1 / avogadro, amount, 1 / 10 ^ 6⟩,
  -- length
  ⟨['i', 'n'], inch, length, 0⟩,
  ⟨['f', 't'], 12 * inch, length, 0⟩,
  -- volume: the litre is one cubic decimetre
  ⟨['L'], 1 / 1000, d 3 0 0 0 0 0 0, 0⟩,
  -- time
  ⟨['m', 'i', 'n'], 60, time, 0⟩,
  ⟨['h'], 3600, time, 0⟩,
  -- mass
  ⟨['u'], 166053906660 / 10 ^ 38, mass, 1 / 10 ^ 6⟩,   -- unified atomic mass unit (CODATA 2018)
  ⟨['l', 'b'], pound, mass, 0⟩,
  ⟨['t'], 1000, mass, 0⟩,                              -- tonne
  -- force
  ⟨['d', 'y', 'n'], 1 / 10 ^ 5, force, 0⟩,             -- g·cm/s²
  ⟨['l', 'b', 'f'], pound * g0, force, 1 / 10 ^ 8⟩,    -- pound-force
  -- pressure
  ⟨['b', 'a', 'r'], 10 ^ 5, pressure, 0⟩,
  ⟨['a', 't', 'm'], 101325, pressure, 0⟩,
  ⟨['t', 'o', 'r', 'r'], 101325 / 760, pressure, 0⟩,
  ⟨['p', 's', 'i'], pound * g0 / (inch * inch), pressure, 1 / 10 ^ 8⟩,
  -- energy
  ⟨['c', 'a', 'l'], calTh, energy, 0⟩,
  ⟨['e', 'r', 'g'], 1 / 10 ^ 7, energy, 0⟩,            -- dyn·cm
  ⟨['B', 'T', 'U'], calTh * (pound * 1000) * 5 / 9, energy, 1 / 10 ^ 8⟩,   -- thermochemical: cal_th · (lb/g) · (°F/K)
  ⟨['e', 'V'], eCharge, energy, 1 / 10 ^ 6⟩,
  -- power: 550 ft·lbf/s = 33000 ft·lbf/min
  ⟨['h', 'p'], 550 * (12 * inch) * (pound * g0), power, 1 / 10 ^ 8⟩,
  -- viscosity
  ⟨['P'], 1 / 10, d (-1) 1 (-1) 0 0 0 0, 0⟩,           -- poise = g/(cm·s)
  ⟨['S', 't'], 1 / 10 ^ 4, d 2 0 (-1) 0 0 0 0, 0⟩]     -- stokes = cm²/s

/-- the SI prefixes (symbol, power of ten) adopted up to 1991 -/
def prefixes : List (Name × Int) := [
  (['Y'], 24), (['Z'], 21), (['E'], 18), (['P'], 15), (['T'], 12), (['G'], 9), (['M'], 6),
  (['k'], 3), (['h'], 2), (['d', 'a'], 1), (['d'], -1), (['c'], -2), (['m'], -3), (['u'], -6),
  (['n'], -9), (['p'], -12), (['f'], -15), (['a'], -18), (['z'], -21), (['y'], -24)]

/-- molar gas constant R = N_A·k, J/(mol·K) (exact SI 2019: 8.31446261815324; the package quotes the
CODATA 2006 value 8.314472), tolerance 10⁻⁵ -/
def gasConstant : Ref := ⟨['R'], 831446261815324 / 10 ^ 14, d 2 1 (-2) 0 (-1) (-1) 0, 1 / 10 ^ 5⟩

def find (n : Name) : Option Ref := units.find? (fun r => r.name == n)

/-- `v` is within the entry's relative tolerance of `k · r.value` -/
def Ref.admits (r : Ref) (k : Rat) (v : Rat) : Bool :=
  absR (v - k * r.value) ≤ r.tol * absR (k * r.value)

end PGA.SI
