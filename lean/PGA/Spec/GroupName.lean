import PGA.Model.GroupName
/-! Specification vocabulary for C19: what a *spelling* of a group is, independently of the
parser, and which names are well formed. -/
namespace PGA.GroupName
open PGA.Chars

/-- one peripheral entry of a written group name: `(name)` optionally followed by a repeat count -/
structure Run where
  name : Name
  cnt : Option Nat
  deriving DecidableEq, Repr

def Run.suffix (r : Run) : List Char := match r.cnt with | none => [] | some n => showNat n
def Run.count (r : Run) : Nat := match r.cnt with | none => 1 | some n => n

/-- the text of a group name written with the given runs, in the given order -/
def spell (csg : Name) (runs : List Run) : List Char :=
  csg ++ (runs.map fun r => '(' :: (r.name ++ ')' :: r.suffix)).flatten

/-- the multiset (as a list) of peripherals a spelling denotes -/
def expandRuns (runs : List Run) : List Name := runs.flatMap fun r => List.replicate r.count r.name

/-- a name the parser can give back: no parenthesis inside -/
def WFName (n : Name) : Bool := n.all fun c => !isParen c
/-- a peripheral name: non-empty, no parenthesis, not a digit string -/
def WFPsg (p : Name) : Bool := WFName p && !p.isEmpty && !isDigitStr p

/-- well-formed spelling: well-formed names, counts below the interpreter's int/str digit limit -/
def WFRuns (csg : Name) (runs : List Run) : Prop :=
  WFName csg = true ∧ ∀ r ∈ runs, WFPsg r.name = true ∧ r.count < intLimit

/-- well-formed group -/
def WFGroup (csg : Name) (psgs : List Name) : Prop :=
  WFName csg = true ∧ (∀ p ∈ psgs, WFPsg p = true) ∧ psgs.length < intLimit

end PGA.GroupName
