import PGA.Model.LibThermo
import PGA.Spec.Thermo
/-! # A shipped group record as a correlation of the thermo model (C14-T1 vocabulary)

`PGA.LibTable.GroupRec` (C14: what the translator dumps of a loaded `ThermochemGroup`) and the thermo
model `PGA.Thermo` (C05/C06: `ThermochemIncomplete.__init__` / `_setup_correlation` / `get_*`) were
built separately.  `PGA/Model/LibThermo.lean` says how a record *is* an input of that model
(`GroupRec.correlation`); this file holds the vocabulary of C14-T1 on top of it. -/
namespace PGA.LibTable
open PGA PGA.Thermo

/-- what "evaluates at `T`" means for the object `c` of record `g`: a value (no exception outcome) for every
property the record has data for — `Cp/R` when it has a table, `H/RT` when it has a reference enthalpy,
`S/R` when it has a reference entropy, `G/RT` when it has both -/
structure EvaluatesAt (g : GroupRec) (c : Incomplete) (T : Rat) : Prop where
  cp : g.cp ≠ [] → ∃ v, c.CpoR T = (.ok v, false)
  h : g.href.isNum = true → IsValue (c.HoRT T)
  s : g.sref.isNum = true → IsValue (c.SoR T)
  gibbs : g.href.isNum = true → g.sref.isNum = true →
    ∃ hv sv, (c.HoRT T).1 = .ok hv ∧ (c.SoR T).1 = .ok sv ∧ (c.GoRT T).1 = .ok (hv - sv)

/-- what "reproduces its data" means (for an interpolant that passes through the table and whose integrals
are additive): the reference values at the reference temperature and every tabulated `Cp/R` at its temperature -/
structure ReproducesData (g : GroupRec) (c : Incomplete) : Prop where
  table : ∀ p ∈ g.pts, c.CpoR p.1 = (.ok p.2, false)
  href : g.cp ≠ [] → ∀ tr hv, g.tref.rat? = some tr → g.href.rat? = some hv → c.HoRT tr = (.ok hv, false)
  sref : g.cp ≠ [] → ∀ tr sv, g.tref.rat? = some tr → g.sref.rat? = some sv → c.SoR tr = (.ok sv, false)

/-- the row the C06 translator (`PGA.Gen.ThermoRanges`) writes for the same group: declared range, span of the
table, reference temperature — in the thermo tables' decimal type -/
def GroupRec.rangeRow (lib : String) (g : GroupRec) : Option RangeRow :=
  match g.tref with
  | .num tr =>
    some ⟨lib, g.name, g.range.map fun r => (r.1.toThermo, r.2.toThermo),
          (match g.cp with
           | [] => none
           | p :: ps => some (p.1.toThermo, ((p :: ps).getLast (List.cons_ne_nil _ _)).1.toThermo)),
          tr.toThermo⟩
  | _ => none

end PGA.LibTable
