import PGA.Model.Thermo
/-!
# Vocabulary of C05 / C06 (thermochemical correlations)

Declarative definitions the property theorems are stated with; none of them follows the branch
structure of the code.

* `Interp.Good` — the assumptions A-spline / A-log on the external numerical components.
* `RawData.CpExt` — the heat capacity "held at the end values outside the tabulated span".
* `RawData.intCp a b` — `∫_a^b CpExt dt`, `RawData.intCpT a b` — `∫_a^b CpExt/t dt`, written as the
  sum of the part below the table (constant `minCp`), the part inside (the interpolant's own
  integral between the clamped ends) and the part above (constant `maxCp`).
* `inRange` — membership of a temperature in an optional validity range.
-/
namespace PGA.Thermo

/-- Assumptions on the external components: `spline.integral` is additive (A-spline), `quad(spline/t)`
is additive on positive temperatures (A-spline), `log(b/a)` is additive on positive temperatures. -/
structure Interp.Good (ip : Interp) : Prop where
  I_add : ∀ a b c, ip.I a b + ip.I b c = ip.I a c
  J_add : ∀ a b c, 0 < a → 0 < b → 0 < c → ip.J a b + ip.J b c = ip.J a c
  lg_add : ∀ a b c, 0 < a → 0 < b → 0 < c → ip.lg a b + ip.lg b c = ip.lg a c

/-- the interpolant passes through the supplied data points (A-spline) -/
def Interp.Hits (ip : Interp) (pts : List Pt) : Prop := ∀ p ∈ pts, ip.val p.1 = p.2

/-- a temperature moved into the tabulated span -/
def RawData.clamp (d : RawData) (t : Rat) : Rat := max d.minT (min t d.maxT)

/-- Cp/R with constant continuation outside the tabulated span -/
def RawData.CpExt (d : RawData) (t : Rat) : Rat :=
  if t < d.minT then d.minCp else if t > d.maxT then d.maxCp else d.ip.val t

/-- `∫_a^b CpExt(t) dt`: below the table + inside + above -/
def RawData.intCp (d : RawData) (a b : Rat) : Rat :=
  d.minCp * (min b d.minT - min a d.minT) + d.ip.I (d.clamp a) (d.clamp b) + d.maxCp * (max b d.maxT - max a d.maxT)

/-- `∫_a^b CpExt(t)/t dt`: below the table + inside + above -/
def RawData.intCpT (d : RawData) (a b : Rat) : Rat :=
  d.minCp * d.ip.lg (min a d.minT) (min b d.minT) + d.ip.J (d.clamp a) (d.clamp b)
    + d.maxCp * d.ip.lg (max a d.maxT) (max b d.maxT)

/-- `T` lies in the (optional) validity range; no range = no restriction -/
def inRange (T : Rat) (r : Option Range) : Prop :=
  match r with
  | none => True
  | some r => r.1 ≤ T ∧ T ≤ r.2

/-- the outcome signals: an exception, or the incomplete-data warning -/
def Signalled (o : Out) : Prop := (∃ e, o.1 = .error e) ∨ o.2 = true

/-- the outcome is a value -/
def IsValue (o : Out) : Prop := ∃ v, o.1 = .ok v

end PGA.Thermo
