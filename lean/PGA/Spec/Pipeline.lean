import PGA.Model.Pipeline
import PGA.Spec.GroupName
import PGA.Props.C01
import PGA.Props.C04
/-!
# Vocabulary of the pipeline theorems (`Props/Pipeline.lean`)

Specification side: which stage of `Estimate` an outcome belongs to and which stage the order-free data of a mapping predict
(`outcomeKind`), how the stages of two parts combine (`mixKind`, `mixP`), what "the same value / the sum of two values / the same
outcome" mean for getters that can fail, the bilinear form behind `xᵀMx`, what two spellings of a library section are, and the
hypotheses of `C04_decompose_union` quoted as one structure.  (`termsOf` reuses `corrD` of `Proofs/Estimate.lean`; `UnionHyps` and
`SeparatedMol` quote `Props/C04.lean`, hence the imports.)
-/
namespace PGA.Estimate

/-! ### the outcome of `Estimate`, stage by stage -/

/-- which stage of `GroupLibrary.Estimate` / `ThermochemGroupAdditive.__init__` raised -/
inductive EstKind where
  | invalidSet | missing | keyError | notInBasis | shape | emptyRange
  deriving DecidableEq, Repr

def estKind {N : Type} : EstErr N → EstKind
  | .invalidSet => .invalidSet
  | .missing _ => .missing
  | .keyError => .keyError
  | .notInBasis _ => .notInBasis
  | .shape => .shape
  | .emptyRange => .emptyRange

/-- `none` = an estimate was returned -/
def kindOf {N : Type} : Except (EstErr N) Estimator → Option EstKind
  | .ok _ => none
  | .error e => some (estKind e)

/-- the range assertion, from the terms -/
def rangeKind (cs : List (Corr × Rat)) : Option EstKind :=
  match commonRange cs with
  | none => none
  | some (lo, hi) => if lo ≤ hi then none else some .emptyRange

section
variable {N S : Type} [DecidableEq N] [DecidableEq S]

/-- the terms an estimate of the mapping holds (where every descriptor has the property set) -/
def termsOf (lib : Library N S) (s : S) (gs : List (N × Rat)) : List (Corr × Rat) :=
  gs.map fun g => (corrD lib s g.1, g.2)

/-- the uncertainty block: every descriptor must be in the basis, then the matrix must fit -/
def uqKind (lib : Library N S) (gs : List (N × Rat)) : Option EstKind :=
  match lib.uq with
  | none => none
  | some u =>
    if gs.all (fun g => decide (g.1 ∈ u.basis)) then
      (if shapeOK u.basis.length u.mat then none else some .shape)
    else some .notInBasis

/-- **Which way `Estimate` goes**, written from data that do not depend on the order of the mapping: the registry, the
set of descriptors without data, membership in the uncertainty basis, the matrix shape, the common range. -/
def outcomeKind (reg : List S) (lib : Library N S) (gs : List (N × Rat)) (s : S) : Option EstKind :=
  if reg.contains s then
    if (specMissing lib s gs).isEmpty then
      match uqKind lib gs with
      | some k => some k
      | none => rangeKind (termsOf lib s gs)
    else some .missing
  else some .invalidSet

end

/-- the range assertion on an already computed common range -/
def rangeKindOf (r : Option (Rat × Rat)) : Option EstKind :=
  match r with
  | none => none
  | some (lo, hi) => if lo ≤ hi then none else some .emptyRange

/-- How the outcomes of the parts combine (precedence of the stages of `Estimate`); `r` = what the range assertion says of
the intersection of the parts' common ranges. -/
def mixKind (kA kB : Option EstKind) (r : Option EstKind) : Option EstKind :=
  if kA = some .invalidSet ∨ kB = some .invalidSet then some .invalidSet
  else if kA = some .missing ∨ kB = some .missing then some .missing
  else if kA = some .notInBasis ∨ kB = some .notInBasis then some .notInBasis
  else if kA = some .shape ∨ kB = some .shape then some .shape
  else r

/-- `xᵀ M y`, `M` given by rows -/
def specBilin (M : List (List Rat)) (x y : List Rat) : Rat :=
  (List.zipWith (fun xi row => xi * specDot row y) x M).sum

/-- entrywise sum of two vectors -/
def vplus (x y : List Rat) : List Rat := List.zipWith (· + ·) x y

end PGA.Estimate

namespace PGA.Pipeline
open PGA PGA.Spec PGA.Scheme PGA.Decompose PGA.Match PGA.Estimate PGA.GroupName

/-- the estimate with another molecule on record -/
def withName (nm : Option (List Nat)) (e : Estimator) : Estimator := { e with name := nm }

/-- two spellings of the same entries: entry by entry the same data, the same centre, well-formed runs denoting the same
multiset of peripherals (any order of the peripherals, any split into runs, counts written or not) -/
def SameSpelling {α : Type} (src src' : List (GroupName.Name × α)) : Prop :=
  List.Forall₂ (fun p p' => p'.2 = p.2 ∧ ∃ c r r', p.1 = spell c r ∧ p'.1 = spell c r' ∧ WFRuns c r ∧ WFRuns c r' ∧
    (expandRuns r).Perm (expandRuns r')) src src'

/-! ### vocabulary -/

/-- two getter results do not contradict each other: where both are values, they are the same value -/
def Agree (a b : Val) : Prop := ∀ v v', a = .ok v → b = .ok v' → v = v'

/-- the same value, or both fail -/
def SameVal (a b : Val) : Prop := ∀ v, a = .ok v ↔ b = .ok v

/-- `u` is a value exactly when `a` and `b` are, and then it is their sum -/
def SumVal (u a b : Val) : Prop := ∀ v, u = .ok v ↔ ∃ x y, a = .ok x ∧ b = .ok y ∧ v = x + y

/-- two correlation objects return the same `Cp/R`, `H/RT`, `S/R` (for every temperature and `S_elements` flag) -/
structure NDSame (o o' : ND) : Prop where
  cp : ∀ T, SameVal (o.cp T) (o'.cp T)
  hort : ∀ T, SameVal (o.hort T) (o'.hort T)
  sor : ∀ T flag, SameVal (o.sor T flag) (o'.sor T flag)

/-- `oU = oA + oB` for `Cp/R`, `H/RT`, `S/R` -/
structure NDSum (oU oA oB : ND) : Prop where
  cp : ∀ T, SumVal (oU.cp T) (oA.cp T) (oB.cp T)
  hort : ∀ T, SumVal (oU.hort T) (oA.hort T) (oB.hort T)
  sor : ∀ T flag, SumVal (oU.sor T flag) (oA.sor T flag) (oB.sor T flag)

/-- Two pipeline outcomes are the same as far as the caller can tell: the same failure (a missing-data error naming the
same descriptors, possibly in another order), or estimates with the same validity range and the same values. -/
structure SameOutcome (sel : Nat → Option Rat) (r r' : Except Err Estimator) : Prop where
  patternMatch : r' = .error .patternMatch ↔ r = .error .patternMatch
  estimateError : ∀ err, r = .error (.estimate err) →
    ∃ err', r' = .error (.estimate err') ∧ estKind err' = estKind err ∧
      ∀ ds, err = .missing ds → ∃ ds', err' = .missing ds' ∧ ds'.Perm ds
  estimate : ∀ e, r = .ok e → ∃ e', r' = .ok e' ∧ e'.range = e.range ∧ NDSame (e.toND sel) (e'.toND sel)

/-- the hypotheses of `C04_decompose_union`, quoted: both graphs well-formed; the scheme's queries well-formed and
connected (guaranteed by the reader: `C02_load_wf`, `C04_load_connected`), without `*` suffix and without molecule-level
prefix (observed on every shipped scheme by the harness); candidate counts below the cap on the three aromatised graphs;
chain-free remap table -/
structure UnionHyps (S : SchemeDef) (A B : Mol) : Prop where
  hA : A.wf = true
  hB : B.wf = true
  hq : S.wf = true
  hs : S.noStar = true
  hmp : S.noMolPrefix = true
  hcn : S.connected = true
  capa : maxRaw S (aromatizeBenson A) < maxMatches
  capb : maxRaw S (aromatizeBenson B) < maxMatches
  capu : maxRaw S ((aromatizeBenson A).union (aromatizeBenson B)) < maxMatches
  hcf : ChainFree S.remaps

/-- hypothesis `Separated` of `C04_decompose_union` for the two graphs: no name produced on the correction-descriptor side
of either part carries a group count in either part (otherwise the final `dict.update` replaces a group count and the
*counts* are not additive; the *names* are in any case) -/
def SeparatedMol (S : SchemeDef) (A B : Mol) : Prop :=
  ∀ asgA asgB, assignCentres (toInput S (aromatizeBenson A)) = .ok asgA →
    assignCentres (toInput S (aromatizeBenson B)) = .ok asgB →
    Separated (toInput S (aromatizeBenson A)) (toInput S (aromatizeBenson B)) asgA asgB

/-- where the pipeline stopped (`none`: it returned an estimate) -/
inductive PKind where
  | patternMatch
  | estimate (k : EstKind)
  deriving DecidableEq, Repr

def pkindOf : Except Err Estimator → Option PKind
  | .ok _ => none
  | .error .patternMatch => some .patternMatch
  | .error (.estimate e) => some (.estimate (estKind e))

def estPart : Option PKind → Option EstKind
  | some (.estimate k) => some k
  | _ => none

/-- what the range assertion says of the intersection of the two parts' common ranges (`none`: it passes) -/
def mixRange (S : SchemeDef) (lib : Lib) (set : String) (A B : Mol) : Option EstKind :=
  match decompose S A, decompose S B with
  | .ok rA, .ok rB => rangeKindOf (interRange (commonRange (termsOf lib set rA)) (commonRange (termsOf lib set rB)))
  | _, _ => none

/-- **The decision table of a mixture's outcome**, by precedence: a part does not decompose → `PatternMatchError`; the
property-set name is not registered → `KeyError`; a part has a descriptor without data → `GroupMissingDataError`; a part has
a descriptor outside the uncertainty basis → `ValueError`; the uncertainty matrix does not fit → `ValueError`; otherwise
the range assertion on the intersection of the parts' ranges decides (`AssertionError` or an estimate). -/
def mixP (pA pB : Option PKind) (r : Option EstKind) : Option PKind :=
  if pA = some .patternMatch ∨ pB = some .patternMatch then some .patternMatch
  else (mixKind (estPart pA) (estPart pB) r).map PKind.estimate

end PGA.Pipeline
