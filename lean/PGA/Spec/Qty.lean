import PGA.Model.Qty
/-!
# Vocabulary of C11 (specification side)

What the property talks about, independently of how `qty.py` computes it: quantities, bare zero,
compatibility, and "the same operation on SI magnitudes" (element-wise for arrays, a scalar
broadcast against an array).
-/
namespace PGA.Qty
open PGA.Units

/-- the operand is a quantity: it carries units -/
def IsQty (a : Q) : Prop := a.dim ≠ Dim.zero

/-- a bare zero: a plain (unit-less) number or array all of whose entries are zero -/
def BareZero (b : Q) : Prop := b.dim = Dim.zero ∧ b.val.isZero = true

/-- the two exponent vectors differ by more than `thr` in some component -/
def Dim.Differs (thr : Rat) (a b : Dim) : Prop :=
  thr < absR (a.m - b.m) ∨ thr < absR (a.kg - b.kg) ∨ thr < absR (a.s - b.s) ∨ thr < absR (a.A - b.A) ∨
  thr < absR (a.K - b.K) ∨ thr < absR (a.mol - b.mol) ∨ thr < absR (a.cd - b.cd)

/-- every exponent of the one vector is within `thr` of the same exponent of the other (the negation of `Dim.Differs`);
for `thr = 0` this is equality, and it is *not* transitive for `thr > 0` -/
def Dim.Within (thr : Rat) (a b : Dim) : Prop :=
  absR (a.m - b.m) ≤ thr ∧ absR (a.kg - b.kg) ≤ thr ∧ absR (a.s - b.s) ≤ thr ∧ absR (a.A - b.A) ≤ thr ∧
  absR (a.K - b.K) ≤ thr ∧ absR (a.mol - b.mol) ≤ thr ∧ absR (a.cd - b.cd) ≤ thr

/-- the operand `b` is one a quantity `a` combines with: a quantity whose exponents are all within the threshold of
those of `a`, or a bare zero -/
def Compatible (thr : Rat) (a b : Q) : Prop := (IsQty b ∧ Dim.Within thr a.dim b.dim) ∨ BareZero b

/-- `f` applied to SI magnitudes: scalar with scalar; a scalar against every entry of an array; arrays of one
length entry by entry (`none`: arrays of different lengths) -/
def onMagnitudes {α} (f : Rat → Rat → α) : Num → Num → Option (α ⊕ List α)
  | .scalar x, .scalar y => some (.inl (f x y))
  | .scalar x, .array m => some (.inr (m.map fun y => f x y))
  | .array l, .scalar y => some (.inr (l.map fun x => f x y))
  | .array l, .array m => if l.length = m.length then some (.inr (List.zipWith f l m)) else none

/-- a comparison result as the operators return it -/
def cmpOut : Option (Bool ⊕ List Bool) → Out
  | some (.inl b) => .bool b
  | some (.inr l) => .bools l
  | none => .err .broadcast

/-- an arithmetic result with dimension `d` as the operators return it -/
def valOut (d : Dim) : Option (Rat ⊕ List Rat) → Out
  | some (.inl q) => .val (.scalar q) d
  | some (.inr l) => .val (.array l) d
  | none => .err .broadcast

/-- meaning of the comparison operators on magnitudes -/
def Op.cmp : Op → Option (Rat → Rat → Bool)
  | .eq => some fun x y => decide (x = y)
  | .ne => some fun x y => decide (x ≠ y)
  | .lt => some fun x y => decide (x < y)
  | .le => some fun x y => decide (x ≤ y)
  | .gt => some fun x y => decide (y < x)
  | .ge => some fun x y => decide (y ≤ x)
  | _ => none

/-- meaning of the additive operators on magnitudes -/
def Op.additive : Op → Option (Rat → Rat → Rat)
  | .add => some fun x y => x + y
  | .sub => some fun x y => x - y
  | _ => none

/-- the operations that require compatible operands and raise the units error otherwise -/
def Op.guarded : Op → Bool
  | .lt | .le | .gt | .ge | .add | .sub => true
  | _ => false

end PGA.Qty
