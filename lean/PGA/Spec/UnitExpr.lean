import PGA.Model.Units
/-!
# Unit expressions as abstract trees, how they are written, and what they denote (specification for C10-T2)

`SExpr` is the abstract syntax the documentation describes: numbers, unit names, products, quotients,
juxtaposition (an implicit product), parentheses, and a numeric power on a number, a name or a
parenthesised expression.  Operators associate to the left: the right operand of `bin` is a
*factor* (anything but a `bin`; a compound right operand is written in parentheses, `paren`).

`render` writes a tree as a token list; `den` is its meaning, computed with exact rationals and
plain exponent arithmetic — no parser, no tokens, no snapping.
-/
namespace PGA.Units

/-- a number literal as written: optional minus sign, digits with at most one decimal point -/
structure NumLit where
  neg : Bool
  body : List Char
  deriving DecidableEq, Repr

/-- well formed: at least one digit, at most one point, within the interpreter's digit limit -/
def NumLit.WF (n : NumLit) : Prop := validNum n.body = true ∧ n.body.length ≤ PGA.Gen.Chars.intMaxStrDigits

/-- the decimal value of the literal -/
def NumLit.value (n : NumLit) : Rat := numVal n.neg n.body

def NumLit.tok (n : NumLit) : Tok := .num n.neg n.body

/-- a power: the exponent literal, written `^x` or `^(x)` -/
structure PowLit where
  lit : NumLit
  paren : Bool
  deriving DecidableEq, Repr

inductive SOp
  | times   -- `a * b`
  | over    -- `a / b`
  | juxt    -- `a b`
  deriving DecidableEq, Repr

inductive SExpr
  | num (n : NumLit) (pw : Option PowLit)
  | name (s : Name) (pw : Option PowLit)
  | paren (e : SExpr) (pw : Option PowLit)
  | bin (e : SExpr) (op : SOp) (f : SExpr)
  deriving Repr

namespace SExpr

def isFactor : SExpr → Bool
  | .bin _ _ _ => false
  | _ => true

def pwWF : Option PowLit → Prop
  | none => True
  | some p => p.lit.WF

/-- literals well formed; right operands are factors -/
def WF : SExpr → Prop
  | .num n pw => n.WF ∧ pwWF pw
  | .name _ pw => pwWF pw
  | .paren e pw => e.WF ∧ pwWF pw
  | .bin e _ f => e.WF ∧ f.WF ∧ f.isFactor = true

def pwInt : Option PowLit → Prop
  | none => True
  | some p => isInt p.lit.value = true

/-- every exponent in the tree is an integer (positive, negative or zero; `2.0` counts) -/
def IntPows : SExpr → Prop
  | .num _ pw => pwInt pw
  | .name _ pw => pwInt pw
  | .paren e pw => e.IntPows ∧ pwInt pw
  | .bin e _ f => e.IntPows ∧ f.IntPows

def renderPw : Option PowLit → List Tok
  | none => []
  | some p => .sym '^' :: (if p.paren then [.sym '(', p.lit.tok, .sym ')'] else [p.lit.tok])

def opToks : SOp → List Tok
  | .times => [.sym '*']
  | .over => [.sym '/']
  | .juxt => []

/-- the expression as a token list -/
def render : SExpr → List Tok
  | .num n pw => n.tok :: renderPw pw
  | .name s pw => .word s :: renderPw pw
  | .paren e pw => .sym '(' :: (render e ++ .sym ')' :: renderPw pw)
  | .bin e op f => render e ++ (opToks op ++ render f)

end SExpr

/-- a denoted value: exact SI magnitude and exponent vector -/
abbrev SVal := Rat × Dim

def SVal.toVal (v : SVal) : Val := ⟨.exact v.1, v.2⟩

/-- meaning of an integer power: `q^k`, exponents scaled by `k`; `0` to a negative power is the arithmetic error -/
def applyPw (v : Res SVal) : Option PowLit → Res SVal
  | none => v
  | some p =>
    match v with
    | .error e => .error e
    | .ok (q, d) =>
      if q = 0 ∧ p.lit.value.num < 0 then .error .math
      else .ok (q ^ p.lit.value.num, d.map (p.lit.value * ·))

/-- meaning of a name: what the unit database says (table obligations T1 tie it to the SI reference) -/
def nameDen (cfg : Cfg) (s : Name) : Res SVal :=
  match lookup cfg s with
  | .ok ⟨.exact q, d⟩ => .ok (q, d)
  | .ok ⟨.inexact _, _⟩ => .error (.internal .fuel)   -- no database entry is inexact (table obligation)
  | .error e => .error e

/-- `⟦e⟧`: the denotation of an expression tree with integer powers -/
def den (cfg : Cfg) : SExpr → Res SVal
  | .num n pw => applyPw (.ok (n.value, Dim.zero)) pw
  | .name s pw => applyPw (nameDen cfg s) pw
  | .paren e pw => applyPw (den cfg e) pw
  | .bin e op f =>
    match den cfg e with
    | .error err => .error err
    | .ok a =>
      match den cfg f with
      | .error err => .error err
      | .ok b =>
        match op with
        | .over => if b.1 = 0 then .error .math else .ok (a.1 / b.1, Dim.zip (· - ·) a.2 b.2)
        | _ => .ok (a.1 * b.1, Dim.zip (· + ·) a.2 b.2)

end PGA.Units
