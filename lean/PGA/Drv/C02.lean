import PGA.Drv.Util
import PGA.Drv.MolJson
import PGA.Model.Scheme
import PGA.Model.Decompose
import PGA.Spec.SchemeGuards
/-! Driver ops of C02 (shared by C03/C04).
`c02.descriptors` / `c02.assign`: the decomposition logic above the matcher on supplied match lists.
`c02.full_batch` `{scheme: {centres: [{center, periph, ast}], descs: [{name, ast}], remaps}, mols: [graph…]}`:
the end-to-end model `PGA.Decompose.decompose` on raw graphs — the scheme's trees are read once per
request, every graph is Benson-aromatised, matched by the model matcher and decomposed.  Reply
`{res: [r…]}` (or `{loaderr: class}`) with `r = {ok | err, atoms, maxraw, wf, bonded, arom, kinds}`. -/
namespace PGA.Drv.C02
open Lean PGA PGA.Drv PGA.Scheme

def natList (j : Json) : Except String (List Nat) := do
  let a ← j.getArr?
  a.toList.mapM fun x => x.getNat?

def matchList (j : Json) (k : String) : Except String (List (List Nat)) := do
  let a ← arr j k
  a.toList.mapM natList

def centre (j : Json) : Except String CentrePat := do
  pure ⟨← str j "center", ← str j "periph", ← matchList j "ms"⟩

def desc (j : Json) : Except String DescPat := do
  pure ⟨← str j "name", ← matchList j "ms"⟩

def remap (j : Json) : Except String (String × List (Rat × String)) := do
  let k ← str j "key"
  let ts ← arr j "targets"
  let ts ← ts.toList.mapM fun t => do
    let c ← rat t "coef"
    let n ← str t "name"
    pure (c, n)
  pure (k, ts)

def input (j : Json) : Except String Input := do
  let n ← nat j "n"
  let nb ← matchList j "nbrs"
  let cs ← (← arr j "centres").toList.mapM centre
  let ds ← (← arr j "descs").toList.mapM desc
  let rs ← (← arr j "remaps").toList.mapM remap
  pure ⟨n, nb, cs, ds, rs⟩

def kindName : BondKind → String
  | .single => "single" | .double => "double" | .triple => "triple" | .quadruple => "quadruple"
  | .aromatic => "aromatic" | .zero => "zero" | .dative => "dative" | .other => "other" | .misc => "misc"

def readErrName : ReadErr → String
  | .reader => "reader" | .notImplemented => "notImplemented" | .shape => "shape"

def schemeSrc (j : Json) : Except String Decompose.SchemeSrc := do
  let cs ← (← arr j "centres").toList.mapM fun c => do
    pure (← str c "center", ← str c "periph", ← astOfJson (← c.getObjVal? "ast"))
  let ds ← (← arr j "descs").toList.mapM fun d => do
    pure (← str d "name", ← astOfJson (← d.getObjVal? "ast"))
  let rs ← (← arr j "remaps").toList.mapM remap
  pure ⟨cs, ds, rs⟩

def assignJson (inp : Input) : Json :=
  match assignCentres inp with
  | .error .patternMatch => Json.null
  | .ok a => Json.arr ((List.range inp.n).map fun i =>
      match a.get? i with
      | some (c, p) => Json.arr #[Json.str c, Json.str p, match groupName a inp.nbrs i with | some g => Json.str g | none => Json.str "none"]
      | none => Json.null).toArray

/-- one molecule of `c02.full_batch`.  The candidate lists are enumerated once and handed to
`toInputOfRaws`, which is `toInput` (`PGA.Decompose.toInputOfRaws_eq`), so the value reported is `decompose S m`. -/
def fullOne (S : Decompose.SchemeDef) (m : Mol) : Json :=
  let m' := aromatizeBenson m
  let rawC := S.centres.map fun c => Match.rawMatches c.q m'
  let rawD := S.descs.map fun d => Match.rawMatches d.q m'
  let inp := Decompose.toInputOfRaws S m' rawC rawD
  let maxraw := ((rawC ++ rawD).map List.length).foldl max 0
  let res : List (String × Json) := match getDescriptors inp with
    | .error .patternMatch => [("err", "patternMatch")]
    | .ok c => [("ok", Json.arr (c.map fun p => Json.arr #[Json.str p.1, jrat p.2]).toArray)]
  Json.mkObj (res ++ [("atoms", assignJson inp), ("maxraw", maxraw), ("wf", m.wf), ("bonded", m.ringsBonded),
    ("arom", Json.arr (m'.atoms.map fun a => Json.num (if a.aromatic then 1 else 0 : Nat)).toArray),
    ("kinds", Json.arr (m'.bonds.map fun e => Json.str (kindName e.kind)).toArray)])

def handle (op : String) (j : Json) : Option (Except String Json) :=
  match op with
  | "c02.full_batch" => some do
      let src ← schemeSrc (← j.getObjVal? "scheme")
      let mols ← (← arr j "mols").toList.mapM molOfJson
      match src.load with
      | .error e => pure <| Json.mkObj [("loaderr", readErrName e)]
      | .ok S => pure <| Json.mkObj [("res", Json.arr (mols.map (fullOne S)).toArray),
          ("schemewf", S.wf), ("nostar", S.noStar), ("nomolprefix", S.noMolPrefix), ("connected", S.connected)]
  | "c02.descriptors" => some do
      let inp ← input j
      match getDescriptors inp with
      | .error .patternMatch => pure <| Json.mkObj [("err", "patternMatch")]
      | .ok c => pure <| Json.mkObj [("ok", Json.arr (c.map fun p => Json.arr #[Json.str p.1, jrat p.2]).toArray)]
  | "c02.assign" => some do
      let inp ← input j
      match assignCentres inp with
      | .error .patternMatch => pure <| Json.mkObj [("err", "patternMatch")]
      | .ok a => pure <| Json.mkObj [("ok", Json.arr ((List.range inp.n).map fun i =>
          match a.get? i with
          | some (c, p) => Json.arr #[Json.str c, Json.str p, match groupName a inp.nbrs i with | some g => Json.str g | none => Json.str "none"]
          | none => Json.null).toArray)]
  | _ => none

end PGA.Drv.C02
