import PGA.Drv.Util
import PGA.Model.Scheme
namespace PGA.Drv.C02
open Lean PGA.Drv PGA.Scheme

def natList (j : Json) : Except String (List Nat) := do
  let a ← j.getArr?
  a.toList.mapM fun x => x.getNat?

def matchList (j : Json) (k : String) : Except String (List (List Nat)) := do
  let a ← arr j k
  a.toList.mapM natList

def centre (j : Json) : Except String CentrePat := do
  pure ⟨← str j "center", ← str j "periph", ← matchList j "ms"⟩

def desc (j : Json) : Except String DescPat := do
  pure ⟨← str j "name", ← matchList j "ms"⟩

def remap (j : Json) : Except String (String × List (Rat × String)) := do
  let k ← str j "key"
  let ts ← arr j "targets"
  let ts ← ts.toList.mapM fun t => do
    let c ← rat t "coef"
    let n ← str t "name"
    pure (c, n)
  pure (k, ts)

def input (j : Json) : Except String Input := do
  let n ← nat j "n"
  let nb ← matchList j "nbrs"
  let cs ← (← arr j "centres").toList.mapM centre
  let ds ← (← arr j "descs").toList.mapM desc
  let rs ← (← arr j "remaps").toList.mapM remap
  pure ⟨n, nb, cs, ds, rs⟩

def handle (op : String) (j : Json) : Option (Except String Json) :=
  match op with
  | "c02.descriptors" => some do
      let inp ← input j
      match getDescriptors inp with
      | .error .patternMatch => pure <| Json.mkObj [("err", "patternMatch")]
      | .ok c => pure <| Json.mkObj [("ok", Json.arr (c.map fun p => Json.arr #[Json.str p.1, jrat p.2]).toArray)]
  | "c02.assign" => some do
      let inp ← input j
      match assignCentres inp with
      | .error .patternMatch => pure <| Json.mkObj [("err", "patternMatch")]
      | .ok a => pure <| Json.mkObj [("ok", Json.arr ((List.range inp.n).map fun i =>
          match a.get? i with
          | some (c, p) => Json.arr #[Json.str c, Json.str p, match groupName a inp.nbrs i with | some g => Json.str g | none => Json.str "none"]
          | none => Json.null).toArray)]
  | _ => none

end PGA.Drv.C02
