import PGA.Drv.Util
import PGA.Drv.C05
import PGA.Model.CorrHistory
/-! Driver op for the histories of a correlation object (`PGA/Model/CorrHistory.lean`).

`hist.run`: {"init": <corr>, "ops": [<op>...], "probes": [rat...], "oracle": <oracle>} ↦
  {"mk": "ok" | <exc>, "steps": [<step>...]}      (steps[0] = the constructed object, steps[i] = after ops[i-1])
<corr>   = {"H": rat|null, "S": rat|null, "cp": [[T, v]...] (dictionary order), "Tref": rat, "range": [lo, hi]|null}
<op>     = {"k": "update", "d": <corr>, "ow": bool} | {"k": "delCp", "T": rat|null} | {"k": "delH"} | {"k": "delS"}
         | {"k": "setRange", "r": [lo, hi]|null} | {"k": "copy"} | {"k": "eval", "q": "cp"|"h"|"s"|"g", "T": rat}
<oracle> = {"tables": [{"pts": [[T, v]...] (sorted), "val": [[t, v]...], "I": [[a, b, v]...], "J": [[a, b, v]...]}...],
            "lg": [[a, b, v]...]}      values of the live SciPy objects built from exactly that table
<step>   = {"res": "done" | "value" | "raised:<exc>", "out": <out> (eval only), "held": <corr>, "built": bool,
            "probes": [{"T": rat, "cp": <out>, "h": <out>, "s": <out>, "g": <out>}...], "missing": bool}
The whole history is run twice, with two different stand-ins for an oracle value the request does not carry; a step where
the two runs differ is reported with "missing": true (the harness decides what that means), never silently defaulted. -/
namespace PGA.Drv.CorrHistory
open Lean PGA.Drv PGA.Thermo PGA.CorrHistory
open PGA.Drv.C05 (optRat optRange rows row2 row3 look1 look2 jout jrange outEq)

def corrOf (j : Json) : Except String PGA.Merge.Corr := do
  let cp ← (← rows j "cp").mapM row2
  pure ⟨← optRat j "H", ← optRat j "S", cp, ← rat j "Tref", ← optRange j "range"⟩

structure Tbl where
  pts : List Pt
  val : List (Rat × Rat)
  I : List (Rat × Rat × Rat)
  J : List (Rat × Rat × Rat)

structure Oracle where
  tables : List Tbl
  lg : List (Rat × Rat × Rat)

def getOracle (j : Json) : Except String Oracle :=
  match j.getObjVal? "oracle" with
  | .error _ => pure ⟨[], []⟩
  | .ok o => do
    let ts ← match o.getObjVal? "tables" with
      | .error _ => pure #[]
      | .ok v => v.getArr?
    let tables ← ts.toList.mapM fun t => do
      pure (⟨← (← rows t "pts").mapM row2, ← (← rows t "val").mapM row2, ← (← rows t "I").mapM row3,
             ← (← rows t "J").mapM row3⟩ : Tbl)
    pure ⟨tables, ← (← rows o "lg").mapM row3⟩

/-- the interpolant family of the oracle; `dflt` stands in for a value the request does not carry -/
def Oracle.spl (o : Oracle) (dflt : Rat) : Spl := fun tbl =>
  let lg := fun a b => (look2 o.lg a b).getD dflt
  match o.tables.find? (fun t => t.pts == tbl) with
  | some t => { val := fun x => (look1 t.val x).getD dflt, I := fun a b => (look2 t.I a b).getD dflt,
                J := fun a b => (look2 t.J a b).getD dflt, lg := lg }
  | none => { val := fun _ => dflt, I := fun _ _ => dflt, J := fun _ _ => dflt, lg := lg }

def getterOf (s : String) : Except String Getter :=
  if s == "cp" then pure .cp else if s == "h" then pure .h else if s == "s" then pure .s else if s == "g" then pure .g
  else throw s!"unknown getter {s}"

def opOf (j : Json) : Except String Op := do
  let k ← str j "k"
  if k == "update" then
    let d ← corrOf (← j.getObjVal? "d")
    let ow ← (← j.getObjVal? "ow").getBool?
    pure (.update d ow)
  else if k == "delCp" then pure (.delCp (← optRat j "T"))
  else if k == "delH" then pure .delH
  else if k == "delS" then pure .delS
  else if k == "setRange" then pure (.setRange (← optRange j "r"))
  else if k == "copy" then pure .copy
  else if k == "eval" then pure (.eval (← getterOf (← str j "q")) (← rat j "T"))
  else throw s!"unknown op {k}"

def excName : Exc → String
  | .readOnly => "readOnly" | .value => "value" | .assertion => "assertion" | .incomplete => "incomplete"
  | .zeroDiv => "zeroDiv" | .key => "key" | .outside => "outside" | .internal => "internal"

def jopt (x : Option Rat) : Json := match x with | none => Json.null | some v => jrat v

def jheld (o : Incomplete) : Json :=
  Json.mkObj [("H", jopt o.Href), ("S", jopt o.Sref),
    ("cp", Json.arr (o.cp.map fun p => Json.arr #[jrat p.1, jrat p.2]).toArray),
    ("Tref", jrat o.Tref), ("range", jrange o.range)]

def resEq (a b : Res) : Bool :=
  match a, b with
  | .done, .done => true
  | .raised e, .raised f => e == f
  | .value x, .value y => outEq x y
  | _, _ => false

def heldEq (a b : Incomplete) : Bool :=
  a.Href == b.Href && a.Sref == b.Sref && a.cp == b.cp && a.Tref == b.Tref && a.range == b.range &&
    a.corr.isSome == b.corr.isSome

def getters : List (String × Getter) := [("cp", .cp), ("h", .h), ("s", .s), ("g", .g)]

def jstep (probes : List Rat) (a b : Incomplete × Res) : Json :=
  let same := resEq a.2 b.2 && heldEq a.1 b.1 &&
    probes.all fun T => getters.all fun g => outEq (getter g.2 a.1 T) (getter g.2 b.1 T)
  let res : List (String × Json) := match a.2 with
    | .done => [("res", Json.str "done")]
    | .raised e => [("res", Json.str ("raised:" ++ excName e))]
    | .value o => [("res", Json.str "value"), ("out", jout o)]
  Json.mkObj (res ++ [("held", jheld a.1), ("built", Json.bool a.1.corr.isSome),
    ("probes", Json.arr (probes.map fun T =>
      Json.mkObj ([("T", jrat T)] ++ getters.map fun g => (g.1, jout (getter g.2 a.1 T)))).toArray),
    ("missing", Json.bool (!same))])

def errName' (e : Err) : String := excName (Exc.ofT e)

def handle (op : String) (j : Json) : Option (Except String Json) :=
  match op with
  | "hist.run" => some do
      let c ← corrOf (← j.getObjVal? "init")
      let ops ← (← arr j "ops").toList.mapM opOf
      let probes ← match j.getObjVal? "probes" with
        | .error _ => pure []
        | .ok v => do (← v.getArr?).toList.mapM getRat
      let orc ← getOracle j
      let S0 := orc.spl 0
      let S1 := orc.spl 1
      match construct S0 c, construct S1 c with
      | .error e, _ => pure <| Json.mkObj [("mk", Json.str (errName' e))]
      | .ok o0, .ok o1 =>
        let t0 := (o0, Res.done) :: trace S0 o0 ops
        let t1 := (o1, Res.done) :: trace S1 o1 ops
        pure <| Json.mkObj [("mk", Json.str "ok"), ("steps", Json.arr ((t0.zip t1).map fun ab => jstep probes ab.1 ab.2).toArray)]
      | _, _ => throw "construction depends on oracle values"
  | _ => none

end PGA.Drv.CorrHistory
