import PGA.Drv.C05
/-! Driver ops for C06.
`c06.est`: {"cors": [[<spec>, count], ...], "T": rat, "want": [...]} ↦ {"mk": "ok" | <err> | "constituent:<err>", "range": ..., "cp"/"h"/"s"/"g": out}
`c06.range`: {"ranges": [null | [lo, hi], ...]} ↦ {"range": null | [lo, hi], "accepted": bool}  (the fold of group_data.py:49-77 alone) -/
namespace PGA.Drv.C06
open Lean PGA.Drv PGA.Thermo PGA.Drv.C05

def getCors (j : Json) : Except String (List (CorSpec × Rat)) := do
  let a ← arr j "cors"
  a.toList.mapM fun e => do
    match ← e.getArr? with
    | #[s, n] => pure (← getSpec s, ← getRat n)
    | _ => throw "cors entry must be [spec, count]"

def handle (op : String) (j : Json) : Option (Except String Json) :=
  match op with
  | "c06.est" => some do
      let specs ← getCors j
      let T ← rat j "T"
      let want ← wantList j
      -- construct the constituents first (they exist in the library before the estimate is made)
      let build (dflt : Rat) : Except String (Except String (List (Incomplete × Rat))) := do
        let mut cs : List (Incomplete × Rat) := []
        for (s, n) in specs do
          match Incomplete.mk (s.oracle.interp dflt) s.href s.sref s.pts s.tref s.range with
          | .error e => return .error ("constituent:" ++ errName e)
          | .ok c => cs := cs ++ [(c, n)]
        return .ok cs
      match ← build 0, ← build 1 with
      | .error m, _ => pure <| Json.mkObj [("mk", Json.str m)]
      | .ok cs, .ok cs' =>
        match Estimate.mk cs, Estimate.mk cs' with
        | .error e, _ => pure <| Json.mkObj [("mk", Json.str (errName e))]
        | .ok e, .ok e' =>
          let f (e : Estimate) (w : String) : Out :=
            if w == "cp" then e.CpoR T else if w == "h" then e.HoRT T else if w == "s" then e.SoR T else e.GoRT T
          agree want (f e) (f e')
          pure <| Json.mkObj ([("mk", Json.str "ok"), ("range", jrange e.range)] ++ want.map fun w => (w, jout (f e w)))
        | _, _ => throw "construction depends on oracle values"
      | _, _ => throw "construction depends on oracle values"
  | "c06.range" => some do
      let a ← arr j "ranges"
      let rs ← a.toList.mapM fun e => match e with
        | Json.null => pure none
        | v => do
          match ← ratList v with
          | [lo, hi] => pure (some (lo, hi))
          | _ => throw "range must be [lo, hi]"
      let r := estRange rs
      pure <| Json.mkObj [("range", jrange r), ("accepted", Json.bool (baseInitOk r))]
  | _ => none

end PGA.Drv.C06
