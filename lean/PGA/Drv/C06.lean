import PGA.Drv.C05
/-! Driver ops for C06.
`c06.est`: {"cors": [[<spec>, count], ...], "T": rat, "want": [...]} ↦ {"mk": "ok" | <err> | "constituent:<err>", "range": ..., "cp"/"h"/"s"/"g": out}
`c06.raw_set_range`: {"cor": <raw spec>, "newrange": [lo, hi], "T": rat, "want": [...]} ↦ {"mk", "set": "ok" | <err>, "range", outs}
`c06.check_arr`: {"range": null | [lo, hi], "Ts": [rat, ...]} ↦ {"ok": bool}  (`check_range` on an array of temperatures)
`c06.range`: {"ranges": [null | [lo, hi], ...]} ↦ {"range": null | [lo, hi], "accepted": bool}  (the fold of group_data.py:49-77 alone) -/
namespace PGA.Drv.C06
open Lean PGA.Drv PGA.Thermo PGA.Drv.C05

def getCors (j : Json) : Except String (List (CorSpec × Rat)) := do
  let a ← arr j "cors"
  a.toList.mapM fun e => do
    match ← e.getArr? with
    | #[s, n] => pure (← getSpec s, ← getRat n)
    | _ => throw "cors entry must be [spec, count]"

def handle (op : String) (j : Json) : Option (Except String Json) :=
  match op with
  | "c06.est" => some do
      let specs ← getCors j
      let T ← rat j "T"
      let want ← wantList j
      -- construct the constituents first (they exist in the library before the estimate is made)
      let build (dflt : Rat) : Except String (Except String (List (Incomplete × Rat))) := do
        let mut cs : List (Incomplete × Rat) := []
        for (s, n) in specs do
          match Incomplete.mk (s.oracle.interp dflt) s.href s.sref s.pts s.tref s.range with
          | .error e => return .error ("constituent:" ++ errName e)
          | .ok c => cs := cs ++ [(c, n)]
        return .ok cs
      match ← build 0, ← build 1 with
      | .error m, _ => pure <| Json.mkObj [("mk", Json.str m)]
      | .ok cs, .ok cs' =>
        match Estimate.mk cs, Estimate.mk cs' with
        | .error e, _ => pure <| Json.mkObj [("mk", Json.str (errName e))]
        | .ok e, .ok e' =>
          let f (e : Estimate) (w : String) : Out :=
            if w == "cp" then e.CpoR T else if w == "h" then e.HoRT T else if w == "s" then e.SoR T else e.GoRT T
          agree want (f e) (f e')
          pure <| Json.mkObj ([("mk", Json.str "ok"), ("range", jrange e.range)] ++ want.map fun w => (w, jout (f e w)))
        | _, _ => throw "construction depends on oracle values"
      | _, _ => throw "construction depends on oracle values"
  | "c06.raw_set_range" => some do
      -- {"cor": <raw spec>, "newrange": [lo, hi], "T": rat, "want": [...]} ↦ {"mk", "set": "ok" | <err>, "range", outs}:
      -- the table correlation is constructed, its range is changed with `set_range`, then the getters are asked
      let s ← getSpec (← j.getObjVal? "cor")
      let T ← rat j "T"
      let want ← wantList j
      let nr ← match ← optRange j "newrange" with
        | some r => pure r
        | none => throw "newrange must be [lo, hi]"
      match s.href, s.sref with
      | some h, some sr =>
        match RawData.mk (s.oracle.interp 0) h sr s.pts s.tref s.range, RawData.mk (s.oracle.interp 1) h sr s.pts s.tref s.range with
        | .error e, _ => pure <| Json.mkObj [("mk", Json.str (errName e))]
        | .ok d, .ok d' =>
          let (st, a, a') : String × RawData × RawData :=
            match d.setRange nr, d'.setRange nr with
            | .ok x, .ok x' => ("ok", x, x')
            | .error e, _ => (errName e, d, d')
            | _, .error e => (errName e, d, d')
          agree want (rawFns a T) (rawFns a' T)
          pure <| Json.mkObj ([("mk", Json.str "ok"), ("set", Json.str st), ("range", jrange (some a.range))] ++
                              want.map fun w => (w, jout (rawFns a T w)))
        | _, _ => throw "construction depends on oracle values"
      | _, _ => throw "raw correlation needs href and sref"
  | "c06.check_arr" => some do
      let r ← optRange j "range"
      let ts ← ratList (← j.getObjVal? "Ts")
      pure <| Json.mkObj [("ok", Json.bool (match checkRangeArr r ts with | .ok _ => true | .error _ => false))]
  | "c06.range" => some do
      let a ← arr j "ranges"
      let rs ← a.toList.mapM fun e => match e with
        | Json.null => pure none
        | v => do
          match ← ratList v with
          | [lo, hi] => pure (some (lo, hi))
          | _ => throw "range must be [lo, hi]"
      let r := estRange rs
      pure <| Json.mkObj [("range", jrange r), ("accepted", Json.bool (baseInitOk r))]
  | _ => none

end PGA.Drv.C06
