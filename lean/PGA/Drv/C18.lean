import PGA.Drv.C13
import PGA.Model.YamlFormat
namespace PGA.Drv.C18
open Lean PGA.Drv PGA.Yaml PGA.Merge PGA.YamlFormat PGA.Drv.YamlJson

/-- exact half-even rounding to six significant decimal digits (what `'%g'` prints of a double, as a value) -/
partial def scaleTo (x : Rat) (k : Int) : Rat × Int :=
  -- find k with 10^5 ≤ x·10^k < 10^6 for x > 0
  if x ≥ 1000000 then scaleTo (x / 10) (k - 1)
  else if x < 100000 then scaleTo (x * 10) (k + 1)
  else (x, k)

def roundHalfEven (x : Rat) : Int :=
  let f := x.floor
  let r := x - f
  if r < 1/2 then f else if r > 1/2 then f + 1 else (if f % 2 = 0 then f else f + 1)

def round6 (x : Rat) : Rat :=
  if x = 0 then 0 else
  let a := if x < 0 then -x else x
  let (y, k) := scaleTo a 0
  let n : Rat := (roundHalfEven y : Int)
  let v := if k ≥ 0 then n / pow10 k.toNat else n * pow10 (-k).toNat
  if x < 0 then -v else v

partial def jtree : YVal → Json
  | .null => Json.null
  | .num q => jrat q
  | .qstr v u => Json.mkObj [("q", jrat v), ("u", Json.str u)]
  | .bad => Json.mkObj [("bad", Json.bool true)]
  | .seq l => Json.arr (l.map jtree).toArray
  | .map l => Json.mkObj [("m", Json.arr (l.map fun kv => Json.arr #[Json.str kv.1, jtree kv.2]).toArray)]

def optStr (j : Json) (k : String) : Option String :=
  match j.getObjVal? k with
  | .ok (.str s) => if s.isEmpty then none else some s
  | _ => none

def ferrStr : FErr → String
  | .unitsParse => "unitsParse"
  | .units => "units"
  | .attr => "attr"

def handle (op : String) (j : Json) : Option (Except String Json) :=
  match op with
  | "c18.format" => some do
      let c ← C13.corrOf (← j.getObjVal? "corr")
      let uj ← j.getObjVal? "units"
      let u : FmtUnits := ⟨optStr uj "H", optStr uj "S", optStr uj "Cp", (optStr uj "T").getD "K"⟩
      match yamlFormat unitTable gasR kelvin round6 c u with
      | .error e => pure <| Json.mkObj [("err", Json.str (ferrStr e))]
      | .ok t =>
        let loaded := match loadEntryLive [] (.map t) with
          | .ok l => Json.mkObj [("ok", jcorr jqv l)]
          | .error e => Json.mkObj [("err", Json.str (loadErrStr e))]
        pure <| Json.mkObj [("tree", jtree (.map t)), ("loaded", loaded)]
  | _ => none

end PGA.Drv.C18
