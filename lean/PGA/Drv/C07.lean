import PGA.Drv.EstimateCodec
namespace PGA.Drv.C07
open Lean PGA.Drv PGA.Drv.EstimateCodec

def handle (op : String) (j : Json) : Option (Except String Json) :=
  match op with
  | "c07.estimate" => some (runEstimate j)
  | "c07.corr" => some (runCorr j)
  | _ => none

end PGA.Drv.C07
