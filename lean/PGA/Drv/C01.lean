import PGA.Drv.EstimateCodec
namespace PGA.Drv.C01
open Lean PGA.Drv PGA.Drv.EstimateCodec

def handle (op : String) (j : Json) : Option (Except String Json) :=
  match op with
  | "c01.estimate" => some (runEstimate j)
  | "c01.corr" => some (runCorr j)
  | _ => none

end PGA.Drv.C01
