import PGA.Drv.Util
import PGA.Spec.SIExt
namespace PGA.Drv.C10
open Lean PGA.Drv PGA.Units

def jname (n : List Char) : Json := Json.str (String.ofList n)

def jdim (d : Dim) : Json := Json.arr (d.toList.map jrat).toArray

def jerr (e : Err) : Json :=
  Json.mkObj [("err", Json.str (match e with
    | .unitsParse => "unitsParse"
    | .unitsError => "unitsError"
    | .math => "math"
    | .internal .fuel => "internal:fuel"
    | .internal .intLimit => "internal:ValueError"
    | .internal .complexPower => "internal:complex"
    | .internal .attribute => "internal:AttributeError"
    | .internal .keyError => "internal:KeyError"))]

def jmag (m : Mag) : List (String × Json) :=
  match m with
  | .exact q => [("val", jrat q)]
  | .inexact neg => [("inexact", Json.bool neg)]

def jval (v : Val) : Json := Json.mkObj (jmag v.mag ++ [("dim", jdim v.dim)])

def jres (r : Res Val) : Json :=
  match r with
  | .ok v => jval v
  | .error e => jerr e

def jresMag (r : Res Mag) : Json :=
  match r with
  | .ok m => Json.mkObj (jmag m)
  | .error e => jerr e

def jtok (t : Tok) : Json := jname t.text

def subtrees : Tree → List Tree
  | .num q => [.num q]
  | .name s => [.name s]
  | .mul a b => .mul a b :: (subtrees a ++ subtrees b)
  | .div a b => .div a b :: (subtrees a ++ subtrees b)
  | .pow a x => .pow a x :: subtrees a

/-- for the harness only (what lies outside the decimal-literal abstraction): does some sub-expression have an exact
magnitude beyond 1e±150 (doubles may overflow/underflow on the way), or an inexact (irrational-power) magnitude? -/
def flags (cfg : Cfg) (s : List Char) : Json :=
  match parseTokens (lex s) with
  | .error _ => Json.mkObj []
  | .ok t =>
    let vals := (subtrees t).map (evalTree cfg)
    let big : Rat := (10 : Rat) ^ (150 : Nat)
    let extreme := vals.any fun r => match r with
      | .ok ⟨.exact q, _⟩ => q != 0 && (absR q > big || absR q < 1 / big)
      | _ => false
    let inexact := vals.any fun r => match r with
      | .ok ⟨.inexact _, _⟩ => true
      | _ => false
    Json.mkObj [("extreme", Json.bool extreme), ("inexactSub", Json.bool inexact)]

/-- the unit database of the SI reference table (`PGA/Spec/SI.lean`): every reference unit with its exact reference value,
the twenty SI prefixes, the documented snapping threshold (same definition as `PGA.C12.refCfg`, which the C12 table
obligations are stated over) -/
def refCfg : Cfg :=
  { thr := 1 / 10 ^ 7,
    prefixes := PGA.SI.prefixes.map fun pk => (pk.1, (10 : Rat) ^ pk.2),
    db := PGA.SI.units.map fun r => (r.name, ⟨.exact r.value, r.dim⟩) }

/-- a verdict of `PGA/Spec/SIExt.lean` on a unit the reference does not know -/
def jverdict (x : List Char × PGA.SI.Defn × PGA.SI.Verdict) : Json :=
  let dfn : List (String × Json) := match x.2.1 with
    | .text s => [("definition", jname s)]
    | .base m p => [("definition", Json.mkObj [("multiple", jrat m), ("primitive", jname p)])]
  let v : List (String × Json) := match x.2.2 with
    | .accepted r => [("verdict", Json.str "accepted"), ("value", jrat r.value), ("dim", jdim r.dim), ("tol", jrat r.tol)]
    | .ambiguous s => [("verdict", Json.str "ambiguous"), ("spelling", jname s)]
    | .badDefinition e => [("verdict", Json.str "bad_definition"), ("outcome", jerr e)]
    | .unsupported => [("verdict", Json.str "unsupported")]
    | .notAWord => [("verdict", Json.str "not_a_word")]
  Json.mkObj ([("name", jname x.1)] ++ dfn ++ v)

def handle (op : String) (j : Json) : Option (Except String Json) :=
  match op with
  | "c10.eval" => some do
      let t ← str j "text"
      pure ((jres (evalStr liveCfg t.toList)).setObjVal! "flags" (flags liveCfg t.toList))
  | "c10.eval_ref" => some do
      -- the same evaluator over the hand-written SI reference (nothing taken from the repository): the oracle of
      -- checks that must not inherit a changed unit definition
      let t ← str j "text"
      pure (jres (evalStr refCfg t.toList))
  | "c10.eval_ext" => some do
      -- the evaluator over the SI reference extended by the new units of the working tree that are consistent with
      -- their definitions (PGA/Spec/SIExt.lean): what a text means when it mentions a unit the reference does not know
      let t ← str j "text"
      pure (jres (evalStr PGA.SI.extCfg t.toList))
  | "c10.ext_table" => some do
      -- the verdicts on the live units the reference does not know, in registration order
      pure (Json.mkObj [("new", Json.arr (PGA.SI.liveVerdicts.map jverdict).toArray)])
  | "c10.tokens" => some do
      let t ← str j "text"
      pure (Json.arr ((lex t.toList).map jtok).toArray)
  | "c10.in_units" => some do
      -- Quantity.in_units / helpers.in_units: both operands given as expressions
      let q ← str j "qty"
      let u ← str j "units"
      match evalStr liveCfg q.toList with
      | .error e => pure (jerr e)
      | .ok qv =>
        match evalStr liveCfg u.toList with
        | .error e => pure (jerr e)
        | .ok uv => pure (jresMag (inUnits liveCfg.thr qv uv))
  | "c10.with_units" => some do
      let x ← rat j "x"
      let u ← str j "units"
      match evalStr liveCfg u.toList with
      | .error e => pure (jerr e)
      | .ok uv => pure (jval (withUnits liveCfg.thr x uv))
  | "c10.to_SI" => some do
      let x ← rat j "x"
      let u ← str j "units"
      match evalStr liveCfg u.toList with
      | .error e => pure (jerr e)
      | .ok uv => pure (jresMag (toSI x uv))
  | "c10.from_SI" => some do
      let x ← rat j "x"
      let u ← str j "units"
      match evalStr liveCfg u.toList with
      | .error e => pure (jerr e)
      | .ok uv => pure (jresMag (fromSI x uv))
  | "c10.si_table" => some do
      -- the hand-written reference (Spec/SI.lean), for the harness's property oracle
      let us := PGA.SI.units.map fun r => Json.mkObj [("name", jname r.name), ("value", jrat r.value),
        ("dim", jdim r.dim), ("tol", jrat r.tol)]
      let ps := PGA.SI.prefixes.map fun p => Json.mkObj [("name", jname p.1), ("exp", Json.num (JsonNumber.fromInt p.2))]
      let g := PGA.SI.gasConstant
      pure (Json.mkObj [("units", Json.arr us.toArray), ("prefixes", Json.arr ps.toArray),
        ("R", Json.mkObj [("value", jrat g.value), ("dim", jdim g.dim), ("tol", jrat g.tol)])])
  | _ => none

end PGA.Drv.C10
