import PGA.Drv.Util
import PGA.Model.RingParse
import PGA.Model.RingRead
import PGA.Gen.RingGrammar
/-! Driver ops of C09: `c09.parse` (the engine on the generated grammar). The text travels as a list
of code points (`"t": [102, 114, …]`) so that no JSON string escaping is involved. -/
namespace PGA.Drv.C09
open Lean PGA.Drv PGA.Ring

def ruleName (n : Nat) : String := (PGA.Gen.RingGrammar.ruleNames[n]?).getD s!"#{n}"

partial def astJson : Ast → Json
  | .node n kids => Json.mkObj [("n", Json.str (ruleName n)), ("c", Json.arr (kids.map astJson).toArray)]
  | .str s => Json.str (String.ofList s)
  | .int v => Json.mkObj [("i", Json.str (toString v))]

/-- the Python text of an expected-token entry (`null` for `None`) -/
def tokJson : Tok → Json
  | .none => Json.null
  | .lit s => Json.str ("'" ++ String.ofList s ++ "'")
  | .eos => Json.str "<end of string>"
  | .digit => Json.str "<digit>"
  | .number => Json.str "<number>"
  | .string => Json.str "<string>"
  | .named s => Json.str ("<" ++ String.ofList s ++ ">")

def internalName : Internal → String
  | .valueError => "ValueError"
  | .raiseNone => "TypeError"
  | .indexError => "IndexError"

def abortJson : Abort → Json
  | .stuck => Json.mkObj [("cls", "stuck")]
  | .missingRule n => Json.mkObj [("cls", "internal"), ("kind", "KeyError"), ("rule", Json.str (ruleName n))]
  | .hang => Json.mkObj [("cls", "hang")]
  | .internal k => Json.mkObj [("cls", "internal"), ("kind", Json.str (internalName k))]

def errJson (e : Err) : Json :=
  Json.mkObj [("cls", "syntax"), ("line", Json.num e.line), ("col", Json.num e.col),
              ("toks", Json.arr (e.toks.map tokJson).toArray)]

def getText (j : Json) : Except String (List Char) := do
  let a ← arr j "t"
  a.toList.mapM fun x => do
    let n ← x.getNat?
    pure (Char.ofNat n)

def grammarOf (j : Json) : Grammar :=
  match j.getObjValAs? Bool "strict" with
  | .ok true => PGA.Gen.RingGrammar.strict
  | _ => PGA.Gen.RingGrammar.enhanced

def handle (op : String) (j : Json) : Option (Except String Json) :=
  match op with
  | "c09.parse" => some do
      let t ← getText j
      match parse (grammarOf j) t with
      | .accepted ast fin => pure <| Json.mkObj [("cls", "ok"), ("ast", astJson ast), ("idx", Json.num fin.idx),
                                                  ("line", Json.num fin.line), ("col", Json.num fin.col)]
      | .syntaxError e => pure (errJson e)
      | .abort a => pure (abortJson a)
  | "c09.read" => some do
      let t ← getText j
      let pj := match parse (grammarOf j) t with
        | .accepted ast fin => Json.mkObj [("cls", "ok"), ("ast", astJson ast), ("idx", Json.num fin.idx),
                                            ("line", Json.num fin.line), ("col", Json.num fin.col)]
        | .syntaxError e => errJson e
        | .abort a => abortJson a
      let rj := match read t with
        | .query (.mol q) => Json.mkObj [("cls", "query"), ("kind", "MolQuery"), ("atoms", Json.num q.labels.length),
            ("bonds", Json.num q.bonds.length), ("labels", Json.arr (q.labels.map fun l => Json.str (String.ofList l)).toArray)]
        | .query (.rxn s) =>
            let qs := s.rq.map fun e => e.2
            let na : Nat := (qs.map fun q => q.labels.length).sum
            let nb : Nat := (qs.map fun q => q.bonds.length).sum
            Json.mkObj [("cls", "query"), ("kind", "ReactionQuery"), ("reactants", Json.num s.rq.length),
              ("atoms", Json.num na), ("bonds", Json.num nb),
              ("transformations", Json.num s.ntrans)]
        | .syntaxError e => errJson e
        | .readerError => Json.mkObj [("cls", "reader")]
        | .notImplemented => Json.mkObj [("cls", "notimpl")]
        | .internal => Json.mkObj [("cls", "internal")]
        | .hang => Json.mkObj [("cls", "hang")]
      pure <| Json.mkObj [("parse", pj), ("read", rj)]
  | _ => none

end PGA.Drv.C09
