import PGA.Drv.YamlJson
import PGA.Model.Merge
namespace PGA.Drv.C13
open Lean PGA.Drv PGA.Yaml PGA.Merge PGA.Drv.YamlJson

def optRat (j : Json) (k : String) : Except String (Option Rat) :=
  match j.getObjVal? k with
  | .ok .null => pure none
  | .ok v => do let r ← getRat v; pure (some r)
  | .error _ => pure none

/-- {"H": rat|null, "S": rat|null, "cp": [[T, v]..] (dictionary order), "Tref": rat, "range": [lo, hi]|null} -/
def corrOf (j : Json) : Except String Corr := do
  let H ← optRat j "H"
  let S ← optRat j "S"
  let cpj ← arr j "cp"
  let cp ← cpj.toList.mapM fun p => do
    let T ← getRat (← p.getArrVal? 0)
    let v ← getRat (← p.getArrVal? 1)
    pure (T, v)
  let Tref ← rat j "Tref"
  let range ← match j.getObjVal? "range" with
    | .ok (.arr a) => do
      let lo ← getRat (← (Json.arr a).getArrVal? 0)
      let hi ← getRat (← (Json.arr a).getArrVal? 1)
      pure (some (lo, hi))
    | _ => pure none
  pure ⟨H, S, cp, Tref, range⟩

def uerrStr : UErr → String
  | .readOnly => "readOnly"
  | .value => "value"
  | .assertion => "assertion"
  | .incomplete => "incomplete"
  | .zeroDiv => "zeroDiv"

def lerrStr : LErr → String
  | .load e => loadErrStr e
  | .key => "key"
  | .groupSyntax => "groupSyntax"
  | .groupValue => "groupValue"
  | .upd e => uerrStr e
  | .unmodelled => "unmodelled"

/-- the driver is only asked about merges whose reference temperatures agree; away from `T_ref` no value is available -/
def noEval : RawEval := ⟨fun _ _ _ _ _ => 0, fun _ _ _ _ _ => 0⟩

def jobj (o : Obj) : Json := Json.mkObj [("state", jcorr jrat o.c), ("built", Json.bool o.built)]

def jlib (l : Lib) : Json :=
  Json.arr (l.map fun (kv : GroupName.Name × Option Obj) =>
    Json.arr #[jstr kv.1, match kv.2 with | none => Json.null | some o => jobj o]).toArray

def jerr (e : Option UErr) : Json := match e with | none => Json.null | some e => Json.str (uerrStr e)

def setAt {α : Type} (l : List α) (i : Nat) (x : α) : List α := l.set i x

/-- run update operations over a universe of objects -/
def runSeq (objs : List Obj) (ops : List (Nat × Nat × Bool)) : Except String (List Json) :=
  let rec go (objs : List Obj) (ops : List (Nat × Nat × Bool)) (acc : List Json) : Except String (List Json) :=
    match ops with
    | [] => pure acc.reverse
    | (t, s, ow) :: rest =>
      match objs[t]?, objs[s]? with
      | some a, some b =>
        if a.c.Tref ≠ b.c.Tref then throw "c13.seq: reference temperatures differ" else
        let r := update noEval a b.c ow
        go (objs.set t r.1) rest (Json.mkObj [("err", jerr r.2), ("obj", jobj r.1)] :: acc)
      | _, _ => throw "index"
  go objs ops []

def runLibSeq (libs : List Lib) (ops : List (Nat × Nat × Bool)) : Except String (List Json) :=
  let rec go (libs : List Lib) (ops : List (Nat × Nat × Bool)) (acc : List Json) : Except String (List Json) :=
    match ops with
    | [] => pure acc.reverse
    | (t, s, ow) :: rest =>
      match libs[t]?, libs[s]? with
      | some a, some b =>
        let r := libUpdate noEval ow a b
        go (libs.set t r.1) rest (Json.mkObj [("err", jerr r.2), ("lib", jlib r.1)] :: acc)
      | _, _ => throw "index"
  go libs ops []

def opsOf (j : Json) : Except String (List (Nat × Nat × Bool)) := do
  let a ← arr j "ops"
  a.toList.mapM fun o => do
    let t ← (← o.getArrVal? 0).getNat?
    let s ← (← o.getArrVal? 1).getNat?
    let w ← (← o.getArrVal? 2).getBool?
    pure (t, s, w)

/-- {"units": [[kind, unit]..], "groups": [[name, property-sets tree]..], "include": [file..]} -/
partial def fileOf (j : Json) : Except String (GroupsD × Incs) := do
  let units ← unitsOf j "units"
  let gs ← arr j "groups"
  let groups ← gs.toList.mapM fun g => do
    let name ← (← g.getArrVal? 0).getStr?
    let tree ← yval (← g.getArrVal? 1)
    pure (name.toList, loadPropertySetsLive units tree)
  let incs ← arr j "include"
  let subs ← incs.toList.mapM fileOf
  pure (groups, subs.foldr (fun (f : GroupsD × Incs) acc => Incs.cons f.1 f.2 acc) Incs.nil)

def objOf (j : Json) : Except String Obj := do
  let c ← corrOf j
  match mk c.H c.S c.cp c.Tref c.range with
  | .ok o => pure o
  | .error e => throw s!"object is not constructible: {uerrStr e}"

def libOf (j : Json) : Except String Lib := do
  let a ← j.getArr?
  a.toList.mapM fun g => do
    let name ← (← g.getArrVal? 0).getStr?
    let v ← g.getArrVal? 1
    match v with
    | .null => pure (name.toList, none)
    | _ => do let o ← objOf v; pure (name.toList, some o)

def handle (op : String) (j : Json) : Option (Except String Json) :=
  match op with
  | "c13.seq" => some do
      let os ← arr j "objs"
      let objs ← os.toList.mapM objOf
      let ops ← opsOf j
      let r ← runSeq objs ops
      pure (Json.arr r.toArray)
  | "c13.libseq" => some do
      let ls ← arr j "libs"
      let libs ← ls.toList.mapM libOf
      let ops ← opsOf j
      let r ← runLibSeq libs ops
      pure (Json.arr r.toArray)
  | "c13.load" => some do
      let (groups, incs) ← fileOf (← j.getObjVal? "file")
      match loadFile noEval groups incs with
      | .ok l => pure <| Json.mkObj [("ok", jlib l)]
      | .error e => pure <| Json.mkObj [("err", Json.str (lerrStr e))]
  | "c13.mk" => some do
      let c ← corrOf (← j.getObjVal? "corr")
      match mk c.H c.S c.cp c.Tref c.range with
      | .ok o => pure <| Json.mkObj [("ok", jobj o)]
      | .error e => pure <| Json.mkObj [("err", Json.str (uerrStr e))]
  | _ => none

end PGA.Drv.C13
