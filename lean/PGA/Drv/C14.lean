import PGA.Drv.Util
import PGA.Model.Paths
import PGA.Model.LibTable
import PGA.Model.LibThermo
import PGA.Gen.LibData
namespace PGA.Drv.C14
open Lean PGA.Drv PGA.Paths PGA.LibTable

def optStr (j : Json) (k : String) : Option String :=
  match j.getObjVal? k with
  | .ok (Json.str s) => some s
  | _ => none

def handle (op : String) (j : Json) : Option (Except String Json) :=
  match op with
  | "c14.resolve" => some do
      let ex ← strs j "exists"
      let d ← str j "dataDir"
      let p ← str j "path"
      let r := resolveLibrary (fun q => ex.contains q) d p
      pure <| Json.mkObj [("library", r.libraryFile), ("base", r.basePath), ("scheme", r.schemeFile)]
  | "c14.datadir" => some do
      let dirs ← strs j "dirs"
      let (r, c) := getDataDir (optStr j "cache") (optStr j "env") (optStr j "pkg") (fun q => dirs.contains q)
      let cj : Json := match c with | some s => Json.str s | none => Json.null
      match r with
      | .ok d => pure <| Json.mkObj [("ok", d), ("cache", cj)]
      | .error .notADirectory => pure <| Json.mkObj [("err", "notADirectory"), ("cache", cj)]
      | .error .cannotLocate => pure <| Json.mkObj [("err", "cannotLocate"), ("cache", cj)]
  | "c14.wfgroups" => some do
      let lib ← str j "lib"
      match PGA.Gen.LibData.allGroups.find? (fun p => p.1 == lib) with
      | none => throw s!"unknown library {lib}"
      | some (_, gs) =>
        pure <| Json.arr (gs.map fun g => Json.mkObj [("name", g.name), ("wf", wfGroup g)]).toArray
  | "c14.correlations" => some do
      -- every record of a library through the constructors of the thermo model (C14-T1): outcome and effective range
      let lib ← str j "lib"
      match PGA.Gen.LibData.allGroups.find? (fun p => p.1 == lib) with
      | none => throw s!"unknown library {lib}"
      | some (_, gs) =>
        let ip : PGA.Thermo.Interp := ⟨fun _ => 0, fun _ _ => 0, fun _ _ => 0, fun _ _ => 0⟩
        pure <| Json.arr (gs.filter (·.hasThermo) |>.map fun g =>
          let out : Json := match g.correlation ip with
            | .ok c => Json.mkObj [("ok", true), ("hasCorr", c.corr.isSome), ("npts", c.cp.length)]
            | .error e => Json.mkObj [("ok", false), ("err", Json.str (reprStr e))]
          let rng : Json := match effRange g with
            | some (lo, hi) => Json.arr #[jrat lo, jrat hi]
            | none => Json.null
          Json.mkObj [("name", g.name), ("out", out), ("range", rng)]).toArray
  | "c14.remaps" => some do
      let lib ← str j "lib"
      match PGA.Gen.LibData.allRemaps.find? (fun p => p.1 == lib) with
      | none => throw s!"unknown library {lib}"
      | some (_, rs) =>
        pure <| Json.mkObj [("wf", rs.all wfRemap), ("chainFree", chainFree rs),
                            ("keysDistinct", keysDistinct (rs.map (·.key))), ("n", rs.length)]
  | _ => none

end PGA.Drv.C14
