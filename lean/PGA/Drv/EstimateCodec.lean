import PGA.Drv.Util
import PGA.Model.Estimate
import PGA.Gen.Pmutt
import PGA.Gen.Uq
/-! JSON codec shared by the handlers of C01, C07 and C20 (all three run the model `PGA.Model.Estimate`).

Request `{"op": "c01.estimate" | "c07.estimate" | "c20.estimate", "lib": {...}, "registered": [...], "groups": [[name, rat]...],
"set": s, "T": rat, "units": [u...], "flags": [f...]}`; per-group correlation values at `T` travel as data
(`{"ok": rat}` / `{"err": class}`), a `null` correlation is one the harness did not evaluate: the model
answers `notSupplied` if it ever asks for it. -/
namespace PGA.Drv.EstimateCodec
open Lean PGA.Drv PGA.Estimate

/-- this module only provides helpers -/
def handle (_ : String) (_ : Json) : Option (Except String Json) := none

def errName : Err → String
  | .incomplete => "incomplete" | .unitsF12 => "unitsF12" | .internal => "internal"
  | .notSupplied => "notSupplied" | .badUnits => "badUnits" | .noMolecule => "noMolecule"
  | .noElement z => s!"noElement:{z}" | .noUQ => "noUQ"

def jval : Val → Json
  | .ok v => Json.mkObj [("ok", jrat v)]
  | .error e => Json.mkObj [("err", Json.str (errName e))]

def getVal (j : Json) : Except String Val := do
  match j.getObjVal? "ok" with
  | .ok v => pure (.ok (← getRat v))
  | .error _ =>
    let e ← j.getObjValAs? String "err"
    match e with
    | "incomplete" => pure (.error .incomplete)
    | "unitsF12" => pure (.error .unitsF12)
    | "internal" => pure (.error .internal)
    | _ => throw s!"unknown error class {e}"

def getRange (j : Json) : Except String (Option (Rat × Rat)) := do
  match j with
  | .null => pure none
  | .arr #[a, b] => pure (some (← getRat a, ← getRat b))
  | _ => throw "bad range"

def jrange : Option (Rat × Rat) → Json
  | none => Json.null
  | some (a, b) => Json.arr #[jrat a, jrat b]

def poison : Corr := ⟨fun _ => .error .notSupplied, fun _ => .error .notSupplied, fun _ => .error .notSupplied, none⟩

/-- a correlation evaluated by the harness at the one temperature of the request -/
def getCorr (j : Json) : Except String Corr := do
  match j with
  | .null => pure poison
  | _ =>
    let cp ← getVal (← j.getObjVal? "cp")
    let h ← getVal (← j.getObjVal? "h")
    let s ← getVal (← j.getObjVal? "s")
    let r ← getRange (← j.getObjVal? "range")
    pure ⟨fun _ => cp, fun _ => h, fun _ => s, r⟩

def getSets (j : Json) : Except String (List (String × Corr)) := do
  let a ← j.getArr?
  a.toList.mapM fun x => do
    match x with
    | .arr #[n, c] => pure (← n.getStr?, ← getCorr c)
    | _ => throw "bad property set entry"

def getEntries (j : Json) : Except String (List (String × List (String × Corr))) := do
  let a ← j.getArr?
  a.toList.mapM fun x => do
    match x with
    | .arr #[n, ps] => pure (← n.getStr?, ← getSets ps)
    | _ => throw "bad library entry"

def getRatRow (j : Json) : Except String (List Rat) := do
  let a ← j.getArr?
  a.toList.mapM getRat

def shippedMat (name : String) : Option (List (List Rat)) :=
  match PGA.Gen.Uq.libs.find? (fun l => l.1 == name.toList) with
  | some (_, _, m, _) => some (m.map (·.map Dec.toRat))
  | none => none

def getUQ (j : Json) : Except String (Option (UQ String)) := do
  match j with
  | .null => pure none
  | _ =>
    let rmse ← getCorr (← j.getObjVal? "rmse")
    let basis ← strs j "basis"
    let dof ← int j "dof"
    let mat ← match j.getObjVal? "mat" with
      | .ok (.arr rows) => rows.toList.mapM getRatRow
      | _ => do
        let nm ← str j "matlib"
        match shippedMat nm with
        | some m => pure m
        | none => throw s!"no generated uncertainty matrix for {nm}"
    pure (some ⟨rmse, basis, mat, dof⟩)

def getAtoms (j : Json) : Except String (Option (List Nat)) := do
  match j with
  | .null => pure none
  | .arr a => pure (some (← a.toList.mapM fun x => x.getNat?))
  | _ => throw "bad atoms"

def getLib (j : Json) : Except String (Library String String) := do
  let entries ← getEntries (← j.getObjVal? "entries")
  let uq ← getUQ (← j.getObjVal? "uq")
  let name ← getAtoms (← j.getObjVal? "name")
  pure ⟨entries, uq, name⟩

def getGroups (j : Json) : Except String (List (String × Rat)) := do
  let a ← j.getArr?
  a.toList.mapM fun x => do
    match x with
    | .arr #[n, c] => pure (← n.getStr?, ← getRat c)
    | _ => throw "bad mapping entry"

def getFlag (j : Json) : Except String PyFlag := do
  match j with
  | .null => pure .none
  | .bool b => pure (.bool b)
  | .str s => pure (.str (!s.isEmpty))
  | .num _ => pure (.int (← j.getInt?))
  | _ => throw "bad flag"

/-- the regenerated pmutt tables as the model consumes them -/
def rTable : RTable := PGA.Gen.Pmutt.rTable.map fun p => (p.1, p.2.toRat)
def selTable (z : Nat) : Option Rat := (PGA.Gen.Pmutt.sElements.lookup z).map Dec.toRat

def jEstErr : EstErr String → Json
  | .invalidSet => Json.mkObj [("kind", "invalidSet")]
  | .missing gs => Json.mkObj [("kind", "missing"), ("groups", Json.arr (gs.map Json.str).toArray)]
  | .keyError => Json.mkObj [("kind", "keyError")]
  | .notInBasis g => Json.mkObj [("kind", "notInBasis"), ("group", Json.str g)]
  | .shape => Json.mkObj [("kind", "shape")]
  | .emptyRange => Json.mkObj [("kind", "emptyRange")]

/-- the dimensional getters of one object for one unit string and one flag -/
def jDim (o : ND) (T : Rat) (u : String) (f : PyFlag) : Json :=
  Json.mkObj [("H", jval (o.H rTable T u.toList)), ("G", jval (o.G rTable T u.toList f)),
              ("S", jval (o.Sdim rTable T u.toList f)), ("Cp", jval (o.Cp rTable T u.toList))]

def jND (o : ND) (T : Rat) (units : List String) (flags : List PyFlag) : List (String × Json) :=
  [("cp", jval (o.cp T)), ("h", jval (o.hort T)),
   ("s", Json.arr (flags.map fun f => jval (o.sor T f)).toArray),
   ("g", Json.arr (flags.map fun f => jval (o.GoRT T f)).toArray),
   ("dim", Json.arr (units.map fun u => Json.arr (flags.map fun f => jDim o T u f).toArray).toArray)]

/-- run `Estimate` and every getter the three properties observe -/
def runEstimate (j : Json) : Except String Json := do
  let lib ← getLib (← j.getObjVal? "lib")
  let reg ← strs j "registered"
  let groups ← getGroups (← j.getObjVal? "groups")
  let s ← str j "set"
  let T ← rat j "T"
  let units ← (strs j "units" <|> pure [])
  let flags ← match j.getObjVal? "flags" with
    | .ok (.arr a) => a.toList.mapM getFlag
    | _ => pure [PyFlag.none]
  match estimate reg lib groups s with
  | .error e => pure (Json.mkObj [("err", jEstErr e)])
  | .ok e =>
    let o := e.toND selTable
    let uq := match e.uq with
      | none => Json.null
      | some u => Json.mkObj [("q", jrat u.q), ("dof", Json.num (JsonNumber.fromInt u.dof))]
    pure (Json.mkObj [("ok", Json.mkObj (jND o T units flags ++
      [("range", jrange e.range), ("n", Json.num (JsonNumber.fromNat e.correlations.length)), ("uq", uq),
       ("se2", Json.mkObj [("cp", jval (e.CpoR_SE2 T)), ("h", jval (e.HoRT_SE2 T)), ("s", jval (e.SoR_SE2 T))])]))])

/-- the getters of a group's own correlation -/
def runCorr (j : Json) : Except String Json := do
  let c ← getCorr (← j.getObjVal? "corr")
  let T ← rat j "T"
  let units ← (strs j "units" <|> pure [])
  let flags ← match j.getObjVal? "flags" with
    | .ok (.arr a) => a.toList.mapM getFlag
    | _ => pure [PyFlag.none]
  pure (Json.mkObj (jND c.toND T units flags))

end PGA.Drv.EstimateCodec
