import Lean.Data.Json
/-! Helpers shared by the driver handlers (line protocol: one JSON object in, one out). -/
namespace PGA.Drv
open Lean

def str (j : Json) (k : String) : Except String String := j.getObjValAs? String k
def nat (j : Json) (k : String) : Except String Nat := j.getObjValAs? Nat k
def int (j : Json) (k : String) : Except String Int := j.getObjValAs? Int k
def arr (j : Json) (k : String) : Except String (Array Json) := j.getObjValAs? (Array Json) k
def strs (j : Json) (k : String) : Except String (List String) := do
  let a ← arr j k
  a.toList.mapM fun x => x.getStr?

def jstr (s : List Char) : Json := Json.str (String.ofList s)
def jstrs (l : List (List Char)) : Json := Json.arr (l.map jstr).toArray

/-- exact rational as {"n": "<int>", "d": "<nat>"} (strings: no 2^53 limit on the Python side) -/
def jrat (q : Rat) : Json := Json.mkObj [("n", Json.str (toString q.num)), ("d", Json.str (toString q.den))]

def getRat (j : Json) : Except String Rat := do
  let n ← j.getObjValAs? String "n"
  let d ← j.getObjValAs? String "d"
  match n.toInt?, d.toNat? with
  | some n, some d => if d = 0 then throw "zero denominator" else pure (mkRat n d)
  | _, _ => throw "bad rational"

def rat (j : Json) (k : String) : Except String Rat := do
  getRat (← j.getObjVal? k)

abbrev Handler := Json → Except String Json

end PGA.Drv
