import PGA.Drv.EstimateCodec
namespace PGA.Drv.C20
open Lean PGA.Drv PGA.Drv.EstimateCodec

def handle (op : String) (j : Json) : Option (Except String Json) :=
  match op with
  | "c20.estimate" => some (runEstimate j)
  | "c20.corr" => some (runCorr j)
  | _ => none

end PGA.Drv.C20
