import PGA.Drv.Util
import PGA.Model.Qty
namespace PGA.Drv.C11
open Lean PGA.Drv PGA.Units PGA.Qty

def getDim (j : Json) : Except String Dim := do
  let a ← j.getArr?
  let l ← a.toList.mapM getRat
  match l with
  | [m, kg, s, A, K, mol, cd] => pure ⟨m, kg, s, A, K, mol, cd⟩
  | _ => throw "dimension needs 7 exponents"

/-- operand: {"val": rat, "dim": [...]} or {"arr": [rat, ...], "dim": [...]} -/
def getQ (j : Json) : Except String Q := do
  let d ← getDim (← j.getObjVal? "dim")
  match j.getObjVal? "val" with
  | .ok v => pure ⟨.scalar (← getRat v), d⟩
  | .error _ =>
    let a ← (← j.getObjVal? "arr").getArr?
    let l ← a.toList.mapM getRat
    pure ⟨.array l, d⟩

def jdim (d : Dim) : Json := Json.arr (d.toList.map jrat).toArray

def jerr (e : QErr) : Json :=
  Json.mkObj [("err", Json.str (match e with
    | .unitsError => "unitsError"
    | .typeError => "internal:TypeError"
    | .math => "math"
    | .nonfinite => "nonfinite"
    | .broadcast => "internal:ValueError"
    | .complexPower => "internal:complex"))]

def jout (o : Out) : Json :=
  match o with
  | .val (.scalar q) d => Json.mkObj [("val", jrat q), ("dim", jdim d)]
  | .val (.array l) d => Json.mkObj [("arr", Json.arr (l.map jrat).toArray), ("dim", jdim d)]
  | .inexact none d => Json.mkObj [("inexact", Json.null), ("dim", jdim d)]
  | .inexact (some n) d => Json.mkObj [("inexact", Json.num (JsonNumber.fromNat n)), ("dim", jdim d)]
  | .bool b => Json.mkObj [("bool", Json.bool b)]
  | .bools l => Json.mkObj [("bools", Json.arr (l.map Json.bool).toArray)]
  | .err e => jerr e

def opOf (s : String) : Except String Op :=
  match s with
  | "eq" => pure .eq | "ne" => pure .ne | "lt" => pure .lt | "le" => pure .le | "gt" => pure .gt | "ge" => pure .ge
  | "add" => pure .add | "sub" => pure .sub | "mul" => pure .mul | "div" => pure .div | "pow" => pure .pow
  | _ => throw s!"unknown operator {s}"

def handle (op : String) (j : Json) : Option (Except String Json) :=
  match op with
  | "c11.binop" => some do
      let o ← opOf (← str j "operator")
      let a ← getQ (← j.getObjVal? "a")
      let b ← getQ (← j.getObjVal? "b")
      pure (jout (binop liveCfg.thr o a b))
  | "c11.unop" => some do
      let o ← str j "operator"
      let a ← getQ (← j.getObjVal? "a")
      match o with
      | "neg" => pure (jout (neg a))
      | "abs" => pure (jout (PGA.Qty.abs a))
      | _ => throw s!"unknown operator {o}"
  | "c11.in_units" => some do
      let a ← getQ (← j.getObjVal? "a")
      let u ← getQ (← j.getObjVal? "b")
      pure (jout (inUnits liveCfg.thr a u))
  | "c11.has_units" => some do
      let a ← getQ (← j.getObjVal? "a")
      let u ← getQ (← j.getObjVal? "b")
      pure (jout (.bool (hasUnitsOf liveCfg.thr a u)))
  | _ => none

end PGA.Drv.C11
