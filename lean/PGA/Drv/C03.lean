import PGA.Drv.MolJson
import PGA.Drv.C02
import PGA.Model.Aromatize
import PGA.Spec.MolIso
/-! Driver op of C03: `c03.aromatize` `{mol, rings?}` → `{arom: [0/1 per atom], kinds: [kind per bond], eligible: [0/1 per ring], disjoint: guard of C03_aromatize_order_partial}`
— the Benson perception alone, on the graph's own ring order or on a supplied one. -/
namespace PGA.Drv.C03
open Lean PGA PGA.Drv

def handle (op : String) (j : Json) : Option (Except String Json) :=
  match op with
  | "c03.aromatize" => some do
      let m ← molOfJson (← j.getObjVal? "mol")
      let rs ← match j.getObjVal? "rings" with
        | .ok r => (← r.getArr?).toList.mapM natsOf
        | .error _ => pure m.rings
      let m' := Arom.aromatizeRings rs m
      pure <| Json.mkObj [
        ("arom", Json.arr (m'.atoms.map fun a => Json.num (if a.aromatic then 1 else 0 : Nat)).toArray),
        ("kinds", Json.arr (m'.bonds.map fun e => Json.str (C02.kindName e.kind)).toArray),
        ("eligible", Json.arr (rs.map fun r => Json.num (if Arom.eligible m r then 1 else 0 : Nat)).toArray),
        ("wf", m.wf), ("bonded", m.ringsBonded),
        ("disjoint", decide (Spec.BondDisjointEligible m rs))]
  | _ => none

end PGA.Drv.C03
