import PGA.Drv.Util
import PGA.Model.GroupName
namespace PGA.Drv.C19
open Lean PGA.Drv PGA.GroupName

def handle (op : String) (j : Json) : Option (Except String Json) :=
  match op with
  | "c19.parse" => some do
      let t ← str j "text"
      match parse t.toList with
      | .ok g => pure <| Json.mkObj [("ok", Json.mkObj [("csg", jstr g.csg), ("psgs", jstrs g.psgs), ("name", jstr g.name)])]
      | .error .syntax => pure <| Json.mkObj [("err", "syntax")]
      | .error .value => pure <| Json.mkObj [("err", "value")]
  | "c19.canon" => some do
      let c ← str j "csg"
      let ps ← strs j "psgs"
      pure <| Json.mkObj [("name", jstr (canon c.toList (ps.map String.toList)))]
  | _ => none

end PGA.Drv.C19
