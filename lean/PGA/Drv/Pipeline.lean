import PGA.Drv.C02
import PGA.Drv.EstimateCodec
import PGA.Model.Pipeline
/-! Driver ops of the pipeline theorems (`Props/Pipeline.lean`), used by the harnesses of C03 and C04.

`pipe.estimate_batch` `{scheme: {centres, descs, remaps} (as c02.full_batch), lib: {entries, uq, name} (as c01.estimate;
every correlation evaluated by the harness at the one temperature of the request), registered, set, T, flags, mols: [graph…]}`:
the composed model `PGA.Pipeline.pipeline` — the scheme's trees are read once, every raw graph is aromatised, matched,
decomposed, and the resulting counts go through `estimate`; reply `{res: [r…], schemewf, nostar, nomolprefix, connected}` with
`r = {decomp: "patternMatch"} | {esterr: {...}, counts} | {ok: {cp, h, s[flag], g[flag], range, n, uq}, counts}` plus the
guards `wf`, `bonded`, `maxraw` of the composition theorems.

`pipe.load_keys` `{groups: [name…], descs: [name…]}`: how `_do_load` keys a library (`PGA.Pipeline.loadContents`):
`{ok: [key…]} | {err: class}`. -/
namespace PGA.Drv.Pipeline
open Lean PGA PGA.Drv PGA.Scheme PGA.Estimate PGA.Drv.EstimateCodec

def jcounts (c : Counts) : Json := Json.arr (c.map fun p => Json.arr #[Json.str p.1, jrat p.2]).toArray

/-- one molecule: `PGA.Pipeline.pipeline reg S lib m set` and the getters at `T` -/
def one (reg : List String) (S : Decompose.SchemeDef) (lib : PGA.Pipeline.Lib) (set : String) (T : Rat)
    (flags : List PyFlag) (m : Mol) : Json :=
  let guards : List (String × Json) :=
    [("wf", m.wf), ("bonded", m.ringsBonded), ("maxraw", Decompose.maxRaw S (aromatizeBenson m))]
  -- the counts are reported for diagnosis; the outcome is the composed model's
  let counts : List (String × Json) := match (PGA.Pipeline.getDescriptors S lib m).2 with
    | .ok c => [("counts", jcounts c)]
    | .error _ => []
  let out : List (String × Json) := match PGA.Pipeline.pipeline reg S lib m set with
    | .error .patternMatch => [("decomp", "patternMatch")]
    | .error (.estimate e) => [("esterr", jEstErr e)]
    | .ok e =>
      let o := e.toND selTable
      let uq := match e.uq with
        | none => Json.null
        | some u => Json.mkObj [("q", jrat u.q), ("dof", Json.num (JsonNumber.fromInt u.dof))]
      [("ok", Json.mkObj (jND o T [] flags ++
        [("range", jrange e.range), ("n", Json.num (JsonNumber.fromNat e.correlations.length)), ("uq", uq)]))]
  Json.mkObj (out ++ counts ++ guards)

def loadErrName : PGA.Pipeline.LoadErr → String
  | .syntax => "syntax" | .value => "value" | .duplicate _ => "duplicate"

def handle (op : String) (j : Json) : Option (Except String Json) :=
  match op with
  | "pipe.estimate_batch" => some do
      let src ← C02.schemeSrc (← j.getObjVal? "scheme")
      let lib ← getLib (← j.getObjVal? "lib")
      let reg ← strs j "registered"
      let set ← str j "set"
      let T ← rat j "T"
      let flags ← match j.getObjVal? "flags" with
        | .ok (.arr a) => a.toList.mapM getFlag
        | _ => pure [PyFlag.none]
      let mols ← (← arr j "mols").toList.mapM molOfJson
      match src.load with
      | .error e => pure <| Json.mkObj [("loaderr", C02.readErrName e)]
      | .ok S => pure <| Json.mkObj [("res", Json.arr (mols.map (one reg S lib set T flags)).toArray),
          ("schemewf", S.wf), ("nostar", S.noStar), ("nomolprefix", S.noMolPrefix), ("connected", S.connected)]
  | "pipe.load_keys" => some do
      let gs ← strs j "groups"
      let ds ← strs j "descs"
      match PGA.Pipeline.loadContents (gs.map fun g => (g.toList, ())) (ds.map fun d => (d, ())) with
      | .error e => pure <| Json.mkObj [("err", loadErrName e)]
      | .ok c => pure <| Json.mkObj [("ok", Json.arr (c.map fun p => Json.str p.1).toArray)]
  | _ => none

end PGA.Drv.Pipeline
