import PGA.Drv.C02
import PGA.Drv.EstimateCodec
import PGA.Model.Pipeline
/-! Driver ops of the pipeline theorems (`Props/Pipeline.lean`), used by the harnesses of C03 and C04.

`pipe.estimate_batch` `{scheme: {centres, descs, remaps} (as c02.full_batch), libs: [{T, lib: {entries, uq, name}}] (each as
c01.estimate: the same library with every correlation evaluated by the harness at that temperature), registered, set, flags,
mols: [graph…]}`: the composed model `PGA.Pipeline.pipeline` — the scheme's trees are read once, every raw graph is aromatised,
matched, decomposed, and the resulting counts go through `estimate` once per temperature; reply
`{res: [r…], schemewf, nostar, nomolprefix, connected}` with `r = {at: [o per T], counts?, wf, bonded, maxraw}` and
`o = {decomp: "patternMatch"} | {esterr: {...}} | {ok: {cp, h, s[flag], g[flag], range, n, uq}}` (`wf`, `bonded`, `maxraw`: the
guards of the composition theorems).

`pipe.load_keys` `{groups: [name…], descs: [name…]}`: how `_do_load` keys a library (`PGA.Pipeline.loadContents`):
`{ok: [key…]} | {err: class}`. -/
namespace PGA.Drv.Pipeline
open Lean PGA PGA.Drv PGA.Scheme PGA.Estimate PGA.Drv.EstimateCodec

def jcounts (c : Counts) : Json := Json.arr (c.map fun p => Json.arr #[Json.str p.1, jrat p.2]).toArray

/-- the outcome of `PGA.Pipeline.estimateOf` (the second half of `pipeline`) and the getters at `T` -/
def jOutcome (T : Rat) (flags : List PyFlag) (r : Except PGA.Pipeline.Err Estimator) : Json :=
  match r with
  | .error .patternMatch => Json.mkObj [("decomp", "patternMatch")]
  | .error (.estimate e) => Json.mkObj [("esterr", jEstErr e)]
  | .ok e =>
    let o := e.toND selTable
    let uq := match e.uq with
      | none => Json.null
      | some u => Json.mkObj [("q", jrat u.q), ("dof", Json.num (JsonNumber.fromInt u.dof))]
    Json.mkObj [("ok", Json.mkObj (jND o T [] flags ++
      [("range", jrange e.range), ("n", Json.num (JsonNumber.fromNat e.correlations.length)), ("uq", uq)]))]

/-- one molecule under the library evaluated at several temperatures: `PGA.Pipeline.pipeline reg S lib_T m set` for every `T`.
The decomposition does not depend on the library, so `decompose` is run once per molecule and `estimateOf` once per temperature
(on that temperature's library with the molecule on record: `remember`); that this is `pipeline` is
`PGA.Pipeline.PIPE_driver_computes_pipeline`. -/
def one (reg : List String) (S : Decompose.SchemeDef) (libs : List (Rat × PGA.Pipeline.Lib)) (set : String)
    (flags : List PyFlag) (m : Mol) : Json :=
  let d := Decompose.decompose S m
  let guards : List (String × Json) :=
    [("wf", m.wf), ("bonded", m.ringsBonded), ("maxraw", Decompose.maxRaw S (aromatizeBenson m))]
  let counts : List (String × Json) := match d with
    | .ok c => [("counts", jcounts c)]
    | .error _ => []
  let outs := libs.map fun (T, lib) => jOutcome T flags (PGA.Pipeline.estimateOf reg set (PGA.Pipeline.remember lib m, d))
  Json.mkObj ([("at", Json.arr outs.toArray)] ++ counts ++ guards)

def loadErrName : PGA.Pipeline.LoadErr → String
  | .syntax => "syntax" | .value => "value" | .duplicate _ => "duplicate"

def handle (op : String) (j : Json) : Option (Except String Json) :=
  match op with
  | "pipe.estimate_batch" => some do
      let src ← C02.schemeSrc (← j.getObjVal? "scheme")
      let libs ← (← arr j "libs").toList.mapM fun l => do
        pure (← rat l "T", ← getLib (← l.getObjVal? "lib"))
      let reg ← strs j "registered"
      let set ← str j "set"
      let flags ← match j.getObjVal? "flags" with
        | .ok (.arr a) => a.toList.mapM getFlag
        | _ => pure [PyFlag.none]
      let mols ← (← arr j "mols").toList.mapM molOfJson
      match src.load with
      | .error e => pure <| Json.mkObj [("loaderr", C02.readErrName e)]
      | .ok S => pure <| Json.mkObj [("res", Json.arr (mols.map (one reg S libs set flags)).toArray),
          ("schemewf", S.wf), ("nostar", S.noStar), ("nomolprefix", S.noMolPrefix), ("connected", S.connected)]
  | "pipe.load_keys" => some do
      let gs ← strs j "groups"
      let ds ← strs j "descs"
      match PGA.Pipeline.loadContents (gs.map fun g => (g.toList, ())) (ds.map fun d => (d, ())) with
      | .error e => pure <| Json.mkObj [("err", loadErrName e)]
      | .ok c => pure <| Json.mkObj [("ok", Json.arr (c.map fun p => Json.str p.1).toArray)]
  | _ => none

end PGA.Drv.Pipeline
