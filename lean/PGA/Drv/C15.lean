import PGA.Drv.Util
import PGA.Model.History
/-! Driver op for C15: *symbolic* execution of the history model.

The world handed to the model is symbolic: library data are provenance terms, a scheme is the name of the library it was
loaded from, the value of an evaluation is the tuple of what the evaluation was given.  The reply therefore says, for
every operation of the history, *which fresh computation its output must equal* (the harness runs that computation in a
fresh process and compares).  Only the three control-relevant facts are supplied as tables: which builtin libraries fail
to load, the outcome of `Estimate`'s checks per (library data, descriptor mapping), and which merges are refused per
(destination data, source data, overwrite).  A key the tables lack is reported (`unknownEst`, `unknownMerge` — the latter
with the index of the operation; once a merge of unknown outcome was met the rest of that run names provenances that may
be wrong, so nothing further is reported) and the harness asks again with the table completed.

`c15.run`: {"f1Fixed": b, "loadErr": [[L, code]…], "est": [[provKey, d, code|-1]…], "mergeErr": [[provKey dst, provKey src, ow, code|-1]…],
            "ops": [{"k":"load","L":n,"byPath":b} | {"k":"decompose","lib":i,"m":n} | {"k":"estimate","lib":i,"d":n,"forMol":n}
                    | {"k":"evaluate","est":e,"T":n,"q":n,"el":b} | {"k":"merge","dst":i,"src":j,"ow":b}]}
 ↦ {"outs": […], "unknownEst": [[prov, d, provKey]…], "unknownMerge": [[provKey dst, provKey src, ow, op index]…], "libs": […]} -/
namespace PGA.Drv.C15
open Lean PGA.Drv PGA.History

partial def provKey : Prov → String
  | .loaded L => s!"L{L}"
  | .merged a b ow => s!"M({provKey a},{provKey b},{if ow then 1 else 0})"

partial def provJson : Prov → Json
  | .loaded L => Json.arr #[Json.str "L", Json.num L]
  | .merged a b ow => Json.arr #[Json.str "M", provJson a, provJson b, Json.bool ow]

structure EvalKey where
  snap : Prov
  now : Prov
  d : Descr
  T : Temp
  q : Qty
  el : Option (Option Mol)

/-- descriptor ids produced by the symbolic `decompF` are never read back by the harness (it names mappings itself) -/
def symWorld (f1Fixed : Bool) (loadErr : List (Nat × Nat)) (est : List ((String × Nat) × Int))
    (mergeErr : List ((String × String × Bool) × Int)) : World Nat Prov EvalKey where
  env := 0
  f1Fixed := f1Fixed
  loadF := fun _ _ _ L => match loadErr.lookup L with | some c => .error c | none => .ok (L, .loaded L)
  decompF := fun _ _ => .ok 0
  estF := fun _ data d =>
    match est.lookup (provKey data, d) with
    | some c => if c < 0 then none else some c.toNat
    | none => some 999999
  evalF := fun snap now d T q el => .ok ⟨snap, now, d, T, q, el⟩
  mergeF := fun a b ow =>
    match mergeErr.lookup (provKey a, provKey b, ow) with
    | some c => if c < 0 then .ok (.merged a b ow) else .error c.toNat
    | none => .ok (.merged a b ow)

def getOp (j : Json) : Except String Op := do
  let k ← str j "k"
  match k with
  | "load" => pure (.load (← nat j "L") (← j.getObjValAs? Bool "byPath"))
  | "decompose" => pure (.decompose (← nat j "lib") (← nat j "m"))
  | "estimate" => pure (.estimate (← nat j "lib") (← nat j "d") (← nat j "forMol"))
  | "evaluate" => pure (.evaluate (← nat j "est") (← nat j "T") (← nat j "q") (← j.getObjValAs? Bool "el"))
  | "merge" => pure (.merge (← nat j "dst") (← nat j "src") (← j.getObjValAs? Bool "ow"))
  | _ => throw s!"unknown op kind {k}"

def elJson : Option (Option Mol) → Json
  | none => Json.null
  | some none => Json.mkObj [("name", Json.null)]
  | some (some m) => Json.mkObj [("name", Json.num m)]

/-- the reply for one operation: the model's output, plus (for `decompose`, whose symbolic output carries nothing) the
scheme the model read, taken from the state before the step -/
def outJson (s : State Nat Prov) (op : Op) (o : Out Prov EvalKey) : Json :=
  match o with
  | .loaded h d => Json.mkObj [("loaded", Json.num h), ("data", provJson d)]
  | .descr _ =>
    match op with
    | .decompose i m =>
      match s.libs[i]? with
      | some l => Json.mkObj [("descr", Json.mkObj [("origin", Json.num l.scheme), ("m", Json.num m)])]
      | none => Json.mkObj [("badRef", Json.bool true)]
    | _ => Json.mkObj [("badRef", Json.bool true)]
  | .estimated h => Json.mkObj [("estimated", Json.num h)]
  | .value (.ok k) => Json.mkObj [("value", Json.mkObj [("snap", provJson k.snap), ("now", provJson k.now), ("d", Json.num k.d),
      ("T", Json.num k.T), ("q", Json.num k.q), ("el", elJson k.el)])]
  | .value (.error c) => Json.mkObj [("failed", Json.num c)]
  | .merged d err =>
    -- the destination's data afterwards (its data before, if the merge is refused) and the merge the fresh process is to run
    match op with
    | .merge i j ow =>
      match s.libs[i]?, s.libs[j]? with
      | some a, some b => Json.mkObj [("merged", provJson d), ("refused", Json.bool err.isSome), ("dst", provJson a.data),
          ("src", provJson b.data), ("ow", Json.bool ow)]
      | _, _ => Json.mkObj [("badRef", Json.bool true)]
    | _ => Json.mkObj [("badRef", Json.bool true)]
  | .failed .attribute => Json.mkObj [("failed", Json.str "attribute")]
  | .failed (.world c) => Json.mkObj [("failed", Json.num c)]
  | .badRef => Json.mkObj [("badRef", Json.bool true)]

def getEst (j : Json) : Except String ((String × Nat) × Int) := do
  let a ← j.getArr?
  match a.toList with
  | [p, d, c] => pure ((← p.getStr?, ← d.getNat?), ← c.getInt?)
  | _ => throw "est row must be [provKey, d, code]"

def getMergeRow (j : Json) : Except String ((String × String × Bool) × Int) := do
  let a ← j.getArr?
  match a.toList with
  | [p, q, w, c] => pure ((← p.getStr?, ← q.getStr?, ← w.getBool?), ← c.getInt?)
  | _ => throw "mergeErr row must be [provKey, provKey, ow, code]"

def getPair (j : Json) : Except String (Nat × Nat) := do
  let a ← j.getArr?
  match a.toList with
  | [x, y] => pure (← x.getNat?, ← y.getNat?)
  | _ => throw "pair expected"

def handle (op : String) (j : Json) : Option (Except String Json) :=
  match op with
  | "c15.run" => some do
      let f1 ← j.getObjValAs? Bool "f1Fixed"
      let loadErr ← (← arr j "loadErr").toList.mapM getPair
      let est ← (← arr j "est").toList.mapM getEst
      let ops ← (← arr j "ops").toList.mapM getOp
      let mergeErr ← match j.getObjVal? "mergeErr" with
        | .ok (.arr a) => a.toList.mapM getMergeRow
        | _ => pure []
      let W := symWorld f1 loadErr est mergeErr
      let mut s : State Nat Prov := init 0 0
      let mut outs : Array Json := #[]
      let mut unknown : Array Json := #[]
      let mut unknownMerge : Array Json := #[]
      let mut stale := false
      let mut idx : Nat := 0
      for o in ops do
        match o with
        | .estimate i d _ =>
          match s.libs[i]? with
          | some l => if !stale && (est.lookup (provKey l.data, d)).isNone then
              unknown := unknown.push (Json.arr #[provJson l.data, Json.num d, Json.str (provKey l.data)])
          | none => pure ()
        | .merge i k ow =>
          match s.libs[i]?, s.libs[k]? with
          | some a, some b => if !stale && (mergeErr.lookup (provKey a.data, provKey b.data, ow)).isNone then
              unknownMerge := unknownMerge.push (Json.arr #[Json.str (provKey a.data), Json.str (provKey b.data), Json.bool ow, Json.num idx])
              stale := true
          | _, _ => pure ()
        | _ => pure ()
        let r := step W s o
        outs := outs.push (outJson s o r.2)
        s := r.1
        idx := idx + 1
      -- the final state of the model, for the frame comparison: per library its provenance and remembered name
      let libs := s.libs.map fun l => Json.mkObj [("prov", provJson l.prov), ("key", Json.str (provKey l.prov)),
        ("name", match l.name with | some m => Json.num m | none => Json.null)]
      pure <| Json.mkObj [("outs", Json.arr outs), ("unknownEst", Json.arr unknown), ("unknownMerge", Json.arr unknownMerge),
        ("libs", Json.arr libs.toArray)]
  | _ => none

end PGA.Drv.C15
