import PGA.Drv.Util
import PGA.Model.Mol
import PGA.Model.Ast
/-! JSON decoding of molecule graphs (`harness/lib_mol.py:mol_to_json`) and of parse trees
(`harness/lib_ast.py:ast_to_json`) for the driver.

Molecule: `{"atoms": [[Z, charge, radicals, aromatic(0/1), valence(-1 = unknown)], …],
"bonds": [[a, b, kind, inRing(0/1), stereo, [stereo atoms]], …], "rings": [[…], …]}`.
Tree: node = `{"n": name, "c": [children]}`, leaf = JSON string. -/
namespace PGA.Drv
open Lean

def bondKindOfName : String → Except String BondKind
  | "single" => pure .single | "double" => pure .double | "triple" => pure .triple
  | "quadruple" => pure .quadruple | "aromatic" => pure .aromatic | "zero" => pure .zero
  | "dative" => pure .dative | "other" => pure .other | "misc" => pure .misc
  | s => throw s!"unknown bond kind {s}"

def stereoOfName : String → Except String Stereo
  | "none" => pure .none | "any" => pure .any | "z" => pure .z | "e" => pure .e
  | "cis" => pure .cis | "trans" => pure .trans
  | s => throw s!"unknown stereo {s}"

def natsOf (j : Json) : Except String (List Nat) := do
  let a ← j.getArr?
  a.toList.mapM fun x => x.getNat?

def atomOfJson (j : Json) : Except String Atom := do
  let a ← j.getArr?
  match a.toList with
  | [z, c, r, ar, v] => do
    let v ← v.getInt?
    pure { Z := ← z.getNat?, charge := ← c.getInt?, radicals := ← r.getNat?,
           aromatic := (← ar.getNat?) != 0, valence := if v < 0 then none else some v.toNat }
  | _ => throw "atom: expected 5 fields"

def bondOfJson (j : Json) : Except String Bond := do
  let a ← j.getArr?
  match a.toList with
  | [x, y, k, r, s, sa] => do
    pure { a := ← x.getNat?, b := ← y.getNat?, kind := ← bondKindOfName (← k.getStr?),
           inRing := (← r.getNat?) != 0, stereo := ← stereoOfName (← s.getStr?), stereoAtoms := ← natsOf sa }
  | _ => throw "bond: expected 6 fields"

def molOfJson (j : Json) : Except String Mol := do
  let atoms ← (← arr j "atoms").toList.mapM atomOfJson
  let bonds ← (← arr j "bonds").toList.mapM bondOfJson
  let rings ← (← arr j "rings").toList.mapM natsOf
  pure ⟨atoms, bonds, rings⟩

partial def astOfJson (j : Json) : Except String Ast :=
  match j with
  | .str s => pure (.leaf s)
  | _ => do
    let n ← str j "n"
    let cs ← (← arr j "c").toList.mapM astOfJson
    pure (.node n cs)

def jnats (l : List Nat) : Json := Json.arr (l.map fun n => Json.num (JsonNumber.fromNat n)).toArray
def jnatss (l : List (List Nat)) : Json := Json.arr (l.map jnats).toArray

end PGA.Drv

/-! `mkdriver` registers every module of `PGA/Drv` as a handler: this one answers `mol.info`
(`{mol}` → sizes and well-formedness of the decoded graph). -/
namespace PGA.Drv.MolJson
open Lean PGA PGA.Drv

def handle (op : String) (j : Json) : Option (Except String Json) :=
  match op with
  | "mol.info" => some do
      let m ← molOfJson (← j.getObjVal? "mol")
      pure (Json.mkObj [("natoms", m.atoms.length), ("nbonds", m.bonds.length),
                        ("nrings", m.rings.length), ("wf", m.wf)])
  | _ => none

end PGA.Drv.MolJson
