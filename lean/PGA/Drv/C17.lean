import PGA.Drv.Util
import PGA.Model.Net
/-! Driver ops for C17.  Species are natural-number ids (the harness maps canonical keys to ids).
`c17.net` / `c17.net_old` : {"fuel": n, "seeds": [id…], "rules": [{"arity": k, "run": [[id, [id…]], …]}, …]}
 ↦ {"ok": [id…], "missing": [id…]} | {"err": "index"|"value"|"type"|"fuel"}.
`missing` lists returned species for which some unimolecular rule's table has no row (the harness treats a
non-empty `missing` as its own failure: the successor graph it handed over was incomplete). -/
namespace PGA.Drv.C17
open Lean PGA.Drv PGA.Net

def natList (j : Json) : Except String (List Nat) := do
  let a ← j.getArr?
  a.toList.mapM fun x => x.getNat?

structure TabRule where
  arity : Nat
  rows : List (Nat × List Nat)

def getRow (j : Json) : Except String (Nat × List Nat) := do
  let a ← j.getArr?
  match a.toList with
  | [k, v] => pure (← k.getNat?, ← natList v)
  | _ => throw "row must be [id, [ids]]"

def getRule (j : Json) : Except String TabRule := do
  let ar ← nat j "arity"
  let rows ← arr j "run"
  pure ⟨ar, ← rows.toList.mapM getRow⟩

def TabRule.toRule (t : TabRule) : Rule Nat :=
  ⟨t.arity, fun x => match t.rows.lookup x with | some l => l | none => []⟩

def errName : Err → String
  | .index => "index" | .value => "value" | .type => "type" | .fuel => "fuel"

def reply (tabs : List TabRule) (r : Except Err (List Nat)) : Json :=
  match r with
  | .error e => Json.mkObj [("err", Json.str (errName e))]
  | .ok res =>
    let missing := res.filter fun x => tabs.any fun t => t.arity == 1 && (t.rows.lookup x).isNone
    Json.mkObj [("ok", Json.arr (res.map (fun (n : Nat) => Json.num n)).toArray),
                ("missing", Json.arr (missing.map (fun (n : Nat) => Json.num n)).toArray)]

def handle (op : String) (j : Json) : Option (Except String Json) :=
  match op with
  | "c17.net" => some do
      let fuel ← nat j "fuel"
      let seeds ← natList (← j.getObjVal? "seeds")
      let tabs ← (← arr j "rules").toList.mapM getRule
      pure <| reply tabs (generate fuel seeds (tabs.map TabRule.toRule))
  | "c17.net_old" => some do
      let fuel ← nat j "fuel"
      let seeds ← natList (← j.getObjVal? "seeds")
      let tabs ← (← arr j "rules").toList.mapM getRule
      pure <| reply tabs (generateOld fuel seeds (tabs.map TabRule.toRule))
  | _ => none

end PGA.Drv.C17
