import PGA.Drv.YamlJson
namespace PGA.Drv.C12
open Lean PGA.Drv PGA.Yaml PGA.Drv.YamlJson

def handle (op : String) (j : Json) : Option (Except String Json) :=
  match op with
  | "c12.load" => some do
      let units ← unitsOf j "units"
      let e ← yval (← j.getObjVal? "entry")
      match loadEntryLive units e with
      | .ok c => pure <| Json.mkObj [("ok", jcorr jqv c)]
      | .error er => pure <| Json.mkObj [("err", Json.str (loadErrStr er))]
  | _ => none

end PGA.Drv.C12
