import PGA.Drv.MolJson
import PGA.Model.Match
import PGA.Model.RingAstBridge
/-! Driver ops of C08.
`c08.batch` `{asts: [tree | null…], mols: [graph…], pairs: [[ai, mi]…], texts?: [[code points] | null…]}` →
`{res: [r…], reads: […], wf: […]}` with `r = {m: matches, raw: candidates}` for a readable fragment,
`{err: class}` otherwise.  With `texts` (aligned with `asts`) every fragment is ALSO read from its text
through the C09 parser model and the bridge (`PGA.readText`): `treads` = the text path's read summaries
(`{err: "syntax", line, col}` for a syntax error), `ttree[i]` = the bridged model tree equals the serialised
implementation tree, `tsame[i]` = the query read from the text equals the query read from that tree; a pair
whose fragment has no tree, or whose two queries differ, is matched through the text path as well (`tm`, or
`terr`).
`c08.read` `{ast}` → summary of the query read from the tree; `c08.read_text` `{t}` → the same from the text;
`c08.match_text` `{t, mol}` → `{m}` | `{err…}`; `c08.layouts` `{texts: [t…]}` → per text its read summary and
whether tree and query equal those of the first text. -/
namespace PGA.Drv.C08
open Lean PGA PGA.Drv

def errName : ReadErr → String
  | .reader => "reader" | .notImplemented => "notImplemented" | .shape => "shape"

def consCounts (q : Query) : Json :=
  let all := q.atoms.flatMap (·.chain)
  let n (p : ACons → Bool) := (all.filter p).length
  Json.mkObj [
    ("conn", n fun | .conn .. => true | _ => false),
    ("ringSize", n fun | .ringSize .. => true | _ => false),
    ("radical", (n fun | .radical .. => true | _ => false) +
      (q.atoms.map fun a => ((Match.typeCons a.ty).filter fun | .radical .. => true | _ => false).length).sum),
    ("nRing", n fun | .nRing .. => true | _ => false)]

def readSummary : Except ReadErr Query → Json
  | .error e => Json.mkObj [("err", errName e)]
  | .ok q => Json.mkObj [
      ("natoms", q.atoms.length), ("nbonds", q.bonds.length), ("nstereo", q.stereo.length),
      ("nmol", q.molPre.length), ("labels", Json.arr (q.atoms.map (Json.str ·.label)).toArray),
      ("bonds", Json.arr (q.bonds.map fun b => jnats [b.i, b.j]).toArray),
      ("typecons", jnats (q.atoms.map fun a => (Match.typeCons a.ty).length + a.chain.length)),
      ("bondcons", (q.bonds.map fun b => (Match.bondCons b.spec).length).sum),
      ("cons", consCounts q), ("wf", q.wf)]

def abortName : PGA.Ring.Abort → String
  | .stuck => "stuck" | .missingRule _ => "missingRule" | .hang => "hang" | .internal _ => "parserInternal"

def textErrJson : TextErr → Json
  | .syntax l c => Json.mkObj [("err", "syntax"), ("line", Json.num l), ("col", Json.num c)]
  | .abort a => Json.mkObj [("err", Json.str (abortName a))]
  | .read e => Json.mkObj [("err", errName e)]

def textSummary : Except TextErr Query → Json
  | .error e => textErrJson e
  | .ok q => readSummary (.ok q)

/-- a text as the list of its code points (no JSON string escaping involved) -/
def textOf (j : Json) : Except String (List Char) := do
  let a ← j.getArr?
  a.toList.mapM fun x => do pure (Char.ofNat (← x.getNat?))

def optOf (f : Json → Except String α) (j : Json) : Except String (Option α) :=
  match j with
  | .null => pure none
  | j => do pure (some (← f j))

/-- the query (or reader error) of the text path equals the one of the tree path -/
def sameRead : Except TextErr Query → Except ReadErr Query → Bool
  | .ok q, .ok q' => decide (q = q')
  | .error (.read e), .error e' => decide (e = e')
  | _, _ => false

def sameText : Except TextErr Query → Except TextErr Query → Bool
  | .ok q, .ok q' => decide (q = q')
  | .error (.read e), .error (.read e') => decide (e = e')
  | .error (.syntax _ _), .error (.syntax _ _) => true     -- the position depends on the layout
  | _, _ => false

def matchJson (q : Query) (m : Mol) : Json :=
  let raw := Match.rawMatches q m
  Json.mkObj [("m", jnatss (Match.pipeline raw q m)), ("raw", jnatss raw)]

def handle (op : String) (j : Json) : Option (Except String Json) :=
  match op with
  | "c08.read" => some do
      let t ← astOfJson (← j.getObjVal? "ast")
      pure (readSummary (readFragment t))
  | "c08.read_text" => some do
      pure (textSummary (readText (← textOf (← j.getObjVal? "t"))))
  | "c08.match_text" => some do
      let t ← textOf (← j.getObjVal? "t")
      let m ← molOfJson (← j.getObjVal? "mol")
      match readText t with
      | .ok q => pure (matchJson q m)
      | .error e => pure (textErrJson e)
  | "c08.layouts" => some do
      let ts ← (← arr j "texts").toList.mapM textOf
      match ts with
      | [] => pure (Json.mkObj [("reads", Json.arr #[]), ("same", Json.arr #[])])
      | t0 :: _ =>
        let p0 := parseText t0
        let r0 := readText t0
        let same := ts.map fun t =>
          (match p0, parseText t with
           | .ok a, .ok b => Ast.same a b
           | _, _ => false) && sameText r0 (readText t)
        pure (Json.mkObj [("reads", Json.arr (ts.map fun t => textSummary (readText t)).toArray),
                          ("same", Json.arr (same.map Json.bool).toArray)])
  | "c08.batch" => some do
      let asts ← (← arr j "asts").toList.mapM (optOf astOfJson)
      let texts : List (Option (List Char)) ← match j.getObjVal? "texts" with
        | .ok (.arr a) => a.toList.mapM (optOf textOf)
        | _ => pure (asts.map fun _ => none)
      if texts.length != asts.length then throw "texts: one entry per tree expected"
      let mols ← (← arr j "mols").toList.mapM molOfJson
      let qs := (asts.map fun a => a.map readFragment).toArray
      let tqs := (texts.map fun t => t.map readText).toArray
      let tsame := (List.range asts.length).map fun i =>
        match tqs[i]?, qs[i]? with
        | some (some tq), some (some q) => sameRead tq q
        | _, _ => false
      let ttree := (List.zip asts texts).map fun
        | (some a, some t) => (match parseText t with | .ok b => Ast.same a b | .error _ => false)
        | _ => false
      let ms := mols.toArray
      let pairs ← (← arr j "pairs").toList.mapM natsOf
      let res ← pairs.mapM fun p => match p with
        | [ai, mi] =>
          match qs[ai]?, tqs[ai]?, ms[mi]? with
          | some oq, some otq, some m =>
            let base : List (String × Json) := match oq with
              | some (.ok q) => [("m", jnatss (Match.pipeline (Match.rawMatches q m) q m)), ("raw", jnatss (Match.rawMatches q m))]
              | some (.error e) => [("err", errName e)]
              | none => []
            let viaText : List (String × Json) := match otq with
              | none => []
              | some tq =>
                if tsame.getD ai false then [] else
                match tq with
                | .ok q => [("tm", jnatss (queryMatches q m))]
                | .error e => [("terr", textErrJson e)]
            pure (Json.mkObj (base ++ viaText))
          | _, _, _ => throw "pair index out of range"
        | _ => throw "pair: expected [ai, mi]"
      let reads := qs.toList.map fun
        | some r => readSummary r
        | none => Json.null
      let treads := tqs.toList.map fun
        | some r => textSummary r
        | none => Json.null
      pure (Json.mkObj [("res", Json.arr res.toArray),
                        ("reads", Json.arr reads.toArray),
                        ("treads", Json.arr treads.toArray),
                        ("tsame", Json.arr (tsame.map Json.bool).toArray),
                        ("ttree", Json.arr (ttree.map Json.bool).toArray),
                        ("wf", Json.arr (mols.map fun m => Json.bool m.wf).toArray)])
  | _ => none

end PGA.Drv.C08
