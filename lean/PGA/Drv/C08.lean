import PGA.Drv.MolJson
import PGA.Model.Match
/-! Driver ops of C08.
`c08.batch` `{asts: [tree…], mols: [graph…], pairs: [[ai, mi]…]}` → `{res: [r…], reads: […], wf: […]}`
with `r = {m: matches, raw: candidates}` for a readable fragment, `{err: class}` otherwise.
`c08.read` `{ast}` → summary of the query read from the tree. -/
namespace PGA.Drv.C08
open Lean PGA PGA.Drv

def errName : ReadErr → String
  | .reader => "reader" | .notImplemented => "notImplemented" | .shape => "shape"

def consCounts (q : Query) : Json :=
  let all := q.atoms.flatMap (·.chain)
  let n (p : ACons → Bool) := (all.filter p).length
  Json.mkObj [
    ("conn", n fun | .conn .. => true | _ => false),
    ("ringSize", n fun | .ringSize .. => true | _ => false),
    ("radical", (n fun | .radical .. => true | _ => false) +
      (q.atoms.map fun a => ((Match.typeCons a.ty).filter fun | .radical .. => true | _ => false).length).sum),
    ("nRing", n fun | .nRing .. => true | _ => false)]

def readSummary : Except ReadErr Query → Json
  | .error e => Json.mkObj [("err", errName e)]
  | .ok q => Json.mkObj [
      ("natoms", q.atoms.length), ("nbonds", q.bonds.length), ("nstereo", q.stereo.length),
      ("nmol", q.molPre.length), ("labels", Json.arr (q.atoms.map (Json.str ·.label)).toArray),
      ("bonds", Json.arr (q.bonds.map fun b => jnats [b.i, b.j]).toArray),
      ("typecons", jnats (q.atoms.map fun a => (Match.typeCons a.ty).length + a.chain.length)),
      ("bondcons", (q.bonds.map fun b => (Match.bondCons b.spec).length).sum),
      ("cons", consCounts q), ("wf", q.wf)]

def handle (op : String) (j : Json) : Option (Except String Json) :=
  match op with
  | "c08.read" => some do
      let t ← astOfJson (← j.getObjVal? "ast")
      pure (readSummary (readFragment t))
  | "c08.batch" => some do
      let asts ← (← arr j "asts").toList.mapM astOfJson
      let mols ← (← arr j "mols").toList.mapM molOfJson
      let qs := (asts.map readFragment).toArray
      let ms := mols.toArray
      let pairs ← (← arr j "pairs").toList.mapM natsOf
      let res ← pairs.mapM fun p => match p with
        | [ai, mi] =>
          match qs[ai]?, ms[mi]? with
          | some (.ok q), some m =>
            let raw := Match.rawMatches q m
            pure (Json.mkObj [("m", jnatss (Match.pipeline raw q m)), ("raw", jnatss raw)])
          | some (.error e), some _ => pure (Json.mkObj [("err", errName e)])
          | _, _ => throw "pair index out of range"
        | _ => throw "pair: expected [ai, mi]"
      pure (Json.mkObj [("res", Json.arr res.toArray),
                        ("reads", Json.arr (qs.toList.map readSummary).toArray),
                        ("wf", Json.arr (mols.map fun m => Json.bool m.wf).toArray)])
  | _ => none

end PGA.Drv.C08
