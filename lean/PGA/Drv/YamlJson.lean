import PGA.Drv.Util
import PGA.Model.YamlTables
/-! JSON encodings shared by the C12 / C13 / C18 driver handlers. -/
namespace PGA.Drv.YamlJson
open Lean PGA.Drv PGA.Yaml

/-- tree: null | {"n","d"} number | {"q":rat,"u":unit} string "<q> <u>" | {"bad":_} other string | [..] | {"m":[[k,v],..]} -/
partial def yval (j : Json) : Except String YVal :=
  match j with
  | .null => pure .null
  | .arr a => do
    let l ← a.toList.mapM yval
    pure (.seq l)
  | _ =>
    match j.getObjVal? "m" with
    | .ok (.arr a) => do
      let l ← a.toList.mapM fun kv => do
        let k ← (← kv.getArrVal? 0).getStr?
        let v ← yval (← kv.getArrVal? 1)
        pure (k, v)
      pure (.map l)
    | _ =>
      match j.getObjVal? "q" with
      | .ok q => do
        let v ← getRat q
        let u ← j.getObjValAs? String "u"
        pure (.qstr v u)
      | _ =>
        match j.getObjVal? "bad" with
        | .ok _ => pure .bad
        | _ => do
          let v ← getRat j
          pure (.num v)

def unitsOf (j : Json) (k : String) : Except String (List (Kind × String)) := do
  let a ← arr j k
  let l ← a.toList.mapM fun kv => do
    let a ← (← kv.getArrVal? 0).getStr?
    let b ← (← kv.getArrVal? 1).getStr?
    pure (a, b)
  pure (unitsBlock l)

def jdim (d : Dim) : Json := Json.arr #[d.m, d.kg, d.s, d.A, d.K, d.mol, d.cd]

def jqv : QV → Json
  | .num v => Json.mkObj [("num", jrat v)]
  | .qty v d => Json.mkObj [("qty", jrat v), ("dim", jdim d)]

def jopt {α : Type} (f : α → Json) : Option α → Json
  | none => Json.null
  | some x => f x

def insertSorted {V : Type} (kv : Rat × V) : List (Rat × V) → List (Rat × V)
  | [] => [kv]
  | x :: xs => if kv.1 ≤ x.1 then kv :: x :: xs else x :: insertSorted kv xs

def sortByKey {V : Type} (l : List (Rat × V)) : List (Rat × V) := l.foldr insertSorted []

def jcorr {V : Type} (f : V → Json) (c : CorrOf V) : Json :=
  Json.mkObj [
    ("H", jopt f c.H), ("S", jopt f c.S),
    ("cp", Json.arr ((sortByKey c.cp).map fun kv => Json.arr #[jrat kv.1, f kv.2]).toArray),
    ("Tref", jrat c.Tref),
    ("range", jopt (fun r : Rat × Rat => Json.arr #[jrat r.1, jrat r.2]) c.range)]

def loadErrStr : LoadErr → String
  | .inputData => "inputData"
  | .unitsParse => "unitsParse"
  | .unmodelled => "unmodelled"

/-- this module only provides helpers; `mkdriver` lists every file of `PGA/Drv` as a handler -/
def handle (_ : String) (_ : Json) : Option (Except String Json) := none

end PGA.Drv.YamlJson
