import PGA.Drv.MolJson
import PGA.Model.Rxn
/-! Driver ops of C16.
`c16.batch` `{asts: [tree…], mols: [graph…], pairs: [[ai, mi]…]}` →
`{reads: [r…], res: [p…], wf: [bool…]}` with
`r = {name, labels, natoms, edits: [[kind, …]…]}` for a readable rule, `{err: class}` otherwise;
`p = {matches: [[…]…], per: [{atoms, bonds, comps} | {err: class}…]}` — one entry per match of the reactant
query in the model's match order (the harness re-orders by match) — or `{err: class}` when the rule is unreadable.
`c16.apply` `{mol, f, edits}` → the edited molecule for an explicit edit list and index map (used to tie the edit
classes one by one, also on index maps that are not matches). -/
namespace PGA.Drv.C16
open Lean PGA PGA.Drv PGA.Rxn

def ruleErrName : RuleErr → String
  | .reader => "reader" | .notImplemented => "notImplemented" | .shape => "shape" | .internal => "internal"
  | .outOfScope => "outOfScope"

def runErrName : RunErr → String
  | .rdkit => "rdkit" | .attribute => "attribute" | .overflow => "overflow" | .queryError => "queryError"
  | .index => "index"

def bkName : BK → String
  | .single => "single" | .double => "double" | .triple => "triple" | .quadruple => "quadruple"
  | .quintuple => "quintuple" | .aromatic => "aromatic" | .zero => "zero" | .dative => "dative"
  | .other => "other" | .misc => "misc"

def bkOfName : String → Except String BK
  | "single" => pure .single | "double" => pure .double | "triple" => pure .triple | "quadruple" => pure .quadruple
  | "quintuple" => pure .quintuple | "aromatic" => pure .aromatic | "zero" => pure .zero | "dative" => pure .dative
  | "other" => pure .other | "misc" => pure .misc
  | s => throw s!"unknown bond kind {s}"

def jn (n : Nat) : Json := Json.num (JsonNumber.fromNat n)
def ji (n : Int) : Json := Json.num (JsonNumber.fromInt n)

def editJson : Edit → Json
  | .bondForm i j k => Json.arr #["bondForm", jn i, jn j, bkName k]
  | .bondBreak i j k => Json.arr #["bondBreak", jn i, jn j, bkName k]
  | .bondModify i j k o => Json.arr #["bondModify", jn i, jn j, bkName k, bkName o]
  | .bondIncrease i j => Json.arr #["bondIncrease", jn i, jn j]
  | .bondDecrease i j => Json.arr #["bondDecrease", jn i, jn j]
  | .radicalModify i r o => Json.arr #["radicalModify", jn i, jn r, jn o]
  | .radicalIncrease i => Json.arr #["radicalIncrease", jn i]
  | .radicalDecrease i => Json.arr #["radicalDecrease", jn i]
  | .chargeIncrease i => Json.arr #["chargeIncrease", jn i]
  | .chargeDecrease i => Json.arr #["chargeDecrease", jn i]
  | .atomTypeModify i r c => Json.arr #["atomTypeModify", jn i, jn r, ji c]

def editOfJson (j : Json) : Except String Edit := do
  let a ← j.getArr?
  match a.toList with
  | [k, i, j', b] => do
    match ← k.getStr? with
    | "bondForm" => pure (.bondForm (← i.getNat?) (← j'.getNat?) (← bkOfName (← b.getStr?)))
    | "bondBreak" => pure (.bondBreak (← i.getNat?) (← j'.getNat?) (← bkOfName (← b.getStr?)))
    | "radicalModify" => pure (.radicalModify (← i.getNat?) (← j'.getNat?) (← b.getNat?))
    | "atomTypeModify" => pure (.atomTypeModify (← i.getNat?) (← j'.getNat?) (← b.getInt?))
    | s => throw s!"edit {s}"
  | [k, i, j', b, o] => do
    match ← k.getStr? with
    | "bondModify" => pure (.bondModify (← i.getNat?) (← j'.getNat?) (← bkOfName (← b.getStr?)) (← bkOfName (← o.getStr?)))
    | s => throw s!"edit {s}"
  | [k, i, j'] => do
    match ← k.getStr? with
    | "bondIncrease" => pure (.bondIncrease (← i.getNat?) (← j'.getNat?))
    | "bondDecrease" => pure (.bondDecrease (← i.getNat?) (← j'.getNat?))
    | s => throw s!"edit {s}"
  | [k, i] => do
    match ← k.getStr? with
    | "radicalIncrease" => pure (.radicalIncrease (← i.getNat?))
    | "radicalDecrease" => pure (.radicalDecrease (← i.getNat?))
    | "chargeIncrease" => pure (.chargeIncrease (← i.getNat?))
    | "chargeDecrease" => pure (.chargeDecrease (← i.getNat?))
    | s => throw s!"edit {s}"
  | _ => throw "edit: bad arity"

def readJson : Except RuleErr Rule → Json
  | .error e => Json.mkObj [("err", ruleErrName e)]
  | .ok r => Json.mkObj [("name", r.name), ("natoms", r.query.atoms.length),
      ("labels", Json.arr (r.query.atoms.map (Json.str ·.label)).toArray),
      ("edits", Json.arr (r.edits.map editJson).toArray)]

def wmolJson (p : WMol) : List (String × Json) :=
  [("atoms", Json.arr (p.atoms.map fun a => Json.arr #[jn a.Z, ji a.charge, jn a.radicals, jn (if a.aromatic then 1 else 0)]).toArray),
   ("bonds", Json.arr (p.bonds.map fun e => Json.arr #[jn e.a, jn e.b, bkName e.kind]).toArray)]

def productJson : Except RunErr ProductSet → Json
  | .error e => Json.mkObj [("err", runErrName e)]
  | .ok p => Json.mkObj (wmolJson p.mol ++ [("comps", jnatss p.comps), ("closed", Json.bool (componentsClosed p.mol))])

def handle (op : String) (j : Json) : Option (Except String Json) :=
  match op with
  | "c16.batch" => some do
      let asts ← (← arr j "asts").toList.mapM astOfJson
      let mols ← (← arr j "mols").toList.mapM molOfJson
      let rs := (asts.map readRule).toArray
      let ms := mols.toArray
      let pairs ← (← arr j "pairs").toList.mapM natsOf
      let res ← pairs.mapM fun p => match p with
        | [ai, mi] =>
          match rs[ai]?, ms[mi]? with
          | some (.ok r), some m =>
            let fs := queryMatches r.query m
            -- the whole-call outcome of the model (`runReactants`) is the first error in this order
            let whole : Json := match runReactants r m with
              | .ok ps => Json.mkObj [("n", ps.length)]
              | .error e => Json.mkObj [("err", runErrName e)]
            pure (Json.mkObj [("matches", jnatss fs),
                              ("per", Json.arr (fs.map fun f => productJson (runMatch r m f)).toArray),
                              ("whole", whole)])
          | some (.error e), some _ => pure (Json.mkObj [("err", ruleErrName e)])
          | _, _ => throw "pair index out of range"
        | _ => throw "pair: expected [ai, mi]"
      pure (Json.mkObj [("res", Json.arr res.toArray),
                        ("reads", Json.arr (rs.toList.map readJson).toArray),
                        ("wf", Json.arr (mols.map fun m => Json.bool (m.wf && (WMol.ofMol m).wf)).toArray)])
  | "c16.apply" => some do
      let m ← molOfJson (← j.getObjVal? "mol")
      let f ← natsOf (← j.getObjVal? "f")
      let es ← (← arr j "edits").toList.mapM editOfJson
      match applyEdits f (WMol.ofMol m) es with
      | .ok p => pure (Json.mkObj (wmolJson p ++ [("comps", jnatss (components p)), ("closed", Json.bool (componentsClosed p))]))
      | .error e => pure (Json.mkObj [("err", runErrName e)])
  | _ => none

end PGA.Drv.C16
