import PGA.Drv.Util
import PGA.Model.Thermo
/-! Driver ops for C05 (and the shared JSON plumbing of the thermo model, reused by C06).

`c05.eval`: {"cor": <spec>, "T": rat, "want": ["cp","h","s","g"]} ↦
  {"mk": "ok" | <err>, "range": null | [lo, hi], "cp"/"h"/"s"/"g": {"ok": rat, "warn": bool} | {"err": <err>, "warn": bool}}
<spec> = {"kind": "raw" | "inc", "href": rat | null, "sref": rat | null, "pts": [[T, Cp], ...], "tref": rat,
          "range": null | [lo, hi],
          "oracle": {"val": [[t, v], ...], "I": [[a, b, v], ...], "J": [[a, b, v], ...], "lg": [[a, b, v], ...]}}
The oracle tables hold the values of the live SciPy objects (exact dyadic rationals).  A value the model needs
and the request lacks is a driver error (never a silent default): see `Oracle.interp` / `agree`. -/
namespace PGA.Drv.C05
open Lean PGA.Drv PGA.Thermo

def optRat (j : Json) (k : String) : Except String (Option Rat) :=
  match j.getObjVal? k with
  | .error _ => pure none
  | .ok Json.null => pure none
  | .ok v => do pure (some (← getRat v))

def ratList (j : Json) : Except String (List Rat) := do
  let a ← j.getArr?
  a.toList.mapM getRat

def optRange (j : Json) (k : String) : Except String (Option Range) :=
  match j.getObjVal? k with
  | .error _ => pure none
  | .ok Json.null => pure none
  | .ok v => do
    match ← ratList v with
    | [lo, hi] => pure (some (lo, hi))
    | _ => throw "range must be [lo, hi]"

def rows (j : Json) (k : String) : Except String (List (List Rat)) :=
  match j.getObjVal? k with
  | .error _ => pure []
  | .ok v => do
    let a ← v.getArr?
    a.toList.mapM ratList

structure Oracle where
  val : List (Rat × Rat)
  I : List (Rat × Rat × Rat)
  J : List (Rat × Rat × Rat)
  lg : List (Rat × Rat × Rat)

def row2 (r : List Rat) : Except String (Rat × Rat) :=
  match r with | [a, b] => pure (a, b) | _ => throw "oracle row must have 2 entries"
def row3 (r : List Rat) : Except String (Rat × Rat × Rat) :=
  match r with | [a, b, c] => pure (a, b, c) | _ => throw "oracle row must have 3 entries"

def getOracle (j : Json) : Except String Oracle :=
  match j.getObjVal? "oracle" with
  | .error _ => pure ⟨[], [], [], []⟩
  | .ok o => do
    pure ⟨← (← rows o "val").mapM row2, ← (← rows o "I").mapM row3, ← (← rows o "J").mapM row3, ← (← rows o "lg").mapM row3⟩

def look1 (t : List (Rat × Rat)) (a : Rat) : Option Rat := (t.find? (fun e => e.1 == a)).map (·.2)
def look2 (t : List (Rat × Rat × Rat)) (a b : Rat) : Option Rat := (t.find? (fun e => e.1 == a && e.2.1 == b)).map (·.2.2)

/-- the interpolant of the oracle tables; `dflt` stands in for a value the request does not carry.  Every evaluation is
run with two different defaults and must not depend on it (`agree`): a value the model consults and the request
lacks is a driver error, never a silent default. -/
def Oracle.interp (o : Oracle) (dflt : Rat) : Interp :=
  { val := fun t => (look1 o.val t).getD dflt, I := fun a b => (look2 o.I a b).getD dflt,
    J := fun a b => (look2 o.J a b).getD dflt, lg := fun a b => (look2 o.lg a b).getD dflt }

def outEq (a b : Out) : Bool :=
  a.2 == b.2 && (match a.1, b.1 with
    | .ok x, .ok y => x == y
    | .error e, .error f => e == f
    | _, _ => false)

def agree (want : List String) (f g : String → Out) : Except String Unit :=
  if want.all (fun w => outEq (f w) (g w)) then pure () else throw "an oracle value the model consults is missing from the request"

structure CorSpec where
  kind : String
  href : Option Rat
  sref : Option Rat
  pts : List Pt
  tref : Rat
  range : Option Range
  oracle : Oracle

def getSpec (j : Json) : Except String CorSpec := do
  let kind ← str j "kind"
  let pts ← (← rows j "pts").mapM row2
  pure ⟨kind, ← optRat j "href", ← optRat j "sref", pts, ← rat j "tref", ← optRange j "range", ← getOracle j⟩

def errName : Err → String
  | .value => "value" | .assertion => "assertion" | .outside => "outside" | .incomplete => "incomplete"
  | .nonfinite => "nonfinite" | .internal => "internal"

def jout (o : Out) : Json :=
  match o with
  | (.ok v, w) => Json.mkObj [("ok", jrat v), ("warn", Json.bool w)]
  | (.error e, w) => Json.mkObj [("err", Json.str (errName e)), ("warn", Json.bool w)]

def jrange (r : Option Range) : Json :=
  match r with | none => Json.null | some (lo, hi) => Json.arr #[jrat lo, jrat hi]

def wantList (j : Json) : Except String (List String) :=
  match j.getObjVal? "want" with
  | .error _ => pure ["cp", "h", "s", "g"]
  | .ok _ => strs j "want"

def pure' (r : Except Err Rat) : Out := (r, false)

def rawFns (d : RawData) (T : Rat) (w : String) : Out :=
  if w == "cp" then pure' (d.CpoR T) else if w == "h" then pure' (d.HoRT T)
  else if w == "s" then pure' (d.SoR T) else pure' (d.GoRT T)

def incFns (c : Incomplete) (T : Rat) (w : String) : Out :=
  if w == "cp" then c.CpoR T else if w == "h" then c.HoRT T else if w == "s" then c.SoR T else c.GoRT T

/-- build and evaluate one correlation; `Except String` is the driver-error channel -/
def evalSpec (s : CorSpec) (T : Rat) (want : List String) : Except String Json := do
  let fields (f : String → Out) : List (String × Json) := want.map fun w => (w, jout (f w))
  if s.kind == "raw" then
    match s.href, s.sref with
    | some h, some sr =>
      match RawData.mk (s.oracle.interp 0) h sr s.pts s.tref s.range, RawData.mk (s.oracle.interp 1) h sr s.pts s.tref s.range with
      | .error e, _ => pure <| Json.mkObj [("mk", Json.str (errName e))]
      | .ok d, .ok d' =>
        agree want (rawFns d T) (rawFns d' T)
        pure <| Json.mkObj ([("mk", Json.str "ok"), ("range", jrange (some d.range))] ++ fields (rawFns d T))
      | _, _ => throw "construction depends on oracle values"
    | _, _ => throw "raw correlation needs href and sref"
  else
    match Incomplete.mk (s.oracle.interp 0) s.href s.sref s.pts s.tref s.range,
          Incomplete.mk (s.oracle.interp 1) s.href s.sref s.pts s.tref s.range with
    | .error e, _ => pure <| Json.mkObj [("mk", Json.str (errName e))]
    | .ok c, .ok c' =>
      agree want (incFns c T) (incFns c' T)
      pure <| Json.mkObj ([("mk", Json.str "ok"), ("range", jrange c.range)] ++ fields (incFns c T))
    | _, _ => throw "construction depends on oracle values"

def handle (op : String) (j : Json) : Option (Except String Json) :=
  match op with
  | "c05.eval" => some do
      let s ← getSpec (← j.getObjVal? "cor")
      evalSpec s (← rat j "T") (← wantList j)
  | _ => none

end PGA.Drv.C05
