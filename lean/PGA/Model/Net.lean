/-!
# Model of `pgradd/RDkitWrapper/GenRxnNet.py` — the work-list loop of `GenerateRxnNet`

What is modelled (line numbers of `GenRxnNet.py`):

* 47-49 / 69-71  an empty seed list or an empty rule list ends in `IndexError` (`initial_reactant[0]`,
  `reaction_rules[0]`);
* 79-85  `unprocessed` / `processed` work lists: pop the *front* of `unprocessed`, insert it at the *front* of
  `processed`;
* 87-102 per rule, `itertools.product([...], repeat = GetNumReactantTemplates() - 1)`: one empty reactant tuple for a
  unimolecular rule; `ValueError` for a rule without reactant template (negative `repeat`); `TypeError` for a rule
  with two or more templates (`processed[<list>]`);
* 106-127 the flattened product list of `RunReactants((reactant0,))` after the radical treatment and the
  over-valence filter — this is the *parameter* `Rule.run` (RDKit / `ReactionQuery` are not modelled);
* 130-139 duplicate elimination inside one product list, from the last product down to the first;
* 142-155 every remaining product that is neither in `processed` nor (after the repair of F25) in `unprocessed`
  is inserted at the front of `unprocessed`;
* 81 the `while` loop, with explicit fuel: one unit per popped species; running out of fuel is the explicit
  outcome `Err.fuel` (never a default list).

Species are compared by a decidable equality on an abstract key type `α`.  The code compares two molecules by
"same number of atoms and a full-size substructure match"; the tie (harness/c17.py) uses the canonical SMILES of
the explicit-hydrogen molecule as the key and re-validates on every run that the code's test and key equality
coincide on all species met (assumption A-canon).

`pushNewOld` / `loopOld` are the loop as it was before the repair of F25 (products compared with `processed` only).
-/
namespace PGA.Net

/-- outcomes of `GenerateRxnNet` other than a species list -/
inductive Err where
  | index   -- `IndexError`: no seed, or no rule
  | value   -- `ValueError`: a rule with no reactant template (`itertools.product(..., repeat=-1)`)
  | type    -- `TypeError`: a rule with two or more reactant templates (`processed[[1, 2, ...]]`)
  | fuel    -- the model's fuel ran out before `unprocessed` became empty (the real loop is still running)
  deriving DecidableEq, Repr

/-- a reaction rule as the loop sees it -/
structure Rule (α : Type) where
  /-- `GetNumReactantTemplates()` -/
  arity : Nat
  /-- flattened products of `RunReactants((x,))`, in the order of the code's `products` list, after the radical
  treatment and the over-valence filter (lines 102-127) -/
  run : α → List α

variable {α : Type} [DecidableEq α]

/-- lines 130-139 on the reversed list: the head is the *last* product; it is deleted when one of the earlier
products is the same species. -/
def dedupRev : List α → List α
  | [] => []
  | x :: earlier => if x ∈ earlier then dedupRev earlier else x :: dedupRev earlier

/-- lines 130-139: `for i in range(len(products)-1, -1, -1): for j in range(0, i): if same(i, j): del products[i]` -/
def dedup (products : List α) : List α := (dedupRev products.reverse).reverse

/-- lines 142-155 after the repair: `for mol1 in products: if mol1 not in processed + unprocessed:
unprocessed.insert(0, mol1)` -/
def pushNew (processed : List α) : List α → List α → List α
  | [], unprocessed => unprocessed
  | m :: ms, unprocessed =>
    if m ∈ processed ++ unprocessed then pushNew processed ms unprocessed
    else pushNew processed ms (m :: unprocessed)

/-- lines 142-155 before the repair (F25): compared with `processed` only -/
def pushNewOld (processed : List α) : List α → List α → List α
  | [], unprocessed => unprocessed
  | m :: ms, unprocessed =>
    if m ∈ processed then pushNewOld processed ms unprocessed
    else pushNewOld processed ms (m :: unprocessed)

/-- lines 91-155 for one rule -/
def ruleStep (push : List α → List α → List α → List α) (r0 : α) (processed unprocessed : List α) (rule : Rule α) :
    Except Err (List α) :=
  if rule.arity = 0 then .error .value
  else if rule.arity = 1 then .ok (push processed (dedup (rule.run r0)) unprocessed)
  else .error .type

/-- line 87: `for reaction_rule in reaction_rules` -/
def rulesStep (push : List α → List α → List α → List α) (r0 : α) (processed : List α) :
    List (Rule α) → List α → Except Err (List α)
  | [], unprocessed => .ok unprocessed
  | rule :: rest, unprocessed =>
    match ruleStep push r0 processed unprocessed rule with
    | .error e => .error e
    | .ok u => rulesStep push r0 processed rest u

/-- lines 81-155: `loop fuel unprocessed processed` -/
def loopWith (push : List α → List α → List α → List α) (rules : List (Rule α)) :
    Nat → List α → List α → Except Err (List α)
  | _, [], processed => .ok processed
  | 0, _ :: _, _ => .error .fuel
  | fuel + 1, r0 :: rest, processed =>
    match rulesStep push r0 (r0 :: processed) rules rest with
    | .error e => .error e
    | .ok u => loopWith push rules fuel u (r0 :: processed)

/-- the loop of the repaired code -/
def loop (rules : List (Rule α)) : Nat → List α → List α → Except Err (List α) := loopWith pushNew rules
/-- the loop before the repair of F25 -/
def loopOld (rules : List (Rule α)) : Nat → List α → List α → Except Err (List α) := loopWith pushNewOld rules

/-- `GenerateRxnNet(seeds, rules)` (species as keys) -/
def generate (fuel : Nat) (seeds : List α) (rules : List (Rule α)) : Except Err (List α) :=
  if seeds.isEmpty then .error .index
  else if rules.isEmpty then .error .index
  else loop rules fuel seeds []

/-- the same before the repair of F25 -/
def generateOld (fuel : Nat) (seeds : List α) (rules : List (Rule α)) : Except Err (List α) :=
  if seeds.isEmpty then .error .index
  else if rules.isEmpty then .error .index
  else loopOld rules fuel seeds []

end PGA.Net
