import PGA.Gen.Chars
/-! Character predicates of CPython as the implementation sees them, over the generated
range tables (`PGA.Gen.Chars`). -/
namespace PGA.Chars

def inRanges (tab : List (Nat × Nat)) (c : Char) : Bool :=
  tab.any fun r => r.1 ≤ c.toNat && c.toNat ≤ r.2

/-- `str.isdigit` on one character. -/
def isDigitChar (c : Char) : Bool := inRanges PGA.Gen.Chars.isdigitRanges c
def isAlphaChar (c : Char) : Bool := inRanges PGA.Gen.Chars.isalphaRanges c
def isSpaceChar (c : Char) : Bool := inRanges PGA.Gen.Chars.isspaceRanges c

/-- value `int()` gives to a single decimal character, if it accepts it -/
def decimalVal (c : Char) : Option Nat :=
  match PGA.Gen.Chars.decimalRuns.find? (fun r => r.1 ≤ c.toNat && c.toNat ≤ r.2.1) with
  | some r => some (r.2.2 + (c.toNat - r.1))
  | none => none

/-- `str.isdigit()` : non-empty and every character is a digit character. -/
def isDigitStr (s : List Char) : Bool := !s.isEmpty && s.all isDigitChar

/-- `int(s)` for a string already known to satisfy `isdigit`: `none` stands for `ValueError`
(a digit character that is not a decimal, e.g. '²', or more than the interpreter's digit limit). -/
def readNatAux (acc : Nat) : List Char → Option Nat
  | [] => some acc
  | c :: cs => match decimalVal c with
    | some d => readNatAux (acc * 10 + d) cs
    | none => none

def readNat (s : List Char) : Option Nat :=
  if s.length > PGA.Gen.Chars.intMaxStrDigits then none else readNatAux 0 s

def digitChar (d : Nat) : Char := Char.ofNat (48 + d)

/-- `'%d' % n` -/
def showNat (n : Nat) : List Char :=
  if n < 10 then [digitChar n] else showNat (n / 10) ++ [digitChar (n % 10)]
decreasing_by omega

/-- the interpreter's int/str digit limit as a bound on the number -/
def intLimit : Nat := 10 ^ PGA.Gen.Chars.intMaxStrDigits

end PGA.Chars
