import PGA.Model.RingParse
import PGA.Gen.RingGrammar
import PGA.Gen.RingElements
/-!
# Outcome model of the AST → query readers (C09)

`Reader.py`, `MolQueryRead.py`, `ReactionQueryRead.py` as far as they determine the **outcome class** of
`Read(text)`: which constructs end in `RINGReaderError`, in `NotImplementedError`, in a query (with its
atom / bond / label bookkeeping, which later look-ups depend on), or in an exception that is neither
(`shape`: an assertion / index / attribute failure on a tree the grammar cannot produce).  The order of
the checks is the order of the code, so the *first* failure decides.  What the constraints and query
atoms *mean* is the subject of C08 and is not modelled here.

RDKit enters through three facts, each re-observed by the correspondence run: `Chem.Atom(sym)` accepts
exactly the generated symbol table; a query atom's `GetSymbol()` is `'*'` and its radical count and
charge are 0; `RWMol.AddBond` rejects exactly self bonds and duplicate bonds (now pre-empted by the
reader, F23).  `Read` never supplies a group table (`RINGgroups is None`).
-/
set_option linter.unusedVariables false
namespace PGA.Ring
open PGA.Chars PGA.Gen.RingGrammar

/-- why a reader stops -/
inductive RErr where
  | reader      -- RINGReaderError
  | notImpl     -- NotImplementedError
  | shape       -- assert / IndexError / AttributeError / UnboundLocalError on a tree of unexpected shape
  deriving Repr, DecidableEq, Inhabited

abbrev RM := Except RErr

/-- RDKit bond types the readers store or compare with -/
inductive BT where
  | single | double | triple | quadruple | aromatic | unspecified | dative
  deriving Repr, DecidableEq, Inhabited

/-- a `MolQuery` under construction: `name`, `atom_names`, and the bonds of `mol` -/
structure MolQ where
  name : List Char
  labels : List (List Char)
  bonds : List (Nat × Nat × BT)
  oid : Nat := 0          -- Python object identity (two dictionary entries may hold the same MolQuery)
  /-- per atom: the radical count its constraint objects declare (first non-negated `AtomRadical` with operator `=`:
  the suffix's, else one of the chain), `none` when left open — what `ReadRadicalModify` balances against -/
  rads : List (Option Nat) := []
  deriving Repr, Inhabited

def kw (s : String) : List Char := s.toList

/-- `mol.GetBondBetweenAtoms(i, j)` -/
def MolQ.getBond (q : MolQ) (i j : Nat) : Option BT :=
  match q.bonds.find? (fun b => (b.1 = i ∧ b.2.1 = j) ∨ (b.1 = j ∧ b.2.1 = i)) with
  | some b => some b.2.2
  | none => none

/-- `list.index(x)` -/
def indexOf (l : List (List Char)) (x : List Char) : Option Nat := l.findIdx? (fun y => y == x)

def isStr (t : Ast) (s : List Char) : Bool := match t with | .str x => x == s | _ => false

def isLowerChar (c : Char) : Bool := inRanges PGA.Gen.Chars.islowerRanges c

/-- `Chem.Atom(sym)` succeeds -/
def elementOK (s : List Char) : Bool := PGA.Gen.RingElements.elementSymbols.any (fun e => e.1 == s)
/-- `Chem.Atom(sym[0].upper() + sym[1:])` succeeds, for `sym[0].islower()` -/
def aromaticOK (s : List Char) : Bool := PGA.Gen.RingElements.aromaticSymbols.any (fun e => e.1 == s)

/-! ## MolQueryRead.py -/

/-- `ReadSymbols(tree)`, `tree = [symbol]` -/
def readSymbols (kids : List Ast) : RM Unit :=
  match kids with
  | .str s :: _ =>
    if s = kw "any atom" ∨ s = kw "$" ∨ s = kw "heteroatom" ∨ s = kw "&" ∨ s = kw "heavy atom" ∨ s = kw "X" then pure ()
    else match s with
      | [] => throw .shape                        -- `tree[0][0]` on an empty string
      | c :: _ =>
        if isLowerChar c then (if aromaticOK s then pure () else throw .reader)
        else if s = kw "M" then pure ()
        else if elementOK s then pure () else throw .reader
  | _ => throw .shape

/-- `ReadAtomSuffix(tree, atom)`, `tree = [suffix]` -/
def readSuffix (kids : List Ast) : RM Unit :=
  match kids with
  | .str s :: _ =>
    if s = kw "+." ∨ s = kw "-." ∨ s = kw "+" ∨ s = kw "-" ∨ s = kw "." ∨ s = kw ":" ∨ s = kw ":." ∨ s = kw "*" ∨ s = kw "?"
    then pure () else throw .notImpl
  | _ :: _ => throw .notImpl      -- a non-string never equals a suffix text
  | [] => throw .shape

/-- `ReadAtomType(tree)`, `tree = [AtomPrefix?, Symbols, AtomSuffix?]` -/
def readAtomType (kids : List Ast) : RM Unit :=
  let rest := match kids with
    | .node n _ :: r => if n = rAtomPrefix then r else kids
    | _ => kids
  match rest with
  | .node n sk :: more =>
    if n = rSymbols then do
      readSymbols sk
      match more with
      | [] => pure ()
      | .node _ xk :: _ => readSuffix xk
      | _ :: _ => throw .shape
    else throw .shape
  | _ => throw .shape

/-- the optional leading `Boolean` of a constraint: only `!` is supported -/
def readBoolean (kids : List Ast) : RM (List Ast) :=
  match kids with
  | .node n bk :: r =>
    if n = rBoolean then
      match bk with
      | b :: _ => if isStr b (kw "!") then pure r else throw .notImpl
      | [] => throw .shape
    else pure kids
  | _ :: _ => throw .shape         -- `tree[i][0].name` on a leaf
  | [] => throw .shape

/-- `ConstraintNumber(tree[i][1:])` given a list of length 1 or 2 -/
def cnOK (k : List Ast) : Bool := k.length = 1 ∨ k.length = 2

def bondKeywords : List (List Char) :=
  [kw "single", kw "double", kw "triple", kw "quadruple", kw "ring", kw "nonring", kw "aromatic", kw "any", kw "strong", kw "partial"]

/-- the optional bond clause: `if len(tree) == i+1: assert BondType; BondQuery(...)`, else the default -/
def connTail (rest : List Ast) : RM Unit :=
  match rest with
  | [.node b bk] =>
    if b = rBondType then
      match bk with
      | .str s :: _ => if s ∈ bondKeywords then pure () else throw .notImpl
      | _ :: _ => throw .shape
      | [] => throw .shape
    else throw .shape
  | [_] => throw .shape
  | _ => pure ()

/-- the connected atom type or group (`RINGgroups is None`: a group is never found, F19) -/
def connCore (kids : List Ast) : RM Unit :=
  match kids with
  | .node n k :: rest =>
    if n = rAtomType then do
      readAtomType k
      connTail rest
    else if n = rGroupName then
      match k with
      | [] => throw .shape
      | _ :: _ => throw .reader
    else throw .shape
  | _ => throw .shape

/-- the optional `ConstraintNumber` -/
def connCN (kids : List Ast) : RM (List Ast) :=
  match kids with
  | .node n ck :: r => if n = rConstraintNumber then (if cnOK ck then pure r else throw .shape) else pure kids
  | _ => throw .shape

/-- `ReadAtomConstraintConnectivity(tree)` (after the F19 repair) -/
def readConn (kids : List Ast) : RM Unit := do
  let k1 ← readBoolean kids
  let k2 ← connCN k1
  connCore k2

/-- `ReadAtomConstraintRing` / `Radical` / `NRing` -/
def readCountConstraint (kids : List Ast) : RM Unit := do
  let kids ← readBoolean kids
  match kids with
  | .node n ck :: _ => if n = rConstraintNumber then (if cnOK ck then pure () else throw .shape) else throw .shape
  | _ => throw .shape

/-- `ReadAtomConstraints(tree)` -/
def readConstraints (kids : List Ast) : RM Unit :=
  match kids with
  | .node n k :: _ =>
    if n = rAtomConstraintConnectivity then readConn k
    else if n = rAtomConstraintRing ∨ n = rAtomConstraintRadical ∨ n = rAtomConstraintNRing then readCountConstraint k
    else throw .shape
  | _ => throw .shape

/-- `ReadAtomConstraintChain(tree, molquery, idx)` -/
def readConstraintChain (kids : List Ast) : RM Unit :=
  match kids with
  | .node n k :: more =>
    if n = rAtomConstraints then do
      readConstraints k
      match more with
      | [] => pure ()
      | .node m mk :: _ => if m = rAtomConstraintChain then readConstraintChain mk else throw .shape
      | _ :: _ => throw .shape
    else throw .shape
  | _ => throw .shape
termination_by sizeOf kids
decreasing_by simp_wf; omega

def btOfKeyword (s : List Char) : Option BT :=
  if s = kw "single" then some .single
  else if s = kw "double" then some .double
  else if s = kw "triple" then some .triple
  else if s = kw "quadruple" then some .quadruple
  else if s = kw "aromatic" then some .aromatic
  else if s = kw "ring" ∨ s = kw "nonring" ∨ s = kw "any" ∨ s = kw "strong" ∨ s = kw "partial" then some .unspecified
  else none

/-- `ReadBondTypeBondedAtom(idx, idx_connected, bondtype, molquery)` (after the F23 repair) -/
def addBond (q : MolQ) (i j : Nat) (k : Ast) : RM MolQ :=
  if i = j then throw .reader
  else if (q.getBond i j).isSome then throw .reader
  else match k with
    | .str s => match btOfKeyword s with
      | some bt => pure { q with bonds := q.bonds ++ [(i, j, bt)] }
      | none => throw .notImpl
    | _ => throw .notImpl

/-- the single child of an `AtomLabel` / `BondType` / name node: `tree[k][1]` -/
def child1 (t : Ast) : RM Ast :=
  match t with
  | .node _ (c :: _) => pure c
  | _ => throw .shape

def labelOf (t : Ast) : RM (List Char) :=
  match t with
  | .node _ (.str s :: _) => pure s
  | .node _ (_ :: _) => pure []      -- never produced: labels are strings
  | _ => throw .shape

def lookup (q : MolQ) (l : List Char) : RM Nat :=
  match indexOf q.labels l with
  | some i => pure i
  | none => throw .reader

/-- the `AtomRadical` constraint `ReadAtomType` makes of the suffix (or of its absence): its count -/
def suffixRadical (tk : List Ast) : Option Nat :=
  let rest := match tk with
    | .node n _ :: r => if n = rAtomPrefix then r else tk
    | _ => tk
  match rest with
  | [_] => some 0
  | _ :: .node _ (.str s :: _) :: _ =>
    if s = kw "." ∨ s = kw "+." ∨ s = kw "-." then some 1
    else if s = kw ":" then some 2
    else if s = kw ":." then some 3
    else none
  | _ => none

/-- the count of a non-negated `has [=]n radical electrons` item -/
def radicalItem (k : List Ast) : Option Nat :=
  match k with
  | [.node n [.node c ck]] =>
    if n = rAtomConstraintRadical ∧ c = rConstraintNumber then
      match ck with
      | [.int v] => some v
      | [.str o, .int v] => if o = kw "=" then some v else none
      | _ => none
    else none
  | _ => none

/-- the first such item of an `AtomConstraintChain` -/
def chainRadical (kids : List Ast) : Option Nat :=
  match kids with
  | .node _ k :: more =>
    match radicalItem k with
    | some v => some v
    | none =>
      match more with
      | .node _ mk :: _ => chainRadical mk
      | _ => none
  | _ => none
termination_by sizeOf kids
decreasing_by simp_wf; omega

/-- what `DeclaredRadical` finds for an atom declared with type `tk` and the optional chain `more` -/
def declaredRadical (tk more : List Ast) : Option Nat :=
  match suffixRadical tk with
  | some v => some v
  | none =>
    match more with
    | .node _ ck :: _ => chainRadical ck
    | _ => none

/-- `ReadAtom(tree, molquery)` -/
def readAtom (kids : List Ast) (q : MolQ) : RM MolQ :=
  match kids with
  | .node n tk :: lab :: more =>
    if n = rAtomType then do
      readAtomType tk
      let l ← labelOf lab
      let q := { q with labels := q.labels ++ [l], rads := q.rads ++ [declaredRadical tk more] }
      match more with
      | [] => pure q
      | .node m ck :: _ => if m = rAtomConstraintChain then do readConstraintChain ck; pure q else throw .shape
      | _ :: _ => throw .shape
    else throw .shape
  | _ => throw .shape

/-- `ReadBondedAtom(tree, molquery)` -/
def readBondedAtom (kids : List Ast) (q : MolQ) : RM MolQ :=
  match kids with
  | .node n tk :: lab :: bt :: lab2 :: more =>
    if n = rAtomType then do
      readAtomType tk
      let idx := q.labels.length
      let l ← labelOf lab
      let q := { q with labels := q.labels ++ [l], rads := q.rads ++ [declaredRadical tk more] }
      let b ← child1 bt
      let l2 ← labelOf lab2
      let j ← lookup q l2
      let q ← addBond q idx j b
      match more with
      | [] => pure q
      | .node m ck :: _ => if m = rAtomConstraintChain then do readConstraintChain ck; pure q else throw .shape
      | _ :: _ => throw .shape
    else throw .shape
  | _ => throw .shape

/-- `ReadRingBond(tree, molquery)` -/
def readRingBond (kids : List Ast) (q : MolQ) : RM MolQ :=
  match kids with
  | lab1 :: bt :: lab2 :: _ => do
    let l1 ← labelOf lab1
    let i ← lookup q l1
    let b ← child1 bt
    let l2 ← labelOf lab2
    let j ← lookup q l2
    addBond q i j b
  | _ => throw .shape

/-- `ReadStereoDoubleBond(tree, molquery)` -/
def readStereo (kids : List Ast) (q : MolQ) : RM MolQ :=
  match kids with
  | lab1 :: rest => do
    let l1 ← labelOf lab1
    let i1 ← lookup q l1
    let rest ← readBoolean rest
    match rest with
    | ty :: lab2 :: lab3 :: lab4 :: _ => do
      let t ← child1 ty
      if !(isStr t (kw "cis") || isStr t (kw "trans") || isStr t (kw "notspecified")) then throw .notImpl
      let i2 ← lookup q (← labelOf lab2)
      let i3 ← lookup q (← labelOf lab3)
      let i4 ← lookup q (← labelOf lab4)
      match q.getBond i3 i4 with
      | none => throw .reader
      | some bt =>
        if bt ≠ .double then throw .reader
        let b13 := (q.getBond i1 i3).isSome
        let b14 := (q.getBond i1 i4).isSome
        let b23 := (q.getBond i2 i3).isSome
        let b24 := (q.getBond i2 i4).isSome
        if (b13 && b23) || (b14 && b24) then throw .reader
        else if !b13 && !b14 then throw .reader
        else if !b23 && !b24 then throw .reader
        else pure q
    | _ => throw .shape
  | _ => throw .shape

/-- `ReadAtomChain(tree, molquery)` -/
def readAtomChain (kids : List Ast) (q : MolQ) : RM MolQ :=
  match kids with
  | .node n k :: more => do
    let q ← (if n = rBondedAtom then readBondedAtom k q
             else if n = rRingBond then readRingBond k q
             else if n = rStereoDoubleBond then readStereo k q
             else throw .shape)
    match more with
    | [] => pure q
    | .node m mk :: _ => if m = rAtomChain then readAtomChain mk q else throw .shape
    | _ :: _ => throw .shape
  | _ => throw .shape
termination_by sizeOf kids
decreasing_by simp_wf; omega

/-- `ReadMolQuery(tree, molquery)` -/
def readMolQuery (kids : List Ast) (q : MolQ) : RM MolQ :=
  match kids with
  | .node n k :: more =>
    if n = rAtom then do
      let q ← readAtom k q
      match more with
      | [] => pure q
      | .node m mk :: _ => if m = rAtomChain then readAtomChain mk q else throw .shape
      | _ :: _ => throw .shape
    else throw .shape
  | _ => throw .shape

/-- `ReadMolQueryPrefix(tree, molquery)`: only the final `else` can stop -/
def readPrefix (ks : List Ast) : RM Unit :=
  let is (i : Nat) (ws : List String) : Bool := match ks[i]? with
    | some t => ws.any (fun w => isStr t (kw w))
    | none => false
  let i := if is 0 ["positive", "negative", "neutral"] then 1 else 0
  let i := if i < ks.length then (if is i ["aromatic", "olefinic", "paraffinic"] then i + 1 else i) else i
  if i < ks.length then (if is i ["cyclic", "linear"] then pure () else throw .notImpl) else pure ()

/-- `MolQueryReader(tree).Read()`, `tree = [Prefix, name, MolQuery]` -/
def readMol (kids : List Ast) : RM MolQ :=
  match kids with
  | .node p pk :: nm :: .node m mk :: _ =>
    if p = rPrefix then do
      if !pk.isEmpty then readPrefix pk
      match nm with
      | .node nn nk =>
        if nn = rFragmentName ∨ nn = rReactantName ∨ nn = rGroupName then
          match nk with
          | c :: _ =>
            let name := match c with | .str s => s | _ => []
            if m = rMolQuery then readMolQuery mk { name := name, labels := [], bonds := [] } else throw .shape
          | [] => throw .shape
        else throw .shape
      | _ => throw .shape
    else throw .shape
  | _ => throw .shape

/-! ## ReactionQueryRead.py -/

/-- reader state: `reactionquery.reactantquery` (a dict name ↦ MolQuery *object*: entries with the same `oid` are
the same Python object, and are updated together), `self.atom_names`, `self.atom_belonging_mol`,
`self.electronbalance` (in half electrons), number of transformations -/
structure Rxn where
  rq : List (List Char × MolQ)
  nobj : Nat
  atomNames : List (List Char)
  belong : List (List Char)
  balance : List Int
  ntrans : Nat
  deriving Repr, Inhabited

def dictSet (d : List (List Char × MolQ)) (k : List Char) (v : MolQ) : List (List Char × MolQ) :=
  if d.any (fun e => e.1 == k) then d.map (fun e => if e.1 == k then (k, v) else e) else d ++ [(k, v)]

def dictGet (d : List (List Char × MolQ)) (k : List Char) : Option MolQ :=
  match d.find? (fun e => e.1 == k) with | some e => some e.2 | none => none

/-- `labelmapping[k] = v` -/
def mapSet (d : List (List Char × List Char)) (k v : List Char) : List (List Char × List Char) :=
  if d.any (fun e => e.1 == k) then d.map (fun e => if e.1 == k then (k, v) else e) else d ++ [(k, v)]

def mapGet (d : List (List Char × List Char)) (k : List Char) : Option (List Char) :=
  match d.find? (fun e => e.1 == k) with | some e => some e.2 | none => none

def addAt (l : List Int) (i : Nat) (d : Int) : List Int := l.modify i (· + d)

/-- `ReadBondType(tree)`: RDKit type and electron balance (half electrons) -/
def rxnBondType (k : Ast) : RM (BT × Int) :=
  if isStr k (kw "single") then pure (.single, 2)
  else if isStr k (kw "double") then pure (.double, 4)
  else if isStr k (kw "triple") then pure (.triple, 6)
  else if isStr k (kw "quadruple") then pure (.quadruple, 8)
  else if isStr k (kw "aromatic") then pure (.aromatic, 3)
  else if isStr k (kw "partial") then pure (.dative, 0)
  else throw .reader

def balanceOf : BT → Option Int
  | .single => some 2 | .double => some 4 | .triple => some 6 | .quadruple => some 8
  | .aromatic => some 3 | .dative => some 0 | .unspecified => none

/-- `LabelMapping(tree, labelmapping)` -/
def readLabelMapping (kids : List Ast) (m : List (List Char × List Char)) : RM (List (List Char × List Char)) :=
  match kids with
  | .node a ak :: .node b bk :: more =>
    if a = rAtomLabel ∧ b = rAtomLabel then
      match ak, bk with
      | x :: _, y :: _ =>
        let sx := match x with | .str s => s | _ => []
        let sy := match y with | .str s => s | _ => []
        let m := mapSet m sx sy
        match more with
        | [] => pure m
        | .node c ck :: _ => if c = rLabelMapping then readLabelMapping ck m else throw .shape
        | _ :: _ => throw .shape
      | _, _ => throw .shape
    else throw .shape
  | _ => throw .shape
termination_by sizeOf kids
decreasing_by simp_wf; omega

/-- global label → (index, reactant name, MolQuery, index in it): the look-up chain of `ReadAtomLabel`,
`ReadBondBreak`, `ReadBondModify`; any failure is an `except Exception` → RINGReaderError -/
def locate (s : Rxn) (l : List Char) : RM (Nat × List Char × MolQ × Nat) :=
  match indexOf s.atomNames l with
  | none => throw .reader
  | some idx =>
    match s.belong[idx]? with
    | none => throw .reader
    | some rn =>
      match dictGet s.rq rn with
      | none => throw .reader
      | some q =>
        match indexOf q.labels l with
        | none => throw .reader
        | some iq => pure (idx, rn, q, iq)

def globalIdx (s : Rxn) (l : List Char) : RM Nat :=
  match indexOf s.atomNames l with | some i => pure i | none => throw .reader

def bump (s : Rxn) (i : Nat) (d : Int) : Rxn := { s with balance := addAt s.balance i d }
def done (s : Rxn) : Rxn := { s with ntrans := s.ntrans + 1 }

/-- `ReadBondForm` / `ReadBondBreak`: `[BondType?, AtomLabel, AtomLabel]` -/
def readBondForm (kids : List Ast) (s : Rxn) : RM Rxn := do
  let (bal, rest) ← (match kids with
    | .node n bk :: r =>
      if n = rBondType then (match bk with
        | b :: _ => do let (_, bal) ← rxnBondType b; pure (bal, r)
        | [] => throw .shape)
      else pure ((2 : Int), kids)
    | _ => throw .shape)
  match rest with
  | a :: b :: _ => do
    let i ← globalIdx s (← labelOf a)
    let j ← globalIdx s (← labelOf b)
    pure (done (bump (bump s i (-bal)) j (-bal)))
  | _ => throw .shape

def readBondBreak (kids : List Ast) (s : Rxn) : RM Rxn := do
  let (bt, bal, rest) ← (match kids with
    | .node n bk :: r =>
      if n = rBondType then (match bk with
        | b :: _ => do let (bt, bal) ← rxnBondType b; pure (bt, bal, r)
        | [] => throw .shape)
      else pure (BT.single, (2 : Int), kids)
    | _ => throw .shape)
  match rest with
  | a :: b :: _ => do
    let (i, rn1, q1, iq1) ← locate s (← labelOf a)
    let (j, rn2, _, iq2) ← locate s (← labelOf b)
    if rn1 ≠ rn2 then throw .reader
    match q1.getBond iq1 iq2 with
    | none => throw .reader
    | some t =>
      if t = .unspecified then throw .reader
      if t ≠ bt then throw .reader
      pure (done (bump (bump s i bal) j bal))
  | _ => throw .shape

/-- `ReadBondModify`: `[AtomLabel, AtomLabel, BondType]` -/
def readBondModify (kids : List Ast) (s : Rxn) : RM Rxn :=
  match kids with
  | a :: b :: ty :: _ => do
    let (i, rn1, q1, iq1) ← locate s (← labelOf a)
    let (j, rn2, _, iq2) ← locate s (← labelOf b)
    if rn1 ≠ rn2 then throw .reader
    match q1.getBond iq1 iq2 with
    | none => throw .reader
    | some t =>
      match balanceOf t with
      | none => throw .reader
      | some bal1 =>
        let (_, bal) ← rxnBondType (← child1 ty)
        pure (done (bump (bump s i (-(bal - bal1))) j (-(bal - bal1))))
  | _ => throw .shape

/-- `ReadBondIncrease` (`d = -1`) / `ReadBondDecrease` (`d = +1`) -/
def readBondOrder (d : Int) (kids : List Ast) (s : Rxn) : RM Rxn :=
  match kids with
  | a :: b :: _ => do
    let i ← globalIdx s (← labelOf a)
    let j ← globalIdx s (← labelOf b)
    pure (done (bump (bump s i (2 * d)) j (2 * d)))
  | _ => throw .shape

/-- `ReadAtomLabel` then a balance change: Radical/Charge Increase (−1) / Decrease (+1) -/
def readAtomStep (d : Int) (kids : List Ast) (s : Rxn) : RM Rxn :=
  match kids with
  | a :: _ => do
    let (i, _, _, _) ← locate s (← labelOf a)
    pure (done (bump s i (2 * d)))
  | _ => throw .shape

/-- `ReadRadicalModify`: `[AtomLabel, int]`; balanced against the radical count the reactant pattern declares for the
atom (a pattern that leaves it open is a RINGReaderError) -/
def readRadicalModify (kids : List Ast) (s : Rxn) : RM Rxn :=
  match kids with
  | a :: .int v :: _ => do
    let (i, _, q, iq) ← locate s (← labelOf a)
    match q.rads[iq]? with
    | some (some d) => pure (done (bump s i (-(2 * ((v : Int) - (d : Int))))))
    | _ => throw .reader
  | _ => throw .shape

/-- `ReadAtomTypeModify`: `[AtomLabel, AtomType]`; a query atom's symbol is `'*'`, never the first
character of a symbol text, so a located atom always ends in NotImplementedError -/
def readAtomTypeModify (kids : List Ast) (s : Rxn) : RM Rxn :=
  match kids with
  | a :: .node n tk :: _ => do
    let _ ← locate s (← labelOf a)
    if n ≠ rAtomType then throw .shape
    match tk with
    | .node m sk :: _ =>
      if m = rAtomPrefix then throw .notImpl
      else if m = rSymbols then
        match sk with
        | .str (_ :: _) :: _ => throw .notImpl
        | _ => throw .shape
      else throw .shape
    | _ => throw .shape
  | _ => throw .shape

/-- `ReadConnectivityChange(tree)` -/
def readChange (kids : List Ast) (s : Rxn) : RM Rxn :=
  match kids with
  | .node n k :: _ =>
    if n = rBondForm then readBondForm k s
    else if n = rBondBreak then readBondBreak k s
    else if n = rBondModify then readBondModify k s
    else if n = rBondIncrease then readBondOrder (-1) k s
    else if n = rBondDecrease then readBondOrder 1 k s
    else if n = rAtomTypeModify then readAtomTypeModify k s
    else if n = rRadicalModify then readRadicalModify k s
    else if n = rRadicalIncrease then readAtomStep (-1) k s
    else if n = rRadicalDecrease then readAtomStep 1 k s
    else if n = rChargeIncrease then readAtomStep (-1) k s
    else if n = rChargeDecrease then readAtomStep 1 k s
    else pure s
  | _ => throw .shape

/-- `ReadTransformationChain(tree)` -/
def readTransChain (kids : List Ast) (s : Rxn) : RM Rxn :=
  match kids with
  | .node n k :: more =>
    if n = rConnectivityChange then do
      let s ← readChange k s
      match more with
      | [] => pure s
      | .node m mk :: _ => if m = rTransformationChain then readTransChain mk s else throw .shape
      | _ :: _ => throw .shape
    else throw .shape
  | _ => throw .shape
termination_by sizeOf kids
decreasing_by simp_wf; omega

/-- characters of `name * n` as one-character strings (`list += str`) -/
def charsTimes (name : List Char) (n : Nat) : List (List Char) :=
  (List.replicate n (name.map fun c => [c])).flatten

/-- `ReadDuplicates(tree)`: `[ReactantName, ReactantName, LabelMapping]` -/
def readDuplicates (kids : List Ast) (s : Rxn) : RM Rxn :=
  match kids with
  | .node a ak :: .node b bk :: .node c ck :: _ =>
    if a = rReactantName ∧ b = rReactantName ∧ c = rLabelMapping then do
      let m ← readLabelMapping ck []
      match ak, bk with
      | x :: _, y :: _ =>
        let newName := match x with | .str t => t | _ => []
        let src := match y with | .str t => t | _ => []
        match dictGet s.rq src with
        | none => throw .reader
        | some q =>
          if m.length ≠ q.labels.length then throw .reader
          match q.labels.mapM (mapGet m) with
          | none => throw .reader
          | some ls =>
            -- `rq[new] = rq[src]`, then the (shared) object is renamed and relabelled in place
            let q' : MolQ := { q with name := newName, labels := ls }
            let rq := (dictSet s.rq newName q').map fun e => if e.2.oid = q.oid then (e.1, q') else e
            pure { s with rq := rq,
                          atomNames := s.atomNames ++ ls,
                          balance := s.balance ++ List.replicate ls.length 0,
                          belong := s.belong ++ charsTimes newName ls.length }
      | _, _ => throw .shape
    else throw .shape
  | _ => throw .shape

/-- `ReadReactantGroup(tree)`: `[ReactantName, GroupName, LabelMapping]`; no group table → RINGReaderError -/
def readReactantGroup (kids : List Ast) : RM Unit :=
  match kids with
  | .node a _ :: .node b bk :: .node c ck :: _ =>
    if a = rReactantName ∧ b = rGroupName ∧ c = rLabelMapping then do
      let _ ← readLabelMapping ck []
      match bk with
      | _ :: _ => throw .reader
      | [] => throw .shape
    else throw .shape
  | _ => throw .shape

/-- `ReadReactants(tree)` -/
def readReactants (kids : List Ast) (s : Rxn) : RM Rxn :=
  match kids with
  | .node n k :: more => do
    let s ← (if n = rReactantQuery then do
               let q0 ← readMol k
               let q : MolQ := { q0 with oid := s.nobj }
               pure { s with rq := dictSet s.rq q.name q, nobj := s.nobj + 1,
                             atomNames := s.atomNames ++ q.labels,
                             balance := s.balance ++ List.replicate q.labels.length 0,
                             belong := s.belong ++ List.replicate q.labels.length q.name }
             else if n = rReactantGroup then do readReactantGroup k; pure s
             else if n = rDuplicates then readDuplicates k s
             else throw .shape)
    match more with
    | [.node _ mk] => readReactants mk s
    | [_] => throw .shape
    | _ => pure s
  | _ => throw .shape
termination_by sizeOf kids
decreasing_by simp_wf; omega

/-- what the harness can see of a returned query -/
inductive Query where
  | mol (q : MolQ)
  | rxn (s : Rxn)
  deriving Repr, Inhabited

/-- `ReactionQueryReader(tree).Read()`, `tree = [ReactionName, Reactants, Constraints?, TransformationChain]` -/
def readRule (kids : List Ast) : RM Rxn :=
  match kids with
  | .node a ak :: .node r rk :: rest =>
    if a = rReactionName ∧ r = rReactants then
      match ak with
      | [] => throw .shape
      | _ :: _ => do
        let s ← readReactants rk ⟨[], 0, [], [], [], 0⟩
        match rest with
        | .node c ck :: _ =>
          if c = rConstraints then throw .notImpl
          else if c = rTransformationChain then do
            let s ← readTransChain ck s
            if s.balance.all (· == 0) then pure s else throw .reader
          else throw .shape
        | _ => throw .shape
    else throw .shape
  | _ => throw .shape

/-- `Reader(ast).Read()` -/
def readAst (t : Ast) : RM Query :=
  match t with
  | .node r (.node n k :: _) =>
    if r ≠ rRINGInput then throw .shape
    else if n = rFragment then do let q ← readMol k; pure (.mol q)
    else if n = rReactionRule then do let s ← readRule k; pure (.rxn s)
    else throw .shape
  | _ => throw .shape

/-- outcome classes of `Read(text)` -/
inductive Outcome where
  | query (q : Query)
  | syntaxError (e : Err)
  | readerError
  | notImplemented
  | internal            -- an exception that is neither a RING error nor NotImplementedError
  | hang
  deriving Inhabited

/-- `Read(text, strict)`: the `strict` argument is not passed on to the parser (mirrors Reader.py) -/
def read (s : List Char) : Outcome :=
  match parse enhanced s with
  | .syntaxError e => .syntaxError e
  | .abort .hang => .hang
  | .abort _ => .internal
  | .accepted ast _ =>
    match readAst ast with
    | .ok q => .query q
    | .error .reader => .readerError
    | .error .notImpl => .notImplemented
    | .error .shape => .internal

end PGA.Ring
