import PGA.Model.Yaml
import PGA.Model.GroupName
/-!
# Model of merging: `ThermochemIncomplete.update` / `copy`, `GroupLibrary.Update`, `GroupLibrary._do_load` (C13)

Mirrors `pgradd/ThermoChem/incomplete.py` 85-105 (presence tests, after the repair of F13: `is not None`), 186-196
(`copy`), 198-299 (`update`, after the repair that validates the merged data before anything is stored) and
`pgradd/GroupAdd/Library.py` 233-341 (`_do_load` with its duplicate check and recursive includes; `Update`, after the
repair of FA1: a first pass that stores nothing and finds out whether the merge is refused, then the storing pass).

`update` is modelled as a *state transformer*: it returns the state of `self` after the call together with the error,
if any, so that "a rejected merge leaves the correlation unchanged" is a statement with content.  The state of an
object is its five data fields plus whether the internal `_correlation` attribute exists.

Evaluating the temporary correlation at the reference temperature of `self` goes through `ThermochemRawData`
(`get_HoRT`, `get_SoR`: the C05 model).  Here it is a parameter `RawEval`; when both reference temperatures agree the
branch structure of `raw_data.py` returns the reference value itself (assumption A-ref, `T ≠ 0`), which is what
`evalAt` does; for `T ≠ T_ref` the value comes from the parameter.
-/
namespace PGA.Merge
open PGA.Yaml PGA.GroupName

abbrev Corr := CorrOf Rat

/-- errors escaping from `update` / `copy` / the constructor -/
inductive UErr
  | readOnly     -- `ReadOnlyDataError`
  | value        -- `ValueError` (constructor range checks)
  | assertion    -- `AssertionError` (reversed range)
  | incomplete   -- `IncompleteDataError` (evaluation of the temporary correlation outside its range)
  | zeroDiv      -- `ZeroDivisionError` (reference temperature 0 K)
  deriving DecidableEq, Repr

def UErr.ofC : CErr → UErr
  | .assertion => .assertion
  | .zeroDiv => .zeroDiv
  | _ => .value

/-- an object: data fields and whether `_correlation` exists -/
structure Obj where
  c : Corr
  built : Bool
  deriving DecidableEq, Repr

/-- `ThermochemIncomplete.__init__` -/
def mk (H S : Option Rat) (cp : List (Rat × Rat)) (Tref : Rat) (range : Option (Rat × Rat)) : Except UErr Obj :=
  match checkValid cp Tref range with
  | .ok () => .ok ⟨⟨H, S, cp, Tref, range⟩, !cp.isEmpty⟩
  | .error e => .error (UErr.ofC e)

/-- `copy()` -/
def copy (o : Obj) : Except UErr Obj := mk o.c.H o.c.S o.c.cp o.c.Tref o.c.range

/-- evaluation of a `ThermochemRawData` away from its reference temperature (C05; oracle values in the driver) -/
structure RawEval where
  H : (h Tref : Rat) → List (Rat × Rat) → Option (Rat × Rat) → (T : Rat) → Rat
  S : (s Tref : Rat) → List (Rat × Rat) → Option (Rat × Rat) → (T : Rat) → Rat

/-- `ThermochemRawData.get_HoRT(T)` / `get_SoR(T)` inside the range: at `T = T_ref` every branch of the (repaired)
implementation returns the reference value (`(h·T + c·0)/T`, `s + c·log 1`, `s + ∫_T^T`), with a zero division for `T = 0` -/
def evalAt (f : Rat → Rat → List (Rat × Rat) → Option (Rat × Rat) → Rat → Rat) (x Tref : Rat) (cp : List (Rat × Rat))
    (range : Option (Rat × Rat)) (T : Rat) : Except UErr Rat :=
  if T = Tref then (if T = 0 then .error .zeroDiv else .ok x) else .ok (f x Tref cp range T)

/-- `check_range(T)` of the internal correlation: its range is the given one or the span of the table -/
def inRange (cp : List (Rat × Rat)) (range : Option (Rat × Rat)) (T : Rat) : Bool :=
  match range with
  | some (lo, hi) => !(T < lo ∨ hi < T)
  | none =>
    match minKey cp, maxKey cp with
    | some mn, some mx => !(T < mn ∨ mx < T)
    | _, _ => true

/-- `ThermochemIncomplete.get_HoRT(T)` (144-163) -/
def getH (ev : RawEval) (c : Corr) (T : Rat) : Except UErr Rat :=
  match c.H with
  | none => .error .incomplete
  | some h =>
    if c.cp.isEmpty then .ok h
    else if inRange c.cp c.range T then evalAt ev.H h c.Tref c.cp c.range T
    else .error .incomplete

/-- `ThermochemIncomplete.get_SoR(T)` (165-184) -/
def getS (ev : RawEval) (c : Corr) (T : Rat) : Except UErr Rat :=
  match c.S with
  | none => .error .incomplete
  | some s =>
    if c.cp.isEmpty then .ok s
    else if inRange c.cp c.range T then evalAt ev.S s c.Tref c.cp c.range T
    else .error .incomplete

/-- union of two ranges (226-234) -/
def unionRange : Option (Rat × Rat) → Option (Rat × Rat) → Option (Rat × Rat)
  | r, none => r
  | none, some o => some o
  | some (a, b), some (c, d) => some (if a ≤ c then a else c, if b ≤ d then d else b)

/-- the loop 240-248: `other` is walked in its dictionary order; a datum already in `self` with a different value is
`ReadOnlyDataError` unless `overwrite` -/
def mergeCp (ow : Bool) (self : List (Rat × Rat)) : List (Rat × Rat) → List (Rat × Rat) → Except UErr (List (Rat × Rat))
  | acc, [] => .ok acc
  | acc, (T, v) :: rest =>
    if !ow && (dlookup T self).isSome && dlookup T acc != some v then .error .readOnly
    else mergeCp ow self (dinsert T v acc) rest

def absR (x : Rat) : Rat := if x < 0 then -x else x
def maxR (x y : Rat) : Rat := if x ≤ y then y else x

/-- `math.isclose(a, b, rel_tol=1e-15)` -/
def isclose (a b : Rat) : Bool := absR (a - b) ≤ (1 / 1000000000000000 : Rat) * maxR (absR a) (absR b)

/-- one reference value (269-279 / 281-291) -/
def mergeRef (ow : Bool) (old : Option Rat) (new : Rat) : Except UErr (Option Rat) :=
  match old with
  | some o => if !ow && !isclose new o then .error .readOnly else .ok (some new)
  | none => .ok (some new)

/-- 269-279: the new reference enthalpy; `test` is the temporary correlation -/
def newH (ev : RawEval) (ow : Bool) (c d test : Corr) : Except UErr (Option Rat) :=
  match d.H with
  | some _ =>
    match getH ev test c.Tref with
    | .ok nh => mergeRef ow c.H nh
    | .error e => .error e
  | none => .ok c.H

/-- 281-291: the new reference entropy -/
def newS (ev : RawEval) (ow : Bool) (c d test : Corr) : Except UErr (Option Rat) :=
  match d.S with
  | some _ =>
    match getS ev test c.Tref with
    | .ok ns => mergeRef ow c.S ns
    | .error e => .error e
  | none => .ok c.S

/-- 254-291: the new reference values, through the temporary correlation -/
def mergeRefs (ev : RawEval) (ow : Bool) (c d : Corr) (cp : List (Rat × Rat)) (range : Option (Rat × Rat)) :
    Except UErr (Option Rat × Option Rat) :=
  if d.H.isSome || d.S.isSome then
    match checkValid cp d.Tref range with
    | .error e => .error (UErr.ofC e)
    | .ok () =>
      let test : Corr := ⟨d.H, d.S, cp, d.Tref, range⟩
      match newH ev ow c d test with
      | .error e => .error e
      | .ok H =>
        match newS ev ow c d test with
        | .error e => .error e
        | .ok S => .ok (H, S)
  else .ok (c.H, c.S)

/-- `_setup_correlation()` on committed fields: deletes `_correlation`, rebuilds it when there is a table -/
def setup (c : Corr) : Obj × Option UErr :=
  match setupCheck c.cp c.Tref c.range with
  | .ok () => (⟨c, !c.cp.isEmpty⟩, none)
  | .error e => (⟨c, false⟩, some (UErr.ofC e))

/-- `ThermochemIncomplete.update(correlation, overwrite)`: state of `self` afterwards, and the exception if any -/
def update (ev : RawEval) (self : Obj) (d : Corr) (ow : Bool) : Obj × Option UErr :=
  let c := self.c
  let range := unionRange c.range d.range
  match mergeCp ow c.cp c.cp d.cp with
  | .error e => (self, some e)
  | .ok cp =>
    match mergeRefs ev ow c d cp range with
    | .error e => (self, some e)
    | .ok (H, S) =>
      -- the merged data are validated before anything is stored
      match checkValid cp c.Tref range with
      | .error e => (self, some (UErr.ofC e))
      | .ok () => setup ⟨H, S, cp, c.Tref, range⟩

/-- the unrepaired method (no validation before the commit), kept for the witnesses of F32/F35 in `Props/C13` -/
def updateOld (ev : RawEval) (self : Obj) (d : Corr) (ow : Bool) : Obj × Option UErr :=
  let c := self.c
  let range := unionRange c.range d.range
  match mergeCp ow c.cp c.cp d.cp with
  | .error e => (self, some e)
  | .ok cp =>
    match mergeRefs ev ow c d cp range with
    | .error e => (self, some e)
    | .ok (H, S) => setup ⟨H, S, cp, c.Tref, range⟩

/-! ### libraries -/

/-- `GroupLibrary.contents`: canonical group name ↦ property sets (`none`: the group is there without a
`thermochem` entry) -/
abbrev Lib := List (Name × Option Obj)

def libLookup (g : Name) : Lib → Option (Option Obj)
  | [] => none
  | (k, v) :: l => if k = g then some v else libLookup g l

def libInsert (g : Name) (v : Option Obj) : Lib → Lib
  | [] => [(g, v)]
  | (k, w) :: l => if k = g then (g, v) :: l else (k, w) :: libInsert g v l

/-- one group of the storing pass of `GroupLibrary.Update` (the whole loop of the method before it was made
all-or-nothing): a property set the target does not have is a copy of the source's, one it has is updated in place -/
def updateGroup (ev : RawEval) (ow : Bool) (self : Lib) (g : Name) (other : Option Obj) : Lib × Option UErr :=
  let mine : Option Obj := match libLookup g self with
    | some ps => ps
    | none => none          -- `self.contents[group] = {}`
  match other with
  | none => (libInsert g mine self, none)
  | some o =>
    match mine with
    | none =>
      match copy o with
      | .ok o' => (libInsert g (some o') self, none)
      | .error e => (libInsert g none self, some e)
    | some m =>
      let r := update ev m o.c ow
      (libInsert g (some r.1) self, r.2)

/-- `GroupLibrary.Update(lib, overwrite)` as it was before the repair of FA1 — and the storing pass of the repaired method:
groups of `other` in order; stops at the first exception, keeping what was merged before it -/
def libUpdateOld (ev : RawEval) (ow : Bool) : Lib → Lib → Lib × Option UErr
  | self, [] => (self, none)
  | self, (g, ps) :: rest =>
    match updateGroup ev ow self g ps with
    | (self', none) => libUpdateOld ev ow self' rest
    | (self', some e) => (self', some e)

/-- one group of the first pass of `GroupLibrary.Update`: nothing is stored; a property set the target does not have is
copied (`other_property_sets[name].copy()`), a merge into one it has is tried on a copy of the target's
(`property_sets[name].copy().update(other_property_sets[name], overwrite)`).  The exception, if any. -/
def trialGroup (ev : RawEval) (ow : Bool) (self : Lib) (g : Name) (other : Option Obj) : Option UErr :=
  let mine : Option Obj := match libLookup g self with
    | some ps => ps
    | none => none          -- `self.contents.get(group, {})`
  match other with
  | none => none
  | some o =>
    match mine with
    | none =>
      match copy o with
      | .ok _ => none
      | .error e => some e
    | some m =>
      match copy m with
      | .error e => some e
      | .ok m' => (update ev m' o.c ow).2

/-- the first pass over the groups of `other`, in order, every group against the target *as it is* (nothing is stored):
the first exception -/
def libTrial (ev : RawEval) (ow : Bool) (self : Lib) : Lib → Option UErr
  | [] => none
  | (g, ps) :: rest =>
    match trialGroup ev ow self g ps with
    | some e => some e
    | none => libTrial ev ow self rest

/-- `GroupLibrary.Update(lib, overwrite)` (after the repair of FA1): the first pass decides whether the merge is refused
— then the target is what it was —; otherwise the second pass stores, group by group as the old loop did (the copies made
by the first pass are the copies the old loop made: `copy` is a function of the source's data) -/
def libUpdate (ev : RawEval) (ow : Bool) (self other : Lib) : Lib × Option UErr :=
  match libTrial ev ow self other with
  | some e => (self, some e)
  | none => libUpdateOld ev ow self other

/-! ### loading a tree of files -/

inductive LErr
  | load (e : LoadErr)     -- from the value loaders
  | key                    -- `KeyError('Multiple definitions of group …')`
  | groupSyntax            -- `GroupSyntaxError`
  | groupValue             -- `ValueError` escaping from `Group.parse`
  | upd (e : UErr)         -- from merging an included file
  | unmodelled             -- a loaded value that is not a plain number (merging those is outside the model)
  deriving DecidableEq, Repr

/-- the `groups:` mapping of one file after the value loaders ran: (name as written, loaded `thermochem` entry or the
error raised while loading it; `ok none`: the group has no `thermochem` entry) -/
abbrev GroupsD := List (List Char × Except LoadErr (Option Loaded))

/-- the include structure: a list of files, each with its groups and its own includes
(first-child / next-sibling form of the file tree) -/
inductive Incs
  | nil
  | cons (groups : GroupsD) (sub : Incs) (rest : Incs)

def plainOpt : Option QV → Option (Option Rat)
  | none => some none
  | some (.num v) => some (some v)
  | some (.qty _ _) => none

def plainCp : List (Rat × QV) → Option (List (Rat × Rat))
  | [] => some []
  | (T, .num v) :: l => (plainCp l).map fun r => (T, v) :: r
  | (_, .qty _ _) :: _ => none

/-- a loaded correlation all of whose values are plain numbers -/
def toCorr (l : Loaded) : Option Corr :=
  match plainOpt l.H, plainOpt l.S, plainCp l.cp with
  | some H, some S, some cp => some ⟨H, S, cp, l.Tref, l.range⟩
  | _, _, _ => none

/-- 254-262: the groups of one file, in order, with the duplicate check on the parsed (canonical) name -/
def loadOwn : Lib → GroupsD → Except LErr Lib
  | acc, [] => .ok acc
  | acc, (text, entry) :: rest =>
    match parse text with
    | .error .syntax => .error .groupSyntax
    | .error .value => .error .groupValue
    | .ok g =>
      if (libLookup g.name acc).isSome then .error .key
      else match entry with
        | .error e => .error (.load e)
        | .ok none => loadOwn (acc ++ [(g.name, none)]) rest
        | .ok (some l) =>
          match toCorr l with
          | none => .error .unmodelled
          | some c => loadOwn (acc ++ [(g.name, some ⟨c, !c.cp.isEmpty⟩)]) rest

/-- 288-293: `new_lib.Update(cls._Load(include))` for every include, in order; an included file is loaded the same way -/
def loadIncs (ev : RawEval) : Lib → Incs → Except LErr Lib
  | acc, .nil => .ok acc
  | acc, .cons groups sub rest =>
    match loadOwn [] groups with
    | .error e => .error e
    | .ok own =>
      match loadIncs ev own sub with
      | .error e => .error e
      | .ok inc =>
        match libUpdate ev false acc inc with
        | (_, some e) => .error (.upd e)
        | (acc', none) => loadIncs ev acc' rest

/-- `GroupLibrary._do_load` of a file with the given groups and includes -/
def loadFile (ev : RawEval) (groups : GroupsD) (incs : Incs) : Except LErr Lib :=
  match loadOwn [] groups with
  | .error e => .error e
  | .ok own => loadIncs ev own incs

end PGA.Merge
