import PGA.Model.Merge
/-!
# Model of `ThermochemIncomplete.yaml_format` (C18)

Mirrors `pgradd/ThermoChem/incomplete.py:338-398` (after the repairs of F13: presence tests by `is not None`, and F14:
non-dimensional values written through `float`) and `pgradd/Units/qty.py:329-351` (`fmt_in_units`: the value converted to
the chosen unit, written with six significant digits followed by the unit).

The formatter is modelled as producing the *tree* that the written text denotes (assumptions A-yaml / A-float: `repr` of a
float round-trips, `'%g'` keeps six significant digits — the parameter `rnd`).  The keys come out in the order of the lines.
-/
namespace PGA.YamlFormat
open PGA.Yaml PGA.Merge

/-- the `units` argument: `none` = key absent / `None` / empty (write the non-dimensional form);
`T` is `units.get('temperature', 'K')` -/
structure FmtUnits where
  H : Option String
  S : Option String
  Cp : Option String
  T : String
  deriving DecidableEq, Repr

inductive FErr
  | unitsParse   -- unknown unit string
  | units        -- `UnitsError`: the chosen unit has the wrong dimension
  | attr         -- `fmt_in_units` on a bare number
  deriving DecidableEq, Repr

/-- `q.fmt_in_units(us)` as the string scalar `"<rnd (q in us)> <us>"` -/
def fmtIn (tab : UnitTable) (rnd : Rat → Rat) (q : QV) (us : String) : Except FErr YVal :=
  match tab.lookup us with
  | none => .error .unitsParse
  | some u =>
    match q.inUnits u with
    | .ok x => .ok (.qstr (rnd x) us)
    | .error .attr => .error .attr
    | .error _ => .error .units

/-- keys in ascending order (`sorted(self.ND_Cp_data)`) -/
def insertKey (k : Rat) : List Rat → List Rat
  | [] => [k]
  | x :: xs => if k ≤ x then k :: x :: xs else x :: insertKey k xs

def sortedKeys (cp : List (Rat × Rat)) : List Rat := (cp.map Prod.fst).foldr insertKey []

/-- one value of a row: dimensional (`R*v` in the chosen unit) or the plain number -/
def fmtCpValue (tab : UnitTable) (R : QV) (rnd : Rat → Rat) (cu : Option String) (v : Rat) : Except FErr YVal :=
  match cu with
  | some u => fmtIn tab rnd (R.mul (.num v)) u
  | none => .ok (.num v)

/-- the rows of `Cp_data:` / `ND_Cp_data:` -/
def cpRows (tab : UnitTable) (R : QV) (K : UnitQ) (rnd : Rat → Rat) (cp : List (Rat × Rat)) (Tu : String) (cu : Option String) :
    List Rat → Except FErr (List YVal)
  | [] => .ok []
  | T :: rest =>
    match fmtIn tab rnd (withUnits T K) Tu with
    | .error e => .error e
    | .ok t =>
      match fmtCpValue tab R rnd cu ((dlookup T cp).getD 0) with
      | .error e => .error e
      | .ok x =>
        match cpRows tab R K rnd cp Tu cu rest with
        | .error e => .error e
        | .ok r => .ok (.seq [t, x] :: r)

/-- lines 361-368: the reference enthalpy, if present -/
def fmtH (tab : UnitTable) (R : QV) (K : UnitQ) (rnd : Rat → Rat) (c : Corr) (u : FmtUnits) :
    Except FErr (List (String × YVal)) :=
  match c.H with
  | none => .ok []
  | some h =>
    match u.H with
    | some hu =>
      match fmtIn tab rnd ((R.mul (withUnits c.Tref K)).mul (.num h)) hu with
      | .ok v => .ok [("H_ref", v)]
      | .error e => .error e
    | none => .ok [("ND_H_ref", YVal.num h)]

/-- lines 370-376: the reference entropy, if present -/
def fmtS (tab : UnitTable) (R : QV) (rnd : Rat → Rat) (c : Corr) (u : FmtUnits) : Except FErr (List (String × YVal)) :=
  match c.S with
  | none => .ok []
  | some s =>
    match u.S with
    | some su =>
      match fmtIn tab rnd (R.mul (.num s)) su with
      | .ok v => .ok [("S_ref", v)]
      | .error e => .error e
    | none => .ok [("ND_S_ref", YVal.num s)]

/-- lines 378-391: the table, if not empty -/
def fmtCp (tab : UnitTable) (R : QV) (K : UnitQ) (rnd : Rat → Rat) (c : Corr) (u : FmtUnits) :
    Except FErr (List (String × YVal)) :=
  if c.cp.isEmpty then .ok [] else
  match cpRows tab R K rnd c.cp u.T u.Cp (sortedKeys c.cp) with
  | .ok rows => .ok [(match u.Cp with | some _ => "Cp_data" | none => "ND_Cp_data", YVal.seq rows)]
  | .error e => .error e

/-- lines 393-397: the range, if present -/
def fmtRange (tab : UnitTable) (K : UnitQ) (rnd : Rat → Rat) (c : Corr) (u : FmtUnits) : Except FErr (List (String × YVal)) :=
  match c.range with
  | none => .ok []
  | some (lo, hi) =>
    match fmtIn tab rnd (withUnits lo K) u.T with
    | .error e => .error e
    | .ok a =>
      match fmtIn tab rnd (withUnits hi K) u.T with
      | .error e => .error e
      | .ok b => .ok [("range", YVal.seq [a, b])]

/-- `yaml_format(units)`: the mapping the written lines denote -/
def yamlFormat (tab : UnitTable) (R : QV) (K : UnitQ) (rnd : Rat → Rat) (c : Corr) (u : FmtUnits) :
    Except FErr (List (String × YVal)) :=
  fmtIn tab rnd (withUnits c.Tref K) u.T >>= fun tref =>
  fmtH tab R K rnd c u >>= fun hs =>
  fmtS tab R rnd c u >>= fun ss =>
  fmtCp tab R K rnd c u >>= fun cps =>
  fmtRange tab K rnd c u >>= fun rs =>
  .ok ([("T_ref", tref)] ++ hs ++ ss ++ cps ++ rs)

/-- write, then load the written entry (no units block: every dimensional value carries its unit) -/
def roundTrip (tab : UnitTable) (R : QV) (K : UnitQ) (rnd : Rat → Rat) (c : Corr) (u : FmtUnits) :
    Except FErr (Except LoadErr Loaded) :=
  match yamlFormat tab R K rnd c u with
  | .ok t => .ok (loadEntry tab R K [] (.map t))
  | .error e => .error e

end PGA.YamlFormat
