import PGA.Model.Merge
/-!
# Model of `ThermochemIncomplete.yaml_format` (C18)

Mirrors `pgradd/ThermoChem/incomplete.py:338-398` (after the repairs of F13: presence tests by `is not None`, and F14:
non-dimensional values written through `float`) and `pgradd/Units/qty.py:329-351` (`fmt_in_units`: the value converted to
the chosen unit, written with six significant digits followed by the unit).

The formatter is modelled as producing the *tree* that the written text denotes (assumptions A-yaml / A-float: `repr` of a
float round-trips, `'%g'` keeps six significant digits — the parameter `rnd`).  The keys come out in the order of the lines.
-/
namespace PGA.YamlFormat
open PGA.Yaml PGA.Merge

/-- the `units` argument: `none` = key absent / `None` / empty (write the non-dimensional form);
`T` is `units.get('temperature', 'K')` -/
structure FmtUnits where
  H : Option String
  S : Option String
  Cp : Option String
  T : String
  deriving DecidableEq, Repr

inductive FErr
  | unitsParse   -- unknown unit string
  | units        -- `UnitsError`: the chosen unit has the wrong dimension
  | attr         -- `fmt_in_units` on a bare number
  deriving DecidableEq, Repr

/-- `q.fmt_in_units(us)` as the string scalar `"<rnd (q in us)> <us>"` -/
def fmtIn (tab : UnitTable) (rnd : Rat → Rat) (q : QV) (us : String) : Except FErr YVal :=
  match tab.lookup us with
  | none => .error .unitsParse
  | some u =>
    match q.inUnits u with
    | .ok x => .ok (.qstr (rnd x) us)
    | .error .attr => .error .attr
    | .error _ => .error .units

/-- keys in ascending order (`sorted(self.ND_Cp_data)`) -/
def insertKey (k : Rat) : List Rat → List Rat
  | [] => [k]
  | x :: xs => if k ≤ x then k :: x :: xs else x :: insertKey k xs

def sortedKeys (cp : List (Rat × Rat)) : List Rat := (cp.map Prod.fst).foldr insertKey []

/-- the rows of `Cp_data:` / `ND_Cp_data:` -/
def cpRows (tab : UnitTable) (R : QV) (K : UnitQ) (rnd : Rat → Rat) (cp : List (Rat × Rat)) (Tu : String) (cu : Option String) :
    List Rat → Except FErr (List YVal)
  | [] => .ok []
  | T :: rest => do
    let t ← fmtIn tab rnd (withUnits T K) Tu
    let v := (dlookup T cp).getD 0
    let x ← match cu with
      | some u => fmtIn tab rnd (R.mul (.num v)) u
      | none => pure (.num v)
    let r ← cpRows tab R K rnd cp Tu cu rest
    .ok (.seq [t, x] :: r)

/-- `yaml_format(units)`: the mapping the written lines denote -/
def yamlFormat (tab : UnitTable) (R : QV) (K : UnitQ) (rnd : Rat → Rat) (c : Corr) (u : FmtUnits) :
    Except FErr (List (String × YVal)) := do
  let Tq := withUnits c.Tref K
  let tref ← fmtIn tab rnd Tq u.T
  let hs ← match c.H with
    | none => pure []
    | some h => match u.H with
      | some hu => do
        let v ← fmtIn tab rnd ((R.mul Tq).mul (.num h)) hu
        pure [("H_ref", v)]
      | none => pure [("ND_H_ref", YVal.num h)]
  let ss ← match c.S with
    | none => pure []
    | some s => match u.S with
      | some su => do
        let v ← fmtIn tab rnd (R.mul (.num s)) su
        pure [("S_ref", v)]
      | none => pure [("ND_S_ref", YVal.num s)]
  let cps ← if c.cp.isEmpty then pure [] else do
    let rows ← cpRows tab R K rnd c.cp u.T u.Cp (sortedKeys c.cp)
    pure [(match u.Cp with | some _ => "Cp_data" | none => "ND_Cp_data", YVal.seq rows)]
  let rs ← match c.range with
    | none => pure []
    | some (lo, hi) => do
      let a ← fmtIn tab rnd (withUnits lo K) u.T
      let b ← fmtIn tab rnd (withUnits hi K) u.T
      pure [("range", YVal.seq [a, b])]
  pure ([("T_ref", tref)] ++ hs ++ ss ++ cps ++ rs)

/-- write, then load the written entry (no units block: every dimensional value carries its unit) -/
def roundTrip (tab : UnitTable) (R : QV) (K : UnitQ) (rnd : Rat → Rat) (c : Corr) (u : FmtUnits) :
    Except FErr (Except LoadErr Loaded) :=
  match yamlFormat tab R K rnd c u with
  | .ok t => .ok (loadEntry tab R K [] (.map t))
  | .error e => .error e

end PGA.YamlFormat
