/-! # The molecule graph (assumption A-graph)

What the RING matcher, the scheme layer and the reaction layer see of an RDKit molecule: atoms
with atomic number, formal charge, radical electrons, aromatic flag and total valence (explicit
hydrogens are ordinary atoms), bonds with endpoints, kind, ring flag and double-bond stereo, and
RDKit's SSSR atom rings in RDKit's order.  Extracted by `harness/lib_mol.py:mol_to_json`
independently of the repository's code; decoded for the driver in `PGA/Drv/MolJson.lean`.
-/
namespace PGA

/-- RDKit `Chem.BondType`, as far as the repository distinguishes it.  `other` is the enum value
`BondType.OTHER`; `misc` stands for every remaining value (ONEANDAHALF, IONIC, HYDROGEN, …). -/
inductive BondKind where
  | single | double | triple | quadruple | aromatic | zero | dative | other | misc
  deriving DecidableEq, Repr, Inhabited

/-- RDKit `Chem.BondStereo`. -/
inductive Stereo where
  | none | any | z | e | cis | trans
  deriving DecidableEq, Repr, Inhabited

structure Atom where
  Z : Nat
  charge : Int
  radicals : Nat
  aromatic : Bool
  /-- `GetTotalValence()` (`none`: RDKit had not computed it) -/
  valence : Option Nat
  deriving DecidableEq, Repr, Inhabited

structure Bond where
  a : Nat
  b : Nat
  kind : BondKind
  inRing : Bool
  stereo : Stereo
  stereoAtoms : List Nat
  deriving DecidableEq, Repr, Inhabited

structure Mol where
  atoms : List Atom
  bonds : List Bond
  /-- `GetRingInfo().AtomRings()` -/
  rings : List (List Nat)
  deriving Repr, Inhabited

namespace Bond
/-- the bond joins `x` and `y` (in either direction) -/
def joins (e : Bond) (x y : Nat) : Bool := (e.a == x && e.b == y) || (e.a == y && e.b == x)
/-- the bond has `x` as an endpoint -/
def touches (e : Bond) (x : Nat) : Bool := e.a == x || e.b == x
/-- `bond.GetOtherAtomIdx(x)` -/
def other (e : Bond) (x : Nat) : Nat := if e.a == x then e.b else e.a
end Bond

namespace Mol
def natoms (m : Mol) : Nat := m.atoms.length
/-- `mol.GetAtomWithIdx(a)` -/
def atom? (m : Mol) (a : Nat) : Option Atom := m.atoms[a]?
/-- `mol.GetBondBetweenAtoms(x, y)` -/
def bondBetween (m : Mol) (x y : Nat) : Option Bond := m.bonds.find? (·.joins x y)
/-- `atom.GetBonds()` -/
def bondsOf (m : Mol) (x : Nat) : List Bond := m.bonds.filter (·.touches x)
/-- `atom.IsInRing()` -/
def atomInRing (m : Mol) (x : Nat) : Bool := m.rings.any (·.contains x)
/-- `GetRingInfo().NumRings()` -/
def numRings (m : Mol) : Nat := m.rings.length
/-- total formal charge -/
def totalCharge (m : Mol) : Int := (m.atoms.map (·.charge)).sum

/-- Well-formedness of a graph: bond endpoints are atoms, no loops, no parallel bonds, rings list
atoms without repetition.  Decidable; the driver reports it and the harness checks it on every
molecule it extracts (part of the A-graph assumption check). -/
def wf (m : Mol) : Bool :=
  m.bonds.all (fun e => e.a < m.natoms && e.b < m.natoms && e.a != e.b) &&
  m.bonds.Pairwise (fun e e' => !(e'.joins e.a e.b)) &&
  m.rings.all (fun r => r.Nodup && r.all (· < m.natoms))

end Mol
end PGA
