/-!
# Model of the state that survives between calls on `pgradd` library objects (C15)

What is modelled, and where it lives in the code:

* `GroupLibrary` objects (`pgradd/GroupAdd/Library.py`): `scheme`, the data (`contents`, `uq_contents`) and the
  attribute `name` = the last molecule passed to `GetDescriptors` (Library.py:111), which does not exist before the
  first decomposition (defect F1; `World.f1Fixed` says whether `__init__` initialises it);
* estimate objects (`ThermochemGroupAdditive`, `pgradd/ThermoChem/group_data.py:36-77`): they capture `lib.name` and
  the UQ pieces / common range at creation (a snapshot of the library data then) and keep *references* to the
  library's correlation objects, so an evaluation reads the library data as they are at evaluation time;
* process-wide registries: the property-set table (`GroupLibrary._property_set_*_types`), the YAML schema repository
  (`yaml_io._repository`) and the data-directory cache (`DataDir._data_dir_cached`);
* the five operations of the property's quantifier: `Load` (by builtin name: consults and fills the data-dir cache;
  by explicit path: does not), `GetDescriptors`, `Estimate`, an evaluation `get_*` with or without the elemental
  reference (`S_elements=True`, group_data.py:89-103), `Update` (merge: all-or-nothing since the repair of FA1 — a refused
  merge leaves the destination, its provenance included, as it was).

Everything numeric / chemical is a parameter (`World`): what loading a directory yields, what a scheme says about a
molecule, what an evaluation of given data returns, what a merge of two data sets yields.  The model's content is
*which* state each operation reads and writes.

Ghost fields (`origin`, `prov`, `snapProv`, `forMol`) are never read when an output is computed; they name the declared
inputs in the theorems (which files, merged in which order; which molecule the caller meant).
-/
namespace PGA.History

abbrev LibName := Nat
abbrev Mol := Nat
abbrev Descr := Nat
abbrev Temp := Nat
abbrev Qty := Nat
/-- error class reported by an external component (YAML loader, RDKit, scheme matching, units, merge) -/
abbrev Code := Nat

inductive Err where
  | attribute          -- `AttributeError: 'GroupLibrary' object has no attribute 'name'` (F1)
  | world (c : Code)   -- an error class of an external component
  deriving DecidableEq, Repr

/-- which files, merged in which order: the identity of "the library data" -/
inductive Prov where
  | loaded (L : LibName)
  | merged (dst src : Prov) (overwrite : Bool)
  deriving DecidableEq, Repr

/-- the external components, as functions of exactly what they are given -/
structure World (Scheme Data Val : Type) where
  /-- the data directory designated by the environment (`pgradd_DATA_DIR` / the package location), constant in a run -/
  env : Nat
  /-- `GroupLibrary.__init__` initialises `name` (repair of F1) -/
  f1Fixed : Bool
  /-- reading `scheme.yaml` + `library.yaml` (with includes) of library `L` under data directory `dir`, with the given
  property-set table and schema repository -/
  loadF : (propsets schemas dir : Nat) → LibName → Except Code (Scheme × Data)
  /-- `scheme.GetDescriptors(mol)` -/
  decompF : Scheme → Mol → Except Code Descr
  /-- `Estimate`'s checks: unknown property set / groups without data (`none` = passes) -/
  estF : (propsets : Nat) → Data → Descr → Option Code
  /-- an evaluation of an estimate: data snapshot at creation, data now, descriptor mapping, temperature, quantity, and —
  only when the elemental reference is requested — the molecule name the estimate remembered -/
  evalF : (snap now : Data) → Descr → Temp → Qty → Option (Option Mol) → Except Code Val
  /-- `dst.Update(src, overwrite)`: refused with an error class, or the data of `dst` afterwards.  A refused `Update` has
  stored nothing: the method first finds out — on copies — whether every group merges, and stores only then (Library.py
  `Update`, after the repair of finding FA1; proved of the model of the method in `PGA.Merge.C13_libUpdate_atomic`; checked
  on the real objects by `rejected_merge` in harness/c15.py) -/
  mergeF : Data → Data → Bool → Except Code Data

structure Lib (Scheme Data : Type) where
  scheme : Scheme
  data : Data
  /-- `self.name`: last molecule passed to `GetDescriptors`; `none` = never set -/
  name : Option Mol
  /-- ghost: the builtin library this object was loaded from -/
  origin : LibName
  /-- ghost: provenance of `data` -/
  prov : Prov

structure Est (Data : Type) where
  /-- the library whose correlation objects this estimate references -/
  lib : Nat
  descr : Descr
  /-- `self.name = lib.name` at creation -/
  name : Option Mol
  /-- the library data at creation (UQ pieces and common range are computed then) -/
  snap : Data
  /-- ghost: provenance of `snap` -/
  snapProv : Prov
  /-- ghost: the molecule the caller obtained the descriptor mapping for (the API carries no molecule) -/
  forMol : Mol

structure State (Scheme Data : Type) where
  libs : List (Lib Scheme Data)
  ests : List (Est Data)
  /-- `DataDir._data_dir_cached` -/
  datadir : Option Nat
  /-- `GroupLibrary._property_set_estimator_types` / `_property_set_group_yaml_types` -/
  propsets : Nat
  /-- `yaml_io._repository` -/
  schemas : Nat

inductive Op where
  | load (L : LibName) (byPath : Bool)
  | decompose (lib : Nat) (m : Mol)
  | estimate (lib : Nat) (d : Descr) (forMol : Mol)
  | evaluate (est : Nat) (T : Temp) (q : Qty) (elemental : Bool)
  | merge (dst src : Nat) (overwrite : Bool)
  deriving DecidableEq, Repr

inductive Out (Data Val : Type) where
  | loaded (handle : Nat) (data : Data)
  | descr (r : Except Code Descr)
  | estimated (handle : Nat)
  | value (r : Except Code Val)
  | merged (data : Data) (err : Option Code)
  | failed (e : Err)
  | badRef            -- the operation names a library / estimate that does not exist (never generated)

variable {Scheme Data Val : Type}

def init (propsets schemas : Nat) : State Scheme Data := ⟨[], [], none, propsets, schemas⟩

/-- one API call -/
def step (W : World Scheme Data Val) (s : State Scheme Data) : Op → State Scheme Data × Out Data Val
  | .load L byPath =>
    -- Library.py:200-204 / Scheme.py:64-68: a builtin name goes through `get_data_dir()`, which returns the cached
    -- directory if there is one and otherwise caches what the environment designates; an explicit path does not
    let dir := if byPath then W.env else (match s.datadir with | some d => d | none => W.env)
    let s1 : State Scheme Data := if byPath then s else { s with datadir := some dir }
    match W.loadF s.propsets s.schemas dir L with
    | .error c => (s1, .failed (.world c))
    | .ok (sch, d) =>
      ({ s1 with libs := s1.libs ++ [⟨sch, d, none, L, .loaded L⟩] }, .loaded s.libs.length d)
  | .decompose i m =>
    match s.libs[i]? with
    | none => (s, .badRef)
    | some l =>
      -- Library.py:111-112: `self.name = mol` first, then the scheme decomposes (whether or not it succeeds)
      ({ s with libs := s.libs.set i { l with name := some m } }, .descr (W.decompF l.scheme m))
  | .estimate i d forMol =>
    match s.libs[i]? with
    | none => (s, .badRef)
    | some l =>
      match W.estF s.propsets l.data d with
      | some c => (s, .failed (.world c))
      | none =>
        -- group_data.py:48 `self.name = lib.name`
        if l.name.isNone && !W.f1Fixed then (s, .failed .attribute)
        else ({ s with ests := s.ests ++ [⟨i, d, l.name, l.data, l.prov, forMol⟩] }, .estimated s.ests.length)
  | .evaluate e T q elemental =>
    match s.ests[e]? with
    | none => (s, .badRef)
    | some est =>
      match s.libs[est.lib]? with
      | none => (s, .badRef)
      | some l =>
        (s, .value (W.evalF est.snap l.data est.descr T q (if elemental then some est.name else none)))
  | .merge dst src ow =>
    match s.libs[dst]?, s.libs[src]? with
    | some a, some b =>
      match W.mergeF a.data b.data ow with
      | .error c => (s, .merged a.data (some c))       -- refused: nothing was stored, the library is what it was
      | .ok d => ({ s with libs := s.libs.set dst { a with data := d, prov := .merged a.prov b.prov ow } }, .merged d none)
    | _, _ => (s, .badRef)

/-- the merge step as it was before the repair of FA1, for the witness in `Props/C15`: `GroupLibrary.Update` merged group
by group in place, so `mergeOld` yields the data of `dst` afterwards *also when it raises* -/
def stepMergeOld (mergeOld : Data → Data → Bool → Data × Option Code) (s : State Scheme Data) (dst src : Nat) (ow : Bool) :
    State Scheme Data × Out Data Val :=
  match s.libs[dst]?, s.libs[src]? with
  | some a, some b =>
    let r := mergeOld a.data b.data ow
    ({ s with libs := s.libs.set dst { a with data := r.1, prov := .merged a.prov b.prov ow } }, .merged r.1 r.2)
  | _, _ => (s, .badRef)

/-- a history from a given state: final state and the outputs in order -/
def run (W : World Scheme Data Val) (s : State Scheme Data) : List Op → State Scheme Data × List (Out Data Val)
  | [] => (s, [])
  | op :: rest =>
    let r := step W s op
    let rr := run W r.1 rest
    (rr.1, r.2 :: rr.2)

/-- the state a history leads to -/
def after (W : World Scheme Data Val) (s : State Scheme Data) (h : List Op) : State Scheme Data := (run W s h).1

end PGA.History
