import PGA.Model.Yaml
import PGA.Gen.YamlUnits
/-! The generated tables (`PGA.Gen.YamlUnits`, dumped from the live `pgradd.Units`, `pgradd.Consts` and the live schema
repository) in the vocabulary of the model, and a printer of schemas used by the table obligations of C12. -/
namespace PGA.Yaml

def unitOfRow (r : (Int × Int) × List Int) : UnitQ := ⟨(Dec.mk r.1.1 r.1.2).toRat, Dim.ofList r.2⟩

/-- every unit string the generators use, as the live `eval_qty` evaluates it -/
def unitTable : UnitTable := PGA.Gen.YamlUnits.units.map fun r => (r.1, unitOfRow r.2)

/-- `Consts.GAS_CONSTANT` -/
def gasR : QV := (unitOfRow PGA.Gen.YamlUnits.gasConstant).toQV

/-- the unit `'K'` of the live table (the default is never used: obligation `C12_tab_kelvin`) -/
def kelvin : UnitQ := (unitTable.lookup "K").getD ⟨1, Dim.temperature⟩

def Kind.str : Kind → String
  | .temperature => "temperature"
  | .molarEnthalpy => "molar enthalpy"
  | .molarEntropy => "molar entropy"
  | .molarHeatCapacity => "molar heat capacity"

def Kind.ofStr (s : String) : Option Kind :=
  if s = "temperature" then some .temperature
  else if s = "molar enthalpy" then some .molarEnthalpy
  else if s = "molar entropy" then some .molarEntropy
  else if s = "molar heat capacity" then some .molarHeatCapacity
  else none

def Ty.str : Ty → String
  | .qty k => "qty:" ++ k.str
  | .float => "float"
  | .pair a b => "tuple(" ++ a.str ++ "," ++ b.str ++ ")"
  | .list i => "list(" ++ i.str ++ ")"

def Mode.str : Mode → String
  | .required => "required"
  | .optional => "optional"
  | .default _ => "default"

/-- (name, mode, type) of every member: the form in which the translator dumps the live schema -/
def Schema.summary (s : Schema) : List (String × String × String) := s.map fun m => (m.name, m.mode.str, m.ty.str)

/-- defaults written `"<number> <unit>"` -/
def Schema.defaults (s : Schema) : List (String × (Int × Int) × String) :=
  s.filterMap fun m => match m.mode with
    | .default (.qstr v u) => if v = (Dec.mk 29815 (-2)).toRat then some (m.name, (29815, -2), u) else none
    | _ => none

/-- the units block of a library file: kind name ↦ unit string; unknown kind names are never consulted -/
def unitsBlock (l : List (String × String)) : List (Kind × String) :=
  l.filterMap fun kv => match Kind.ofStr kv.1 with
    | some k => some (k, kv.2)
    | none => none

/-- loading a `thermochem:` entry with the live tables -/
def loadEntryLive (units : List (Kind × String)) (v : YVal) : Except LoadErr Loaded :=
  loadEntry unitTable gasR kelvin units v

def loadPropertySetsLive (units : List (Kind × String)) (v : YVal) : Except LoadErr (Option Loaded) :=
  loadPropertySets unitTable gasR kelvin units v

end PGA.Yaml
