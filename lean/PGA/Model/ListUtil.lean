/-! Small list utilities shared by the models. -/
namespace PGA

/-- distinct elements (the last occurrence of each is kept; only membership and distinctness matter:
this models building a Python `set`) -/
def uniq {α : Type} [DecidableEq α] : List α → List α
  | [] => []
  | a :: l => if a ∈ l then uniq l else a :: uniq l

end PGA
