import PGA.Model.Aromatize
import PGA.Model.Match
import PGA.Model.Scheme
/-! # The decomposition of a molecule, end to end

`GroupAdditivityScheme.Load` + `GetDescriptors` from the scheme file's pattern *parse trees* and the
raw molecular graph on: the patterns are read (`readFragment`, C08's model of `MolQueryReader`), the
graph is Benson-aromatised (`aromatizeBenson`), every centre pattern and correction descriptor is
matched against the aromatised graph (`queryMatchesCapped`, C08's model of `GetQueryMatches` with its
cap of 10 000 candidates), and the match lists go through the decomposition logic above the matcher
(`PGA.Scheme.getDescriptors`: centres, groups, descriptors, remaps, final merge).

What stays outside (parameters): the parser (trees come from C09's parser), RDKit's graph of the
input (`harness/lib_mol.mol_to_json` after the repository's normalisation — A-graph), and RDKit's
candidate enumeration (replaced by the model's own enumerator — A-cand, validated by C08).
-/
namespace PGA.Decompose
open PGA PGA.Scheme

/-- a scheme file after YAML and RING parsing: names and the parse tree of every `connectivity` -/
structure SchemeSrc where
  centres : List (String × String × Ast)      -- center_name, periph_name, tree
  descs : List (String × Ast)                 -- name, tree
  remaps : List (String × List (Rat × String))

structure CentreDef where
  center : String
  periph : String
  q : Query
  deriving Repr

structure DescDef where
  name : String
  q : Query
  deriving Repr

/-- a loaded scheme: every `connectivity` read into a query -/
structure SchemeDef where
  centres : List CentreDef
  descs : List DescDef
  remaps : List (String × List (Rat × String))

def readCentre (c : String × String × Ast) : Except ReadErr CentreDef := do
  pure ⟨c.1, c.2.1, ← readFragment c.2.2⟩

def readDesc (d : String × Ast) : Except ReadErr DescDef := do
  pure ⟨d.1, ← readFragment d.2⟩

/-- `GroupAdditivityScheme.Load`: the patterns in file order, then the other descriptors; the first
text the reader rejects makes the load fail -/
def SchemeSrc.load (s : SchemeSrc) : Except ReadErr SchemeDef := do
  let cs ← s.centres.mapM readCentre
  let ds ← s.descs.mapM readDesc
  pure ⟨cs, ds, s.remaps⟩

/-- `[a.GetIdx() for a in atom.GetNeighbors()]` (the order of `atom.GetBonds()`) -/
def neighbours (m : Mol) (i : Nat) : List Nat := (m.bondsOf i).map (·.other i)

/-- the input of the decomposition logic, built from candidate lists supplied per pattern (so that
the driver can report the candidate counts without enumerating twice) -/
def toInputOfRaws (S : SchemeDef) (m : Mol) (rawC rawD : List (List (List Nat))) : Input :=
  { n := m.natoms
    nbrs := (List.range m.natoms).map (neighbours m)
    centres := List.zipWith (fun c raw => ⟨c.center, c.periph, Match.pipeline (raw.take Match.maxMatches) c.q m⟩) S.centres rawC
    descs := List.zipWith (fun d raw => ⟨d.name, Match.pipeline (raw.take Match.maxMatches) d.q m⟩) S.descs rawD
    remaps := S.remaps }

/-- what `_AssignCenterPattern` / `_AssignDescriptor` see of the (aromatised) molecule `m` -/
def toInput (S : SchemeDef) (m : Mol) : Input :=
  { n := m.natoms
    nbrs := (List.range m.natoms).map (neighbours m)
    centres := S.centres.map fun c => ⟨c.center, c.periph, queryMatchesCapped c.q m⟩
    descs := S.descs.map fun d => ⟨d.name, queryMatchesCapped d.q m⟩
    remaps := S.remaps }

/-- **`GetDescriptors` from the raw explicit-H Kekulé graph on.** -/
def decompose (S : SchemeDef) (m : Mol) : Except Err Counts :=
  getDescriptors (toInput S (aromatizeBenson m))

/-- the largest candidate count of any pattern of the scheme on `m` (the cap is inactive when this
is below `Match.maxMatches`) -/
def maxRaw (S : SchemeDef) (m : Mol) : Nat :=
  ((S.centres.map fun c => (Match.rawMatches c.q m).length) ++
   (S.descs.map fun d => (Match.rawMatches d.q m).length)).foldl max 0

end PGA.Decompose
