/-! Decimal literals of the regenerated thermochemistry tables (`PGA/Gen/ThermoRanges.lean`):
the exact decimal rational of the shortest round-trip `repr` of a float (DESIGN 2.3). -/
namespace PGA.Thermo

structure Dec where
  m : Int
  e : Int
  deriving DecidableEq, Repr

def Dec.toRat (d : Dec) : Rat :=
  if d.e ≥ 0 then (d.m : Rat) * ((10 : Rat) ^ d.e.toNat) else (d.m : Rat) / ((10 : Rat) ^ (-d.e).toNat)

/-- one shipped group with a `thermochem` entry: its declared range, the span of its Cp table (if any) and `T_ref` -/
structure RangeRow where
  library : String
  group : String
  range : Option (Dec × Dec)
  table : Option (Dec × Dec)
  tref : Dec

/-- what the C05/C06 theorems assume of a correlation, checked on the shipped data: a declared range with positive
lower end that contains the reference temperature and the tabulated span -/
def RangeRow.ok (r : RangeRow) : Bool :=
  match r.range with
  | none => false
  | some (lo, hi) =>
    decide (0 < lo.toRat) && decide (lo.toRat ≤ hi.toRat) &&
    decide (lo.toRat ≤ r.tref.toRat) && decide (r.tref.toRat ≤ hi.toRat) &&
    (match r.table with
     | none => true
     | some (mn, mx) => decide (lo.toRat ≤ mn.toRat) && decide (mn.toRat ≤ mx.toRat) && decide (mx.toRat ≤ hi.toRat))

end PGA.Thermo
