import PGA.Model.Chars
import PGA.Gen.RingChars
/-!
# Model of `pgradd/RINGParser/Parser.py` — the combinator engine (C09)

The engine interprets a grammar *table* (`Grammar`, generated from the live objects of `Grammar.py`
by `harness/gen/ring_grammar.py`).  It mirrors `ParseState` and the combinator classes:

* stream position `sidx`, human-readable `lineno`/`colno`, `take(n)` followed by `skip_filler()`,
  `peek(n)` as slicing (shorter than `n` at the end of the text);
* the backtrack stack of `with stream:` — functional here: a failing sub-parse does not return a
  state, its catcher continues from its own saved state;
* `current_error`: every error caught by a `with` block is merged into the furthest one seen so far
  (`RINGSyntaxError.update`), it is never reset, and `Either` re-raises it (stale or not);
* outputs are transactional at every `parse()` call (`inside_output = output[:]`), so a combinator
  either fails or appends items: `eval` returns the appended items.

Python recursion has no counterpart of the `bound` argument: a rule reference at an unchanged
position is allowed only to a rule of smaller generated rank, otherwise the outcome is `stuck`
(Python would recurse forever); `PGA.Props.C09` proves that a well-ranked table never gets there.
-/
set_option linter.unusedVariables false
namespace PGA.Ring
open PGA.Chars

/-- one grammar entry: a combinator object of Parser.py, or a rule name (`ref`) -/
inductive Expr where
  | eos                                             -- EOS()
  | digit (n : Nat)                                 -- Digit(n)
  | number                                          -- Number()
  | string                                          -- String()
  | lit (tok : List Char) (noErr : Bool)            -- Literal(tok, no_error) / DeprecatedLiteral
  | filler (tok : List Char) (noErr : Bool)         -- Filler(tok, no_error)
  | opt (e : Expr)                                  -- Optional(e)
  | star (e : Expr)                                 -- ZeroOrMore(e)
  | allNil                                          -- All(*reqs): end of the requirement list
  | allCons (e : Expr) (rest : Expr)
  | anyNil                                          -- Either(*alts): end of the alternative list
  | anyCons (e : Expr) (rest : Expr)
  | literals (toks : List (List Char)) (name : Option (List Char))  -- Literals([...]) in `alts` order
  | ref (n : Nat)                                   -- rule name (index into the rule-name table)
  deriving Repr, DecidableEq, Inhabited

structure Grammar where
  root : Nat
  rules : List (Option Expr)
  rank : List Nat
  filler : List (List Char)
  stringOkay : List (List Char)

/-- strict upper bound of every usable rank -/
def Grammar.top (G : Grammar) : Nat := G.rules.length + 1

/-- the abstract syntax tree built by `ParseState.parse`: `[RINGToken(name), child, …]`, `str`
outputs of `Literal`/`String`, `int` outputs of `Digit`/`Number` -/
inductive Ast where
  | node (rule : Nat) (kids : List Ast)
  | str (s : List Char)
  | int (n : Nat)
  deriving Repr, Inhabited

/-- an expected-token entry of `RINGSyntaxError.toks` -/
inductive Tok where
  | none                       -- `stream.error(None)` of a `no_error` literal
  | lit (s : List Char)        -- "%r" % tok
  | eos                        -- '<end of string>'
  | digit                      -- '<digit>'
  | number                     -- '<number>'
  | string                     -- '<string>'
  | named (s : List Char)      -- '<' + name + '>' of a named `Literals`
  deriving Repr, DecidableEq, Inhabited

structure Err where
  line : Nat
  col : Nat
  toks : List Tok
  deriving Repr, DecidableEq, Inhabited

/-- set union on token lists (`self.toks |= other.toks`), kept duplicate-free -/
def unionToks (a b : List Tok) : List Tok :=
  b.foldl (fun acc t => if t ∈ acc then acc else acc ++ [t]) a

/-- `new.update(old)` of Error.py, returning the updated `new` -/
def Err.update (new old : Err) : Err :=
  if new.line < old.line ∨ (new.line = old.line ∧ new.col < old.col) then
    { line := old.line, col := old.col, toks := old.toks }
  else if new.line = old.line ∧ new.col = old.col then
    { new with toks := unionToks new.toks old.toks }
  else new

/-- `__exit__` on a `RINGSyntaxError`: merge with `current_error`, which becomes the result -/
def catchErr (e : Err) (cur : Option Err) : Option Err :=
  match cur with
  | none => some e
  | some c => some (e.update c)

/-- kinds of non-RING exceptions the engine itself can raise -/
inductive Internal where
  | valueError     -- `int(out)`: more digits than the interpreter's int/str limit
  | raiseNone      -- `raise stream.current_error` with `current_error is None` (TypeError)
  | indexError     -- `output[0]` on an empty output
  deriving Repr, DecidableEq, Inhabited

inductive Abort where
  | stuck                      -- a rule re-entered without progress and without a smaller rank
  | missingRule (n : Nat)      -- `self.rules[what]` KeyError
  | hang                       -- a loop that does not advance
  | internal (k : Internal)
  deriving Repr, DecidableEq, Inhabited

/-- stream state: `rest` is `stream[sidx:]` -/
structure St where
  rest : List Char
  idx : Nat
  line : Nat
  col : Nat
  deriving Repr, DecidableEq, Inhabited

inductive Res where
  | ok (st : St) (out : List Ast) (cur : Option Err)
  | fail (e : Err) (cur : Option Err)       -- a RINGSyntaxError `e` propagates
  | abort (a : Abort)
  deriving Inhabited

/-- `skip_filler()`; `none` = the loop never ends (`''` listed as a filler, at the end of the text) -/
def skipFillerAux (fil : List (List Char)) : List Char → Nat → Nat → Nat → Option St
  | [], i, l, c => if [] ∈ fil then none else some ⟨[], i, l, c⟩
  | ch :: r, i, l, c =>
    if [ch] ∈ fil then
      (if ch = '\n' then skipFillerAux fil r (i + 1) (l + 1) 1 else skipFillerAux fil r (i + 1) l (c + 1))
    else some ⟨ch :: r, i, l, c⟩

def skipFiller (fil : List (List Char)) (st : St) : Option St :=
  skipFillerAux fil st.rest st.idx st.line st.col

/-- the line/column bookkeeping of `take` over the taken characters -/
def advance : List Char → Nat → Nat → Nat × Nat
  | [], l, c => (l, c)
  | ch :: r, l, c => if ch = '\n' then advance r (l + 1) 1 else advance r l (c + 1)

/-- `take(n)`: returns the taken text and the state after `skip_filler()`; `none` = hang -/
def take (fil : List (List Char)) (st : St) (n : Nat) : Option (List Char × St) :=
  let s := st.rest.take n
  let lc := advance s st.line st.col
  match skipFiller fil ⟨st.rest.drop n, st.idx + n, lc.1, lc.2⟩ with
  | none => none
  | some st' => some (s, st')

/-- `str.isdecimal()` of one character (the repaired `Digit`/`Number` test, F18) -/
def isDecimalChar (c : Char) : Bool := inRanges PGA.Gen.RingChars.isdecimalRanges c

/-- `c.isalpha() or c.isdigit() or c in string_okay` -/
def identChar (G : Grammar) (c : Char) : Bool :=
  isAlphaChar c || isDigitChar c || decide ([c] ∈ G.stringOkay)

def errAt (st : St) (t : Tok) : Err := ⟨st.line, st.col, [t]⟩

def litTok (tok : List Char) (noErr : Bool) : Tok := if noErr then .none else .lit tok

/-- `int(out)` -/
def pyInt (s : List Char) (k : Nat → Res) : Res :=
  match readNat s with
  | some v => k v
  | none => .abort (.internal .valueError)

/-- `Digit(n).__call__`: the loop body `n` times (each `take` skips filler), then `int(out)` -/
def digitLoop (G : Grammar) : Nat → St → List Char → Option Err → Res
  | 0, st, acc, cur => pyInt acc fun v => .ok st [.int v] cur
  | n + 1, st, acc, cur =>
    match st.rest with
    | [] => .fail (errAt st .digit) cur
    | c :: _ =>
      if isDecimalChar c then
        match take G.filler st 1 with
        | none => .abort .hang
        | some (s, st') => digitLoop G n st' (acc ++ s) cur
      else .fail (errAt st .digit) cur

theorem skipFillerAux_length (fil : List (List Char)) :
    ∀ (r : List Char) (i l c : Nat) (st : St), skipFillerAux fil r i l c = some st → st.rest.length ≤ r.length := by
  intro r
  induction r with
  | nil => intro i l c st h; simp only [skipFillerAux] at h; split at h <;> simp_all; subst h; simp
  | cons ch r ih =>
    intro i l c st h
    simp only [skipFillerAux] at h
    split at h
    · split at h
      · have := ih _ _ _ _ h; simp; omega
      · have := ih _ _ _ _ h; simp; omega
    · simp at h; subst h; simp

theorem take_length (fil : List (List Char)) (st : St) (n : Nat) (s : List Char) (st' : St)
    (h : take fil st n = some (s, st')) : st'.rest.length ≤ st.rest.length - n := by
  unfold take at h
  simp only [skipFiller] at h
  split at h
  · simp at h
  · rename_i st'' hs
    simp at h
    have := skipFillerAux_length _ _ _ _ _ _ hs
    simp at this
    rw [← h.2]; exact this

/-- `while stream.peek().isdecimal(): out += stream.take()` of `Number` -/
def numberLoop (G : Grammar) (st : St) (acc : List Char) : Option (St × List Char) :=
  match h : st.rest with
  | [] => some (st, acc)
  | c :: _ =>
    if isDecimalChar c then
      match h2 : take G.filler st 1 with
      | none => none
      | some (s, st') => numberLoop G st' (acc ++ s)
    else some (st, acc)
termination_by st.rest.length
decreasing_by
  have := take_length _ _ _ _ _ h2
  rw [h] at this ⊢
  simp at this ⊢
  omega

/-- length of the identifier the (repaired, F16) look-ahead loop of `String` finds: the loop
`while len(peek(nn)) == nn and okay(peek(nn)[-1]): nn += 1` started after the first character -/
def identRun (G : Grammar) : List Char → Nat
  | [] => 0
  | c :: r => if identChar G c then identRun G r + 1 else 0

/-- the alternatives of a `Literals`: each `Literal(s, no_error=True)` tried inside its own `with` -/
def literalsLoop (G : Grammar) (st : St) : List (List Char) → Option Err → Res
  | [], cur =>
    match cur with
    | none => .abort (.internal .raiseNone)
    | some c => .fail c cur
  | tok :: more, cur =>
    if st.rest.take tok.length = tok then
      match take G.filler st tok.length with
      | none => .abort .hang
      | some (s, st') => .ok st' [.str s] cur
    else literalsLoop G st more (catchErr (errAt st .none) cur)

/-- the combinators that do not call `stream.parse` -/
def evalLeaf (G : Grammar) (e : Expr) (st : St) (cur : Option Err) : Res :=
  match e with
  | .eos => if st.rest = [] then .ok st [] cur else .fail (errAt st .eos) cur
  | .digit n => digitLoop G n st [] cur
  | .number =>
    match st.rest with
    | [] => .fail (errAt st .number) cur
    | c :: _ =>
      if isDecimalChar c then
        match take G.filler st 1 with
        | none => .abort .hang
        | some (s, st1) =>
          match numberLoop G st1 s with
          | none => .abort .hang
          | some (st2, out) =>
            match readNat out with
            | some v => .ok st2 [.int v] cur
            | none => .fail (errAt st2 .number) cur    -- `except ValueError: stream.error('<number>')`
      else .fail (errAt st .number) cur
  | .string =>
    match st.rest with
    | [] => .fail (errAt st .string) cur
    | c :: r =>
      if identChar G c then
        match take G.filler st (identRun G r + 1) with
        | none => .abort .hang
        | some (s, st') => .ok st' [.str s] cur
      else .fail (errAt st .string) cur
  | .lit tok noErr =>
    if st.rest.take tok.length = tok then
      match take G.filler st tok.length with
      | none => .abort .hang
      | some (s, st') => .ok st' [.str s] cur
    else .fail (errAt st (litTok tok noErr)) cur
  | .filler tok noErr =>
    if st.rest.take tok.length = tok then
      match take G.filler st tok.length with
      | none => .abort .hang
      | some (_, st') => .ok st' [] cur
    else .fail (errAt st (litTok tok noErr)) cur
  | .literals toks name =>
    match literalsLoop G st toks cur with
    | .fail c cur' =>
      match name with
      | some nm => .fail (errAt st (.named nm)) cur'
      | none => .fail c cur'
    | r => r
  | _ => .abort .stuck   -- not a leaf (never called on one by `eval`)

/-- `ParseState.parse(what, output)`.  `bound`: strict upper bound for the rank of a rule that may be
entered at this position (no character consumed since the enclosing rule was entered). -/
def eval (G : Grammar) (e : Expr) (st : St) (cur : Option Err) (bound : Nat) : Res :=
  match e with
  | .opt a =>
    match eval G a st cur bound with
    | .fail err cur' => .ok st [] (catchErr err cur')
    | r => r
  | .star a =>
    match eval G a st cur bound with
    | .fail err cur' => .ok st [] (catchErr err cur')
    | .ok st1 out1 cur1 =>
      if h : st1.rest.length < st.rest.length then
        match eval G (.star a) st1 cur1 G.top with
        | .ok st2 out2 cur2 => .ok st2 (out1 ++ out2) cur2
        | r => r
      else .abort .hang     -- `while not stream.has_error` with a body that succeeds without advancing
    | r => r
  | .allNil => .ok st [] cur
  | .allCons a rest =>
    match eval G a st cur bound with
    | .ok st1 out1 cur1 =>
      if h : st1.rest.length < st.rest.length then
        match eval G rest st1 cur1 G.top with
        | .ok st2 out2 cur2 => .ok st2 (out1 ++ out2) cur2
        | r => r
      else if h2 : st1.rest.length = st.rest.length then
        match eval G rest st1 cur1 bound with
        | .ok st2 out2 cur2 => .ok st2 (out1 ++ out2) cur2
        | r => r
      else .abort .stuck
    | r => r
  | .anyNil =>
    match cur with
    | none => .abort (.internal .raiseNone)
    | some c => .fail c cur
  | .anyCons a rest =>
    match eval G a st cur bound with
    | .fail err cur' => eval G rest st (catchErr err cur') bound
    | r => r
  | .ref n =>
    match G.rules[n]? with
    | some (some body) =>
      match G.rank[n]? with
      | some r =>
        if r < bound then
          match eval G body st cur r with
          | .ok st' out cur' => .ok st' [.node n out] cur'
          | r => r
        else .abort .stuck
      | none => .abort .stuck
    | _ => .abort (.missingRule n)
  | e => evalLeaf G e st cur
termination_by (st.rest.length, bound, sizeOf e)
decreasing_by
  all_goals simp_wf
  all_goals first
    | (apply Prod.Lex.left; omega)
    | (apply Prod.Lex.right; apply Prod.Lex.left; omega)
    | (apply Prod.Lex.right; apply Prod.Lex.right; omega)
    | (rw [h2]; apply Prod.Lex.right; apply Prod.Lex.right; omega)

/-- outcome of `Parser.parse(text)` -/
inductive ParseRes where
  | accepted (ast : Ast) (fin : St)
  | syntaxError (e : Err)
  | abort (a : Abort)
  deriving Inhabited

/-- `ParseState(grammar, stream).parse()` with the end-of-input requirement (F17) -/
def parse (G : Grammar) (s : List Char) : ParseRes :=
  match skipFiller G.filler ⟨s, 0, 1, 1⟩ with
  | none => .abort .hang
  | some st0 =>
    match eval G (.ref G.root) st0 none G.top with
    | .ok st out _ =>
      if st.rest = [] then
        match out with
        | t :: _ => .accepted t st
        | [] => .abort (.internal .indexError)
      else .syntaxError (errAt st .eos)
    | .fail e _ => .syntaxError e
    | .abort a => .abort a

end PGA.Ring
