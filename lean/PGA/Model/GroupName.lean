import PGA.Model.Chars
/-! Model of `pgradd/GroupAdd/Group.py`: group-name parsing and canonical naming (C19). -/
namespace PGA.GroupName
open PGA.Chars

abbrev Name := List Char

def isParen (c : Char) : Bool := c == '(' || c == ')'

/-- `re.compile('[()]').split(text)` -/
def splitParens : List Char → List Name
  | [] => [[]]
  | c :: cs =>
    match splitParens cs with
    | [] => [[]]
    | p :: ps => if isParen c then [] :: p :: ps else (c :: p) :: ps

inductive ParseErr
  | syntax   -- GroupSyntaxError
  | value    -- ValueError escaping from int() (digit that is not a decimal / too many digits)
  deriving DecidableEq, Repr

structure Group where
  csg : Name
  psgs : List Name
  deriving DecidableEq, Repr

/-- `if next_psg is not None: append_to_psgs(1, next_psg)` -/
def flush (next : Option Name) (acc : List Name) : List Name :=
  match next with | none => acc | some p => acc ++ [p]

/-- the loop of `Group.parse` over `parts[1:]`; `next` is `next_psg`, `acc` is `psgs`. -/
def parseLoop : List Name → Option Name → List Name → Except ParseErr (List Name)
  | [], next, acc => .ok (flush next acc)
  | part :: rest, next, acc =>
    if part.isEmpty then parseLoop rest next acc
    else if isDigitStr part then
      match next with
      | none => .error .syntax
      | some p =>
        match readNat part with
        | none => .error .value
        | some n => parseLoop rest none (acc ++ List.replicate n p)
    else
      parseLoop rest (some part) (flush next acc)

def parse (text : List Char) : Except ParseErr Group :=
  match splitParens text with
  | [] => .ok ⟨[], []⟩
  | csg :: parts =>
    match parseLoop parts none [] with
    | .ok ps => .ok ⟨csg, ps⟩
    | .error e => .error e

/-- Python's `str` ordering: lexicographic by code point. -/
def nameLe (a b : Name) : Bool := decide (a ≤ b)

/-- distinct keys of the `psg_counts` dictionary (order irrelevant: they get sorted) -/
def uniq : List Name → List Name
  | [] => []
  | a :: l => if a ∈ l then uniq l else a :: uniq l

def keys (psgs : List Name) : List Name := (uniq psgs).mergeSort nameLe

def piece (psgs : List Name) (k : Name) : List Char :=
  let n := psgs.count k
  if n = 1 then '(' :: k ++ [')'] else '(' :: k ++ [')'] ++ showNat n

/-- `Group._canonical_name` -/
def canon (csg : Name) (psgs : List Name) : Name :=
  csg ++ ((keys psgs).map (piece psgs)).flatten

def Group.name (g : Group) : Name := canon g.csg g.psgs

/-- `Descriptor.__eq__` between two groups / `__hash__` agreement: by canonical name -/
def groupEq (g h : Group) : Bool := g.name == h.name
/-- `Descriptor.__eq__` against a plain string -/
def groupEqStr (g : Group) (s : Name) : Bool := g.name == s

end PGA.GroupName
