import PGA.Model.Mol
import PGA.Model.Query
/-! # Matching a RING query against a molecule graph

Model of `MolQuery.GetQueryMatches` (`pgradd/RDkitWrapper/MolQuery.py`) together with the split
`MolQueryRead.py` makes between the RDKit query molecule (element class, formal-charge primitive,
bond type or `UNSPECIFIED`) and the repository's own constraint objects (prefix, radical count of
the suffix, chain constraints, `ring`/`nonring`/`strong`/`partial` bond constraints, molecule
constraints, stereo constraints).

Pipeline, as in the code: molecule constraints → candidate enumeration → bond constraints → atom
constraints → stereo constraints.  RDKit's `GetSubstructMatches(uniquify=False)` is replaced by an
explicit pruned backtracking enumerator in declaration order (assumption A-cand, validated on every
generated case); the cap of 10 000 candidates is explicit in `matchesCapped`.  An exception inside
a constraint is the answer `false` (the code catches `Exception` around every constraint call).
-/
namespace PGA

namespace CmpOp
/-- `MolQuery.ops[name](a, b)` -/
def eval : CmpOp → Int → Int → Bool
  | gt, a, b => decide (a > b)
  | lt, a, b => decide (a < b)
  | ge, a, b => decide (a ≥ b)
  | le, a, b => decide (a ≤ b)
  | eq, a, b => decide (a = b)
end CmpOp

/-- `ConstraintNumber.__call__` -/
def CN.holds (c : CN) (x : Int) : Bool := c.op.eval x c.n

namespace Match

/-- `if negate and v: raise … elif not negate and not v: raise …` -/
def negated (neg v : Bool) : Bool := if neg then !v else v

/-! ## What the RDKit query molecule checks -/

/-- the query atom `ReadSymbols` builds (`AtomNumGreaterQueryAtom(v)` is `Z > v`) -/
def classMatch : ElemClass → Atom → Bool
  | .any, a => decide (a.Z > 0)
  | .hetero, a => a.Z == 7 || a.Z == 8 || a.Z == 15 || a.Z == 16
  | .heavy, a => decide (a.Z > 1)
  | .metal, a => decide (a.Z > 19)
  | .elem z, a => a.Z == z
  | .aromElem z, a => a.Z == z && a.aromatic

/-- the `FormalChargeEqualsQueryAtom` the suffix (or its absence) adds to the query atom.
`*` adds nothing: `ReadAtomSuffix` expands a *new* local atom that is then dropped. -/
def rdCharge : Suffix → Option Int
  | .none => some 0
  | .plus => some 1
  | .minus => some (-1)
  | .plusRad => some 1
  | .minusRad => some (-1)
  | .rad1 | .rad2 | .rad3 | .star | .free => none

/-- `queryatom.Match(atom)` -/
def rdAtomMatch (t : AtomType) (a : Atom) : Bool :=
  classMatch t.cls a && (match rdCharge t.suf with
    | some c => a.charge == c
    | none => true)

/-- the bond type of the query bond; `none` is `UNSPECIFIED`, which matches every bond -/
def rdBondKind : BondSpec → Option BondKind
  | .single => some .single
  | .double => some .double
  | .triple => some .triple
  | .quadruple => some .quadruple
  | .aromatic => some .aromatic
  | .any | .ring | .nonring | .strong | .part => none

def rdBondMatch (s : BondSpec) (e : Bond) : Bool :=
  match rdBondKind s with
  | some k => e.kind == k
  | none => true

/-! ## The repository's constraint objects -/

/-- `BondQuery.__call__` (`MolQueryError` = `false`) -/
def bondQuery : BondSpec → Bond → Bool
  | .single, e => e.kind == .single
  | .double, e => e.kind == .double
  | .triple, e => e.kind == .triple
  | .quadruple, e => e.kind == .quadruple
  | .ring, e => e.inRing
  | .nonring, e => !e.inRing
  | .aromatic, e => e.kind == .aromatic
  | .any, _ => true
  | .strong, e => e.kind == .double || e.kind == .triple || e.kind == .quadruple || e.kind == .aromatic
  | .part, e => e.kind == .dative || e.kind == .other || e.kind == .zero

/-- the `BondConstraint`s `ReadBondTypeBondedAtom` appends for a declared bond -/
def bondCons : BondSpec → List BondSpec
  | .ring => [.ring]
  | .nonring => [.nonring]
  | .strong => [.strong]
  | .part => [.part]
  | .single | .double | .triple | .quadruple | .aromatic | .any => []

/-- the constraint objects that can sit on an atom *type* (prefix and suffix) -/
inductive SCons where
  | radical (neg : Bool) (cn : CN)
  | inRing (neg : Bool)
  | aromatic (neg : Bool)
  | allylic (neg : Bool)
  deriving DecidableEq, Repr

/-- `ReadAtomPrefix` -/
def prefixCons : APrefix → SCons
  | .aromatic => .aromatic false
  | .nonaromatic => .aromatic true
  | .ringatom => .inRing false
  | .nonringatom => .inRing true
  | .allylic => .allylic false

/-- the `AtomRadical` constraint of `ReadAtomSuffix` / of the missing suffix -/
def suffixCons : Suffix → List SCons
  | .none => [.radical false ⟨.eq, 0⟩]
  | .plusRad => [.radical false ⟨.eq, 1⟩]
  | .minusRad => [.radical false ⟨.eq, 1⟩]
  | .rad1 => [.radical false ⟨.eq, 1⟩]
  | .rad2 => [.radical false ⟨.eq, 2⟩]
  | .rad3 => [.radical false ⟨.eq, 3⟩]
  | .plus | .minus | .star | .free => []

/-- the `constraints` list `ReadAtomType` returns -/
def typeCons (t : AtomType) : List SCons :=
  (match t.pre with
    | some p => [prefixCons p]
    | none => []) ++ suffixCons t.suf

/-- `AtomRadical`, `AtomIsInRing`, `AtomIsAromatic`, `AtomIsAllylic` on atom `x` -/
def evalS (m : Mol) (x : Nat) (a : Atom) : SCons → Bool
  | .radical neg cn => negated neg (cn.holds a.radicals)
  | .inRing neg => negated neg (m.atomInRing x)
  | .aromatic neg => negated neg a.aromatic
  | .allylic neg => negated neg ((m.bondsOf x).any (·.kind == .double))

/-- the atom at `x` passes the query atom and the type's own constraints -/
def typeMatch (m : Mol) (t : AtomType) (x : Nat) : Bool :=
  match m.atom? x with
  | some a => rdAtomMatch t a && (typeCons t).all (evalS m x a)
  | none => false

/-- the counting loop of `AtomConnectivityAtom.__call__` -/
def connCount (m : Mol) (x : Nat) (t : AtomType) (bs : BondSpec) : Nat :=
  ((m.bondsOf x).filter fun e => typeMatch m t (e.other x) && bondQuery bs e).length

/-- the counting loop of `AtomNRing.__call__` -/
def ringCount (m : Mol) (x : Nat) : Nat := (m.rings.map (·.count x)).sum

/-- `AtomConnectivityAtom`, `AtomRing`, `AtomRadical`, `AtomNRing` on atom `x` -/
def evalA (m : Mol) (x : Nat) (a : Atom) : ACons → Bool
  | .conn neg cn t bs => negated neg (cn.holds (connCount m x t bs))
  | .ringSize neg cn =>
    if neg then !(m.rings.any fun r => r.contains x && cn.holds r.length)
    else m.atomInRing x && m.rings.any fun r => r.contains x && cn.holds r.length
  | .radical neg cn => negated neg (cn.holds a.radicals)
  | .nRing neg cn => negated neg (cn.holds (ringCount m x))

/-- every constraint in `atom_constraints[i]` on the molecule atom `x` -/
def atomCons (m : Mol) (qa : QAtom) (x : Nat) : Bool :=
  match m.atom? x with
  | some a => (typeCons qa.ty).all (evalS m x a) && qa.chain.all (evalA m x a)
  | none => false

/-- `HasSubstructMatch(MolFromSmiles('C=C'))` -/
def hasCC (m : Mol) : Bool :=
  m.bonds.any fun e => e.kind == .double &&
    (match m.atom? e.a, m.atom? e.b with
      | some a, some b => a.Z == 6 && b.Z == 6
      | _, _ => false)

/-- the `MolConstraint` objects -/
def molCons (m : Mol) : MolPrefix → Bool
  | .positive => m.totalCharge == 1
  | .negative => m.totalCharge == -1
  | .neutral => m.totalCharge == 0
  | .aromatic => m.atoms.any (·.aromatic)
  | .olefinic => hasCC m
  | .paraffinic => !hasCC m
  | .cyclic => m.numRings != 0
  | .linear => m.numRings == 0

def stereoTarget : StereoKind → Stereo
  | .cis => .z
  | .trans => .e
  | .notspecified => .none

def flipStereo : Stereo → Stereo
  | .z => .e
  | .e => .z
  | s => s

/-- the body of `DoubleBondStereoConstraint.__call__` once the double bond `e` is fetched -/
def stereoJudge (s : QStereo) (e : Bond) (x1 x2 : Nat) : Bool :=
  let tgt := stereoTarget s.kind
  let judge (st : Stereo) : Bool := (tgt == st && !s.neg) || (tgt != st && s.neg)
  if e.stereo == .none then judge .none
  else
    let nmatch := (([x1, x2].eraseDups).filter (e.stereoAtoms.contains ·)).length
    if nmatch == 2 || nmatch == 0 then judge e.stereo
    else if nmatch == 1 then judge (flipStereo e.stereo)
    else true

/-- `DoubleBondStereoConstraint.__call__` on a candidate `f` -/
def stereoCons (m : Mol) (f : List Nat) (s : QStereo) : Bool :=
  match f[s.i1]?, f[s.i2]?, f[s.i3]?, f[s.i4]? with
  | some x1, some x2, some x3, some x4 =>
    match m.bondBetween x3 x4 with
    | none => false
    | some e => stereoJudge s e x1 x2
  | _, _, _, _ => false

/-! ## Candidate enumeration (in place of RDKit's, assumption A-cand) -/

/-- generic pruned enumeration: all lists of length `pre.length + k` over `range n` that extend
`pre` and all of whose longer prefixes pass `ok` -/
def enum (n : Nat) (ok : List Nat → Bool) : Nat → List Nat → List (List Nat)
  | 0, pre => [pre]
  | k+1, pre => (List.range n).flatMap fun a =>
      if ok (pre ++ [a]) then enum n ok k (pre ++ [a]) else []

/-- the bond between the images of `i` and `j` under the (partial) assignment `f` passes `p` -/
def bondAt (m : Mol) (f : List Nat) (i j : Nat) (p : Bond → Bool) : Bool :=
  match f[i]?, f[j]? with
  | some x, some y =>
    match m.bondBetween x y with
    | some e => p e
    | none => false
  | _, _ => false

/-- pruning test on a non-empty assignment prefix: the atom just assigned is new, passes its query
atom, and every declared bond whose later endpoint it is exists with a matching type -/
def candOK (q : Query) (m : Mol) (pre : List Nat) : Bool :=
  match pre.length with
  | 0 => true
  | k+1 =>
    match pre[k]?, q.atoms[k]? with
    | some x, some qa =>
      !((pre.take k).contains x) &&
      (match m.atom? x with
        | some a => rdAtomMatch qa.ty a
        | none => false) &&
      q.bonds.all fun b => if max b.i b.j == k then bondAt m pre b.i b.j (rdBondMatch b.spec) else true
    | _, _ => false

/-- the candidates: what `GetSubstructMatches(query mol, uniquify=False)` stands for -/
def rawMatches (q : Query) (m : Mol) : List (List Nat) :=
  enum m.natoms (candOK q m) q.atoms.length []

/-! ## The pipeline -/

def bondConsOK (q : Query) (m : Mol) (f : List Nat) : Bool :=
  q.bonds.all fun b => (bondCons b.spec).all fun c => bondAt m f b.i b.j (bondQuery c)

def atomConsOK (q : Query) (m : Mol) (f : List Nat) : Bool :=
  (q.atoms.zip f).all fun p => atomCons m p.1 p.2

def stereoOK (q : Query) (m : Mol) (f : List Nat) : Bool :=
  q.stereo.all (stereoCons m f)

def molConsOK (q : Query) (m : Mol) : Bool := q.molPre.all (molCons m)

/-- the filtering stages of `GetQueryMatches` applied to a candidate list -/
def pipeline (raw : List (List Nat)) (q : Query) (m : Mol) : List (List Nat) :=
  if molConsOK q m then
    ((raw.filter (bondConsOK q m)).filter (atomConsOK q m)).filter (stereoOK q m)
  else []

/-- RDKit's `maxMatches` in `GetQueryMatches` -/
def maxMatches : Nat := 10000

end Match

open Match in
/-- `GetQueryMatches` without the candidate cap -/
def queryMatches (q : Query) (m : Mol) : List (List Nat) := pipeline (rawMatches q m) q m

open Match in
/-- `GetQueryMatches` with the cap (which 10 000 candidates RDKit keeps is not modelled: the first
10 000 of the model's own enumeration stand in for them) -/
def queryMatchesCapped (q : Query) (m : Mol) : List (List Nat) :=
  pipeline ((rawMatches q m).take maxMatches) q m

end PGA
