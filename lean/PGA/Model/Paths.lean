/-! Model of the builtin-name / path resolution of `GroupLibrary.Load`, `GroupAdditivityScheme.Load`
(`Library.py:184-230`, `Scheme.py:63-72`) and of the cached data-directory lookup (`DataDir.py`).
Paths are strings; the file system enters through two oracles (`exists`, `isDir`). -/
namespace PGA.Paths

/-- `os.path.join(a, b)` for a relative `b` on POSIX -/
def join (a b : String) : String :=
  if b.startsWith "/" then b else if a.isEmpty || a.endsWith "/" then a ++ b else a ++ "/" ++ b

/-- `os.path.dirname` on POSIX: everything before the last '/', with trailing slashes of the head removed
unless the head is all slashes. -/
def dirname (p : String) : String :=
  let cs := p.toList
  match cs.reverse.dropWhile (· ≠ '/') with
  | [] => ""
  | headRev =>
    let head := headRev.reverse
    if head.all (· == '/') then String.ofList head
    else String.ofList (head.reverse.dropWhile (· == '/')).reverse

/-- the test `os.sep not in path and '.' not in path and not os.path.exists(path)` -/
def isBuiltinName (exists_ : String → Bool) (path : String) : Bool :=
  !path.contains '/' && !path.contains '.' && !exists_ path

inductive DirErr | notADirectory | cannotLocate
  deriving DecidableEq, Repr

/-- state of `DataDir._data_dir_cached` -/
abbrev Cache := Option String

/-- `get_data_dir()`: cached value, else the environment override (if non-empty), else the package's
`data` directory; must be a directory; the result is cached. -/
def getDataDir (cache : Cache) (env : Option String) (pkgData : Option String) (isDir : String → Bool) :
    Except DirErr String × Cache :=
  match cache with
  | some d => (.ok d, cache)
  | none =>
    let base : Option String :=
      match env with
      | some e => if e.isEmpty then pkgData else some e
      | none => pkgData
    match base with
    | none => (.error .cannotLocate, none)
    | some b => if isDir b then (.ok b, some b) else (.error .notADirectory, none)

structure Resolved where
  libraryFile : String
  basePath : String
  schemeFile : String
  deriving DecidableEq, Repr

/-- `GroupLibrary.Load(path)`'s choice of files -/
def resolveLibrary (exists_ : String → Bool) (dataDir : String) (path : String) : Resolved :=
  if isBuiltinName exists_ path then
    let base := join dataDir path
    ⟨join base "library.yaml", base, join base "scheme.yaml"⟩
  else
    let base := dirname path
    ⟨path, base, join base "scheme.yaml"⟩

end PGA.Paths
