import PGA.Model.Mol
/-! # Benson's aromatic perception (`Scheme.py:_aromatization_Benson`)

`GetDescriptors` runs this on the explicit-H Kekulé graph before any pattern is matched: the rings
of `Chem.GetSymmSSSR(mol)` are visited **in RDKit's order**; a ring is *eligible* when it has six
atoms, all six are carbon (`GetSymbol() == 'C'`), and its six bonds alternate SINGLE/DOUBLE in one
of the two phases — read from the bond types **as they stand when the ring is visited**, so an
earlier ring that was made aromatic can spoil a later one that shares a bond with it (finding F3).
An eligible ring gets its six atoms flagged aromatic and its six bonds typed AROMATIC.

What of the molecule the matcher model reads (`PGA/Model/Match.lean`): the atom's aromatic flag and
the bond kind.  `Bond.SetIsAromatic` and `Bond.SetIsConjugated` are not read by any RING query and
are not part of `Mol`.

Domain: a graph whose rings are cycles of the graph (`Mol.ringsBonded`: consecutive ring atoms are
atoms of the molecule joined by a bond — what RDKit reports; re-checked by the driver on every
graph).  Outside it the Python raises `AttributeError` (`GetBondBetweenAtoms` returns `None`) at a
point that depends on the evaluation order; the model treats such a ring as not eligible.  Every
theorem about `decompose` carries `ringsBonded` next to `Mol.wf`.

The update is written as one pass (every atom of the ring flagged, every bond joining two consecutive
ring atoms retyped); on a graph without parallel bonds (`Mol.wf`) that is exactly the six
`GetAtomWithIdx(a).SetIsAromatic(True)` and six `GetBondBetweenAtoms(x, y).SetBondType(AROMATIC)` calls
executed in order — proved: `C03_aromatize_update_literal` (`PGA/Proofs/AromatizeLiteral.lean`).
-/
namespace PGA
namespace Arom

/-- `mol.GetBondBetweenAtoms(x, y).GetBondType()` -/
def kindAt (m : Mol) (x y : Nat) : Option BondKind := (m.bondBetween x y).map (·.kind)

/-- `mol.GetAtomWithIdx(x).GetSymbol() == 'C'` -/
def isC (m : Mol) (x : Nat) : Bool :=
  match m.atom? x with
  | some a => a.Z == 6
  | none => false

/-- the size, atom and bond checks of one ring, in the order the code makes them -/
def eligible (m : Mol) : List Nat → Bool
  | [a0, a1, a2, a3, a4, a5] =>
    isC m a0 && isC m a1 && isC m a2 && isC m a3 && isC m a4 && isC m a5 &&
    (if kindAt m a0 a1 == some .single then
        kindAt m a1 a2 == some .double && kindAt m a2 a3 == some .single &&
        kindAt m a3 a4 == some .double && kindAt m a4 a5 == some .single &&
        kindAt m a5 a0 == some .double
      else if kindAt m a0 a1 == some .double then
        kindAt m a1 a2 == some .single && kindAt m a2 a3 == some .double &&
        kindAt m a3 a4 == some .single && kindAt m a4 a5 == some .double &&
        kindAt m a5 a0 == some .single
      else false)
  | _ => false

/-- the six pairs of cyclically consecutive atoms of a six-ring, as the code names them -/
def edgePairs : List Nat → List (Nat × Nat)
  | [a0, a1, a2, a3, a4, a5] => [(a0, a1), (a1, a2), (a2, a3), (a3, a4), (a4, a5), (a5, a0)]
  | _ => []

/-- the bond joins two cyclically consecutive atoms of the six-ring -/
def ringEdge (r : List Nat) (e : Bond) : Bool := (edgePairs r).any fun p => e.joins p.1 p.2

/-- `SetIsAromatic(True)` on the ring atoms, `SetBondType(AROMATIC)` on the ring bonds -/
def setAromatic (m : Mol) (r : List Nat) : Mol :=
  { m with
    atoms := m.atoms.mapIdx fun i a => if r.contains i then { a with aromatic := true } else a
    bonds := m.bonds.map fun e => if ringEdge r e then { e with kind := .aromatic } else e }

/-- one iteration of the loop over the rings -/
def aromStep (m : Mol) (r : List Nat) : Mol := if eligible m r then setAromatic m r else m

/-- the loop over a ring list, in the list's order -/
def aromatizeRings (rs : List (List Nat)) (m : Mol) : Mol := rs.foldl aromStep m

end Arom

/-- `_aromatization_Benson(mol)`: the rings in RDKit's order (`Mol.rings`) -/
def aromatizeBenson (m : Mol) : Mol := Arom.aromatizeRings m.rings m

namespace Mol
/-- every ring is a cycle of the graph: cyclically consecutive ring atoms are atoms of the molecule
joined by a bond (what RDKit's ring perception returns; the domain of `aromatizeBenson`) -/
def ringsBonded (m : Mol) : Bool :=
  m.rings.all fun r =>
    r.all (· < m.natoms) &&
    (match r with
      | [] => true
      | a :: _ => (r.zip (r.drop 1 ++ [a])).all fun p => (m.bondBetween p.1 p.2).isSome)
end Mol

end PGA
