/-!
# Model of the YAML value loaders and of `ThermochemIncomplete.yaml_construct` (C12, C13, C18)

Mirrors, over exact rationals (DESIGN 2.3):

* `pgradd/Units/qty.py`  `GenericQuantity._build`, `*`, `/`, `in_units`  — as far as the loaders use them;
* `pgradd/Units/helpers.py`  `with_units`  (after the repair of F12: no zero shortcut);
* `pgradd/yaml_io/builtins.py`  `qty_loader`, `float_loader`, `tuple_loader`, `list_loader`;
* `pgradd/yaml_io/schema.py`  `ObjectLoader.__call__` (required / optional / default members; the thermochemistry
  classes use no `alts`) and the wrapping of every `yaml_construct` failure into `InputDataError` (after the repair of F31);
* `pgradd/ThermoChem/incomplete.py:301-336`  `yaml_construct`, and the validity checks of the constructor
  (`ThermochemBase.__init__` assertion, `ThermochemRawData.__init__` range checks reached through `_setup_correlation`).

A *unit* is an abstract pair (SI factor, dimension): the unit-expression parser is the C10 model's business.  The table
of the unit strings that occur is generated from the live `pgradd.Units` (`PGA.Gen.YamlUnits`).
-/
namespace PGA.Yaml

/-! ### decimal literals -/

/-- exact decimal `mant · 10^exp10` (how the translator writes a float: the decimal of its shortest `repr`) -/
structure Dec where
  mant : Int
  exp10 : Int
  deriving DecidableEq, Repr

def pow10 (n : Nat) : Rat := ((10 ^ n : Nat) : Rat)

def Dec.toRat (d : Dec) : Rat :=
  if 0 ≤ d.exp10 then (d.mant : Rat) * pow10 d.exp10.toNat else (d.mant : Rat) / pow10 (-d.exp10).toNat

/-! ### dimensions, units, quantities -/

/-- exponents of m, kg, s, A, K, mol, cd (`FundamentalUnits.exps`; integral exponents only) -/
structure Dim where
  m : Int
  kg : Int
  s : Int
  A : Int
  K : Int
  mol : Int
  cd : Int
  deriving DecidableEq, Repr

namespace Dim
def zero : Dim := ⟨0, 0, 0, 0, 0, 0, 0⟩
def add (a b : Dim) : Dim := ⟨a.m + b.m, a.kg + b.kg, a.s + b.s, a.A + b.A, a.K + b.K, a.mol + b.mol, a.cd + b.cd⟩
def sub (a b : Dim) : Dim := ⟨a.m - b.m, a.kg - b.kg, a.s - b.s, a.A - b.A, a.K - b.K, a.mol - b.mol, a.cd - b.cd⟩
def ofList : List Int → Dim
  | [a, b, c, d, e, f, g] => ⟨a, b, c, d, e, f, g⟩
  | _ => zero
/-- K -/
def temperature : Dim := ⟨0, 0, 0, 0, 1, 0, 0⟩
/-- J/mol = m² kg s⁻² mol⁻¹ -/
def molarEnergy : Dim := ⟨2, 1, -2, 0, 0, -1, 0⟩
/-- J/(mol K) -/
def molarEntropy : Dim := ⟨2, 1, -2, 0, -1, -1, 0⟩
end Dim

/-- what a unit expression evaluates to -/
structure UnitQ where
  factor : Rat
  dim : Dim
  deriving DecidableEq, Repr

/-- a value as the `Units` package holds it: a bare number, or a `Quantity` (SI magnitude, non-null dimension) -/
inductive QV
  | num (v : Rat)
  | qty (v : Rat) (d : Dim)
  deriving DecidableEq, Repr

/-- `GenericQuantity._build`: a null dimension gives back the bare number -/
def build (v : Rat) (d : Dim) : QV := if d = Dim.zero then .num v else .qty v d

def QV.value : QV → Rat
  | .num v => v
  | .qty v _ => v
def QV.dim : QV → Dim
  | .num _ => Dim.zero
  | .qty _ d => d
def QV.isNum : QV → Bool
  | .num _ => true
  | .qty _ _ => false

/-- failures inside `yaml_construct` (each ends as `InputDataError`) -/
inductive CErr
  | zeroDiv      -- float division by zero
  | attr         -- `.in_units` on something that is not a quantity (bare number / None)
  | units        -- `UnitsError` from `in_units`: incompatible dimension
  | assertion    -- `ThermochemBase.__init__`: `assert range[1] >= range[0]`
  | value        -- `ThermochemRawData.__init__`: table or `T_ref` outside the range
  | typeErr      -- arithmetic on `None`
  deriving DecidableEq, Repr

/-- `__mul__` / `__rmul__` -/
def QV.mul (a b : QV) : QV := build (a.value * b.value) (a.dim.add b.dim)
/-- `__truediv__` / `__rtruediv__` (Python float division: zero divisor raises) -/
def QV.div (a b : QV) : Except CErr QV :=
  if b.value = 0 then .error .zeroDiv else .ok (build (a.value / b.value) (a.dim.sub b.dim))

/-- the quantity a unit expression denotes (`eval_qty(units)`) -/
def UnitQ.toQV (u : UnitQ) : QV := build u.factor u.dim

/-- `GenericQuantity.in_units(units)`: `self/eval_qty(units)`; a quantity left over is `UnitsError`.
Called on a bare number it is an `AttributeError`. -/
def QV.inUnits (q : QV) (u : UnitQ) : Except CErr Rat :=
  match q with
  | .num _ => .error .attr
  | .qty v d =>
    if u.factor = 0 then .error .zeroDiv else
    match build (v / u.factor) (d.sub u.dim) with
    | .num x => .ok x
    | .qty _ _ => .error .units

/-- `Units.with_units(number, units)` = `number*eval_qty(units)` (repaired: zero is a number like any other) -/
def withUnits (v : Rat) (u : UnitQ) : QV := build (v * u.factor) u.dim

/-- the defective shortcut of the unrepaired code (F12), kept for the witness in `Props/C12` -/
def withUnitsOld (v : Rat) (u : UnitQ) : QV := if v = 0 then .num 0 else build (v * u.factor) u.dim

/-! ### YAML trees and schema types -/

inductive Kind
  | temperature | molarEnthalpy | molarEntropy | molarHeatCapacity
  deriving DecidableEq, Repr

/-- abstract tree of a parsed YAML document (`yaml_io.parse`); the text layer is assumption A-yaml.
`qstr v u` is the string scalar `"<v> <u>"` (a number followed by a unit expression); `bad` any other string. -/
inductive YVal
  | null
  | num (q : Rat)
  | qstr (v : Rat) (u : String)
  | bad
  | seq (l : List YVal)
  | map (l : List (String × YVal))

/-- schema types used by the thermochemistry classes (`type: tuple` always has two item types there) -/
inductive Ty
  | qty (k : Kind)
  | float
  | pair (a b : Ty)
  | list (item : Ty)
  deriving DecidableEq, Repr

/-- values the loaders return -/
inductive LVal
  | none
  | q (v : QV)
  | f (x : Rat)
  | pair (a b : LVal)
  | list (l : List LVal)

inductive LoadErr
  | inputData     -- `yaml_io.common.InputDataError`
  | unitsParse    -- `UnitsParseError` escaping from `eval_qty` (string that is no quantity, unknown unit)
  | unmodelled    -- a shape of input this model does not describe (the generators never write one)
  deriving DecidableEq, Repr

abbrev UnitTable := List (String × UnitQ)

/-- `eval_qty` of a unit string: looked up in the generated table; unknown is `UnitsParseError` -/
def unitOf (tab : UnitTable) (u : String) : Except LoadErr UnitQ :=
  match tab.lookup u with
  | some x => .ok x
  | none => .error .unitsParse

/-- `builtins.qty_loader.__call__` -/
def qtyLoad (tab : UnitTable) (units : List (Kind × String)) (k : Kind) : YVal → Except LoadErr LVal
  | .null => .ok .none
  | .num v =>
    match units.lookup k with
    | some us => do
      let u ← unitOf tab us
      .ok (.q (withUnits v u))
    | none => .error .inputData
  | .qstr v us => do
    let u ← unitOf tab us
    match build (v * u.factor) u.dim with
    | .num x =>
      -- a string that evaluates to a bare number is treated like a number
      match units.lookup k with
      | some ds => do
        let du ← unitOf tab ds
        .ok (.q (withUnits x du))
      | none => .error .inputData
    | q => .ok (.q q)
  | .bad => .error .unitsParse
  | _ => .error .unmodelled

/-- `builtins.float_loader.__call__` -/
def floatLoad : YVal → Except LoadErr LVal
  | .null => .ok .none
  | .num v => .ok (.f v)
  | .qstr _ _ => .error .inputData
  | .bad => .error .inputData
  | _ => .error .unmodelled

/-- `make_loader(schema_def)` applied to a value: recursion over the schema type -/
def load (tab : UnitTable) (units : List (Kind × String)) : Ty → YVal → Except LoadErr LVal
  | .qty k, v => qtyLoad tab units k v
  | .float, v => floatLoad v
  | .pair a b, v =>
    match v with
    | .seq [x, y] => do
      let x' ← load tab units a x
      let y' ← load tab units b y
      .ok (.pair x' y')
    | .seq _ => .error .inputData
    | .null => .error .inputData
    | .num _ => .error .inputData
    | .map _ => .error .inputData
    | _ => .error .unmodelled
  | .list item, v =>
    match v with
    | .seq l => do
      let l' ← l.mapM (load tab units item)
      .ok (.list l')
    | .null => .error .inputData
    | .num _ => .error .inputData
    | .map _ => .error .inputData
    | _ => .error .unmodelled

inductive Mode
  | required
  | optional
  | default (v : YVal)

structure Member where
  name : String
  mode : Mode
  ty : Ty

abbrev Schema := List Member
abbrev Params := List (String × LVal)

/-- one member of `ObjectLoader.__call__` (required / optional / default) -/
def loadMember (tab : UnitTable) (units : List (Kind × String)) (data : List (String × YVal)) (m : Member) :
    Except LoadErr (Option (String × LVal)) :=
  match m.mode, data.lookup m.name with
  | .required, none => .error .inputData
  | .optional, none => .ok none
  | .default d, none => do
    let v ← load tab units m.ty d
    .ok (some (m.name, v))
  | _, some x => do
    let v ← load tab units m.ty x
    .ok (some (m.name, v))

/-- `ObjectLoader.__call__` up to the constructor call: the parameter dictionary.
(The implementation walks its `requireds`/`optionals` *sets* in hash order; which of two simultaneous errors surfaces is
therefore unspecified there.  The model walks the schema in order; the generators inject at most one error per entry.) -/
def loadMembers (tab : UnitTable) (units : List (Kind × String)) (data : List (String × YVal)) :
    Schema → Except LoadErr Params
  | [] => .ok []
  | m :: ms => do
    let r ← loadMember tab units data m
    let rest ← loadMembers tab units data ms
    match r with
    | some kv => .ok (kv :: rest)
    | none => .ok rest

/-! ### correlations and the constructor's validity checks -/

/-- the fields of a `ThermochemIncomplete`; `cp` is the `ND_Cp_data` dictionary in insertion order (keys distinct) -/
structure CorrOf (V : Type) where
  H : Option V
  S : Option V
  cp : List (Rat × V)
  Tref : Rat
  range : Option (Rat × Rat)
  deriving DecidableEq, Repr

/-- `d[k] = v` -/
def dinsert {V : Type} (k : Rat) (v : V) : List (Rat × V) → List (Rat × V)
  | [] => [(k, v)]
  | (k', v') :: l => if k' = k then (k, v) :: l else (k', v') :: dinsert k v l

/-- `d.get(k)` -/
def dlookup {V : Type} (k : Rat) : List (Rat × V) → Option V
  | [] => none
  | (k', v') :: l => if k' = k then some v' else dlookup k l

/-- `dict(zip(Ts, values))` -/
def dictOfList {V : Type} (l : List (Rat × V)) : List (Rat × V) :=
  l.foldl (fun d kv => dinsert kv.1 kv.2 d) []

def minKey {V : Type} : List (Rat × V) → Option Rat
  | [] => none
  | (k, _) :: l => match minKey l with
    | none => some k
    | some m => some (if k ≤ m then k else m)

def maxKey {V : Type} : List (Rat × V) → Option Rat
  | [] => none
  | (k, _) :: l => match maxKey l with
    | none => some k
    | some m => some (if m ≤ k then k else m)

/-- the checks of `ThermochemRawData.__init__` on a non-empty table with span `[mn, mx]`: with an explicit range the
table and `T_ref` must lie inside it; without one the range is the span of the table and must contain `T_ref` -/
def rawCheck (mn mx Tref : Rat) (range : Option (Rat × Rat)) : Except CErr Unit :=
  match range with
  | some (lo, hi) =>
    if mn < lo ∨ hi < mx then .error .value
    else if Tref < lo ∨ hi < Tref then .error .value
    else .ok ()
  | none => if Tref < mn ∨ mx < Tref then .error .value else .ok ()

/-- `_setup_correlation`: with an empty table no internal correlation is built and nothing is checked -/
def setupCheck {V : Type} (cp : List (Rat × V)) (Tref : Rat) (range : Option (Rat × Rat)) : Except CErr Unit :=
  match minKey cp, maxKey cp with
  | some mn, some mx => rawCheck mn mx Tref range
  | _, _ => .ok ()

/-- `ThermochemBase.__init__`: `assert range[1] >= range[0]` -/
def rangeAssert (range : Option (Rat × Rat)) : Except CErr Unit :=
  match range with
  | some (lo, hi) => if hi < lo then .error .assertion else .ok ()
  | none => .ok ()

/-- the constructor `ThermochemIncomplete(H, S, cp, Tref, range)`: assertion, then `_setup_correlation` -/
def checkValid {V : Type} (cp : List (Rat × V)) (Tref : Rat) (range : Option (Rat × Rat)) : Except CErr Unit := do
  rangeAssert range
  setupCheck cp Tref range

/-! ### `yaml_construct` -/

abbrev Loaded := CorrOf QV

def getQ (p : Params) (k : String) : Option QV :=
  match p.lookup k with
  | some (.q v) => some v
  | _ => none

def getF (p : Params) (k : String) : Option Rat :=
  match p.lookup k with
  | some (.f x) => some x
  | _ => none

/-- `[T.in_units('K') for T in T_data]` zipped with the values; a `None` temperature is an `AttributeError`, a `None`
value is outside the model -/
def cpPoints (K : UnitQ) (conv : LVal → Except CErr QV) : List LVal → Except CErr (List (Rat × QV))
  | [] => .ok []
  | .pair (.q t) v :: rest => do
    let t' ← t.inUnits K
    let v' ← conv v
    let r ← cpPoints K conv rest
    .ok ((t', v') :: r)
  | _ :: _ => .error .attr

def rangeOf (K : UnitQ) : Option LVal → Except CErr (Option (Rat × Rat))
  | some (.pair (.q a) (.q b)) => do
    let a' ← a.inUnits K
    let b' ← b.inUnits K
    .ok (some (a', b'))
  | some .none => .ok none
  | none => .ok none
  | some _ => .error .attr

/-- `T_ref = params['T_ref']` (always present: the schema gives a default); `None` breaks the arithmetic below -/
def cTref (p : Params) : Except CErr QV :=
  match p.lookup "T_ref" with
  | some (.q t) => .ok t
  | _ => .error .typeErr

/-- 304-309: `ND_H_ref`, else `H_ref/(R*T_ref)`, else `None` -/
def cH (R Tq : QV) (p : Params) : Except CErr (Option QV) :=
  match getF p "ND_H_ref" with
  | some x => .ok (some (.num x))
  | none =>
    match getQ p "H_ref" with
    | some h =>
      match h.div (R.mul Tq) with
      | .ok r => .ok (some r)
      | .error e => .error e
    | none => .ok none

/-- 311-316: `ND_S_ref`, else `S_ref/R`, else `None` -/
def cS (R : QV) (p : Params) : Except CErr (Option QV) :=
  match getF p "ND_S_ref" with
  | some x => .ok (some (.num x))
  | none =>
    match getQ p "S_ref" with
    | some s =>
      match s.div R with
      | .ok r => .ok (some r)
      | .error e => .error e
    | none => .ok none

def ndValue : LVal → Except CErr QV
  | .f y => .ok (.num y)
  | _ => .error .typeErr

def dimValue (R : QV) : LVal → Except CErr QV
  | .q c => c.div R
  | _ => .error .typeErr

/-- 318-329: a non-empty `ND_Cp_data`, else a non-empty `Cp_data` (each `Cp/R`), else no table -/
def cCp (R : QV) (K : UnitQ) (p : Params) : Except CErr (List (Rat × QV)) :=
  match p.lookup "ND_Cp_data" with
  | some (.list (x :: xs)) => cpPoints K ndValue (x :: xs)
  | _ =>
    match p.lookup "Cp_data" with
    | some (.list (x :: xs)) => cpPoints K (dimValue R) (x :: xs)
    | _ => .ok []

/-- `ThermochemIncomplete.yaml_construct(params, context)`; `R` is `Consts.GAS_CONSTANT`, `K` the unit `'K'` -/
def construct (R : QV) (K : UnitQ) (p : Params) : Except CErr Loaded :=
  cTref p >>= fun Tq =>
  cH R Tq p >>= fun H =>
  cS R p >>= fun S =>
  cCp R K p >>= fun cp =>
  rangeOf K (p.lookup "range") >>= fun range =>
  Tq.inUnits K >>= fun Tref =>
  checkValid (dictOfList cp) Tref range >>= fun _ =>
  .ok ⟨H, S, dictOfList cp, Tref, range⟩

/-- the schema of `ThermochemIncomplete` / `ThermochemGroup` (`_yaml_schema`); tied to the live schema by a table
obligation in `Props/C12` -/
def thermoSchema : Schema := [
  ⟨"range", .optional, .pair (.qty .temperature) (.qty .temperature)⟩,
  ⟨"T_ref", .default (.qstr (29815 / 100) "K"), .qty .temperature⟩,
  ⟨"ND_Cp_data", .optional, .list (.pair (.qty .temperature) .float)⟩,
  ⟨"ND_H_ref", .optional, .float⟩,
  ⟨"ND_S_ref", .optional, .float⟩,
  ⟨"Cp_data", .optional, .list (.pair (.qty .temperature) (.qty .molarHeatCapacity))⟩,
  ⟨"H_ref", .optional, .qty .molarEnthalpy⟩,
  ⟨"S_ref", .optional, .qty .molarEntropy⟩]

/-- loading one `thermochem:` entry of a group: `ObjectLoader.__call__` with `object_class = ThermochemGroup`.
Every failure inside `yaml_construct` is re-raised as `InputDataError`. -/
def loadEntry (tab : UnitTable) (R : QV) (K : UnitQ) (units : List (Kind × String)) : YVal → Except LoadErr Loaded
  | .map data => do
    let p ← loadMembers tab units data thermoSchema
    match construct R K p with
    | .ok c => .ok c
    | .error _ => .error .inputData
  | .null => .error .inputData
  | .num _ => .error .inputData
  | .seq _ => .error .inputData
  | .qstr _ _ => .error .inputData
  | .bad => .error .inputData

/-- the property sets of one group (`Library.py` 246-262): an object loader with the single optional member
`thermochem` of type `ThermochemGroup`; `none` = the group has no `thermochem` entry -/
def loadPropertySets (tab : UnitTable) (R : QV) (K : UnitQ) (units : List (Kind × String)) : YVal → Except LoadErr (Option Loaded)
  | .map data =>
    match data.lookup "thermochem" with
    | none => .ok none
    | some v => do
      let c ← loadEntry tab R K units v
      .ok (some c)
  | _ => .error .inputData

end PGA.Yaml
