import PGA.Model.Match
/-! # RING reaction rules: reading a rule and running it on a molecule

Model of `pgradd/RINGParser/ReactionQueryRead.py` (`ReactionQueryReader`: labels → reactant query
indices, the per-label electron balance, the edit objects it appends) and of
`pgradd/RDkitWrapper/ReactionQuery.py` (the edit classes `BondForm`, `BondBreak`, `BondModify`,
`BondIncrease`, `BondDecrease`, `RadicalModify`, `RadicalIncrease`, `RadicalDecrease`,
`ChargeIncrease`, `ChargeDecrease`, `AtomTypeModify`, and `ReactionQuery.RunReactants`), for
**unimolecular** rules (one `reactant … { … }` block).  The reactant pattern is read and matched by
the C08 model (`PGA.readFragment`, `PGA.queryMatches`).

What RDKit does at the edges the code leans on was probed and is modelled as explicit outcomes
(`RunErr`): `AddBond` on an existing bond or a self bond raises `RuntimeError`; `RemoveBond` of a
bond that is not there does nothing; `GetBondBetweenAtoms` of unbonded atoms is `None`, so the
bond-order ladders raise `AttributeError`; `SetNumRadicalElectrons(-1)` raises `OverflowError`.

The electron balance is kept in **half electrons** (`aromatic` counts 1.5 in the code).
-/
namespace PGA.Rxn

/-! ## The molecule being edited -/

/-- RDKit `Chem.BondType` as far as the edit classes distinguish it (`PGA.BondKind` plus
`QUINTUPLE`, which `BondIncrease` can create). -/
inductive BK where
  | single | double | triple | quadruple | quintuple | aromatic | zero | dative | other | misc
  deriving DecidableEq, Repr, Inhabited

namespace BK
def ofKind : BondKind → BK
  | .single => single | .double => double | .triple => triple | .quadruple => quadruple
  | .aromatic => aromatic | .zero => zero | .dative => dative | .other => other | .misc => misc

/-- twice the bond order the electron bookkeeping assigns to a bond type (`partial` = `DATIVE`
counts 0 in `ReadBondType`; the types no edit can name or create count 0 here). -/
def half : BK → Int
  | single => 2 | double => 4 | triple => 6 | quadruple => 8 | quintuple => 10 | aromatic => 3
  | zero => 0 | dative => 0 | other => 0 | misc => 0
end BK

structure WAtom where
  Z : Nat
  charge : Int
  radicals : Nat
  aromatic : Bool
  deriving DecidableEq, Repr, Inhabited

structure WBond where
  a : Nat
  b : Nat
  kind : BK
  deriving DecidableEq, Repr, Inhabited

/-- the `RWMol` the edits work on (`combined_mol.__copy__()`): atoms and bonds; nothing else of the
molecule is read or written by an edit -/
structure WMol where
  atoms : List WAtom
  bonds : List WBond
  deriving DecidableEq, Repr, Inhabited

namespace WBond
def joins (e : WBond) (x y : Nat) : Bool := (e.a == x && e.b == y) || (e.a == y && e.b == x)
def touches (e : WBond) (x : Nat) : Bool := e.a == x || e.b == x
end WBond

namespace WMol
def natoms (m : WMol) : Nat := m.atoms.length

/-- the graph of `Chem.AddHs(reactant)` as the edits see it -/
def ofMol (m : Mol) : WMol :=
  ⟨m.atoms.map (fun a => ⟨a.Z, a.charge, a.radicals, a.aromatic⟩),
   m.bonds.map (fun e => ⟨e.a, e.b, BK.ofKind e.kind⟩)⟩

/-- `GetBondBetweenAtoms(x, y)` -/
def bondBetween (m : WMol) (x y : Nat) : Option WBond := m.bonds.find? (·.joins x y)
/-- the type of the bond between `x` and `y`, if there is one -/
def kindBetween (m : WMol) (x y : Nat) : Option BK := (m.bondBetween x y).map (·.kind)

/-- no loops, no parallel bonds, endpoints are atoms (RDKit cannot hold anything else) -/
def wf (m : WMol) : Bool :=
  m.bonds.all (fun e => e.a < m.natoms && e.b < m.natoms && e.a != e.b) &&
  m.bonds.Pairwise (fun e e' => !(e'.joins e.a e.b))

/-- `RemoveBond(x, y)`: nothing happens when the atoms are not bonded (probed) -/
def removeBond (m : WMol) (x y : Nat) : WMol := { m with bonds := m.bonds.filter (fun e => !e.joins x y) }

/-- the atom sequence with atom `x` replaced by `g` of it -/
def modifyAtom (m : WMol) (x : Nat) (g : WAtom → WAtom) : WMol := { m with atoms := m.atoms.modify x g }
end WMol

/-- how a run can end other than with products -/
inductive RunErr where
  /-- RDKit `RuntimeError`: `AddBond` between bonded atoms or of an atom with itself -/
  | rdkit
  /-- `AttributeError`: the bond-order ladder is asked about `None` (atoms not bonded) -/
  | attribute
  /-- `OverflowError`: `SetNumRadicalElectrons(-1)` -/
  | overflow
  /-- `ReactionQueryError` -/
  | queryError
  /-- `IndexError`/range error: a label index outside the match or an atom index outside the molecule (never the
  case for the matches of the rule's own reactant query) -/
  | index
  deriving DecidableEq, Repr, Inhabited

/-- `AddBond(x, y, k)`.  Adding a bond of type `AROMATIC` also sets the aromatic flag of both atoms (RDKit's
`RWMol::addBond`; probed) — a flag, not a charge, radical count or element. -/
def WMol.addBond (m : WMol) (x y : Nat) (k : BK) : Except RunErr WMol :=
  if x == y then throw .rdkit
  else if (m.bondBetween x y).isSome then throw .rdkit
  else
    let atoms := if k == .aromatic then
        (m.atoms.modify x fun a => { a with aromatic := true }).modify y fun a => { a with aromatic := true }
      else m.atoms
    pure { atoms := atoms, bonds := m.bonds ++ [⟨x, y, k⟩] }

/-! ## The edit objects -/

/-- the transformation objects; `i`, `j` are label indices (`self.idx`, `self.idx1`, `self.idx2`), mapped to
molecule atoms through the match when the edit is applied -/
inductive Edit where
  | bondForm (i j : Nat) (k : BK)
  /-- `old`: the bond type the break was balanced for (checked when applied) -/
  | bondBreak (i j : Nat) (old : BK)
  /-- `old`: the bond type the modification was balanced against (checked when applied) -/
  | bondModify (i j : Nat) (new old : BK)
  | bondIncrease (i j : Nat)
  | bondDecrease (i j : Nat)
  /-- `modify number of radical (l, r)`; `old`: the radical count the pattern declares for the atom -/
  | radicalModify (i : Nat) (r old : Nat)
  | radicalIncrease (i : Nat)
  | radicalDecrease (i : Nat)
  | chargeIncrease (i : Nat)
  | chargeDecrease (i : Nat)
  /-- `AtomTypeModify(idx, radical, charge, valence = 0)`: sets both numbers.  No rule text produces it
  (`modify atomtype` always ends in `NotImplementedError`); kept because the class exists. -/
  | atomTypeModify (i : Nat) (radical : Nat) (charge : Int)
  deriving DecidableEq, Repr, Inhabited

/-- `BondIncrease.getbondtype` -/
def ladderUp : BK → Except RunErr BK
  | .single => pure .double
  | .double => pure .triple
  | .triple => pure .quadruple
  | .quadruple => pure .quintuple
  | .quintuple | .aromatic | .dative | .zero | .other | .misc => throw .queryError

/-- `BondDecrease.getbondtype` (`none`: the bond disappears) -/
def ladderDown : BK → Except RunErr (Option BK)
  | .single => pure none
  | .double => pure (some .single)
  | .triple => pure (some .double)
  | .quadruple => pure (some .triple)
  | .quintuple => pure (some .quadruple)
  | .aromatic | .dative | .zero | .other | .misc => throw .queryError

/-- `mapped_index[idx]`, and the atom must exist -/
def mapped (f : List Nat) (m : WMol) (i : Nat) : Except RunErr Nat :=
  match f[i]? with
  | some x => if x < m.natoms then pure x else throw .index
  | none => throw .index

/-- `transform(products, matches)` for one edit object -/
def applyEdit (f : List Nat) (m : WMol) : Edit → Except RunErr WMol
  | .bondForm i j k => do
    let x ← mapped f m i
    let y ← mapped f m j
    m.addBond x y k
  | .bondBreak i j old => do
    let x ← mapped f m i
    let y ← mapped f m j
    match m.kindBetween x y with
    | some k => if k == old then pure (m.removeBond x y) else throw .queryError
    | none => throw .queryError
  | .bondModify i j new old => do
    let x ← mapped f m i
    let y ← mapped f m j
    match m.kindBetween x y with
    | some k => if k == old then (m.removeBond x y).addBond x y new else throw .queryError
    | none => throw .queryError
  | .bondIncrease i j => do
    let x ← mapped f m i
    let y ← mapped f m j
    match m.kindBetween x y with
    | none => throw .attribute
    | some k => do
      let k' ← ladderUp k
      (m.removeBond x y).addBond x y k'
  | .bondDecrease i j => do
    let x ← mapped f m i
    let y ← mapped f m j
    match m.kindBetween x y with
    | none => throw .attribute
    | some k => do
      match ← ladderDown k with
      | none => pure (m.removeBond x y)
      | some k' => (m.removeBond x y).addBond x y k'
  | .radicalModify i r old => do
    let x ← mapped f m i
    match m.atoms[x]? with
    | some a => if a.radicals == old then pure (m.modifyAtom x fun a => { a with radicals := r }) else throw .queryError
    | none => throw .index
  | .radicalIncrease i => do
    let x ← mapped f m i
    pure (m.modifyAtom x fun a => { a with radicals := a.radicals + 1 })
  | .radicalDecrease i => do
    let x ← mapped f m i
    match m.atoms[x]? with
    | some a => if a.radicals == 0 then throw .overflow else pure (m.modifyAtom x fun a => { a with radicals := a.radicals - 1 })
    | none => throw .index
  | .chargeIncrease i => do
    let x ← mapped f m i
    pure (m.modifyAtom x fun a => { a with charge := a.charge + 1 })
  | .chargeDecrease i => do
    let x ← mapped f m i
    pure (m.modifyAtom x fun a => { a with charge := a.charge - 1 })
  | .atomTypeModify i r c => do
    let x ← mapped f m i
    pure (m.modifyAtom x fun a => { a with radicals := r, charge := c })

/-- `for transform in self.transformations: transform(products, matches)` -/
def applyEdits (f : List Nat) : WMol → List Edit → Except RunErr WMol
  | m, [] => pure m
  | m, e :: es => do applyEdits f (← applyEdit f m e) es

/-! ## Splitting the product into molecules (`Chem.GetMolFrags`) -/

/-- one pass over the bonds: both ends of a bond take the smaller of their two labels -/
def relax (bonds : List WBond) (lab : List Nat) : List Nat :=
  bonds.foldl (fun l e =>
    let mn := min (l.getD e.a e.a) (l.getD e.b e.b)
    (l.set e.a mn).set e.b mn) lab

/-- relaxation passes until nothing changes (at most `fuel` of them) -/
def relaxFix (bonds : List WBond) : Nat → List Nat → List Nat
  | 0, lab => lab
  | k+1, lab =>
    let lab' := relax bonds lab
    if lab' == lab then lab else relaxFix bonds k lab'

/-- component label of every atom: the smallest atom index of its component.  Every pass that changes something
lowers the sum of the labels, which starts below `natoms²`: the fuel is never used up (`compLabels_fixed`). -/
def compLabels (m : WMol) : List Nat := relaxFix m.bonds (m.natoms * m.natoms + 1) (List.range m.natoms)

/-- distinct values in order of first occurrence -/
def dedup : List Nat → List Nat
  | [] => []
  | x :: xs => x :: (dedup xs).filter (· != x)

/-- the atoms grouped by a labelling: one group per distinct label, in order of first occurrence, each in
ascending atom order -/
def groupsBy (lab : List Nat) : List (List Nat) :=
  (dedup lab).map fun r => (List.range lab.length).filter fun i => lab.getD i i == r

/-- `Chem.GetMolFrags(products)`: the atom index lists of the connected components, ordered by their smallest
atom, atoms ascending -/
def components (m : WMol) : List (List Nat) := groupsBy (compLabels m)

/-- the component labelling is a fixed point of the relaxation pass (then no bond joins two different product
molecules); reported by the driver for every product -/
def componentsClosed (m : WMol) : Bool := relax m.bonds (compLabels m) == compLabels m

/-! ## A rule -/

structure Rule where
  name : String
  query : Query
  edits : List Edit
  deriving Repr, Inhabited

/-- why reading a rule stops -/
inductive RuleErr where
  /-- `RINGReaderError` -/
  | reader
  /-- `NotImplementedError` -/
  | notImplemented
  /-- a tree the parser cannot produce -/
  | shape
  /-- another exception on a tree the parser can produce (from the fragment reader) -/
  | internal
  /-- not a unimolecular rule (several reactant blocks, `duplicates`, `group` reactants): outside this model -/
  | outOfScope
  deriving DecidableEq, Repr, Inhabited

def RuleErr.ofRead : ReadErr → RuleErr
  | .reader => .reader | .notImplemented => .notImplemented | .shape => .shape

/-- an edit statement as the tree gives it -/
inductive RawEdit where
  | form (bt : Option String) (l1 l2 : String)
  | brk (bt : Option String) (l1 l2 : String)
  | modify (l1 l2 bt : String)
  | increase (l1 l2 : String)
  | decrease (l1 l2 : String)
  | atomType (l : String) (ty : RawAtomType)
  | radSet (l : String) (n : Nat)
  | radInc (l : String)
  | radDec (l : String)
  | chgInc (l : String)
  | chgDec (l : String)
  deriving DecidableEq, Repr, Inhabited

structure RawRule where
  name : String
  /-- children of the single `ReactantQuery` node: `[Prefix, ReactantName, MolQuery]` -/
  reactant : List Ast
  hasConstraints : Bool
  edits : List RawEdit
  deriving Repr, Inhabited

namespace RawRule
open Ast

private def leaf1 : List Ast → Except RuleErr String
  | [.leaf t] => pure t
  | _ => throw .shape

def editOf : Ast → Except RuleErr RawEdit
  | .node "ConnectivityChange" [.node "BondForm" [.node "BondType" b, .node "AtomLabel" l1, .node "AtomLabel" l2]] => do
    pure (.form (some (← leaf1 b)) (← leaf1 l1) (← leaf1 l2))
  | .node "ConnectivityChange" [.node "BondForm" [.node "AtomLabel" l1, .node "AtomLabel" l2]] => do
    pure (.form none (← leaf1 l1) (← leaf1 l2))
  | .node "ConnectivityChange" [.node "BondBreak" [.node "BondType" b, .node "AtomLabel" l1, .node "AtomLabel" l2]] => do
    pure (.brk (some (← leaf1 b)) (← leaf1 l1) (← leaf1 l2))
  | .node "ConnectivityChange" [.node "BondBreak" [.node "AtomLabel" l1, .node "AtomLabel" l2]] => do
    pure (.brk none (← leaf1 l1) (← leaf1 l2))
  | .node "ConnectivityChange" [.node "BondModify" [.node "AtomLabel" l1, .node "AtomLabel" l2, .node "BondType" b]] => do
    pure (.modify (← leaf1 l1) (← leaf1 l2) (← leaf1 b))
  | .node "ConnectivityChange" [.node "BondIncrease" [.node "AtomLabel" l1, .node "AtomLabel" l2]] => do
    pure (.increase (← leaf1 l1) (← leaf1 l2))
  | .node "ConnectivityChange" [.node "BondDecrease" [.node "AtomLabel" l1, .node "AtomLabel" l2]] => do
    pure (.decrease (← leaf1 l1) (← leaf1 l2))
  | .node "ConnectivityChange" [.node "AtomTypeModify" [.node "AtomLabel" l, .node "AtomType" t]] => do
    match Frag.atomTypeOf t with
    | .ok ty => pure (.atomType (← leaf1 l) ty)
    | .error _ => throw .shape
  | .node "ConnectivityChange" [.node "RadicalModify" [.node "AtomLabel" l, .leaf d]] => do
    match natOfDigits d with
    | some n => pure (.radSet (← leaf1 l) n)
    | none => throw .shape
  | .node "ConnectivityChange" [.node "RadicalIncrease" [.node "AtomLabel" l]] => do pure (.radInc (← leaf1 l))
  | .node "ConnectivityChange" [.node "RadicalDecrease" [.node "AtomLabel" l]] => do pure (.radDec (← leaf1 l))
  | .node "ConnectivityChange" [.node "ChargeIncrease" [.node "AtomLabel" l]] => do pure (.chgInc (← leaf1 l))
  | .node "ConnectivityChange" [.node "ChargeDecrease" [.node "AtomLabel" l]] => do pure (.chgDec (← leaf1 l))
  | _ => throw .shape

/-- `[item, Chain[item, Chain[…]]]` → the items -/
def unchain (chain : String) : List Ast → Except RuleErr (List Ast)
  | [x] => pure [x]
  | [x, .node m rest] => if m == chain then do pure (x :: (← unchain chain rest)) else throw .shape
  | _ => throw .shape

/-- the `ReactionRule` node (or a whole `RINGInput` tree holding one) -/
def ofAst (t : Ast) : Except RuleErr RawRule := do
  let kids ← match t with
    | .node "RINGInput" [.node "ReactionRule" cs] => pure cs
    | .node "ReactionRule" cs => pure cs
    | _ => throw .shape
  match kids with
  | .node "ReactionName" nm :: .node "Reactants" rs :: rest => do
    let name ← leaf1 nm
    let reactant ← match rs with
      | [.node "ReactantQuery" cs] => pure cs
      | [.node "ReactantGroup" _] => throw .outOfScope
      | [.node "Duplicates" _] => throw .outOfScope
      | [.node _ _, .node "Reactants" _] => throw .outOfScope
      | _ => throw .shape
    match rest with
    | [.node "TransformationChain" tc] => do
      pure ⟨name, reactant, false, ← (← unchain "TransformationChain" tc).mapM editOf⟩
    | [.node "Constraints" _, .node "TransformationChain" _] => pure ⟨name, reactant, true, []⟩
    | _ => throw .shape
  | _ => throw .shape

end RawRule

/-! ## The reader (`ReactionQueryReader.Read`) -/
namespace ReadRule

/-- `ReadBondType`: the RDKit type and the balance (half electrons) -/
def bondType : String → Except RuleErr (BK × Int)
  | "single" => pure (.single, 2)
  | "double" => pure (.double, 4)
  | "triple" => pure (.triple, 6)
  | "quadruple" => pure (.quadruple, 8)
  | "aromatic" => pure (.aromatic, 3)
  | "partial" => pure (.dative, 0)
  | _ => throw .reader

/-- the optional `BondType` child of `form`/`break`: `SINGLE`, balance 1 when absent -/
def optBondType : Option String → Except RuleErr (BK × Int)
  | none => pure (.single, 2)
  | some w => bondType w

/-- `self.atom_names.index(label)` (also `reactantquery[name].atom_names.index(label)`: the same list for a
unimolecular rule); a missing label is a `RINGReaderError` -/
def lookup (q : Query) (l : String) : Except RuleErr Nat :=
  match (q.atoms.map (·.label)).idxOf? l with
  | some i => pure i
  | none => throw .reader

/-- the type of the reactant query's bond between two of its atoms: `none` = no bond, `some none` = a bond of type
`UNSPECIFIED` (the words `any`, `ring`, `nonring`, `strong`, `partial`) -/
def queryBond (q : Query) (i j : Nat) : Option (Option BK) :=
  (q.bonds.find? fun b => (b.i == i && b.j == j) || (b.i == j && b.j == i)).map fun b =>
    (Match.rdBondKind b.spec).map BK.ofKind

/-- the balance `ReadBondModify` assigns to the existing bond type -/
def existingBalance : BK → Except RuleErr Int
  | .single => pure 2 | .double => pure 4 | .triple => pure 6 | .quadruple => pure 8
  | .aromatic => pure 3 | .dative => pure 0
  | _ => throw .reader

/-- the radical count the pattern declares for an atom: the first non-negated `AtomRadical` constraint with
operator `=` among the atom's constraint objects (suffix first, then the chain) -/
def declaredRadical (qa : QAtom) : Option Nat :=
  let fromType := (Match.typeCons qa.ty).findSome? fun
    | .radical false ⟨.eq, n⟩ => some n
    | _ => none
  let fromChain := qa.chain.findSome? fun
    | .radical false ⟨.eq, n⟩ => some n
    | _ => none
  match fromType <|> fromChain with
  | some n => if n < 0 then none else some n.toNat
  | none => none

/-- reader state: the balance per label (half electrons) and the edits appended so far -/
structure St where
  balance : List Int
  edits : List Edit
  deriving Repr, Inhabited

def bump (s : St) (i : Nat) (d : Int) : St := { s with balance := s.balance.modify i (· + d) }
def push (s : St) (e : Edit) : St := { s with edits := s.edits ++ [e] }

/-- `ReadConnectivityChange` for one statement -/
def step (q : Query) (s : St) : RawEdit → Except RuleErr St
  | .form bt l1 l2 => do
    let (k, bal) ← optBondType bt
    let i ← lookup q l1
    let j ← lookup q l2
    pure (push (bump (bump s i (-bal)) j (-bal)) (.bondForm i j k))
  | .brk bt l1 l2 => do
    let (k, bal) ← optBondType bt
    let i ← lookup q l1
    let j ← lookup q l2
    match queryBond q i j with
    | none => throw .reader
    | some none => throw .reader
    | some (some k') =>
      if k' != k then throw .reader
      else pure (push (bump (bump s i bal) j bal) (.bondBreak i j k))
  | .modify l1 l2 bt => do
    let i ← lookup q l1
    let j ← lookup q l2
    match queryBond q i j with
    | none => throw .reader
    | some none => throw .reader
    | some (some old) => do
      let bal1 ← existingBalance old
      let (k, bal) ← bondType bt
      pure (push (bump (bump s i (-(bal - bal1))) j (-(bal - bal1))) (.bondModify i j k old))
  | .increase l1 l2 => do
    let i ← lookup q l1
    let j ← lookup q l2
    pure (push (bump (bump s i (-2)) j (-2)) (.bondIncrease i j))
  | .decrease l1 l2 => do
    let i ← lookup q l1
    let j ← lookup q l2
    pure (push (bump (bump s i 2) j 2) (.bondDecrease i j))
  | .atomType l _ => do
    let _ ← lookup q l
    -- prefix, unknown suffix, or `atom.GetSymbol() != symbol` (a query atom's symbol is `*`): always
    throw .notImplemented
  | .radSet l n => do
    let i ← lookup q l
    match q.atoms[i]? with
    | none => throw .reader
    | some qa =>
      match declaredRadical qa with
      | none => throw .reader
      | some old => pure (push (bump s i (-(2 * ((n : Int) - (old : Int))))) (.radicalModify i n old))
  | .radInc l => do
    let i ← lookup q l
    pure (push (bump s i (-2)) (.radicalIncrease i))
  | .radDec l => do
    let i ← lookup q l
    pure (push (bump s i 2) (.radicalDecrease i))
  | .chgInc l => do
    let i ← lookup q l
    pure (push (bump s i (-2)) (.chargeIncrease i))
  | .chgDec l => do
    let i ← lookup q l
    pure (push (bump s i 2) (.chargeDecrease i))

/-- `ReadTransformationChain` -/
def steps (q : Query) : St → List RawEdit → Except RuleErr St
  | s, [] => pure s
  | s, e :: es => do steps q (← step q s e) es

end ReadRule

/-- `ReactionQueryReader(tree).Read()` on the typed rule -/
def readRaw (r : RawRule) : Except RuleErr Rule := do
  let q ← match readFragment (.node "Fragment" r.reactant) with
    | .ok q => pure q
    | .error e => throw (RuleErr.ofRead e)
  if r.hasConstraints then throw .notImplemented
  let s ← ReadRule.steps q ⟨List.replicate q.atoms.length 0, []⟩ r.edits
  if s.balance.all (· == 0) then pure ⟨r.name, q, s.edits⟩ else throw .reader

/-- `Reader(Parser.parse(text)).Read()` from the parse tree on, for a reaction rule -/
def readRule (t : Ast) : Except RuleErr Rule := do
  readRaw (← RawRule.ofAst t)

/-! ## Running a rule (`ReactionQuery.RunReactants`) -/

/-- the products of one match: the edited molecule and its split into molecules -/
structure ProductSet where
  mol : WMol
  comps : List (List Nat)
  deriving Repr, Inhabited

/-- one match: copy, apply the edits on the mapped indices, split -/
def runMatch (r : Rule) (m : Mol) (f : List Nat) : Except RunErr ProductSet := do
  let p ← applyEdits f (WMol.ofMol m) r.edits
  pure ⟨p, components p⟩

/-- `RunReactants(mol)`: one product set per match of the reactant query, in match order; the first edit that
cannot be applied ends the whole call -/
def runReactants (r : Rule) (m : Mol) : Except RunErr (List ProductSet) :=
  (queryMatches r.query m).mapM (runMatch r m)

end PGA.Rxn
