import PGA.Model.Dec
/-! Records of the shipped databases as dumped by the translator (`harness/gen/libs.py`) from the
live loaded `GroupLibrary` objects, and the decidable well-formedness conditions of C14. -/
namespace PGA.LibTable
open PGA

/-- how a loaded reference value presents itself in the live object -/
inductive Val
  | absent                 -- `None`
  | num (d : Dec)          -- a plain Python number
  | notNumber (what : String)   -- anything else (e.g. a unit-carrying `Quantity`: defect F12)
  deriving DecidableEq, Repr

structure GroupRec where
  name : String
  hasThermo : Bool               -- the entry has a 'thermochem' property set
  tref : Val
  href : Val
  sref : Val
  cp : List (Dec × Val)          -- (T, Cp/R) in ascending T as the correlation holds them
  range : Option (Dec × Dec)
  deriving Repr

def Val.isNum : Val → Bool | .num _ => true | _ => false
def Val.okOrAbsent : Val → Bool | .notNumber _ => false | _ => true
def Val.rat? : Val → Option Rat | .num d => some d.toRat | _ => none

def strictlyIncreasing : List Rat → Bool
  | [] => true
  | [_] => true
  | a :: b :: rest => decide (a < b) && strictlyIncreasing (b :: rest)

/-- the valid range the correlation ends up with: the declared one, else the table span -/
def effRange (g : GroupRec) : Option (Rat × Rat) :=
  match g.range with
  | some (lo, hi) => some (lo.toRat, hi.toRat)
  | none =>
    match g.cp.map (fun p => p.1.toRat) with
    | [] => none
    | t :: ts => some ((t :: ts).foldl min t, (t :: ts).foldl max t)

/-- C14 self-consistency of one group record: plain-number values, a positive reference temperature,
a strictly increasing table, and (when there is a table) a positive valid range containing the table
and the reference temperature. -/
def wfGroup (g : GroupRec) : Bool :=
  g.hasThermo &&
  g.tref.isNum && g.href.okOrAbsent && g.sref.okOrAbsent &&
  g.cp.all (fun p => p.2.isNum) &&
  (match g.tref.rat? with
   | none => false
   | some tr =>
     decide (0 < tr) &&
     strictlyIncreasing (g.cp.map fun p => p.1.toRat) &&
     (match effRange g with
      | none => g.cp.isEmpty
      | some (lo, hi) =>
        decide (0 < lo) && decide (lo ≤ hi) &&
        (g.cp.isEmpty || (decide (lo ≤ tr) && decide (tr ≤ hi))) &&
        g.cp.all (fun p => decide (lo ≤ p.1.toRat) && decide (p.1.toRat ≤ hi))))

/-! ### remap rules -/
structure Remap where
  key : String
  targets : List (Val × String)     -- (coefficient, target name)
  deriving Repr

/-- well-formed: at least one target, every coefficient a plain number -/
def wfRemap (r : Remap) : Bool := !r.targets.isEmpty && r.targets.all fun t => t.1.isNum
/-- chain-free: no target of any rule is itself the key of a rule -/
def chainFree (rs : List Remap) : Bool :=
  rs.all fun r => r.targets.all fun t => !(rs.any fun r' => r'.key == t.2)
/-- keys are distinct -/
def keysDistinct : List String → Bool
  | [] => true
  | k :: ks => !ks.contains k && keysDistinct ks

/-! ### uncertainty block -/
def dotI : List Int → List Int → Int
  | a :: as, b :: bs => a * b + dotI as bs
  | _, _ => 0

def absI (x : Int) : Int := if x < 0 then -x else x

def ent (m : List (List Int)) (i j : Nat) : Int := (m.getD i []).getD j 0

def allN : Nat → (Nat → Bool) → Bool
  | 0, _ => true
  | n + 1, p => allN n p && p n

def sumZ : Nat → (Nat → Int) → Int
  | 0, _ => 0
  | n + 1, f => sumZ n f + f n

/-- `n` rows, each of length `n` -/
def squareSized (n : Nat) (m : List (List Int)) : Bool := m.length == n && m.all fun r => r.length == n

def symmetric (n : Nat) (m : List (List Int)) : Bool :=
  allN n fun i => allN n fun j => ent m i j == ent m j i

/-- entry (i,j) of `E = s·M − L·Lᵀ` -/
def eEnt (s : Int) (m l : List (List Int)) (i j : Nat) : Int :=
  ent m i j * s - dotI (l.getD i []) (l.getD j [])

/-- row `i` of `E` is diagonally dominant with non-negative diagonal -/
def rowOk (n : Nat) (s : Int) (m l : List (List Int)) (i : Nat) : Bool :=
  decide (sumZ n (fun j => if j = i then 0 else absI (eEnt s m l i j)) ≤ eEnt s m l i i)

/-- the PSD certificate: every row of `s·M − L·Lᵀ` is diagonally dominant -/
def certOk (n : Nat) (s : Int) (m l : List (List Int)) : Bool := allN n fun i => rowOk n s m l i

/-! ### the quadratic form (specification side of the PSD certificate) -/

def sumN : Nat → (Nat → Rat) → Rat
  | 0, _ => 0
  | n + 1, f => sumN n f + f n

/-- `xᵀ M x` over the first `n` coordinates, `M` given by integer rows -/
def quadForm (n : Nat) (m : List (List Int)) (x : Nat → Rat) : Rat :=
  sumN n fun i => sumN n fun j => x i * (ent m i j : Rat) * x j

end PGA.LibTable
