import PGA.Model.Thermo
import PGA.Model.Merge
/-!
# The correlation object as a state machine (`pgradd/ThermoChem/incomplete.py`, whole public API)

A `ThermochemIncomplete` / `ThermochemGroup` is a mutable object.  Its state is the `Thermo.Incomplete` of the C05/C06
model: the five held data (`ND_H_ref`, `ND_S_ref`, the dictionary `ND_Cp_data` in its insertion order, `T_ref`, `range`)
and the attribute `_correlation` — the table correlation built by `_setup_correlation()`, which carries its *own* copy of
the reference values, the sorted table, the range and the interpolant.  `_correlation` is the only thing the object
remembers beside its data; whether it still belongs to the data after a history of calls is what `Props/CorrHistory.lean`
is about.

* The getters are the ones of `PGA.Thermo` (`Incomplete.CpoR/HoRT/SoR/GoRT`), unchanged.
* `update` is the one of `PGA.Merge` (C13), not a second copy: the state is projected to `Merge.Obj` (`toObj`), `Merge.update`
  decides refusal / the merged data, and the table correlation is rebuilt from the merged data (`setup`).
  `update_refines` (Proofs) shows that the projection of the new state is exactly `Merge.update`'s result.
* The SciPy interpolant is a function of the (sorted) table: the parameter `S : List Pt → Interp` (`Spl`).  The translation
  of a reference value between two reference temperatures inside `update` (`Merge.RawEval`) is the C05 model evaluated
  with that interpolant (`rawEvalOf`).

The model follows the code after the repairs H1 (`del_ND_Cp()` stores `{}`), H2 (`del_ND_Cp(T)` validates before it
deletes) and H3 (`ThermochemBase.set_range` makes the constructor's assertion); the unrepaired methods are kept as
`delCpOld` / `setRangeOld` for the witnesses in `Props/CorrHistory.lean`.
-/
namespace PGA.CorrHistory
open PGA.Thermo PGA.Yaml

/-- the interpolant (SciPy spline, its integral, QUADPACK, `log`) as a function of the sorted table -/
abbrev Spl := List Pt → Interp

/-- exception classes escaping from the mutating methods -/
inductive Exc
  | readOnly     -- ReadOnlyDataError (update)
  | value        -- ValueError (table / T_ref outside the range; SciPy refusing a repeated temperature)
  | assertion    -- AssertionError (reversed range)
  | incomplete   -- IncompleteDataError (update: temporary correlation evaluated outside its range)
  | zeroDiv      -- ZeroDivisionError (update: reference temperature 0 K)
  | key          -- KeyError (`del self.ND_Cp_data[T]` with an absent `T`)
  | outside      -- OutsideCorrelationError (never escapes a constructor; kept so that `ofT` is total without a default)
  | internal     -- AttributeError on a missing `_correlation`
  deriving DecidableEq, Repr

def Exc.ofU : Merge.UErr → Exc
  | .readOnly => .readOnly | .value => .value | .assertion => .assertion | .incomplete => .incomplete | .zeroDiv => .zeroDiv

def Exc.ofT : Err → Exc
  | .value => .value | .assertion => .assertion | .outside => .outside | .incomplete => .incomplete
  | .nonfinite => .zeroDiv | .internal => .internal

/-- the held data of an object (what `copy()` passes to the constructor) -/
def held (o : Incomplete) : Merge.Corr := ⟨o.Href, o.Sref, o.cp, o.Tref, o.range⟩

/-- the C13 view of an object: held data and whether `_correlation` exists -/
def toObj (o : Incomplete) : Merge.Obj := ⟨held o, o.corr.isSome⟩

/-- `_setup_correlation()` (incomplete.py:74-83) on an object: `_correlation` is deleted, then rebuilt from the held data
when there is a table; when `ThermochemRawData` raises, the attribute stays deleted -/
def setup (S : Spl) (o : Incomplete) : Incomplete × Option Err :=
  match o.cp with
  | [] => ({ o with corr := none }, none)
  | _ :: _ =>
    match RawData.mk (S (sortPts o.cp)) (o.Href.getD 0) (o.Sref.getD 0) (sortPts o.cp) o.Tref o.range with
    | .ok d => ({ o with corr := some d }, none)
    | .error e => ({ o with corr := none }, some e)

/-- the constructor on held data, with the interpolant of that table -/
def construct (S : Spl) (c : Merge.Corr) : Except Err Incomplete :=
  Incomplete.mk (S (sortPts c.cp)) c.H c.S c.cp c.Tref c.range

/-- `ThermochemRawData.get_HoRT/get_SoR` of the temporary correlation of `update` (incomplete.py:262-291), away from its
reference temperature: the C05 model with the interpolant of the merged table.  (`Merge.getH/getS` consult it only after the
temporary correlation was constructed and the temperature was found inside its range.) -/
def rawEvalOf (S : Spl) : Merge.RawEval where
  H := fun h Tref cp range T =>
    match RawData.mk (S (sortPts cp)) h 0 (sortPts cp) Tref range with
    | .ok d => d.hNum T / T
    | .error _ => 0
  S := fun s Tref cp range T =>
    match RawData.mk (S (sortPts cp)) 0 s (sortPts cp) Tref range with
    | .ok d => d.sVal T
    | .error _ => 0

/-- `del d[k]` on a dictionary held as an association list -/
def derase (k : Rat) : List Pt → List Pt
  | [] => []
  | (k', v) :: l => if k' = k then l else (k', v) :: derase k l

inductive Getter
  | cp | h | s | g
  deriving DecidableEq, Repr

def getter (q : Getter) (o : Incomplete) (T : Rat) : Out :=
  match q with
  | .cp => o.CpoR T | .h => o.HoRT T | .s => o.SoR T | .g => o.GoRT T

/-- one call of the public API -/
inductive Op
  | update (d : Merge.Corr) (ow : Bool)   -- `self.update(other, overwrite)`; `d` = the data `other` holds
  | delCp (T : Option Rat)                -- `del_ND_Cp(T)` / `del_ND_Cp()`
  | delH                                  -- `del_ND_H_ref()`
  | delS                                  -- `del_ND_S_ref()`
  | setRange (r : Option Range)           -- `set_range(r)`
  | copy                                  -- `self = self.copy()`: the history goes on with the copy
  | eval (q : Getter) (T : Rat)           -- a getter

/-- what the call did: returned `None` / the copy, raised, or returned a value (with the warning flag) -/
inductive Res
  | done
  | raised (e : Exc)
  | value (o : Out)

/-- `update` (incomplete.py:198-334).  `Merge.update` decides; on refusal nothing was stored (the state *is* `self`, see
`C13_update_atomic`); otherwise the merged data are stored and `_setup_correlation()` runs on them. -/
def stepUpdate (S : Spl) (o : Incomplete) (d : Merge.Corr) (ow : Bool) : Incomplete × Res :=
  let r := Merge.update (rawEvalOf S) (toObj o) d ow
  match r.2 with
  | some e => (o, .raised (.ofU e))
  | none =>
    let c := r.1.c
    match setup S ⟨c.H, c.S, c.cp, c.Tref, c.range, none⟩ with
    | (o', none) => (o', .done)
    | (o', some e) => (o', .raised (.ofT e))

/-- `del_ND_Cp(T)` (incomplete.py:107-127, after H1/H2).  `T = None`: the table becomes `{}`.  Otherwise: `KeyError` from the
deletion on the copy, then the constructor on the remaining data (any exception leaves `self` untouched), then the deletion
and `_setup_correlation()`. -/
def stepDelCp (S : Spl) (o : Incomplete) : Option Rat → Incomplete × Res
  | none =>
    match setup S { o with cp := [] } with
    | (o', none) => (o', .done)
    | (o', some e) => (o', .raised (.ofT e))
  | some T =>
    match dlookup T o.cp with
    | none => (o, .raised .key)
    | some _ =>
      let rest := derase T o.cp
      match construct S ⟨o.Href, o.Sref, rest, o.Tref, o.range⟩ with
      | .error e => (o, .raised (.ofT e))
      | .ok _ =>
        match setup S { o with cp := rest } with
        | (o', none) => (o', .done)
        | (o', some e) => (o', .raised (.ofT e))

/-- `set_range(r)` (incomplete.py:137-148 over base.py `set_range`, after H3): the base-class assertion before anything is
stored; then the new range is stored and `_setup_correlation()` runs; when that raises, the previous range is stored again
(through the same assertion), `_setup_correlation()` runs again (an exception of *that* call would replace the first one) and the exception is re-raised -/
def stepSetRange (S : Spl) (o : Incomplete) (r : Option Range) : Incomplete × Res :=
  if baseInitOk r = false then (o, .raised .assertion)
  else
    match setup S { o with range := r } with
    | (o', none) => (o', .done)
    | (o1, some e) =>
      -- `ThermochemBase.set_range(self, previous)` asserts too (never fails for a range that was once accepted)
      if baseInitOk o.range = false then (o1, .raised .assertion)
      else
        match setup S o with
        | (o0, none) => (o0, .raised (.ofT e))
        | (o0, some e2) => (o0, .raised (.ofT e2))

/-- `copy()` (incomplete.py:199-209): the constructor on the held data; `self` is not touched -/
def stepCopy (S : Spl) (o : Incomplete) : Incomplete × Res :=
  match construct S (held o) with
  | .ok o' => (o', .done)
  | .error e => (o, .raised (.ofT e))

/-- one call: the state afterwards and what the call did -/
def step (S : Spl) (o : Incomplete) : Op → Incomplete × Res
  | .update d ow => stepUpdate S o d ow
  | .delCp T => stepDelCp S o T
  | .delH => ({ o with Href := none }, .done)      -- `self.ND_H_ref = None`; `_correlation` is not rebuilt
  | .delS => ({ o with Sref := none }, .done)
  | .setRange r => stepSetRange S o r
  | .copy => stepCopy S o
  | .eval q T => (o, .value (getter q o T))

/-- a history: the calls are made one after the other on the same object, the caller catching whatever is raised -/
def run (S : Spl) (o : Incomplete) : List Op → Incomplete
  | [] => o
  | op :: ops => run S (step S o op).1 ops

/-- the same, keeping what every call did and the state after it -/
def trace (S : Spl) (o : Incomplete) : List Op → List (Incomplete × Res)
  | [] => []
  | op :: ops => step S o op :: trace S (step S o op).1 ops

/-! ### the methods before the repairs (witnesses only) -/

/-- `del_ND_Cp(T)` before H2: the entry is deleted, `_correlation` is deleted, then `ThermochemRawData` may raise.
(`del_ND_Cp()` before H1 stored `None`, which has no counterpart in the state type: `copy()`/`update()` of that object raise
`AttributeError`; the witness is a corpus record.) -/
def delCpOld (S : Spl) (o : Incomplete) (T : Rat) : Incomplete × Res :=
  match dlookup T o.cp with
  | none => (o, .raised .key)
  | some _ =>
    match setup S { o with cp := derase T o.cp } with
    | (o', none) => (o', .done)
    | (o', some e) => (o', .raised (.ofT e))

/-- `set_range(r)` before H3: no assertion -/
def setRangeOld (S : Spl) (o : Incomplete) (r : Option Range) : Incomplete × Res :=
  match setup S { o with range := r } with
  | (o', none) => (o', .done)
  | (_, some e) =>
    match setup S o with
    | (o0, none) => (o0, .raised (.ofT e))
    | (o0, some e2) => (o0, .raised (.ofT e2))

end PGA.CorrHistory
