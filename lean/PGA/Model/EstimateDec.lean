/-! Decimal literals as emitted by the translator (`lean_dec`): the exact decimal rational of the
shortest round-trip `repr` of a Python float (DESIGN 2.3).  Consumed by `PGA.Gen.Pmutt`, `PGA.Gen.Uq`. -/
namespace PGA.Estimate

/-- `man · 10^exp` -/
structure Dec where
  man : Int
  exp : Int
  deriving DecidableEq, Repr, Inhabited

/-- `m · 10^(-e)` / `m · 10^e`: the spelling the uncertainty-matrix translator emits (elaborates faster than `⟨m, -e⟩`) -/
def dn (m : Int) (e : Nat) : Dec := ⟨m, -(e : Int)⟩
def dp (m : Int) (e : Nat) : Dec := ⟨m, (e : Int)⟩

def pow10 (n : Nat) : Rat := ((10 ^ n : Nat) : Rat)

def Dec.toRat (d : Dec) : Rat :=
  if 0 ≤ d.exp then (d.man : Rat) * pow10 d.exp.toNat else (d.man : Rat) / pow10 (-d.exp).toNat

end PGA.Estimate
