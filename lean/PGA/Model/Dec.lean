/-! Decimal literals as they come out of the translator: the exact decimal rational of the
shortest round-trip `repr` of a Python float (DESIGN 2.3). -/
namespace PGA

structure Dec where
  m : Int
  e : Int
  deriving DecidableEq, Repr

namespace Dec
def toRat (d : Dec) : Rat :=
  if 0 ≤ d.e then (d.m : Rat) * ((10 : Rat) ^ d.e.toNat) else (d.m : Rat) / ((10 : Rat) ^ (-d.e).toNat)

/-- integer value of `d · 10^k` when that is an integer (used by kernel-checked certificates) -/
def scaled (d : Dec) (k : Nat) : Option Int :=
  let s := d.e + k
  if 0 ≤ s then some (d.m * (10 : Int) ^ s.toNat) else
    let p := (10 : Int) ^ (-s).toNat
    if d.m % p = 0 then some (d.m / p) else none
end Dec
end PGA
