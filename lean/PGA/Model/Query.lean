import PGA.Model.Ast
import PGA.Model.Chars
import PGA.Gen.MolQuery
/-! # RING fragment queries and the AST → query reader

Model of `pgradd/RINGParser/MolQueryRead.py` (`MolQueryReader`).  A `Query` keeps the fragment in
its *declared* form (element class, prefix, suffix, constraint chain per labelled atom; declared
bonds with their RING bond word; molecule prefixes; stereo statements) with labels resolved to
declaration indices.  How the implementation splits this between an RDKit query molecule and its
own constraint objects is modelled in `PGA/Model/Match.lean`.

`readFragment : Ast → Except ReadErr Query` follows the reader on every tree the parser can
produce (the grammar of `Grammar.py`).  On trees the parser cannot produce (a node of the wrong
name or arity where the Python has an `assert`) it answers `ReadErr.shape`.  Error outcomes:
`reader` = `RINGReaderError`, `notImplemented` = `NotImplementedError`.  There is no outcome for a
non-RING exception on a tree the parser can produce: the only one the reader had (`TypeError` from the
dead duplicate-label guard, finding FM2) was repaired in the repository (guard removed).
A label declared twice is accepted and later references go to its first declaration, as in the code
(shipped scheme files rely on it); the label text plays no part in reading beyond equality of labels.
-/
namespace PGA

/-- the comparison operators of `MolQuery.ops` -/
inductive CmpOp where
  | gt | lt | ge | le | eq
  deriving DecidableEq, Repr, Inhabited

/-- `ConstraintNumber`: an operator and a number -/
structure CN where
  op : CmpOp
  n : Int
  deriving DecidableEq, Repr, Inhabited

/-- what `ReadSymbols` makes of the symbol -/
inductive ElemClass where
  /-- `$`, `any atom` -/
  | any
  /-- `&`, `heteroatom` -/
  | hetero
  /-- `X`, `heavy atom` -/
  | heavy
  /-- `M` -/
  | metal
  /-- an element symbol -/
  | elem (z : Nat)
  /-- a lower-case (aromatic) element symbol -/
  | aromElem (z : Nat)
  deriving DecidableEq, Repr, Inhabited

/-- the atom suffix; `none` = no suffix written, `free` = `?` -/
inductive Suffix where
  | none | plus | minus | rad1 | rad2 | rad3 | plusRad | minusRad | star | free
  deriving DecidableEq, Repr, Inhabited

inductive APrefix where
  | aromatic | nonaromatic | ringatom | nonringatom | allylic
  deriving DecidableEq, Repr, Inhabited

/-- the RING bond words -/
inductive BondSpec where
  | single | double | triple | quadruple | aromatic | any | ring | nonring | strong | part
  deriving DecidableEq, Repr, Inhabited

structure AtomType where
  pre : Option APrefix
  cls : ElemClass
  suf : Suffix
  deriving DecidableEq, Repr, Inhabited

/-- one item of an atom's constraint chain -/
inductive ACons where
  /-- `[!] connected to [cn] <atomtype> [with <bond> bond]` -/
  | conn (neg : Bool) (cn : CN) (ty : AtomType) (bond : BondSpec)
  /-- `[!] in ring of size <cn>` -/
  | ringSize (neg : Bool) (cn : CN)
  /-- `[!] has <cn> radical electrons` -/
  | radical (neg : Bool) (cn : CN)
  /-- `[!] in <cn> ring` -/
  | nRing (neg : Bool) (cn : CN)
  deriving DecidableEq, Repr, Inhabited

structure QAtom where
  label : String
  ty : AtomType
  chain : List ACons
  deriving DecidableEq, Repr, Inhabited

structure QBond where
  i : Nat
  j : Nat
  spec : BondSpec
  deriving DecidableEq, Repr, Inhabited

inductive MolPrefix where
  | positive | negative | neutral | aromatic | olefinic | paraffinic | cyclic | linear
  deriving DecidableEq, Repr, Inhabited

inductive StereoKind where
  | cis | trans | notspecified
  deriving DecidableEq, Repr, Inhabited

/-- `stereo double bond i1 [!] kind to i2 for double bond between i3 and i4` -/
structure QStereo where
  i1 : Nat
  i2 : Nat
  i3 : Nat
  i4 : Nat
  neg : Bool
  kind : StereoKind
  deriving DecidableEq, Repr, Inhabited

structure Query where
  name : String
  molPre : List MolPrefix
  atoms : List QAtom
  bonds : List QBond
  stereo : List QStereo
  deriving DecidableEq, Repr, Inhabited

namespace Query
/-- every bond and stereo statement refers to declared atoms -/
def wf (q : Query) : Bool :=
  q.bonds.all (fun b => b.i < q.atoms.length && b.j < q.atoms.length) &&
  q.stereo.all (fun s => s.i1 < q.atoms.length && s.i2 < q.atoms.length &&
                         s.i3 < q.atoms.length && s.i4 < q.atoms.length)

/-- the same query with other label names -/
def relabel (σ : String → String) (q : Query) : Query :=
  { q with atoms := q.atoms.map fun a => { a with label := σ a.label } }
end Query

inductive ReadErr where
  /-- `RINGReaderError` -/
  | reader
  /-- `NotImplementedError` -/
  | notImplemented
  /-- a tree the parser cannot produce (Python: failed `assert`, `IndexError`, …) -/
  | shape
  deriving DecidableEq, Repr, Inhabited

/-! ## Typed shape of a `Fragment` tree -/

structure RawAtomType where
  pre : Option String
  sym : String
  suf : Option String
  deriving DecidableEq, Repr, Inhabited

/-- a `ConstraintNumber` node: optional operator text and the digit -/
structure RawCN where
  op : Option String
  n : Nat
  deriving DecidableEq, Repr, Inhabited

inductive RawTarget where
  | atomType (t : RawAtomType)
  | group (name : String)
  deriving DecidableEq, Repr, Inhabited

inductive RawCons where
  | conn (bool : Option String) (cn : Option RawCN) (target : RawTarget) (bond : Option String)
  | ringSize (bool : Option String) (cn : RawCN)
  | radical (bool : Option String) (cn : RawCN)
  | nRing (bool : Option String) (cn : RawCN)
  deriving DecidableEq, Repr, Inhabited

inductive RawItem where
  | bonded (ty : RawAtomType) (label : String) (bond : String) (to : String) (chain : List RawCons)
  | ringBond (l1 : String) (bond : String) (l2 : String)
  | stereo (l1 : String) (bool : Option String) (kind : String) (l2 l3 l4 : String)
  deriving DecidableEq, Repr, Inhabited

structure Frag where
  pre : List String
  name : String
  ty0 : RawAtomType
  label0 : String
  chain0 : List RawCons
  items : List RawItem
  deriving DecidableEq, Repr, Inhabited

namespace Frag
open Ast

private def leaf1 : List Ast → Except ReadErr String
  | [.leaf t] => pure t
  | _ => throw .shape

private def named (n : String) : Ast → Except ReadErr (List Ast)
  | .node m cs => if m == n then pure cs else throw .shape
  | .leaf _ => throw .shape

private def leaves : List Ast → Except ReadErr (List String)
  | [] => pure []
  | .leaf t :: r => do pure (t :: (← leaves r))
  | .node _ _ :: _ => throw .shape

def atomTypeOf (cs : List Ast) : Except ReadErr RawAtomType := do
  let (pre, rest) ← match cs with
    | .node "AtomPrefix" p :: r => do pure (some (← leaf1 p), r)
    | r => pure (none, r)
  match rest with
  | [.node "Symbols" s] => pure ⟨pre, ← leaf1 s, none⟩
  | [.node "Symbols" s, .node "AtomSuffix" x] => pure ⟨pre, ← leaf1 s, some (← leaf1 x)⟩
  | _ => throw .shape

def cnOf : List Ast → Except ReadErr RawCN
  | [.leaf o, .leaf d] => match natOfDigits d with
    | some n => pure ⟨some o, n⟩
    | none => throw .shape
  | [.leaf d] => match natOfDigits d with
    | some n => pure ⟨none, n⟩
    | none => throw .shape
  | _ => throw .shape

private def boolOf : List Ast → Except ReadErr (Option String × List Ast)
  | .node "Boolean" b :: r => do pure (some (← leaf1 b), r)
  | r => pure (none, r)

def consOf : Ast → Except ReadErr RawCons
  | .node "AtomConstraints" [.node "AtomConstraintConnectivity" cs] => do
    let (b, r) ← boolOf cs
    let (cn, r) ← match r with
      | .node "ConstraintNumber" c :: r' => do pure (some (← cnOf c), r')
      | r' => pure (none, r')
    let (tgt, r) ← match r with
      | .node "AtomType" t :: r' => do pure (RawTarget.atomType (← atomTypeOf t), r')
      | .node "GroupName" g :: r' => do pure (RawTarget.group (← leaf1 g), r')
      | _ => throw .shape
    match r with
    | [] => pure (.conn b cn tgt none)
    | [.node "BondType" bt] => do pure (.conn b cn tgt (some (← leaf1 bt)))
    | _ => throw .shape
  | .node "AtomConstraints" [.node "AtomConstraintRing" cs] => do
    let (b, r) ← boolOf cs
    match r with
    | [.node "ConstraintNumber" c] => do pure (.ringSize b (← cnOf c))
    | _ => throw .shape
  | .node "AtomConstraints" [.node "AtomConstraintRadical" cs] => do
    let (b, r) ← boolOf cs
    match r with
    | [.node "ConstraintNumber" c] => do pure (.radical b (← cnOf c))
    | _ => throw .shape
  | .node "AtomConstraints" [.node "AtomConstraintNRing" cs] => do
    let (b, r) ← boolOf cs
    match r with
    | [.node "ConstraintNumber" c] => do pure (.nRing b (← cnOf c))
    | _ => throw .shape
  | _ => throw .shape

/-- `[item, Chain[item, Chain[…]]]` → the items, for a chain rule called `chain` -/
def unchain (chain : String) : List Ast → Except ReadErr (List Ast)
  | [x] => pure [x]
  | [x, .node m rest] => if m == chain then do pure (x :: (← unchain chain rest)) else throw .shape
  | _ => throw .shape

def chainOf : List Ast → Except ReadErr (List RawCons)
  | [] => pure []
  | [.node "AtomConstraintChain" cs] => do (← unchain "AtomConstraintChain" cs).mapM consOf
  | _ => throw .shape

def itemOf : Ast → Except ReadErr RawItem
  | .node "BondedAtom" (.node "AtomType" t :: .node "AtomLabel" l :: .node "BondType" b ::
      .node "AtomLabel" l2 :: rest) => do
    pure (.bonded (← atomTypeOf t) (← leaf1 l) (← leaf1 b) (← leaf1 l2) (← chainOf rest))
  | .node "RingBond" [.node "AtomLabel" l1, .node "BondType" b, .node "AtomLabel" l2] => do
    pure (.ringBond (← leaf1 l1) (← leaf1 b) (← leaf1 l2))
  | .node "StereoDoubleBond" (.node "AtomLabel" l1 :: rest) => do
    let (b, r) ← boolOf rest
    match r with
    | [.node "DoubleBondStereoType" k, .node "AtomLabel" l2, .node "AtomLabel" l3, .node "AtomLabel" l4] => do
      pure (.stereo (← leaf1 l1) b (← leaf1 k) (← leaf1 l2) (← leaf1 l3) (← leaf1 l4))
    | _ => throw .shape
  | _ => throw .shape

/-- the `Fragment` node (or a whole `RINGInput` tree holding one) as a typed fragment -/
def ofAst (t : Ast) : Except ReadErr Frag := do
  let frag ← match t with
    | .node "RINGInput" [.node "Fragment" cs] => pure cs
    | .node "Fragment" cs => pure cs
    | _ => throw .shape
  match frag with
  | [.node "Prefix" p, .node nn nm, .node "MolQuery" mq] => do
    if !(nn == "FragmentName" || nn == "ReactantName" || nn == "GroupName") then throw .shape
    let pre ← leaves p
    let name ← leaf1 nm
    let (atom, chain) ← match mq with
      | [.node "Atom" a] => pure (a, [])
      | [.node "Atom" a, .node "AtomChain" c] => do pure (a, ← unchain "AtomChain" c)
      | _ => throw .shape
    match atom with
    | .node "AtomType" ty :: .node "AtomLabel" l :: rest => do
      pure ⟨pre, name, ← atomTypeOf ty, ← leaf1 l, ← chainOf rest, ← chain.mapM itemOf⟩
    | _ => throw .shape
  | _ => throw .shape

/-- the same fragment with every atom label renamed -/
def rename (σ : String → String) (f : Frag) : Frag :=
  { f with
    label0 := σ f.label0
    items := f.items.map fun
      | .bonded ty l b l2 ch => .bonded ty (σ l) b (σ l2) ch
      | .ringBond l1 b l2 => .ringBond (σ l1) b (σ l2)
      | .stereo l1 bo k l2 l3 l4 => .stereo (σ l1) bo k (σ l2) (σ l3) (σ l4) }

end Frag

/-! ## The reader proper -/
namespace Read

def cmpOpOf : String → Option CmpOp
  | ">" => some .gt | "<" => some .lt | ">=" => some .ge | "<=" => some .le | "=" => some .eq
  | _ => none

/-- `ConstraintNumber(tree[i][1:])` -/
def cn (r : RawCN) : Except ReadErr CN :=
  match r.op with
  | none => pure ⟨.eq, r.n⟩
  | some o => match cmpOpOf o with
    | some op => pure ⟨op, r.n⟩
    | none => throw .shape

/-- the optional `Boolean` child: only `!` is supported -/
def negOf : Option String → Except ReadErr Bool
  | none => pure false
  | some "!" => pure true
  | some _ => throw .notImplemented

/-- `BondQuery(name)` / `ReadBondTypeBondedAtom` -/
def bondSpec : String → Except ReadErr BondSpec
  | "single" => pure .single | "double" => pure .double | "triple" => pure .triple
  | "quadruple" => pure .quadruple | "aromatic" => pure .aromatic | "any" => pure .any
  | "ring" => pure .ring | "nonring" => pure .nonring | "strong" => pure .strong
  | "partial" => pure .part
  | _ => throw .notImplemented

/-- `Chem.Atom(symbol).GetAtomicNum()` from the generated element table -/
def elementZ (s : String) : Option Nat := (PGA.Gen.MolQuery.elements.find? (·.1 == s)).map (·.2)

def isLowerChar (c : Char) : Bool := PGA.Chars.inRanges PGA.Gen.Chars.islowerRanges c

/-- `ReadSymbols` -/
def symbols (s : String) : Except ReadErr ElemClass :=
  if s == "any atom" || s == "$" then pure .any
  else if s == "heteroatom" || s == "&" then pure .hetero
  else if s == "heavy atom" || s == "X" then pure .heavy
  else match s.toList with
    | [] => throw .shape
    | c :: cs =>
      if isLowerChar c then
        match elementZ (String.ofList (c.toUpper :: cs)) with
        | some z => pure (.aromElem z)
        | none => throw .reader
      else if s == "M" then pure .metal
      else match elementZ s with
        | some z => pure (.elem z)
        | none => throw .reader

/-- `ReadAtomSuffix` / the no-suffix default of `ReadAtomType` -/
def suffix : Option String → Except ReadErr Suffix
  | none => pure .none
  | some "+." => pure .plusRad | some "-." => pure .minusRad
  | some "+" => pure .plus | some "-" => pure .minus
  | some "." => pure .rad1 | some ":" => pure .rad2 | some ":." => pure .rad3
  | some "*" => pure .star | some "?" => pure .free
  | some _ => throw .notImplemented

/-- `ReadAtomPrefix` -/
def aprefix : Option String → Except ReadErr (Option APrefix)
  | none => pure none
  | some "aromatic" => pure (some .aromatic) | some "nonaromatic" => pure (some .nonaromatic)
  | some "ringatom" => pure (some .ringatom) | some "nonringatom" => pure (some .nonringatom)
  | some "allylic" => pure (some .allylic)
  | some _ => throw .shape

/-- `ReadAtomType`: prefix, then symbol, then suffix -/
def atomType (r : RawAtomType) : Except ReadErr AtomType := do
  let p ← aprefix r.pre
  let c ← symbols r.sym
  let s ← suffix r.suf
  pure ⟨p, c, s⟩

/-- `ReadAtomConstraints` (defaults: `>=1`, `single` bond) -/
def cons : RawCons → Except ReadErr ACons
  | .conn b c tgt bd => do
    let neg ← negOf b
    let cn' ← match c with
      | some c => cn c
      | none => pure ⟨.ge, 1⟩
    match tgt with
    | .group _ => throw .reader
    | .atomType t => do
      let ty ← atomType t
      let bs ← match bd with
        | some x => bondSpec x
        | none => pure .single
      pure (.conn neg cn' ty bs)
  | .ringSize b c => do pure (.ringSize (← negOf b) (← cn c))
  | .radical b c => do pure (.radical (← negOf b) (← cn c))
  | .nRing b c => do pure (.nRing (← negOf b) (← cn c))

/-- `ReadMolQueryPrefix` -/
def molPrefix (t : List String) : Except ReadErr (List MolPrefix) :=
  let (c1, t1) := match t with
    | "positive" :: r => ([MolPrefix.positive], r)
    | "negative" :: r => ([MolPrefix.negative], r)
    | "neutral" :: r => ([MolPrefix.neutral], r)
    | r => ([], r)
  let (c2, t2) := match t1 with
    | "aromatic" :: r => ([MolPrefix.aromatic], r)
    | "olefinic" :: r => ([MolPrefix.olefinic], r)
    | "paraffinic" :: r => ([MolPrefix.paraffinic], r)
    | r => ([], r)
  match t2 with
  | [] => pure (c1 ++ c2)
  | "cyclic" :: _ => pure (c1 ++ c2 ++ [.cyclic])
  | "linear" :: _ => pure (c1 ++ c2 ++ [.linear])
  | _ => throw .notImplemented

/-- `atom_names.index(label)`; a missing label is a `RINGReaderError` -/
def lookup (names : List String) (l : String) : Except ReadErr Nat :=
  match names.idxOf? l with
  | some i => pure i
  | none => throw .reader

structure St where
  names : List String
  atoms : List QAtom
  bonds : List QBond
  stereo : List QStereo
  deriving Repr, Inhabited

/-- `mol.AddBond(i, j, …)`: RDKit refuses a self-bond and a second bond between the same atoms -/
def addBond (st : St) (i j : Nat) (s : BondSpec) : Except ReadErr St :=
  if i == j then throw .reader
  else if st.bonds.any (fun b => (b.i == i && b.j == j) || (b.i == j && b.j == i)) then throw .reader
  else pure { st with bonds := st.bonds ++ [⟨i, j, s⟩] }

def stereoKind : String → Except ReadErr StereoKind
  | "cis" => pure .cis | "trans" => pure .trans | "notspecified" => pure .notspecified
  | _ => throw .notImplemented

def hasBond (st : St) (i j : Nat) : Bool :=
  st.bonds.any (fun b => (b.i == i && b.j == j) || (b.i == j && b.j == i))

/-- one `AtomChain` item -/
def step (st : St) : RawItem → Except ReadErr St
  | .bonded ty l b to ch => do
    let t ← atomType ty
    -- no duplicate-label guard (the dead one that compared the token name was removed, FM2): a label may be
    -- declared again, references resolve to the first declaration (`atom_names.index`)
    let idx := st.atoms.length
    let names := st.names ++ [l]
    let j ← lookup names to
    let bs ← bondSpec b
    let st' ← addBond { st with names := names, atoms := st.atoms ++ [⟨l, t, []⟩] } idx j bs
    let chain ← ch.mapM cons
    pure { st' with atoms := st.atoms ++ [⟨l, t, chain⟩] }
  | .ringBond l1 b l2 => do
    let i ← lookup st.names l1
    let j ← lookup st.names l2
    let bs ← bondSpec b
    addBond st i j bs
  | .stereo l1 bo k l2 l3 l4 => do
    let i1 ← lookup st.names l1
    let neg ← negOf bo
    let kind ← stereoKind k
    let i2 ← lookup st.names l2
    let i3 ← lookup st.names l3
    let i4 ← lookup st.names l4
    -- the bond between i3 and i4 must be declared `double`
    match st.bonds.find? (fun b => (b.i == i3 && b.j == i4) || (b.i == i4 && b.j == i3)) with
    | none => throw .reader
    | some d =>
      if d.spec != .double then throw .reader else
      let b13 := hasBond st i1 i3; let b14 := hasBond st i1 i4
      let b23 := hasBond st i2 i3; let b24 := hasBond st i2 i4
      if (b13 && b23) || (b14 && b24) then throw .reader
      else if !b13 && !b14 then throw .reader
      else if !b23 && !b24 then throw .reader
      else pure { st with stereo := st.stereo ++ [⟨i1, i2, i3, i4, neg, kind⟩] }

def items (st : St) : List RawItem → Except ReadErr St
  | [] => pure st
  | it :: r => do items (← step st it) r

/-- `MolQueryReader.Read` on the typed fragment -/
def frag (f : Frag) : Except ReadErr Query := do
  let mp ← molPrefix f.pre
  let t ← atomType f.ty0
  let chain ← f.chain0.mapM cons
  let st ← items ⟨[f.label0], [⟨f.label0, t, chain⟩], [], []⟩ f.items
  pure ⟨f.name, mp, st.atoms, st.bonds, st.stereo⟩

end Read

/-- `Reader(Parser.parse(text)).Read()` from the parse tree on, for a fragment -/
def readFragment (t : Ast) : Except ReadErr Query := do
  Read.frag (← Frag.ofAst t)

end PGA
