import PGA.Model.EstimateDec
/-!
# Model of `GroupLibrary.Estimate`, `ThermochemGroupAdditive` and the dimensional getters

Mirrors, as they are (after the `fix:` commits for F1 and F15):

* `pgradd/GroupAdd/Library.py`: `GroupLibrary.__getitem__` (`contents.get(group, {})`), `Estimate`
  (invalid property-set name → `KeyError`; missing-data check in mapping order; estimator construction);
* `pgradd/ThermoChem/group_data.py`: `ThermochemGroupAdditive.__init__` (the `(correlation, count)` list,
  range intersection and its `assert`, the uncertainty block: `list.index`, placement `xp[i] = count`,
  `xpᵀ·M·xp`), `get_CpoR/get_HoRT/get_SoR` (`sum(count*correlation.get_X(T))`, first error wins),
  `get_Selements`, `get_*_SE`;
* `pgradd/ThermoChem/base.py`: `get_GoRT`, `get_H`, `get_G`, `get_S`, `get_Cp`.

Numbers are exact rationals (DESIGN 2.3).  What a *group's own* correlation returns at a temperature is data
of the model (`Corr`): a value or an error class.  `N` is the type of descriptor names (groups compare by
canonical name, C19), `S` the type of property-set names.
-/
namespace PGA.Estimate

/-- Error classes of property evaluation (what `get_X` can raise). -/
inductive Err where
  /-- `IncompleteDataError` (the group lacks that datum, or `T` is outside its heat-capacity table) -/
  | incomplete
  /-- `UnitsError`/`TypeError` caused by a reference value that was loaded as a unit-carrying `Quantity` (defect F12) -/
  | unitsF12
  /-- any other exception escaping a group correlation -/
  | internal
  /-- protocol guard of the driver: the harness did not supply this value (the model must never ask for it) -/
  | notSupplied
  /-- `KeyError` from `pmutt.constants.R(units)` -/
  | badUnits
  /-- the name stored at decomposition is not a molecule (`MolFromSmiles` gives nothing) -/
  | noMolecule
  /-- `KeyError` from `pmutt.constants.S_elements[Z]` -/
  | noElement (z : Nat)
  /-- `AttributeError`: the estimate carries no RMSE correlation (library without uncertainty data) -/
  | noUQ
  deriving DecidableEq, Repr, Inhabited

abbrev Val := Except Err Rat

/-- A group's own correlation, as far as `Estimate` sees it. -/
structure Corr where
  cp : Rat → Val
  hort : Rat → Val
  sor : Rat → Val
  range : Option (Rat × Rat)

/-- The uncertainty block of a library (`uq_contents`). -/
structure UQ (N : Type) where
  rmse : Corr
  basis : List N
  mat : List (List Rat)
  dof : Int

/-- A group library: `contents` (a dict, in insertion order), `uq_contents` (`none` = falsy `{}`), and
`name`: the atoms (atomic numbers, explicit hydrogens included) of the molecule last handed to
`GetDescriptors`, `none` when there is none. -/
structure Library (N S : Type) where
  contents : List (N × List (S × Corr))
  uq : Option (UQ N)
  name : Option (List Nat)

/-- Outcomes of `GroupLibrary.Estimate` other than an estimate. -/
inductive EstErr (N : Type) where
  /-- `KeyError('Invalid property_set name')` -/
  | invalidSet
  /-- `GroupMissingDataError(groups, set)` -/
  | missing (groups : List N)
  /-- `KeyError` from `lib[group]['thermochem']` in the estimator (unreachable after the check; proved) -/
  | keyError
  /-- `ValueError` from `list.index`: descriptor outside the uncertainty basis -/
  | notInBasis (g : N)
  /-- `ValueError` from `np.dot`: matrix shape does not match the basis -/
  | shape
  /-- `AssertionError`: the ranges of the constituents do not intersect -/
  | emptyRange
  deriving DecidableEq, Repr

section
variable {N S : Type} [DecidableEq N] [DecidableEq S]

/-- `GroupLibrary.__getitem__`: `self.contents.get(group, {})` -/
def Library.getItem (lib : Library N S) (g : N) : List (S × Corr) :=
  match lib.contents.lookup g with
  | some ps => ps
  | none => []

/-- `property_set_name in self[group]` -/
def Library.hasSet (lib : Library N S) (s : S) (g : N) : Bool :=
  ((lib.getItem g).lookup s).isSome

/-- `[group for group in groups if property_set_name not in self[group]]` -/
def missingGroups (lib : Library N S) (s : S) (groups : List (N × Rat)) : List N :=
  (groups.filter (fun g => !lib.hasSet s g.1)).map (·.1)

/-- first loop of `ThermochemGroupAdditive.__init__`: `self.correlations.append((lib[group][set], count))` -/
def collect (lib : Library N S) (s : S) : List (N × Rat) → Except (EstErr N) (List (Corr × Rat))
  | [] => .ok []
  | (g, n) :: rest =>
    match (lib.getItem g).lookup s with
    | none => .error .keyError
    | some c =>
      match collect lib s rest with
      | .error e => .error e
      | .ok cs => .ok ((c, n) :: cs)

/-- Python `max(a, b)` / `min(a, b)` on numbers -/
def pyMax (a b : Rat) : Rat := if a < b then b else a
def pyMin (a b : Rat) : Rat := if b < a then b else a

/-- one step of the range intersection in `__init__` -/
def interRange (acc : Option (Rat × Rat)) (r : Option (Rat × Rat)) : Option (Rat × Rat) :=
  match r, acc with
  | none, _ => acc
  | some r, none => some r
  | some (a, b), some (lo, hi) => some (pyMax lo a, pyMin hi b)

def commonRange (cs : List (Corr × Rat)) : Option (Rat × Rat) :=
  cs.foldl (fun acc c => interRange acc c.1.range) none

/-! ### the uncertainty block -/

def zeros (n : Nat) : List Rat := List.replicate n 0

/-- second loop: `i = basis.index(group); xp[i] = count` (assignment, in mapping order) -/
def placeX (basis : List N) : List (N × Rat) → List Rat → Except (EstErr N) (List Rat)
  | [], x => .ok x
  | (g, n) :: rest, x =>
    match basis.idxOf? g with
    | none => .error (.notInBasis g)
    | some i => placeX basis rest (x.set i n)

def vadd : List Rat → List Rat → List Rat
  | a :: as, b :: bs => (a + b) :: vadd as bs
  | _, _ => []

def dot : List Rat → List Rat → Rat
  | a :: as, b :: bs => a * b + dot as bs
  | _, _ => 0

/-- `np.dot(xpᵀ, M)` for `M` given by rows: `Σ_i x_i · row_i` -/
def vecMat (n : Nat) : List Rat → List (List Rat) → List Rat
  | x :: xs, row :: rows => vadd (row.map (x * ·)) (vecMat n xs rows)
  | _, _ => zeros n

/-- `np.dot(np.dot(xpᵀ, M), xp)` -/
def quad (x : List Rat) (M : List (List Rat)) : Rat := dot (vecMat x.length x M) x

/-- shapes for which the two `np.dot` calls succeed -/
def shapeOK (n : Nat) (M : List (List Rat)) : Bool :=
  n != 0 && M.length == n && M.all (fun row => row.length == n)

/-- what the estimate keeps of the uncertainty block -/
structure UQE where
  rmse : Corr
  q : Rat
  dof : Int

def buildUQ (u : UQ N) (groups : List (N × Rat)) : Except (EstErr N) UQE :=
  match placeX u.basis groups (zeros u.basis.length) with
  | .error e => .error e
  | .ok x => if shapeOK u.basis.length u.mat then .ok ⟨u.rmse, quad x u.mat, u.dof⟩ else .error .shape

/-- A `ThermochemGroupAdditive` object. -/
structure Estimator where
  name : Option (List Nat)
  correlations : List (Corr × Rat)
  range : Option (Rat × Rat)
  uq : Option UQE

/-- end of `__init__`: `ThermochemBase.__init__(self, range=(common_min, common_max))` with its
`assert range[1] >= range[0]`, or `range=None` when no constituent declares a range -/
def finish {N : Type} (name : Option (List Nat)) (cs : List (Corr × Rat)) (uq : Option UQE) : Except (EstErr N) Estimator :=
  match commonRange cs with
  | none => .ok ⟨name, cs, none, uq⟩
  | some (lo, hi) => if lo ≤ hi then .ok ⟨name, cs, some (lo, hi), uq⟩ else .error .emptyRange

/-- the `if lib.uq_contents:` block of `__init__` -/
def uqPart (lib : Library N S) (groups : List (N × Rat)) : Except (EstErr N) (Option UQE) :=
  match lib.uq with
  | none => .ok none
  | some u =>
    match buildUQ u groups with
    | .error e => .error e
    | .ok q => .ok (some q)

/-- `ThermochemGroupAdditive.__init__(lib, groups)`: the `(correlation, count)` list, then the uncertainty
block (only when `lib.uq_contents` is truthy), then the range assertion -/
def construct (lib : Library N S) (s : S) (groups : List (N × Rat)) : Except (EstErr N) Estimator :=
  match collect lib s groups with
  | .error e => .error e
  | .ok cs =>
    match uqPart lib groups with
    | .error e => .error e
    | .ok uq => finish lib.name cs uq

/-- `GroupLibrary.Estimate(groups, property_set_name)`; `registered` = keys of `_property_set_estimator_types` -/
def estimate (registered : List S) (lib : Library N S) (groups : List (N × Rat)) (s : S) :
    Except (EstErr N) Estimator :=
  if registered.contains s then
    match missingGroups lib s groups with
    | [] => construct lib s groups
    | m :: ms => .error (.missing (m :: ms))
  else .error .invalidSet

end

/-! ### non-dimensional getters of the estimate -/

/-- `sum(count*correlation.get_X(T) for (correlation, count) in self.correlations)`: Python's `sum`
starts from 0 and adds the terms left to right; the first term that raises ends the evaluation. -/
def wsumFrom (get : Corr → Val) : Rat → List (Corr × Rat) → Val
  | acc, [] => .ok acc
  | acc, (c, n) :: rest =>
    match get c with
    | .error e => .error e
    | .ok v => wsumFrom get (acc + n * v) rest

def wsum (get : Corr → Val) (cs : List (Corr × Rat)) : Val := wsumFrom get 0 cs

def Estimator.CpoR (e : Estimator) (T : Rat) : Val := wsum (·.cp T) e.correlations
def Estimator.HoRT (e : Estimator) (T : Rat) : Val := wsum (·.hort T) e.correlations

/-- `get_Selements`: `S_ele = 0; for atom in AddHs(MolFromSmiles(name)).GetAtoms(): S_ele += S_elements[Z]` -/
def selSumFrom (sel : Nat → Option Rat) : Rat → List Nat → Val
  | acc, [] => .ok acc
  | acc, z :: zs =>
    match sel z with
    | none => .error (.noElement z)
    | some v => selSumFrom sel (acc + v) zs

def selements (sel : Nat → Option Rat) (name : Option (List Nat)) : Val :=
  match name with
  | none => .error .noMolecule
  | some atoms => selSumFrom sel 0 atoms

/-- A Python value passed as `S_elements`; only its truthiness matters. -/
inductive PyFlag where
  | none
  | bool (b : Bool)
  | int (i : Int)
  | str (nonempty : Bool)
  deriving DecidableEq, Repr

def PyFlag.truthy : PyFlag → Bool
  | .none => false
  | .bool b => b
  | .int i => i != 0
  | .str ne => ne

/-- `get_SoR(T, S_elements)`: the elemental term is evaluated first, then the sum, then the difference -/
def Estimator.SoR (sel : Nat → Option Rat) (e : Estimator) (T : Rat) (flag : PyFlag) : Val :=
  match (if flag.truthy then selements sel e.name else .ok 0) with
  | .error err => .error err
  | .ok sele =>
    match wsum (·.sor T) e.correlations with
    | .error err => .error err
    | .ok s => .ok (s - sele)

/-! ### `ThermochemBase`: what every correlation object offers, and the derived getters -/

/-- the three abstract methods -/
structure ND where
  cp : Rat → Val
  hort : Rat → Val
  sor : Rat → PyFlag → Val

def Estimator.toND (sel : Nat → Option Rat) (e : Estimator) : ND :=
  ⟨e.CpoR, e.HoRT, e.SoR sel⟩

/-- a group's own correlation (`ThermochemIncomplete.get_SoR` ignores `S_elements`) -/
def Corr.toND (c : Corr) : ND := ⟨c.cp, c.hort, fun T _ => c.sor T⟩

/-- `get_GoRT`: `self.get_HoRT(T) - self.get_SoR(T, S_elements=S_elements)` -/
def ND.GoRT (o : ND) (T : Rat) (flag : PyFlag) : Val :=
  match o.hort T with
  | .error e => .error e
  | .ok h =>
    match o.sor T flag with
    | .error e => .error e
    | .ok s => .ok (h - s)

abbrev UnitStr := List Char
abbrev RTable := List (UnitStr × Rat)

/-- `pmutt.constants.R(units)` over the regenerated table; `KeyError` when absent -/
def lookupR (R : RTable) (u : UnitStr) : Val :=
  match R.lookup u with
  | some r => .ok r
  | none => .error .badUnits

/-- `'{}/K'.format(units)` -/
def perK (u : UnitStr) : UnitStr := u ++ ['/', 'K']

/-- `get_H`: `self.get_HoRT(T)*T*c.R('{}/K'.format(units))` -/
def ND.H (R : RTable) (o : ND) (T : Rat) (u : UnitStr) : Val :=
  match o.hort T with
  | .error e => .error e
  | .ok h =>
    match lookupR R (perK u) with
    | .error e => .error e
    | .ok r => .ok (h * T * r)

/-- `get_G`: `self.get_GoRT(T, S_elements=S_elements)*T*c.R('{}/K'.format(units))` -/
def ND.G (R : RTable) (o : ND) (T : Rat) (u : UnitStr) (flag : PyFlag) : Val :=
  match o.GoRT T flag with
  | .error e => .error e
  | .ok g =>
    match lookupR R (perK u) with
    | .error e => .error e
    | .ok r => .ok (g * T * r)

/-- `get_S`: `self.get_SoR(T, S_elements=S_elements)*c.R(units)` -/
def ND.Sdim (R : RTable) (o : ND) (T : Rat) (u : UnitStr) (flag : PyFlag) : Val :=
  match o.sor T flag with
  | .error e => .error e
  | .ok s =>
    match lookupR R u with
    | .error e => .error e
    | .ok r => .ok (s * r)

/-- `get_Cp`: `self.get_CpoR(T)*c.R(units)` -/
def ND.Cp (R : RTable) (o : ND) (T : Rat) (u : UnitStr) : Val :=
  match o.cp T with
  | .error e => .error e
  | .ok c =>
    match lookupR R u with
    | .error e => .error e
    | .ok r => .ok (c * r)

/-! ### standard errors -/

/-- the radicand of `get_X_SE`: `np.square(self.RMSE.get_X(T)) * self.Xp_invXX_Xp`
(`np.sqrt` and `float` are applied to it; the square root is not modelled numerically, DESIGN 2.3) -/
def Estimator.SE2 (e : Estimator) (get : Corr → Val) : Val :=
  match e.uq with
  | none => .error .noUQ
  | some u =>
    match get u.rmse with
    | .error err => .error err
    | .ok r => .ok (r * r * u.q)

def Estimator.CpoR_SE2 (e : Estimator) (T : Rat) : Val := e.SE2 (·.cp T)
def Estimator.HoRT_SE2 (e : Estimator) (T : Rat) : Val := e.SE2 (·.hort T)
def Estimator.SoR_SE2 (e : Estimator) (T : Rat) : Val := e.SE2 (·.sor T)

end PGA.Estimate
