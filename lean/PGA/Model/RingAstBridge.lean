import PGA.Model.Ast
import PGA.Model.Match
import PGA.Model.RingParse
import PGA.Gen.RingGrammar
/-! # One tree for parser and reader: `PGA.Ring.Ast` (C09) → `PGA.Ast` (C08)

The C09 model of `Parser.py` (`PGA/Model/RingParse.lean`) builds trees whose nodes carry the *index*
of the grammar rule in the generated rule-name table (`PGA.Gen.RingGrammar.ruleNames`, dumped from
the live `Grammar.py` dictionaries) and whose leaves are `List Char` (`Literal`/`String` outputs) or
`Nat` (`Digit`/`Number` outputs).  The C08 model of `MolQueryRead.py` (`PGA/Model/Query.lean`)
consumes `PGA.Ast`: `node name children | leaf text`, integer leaves as their decimal ASCII text.
`Ast.toPGA` is the bridge; with it the whole path *text → tree → query → matches* is one Lean
function (`matchText`), and the implementation's own parser is no longer needed to feed the reader
model (`c08.batch` with `texts`). -/
namespace PGA.Ring

/-- the rule name behind a rule index (`RINGToken(name)`); an index outside the table cannot be
produced by the engine on the generated grammar and is rendered `#n` -/
def ruleNameOf (names : List String) (n : Nat) : String := (names[n]?).getD ("#" ++ toString n)

mutual
/-- the parser's tree as the readers see it -/
def Ast.toPGAWith (names : List String) : Ast → PGA.Ast
  | .node n kids => .node (ruleNameOf names n) (toPGAList names kids)
  | .str s => .leaf (String.ofList s)
  | .int v => .leaf (toString v)
def toPGAList (names : List String) : List Ast → List PGA.Ast
  | [] => []
  | k :: ks => k.toPGAWith names :: toPGAList names ks
end

/-- the bridge over the generated rule-name table -/
def Ast.toPGA (t : Ast) : PGA.Ast := t.toPGAWith PGA.Gen.RingGrammar.ruleNames

theorem toPGAList_eq_map (names : List String) (ks : List Ast) :
    toPGAList names ks = ks.map (Ast.toPGAWith names) := by
  induction ks with
  | nil => rfl
  | cons k ks ih => simp [toPGAList, ih]

end PGA.Ring

namespace PGA

mutual
/-- structural equality of reader trees (the driver compares the bridged model tree with the
implementation's serialised tree) -/
def Ast.same : Ast → Ast → Bool
  | .node n cs, .node m ds => n == m && Ast.sameList cs ds
  | .leaf s, .leaf t => s == t
  | _, _ => false
def Ast.sameList : List Ast → List Ast → Bool
  | [], [] => true
  | c :: cs, d :: ds => Ast.same c d && Ast.sameList cs ds
  | _, _ => false
end

/-- outcome of reading a text that is not a query -/
inductive TextErr where
  /-- `RINGSyntaxError` at (line, column) -/
  | syntax (line col : Nat)
  /-- the parser model's abort outcomes (proved unreachable on the shipped grammar: `C09_shipped_never_stuck`) -/
  | abort (a : Ring.Abort)
  /-- the reader's outcome on the parsed tree -/
  | read (e : ReadErr)
  deriving Repr

/-- the tree `Parser.parse(text)` hands to the reader, as the reader model's type -/
def parseText (s : List Char) : Except TextErr Ast :=
  match Ring.parse PGA.Gen.RingGrammar.enhanced s with
  | .accepted t _ => .ok t.toPGA
  | .syntaxError e => .error (.syntax e.line e.col)
  | .abort a => .error (.abort a)

/-- `Read(text)` for a fragment: C09 parser model on the generated (enhanced) grammar, bridge, C08 reader model -/
def readText (s : List Char) : Except TextErr Query :=
  match parseText s with
  | .error e => .error e
  | .ok t =>
    match readFragment t with
    | .ok q => .ok q
    | .error e => .error (.read e)

/-- `Read(text).GetQueryMatches(mol)` from the text on -/
def matchText (s : List Char) (m : Mol) : Except TextErr (List (List Nat)) :=
  (readText s).map (queryMatches · m)

end PGA
