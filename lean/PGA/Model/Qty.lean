import PGA.Model.Units
/-!
# Model of the quantity algebra of `pgradd/Units/qty.py` (`GenericQuantity`, `Quantity`, `ArrayQuantity`)

An operand is what `_unpack_qty` makes of it: a value (a scalar, or a one-dimensional array with
one shared dimension) and a `FundamentalUnits`; a plain number / `ndarray` has the null units.
Operators are modelled method by method, as written, *after the repairs* F10 (`__lt__` returned `>`,
`__gt__` was missing), F11 (the compatibility guard accepted any zero-valued operand) and FU5
(`FundamentalUnits.__eq__` compared the exponent arrays exactly; it now accepts a difference of at most
`THRESHOLD_INTEGER` in every exponent, which is what division followed by `_build` decides): the
shared guard is `compatible`, the equality of units is `sameUnits`.  `binop` adds Python's dispatch: the left operand's method if it is a
quantity, otherwise the right operand's reflected method.
-/
namespace PGA.Qty
open PGA.Units

/-- a Python float / int, or a one-dimensional `ndarray` of floats -/
inductive Num
  | scalar (q : Rat)
  | array (l : List Rat)
  deriving DecidableEq, Repr

/-- `(value, units)` as returned by `GenericQuantity._unpack_qty` -/
structure Q where
  val : Num
  dim : Dim
  deriving DecidableEq, Repr

inductive QErr
  | unitsError      -- pgradd.Error.UnitsError
  | typeError       -- TypeError (exponentiation by a quantity)
  | math            -- ZeroDivisionError (scalar division by zero, 0 ** negative)
  | nonfinite       -- numpy array division by zero: inf/nan entries and a RuntimeWarning, no exception
  | broadcast       -- ValueError: arrays of different lengths
  | complexPower    -- negative magnitude to a non-integer power (complex / AssertionError in `_build`)
  deriving DecidableEq, Repr

inductive Out
  | val (v : Num) (dim : Dim)       -- `_build`: a plain number / ndarray when `dim` is null, else a quantity
  | inexact (len : Option Nat) (dim : Dim)  -- a non-integer power of magnitudes: values not modelled (scalar: `none`)
  | bool (b : Bool)
  | bools (l : List Bool)
  | err (e : QErr)
  deriving DecidableEq, Repr

/-- `is_zero(value)` (`utils.py`): `val == 0`, `.all()` for arrays -/
def Num.isZero : Num → Bool
  | .scalar q => q == 0
  | .array l => l.all (· == 0)

def Num.map (f : Rat → Rat) : Num → Num
  | .scalar q => .scalar (f q)
  | .array l => .array (l.map f)

/-- element-wise binary operation with numpy broadcasting of a scalar; `none` = shapes do not match -/
def zipNum {α} (f : Rat → Rat → α) (sc : α → β) (ar : List α → β) : Num → Num → Option β
  | .scalar a, .scalar b => some (sc (f a b))
  | .scalar a, .array l => some (ar (l.map (f a)))
  | .array l, .scalar b => some (ar (l.map (f · b)))
  | .array l, .array m => if l.length = m.length then some (ar (List.zipWith f l m)) else none

def arith (f : Rat → Rat → Rat) (a b : Num) : Option Num := zipNum f Num.scalar Num.array a b
def compare (f : Rat → Rat → Bool) (a b : Num) : Option Out := zipNum f Out.bool Out.bools a b

/-- `bool(units)` -/
def hasUnits (d : Dim) : Bool := !d.isZero

/-- `FundamentalUnits.__eq__` (repaired, FU5): `(np.abs(self.exps - other.exps) <= THRESHOLD_INTEGER).all()` —
every exponent of the one within `thr` of the same exponent of the other (`__ne__` is its negation) -/
def sameUnits (thr : Rat) (a b : Dim) : Bool :=
  (Dim.zip (· - ·) a b).toList.all (fun d => decide (absR d ≤ thr))

/-- `GenericQuantity.has_units(units)` with `units` evaluated to a quantity / number `u`: `self_units == units_of(u)` -/
def hasUnitsOf (thr : Rat) (a u : Q) : Bool := sameUnits thr a.dim u.dim

/-- the repaired guard shared by `== != < <= > >= + -` (and their reflections), `_compatible`: the other operand is
acceptable iff it has the same units (`self.has_units(other_units)`), or it is a *bare* zero (no units, zero value) -/
def compatible (thr : Rat) (self other : Q) : Bool :=
  if hasUnits other.dim then sameUnits thr self.dim other.dim else other.val.isZero

/-- `_build(value, units)` -/
def build (v : Option Num) (d : Dim) : Out :=
  match v with
  | some v => .val v d
  | none => .err .broadcast

def ofCmp (r : Option Out) : Out :=
  match r with
  | some o => o
  | none => .err .broadcast

/-- `__eq__` -/
def eq (thr : Rat) (a b : Q) : Out :=
  if !compatible thr a b then .bool false else ofCmp (compare (fun x y => x == y) a.val b.val)
/-- `__ne__` -/
def ne (thr : Rat) (a b : Q) : Out :=
  if !compatible thr a b then .bool true else ofCmp (compare (fun x y => x != y) a.val b.val)
/-- `__lt__` (repaired: returns `<`) -/
def lt (thr : Rat) (a b : Q) : Out :=
  if !compatible thr a b then .err .unitsError else ofCmp (compare (fun x y => decide (x < y)) a.val b.val)
/-- `__le__` -/
def le (thr : Rat) (a b : Q) : Out :=
  if !compatible thr a b then .err .unitsError else ofCmp (compare (fun x y => decide (x ≤ y)) a.val b.val)
/-- `__gt__` (added by the repair) -/
def gt (thr : Rat) (a b : Q) : Out :=
  if !compatible thr a b then .err .unitsError else ofCmp (compare (fun x y => decide (x > y)) a.val b.val)
/-- `__ge__` -/
def ge (thr : Rat) (a b : Q) : Out :=
  if !compatible thr a b then .err .unitsError else ofCmp (compare (fun x y => decide (x ≥ y)) a.val b.val)
/-- `__add__`: `_build(self_value + other_value, self_units)` -/
def add (thr : Rat) (a b : Q) : Out :=
  if !compatible thr a b then .err .unitsError else build (arith (· + ·) a.val b.val) a.dim
/-- `__radd__`: `_build(other_value + self_value, self_units)` -/
def radd (thr : Rat) (a b : Q) : Out :=
  if !compatible thr a b then .err .unitsError else build (arith (· + ·) b.val a.val) a.dim
/-- `__sub__` -/
def sub (thr : Rat) (a b : Q) : Out :=
  if !compatible thr a b then .err .unitsError else build (arith (· - ·) a.val b.val) a.dim
/-- `__rsub__`: `_build(other_value - self_value, self_units)` -/
def rsub (thr : Rat) (a b : Q) : Out :=
  if !compatible thr a b then .err .unitsError else build (arith (· - ·) b.val a.val) a.dim
/-- `__mul__` -/
def mul (thr : Rat) (a b : Q) : Out := build (arith (· * ·) a.val b.val) (Dim.mul thr a.dim b.dim)
/-- `__rmul__`: `_build(other_value*self_value, other_units*self_units)` -/
def rmul (thr : Rat) (a b : Q) : Out := build (arith (· * ·) b.val a.val) (Dim.mul thr b.dim a.dim)

def Num.hasZero : Num → Bool
  | .scalar q => q == 0
  | .array l => l.any (· == 0)

/-- value part of a division `x / y`: Python scalars raise, numpy arrays yield inf/nan -/
def divVal (x y : Num) : Except QErr (Option Num) :=
  match y with
  | .scalar q => if q == 0 then (match x with | .scalar _ => .error .math | .array _ => .error .nonfinite)
                 else .ok (arith (· / ·) x y)
  | .array _ => if y.hasZero then .error .nonfinite else .ok (arith (· / ·) x y)

/-- `__truediv__` (`__div__`, `__floordiv__` are the same function) -/
def div (thr : Rat) (a b : Q) : Out :=
  match divVal a.val b.val with
  | .error e => .err e
  | .ok v => build v (Dim.div thr a.dim b.dim)
/-- `__rtruediv__`: `_build(other_value/self_value, other_units/self_units)` -/
def rdiv (thr : Rat) (a b : Q) : Out :=
  match divVal b.val a.val with
  | .error e => .err e
  | .ok v => build v (Dim.div thr b.dim a.dim)

/-- `__pow__`: the exponent must be a plain scalar; integer exponents are computed exactly -/
def pow (thr : Rat) (a b : Q) : Out :=
  if hasUnits b.dim then .err .typeError else
  match b.val with
  | .array _ => .err .broadcast
  | .scalar x =>
    let d := Dim.pow thr a.dim x
    if isInt x then
      let k : Int := x.num
      if decide (x < 0) && a.val.hasZero then
        (match a.val with | .scalar _ => .err .math | .array _ => .err .nonfinite)
      else .val (a.val.map (· ^ k)) d
    else
      match a.val with
      | .scalar q =>
        if q = 1 then .val (.scalar 1) d
        else if q = 0 then (if 0 < x then .val (.scalar 0) d else .err .math)
        else if 0 < q then .inexact none d
        else .err .complexPower
      | .array l =>
        if l.any (fun q => decide (q < 0)) then .err .nonfinite        -- nan entries
        else if a.val.hasZero && decide (x < 0) then .err .nonfinite   -- inf entries
        else .inexact (some l.length) d
/-- `__rpow__` -/
def rpow (_a _b : Q) : Out := .err .typeError
/-- `__neg__` -/
def neg (a : Q) : Out := .val (a.val.map (- ·)) a.dim
/-- `__abs__` -/
def abs (a : Q) : Out := .val (a.val.map absR) a.dim

/-- `in_units(units)` with `units` evaluated to a quantity/number `u`: `self/u`, `UnitsError` if units remain -/
def inUnits (thr : Rat) (a u : Q) : Out :=
  match div thr a u with
  | .val v d => if d.isZero then .val v d else .err .unitsError
  | .inexact n d => if d.isZero then .inexact n d else .err .unitsError
  | o => o

inductive Op
  | eq | ne | lt | le | gt | ge | add | sub | mul | div | pow
  deriving DecidableEq, Repr

/-- Python's dispatch for `a ⊕ b` where at least one operand is a quantity (has units): the left
operand's method; if the left operand is a plain number / ndarray, the right operand's reflected method
(`a < b` ↦ `b.__gt__(a)`, `a == b` ↦ `b.__eq__(a)`, `a + b` ↦ `b.__radd__(a)` …). -/
def binop (thr : Rat) (op : Op) (a b : Q) : Out :=
  if hasUnits a.dim then
    match op with
    | .eq => eq thr a b | .ne => ne thr a b | .lt => lt thr a b | .le => le thr a b | .gt => gt thr a b | .ge => ge thr a b
    | .add => add thr a b | .sub => sub thr a b | .mul => mul thr a b | .div => div thr a b | .pow => pow thr a b
  else
    match op with
    | .eq => eq thr b a | .ne => ne thr b a | .lt => gt thr b a | .le => ge thr b a | .gt => lt thr b a | .ge => le thr b a
    | .add => radd thr b a | .sub => rsub thr b a | .mul => rmul thr b a | .div => rdiv thr b a | .pow => rpow b a

end PGA.Qty
