/-! Decimal literal as emitted by the translator: the exact decimal `m · 10^e` of the shortest
round-trip `repr` of a Python float (DESIGN 2.3). -/
namespace PGA.Units

structure Dec where
  m : Int
  e : Int
  deriving DecidableEq, Repr

def pow10 (e : Int) : Rat := (10 : Rat) ^ e

def Dec.toRat (d : Dec) : Rat := (d.m : Rat) * pow10 d.e

end PGA.Units
