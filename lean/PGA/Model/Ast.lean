/-! # RING abstract syntax as the implementation's parser hands it to the readers

`pgradd/RINGParser/Parser.py` produces nested Python lists `[RINGToken(name), child, …]` whose
children are again such lists, or plain `str` leaves (literals, identifiers), or `int` leaves
(`Digit`, `Number`).  `Ast` is that token tree.  Convention for `int` leaves: the leaf text is the
decimal ASCII rendering of the integer value (`int('٣')` is the leaf `"3"`), so a leaf made by
`Digit`/`Number` is told from a string leaf by its position in the tree, exactly as the readers do.

The C09 parser model produces this type; the C08/C16 reader models consume it.  In the
correspondence checks the tree comes from the implementation's own parser, serialised by
`harness/lib_ast.py` (`{"n": name, "c": [children]}` for a node, a JSON string for a leaf).
-/
namespace PGA

inductive Ast where
  | node (name : String) (children : List Ast)
  | leaf (text : String)
  deriving Repr, Inhabited

namespace Ast

/-- `tree[0].name` of a node (`none` for a leaf: the readers would raise `AttributeError`). -/
def name? : Ast → Option String
  | node n _ => some n
  | leaf _ => none

/-- `tree[1:]` of a node. -/
def children : Ast → List Ast
  | node _ cs => cs
  | leaf _ => []

def leafText? : Ast → Option String
  | leaf t => some t
  | node _ _ => none

/-- the node is called `n` -/
def isNode (n : String) : Ast → Bool
  | node m _ => m == n
  | leaf _ => false

/-- decimal value of an ASCII digit string (the rendering used for `int` leaves) -/
def natOfDigits (s : String) : Option Nat :=
  if s.isEmpty then none else
  s.toList.foldl (fun acc c => match acc with
    | none => none
    | some v => if '0' ≤ c ∧ c ≤ '9' then some (v * 10 + (c.toNat - 48)) else none) (some 0)

end Ast
end PGA
