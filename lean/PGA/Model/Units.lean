import PGA.Model.Chars
import PGA.Model.UnitsDec
import PGA.Gen.Units
/-!
# Model of `pgradd/Units`: tokenizer, recursive-descent parser, tree evaluation, unit database

Mirrors `parser.py` (`UnitsParser`, `eval_subtree`), `db.py` (`UnitsDB.lookup`), `builtin.py`
(the database is built at import by evaluating the definitional strings through the parser
itself), and the scalar part of `qty.py` that the evaluator reaches (`*`, `/`, `**`, `_build`,
`FundamentalUnits._build` with its integer-snapping threshold).

Numbers are exact `Rat` (decimal-literal abstraction, DESIGN 2.3).  A magnitude obtained from
a non-integer power of a number other than 0 or 1 is not computed: it is carried as
`Mag.inexact sign` (a non-zero real of known sign), so that dimensions, signs and error
outcomes downstream are still modelled exactly.
-/
namespace PGA.Units
open PGA.Chars

abbrev Name := List Char

/-! ## Dimensions: seven rational exponents, named after the primitive units -/

structure Dim where
  m : Rat
  kg : Rat
  s : Rat
  A : Rat
  K : Rat
  mol : Rat
  cd : Rat
  deriving DecidableEq, Repr

namespace Dim
def zero : Dim := ⟨0, 0, 0, 0, 0, 0, 0⟩
def map (f : Rat → Rat) (d : Dim) : Dim := ⟨f d.m, f d.kg, f d.s, f d.A, f d.K, f d.mol, f d.cd⟩
def zip (f : Rat → Rat → Rat) (a b : Dim) : Dim :=
  ⟨f a.m b.m, f a.kg b.kg, f a.s b.s, f a.A b.A, f a.K b.K, f a.mol b.mol, f a.cd b.cd⟩
def toList (d : Dim) : List Rat := [d.m, d.kg, d.s, d.A, d.K, d.mol, d.cd]
/-- `bool(units)` is `exps.any()`; `isZero` is its negation -/
def isZero (d : Dim) : Bool := d == zero
/-- `FundamentalUnits.new(name)`; `none` stands for the `KeyError` of an unknown primitive name -/
def ofPrim (n : Name) : Option Dim :=
  if n = ['m'] then some ⟨1, 0, 0, 0, 0, 0, 0⟩
  else if n = ['k', 'g'] then some ⟨0, 1, 0, 0, 0, 0, 0⟩
  else if n = ['s'] then some ⟨0, 0, 1, 0, 0, 0, 0⟩
  else if n = ['A'] then some ⟨0, 0, 0, 1, 0, 0, 0⟩
  else if n = ['K'] then some ⟨0, 0, 0, 0, 1, 0, 0⟩
  else if n = ['m', 'o', 'l'] then some ⟨0, 0, 0, 0, 0, 1, 0⟩
  else if n = ['c', 'd'] then some ⟨0, 0, 0, 0, 0, 0, 1⟩
  else none
end Dim

def absR (x : Rat) : Rat := if x < 0 then -x else x

/-- nearest integer (ties are irrelevant: a tie is farther than the threshold and is kept) -/
def nearest (e : Rat) : Rat := ((e + 1 / 2).floor : Int)

/-- one component of `FundamentalUnits._build`: an exponent within `thr` of an integer becomes it -/
def snap (thr : Rat) (e : Rat) : Rat :=
  if thr < absR (e - nearest e) then e else nearest e

/-- `FundamentalUnits._build` -/
def Dim.build (thr : Rat) (d : Dim) : Dim := d.map (snap thr)
/-- `FundamentalUnits.__mul__` -/
def Dim.mul (thr : Rat) (a b : Dim) : Dim := Dim.build thr (Dim.zip (· + ·) a b)
/-- `FundamentalUnits.__truediv__` -/
def Dim.div (thr : Rat) (a b : Dim) : Dim := Dim.build thr (Dim.zip (· - ·) a b)
/-- `FundamentalUnits.__pow__` : `other*self.exps` -/
def Dim.pow (thr : Rat) (a : Dim) (x : Rat) : Dim := Dim.build thr (a.map (x * ·))

/-! ## Magnitudes, values, outcomes -/

inductive Mag
  | exact (q : Rat)
  | inexact (neg : Bool)     -- a non-zero real whose exact value is not modelled; `neg` = it is negative
  deriving DecidableEq, Repr

/-- a `Quantity` (dimension ≠ 0) or a plain number (dimension = 0: `_build` returns the bare value) -/
structure Val where
  mag : Mag
  dim : Dim
  deriving DecidableEq, Repr

inductive Internal
  | fuel           -- the model's own recursion budget (proved unreachable)
  | intLimit       -- `int()` ValueError: more digits than the interpreter allows
  | complexPower   -- negative number to a non-integer power: Python yields a `complex`
  | attribute      -- AttributeError (helpers called on a plain number)
  | keyError       -- KeyError escaping from the database (unknown primitive name)
  deriving DecidableEq, Repr

inductive Err
  | unitsParse                -- pgradd.Error.UnitsParseError
  | unitsError                -- pgradd.Error.UnitsError
  | math                      -- ZeroDivisionError
  | internal (k : Internal)   -- anything else
  deriving DecidableEq, Repr

abbrev Res := Except Err

def isInt (x : Rat) : Bool := x.den == 1

def Mag.mul : Mag → Mag → Mag
  | .exact a, .exact b => .exact (a * b)
  | .exact a, .inexact n => if a = 0 then .exact 0 else .inexact (n != decide (a < 0))
  | .inexact n, .exact b => if b = 0 then .exact 0 else .inexact (n != decide (b < 0))
  | .inexact n, .inexact k => .inexact (n != k)

def Mag.isZero : Mag → Bool
  | .exact q => q == 0
  | .inexact _ => false

def Mag.isNeg : Mag → Bool
  | .exact q => decide (q < 0)
  | .inexact n => n

def Mag.inv : Mag → Mag
  | .exact q => .exact q⁻¹
  | .inexact n => .inexact n

/-- Python `a / b` on numbers: `ZeroDivisionError` when `b == 0` -/
def Mag.div (a b : Mag) : Res Mag :=
  if b.isZero then .error .math else .ok (a.mul b.inv)

/-- Python `a ** x` for a real base and a real exponent `x` -/
def Mag.pow (a : Mag) (x : Rat) : Res Mag :=
  if isInt x then
    match a with
    | .exact q => if q = 0 ∧ x.num < 0 then .error .math else .ok (.exact (q ^ x.num))
    | .inexact n => if x.num = 0 then .ok (.exact 1) else .ok (.inexact (n && x.num % 2 != 0))
  else
    match a with
    | .exact q =>
      if q = 1 then .ok (.exact 1)
      else if q = 0 then (if 0 < x then .ok (.exact 0) else .error .math)
      else if 0 < q then .ok (.inexact false)
      else .error (.internal .complexPower)
    | .inexact n => if n then .error (.internal .complexPower) else .ok (.inexact false)

def Val.plain (q : Rat) : Val := ⟨.exact q, Dim.zero⟩

/-- `GenericQuantity.__mul__/__rmul__` and number `*` -/
def Val.mul (thr : Rat) (a b : Val) : Val := ⟨a.mag.mul b.mag, Dim.mul thr a.dim b.dim⟩
/-- `GenericQuantity.__truediv__/__rtruediv__` and number `/` -/
def Val.div (thr : Rat) (a b : Val) : Res Val := do
  let m ← a.mag.div b.mag
  pure ⟨m, Dim.div thr a.dim b.dim⟩
/-- `GenericQuantity.__pow__` and number `**`; the exponent is always a plain number here -/
def Val.pow (thr : Rat) (a : Val) (x : Rat) : Res Val := do
  let m ← a.mag.pow x
  pure ⟨m, Dim.pow thr a.dim x⟩

/-! ## Tokens and tokenizer: `re.findall(r'-?[.\d]+|[a-zA-Z]+|.', expr)` minus whitespace tokens -/

inductive Tok
  | num (neg : Bool) (body : List Char)   -- `-?[.\d]+`
  | word (s : List Char)                  -- `[a-zA-Z]+`
  | sym (c : Char)                        -- `.` (any other single character except newline)
  deriving DecidableEq, Repr

/-- `\d` of a `str` pattern: the characters with a Unicode decimal value -/
def isDecChar (c : Char) : Bool := (decimalVal c).isSome
def isNumChar (c : Char) : Bool := c == '.' || isDecChar c
def isAsciiAlpha (c : Char) : Bool := ('a' ≤ c && c ≤ 'z') || ('A' ≤ c && c ≤ 'Z')

inductive LexSt
  | idle
  | inNum (neg : Bool) (acc : List Char)
  | inWord (acc : List Char)
  deriving DecidableEq, Repr

def LexSt.flush : LexSt → List Tok
  | .idle => []
  | .inNum neg acc => [.num neg acc]
  | .inWord acc => [.word acc]

def nextIsNumChar : List Char → Bool
  | [] => false
  | c :: _ => isNumChar c

/-- a token starts at `c` (`cs` = the characters after it): tokens completed at once, next state -/
def lexStart (c : Char) (cs : List Char) : List Tok × LexSt :=
  if isNumChar c then ([], .inNum false [c])
  else if c == '-' && nextIsNumChar cs then ([], .inNum true [])
  else if isAsciiAlpha c then ([], .inWord [c])
  else if c == '\n' then ([], .idle)            -- `.` does not match a newline: skipped by findall
  else if isSpaceChar c then ([], .idle)        -- token dropped by the `isspace` filter
  else ([.sym c], .idle)

/-- the scanner as a one-pass automaton (one character per step) -/
def lexGo : LexSt → List Char → List Tok
  | st, [] => st.flush
  | st, c :: cs =>
    match st with
    | .inNum neg acc =>
      if isNumChar c then lexGo (.inNum neg (acc ++ [c])) cs else
        .num neg acc :: ((lexStart c cs).1 ++ lexGo (lexStart c cs).2 cs)
    | .inWord acc =>
      if isAsciiAlpha c then lexGo (.inWord (acc ++ [c])) cs else
        .word acc :: ((lexStart c cs).1 ++ lexGo (lexStart c cs).2 cs)
    | .idle => (lexStart c cs).1 ++ lexGo (lexStart c cs).2 cs

def lex (s : List Char) : List Tok := lexGo .idle s

/-! ## Token predicates used by the parser -/

def countDots : List Char → Nat
  | [] => 0
  | c :: cs => (if c == '.' then 1 else 0) + countDots cs

/-- value of the digit characters of a token body, the dot ignored -/
def digitsVal (acc : Nat) : List Char → Nat
  | [] => acc
  | c :: cs => match decimalVal c with
    | some d => digitsVal (acc * 10 + d) cs
    | none => digitsVal acc cs

/-- number of characters after the (first) dot -/
def fracLen : List Char → Nat
  | [] => 0
  | c :: cs => if c == '.' then cs.length else fracLen cs

/-- `float(body)` succeeds: at least one digit, at most one dot -/
def validNum (body : List Char) : Bool := countDots body ≤ 1 && body.any isDecChar

/-- `UnitsParser.isnumber` (repaired, F9: an alphabetic token such as `inf`/`nan` is a name) -/
def Tok.isNumber : Tok → Bool
  | .num _ body => validNum body
  | .word _ => false
  | .sym _ => false

/-- `str.isalpha()` of the token text -/
def Tok.isAlpha : Tok → Bool
  | .num _ _ => false
  | .word _ => true
  | .sym c => isAlphaChar c

def Tok.text : Tok → List Char
  | .num neg body => if neg then '-' :: body else body
  | .word s => s
  | .sym c => [c]

/-- `float(tok)` / `int(tok)` as an exact decimal -/
def numVal (neg : Bool) (body : List Char) : Rat :=
  let v : Rat := (digitsVal 0 body : Nat) / ((10 : Rat) ^ (fracLen body))
  if neg then -v else v

/-! ## Syntax tree (`('expr', …)`, `('factor', …)`, `('base', …)` wrappers are transparent) -/

inductive Tree
  | num (q : Rat)
  | name (s : Name)
  | mul (a b : Tree)
  | div (a b : Tree)
  | pow (a : Tree) (x : Rat)
  deriving DecidableEq, Repr

abbrev PRes := Res (Tree × List Tok)

def perr {α} : Res α := .error .unitsParse

/-- the `if self.isnumber(next)` part of `parse_number` -/
def numberOf (t : Tok) (rest : List Tok) : Res (Rat × List Tok) :=
  match t with
  | .num neg body =>
    if validNum body then
      if countDots body = 0 ∧ body.length > PGA.Gen.Chars.intMaxStrDigits then .error (.internal .intLimit)
      else .ok (numVal neg body, rest)
    else perr
  | _ => perr

/-- `UnitsParser.parse_number` -/
def parseNumber : List Tok → Res (Rat × List Tok)
  | [] => perr
  | t :: rest =>
    if t = .sym '(' then
      match rest with
      | n :: c :: rest' => if c = .sym ')' then numberOf n rest' else perr
      | _ => perr
    else numberOf t rest

/-- `parse_base` (with `parse_name`), given the parser `pe` for a parenthesised expression -/
def parseBaseWith (pe : List Tok → PRes) : List Tok → PRes
  | [] => perr
  | t :: rest =>
    if t = .sym '(' then
      match pe rest with
      | .ok (e, c :: r) => if c = .sym ')' then .ok (e, r) else perr
      | .ok (_, []) => perr
      | .error e => .error e
    else if t.isNumber then
      match numberOf t rest with
      | .ok (q, r) => .ok (.num q, r)
      | .error e => .error e
    else if t.isAlpha then .ok (.name t.text, rest)
    else perr

/-- `parse_factor` -/
def parseFactorWith (pe : List Tok → PRes) (ts : List Tok) : PRes :=
  match parseBaseWith pe ts with
  | .error e => .error e
  | .ok (left, r) =>
    match r with
    | c :: r2 =>
      if c = .sym '^' then
        match parseNumber r2 with
        | .ok (x, r3) => .ok (.pow left x, r3)
        | .error e => .error e
      else .ok (left, r)
    | [] => .ok (left, [])

/-- the `while True` loop of `parse_expr`; `fuel` bounds the number of iterations -/
def parseLoopWith (pf : List Tok → PRes) : Nat → Tree → List Tok → PRes
  | 0, _, _ => .error (.internal .fuel)
  | _ + 1, acc, [] => .ok (acc, [])
  | n + 1, acc, t :: rest =>
    if t = .sym '*' then
      match pf rest with
      | .ok (f, r) => parseLoopWith pf n (.mul acc f) r
      | .error e => .error e
    else if t = .sym '/' then
      match pf rest with
      | .ok (f, r) => parseLoopWith pf n (.div acc f) r
      | .error e => .error e
    else
      match pf (t :: rest) with
      | .ok (f, r) => parseLoopWith pf n (.mul acc f) r
      | .error .unitsParse => .ok (acc, t :: rest)      -- `except UnitsParseError: self.join(old_state); break`
      | .error e => .error e

/-- `parse_expr`; `depth` bounds the nesting of parentheses -/
def parseExpr : Nat → List Tok → PRes
  | 0, _ => .error (.internal .fuel)
  | d + 1, ts =>
    match parseFactorWith (parseExpr d) ts with
    | .error e => .error e
    | .ok (f, r) => parseLoopWith (parseFactorWith (parseExpr d)) (r.length + 1) f r

/-- `UnitsParser.parse` -/
def parseTokens (ts : List Tok) : Res Tree :=
  match parseExpr (ts.length + 1) ts with
  | .error e => .error e
  | .ok (e, []) => .ok e
  | .ok (_, _ :: _) => perr

/-! ## The unit database -/

abbrev Table (α : Type) := List (Name × α)

def Table.find {α} (t : Table α) (n : Name) : Option α :=
  match t with
  | [] => none
  | (k, v) :: rest => if k = n then some v else Table.find rest n

structure Cfg where
  thr : Rat
  prefixes : Table Rat
  db : Table Val
  deriving Repr

/-- `float * Quantity` (or `float * number` when the entry is a plain number) -/
def scale (thr : Rat) (p : Rat) (v : Val) : Val := Val.mul thr (Val.plain p) v

/-- `UnitsDB.lookup` (repaired, F8: the two-letter prefix is `name[:2]`) -/
def lookup (cfg : Cfg) (name : Name) : Res Val :=
  match cfg.db.find name with
  | some v => .ok v
  | none =>
    match cfg.db.find (name.drop 1), cfg.prefixes.find (name.take 1) with
    | some v, some p => .ok (scale cfg.thr p v)
    | _, _ =>
      match cfg.db.find (name.drop 2), cfg.prefixes.find (name.take 2) with
      | some v, some p => .ok (scale cfg.thr p v)
      | _, _ => perr

/-- `eval_subtree` -/
def evalTree (cfg : Cfg) : Tree → Res Val
  | .num q => .ok (Val.plain q)
  | .name s => lookup cfg s
  | .mul a b => do
    let x ← evalTree cfg a
    let y ← evalTree cfg b
    pure (Val.mul cfg.thr x y)
  | .div a b => do
    let x ← evalTree cfg a
    let y ← evalTree cfg b
    Val.div cfg.thr x y
  | .pow a e => do
    let x ← evalTree cfg a
    -- repaired (FU1): `if float(base) < 0 and power != int(power): raise UnitsParseError`
    if x.mag.isNeg && !isInt e then perr else Val.pow cfg.thr x e

/-- `eval_expr` on a token list -/
def evalTokens (cfg : Cfg) (ts : List Tok) : Res Val := do
  let t ← parseTokens ts
  evalTree cfg t

/-- `eval_qty(str)` -/
def evalStr (cfg : Cfg) (s : List Char) : Res Val := evalTokens cfg (lex s)

/-! ## Building the database as `builtin.py` does at import -/

def addBase (cfg : Cfg) : List (Name × Dec × Name) → Res Cfg
  | [] => .ok cfg
  | (n, mult, prim) :: rest =>
    match Dim.ofPrim prim with
    | none => .error (.internal .keyError)
    | some d => addBase { cfg with db := cfg.db ++ [(n, ⟨.exact mult.toRat, d⟩)] } rest

/-- `for name, val in …: units_db.add(name, eval_qty(val))` (a re-definition replaces the entry) -/
def addDefs (cfg : Cfg) : List (Name × List Char) → Res Cfg
  | [] => .ok cfg
  | (n, s) :: rest =>
    match evalStr cfg s with
    | .error e => .error e
    | .ok v => addDefs { cfg with db := (cfg.db.filter (fun kv => kv.1 != n)) ++ [(n, v)] } rest

def emptyCfg : Cfg :=
  { thr := PGA.Gen.Units.thresholdInteger.toRat,
    prefixes := PGA.Gen.Units.prefixes.map (fun kv => (kv.1, kv.2.toRat)),
    db := [] }

def buildCfg : Res Cfg := do
  let c ← addBase emptyCfg PGA.Gen.Units.baseUnits
  let c ← addDefs c PGA.Gen.Units.derivedUnits
  addDefs c PGA.Gen.Units.otherUnits

/-- the live configuration; an import-time failure leaves the database empty (and the table
obligation `C10_tab_db_built` fails) -/
def liveCfg : Cfg :=
  match buildCfg with
  | .ok c => c
  | .error _ => emptyCfg

/-! ## Conversions (`Quantity.in_units`, `helpers.py`) -/

/-- `GenericQuantity.in_units(units)` with `units` already evaluated: the magnitude of the
plain number `self/units`, `UnitsError` if units remain -/
def inUnits (thr : Rat) (q u : Val) : Res Mag := do
  let v ← Val.div thr q u
  if v.dim.isZero then pure v.mag else .error .unitsError

/-- `with_units(number, units)`: `number * eval_qty(units)` for every number (the zero shortcut of the original code
— finding F12 — was removed by its repair: zero is a value like any other) -/
def withUnits (thr : Rat) (x : Rat) (u : Val) : Val := Val.mul thr (Val.plain x) u

/-- `to_SI_from(value, units)`: `value * eval_qty(units).value` (a plain number has no `.value`) -/
def toSI (x : Rat) (u : Val) : Res Mag :=
  if u.dim.isZero then .error (.internal .attribute) else .ok ((Mag.exact x).mul u.mag)

/-- `from_SI_to(value, units)`: `value / eval_qty(units).value` -/
def fromSI (x : Rat) (u : Val) : Res Mag :=
  if u.dim.isZero then .error (.internal .attribute) else (Mag.exact x).div u.mag

end PGA.Units
