import PGA.Model.GroupName
import PGA.Model.ListUtil
/-! Model of the decomposition logic of `pgradd/GroupAdd/Scheme.py` *above* the matcher
(`_AssignCenterPattern`, `_AssignGroup`, `_AssignDescriptor`, remaps, final merge), as a function of the
match lists of the scheme's patterns.  The matcher itself (`GetQueryMatches`) is `PGA/Model/Match.lean`
(C08); here its result is an input, so that the two layers are verified separately and composed.

Counts are exact rationals (`Rat`): remap coefficients are decimal literals. -/
namespace PGA.Scheme

abbrev Match := List Nat
abbrev Counts := List (String × Rat)      -- a Python dict in insertion order

structure CentrePat where
  center : String
  periph : String
  ms : List Match          -- `pattern['connectivity'].GetQueryMatches(mol)`
  deriving Repr

structure DescPat where
  name : String
  ms : List Match
  deriving Repr

structure Input where
  n : Nat                                  -- atoms are 0..n-1 (explicit hydrogens included)
  nbrs : List (List Nat)                   -- neighbours of each atom, in the molecule's order
  centres : List CentrePat
  descs : List DescPat
  remaps : List (String × List (Rat × String))
  deriving Repr

inductive Err
  | patternMatch           -- `PatternMatchError` (centre overwritten, or atom left unassigned)
  deriving DecidableEq, Repr

/-- `set([match[0] for match in matches])` (as a duplicate-free list; iteration order is irrelevant) -/
def firstAtoms (ms : List Match) : List Nat := uniq (ms.filterMap List.head?)

abbrev Assign := List (Nat × (String × String))   -- atom ↦ (centre name, peripheral name)

def Assign.get? (a : Assign) (i : Nat) : Option (String × String) := (a.find? (·.1 == i)).map (·.2)

/-- one pattern of `_AssignCenterPattern`: every first atom must be unassigned so far -/
def assignOne (center periph : String) : List Nat → Assign → Except Err Assign
  | [], a => .ok a
  | i :: is, a =>
    match a.get? i with
    | some _ => .error .patternMatch
    | none => assignOne center periph is ((i, (center, periph)) :: a)

def assignPatterns : List CentrePat → Assign → Except Err Assign
  | [], a => .ok a
  | p :: ps, a =>
    match assignOne p.center p.periph (firstAtoms p.ms) a with
    | .error e => .error e
    | .ok a' => assignPatterns ps a'

/-- `_AssignCenterPattern`: all patterns, then every atom must have been assigned -/
def assignCentres (inp : Input) : Except Err Assign :=
  match assignPatterns inp.centres [] with
  | .error e => .error e
  | .ok a => if (List.range inp.n).all (fun i => (a.get? i).isSome) then .ok a else .error .patternMatch

/-! ### dictionaries in insertion order (keys are distinct, as in a Python dict) -/
def Counts.get : Counts → String → Rat
  | [], _ => 0
  | (k, v) :: c, k' => if k = k' then v else Counts.get c k'
def Counts.has : Counts → String → Bool
  | [], _ => false
  | (k, _) :: c, k' => if k = k' then true else Counts.has c k'
/-- `d[k] += v` on a `defaultdict(int)`: in place if present, else appended -/
def Counts.add : Counts → String → Rat → Counts
  | [], k, v => [(k, v)]
  | (k0, v0) :: c, k, v => if k0 = k then (k0, v0 + v) :: c else (k0, v0) :: Counts.add c k v
/-- `d.pop(k)` -/
def Counts.pop : Counts → String → Counts
  | [], _ => []
  | (k0, v0) :: c, k => if k0 = k then c else (k0, v0) :: Counts.pop c k
/-- `d[k] = v` -/
def Counts.set : Counts → String → Rat → Counts
  | [], k, v => [(k, v)]
  | (k0, v0) :: c, k, v => if k0 = k then (k0, v) :: c else (k0, v0) :: Counts.set c k v

/-- the group an atom contributes: centre name + peripheral names of its neighbours (those ≠ 'none') -/
def groupName (a : Assign) (nbrs : List (List Nat)) (i : Nat) : Option String :=
  match a.get? i with
  | none => none
  | some (csg, _) =>
    if csg == "none" then none else
    let psgs := ((nbrs.getD i []).filterMap fun j =>
      match a.get? j with
      | some (_, p) => if p == "none" then none else some p
      | none => none)
    some (String.ofList (PGA.GroupName.canon csg.toList (psgs.map String.toList)))

/-- first loop of `_AssignGroup` -/
def countGroups (a : Assign) (nbrs : List (List Nat)) : List Nat → Counts → Counts
  | [], c => c
  | i :: is, c =>
    match groupName a nbrs i with
    | none => countGroups a nbrs is c
    | some g => countGroups a nbrs is (c.add g 1)

def lookupRemap (rm : List (String × List (Rat × String))) (k : String) : Option (List (Rat × String)) :=
  (rm.find? (·.1 == k)).map (·.2)

def applyTargets (n : Rat) : List (Rat × String) → Counts → Counts
  | [], c => c
  | (coef, t) :: ts, c => applyTargets n ts (c.add t (n * coef))

/-- the remap loop over the snapshot `list(d.keys())` -/
def applyRemaps (rm : List (String × List (Rat × String))) : List String → Counts → Counts
  | [], c => c
  | k :: ks, c =>
    match lookupRemap rm k with
    | none => applyRemaps rm ks c
    | some ts => applyRemaps rm ks (applyTargets (c.get k) ts (c.pop k))

def remapAll (rm : List (String × List (Rat × String))) (c : Counts) : Counts :=
  applyRemaps rm (c.map (·.1)) c

/-- sorted duplicate-free atom list of a match: the *set* of matched atoms -/
def insertSorted (x : Nat) : List Nat → List Nat
  | [] => [x]
  | y :: ys => if x < y then x :: y :: ys else if x == y then y :: ys else y :: insertSorted x ys
def atomSet (m : Match) : List Nat := m.foldr insertSorted []

/-- number of distinct atom sets among the matches -/
def distinctSets (ms : List Match) : Nat := (uniq (ms.map atomSet)).length

/-- first loop of `_AssignDescriptor` (RING descriptors) -/
def countDescs : List DescPat → Counts → Counts
  | [], c => c
  | d :: ds, c =>
    let k := distinctSets d.ms
    if k == 0 then countDescs ds c else countDescs ds (c.add d.name k)

/-- `all_descriptors = groups.copy(); all_descriptors.update(descriptors)` -/
def mergeUpdate (g : Counts) : Counts → Counts
  | [] => g
  | (k, v) :: ds => mergeUpdate (g.set k v) ds

/-- `GetDescriptors` above the matcher -/
def getDescriptors (inp : Input) : Except Err Counts :=
  match assignCentres inp with
  | .error e => .error e
  | .ok a =>
    let groups := remapAll inp.remaps (countGroups a inp.nbrs (List.range inp.n) [])
    let descs := remapAll inp.remaps (countDescs inp.descs [])
    .ok (mergeUpdate groups descs)

end PGA.Scheme
