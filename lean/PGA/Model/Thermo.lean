/-! Model of the thermochemical correlations (C05, C06):
`pgradd/ThermoChem/raw_data.py` (`ThermochemRawData`), `incomplete.py` (`ThermochemIncomplete`,
evaluation part), `base.py` (`check_range`, `get_GoRT`) and the range intersection of
`group_data.py:49-77` (`ThermochemGroupAdditive.__init__`) with its sequential sums.

Numbers are exact `Rat` (DESIGN 2.3).  The spline and everything transcendental is a *parameter*
(`Interp`): `val t` = `spline(t)`, `I a b` = `spline.integral(a, b)`, `J a b` =
`quad(lambda t: spline(t)/t, a, b)[0]`, `lg a b` = `np.log(b/a)`.  In the compiled driver these are
finite oracle tables handed over by the harness from the live SciPy object.

The model mirrors the code *after* the repairs F5 (parentheses in `get_HoRT`), F6 (`min_T/max_T`
from the sorted table) and F27 (warning when a correlation without Cp data is evaluated outside
its declared range). -/
namespace PGA.Thermo

/-- error outcomes, one per exception class the code lets escape -/
inductive Err
  | value       -- ValueError (constructor guards; unpacking of an empty table; SciPy "x must be strictly increasing")
  | assertion   -- AssertionError (`assert range[1] >= range[0]` in ThermochemBase.__init__)
  | outside     -- OutsideCorrelationError (check_range)
  | incomplete  -- IncompleteDataError
  | nonfinite   -- ZeroDivisionError / a non-finite float (division by T = 0)
  | internal    -- AttributeError on a missing `_correlation` (unreachable for constructed objects)
  deriving DecidableEq, Repr

abbrev Range := Rat × Rat
abbrev Pt := Rat × Rat      -- (T, Cp/R)

/-- the external numerical components (SciPy spline, QUADPACK, `np.log`) as parameters -/
structure Interp where
  val : Rat → Rat
  I : Rat → Rat → Rat
  J : Rat → Rat → Rat
  lg : Rat → Rat → Rat

/-- `ConstantSpline(c)` (raw_data.py:270-280): value `c`, `integral(a, b) = c*(b - a)`;
`quad` of `c/t` and `log` stay external. -/
def constInterp (c : Rat) (ip : Interp) : Interp :=
  { ip with val := fun _ => c, I := fun a b => c * (b - a) }

/-! ### `sorted(zip(Ts, ND_Cps), key=T)`: a stable sort by temperature -/

def insertPt (p : Pt) : List Pt → List Pt
  | [] => [p]
  | q :: qs => if p.1 ≤ q.1 then p :: q :: qs else q :: insertPt p qs

/-- stable insertion sort (an element supplied earlier stays before a later one of equal key) -/
def sortPts : List Pt → List Pt
  | [] => []
  | p :: ps => insertPt p (sortPts ps)

/-- `x must be strictly increasing` (InterpolatedUnivariateSpline) -/
def strictInc : List Pt → Bool
  | [] => true
  | [_] => true
  | p :: q :: rest => decide (p.1 < q.1) && strictInc (q :: rest)

def lastPt (p0 : Pt) : List Pt → Pt
  | [] => p0
  | q :: qs => lastPt q qs

/-- a constructed `ThermochemRawData` -/
structure RawData where
  ctor ::
  pts : List Pt          -- (self.Ts, self.ND_Cps), sorted
  minT : Rat
  maxT : Rat
  minCp : Rat
  maxCp : Rat
  Href : Rat
  Sref : Rat
  Tref : Rat
  range : Range
  ip : Interp

/-- `range[0] <= T <= range[1]` fails: `T < range[0] or T > range[1]` -/
def outsideR (r : Range) (T : Rat) : Bool := decide (T < r.1) || decide (T > r.2)

/-- `ThermochemRawData.__init__` (raw_data.py:46-77) -/
def RawData.mk (ip : Interp) (Href Sref : Rat) (pts : List Pt) (Tref : Rat) (range : Option Range) :
    Except Err RawData :=
  match sortPts pts with
  | [] => .error .value                      -- `(self.Ts, self.ND_Cps) = list(zip(*[]))`
  | p0 :: rest =>
    let pl := lastPt p0 rest
    let minT := p0.1                          -- self.Ts[0]
    let maxT := pl.1                          -- self.Ts[-1]
    let checked : Except Err Range :=
      match range with
      | none => .ok (minT, maxT)
      | some r => if decide (minT < r.1) || decide (maxT > r.2) then .error .value else .ok r
    match checked with
    | .error e => .error e
    | .ok r =>
      if outsideR r Tref then .error .value
      else if r.2 < r.1 then .error .assertion           -- ThermochemBase.__init__
      else
        let d : RawData := { pts := p0 :: rest, minT := minT, maxT := maxT, minCp := p0.2, maxCp := pl.2,
                             Href := Href, Sref := Sref, Tref := Tref, range := r, ip := ip }
        match rest with
        | [] => .ok { d with ip := constInterp p0.2 ip }   -- N == 1
        | _ :: _ => if strictInc (p0 :: rest) then .ok d else .error .value

/-- `check_range` (base.py:45-71) -/
def checkRange (range : Option Range) (T : Rat) : Except Err Unit :=
  match range with
  | none => .ok ()
  | some r => if outsideR r T then .error .outside else .ok ()

/-- `check_range` (base.py:45-71) when `T` is an array: `np.any(T < lo) or np.any(T > hi)` decides for the whole array -/
def checkRangeArr (range : Option Range) (Ts : List Rat) : Except Err Unit :=
  match range with
  | none => .ok ()
  | some r => if Ts.any (fun T => decide (T < r.1)) || Ts.any (fun T => decide (T > r.2)) then .error .outside else .ok ()

/-- `get_CpoR` (raw_data.py:79-92) -/
def RawData.CpoR (d : RawData) (T : Rat) : Except Err Rat :=
  match checkRange (some d.range) T with
  | .error e => .error e
  | .ok () =>
    if T < d.minT then .ok d.minCp
    else if T > d.maxT then .ok d.maxCp
    else .ok (d.ip.val T)

/-! `get_SoR` (raw_data.py:106-136).  `S` is `ND_S`, `Ta`/`Tb` the two running temperatures. -/
def RawData.sFin (d : RawData) (S Ta Tb : Rat) : Rat := S + d.ip.J Ta Tb

def RawData.sStage2 (d : RawData) (S Ta Tb : Rat) : Rat :=
  if Ta ≥ d.maxT then
    if Tb ≥ d.maxT then S + d.maxCp * d.ip.lg Ta Tb
    else d.sFin (S + d.maxCp * d.ip.lg Ta d.maxT) d.maxT Tb
  else if Tb ≥ d.maxT then d.sFin (S + d.maxCp * d.ip.lg d.maxT Tb) Ta d.maxT
  else d.sFin S Ta Tb

def RawData.sVal (d : RawData) (T : Rat) : Rat :=
  if d.Tref ≤ d.minT then
    if T ≤ d.minT then d.Sref + d.minCp * d.ip.lg d.Tref T
    else d.sStage2 (d.Sref + d.minCp * d.ip.lg d.Tref d.minT) d.minT T
  else if T ≤ d.minT then d.sStage2 (d.Sref + d.minCp * d.ip.lg d.minT T) d.Tref d.minT
  else d.sStage2 d.Sref d.Tref T

def RawData.SoR (d : RawData) (T : Rat) : Except Err Rat :=
  match checkRange (some d.range) T with
  | .error e => .error e
  | .ok () => .ok (d.sVal T)

/-! `get_HoRT` (raw_data.py:138-167, line 160 parenthesised).  `rH` is the accumulated `H/R`;
the value before the final division by `T` is `hNum`. -/
def RawData.hFin (d : RawData) (rH Ta Tb : Rat) : Rat := rH + d.ip.I Ta Tb

def RawData.hStage2 (d : RawData) (rH Ta Tb : Rat) : Rat :=
  if Ta ≥ d.maxT then
    if Tb ≥ d.maxT then rH + d.maxCp * (Tb - Ta)
    else d.hFin (rH + d.maxCp * (d.maxT - Ta)) d.maxT Tb
  else if Tb ≥ d.maxT then d.hFin (rH + d.maxCp * (Tb - d.maxT)) Ta d.maxT
  else d.hFin rH Ta Tb

def RawData.hNum (d : RawData) (T : Rat) : Rat :=
  if d.Tref ≤ d.minT then
    if T ≤ d.minT then d.Href * d.Tref + d.minCp * (T - d.Tref)
    else d.hStage2 (d.Href * d.Tref + d.minCp * (d.minT - d.Tref)) d.minT T
  else if T ≤ d.minT then d.hStage2 (d.Href * d.Tref + d.minCp * (T - d.minT)) d.Tref d.minT
  else d.hStage2 (d.Href * d.Tref) d.Tref T

def RawData.HoRT (d : RawData) (T : Rat) : Except Err Rat :=
  match checkRange (some d.range) T with
  | .error e => .error e
  | .ok () => if T = 0 then .error .nonfinite else .ok (d.hNum T / T)

/-- `get_GoRT` (base.py:112-116): `self.get_HoRT(T) - self.get_SoR(T)`, H first -/
def RawData.GoRT (d : RawData) (T : Rat) : Except Err Rat :=
  match d.HoRT T with
  | .error e => .error e
  | .ok h =>
    match d.SoR T with
    | .error e => .error e
    | .ok s => .ok (h - s)

/-- `set_range` on a table correlation: `ThermochemRawData` does not override `ThermochemBase.set_range` (base.py), which
asserts the order of the two bounds and stores them — it does not look at the table or at `T_ref`, so the new range may
exclude the reference temperature, tabulated temperatures and the old bounds.  A failed assertion leaves the object as
it was.  (`set_range(None)` removes the range altogether; a correlation without a range has no "outside" and is not
modelled here.) -/
def RawData.setRange (d : RawData) (r : Range) : Except Err RawData :=
  if r.2 < r.1 then .error .assertion else .ok { d with range := r }

/-! ### `ThermochemIncomplete` / `ThermochemGroup` (evaluation part) -/

/-- outcome of an evaluation: value or exception, and whether `IncompleteDataWarning` was issued -/
abbrev Out := Except Err Rat × Bool

structure Incomplete where
  ctor ::
  Href : Option Rat
  Sref : Option Rat
  cp : List Pt                  -- items of the dict `ND_Cp_data`
  Tref : Rat
  range : Option Range
  corr : Option RawData         -- `self._correlation` (exists iff `ND_Cp_data` is non-empty)

/-- `ThermochemBase.__init__` (base.py:28-43): `assert range[1] >= range[0]` -/
def baseInitOk (range : Option Range) : Bool :=
  match range with
  | none => true
  | some r => decide (r.2 ≥ r.1)

/-- `ThermochemIncomplete.__init__` + `_setup_correlation` (incomplete.py:59-65, 74-83) -/
def Incomplete.mk (ip : Interp) (Href Sref : Option Rat) (cp : List Pt) (Tref : Rat) (range : Option Range) :
    Except Err Incomplete :=
  if baseInitOk range = false then .error .assertion
  else
    match cp with
    | [] => .ok { Href := Href, Sref := Sref, cp := [], Tref := Tref, range := range, corr := none }
    | _ :: _ =>
      -- `_expand_ND_Cp_data`: sorted by temperature; ThermochemRawData sorts again
      match RawData.mk ip (Href.getD 0) (Sref.getD 0) (sortPts cp) Tref range with
      | .error e => .error e
      | .ok d => .ok { Href := Href, Sref := Sref, cp := cp, Tref := Tref, range := range, corr := some d }

/-- `except OutsideCorrelationError: raise IncompleteDataError` -/
def convertErr (r : Except Err Rat) : Except Err Rat :=
  match r with
  | .error .outside => .error .incomplete
  | r => r

/-- `get_CpoR` (incomplete.py:130-140) -/
def Incomplete.CpoR (c : Incomplete) (T : Rat) : Out :=
  match c.cp with
  | [] => (.error .incomplete, false)
  | _ :: _ =>
    match c.corr with
    | none => (.error .internal, false)
    | some d => (convertErr (d.CpoR T), false)

/-- the warning condition of the branch without Cp data: `T != self.T_ref`, or (F27 repair)
`T` outside the declared range -/
def Incomplete.warnNoCp (c : Incomplete) (T : Rat) : Bool :=
  decide (T ≠ c.Tref) || (match c.range with | none => false | some r => outsideR r T)

/-- `get_HoRT` (incomplete.py:144-162) -/
def Incomplete.HoRT (c : Incomplete) (T : Rat) : Out :=
  match c.Href with
  | none => (.error .incomplete, false)
  | some h =>
    match c.cp with
    | [] => (.ok h, c.warnNoCp T)
    | _ :: _ =>
      match c.corr with
      | none => (.error .internal, false)
      | some d => (convertErr (d.HoRT T), false)

/-- `get_SoR` (incomplete.py:165-183) -/
def Incomplete.SoR (c : Incomplete) (T : Rat) : Out :=
  match c.Sref with
  | none => (.error .incomplete, false)
  | some s =>
    match c.cp with
    | [] => (.ok s, c.warnNoCp T)
    | _ :: _ =>
      match c.corr with
      | none => (.error .internal, false)
      | some d => (convertErr (d.SoR T), false)

/-- `get_GoRT` (base.py): H first; an exception in H leaves S unevaluated -/
def gibbs (h : Out) (s : Unit → Out) : Out :=
  match h with
  | (.error e, w) => (.error e, w)
  | (.ok hv, w) =>
    match s () with
    | (.error e, w') => (.error e, w || w')
    | (.ok sv, w') => (.ok (hv - sv), w || w')

def Incomplete.GoRT (c : Incomplete) (T : Rat) : Out := gibbs (c.HoRT T) (fun _ => c.SoR T)

/-! ### `ThermochemGroupAdditive`: range intersection and sequential sums -/

/-- one step of the loop `group_data.py:57-63` on `(common_min, common_max)` -/
def rangeStep (acc : Option Range) (r : Option Range) : Option Range :=
  match r with
  | none => acc
  | some dr =>
    match acc with
    | none => some dr
    | some a => some (max a.1 dr.1, min a.2 dr.2)

def estRange (rs : List (Option Range)) : Option Range := rs.foldl rangeStep none

structure Estimate where
  ctor ::
  cors : List (Incomplete × Rat)     -- self.correlations: (correlation, count), mapping order
  range : Option Range

/-- `ThermochemGroupAdditive.__init__` (group_data.py:49-77; UQ part not modelled) -/
def Estimate.mk (cors : List (Incomplete × Rat)) : Except Err Estimate :=
  let r := estRange (cors.map (fun c => c.1.range))
  if baseInitOk r = false then .error .assertion else .ok { cors := cors, range := r }

/-- `sum(count*correlation.get_X(T) for (correlation, count) in self.correlations)`:
left to right, the first exception ends the evaluation; warnings accumulate -/
def sumEval (f : Incomplete → Out) : List (Incomplete × Rat) → Rat → Bool → Out
  | [], acc, w => (.ok acc, w)
  | (c, n) :: rest, acc, w =>
    match f c with
    | (.error e, w') => (.error e, w || w')
    | (.ok v, w') => sumEval f rest (acc + n * v) (w || w')

def Estimate.CpoR (e : Estimate) (T : Rat) : Out := sumEval (fun c => c.CpoR T) e.cors 0 false
def Estimate.HoRT (e : Estimate) (T : Rat) : Out := sumEval (fun c => c.HoRT T) e.cors 0 false
/-- `get_SoR(T, S_elements=None)`: the elemental-entropy term (C07) is 0 -/
def Estimate.SoR (e : Estimate) (T : Rat) : Out := sumEval (fun c => c.SoR T) e.cors 0 false
def Estimate.GoRT (e : Estimate) (T : Rat) : Out := gibbs (e.HoRT T) (fun _ => e.SoR T)

end PGA.Thermo
