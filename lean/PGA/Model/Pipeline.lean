import PGA.Model.Decompose
import PGA.Model.Estimate
import PGA.Model.GroupName
/-!
# The pipeline a user of pgradd runs: `lib.Estimate(lib.GetDescriptors(x), 'thermochem').get_X(T)`

A thin composition of the existing layer models — nothing of them is copied:

* `GroupLibrary.GetDescriptors(mol)` (`pgradd/GroupAdd/Library.py:95`): `self.name = mol`, then
  `self.scheme.GetDescriptors(mol)` = `PGA.Decompose.decompose S m` (raw explicit-H graph → descriptor counts, or
  `PatternMatchError`).  The name is stored *before* the scheme is asked, hence also when the decomposition fails.
* the dict it returns is keyed by plain **strings** (`groups[group.name] += 1`, remap targets and descriptor names as the
  scheme file spells them) with `int`/`float` counts; it goes unchanged into
* `GroupLibrary.Estimate(groups, set)` = `PGA.Estimate.estimate reg lib counts set` with `N := String`: the library's
  `contents` is a dict keyed by `Group`/`Descriptor` objects whose `__hash__`/`__eq__` go by (canonical) name, and
  `Descriptor.__eq__` against a `str` compares the name with the string — so looking a string up in it is
  `List.lookup` over the keys' names;
* the getters of the returned `ThermochemGroupAdditive` (`Estimator.HoRT/CpoR/SoR`, `ND.GoRT/H/G/…`).

A second small piece mirrors how `GroupLibrary._do_load` *keys* the dict (`Group.parse(scheme, name)` for the
`groups:` section, `Descriptor(scheme, name)` for `other_descriptors:`, `KeyError` on a second definition): this is where
the spelling of a group name in a library file stops mattering (C19), and where the spelling of a *string* used as a
key keeps mattering.
-/
namespace PGA.Pipeline
open PGA PGA.Scheme PGA.Decompose PGA.Estimate

/-- a loaded group library as `Estimate` sees it when handed string keys -/
abbrev Lib := Library String String

/-- outcomes of `lib.Estimate(lib.GetDescriptors(x), set)` other than an estimate -/
inductive Err where
  /-- `PatternMatchError` raised inside `GetDescriptors`: `Estimate` is never called -/
  | patternMatch
  /-- whatever `Estimate` raises on the decomposition's dict -/
  | estimate (e : EstErr String)
  deriving DecidableEq, Repr

/-- atomic numbers of the (explicit-hydrogen) graph: what `get_Selements` reads off `AddHs(MolFromSmiles(name))` -/
def atomsOf (m : Mol) : List Nat := m.atoms.map (·.Z)

/-- `self.name = mol` -/
def remember (lib : Lib) (m : Mol) : Lib := { lib with name := some (atomsOf m) }

/-- `GroupLibrary.GetDescriptors(mol)`: the library remembers the molecule, the scheme decomposes it -/
def getDescriptors (S : SchemeDef) (lib : Lib) (m : Mol) : Lib × Except Scheme.Err Counts :=
  (remember lib m, decompose S m)

/-- `lib.Estimate(d, set)` for the outcome `d` of `lib.GetDescriptors(m)` (a raised `PatternMatchError` propagates) -/
def estimateOf (reg : List String) (set : String) : Lib × Except Scheme.Err Counts → Except Err Estimator
  | (_, .error .patternMatch) => .error .patternMatch
  | (lib', .ok counts) =>
    match estimate reg lib' counts set with
    | .error e => .error (.estimate e)
    | .ok est => .ok est

/-- `lib.Estimate(lib.GetDescriptors(m), set)` -/
def pipeline (reg : List String) (S : SchemeDef) (lib : Lib) (m : Mol) (set : String) : Except Err Estimator :=
  estimateOf reg set (getDescriptors S lib m)

/-- the estimate as a `ThermochemBase` object: the three non-dimensional getters and everything derived from them -/
def pipelineND (sel : Nat → Option Rat) (reg : List String) (S : SchemeDef) (lib : Lib) (m : Mol) (set : String) :
    Except Err ND :=
  match pipeline reg S lib m set with
  | .error e => .error e
  | .ok est => .ok (est.toND sel)

/-- Python exception classes of the outcomes (what a caller can `except`) -/
inductive ErrClass where
  | patternMatchError | keyError | groupMissingDataError | valueError | assertionError
  deriving DecidableEq, Repr

def estErrClass : EstErr String → ErrClass
  | .invalidSet => .keyError
  | .missing _ => .groupMissingDataError
  | .keyError => .keyError
  | .notInBasis _ => .valueError
  | .shape => .valueError
  | .emptyRange => .assertionError

def Err.cls : Err → ErrClass
  | .patternMatch => .patternMatchError
  | .estimate e => estErrClass e

/-! ### how `GroupLibrary._do_load` keys the dict -/

/-- failures of the keying loop -/
inductive LoadErr where
  /-- `GroupSyntaxError` from `Group.parse` -/
  | syntax
  /-- `ValueError` escaping from `int()` inside `Group.parse` -/
  | value
  /-- `KeyError('Multiple definitions of group/descriptor …')` -/
  | duplicate (name : String)
  deriving DecidableEq, Repr

/-- the `for name in group_properties:` loop: the entry's name is parsed, the dict is keyed by the `Group` object —
that is, by its canonical name; a second entry denoting the same group is an error -/
def loadGroups {α : Type} : List (GroupName.Name × α) → List (String × α) → Except LoadErr (List (String × α))
  | [], acc => .ok acc
  | (text, ps) :: rest, acc =>
    match GroupName.parse text with
    | .error .syntax => .error .syntax
    | .error .value => .error .value
    | .ok g =>
      let key := String.ofList g.name
      if (acc.lookup key).isSome then .error (.duplicate key)
      else loadGroups rest (acc ++ [(key, ps)])

/-- the `for name in other_descriptor_properties:` loop: `Descriptor(scheme, name)` keeps the name as written -/
def loadDescs {α : Type} : List (String × α) → List (String × α) → Except LoadErr (List (String × α))
  | [], acc => .ok acc
  | (name, ps) :: rest, acc =>
    if (acc.lookup name).isSome then .error (.duplicate name)
    else loadDescs rest (acc ++ [(name, ps)])

/-- `lib_contents` of `_do_load` from the two sections of a library file -/
def loadContents {α : Type} (groups : List (GroupName.Name × α)) (descs : List (String × α)) :
    Except LoadErr (List (String × α)) :=
  match loadGroups groups [] with
  | .error e => .error e
  | .ok acc => loadDescs descs acc

/-- `lib[Group(scheme, csg, psgs)]`: the lookup the documentation of `Estimate` describes (a mapping *from `Group`*) -/
def getItemGroup (lib : Lib) (csg : GroupName.Name) (psgs : List GroupName.Name) : List (String × Corr) :=
  lib.getItem (String.ofList (GroupName.canon csg psgs))

end PGA.Pipeline
