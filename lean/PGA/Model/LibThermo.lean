import PGA.Model.LibTable
import PGA.Model.Thermo
import PGA.Model.ThermoDec
/-! # A shipped group record as a correlation of the thermo model (C14-T1)

`PGA.LibTable.GroupRec` (C14: what the translator dumps of a loaded `ThermochemGroup`) and the thermo
model `PGA.Thermo` (C05/C06: `ThermochemIncomplete.__init__` / `_setup_correlation` / `get_*`) were
built separately.  This file says how a record *is* an input of that model: its reference values,
its heat-capacity table and its declared range are handed to `Incomplete.mk` exactly as
`ThermochemGroup.yaml_construct` hands the loaded values to the constructor.  The two models also
have their own decimal-literal types (`PGA.Dec`, `PGA.Thermo.Dec`); `Dec.toThermo` converts
(`PGA.LibTable.Dec.toThermo_toRat`: the value is kept). -/
namespace PGA.LibTable
open PGA PGA.Thermo

/-- the same decimal literal in the thermo tables' type -/
def _root_.PGA.Dec.toThermo (d : PGA.Dec) : PGA.Thermo.Dec := ⟨d.m, d.e⟩

/-- `(T, Cp/R)` points of a record: the rows whose value is a plain number -/
def GroupRec.pts (g : GroupRec) : List Pt :=
  g.cp.filterMap fun p => p.2.rat?.map fun v => (p.1.toRat, v)

/-- the declared validity range (`get_range()`), `none` when the entry declares none -/
def GroupRec.declRange (g : GroupRec) : Option Range := g.range.map fun r => (r.1.toRat, r.2.toRat)

/-- the `ThermochemGroup` object of a record in the thermo model: `ThermochemIncomplete.__init__` on the
record's data.  A record without a numeric reference temperature has no such object (`ValueError`
stands for "cannot be constructed"). -/
def GroupRec.correlation (ip : Interp) (g : GroupRec) : Except Err Incomplete :=
  match g.tref.rat? with
  | none => .error .value
  | some tr => Incomplete.mk ip g.href.rat? g.sref.rat? g.pts tr g.declRange

end PGA.LibTable
