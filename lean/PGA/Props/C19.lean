import PGA.Proofs.GroupName
/-!
# C19 — group identity is the centre plus the multiset of peripherals

Property theorems about the model `PGA.Model.GroupName` of `pgradd/GroupAdd/Group.py`.
Helper lemmas are in `PGA/Proofs/GroupName.lean`; the vocabulary (`spell`, `WFGroup`, …) in
`PGA/Spec/GroupName.lean`.  The quantifiers are unbounded: every centre name, every list of
peripheral names of any length, every order and run-length spelling.
-/
namespace PGA.GroupName
open PGA.Chars

/-- Table obligation: the interpreter's digit limit (regenerated from CPython) is positive. -/
theorem C19_tab_limit_pos : 0 < PGA.Gen.Chars.intMaxStrDigits := by decide

/-- Table obligation: ASCII digits are digits whose `int()` value is the digit (regenerated table). -/
theorem C19_tab_ascii_digits : ∀ d : Fin 10,
    isDigitChar (digitChar d.val) = true ∧ decimalVal (digitChar d.val) = some d.val := ascii_digits_ok

/-- **T2** A group's canonical name parses back to the same group: same centre, a permutation of the
peripherals, hence the same canonical name. -/
theorem C19_parse_canon (csg : Name) (psgs : List Name) (h : WFGroup csg psgs) :
    ∃ ps', parse (canon csg psgs) = .ok ⟨csg, ps'⟩ ∧ ps'.Perm psgs ∧ canon csg ps' = canon csg psgs := by
  refine ⟨expandRuns (canonRuns psgs), ?_, expand_canonRuns_perm psgs, canon_perm csg (expand_canonRuns_perm psgs)⟩
  rw [canon_eq_spell]
  exact parse_spell csg _ (wfRuns_canonRuns h) C19_tab_limit_pos

/-- **T1** Two groups have the same canonical name (are equal, hash alike, index the same entry)
exactly when they have the same centre and the same multiset of peripherals. -/
theorem C19_canon_eq_iff (c c' : Name) (ps ps' : List Name) (h : WFGroup c ps) (h' : WFGroup c' ps') :
    canon c ps = canon c' ps' ↔ c = c' ∧ ps.Perm ps' := by
  constructor
  · intro e
    obtain ⟨q, hq, hperm, _⟩ := C19_parse_canon c ps h
    obtain ⟨q', hq', hperm', _⟩ := C19_parse_canon c' ps' h'
    rw [e, hq'] at hq
    injection hq with hq
    injection hq with hc hp
    exact ⟨hc.symm, hperm.symm.trans (hp ▸ hperm')⟩
  · rintro ⟨rfl, hp⟩
    exact canon_perm c hp

/-- **T3** Any two well-formed spellings (any order of the entries, any split into runs, counts
written or not) that denote the same multiset parse to groups with the same canonical name. -/
theorem C19_spelling_independent (c : Name) (r₁ r₂ : List Run) (h₁ : WFRuns c r₁) (h₂ : WFRuns c r₂)
    (hp : (expandRuns r₁).Perm (expandRuns r₂)) :
    ∃ g₁ g₂, parse (spell c r₁) = .ok g₁ ∧ parse (spell c r₂) = .ok g₂ ∧ groupEq g₁ g₂ = true := by
  refine ⟨_, _, parse_spell c r₁ h₁ C19_tab_limit_pos, parse_spell c r₂ h₂ C19_tab_limit_pos, ?_⟩
  simp [groupEq, Group.name, canon_perm c hp]

/-- **T3'** parsing a well-formed spelling returns exactly the peripherals it denotes, in order. -/
theorem C19_parse_spell (c : Name) (r : List Run) (h : WFRuns c r) :
    parse (spell c r) = .ok ⟨c, expandRuns r⟩ := parse_spell c r h C19_tab_limit_pos

/-- **T4** equality between groups is equality of canonical names, and a group equals a plain
string exactly when the string is its canonical name. -/
theorem C19_eq_is_name_eq (g h : Group) : groupEq g h = true ↔ g.name = h.name := by
  simp [groupEq]
theorem C19_eq_str (g : Group) (s : Name) : groupEqStr g s = true ↔ g.name = s := by
  simp [groupEqStr]

/-- A library entry table as Python's `dict` sees it: a group's hash and equality go through its canonical name, so a
lookup with a group is a lookup with that name (`Library.py` indexes `self.contents` this way). -/
def libGet {α : Type} (lib : List (Name × α)) (g : Group) : Option α := lib.lookup g.name

/-- **T5** two well-formed groups index the same entry of *every* library exactly when they have the same centre and the
same multiset of peripherals. -/
theorem C19_index_same_entry (c c' : Name) (ps ps' : List Name) (h : WFGroup c ps) (h' : WFGroup c' ps') :
    (∀ lib : List (Name × Unit), libGet lib ⟨c, ps⟩ = libGet lib ⟨c', ps'⟩) ↔ c = c' ∧ ps.Perm ps' := by
  rw [← C19_canon_eq_iff c c' ps ps' h h']
  constructor
  · intro H
    have h1 := H [(canon c ps, ())]
    by_cases e : canon c ps = canon c' ps'
    · exact e
    · have e' : (canon c' ps' == canon c ps) = false := by
        simp only [beq_eq_false_iff_ne, ne_eq]; exact fun x => e x.symm
      simp [libGet, Group.name, List.lookup, e'] at h1
  · intro e lib
    simp [libGet, Group.name, e]

/-- **T5'** a group and its canonical name as a plain string find the same entry. -/
theorem C19_index_by_string {α : Type} (lib : List (Name × α)) (g : Group) :
    libGet lib g = lib.lookup g.name := rfl

/-- **T4'** group equality is an equivalence relation (it is equality of names). -/
theorem C19_eq_equivalence (g h k : Group) :
    groupEq g g = true ∧ (groupEq g h = groupEq h g) ∧ (groupEq g h = true → groupEq h k = true → groupEq g k = true) := by
  refine ⟨by simp [groupEq], ?_, ?_⟩
  · simp only [groupEq]; exact BEq.comm
  · simp only [groupEq, beq_iff_eq]; exact fun a b => a.trans b

/-- Error clause: a repeat count with no peripheral before it is the group syntax error. -/
theorem C19_count_without_name (part : Name) (rest : List Name) (acc : List Name)
    (h : part.isEmpty = false) (hd : isDigitStr part = true) :
    parseLoop (part :: rest) none acc = .error .syntax := parseLoop_cons_count_none part rest acc h hd

/-! ### non-vacuity: concrete inputs meeting the hypotheses
(character lists are written out: `String.toList` does not reduce in the kernel) -/

def isOk (r : Except ParseErr Group) (g : Group) : Bool := match r with | .ok g' => g' == g | _ => false
def isErr (r : Except ParseErr Group) (e : ParseErr) : Bool := match r with | .error e' => e' == e | _ => false

example : WFGroup ['C'] [['H'], ['C','[','d',']'], ['H']] := by
  refine ⟨by decide +kernel, ?_, ?_⟩
  · decide +kernel
  · show 3 < 10 ^ PGA.Gen.Chars.intMaxStrDigits
    exact Nat.lt_of_lt_of_le (by decide) (Nat.pow_le_pow_right (by decide) C19_tab_limit_pos)
example : isOk (parse ['C','(','H',')','3','(','C','[','d',']',')']) ⟨['C'], [['H'], ['H'], ['H'], ['C','[','d',']']]⟩ = true := by decide +kernel
/-- the escaping `ValueError` of the implementation is an outcome of the model too -/
example : isErr (parse ['C','(','H',')','(','²',')']) .value = true := by decide +kernel
example : isErr (parse ['C','(','3',')']) .syntax = true := by decide +kernel

end PGA.GroupName
