import PGA.Model.YamlTables
import PGA.Spec.SI
import PGA.Proofs.UnitsExt
import Mathlib.Tactic.Linarith
import Mathlib.Algebra.Order.Field.Rat
/-!
# C12 ↔ C10 — the unit table of the YAML loader model is a consequence of the units model

The C12/C13/C18 models never parse a unit expression: a unit is an abstract `(factor, dimension)` pair
looked up in `PGA.Yaml.unitTable`, which the translator dumps from the live `pgradd.Units.eval_qty`
(`PGA/Gen/YamlUnits.lean`).  The table obligations below remove that table from what has to be
believed: for **every row**, the C10 model of the unit-expression code (`PGA.Units`: scanner → parser →
evaluator → three-step `lookup`) evaluates the row's unit string

* over the unit database the model itself builds from the regenerated `builtin.py` definitions
  (`liveCfg`): to **exactly** the row's dimension and — except for five rows whose value the
  implementation computes with a floating-point rounding (`roundedUnits`) — to **exactly** the row's
  factor; the five within `10⁻¹⁵` relative (the decimal-literal abstraction computes `1/N_A`, `eV`
  and `erg` exactly, IEEE doubles round them: DESIGN 2.3);
* over the hand-written SI reference (`PGA/Spec/SI.lean`: `refCfg`, nothing taken from the
  repository): to exactly the row's dimension and to the row's factor within `10⁻⁶` relative (the
  tolerance the reference grants units tied to measured constants) — so a changed unit definition
  (`cal = 4.1868 J`, a prefix, the exponent of `eV`) fails an obligation *of C12*.

`GAS_CONSTANT` likewise.  All by kernel evaluation (`decide +kernel`, ≈ 5 s each); no row is left to a
run-time comparison.
-/
namespace PGA.Yaml
open PGA.Units (Cfg evalStr liveCfg absR)

/-- the C12 model's dimension in the C10 model's type (integer exponents as rationals) -/
def Dim.toUnits (d : Dim) : PGA.Units.Dim := ⟨d.m, d.kg, d.s, d.A, d.K, d.mol, d.cd⟩

/-- the C10 model evaluates the unit string `u` over `cfg` to an exact magnitude within `tol` (relative) of
`q.factor` — equal to it when `tol = 0` — and to exactly `q`'s dimension -/
def AgreesWith (cfg : Cfg) (u : String) (q : UnitQ) (tol : Rat) : Prop :=
  ∃ v, evalStr cfg u.toList = .ok ⟨.exact v, q.dim.toUnits⟩ ∧ absR (v - q.factor) ≤ tol * absR v

def agreesB (cfg : Cfg) (u : String) (q : UnitQ) (tol : Rat) : Bool :=
  match evalStr cfg u.toList with
  | .ok ⟨.exact v, d⟩ => d == q.dim.toUnits && decide (absR (v - q.factor) ≤ tol * absR v)
  | _ => false

theorem agreesB_sound {cfg : Cfg} {u : String} {q : UnitQ} {tol : Rat} (h : agreesB cfg u q tol = true) :
    AgreesWith cfg u q tol := by
  unfold agreesB at h
  split at h
  · next v d heq =>
    simp only [Bool.and_eq_true, beq_iff_eq, decide_eq_true_eq] at h
    exact ⟨v, by rw [heq, h.1], h.2⟩
  · exact absurd h (by simp)

theorem AgreesWith.exact {cfg : Cfg} {u : String} {q : UnitQ} (h : AgreesWith cfg u q 0) :
    evalStr cfg u.toList = .ok ⟨.exact q.factor, q.dim.toUnits⟩ := by
  obtain ⟨v, hv, hd⟩ := h
  have : v = q.factor := by
    unfold absR at hd
    simp only [zero_mul] at hd
    split at hd <;> linarith
  rw [hv, this]

/-- the unit strings whose factor the implementation obtains with a rounding of IEEE double arithmetic
(`1/6.02214179e23`, `1.602176487e-19 · 6.02…e23`, `1e-7`): the model's exact value and the dumped shortest-repr
decimal differ in the 16th–17th significant digit -/
def roundedUnits : List String := ["J/molecule", "eV/(molecule K)", "eV/molecule", "erg/mol", "meV/molecule"]

def liveTol (u : String) : Rat := if roundedUnits.contains u then 1 / 10 ^ 15 else 0

/-! ## over the live unit database (built by the model from the regenerated `builtin.py` definitions) -/

/-- **Table obligation (C12 ← C10, live definitions)**: every row of the unit table the YAML loader model uses is
what the C10 model of `eval_qty` computes for the row's unit string over the database it builds from the live
unit definitions: the dimension exactly; the factor exactly, for the five `roundedUnits` within 10⁻¹⁵ relative. -/
theorem C12_tab_units_from_units_model :
    ∀ p ∈ unitTable, AgreesWith liveCfg p.1 p.2 (liveTol p.1) := by
  have h : (unitTable.all fun p => agreesB liveCfg p.1 p.2 (liveTol p.1)) = true := by decide +kernel
  intro p hp
  exact agreesB_sound (List.all_eq_true.mp h p hp)

/-- … in particular, for every row outside `roundedUnits`, `eval_qty(u)` *is* the row (exact equality of the
rational magnitude and of all seven exponents) -/
theorem C12_tab_units_exact (p : String × UnitQ) (hp : p ∈ unitTable) (hr : roundedUnits.contains p.1 = false) :
    evalStr liveCfg p.1.toList = .ok ⟨.exact p.2.factor, p.2.dim.toUnits⟩ := by
  have h := C12_tab_units_from_units_model p hp
  unfold liveTol at h
  rw [hr] at h
  exact h.exact

/-- the exception list is not padded: each of the five rows really differs from the model's exact value -/
theorem C12_tab_rounded_units_minimal :
    (unitTable.filter fun p => !agreesB liveCfg p.1 p.2 0).map (·.1) = roundedUnits := by decide +kernel

/-- the defining expression of `pgradd.Consts.GAS_CONSTANT` (reference: `eval_qty('8.314472 J/(mol K)')`) -/
def gasConstantText : String := "8.314472 J/(mol K)"

/-- **Table obligation**: `GAS_CONSTANT` as the loader model uses it (`gasR`) is exactly what the C10 model computes
for its defining expression over the live unit database. -/
theorem C12_tab_gas_constant_from_units_model :
    AgreesWith liveCfg gasConstantText (unitOfRow PGA.Gen.YamlUnits.gasConstant) 0 :=
  agreesB_sound (by decide +kernel)

/-! ## over the SI reference (nothing taken from the repository) -/

/-- the unit database of the SI reference table: every reference unit with its exact reference value, the twenty SI
prefixes, the documented snapping threshold -/
def refCfg : Cfg :=
  { thr := 1 / 10 ^ 7,
    prefixes := PGA.SI.prefixes.map fun pk => (pk.1, (10 : Rat) ^ pk.2),
    db := PGA.SI.units.map fun r => (r.name, ⟨.exact r.value, r.dim⟩) }

/-- **Table obligation (C12 ← SI reference)**: every row of the loader model's unit table has exactly the dimension,
and within 10⁻⁶ relative the factor, that the C10 evaluator computes for its unit string over the hand-written SI
reference — a changed unit definition or prefix in the repository breaks this obligation of C12. -/
theorem C12_tab_units_from_si_reference :
    ∀ p ∈ unitTable, AgreesWith refCfg p.1 p.2 (1 / 10 ^ 6) := by
  have h : (unitTable.all fun p => agreesB refCfg p.1 p.2 (1 / 10 ^ 6)) = true := by decide +kernel
  intro p hp
  exact agreesB_sound (List.all_eq_true.mp h p hp)

/-- **Table obligation (C12 ← extended reference)**: the same holds over the reference *extended by the units of the
working tree that the reference does not know* (`PGA/Spec/SIExt.lean`: each new unit means what its definition means,
and none of its spellings had a meaning before): a grown unit table changes what no row of the loader's table denotes
— a consequence of the conservativity theorem, not a second table evaluation. -/
theorem C12_tab_units_from_ext_reference :
    ∀ p ∈ unitTable, AgreesWith PGA.SI.extCfg p.1 p.2 (1 / 10 ^ 6) := by
  intro p hp
  obtain ⟨v, hv, hd⟩ := C12_tab_units_from_si_reference p hp
  exact ⟨v, PGA.Units.evalStr_extend PGA.SI.ext_conservative _ _ hv, hd⟩

/-- … and units defined by exact factors (no measured constant: everything but `molecule`, `eV`, `BTU`) agree with the
reference exactly -/
def measuredUnits : List String :=
  ["J/molecule", "eV/(molecule K)", "eV/molecule", "meV/molecule", "BTU/(mol K)", "BTU/mol", "erg/mol"]

theorem C12_tab_units_si_exact :
    ∀ p ∈ unitTable, measuredUnits.contains p.1 = false → AgreesWith refCfg p.1 p.2 0 := by
  have h : (unitTable.all fun p => measuredUnits.contains p.1 || agreesB refCfg p.1 p.2 0) = true := by decide +kernel
  intro p hp hm
  have := List.all_eq_true.mp h p hp
  rw [hm, Bool.false_or] at this
  exact agreesB_sound this

/-- `GAS_CONSTANT`: the dimension of J/(mol K) exactly, the value within 10⁻⁵ of the SI value (the package quotes the
CODATA 2006 value 8.314472) -/
theorem C12_tab_gas_constant_from_si_reference :
    (unitOfRow PGA.Gen.YamlUnits.gasConstant).dim.toUnits = PGA.SI.gasConstant.dim ∧
    PGA.SI.gasConstant.admits 1 (unitOfRow PGA.Gen.YamlUnits.gasConstant).factor = true := by decide +kernel

/-! ## non-vacuity -/

example : 40 ≤ unitTable.length ∧ (unitTable.lookup "kcal/mol").isSome = true := by decide +kernel
example : unitTable.lookup "kJ/mol" = some ⟨1000, ⟨2, 1, -2, 0, 0, -1, 0⟩⟩ := by decide +kernel

end PGA.Yaml
