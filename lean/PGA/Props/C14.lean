import PGA.Proofs.Psd
import PGA.Props.C14Eval
import PGA.Spec.LibTable
import PGA.Model.Paths
import PGA.Gen.LibAll
/-!
# C14 — every shipped database loads, is self-consistent and relocatable

General theorems (any size) + table obligations.  The table obligations themselves are generated
next to the tables (`PGA/Gen/LibObl_<lib>.lean`, `PGA/Gen/UqObl_<lib>.lean`) from the live loaded
libraries on every run and are listed as obligations of C14 by the harness; this file holds the
general statements they instantiate.  **T1** (a well-formed record is constructed by the thermo model and evaluates
for every `T` of its range) is in `PGA/Props/C14Eval.lean` (`C14_wf_group_constructs`, `C14_wf_group_evaluates`,
`C14_wf_group_reproduces`, `C14_wf_group_range_row`), imported here and by every `LibObl_<lib>` module, whose
`groups_evaluate` / `groups_reproduce` are its instances from `groups_wf`.
-/
namespace PGA.LibTable
open PGA

/-- **T3 (soundness of the PSD certificate, any size).** A symmetric integer matrix whose scaled
difference from a Gram matrix `L·Lᵀ` is diagonally dominant with non-negative diagonal is positive
semi-definite.  The generated `UqObl_<lib>.psd` theorems are instances for the shipped matrices. -/
theorem C14_psd_of_certificate (n : Nat) (s : Int) (m l : List (List Int))
    (hl : squareSized n l = true) (hsym : symmetric n m = true) (hs : 0 < s)
    (hc : certOk n s m l = true) : PSD n m :=
  fun x => psd_of_cert n s m l x hl hsym hs hc

/-- the Boolean chain-freeness check means what the property says -/
theorem C14_chainFree_sound (rs : List Remap) (h : chainFree rs = true) : ChainFree rs := by
  intro r hr t ht r' hr' heq
  simp only [chainFree, List.all_eq_true, Bool.not_eq_true', List.any_eq_false, beq_iff_eq] at h
  exact h r hr t ht r' hr' heq

/-- a well-formed group record holds plain numbers only -/
theorem C14_wfGroup_plain (g : GroupRec) (h : wfGroup g = true) : PlainValues g := by
  simp only [wfGroup, Bool.and_eq_true] at h
  obtain ⟨⟨⟨⟨⟨_, h1⟩, h2⟩, h3⟩, h4⟩, _⟩ := h
  exact ⟨h1, h2, h3, fun p hp => (List.all_eq_true.mp h4) p hp⟩

/-- a well-formed group record has a positive reference temperature and, when it has a heat-capacity
table, a positive valid range containing the reference temperature and the whole table -/
theorem C14_wfGroup_range (g : GroupRec) (h : wfGroup g = true) :
    ∃ tr, g.tref.rat? = some tr ∧ 0 < tr ∧
      (g.cp ≠ [] → ∃ lo hi, effRange g = some (lo, hi) ∧ 0 < lo ∧ lo ≤ tr ∧ tr ≤ hi ∧
        ∀ p ∈ g.cp, lo ≤ p.1.toRat ∧ p.1.toRat ≤ hi) := by
  simp only [wfGroup, Bool.and_eq_true] at h
  obtain ⟨_, h5⟩ := h
  cases htr : g.tref.rat? with
  | none => simp [htr] at h5
  | some tr =>
    simp only [htr, Bool.and_eq_true, decide_eq_true_eq] at h5
    obtain ⟨⟨hpos, _⟩, hr⟩ := h5
    refine ⟨tr, rfl, hpos, ?_⟩
    intro hne
    cases he : effRange g with
    | none =>
      simp only [he] at hr
      cases hcp : g.cp with
      | nil => exact absurd hcp hne
      | cons a b => simp [hcp] at hr
    | some r =>
      obtain ⟨lo, hi⟩ := r
      simp only [he, Bool.and_eq_true, decide_eq_true_eq, Bool.or_eq_true] at hr
      obtain ⟨⟨⟨hlo, _⟩, htr'⟩, hall⟩ := hr
      have hcpne : g.cp.isEmpty = false := by
        cases hcp : g.cp with
        | nil => exact absurd hcp hne
        | cons a b => rfl
      rcases htr' with h0 | h0
      · rw [hcpne] at h0; exact absurd h0 (by simp)
      · refine ⟨lo, hi, rfl, hlo, h0.1, h0.2, ?_⟩
        intro p hp
        have := (List.all_eq_true.mp hall) p hp
        simpa using this

end PGA.LibTable

namespace PGA.Paths

/-- **T4a** a successful data-directory lookup is cached: every later lookup returns the same
directory whatever the environment has become. -/
theorem C14_dataDir_cached (c : Cache) (env env' : Option String) (pkg pkg' : Option String)
    (isDir isDir' : String → Bool) (d : String)
    (h : (getDataDir c env pkg isDir).1 = .ok d) :
    getDataDir (getDataDir c env pkg isDir).2 env' pkg' isDir' = (.ok d, some d) := by
  unfold getDataDir at h ⊢
  cases c with
  | some d0 => simp at h; subst h; rfl
  | none =>
    simp only at h ⊢
    split at h
    · simp at h
    · rename_i b hb
      by_cases hd : isDir b = true
      · simp only [hd, if_true, Except.ok.injEq] at h ⊢
        subst h; rfl
      · simp [hd] at h

/-- **T4b** with no cached value, a non-empty override that is a directory is the data directory. -/
theorem C14_dataDir_override (d : String) (pkg : Option String) (isDir : String → Bool)
    (hne : d.isEmpty = false) (hd : isDir d = true) :
    getDataDir none (some d) pkg isDir = (.ok d, some d) := by
  simp [getDataDir, hne, hd]

/-- **T4c** a builtin name resolves, under data directory `D`, to `D/name/library.yaml` with scheme
`D/name/scheme.yaml`. -/
theorem C14_resolve_builtin (ex : String → Bool) (D name : String) (h : isBuiltinName ex name = true) :
    resolveLibrary ex D name =
      ⟨join (join D name) "library.yaml", join D name, join (join D name) "scheme.yaml"⟩ := by
  simp [resolveLibrary, h]

/-- **T4d** an explicit path is used as given, with the scheme taken from its directory. -/
theorem C14_resolve_explicit (ex : String → Bool) (D path : String) (h : isBuiltinName ex path = false) :
    resolveLibrary ex D path = ⟨path, dirname path, join (dirname path) "scheme.yaml"⟩ := by
  simp [resolveLibrary, h]

end PGA.Paths
