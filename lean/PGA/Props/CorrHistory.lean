import PGA.Proofs.CorrHistory
/-!
# The correlation object as a state machine: every history of its public API leaves it fresh

Model: `PGA/Model/CorrHistory.lean` (`step`, `run`, `trace` over the state `Thermo.Incomplete`; `update` is `Merge.update`
of C13, the getters are those of C05/C06).  Vocabulary: `PGA/Spec/CorrHistory.lean` (`Fresh`, `FreshS`, `SameValues`,
`SameData`).  Lemmas: `PGA/Proofs/CorrHistory.lean`.

All quantifiers are unbounded: histories of any length over any operands, tables of any size, every temperature, every
interpolant family `S` (nothing is assumed about SciPy: the statements are about which data the answers are computed *from*,
not about their numerical value).  The property was unstated in `properties.jsonl`; it is what the seeded "performance"
changes of round 3 broke (a memo, an interpolant, a formatted text that outlives the data it was computed from).
-/
namespace PGA.CorrHistory
open PGA.Thermo PGA.Yaml PGA.Merge

/-! ### HIST_invariant -/

/-- **The constructor builds a fresh object**: structurally (`FreshS`), hence observationally (`Fresh`), holding the data
it was given. -/
theorem HIST_constructed_fresh {S : Spl} {c : Corr} {o : Incomplete} (h : construct S c = .ok o) :
    FreshS S o ∧ Fresh S o ∧ held o = c :=
  ⟨(construct_ok h).1, fresh_of_freshS (construct_ok h).1, (construct_ok h).2.1⟩

/-- **Every call preserves freshness** — `update` with any operand and either `overwrite`, `del_ND_Cp(T)` / `del_ND_Cp()`,
`del_ND_H_ref()`, `del_ND_S_ref()`, `set_range(r)` with any `r`, `copy()`, every getter — *whether it returns or raises*. -/
theorem HIST_step_preserves {S : Spl} {o : Incomplete} (hf : FreshS S o) (op : Op) :
    FreshS S (step S o op).1 ∧ Fresh S (step S o op).1 :=
  ⟨freshS_step hf op, fresh_of_freshS (freshS_step hf op)⟩

/-- **HIST_invariant.** After ANY history of calls on a constructed object — any length, any operands, no call excluded:
a call that raises is caught by the caller and the history goes on with the object as the call left it (`run`) — the
object is `Fresh`: the constructor accepts the data it holds, and the object it builds from them holds the same data and
gives the same outcome (value, exception class, warning flag) for `get_CpoR`, `get_HoRT`, `get_SoR`, `get_GoRT` at every
temperature.  Taking prefixes of `ops`, this holds after every single call of the history. -/
theorem HIST_invariant {S : Spl} {c : Corr} {o : Incomplete} (h : construct S c = .ok o) (ops : List Op) :
    Fresh S (run S o ops) ∧ FreshS S (run S o ops) :=
  ⟨fresh_of_freshS (freshS_run ops (construct_ok h).1), freshS_run ops (construct_ok h).1⟩

/-- the same, said of every intermediate state: after each single call of the history (returned or raised) the object is
fresh -/
theorem HIST_invariant_every_step {S : Spl} {c : Corr} {o : Incomplete} (h : construct S c = .ok o) (ops : List Op) :
    ∀ x ∈ trace S o ops, Fresh S x.1 :=
  fun x hx => fresh_of_freshS (freshS_trace ops (construct_ok h).1 x hx)

/-- the structural invariant is the stronger one -/
theorem HIST_freshS_fresh {S : Spl} {o : Incomplete} (hf : FreshS S o) : Fresh S o := fresh_of_freshS hf

/-! ### HIST_failed_op_state -/

/-- **A refused `update` stores nothing** — for every fresh state, operand and `overwrite`, whatever the exception: the
object is literally what it was (C13_update_atomic carried to the state with its table correlation). -/
theorem HIST_failed_update_unchanged {S : Spl} {o : Incomplete} (hf : FreshS S o) (d : Corr) (ow : Bool) (e : Exc)
    (h : (step S o (.update d ow)).2 = .raised e) : (step S o (.update d ow)).1 = o :=
  (freshS_update hf d ow).2 (by rw [show (stepUpdate S o d ow).2 = _ from h]; rfl)

/-- **`del_ND_Cp(T)` with an absent `T` is a `KeyError` and changes nothing** (any state). -/
theorem HIST_delCp_absent (S : Spl) (o : Incomplete) (T : Rat) (h : dlookup T o.cp = none) :
    step S o (.delCp (some T)) = (o, .raised .key) := by
  simp only [step, stepDelCp, h]

/-- **`del_ND_Cp(T)` that is refused changes nothing** (any state, any exception): the remaining data are checked before the
point is withdrawn, and once they passed, `_setup_correlation()` cannot fail on them. -/
theorem HIST_failed_delCp_unchanged (S : Spl) (o : Incomplete) (T : Option Rat) (e : Exc)
    (h : (step S o (.delCp T)).2 = .raised e) : (step S o (.delCp T)).1 = o := by
  cases T with
  | none =>
    have : setup S { o with cp := [] } = ({ o with cp := [], corr := none }, none) := rfl
    simp only [step, stepDelCp, this] at h
    cases h
  | some T =>
    simp only [step, stepDelCp] at h ⊢
    cases hl : dlookup T o.cp with
    | none => rfl
    | some v =>
      rw [hl] at h
      simp only at h ⊢
      cases hc : construct S ⟨o.Href, o.Sref, derase T o.cp, o.Tref, o.range⟩ with
      | error e' => rfl
      | ok o'' =>
        rw [hc] at h
        simp only at h ⊢
        obtain ⟨-, -, -, hs⟩ := construct_ok hc
        have : setup S { o with cp := derase T o.cp } = (o'', none) := by
          rw [← hs]
          exact setup_corr_irrel S ⟨o.Href, o.Sref, derase T o.cp, o.Tref, o.range, none⟩ o.corr
        rw [this] at h
        cases h

/-- **`set_range` with a reversed range is an `AssertionError` and changes nothing** (any state). -/
theorem HIST_setRange_reversed (S : Spl) (o : Incomplete) (lo hi : Rat) (h : hi < lo) :
    step S o (.setRange (some (lo, hi))) = (o, .raised .assertion) := by
  have : baseInitOk (some (lo, hi)) = false := by
    simp only [baseInitOk, decide_eq_false_iff_not, ge_iff_le, not_le]; exact h
  simp only [step, stepSetRange, this, if_true]

/-- **The calls that never raise**: `del_ND_Cp()`, `del_ND_H_ref()`, `del_ND_S_ref()`, every getter (its exception is its
*outcome*: the state machine records it as a value of type `Out`) on any state; `copy()` on a fresh object. -/
theorem HIST_never_raise (S : Spl) (o : Incomplete) :
    (step S o (.delCp none)).2.isRaised = false ∧ (step S o .delH).2.isRaised = false ∧
    (step S o .delS).2.isRaised = false ∧ (∀ q T, (step S o (.eval q T)).2.isRaised = false) ∧
    (FreshS S o → (step S o .copy).2.isRaised = false) := by
  refine ⟨?_, rfl, rfl, fun _ _ => rfl, fun hf => (freshS_copy hf).2.1⟩
  have : setup S { o with cp := [] } = ({ o with cp := [], corr := none }, none) := rfl
  simp only [step, stepDelCp, this]
  rfl

/-- **HIST_failed_op_state.** Whatever call raises on a fresh object, with whatever exception: the object afterwards holds
exactly the data it held, answers every getter at every temperature exactly as before, and is fresh.  It is moreover
*literally* the object it was (same `_correlation`), except after a refused `set_range`, which has rebuilt `_correlation`
from the restored range: there it is `_setup_correlation()` of the object it was (which differs from it only in the
reference values the table correlation carries for a withdrawn `ND_H_ref` / `ND_S_ref`, that are never asked for). -/
theorem HIST_failed_op_state {S : Spl} {o : Incomplete} (hf : FreshS S o) (op : Op) (e : Exc)
    (h : (step S o op).2 = .raised e) :
    held (step S o op).1 = held o ∧ SameValues o (step S o op).1 ∧ FreshS S (step S o op).1 ∧
      ((step S o op).1 = o ∨ (∃ r, op = .setRange r) ∧ (step S o op).1 = (setup S o).1) := by
  have hr : (step S o op).2.isRaised = true := by rw [h]; rfl
  have same : (step S o op).1 = o → held (step S o op).1 = held o ∧ SameValues o (step S o op).1 ∧
      FreshS S (step S o op).1 ∧ ((step S o op).1 = o ∨ (∃ r, op = .setRange r) ∧ (step S o op).1 = (setup S o).1) :=
    fun e => by rw [e]; exact ⟨rfl, fun _ _ => rfl, hf, Or.inl rfl⟩
  cases op with
  | update d ow => exact same ((freshS_update hf d ow).2 hr)
  | delCp T => exact same (HIST_failed_delCp_unchanged S o T e h)
  | delH => cases h
  | delS => cases h
  | copy => have := (freshS_copy hf).2.1; simp only [step] at hr; rw [hr] at this; cases this
  | eval q T => cases h
  | setRange r =>
    rcases (freshS_setRange hf r).2 hr with ⟨h1, h2, h3⟩ | h4
    · exact ⟨h1, h2, (freshS_setRange hf r).1, Or.inr ⟨⟨r, rfl⟩, h3⟩⟩
    · exact same h4

/-! ### HIST_eval_pure -/

/-- **Evaluation never changes the state** (any state, getter, temperature). -/
theorem HIST_eval_pure (S : Spl) (o : Incomplete) (q : Getter) (T : Rat) :
    (step S o (.eval q T)).1 = o ∧ (step S o (.eval q T)).2 = .value (getter q o T) := ⟨rfl, rfl⟩

/-- **Interleaving evaluations anywhere in a history changes nothing later**: two histories that agree once their
evaluations are deleted lead to the same object — so every later call (in particular every later evaluation) has the same
outcome and leaves the same state.  ("A memo must not outlive the data": whatever an evaluation computes, nothing of it is
seen by a later call.) -/
theorem HIST_eval_interleaving (S : Spl) (o : Incomplete) (ops₁ ops₂ : List Op)
    (h : ops₁.filter (fun op => !op.isEval) = ops₂.filter (fun op => !op.isEval)) :
    run S o ops₁ = run S o ops₂ ∧ (∀ rest, trace S (run S o ops₁) rest = trace S (run S o ops₂) rest) := by
  have : run S o ops₁ = run S o ops₂ := by rw [← run_filter S ops₁, ← run_filter S ops₂, h]
  exact ⟨this, fun rest => by rw [this]⟩

/-! ### HIST_history_independent -/

/-- **HIST_history_independent.** Two histories, from any two constructed objects, that end with the same held data
(reference values, table as a set of points, `T_ref`, range) end with objects that give the same outcome for every getter
at every temperature. -/
theorem HIST_history_independent {S : Spl} {c₁ c₂ : Corr} {o₁ o₂ : Incomplete}
    (h₁ : construct S c₁ = .ok o₁) (h₂ : construct S c₂ = .ok o₂) (ops₁ ops₂ : List Op)
    (h : SameData (run S o₁ ops₁) (run S o₂ ops₂)) : SameValues (run S o₁ ops₁) (run S o₂ ops₂) :=
  freshS_sameValues (freshS_run ops₁ (construct_ok h₁).1) (freshS_run ops₂ (construct_ok h₂).1) h

/-- in particular: the object after a history answers like the object constructed directly from the data it holds -/
theorem HIST_history_vs_constructor {S : Spl} {c : Corr} {o : Incomplete} (h : construct S c = .ok o) (ops : List Op) :
    ∃ o', construct S (held (run S o ops)) = .ok o' ∧ SameValues (run S o ops) o' := by
  obtain ⟨o', h1, -, h3⟩ := (HIST_invariant h ops).1
  exact ⟨o', h1, h3⟩

/-- **Corollary for `GroupLibrary.Update` / `Estimate`**: an estimate (`ThermochemGroupAdditive`, C06) made from
correlations that went through histories is constructed exactly when the one made from freshly constructed correlations
holding the same data is, has the same range, and gives the same `Cp/R`, `H/RT`, `S/R`, `G/RT` at every temperature. -/
theorem HIST_estimate_independent {S : Spl} {cs cs' : List (Incomplete × Rat)}
    (h : List.Forall₂ (fun a b => FreshS S a.1 ∧ FreshS S b.1 ∧ SameData a.1 b.1 ∧ a.2 = b.2) cs cs')
    {e : Estimate} (hmk : Estimate.mk cs = .ok e) :
    ∃ e', Estimate.mk cs' = .ok e' ∧ e'.range = e.range ∧
      ∀ T, e.CpoR T = e'.CpoR T ∧ e.HoRT T = e'.HoRT T ∧ e.SoR T = e'.SoR T ∧ e.GoRT T = e'.GoRT T :=
  estimate_congr (h.imp fun _ _ hab => ⟨freshS_sameValues hab.1 hab.2.1 hab.2.2.1, hab.2.2.1.range, hab.2.2.2⟩) hmk

/-! ### the state machine refines the C13 model -/

/-- **`update` here is C13's `update`**: projected to the C13 state (held data, "`_correlation` exists"), the state after the
call is `Merge.update`'s result — so every C13 theorem about `update` speaks about this state machine. -/
theorem HIST_update_refines_C13 {S : Spl} {o : Incomplete} (hf : FreshS S o) (d : Corr) (ow : Bool) :
    toObj (step S o (.update d ow)).1 = (Merge.update (rawEvalOf S) (toObj o) d ow).1 :=
  update_refines hf d ow

/-! ### the methods as they were before the repairs H2, H3 -/

def exS : Spl := fun _ => exIp

def Res.exc : Res → Option Exc
  | .raised e => some e
  | _ => none

def isOk {α : Type} (r : Except Err α) : Bool := match r with | .ok _ => true | .error _ => false

/-- **the translation of reference values inside `update`, full statement**: C13's evaluation of the temporary correlation
(`Merge.getH/getS` with `rawEvalOf S` for "away from the reference temperature" and the reference value itself at it) is
the C05/C06 getter of the constructed temporary correlation, for every temperature.  False as it stands: see
`HIST_translation_full_fails`. -/
def HIST_translation_is_C05_full : Prop :=
  ∀ (S : Spl) (c : Corr) (o : Incomplete) (T : Rat), construct S c = .ok o →
    Merge.getH (rawEvalOf S) c T = liftOut (o.HoRT T).1 ∧ Merge.getS (rawEvalOf S) c T = liftOut (o.SoR T).1

/-- **…proved away from the reference temperature and from 0 K**, for every interpolant family (no assumption on SciPy):
value, `IncompleteDataError` outside the range, missing reference value — all as the C05/C06 model of the constructed object
says. -/
theorem HIST_translation_is_C05_partial {S : Spl} {c : Corr} {o : Incomplete} (hc : construct S c = .ok o) (T : Rat)
    (hT : T ≠ c.Tref) (h0 : T ≠ 0) :
    Merge.getH (rawEvalOf S) c T = liftOut (o.HoRT T).1 ∧ Merge.getS (rawEvalOf S) c T = liftOut (o.SoR T).1 :=
  ⟨getH_is_thermo hc T (fun h => absurd h h0) (fun h => absurd h hT), getS_is_thermo hc T (fun h => absurd h hT)⟩

/-- **…and at the reference temperature** when the interpolant's integrals are additive (`Interp.Good`, assumption A-spline
of C05) and the range of the table correlation starts above 0 K: there C13 returns the reference value itself
(assumption A-ref of the C13 model), and so does C05 (`C05_ref_enthalpy`, `C05_ref_entropy`). -/
theorem HIST_reference_is_C05 {S : Spl} {c : Corr} {o : Incomplete} (hc : construct S c = .ok o)
    (hg : (S (sortPts c.cp)).Good) (hpos : ∀ d, o.corr = some d → 0 < d.range.1) :
    Merge.getH (rawEvalOf S) c c.Tref = liftOut (o.HoRT c.Tref).1 ∧
    Merge.getS (rawEvalOf S) c c.Tref = liftOut (o.SoR c.Tref).1 := by
  have key : ∀ d, o.corr = some d → d.HoRT c.Tref = .ok d.Href ∧ d.SoR c.Tref = .ok d.Sref ∧ c.Tref ≠ 0 := by
    intro d hd
    cases hcp : c.cp with
    | nil =>
      obtain ⟨hf, hh, -, -⟩ := construct_ok hc
      have : o.cp = [] := by have := congrArg CorrOf.cp hh; simp only [held] at this; rw [this, hcp]
      rw [hf.nocp this] at hd; cases hd
    | cons p ps =>
      obtain ⟨d', hmk, ho⟩ := construct_cons hc hcp
      rw [ho] at hd
      simp only [Option.some.injEq] at hd
      subst hd
      have hb := RawData.mk_built hmk
      have hp := hpos d' (by rw [ho])
      have h1 := C05_ref_enthalpy hmk hg hp
      have h2 := C05_ref_entropy hmk hg hp
      rw [← hb.href] at h1
      rw [← hb.sref] at h2
      have hz : c.Tref ≠ 0 := by
        have : d'.range.1 ≤ c.Tref := by have := hb.lo_le_ref; rwa [hb.tref] at this
        exact ne_of_gt (lt_of_lt_of_le hp this)
      exact ⟨h1, h2, hz⟩
  exact ⟨getH_is_thermo hc c.Tref (fun _ => rfl) (fun _ _ d hd => (key d hd).1),
         getS_is_thermo hc c.Tref (fun _ d hd => ⟨(key d hd).2.1, (key d hd).2.2⟩)⟩

def witT0 : Corr := ⟨some 1, some 2, [(300, 1)], 300, some (-10, 600)⟩

/-- **the excluded point**: at 0 K inside the range and away from `T_ref` the C13 model returns a number (`x / 0 = 0` in
`Rat`) where the C05 model — and the code: `ThermochemIncomplete(1, 2, {300: 1}, 300, (-10, 600)).get_HoRT(0.0)` raises
`ZeroDivisionError`, and so does `update` into a correlation with `T_ref = 0` — has the division by zero.  The state machine
takes `update` from C13, so its `update` is exact only for target reference temperatures other than 0 K (assumption "positive
temperatures" of C05/C06). -/
theorem HIST_translation_full_fails : ¬ HIST_translation_is_C05_full := by
  intro h
  have hw : (match construct exS witT0 with
      | .ok o => decide (Merge.getH (rawEvalOf exS) witT0 0 = .ok 0) && decide (liftOut (o.HoRT 0).1 = .error .zeroDiv)
      | .error _ => false) = true := by decide +kernel
  cases hc : construct exS witT0 with
  | error e => rw [hc] at hw; cases hw
  | ok o =>
    rw [hc] at hw
    simp only [Bool.and_eq_true, decide_eq_true_eq] at hw
    have := (h exS witT0 o 0 hc).1
    rw [hw.1, hw.2] at this
    cases this

def witH2 : Corr := ⟨some 1, some 2, [(300, 1), (400, 2), (500, 3)], 450, none⟩

/-- the facts about the unrepaired `del_ND_Cp(500)` on `witH2`: `ValueError`; the point is gone, `_correlation` is gone, the
constructor refuses the data the object now holds, `get_HoRT(350)` is an `AttributeError` -/
def witH2Facts : Bool :=
  match construct exS witH2 with
  | .error _ => false
  | .ok o =>
    let r := delCpOld exS o 500
    decide (r.2.exc = some .value) && decide (r.1.cp = [(300, 1), (400, 2)]) && r.1.corr.isNone &&
      !isOk (construct exS (held r.1)) && decide ((getter .h r.1 350).1 = .error .internal) &&
      -- the repaired method: same exception, nothing changed
      decide ((step exS o (.delCp (some 500))).2.exc = some .value) &&
      decide ((step exS o (.delCp (some 500))).1.cp = [(300, 1), (400, 2), (500, 3)]) &&
      decide ((getter .h (step exS o (.delCp (some 500))).1 350).1 = (getter .h o 350).1)

/-- **H2: before the repair a refused `del_ND_Cp(T)` left a broken object** — fresh before, not fresh afterwards (the
constructor refuses what it holds; every getter is an `AttributeError`). -/
theorem HIST_delCp_old_breaks :
    ∃ o T e, FreshS exS o ∧ (delCpOld exS o T).2 = .raised e ∧ ¬ Fresh exS (delCpOld exS o T).1 ∧
      (getter .h (delCpOld exS o T).1 350).1 = .error .internal := by
  have hw : witH2Facts = true := by decide +kernel
  unfold witH2Facts at hw
  cases hc : construct exS witH2 with
  | error e => rw [hc] at hw; cases hw
  | ok o =>
    rw [hc] at hw
    simp only [Bool.and_eq_true, decide_eq_true_eq, Bool.not_eq_true'] at hw
    obtain ⟨⟨⟨⟨⟨⟨⟨h1, -⟩, -⟩, h4⟩, h5⟩, -⟩, -⟩, -⟩ := hw
    refine ⟨o, 500, .value, (construct_ok hc).1, ?_, ?_, h5⟩
    · cases hr : (delCpOld exS o 500).2 with
      | raised e => rw [hr] at h1; simp only [Res.exc, Option.some.injEq] at h1; rw [h1]
      | done => rw [hr] at h1; cases h1
      | value v => rw [hr] at h1; cases h1
    · rintro ⟨o', ho', -, -⟩
      rw [ho'] at h4
      cases h4

def witH3 : Corr := ⟨some 1, some 2, [], 350, some (200, 600)⟩

def witH3Facts : Bool :=
  match construct exS witH3 with
  | .error _ => false
  | .ok o =>
    let r := setRangeOld exS o (some (600, 200))
    decide (r.2.exc = none) && decide (r.1.range = some (600, 200)) && !isOk (construct exS (held r.1)) &&
      decide ((step exS r.1 .copy).2.exc = some .assertion)

/-- **H3: before the repair `set_range` accepted a reversed range on a correlation without a table** — the call returned,
and the object then held data the constructor refuses (`copy()` raised `AssertionError`): not fresh. -/
theorem HIST_setRange_old_breaks :
    ∃ o r, FreshS exS o ∧ (setRangeOld exS o r).2.exc = none ∧ ¬ Fresh exS (setRangeOld exS o r).1 := by
  have hw : witH3Facts = true := by decide +kernel
  unfold witH3Facts at hw
  cases hc : construct exS witH3 with
  | error e => rw [hc] at hw; cases hw
  | ok o =>
    rw [hc] at hw
    simp only [Bool.and_eq_true, decide_eq_true_eq, Bool.not_eq_true'] at hw
    obtain ⟨⟨⟨h1, -⟩, h3⟩, -⟩ := hw
    refine ⟨o, some (600, 200), (construct_ok hc).1, h1, ?_⟩
    rintro ⟨o', ho', -, -⟩
    rw [ho'] at h3
    cases h3

/-! ### non-vacuity: a concrete history with every kind of call, calls that raise included -/

def exC : Corr := ⟨some (-10), some 30, [(400, 4), (300, 3), (500, 5)], 350, some (200, 1000)⟩
def exD : Corr := ⟨some 7, none, [(600, 6), (400, 4)], 350, some (250, 1200)⟩
def exConflict : Corr := ⟨none, none, [(300, 9)], 350, none⟩

def exOps : List Op :=
  [.eval .h 350, .update exD true, .eval .g 450, .update exConflict false,        -- refused: ReadOnlyDataError
   .delCp (some 999),                                                           -- KeyError
   .delCp (some 600), .setRange (some (320, 1000)),                              -- refused: table outside
   .setRange (some (900, 100)),                                                  -- refused: reversed
   .delH, .setRange (some (250, 800)), .copy, .delS, .delCp none, .eval .cp 350, .update exC false]

def excs (S : Spl) (o : Incomplete) (ops : List Op) : List (Option Exc) := (trace S o ops).map (·.2.exc)

/-- hypotheses of `HIST_invariant` / `HIST_history_independent` / `HIST_failed_op_state`: the constructor accepts `exC`; in
the history `exOps` exactly the four calls announced raise, with the announced exception classes; the final object holds
the data of `exC` again but for the range, which has grown -/
example : (match construct exS exC with
    | .error _ => false
    | .ok o =>
      decide (excs exS o exOps = [none, none, none, some .readOnly, some .key, none, some .value, some .assertion, none, none,
        none, none, none, none, none]) &&
      decide ((run exS o exOps).cp = [(400, 4), (300, 3), (500, 5)]) && decide ((run exS o exOps).range = some (200, 1000)) &&
      decide ((run exS o exOps).Href = some (-10)) && decide ((run exS o (exOps.take 10)).Href = none)) = true := by
  decide +kernel

/-- hypothesis of `HIST_history_independent`: two different histories ending with the same data (in another dictionary
order) -/
example : (match construct exS exC, construct exS ⟨none, some 30, [(500, 5)], 350, some (300, 600)⟩ with
    | .ok o₁, .ok o₂ =>
      let a := run exS o₁ [.eval .s 400, .setRange (some (100, 2000)), .setRange (some (200, 1000))]
      let b := run exS o₂ [.update ⟨some (-10), none, [(300, 3), (400, 4)], 350, some (200, 1000)⟩ false, .copy]
      decide (a.cp = [(400, 4), (300, 3), (500, 5)]) && decide (b.cp = [(500, 5), (300, 3), (400, 4)]) &&
      decide (a.Href = b.Href) && decide (a.Sref = b.Sref) && decide (a.Tref = b.Tref) && decide (a.range = b.range) &&
      decide (getter .h a 450 = getter .h b 450)
    | _, _ => false) = true := by
  decide +kernel

/-- hypothesis of `HIST_eval_interleaving` -/
example : exOps.filter (fun op => !op.isEval) = (exOps ++ [Op.eval .h 1, Op.eval .s 2]).filter (fun op => !op.isEval) := by
  simp [exOps, Op.isEval]

end PGA.CorrHistory
