import PGA.Proofs.Estimate
/-!
# C01 — the estimate is the exact count-weighted sum of the group contributions

Property theorems about the model `PGA.Model.Estimate` of `GroupLibrary.Estimate`/`__getitem__`
(`pgradd/GroupAdd/Library.py`), `ThermochemGroupAdditive` (`pgradd/ThermoChem/group_data.py`) and
`ThermochemBase.get_GoRT` (`pgradd/ThermoChem/base.py`).  Vocabulary in `PGA/Spec/Estimate.lean`
(`corrOf`, `HasDatum`, `FailsWith`, `specEstimate`, `specMissing`, `Terms`), helper lemmas in
`PGA/Proofs/Estimate.lean`.

Quantifiers are unbounded: every library (any number of entries and property sets), every mapping given as a
list `(descriptor, count)` of any length with rational counts — integer, fractional, zero, negative —, every
temperature, every type of descriptor names.  What a constituent's own correlation returns is a parameter
(`Corr`): a value or an error class per temperature.

`e.CpoR T`, `e.HoRT T` are by definition `wsum (·.cp T) e.correlations`, `wsum (·.hort T) e.correlations`;
the general theorems are stated for an arbitrary datum `get : Corr → Val` and instantiated for the four
non-dimensional properties.
-/
namespace PGA.Estimate

section
variable {N S : Type} [DecidableEq N] [DecidableEq S]

/-- **T1 (terms)** A successful `Estimate` holds exactly one term per entry of the mapping, in mapping order:
the descriptor's own correlation for the requested property set, with the mapping's count. -/
theorem C01_terms (reg : List S) (lib : Library N S) (gs : List (N × Rat)) (s : S) (e : Estimator)
    (he : estimate reg lib gs s = .ok e) : Terms lib s gs e.correlations := by
  obtain ⟨_, _, hc⟩ := (estimate_ok_iff reg lib gs s e).mp he
  exact collect_ok lib s gs _ (construct_ok lib s gs e hc).1

/-- **T1 (value)** For any datum: the estimate returns `v` exactly when every descriptor of the mapping has
that datum and `v = Σ count · (the descriptor's own value)`. -/
theorem C01_value_iff (get : Corr → Val) (reg : List S) (lib : Library N S) (gs : List (N × Rat)) (s : S)
    (e : Estimator) (he : estimate reg lib gs s = .ok e) (v : Rat) :
    wsum get e.correlations = .ok v ↔
      (∀ g ∈ gs, HasDatum lib s get g.1) ∧ v = specEstimate lib s get gs := by
  have ht := C01_terms reg lib gs s e he
  rw [wsum_ok_iff, terms_allOk_iff lib s get gs _ ht, terms_specSum lib s get gs _ ht]

/-- **T1 for H/RT**: `get_HoRT(T)` of the estimate is `Σ n·h_d(T)`. -/
theorem C01_sum_H (reg : List S) (lib : Library N S) (gs : List (N × Rat)) (s : S) (e : Estimator) (T : Rat)
    (he : estimate reg lib gs s = .ok e) (h : N → Rat)
    (hv : ∀ g ∈ gs, ∃ c, corrOf lib s g.1 = some c ∧ c.hort T = .ok (h g.1)) :
    e.HoRT T = .ok ((gs.map fun g => g.2 * h g.1).sum) :=
  estimate_sum (·.hort T) reg lib gs s e he h hv

/-- **T1 for Cp/R**. -/
theorem C01_sum_Cp (reg : List S) (lib : Library N S) (gs : List (N × Rat)) (s : S) (e : Estimator) (T : Rat)
    (he : estimate reg lib gs s = .ok e) (h : N → Rat)
    (hv : ∀ g ∈ gs, ∃ c, corrOf lib s g.1 = some c ∧ c.cp T = .ok (h g.1)) :
    e.CpoR T = .ok ((gs.map fun g => g.2 * h g.1).sum) :=
  estimate_sum (·.cp T) reg lib gs s e he h hv

/-- **T1 for S/R** (entropy not taken relative to the elements: any falsy `S_elements`). -/
theorem C01_sum_S (reg : List S) (lib : Library N S) (gs : List (N × Rat)) (s : S) (e : Estimator) (T : Rat)
    (sel : Nat → Option Rat) (flag : PyFlag) (hf : flag.truthy = false)
    (he : estimate reg lib gs s = .ok e) (h : N → Rat)
    (hv : ∀ g ∈ gs, ∃ c, corrOf lib s g.1 = some c ∧ c.sor T = .ok (h g.1)) :
    e.SoR sel T flag = .ok ((gs.map fun g => g.2 * h g.1).sum) := by
  rw [SoR_plain sel e T flag hf]
  exact estimate_sum (·.sor T) reg lib gs s e he h hv

/-- **T1 for G/RT**: `get_GoRT(T)` of the estimate is `Σ n·(h_d(T) − s_d(T))`, the weighted sum of the
constituents' own `G/RT`. -/
theorem C01_sum_G (reg : List S) (lib : Library N S) (gs : List (N × Rat)) (s : S) (e : Estimator) (T : Rat)
    (sel : Nat → Option Rat) (flag : PyFlag) (hf : flag.truthy = false)
    (he : estimate reg lib gs s = .ok e) (hh hs : N → Rat)
    (hvh : ∀ g ∈ gs, ∃ c, corrOf lib s g.1 = some c ∧ c.hort T = .ok (hh g.1))
    (hvs : ∀ g ∈ gs, ∃ c, corrOf lib s g.1 = some c ∧ c.sor T = .ok (hs g.1)) :
    (e.toND sel).GoRT T flag = .ok ((gs.map fun g => g.2 * (hh g.1 - hs g.1)).sum) := by
  have h1 := C01_sum_H reg lib gs s e T he hh hvh
  have h2 := C01_sum_S reg lib gs s e T sel flag hf he hs hvs
  simp only [ND.GoRT, Estimator.toND, h1, h2, sum_sub_sum]

/-- **T2** The estimate fails for a datum exactly when some descriptor of the mapping fails for it. -/
theorem C01_error_iff (get : Corr → Val) (reg : List S) (lib : Library N S) (gs : List (N × Rat)) (s : S)
    (e : Estimator) (he : estimate reg lib gs s = .ok e) :
    (∃ err, wsum get e.correlations = .error err) ↔ ∃ g ∈ gs, ∃ err, FailsWith lib s get g.1 err := by
  have ht := C01_terms reg lib gs s e he
  constructor
  · rintro ⟨err, h⟩
    obtain ⟨pre, p, post, hcs, _, hp⟩ := (wsum_error_iff get _ err).mp h
    rw [hcs] at ht
    obtain ⟨gpre, g, gpost, rfl, _, hg, _⟩ := terms_split lib s gs pre p post ht
    exact ⟨g, by simp, err, p.1, hg, hp⟩
  · rintro ⟨g, hg, err, c, hc, hcerr⟩
    cases hw : wsum get e.correlations with
    | error err' => exact ⟨err', rfl⟩
    | ok v =>
      obtain ⟨hall, _⟩ := (C01_value_iff get reg lib gs s e he v).mp hw
      obtain ⟨c', w, hc', hw'⟩ := hall g hg
      rw [hc] at hc'; cases hc'
      rw [hcerr] at hw'; cases hw'

/-- **T2 (which error)** The estimate fails with `err` exactly when the first descriptor (in mapping order)
whose own correlation fails, fails with `err`: the terms are evaluated left to right and the first exception
ends the evaluation. -/
theorem C01_first_error (get : Corr → Val) (reg : List S) (lib : Library N S) (gs : List (N × Rat)) (s : S)
    (e : Estimator) (he : estimate reg lib gs s = .ok e) (err : Err) :
    wsum get e.correlations = .error err ↔
      ∃ pre g post, gs = pre ++ g :: post ∧ (∀ p ∈ pre, HasDatum lib s get p.1) ∧ FailsWith lib s get g.1 err := by
  have ht := C01_terms reg lib gs s e he
  rw [wsum_error_iff]
  constructor
  · rintro ⟨pre, p, post, hcs, hpre, hp⟩
    rw [hcs] at ht
    obtain ⟨gpre, g, gpost, rfl, t1, hg, _⟩ := terms_split lib s gs pre p post ht
    exact ⟨gpre, g, gpost, rfl, (terms_allOk_iff lib s get gpre pre t1).mp hpre, p.1, hg, hp⟩
  · rintro ⟨gpre, g, gpost, rfl, hpre, c, hc, hcerr⟩
    -- split the terms along the mapping
    have key : ∀ (gpre : List (N × Rat)) (cs : List (Corr × Rat)), Terms lib s (gpre ++ g :: gpost) cs →
        ∃ pre p post, cs = pre ++ p :: post ∧ Terms lib s gpre pre ∧ corrOf lib s g.1 = some p.1 := by
      intro gpre
      induction gpre with
      | nil =>
        intro cs ht
        cases cs with
        | nil => simp [Terms] at ht
        | cons p post => exact ⟨[], p, post, rfl, trivial, ht.1⟩
      | cons q gpre ih =>
        intro cs ht
        cases cs with
        | nil => simp [Terms] at ht
        | cons p0 cs =>
          obtain ⟨a, b, t⟩ := ht
          obtain ⟨pre, p, post, rfl, t1, t2⟩ := ih cs t
          exact ⟨p0 :: pre, p, post, rfl, ⟨a, b, t1⟩, t2⟩
    obtain ⟨pre, p, post, hcs, t1, t2⟩ := key gpre _ ht
    refine ⟨pre, p, post, hcs, (terms_allOk_iff lib s get gpre pre t1).mpr hpre, ?_⟩
    rw [hc] at t2; cases t2; exact hcerr

/-- **T2 (incomplete data)** When the constituents' only failure mode for the datum is the incomplete-data
error, the estimate raises the incomplete-data error iff some descriptor of the mapping lacks the datum. -/
theorem C01_incomplete_iff (get : Corr → Val) (reg : List S) (lib : Library N S) (gs : List (N × Rat)) (s : S)
    (e : Estimator) (he : estimate reg lib gs s = .ok e)
    (honly : ∀ g ∈ gs, ∀ err, FailsWith lib s get g.1 err → err = .incomplete) :
    wsum get e.correlations = .error .incomplete ↔ ∃ g ∈ gs, FailsWith lib s get g.1 .incomplete := by
  constructor
  · intro h
    obtain ⟨g, hg, err, hf⟩ := (C01_error_iff get reg lib gs s e he).mp ⟨_, h⟩
    exact ⟨g, hg, honly g hg err hf ▸ hf⟩
  · rintro ⟨g, hg, hf⟩
    obtain ⟨err, h⟩ := (C01_error_iff get reg lib gs s e he).mpr ⟨g, hg, _, hf⟩
    obtain ⟨pre, g', post, hgs, _, hf'⟩ := (C01_first_error get reg lib gs s e he err).mp h
    have : err = .incomplete := honly g' (by rw [hgs]; simp) err hf'
    rw [← this]; exact h

/-- **T3** `Estimate` fails with the missing-data error naming `ds` exactly when the property set is registered,
`ds` is the list of the mapping's descriptors without that property set — in mapping order — and `ds` is not empty. -/
theorem C01_missing_iff (reg : List S) (lib : Library N S) (gs : List (N × Rat)) (s : S) (ds : List N) :
    estimate reg lib gs s = .error (.missing ds) ↔
      reg.contains s = true ∧ ds = specMissing lib s gs ∧ ds ≠ [] := by
  unfold estimate
  rw [missingGroups_eq_spec]
  split
  · rename_i hr
    split
    · rename_i hm
      constructor
      · intro h
        rcases construct_error lib s gs _ h hm with ⟨g, hg⟩ | hg | hg <;> cases hg
      · rintro ⟨_, h1, h2⟩; rw [hm] at h1; exact absurd h1 h2
    · rename_i m ms hm
      constructor
      · intro h; cases h; exact ⟨hr, hm.symm, by simp⟩
      · rintro ⟨_, h1, _⟩; rw [h1, hm]
  · rename_i hr
    constructor
    · intro h; cases h
    · rintro ⟨h, _⟩; exact absurd h hr

/-- **T3 (unregistered property set)** `Estimate` fails with the invalid-name `KeyError` exactly when the property-set
name is not registered — before any descriptor is looked at. -/
theorem C01_invalid_set_iff (reg : List S) (lib : Library N S) (gs : List (N × Rat)) (s : S) :
    estimate reg lib gs s = .error .invalidSet ↔ reg.contains s = false := by
  unfold estimate
  rw [missingGroups_eq_spec]
  split
  · rename_i hr
    simp only [hr, Bool.true_eq_false, iff_false]
    split
    · rename_i hm
      intro h
      rcases construct_error lib s gs _ h hm with ⟨g, hg⟩ | hg | hg <;> cases hg
    · intro h; cases h
  · rename_i hr
    simp only [true_iff]
    simpa using hr

/-- **T3 (no partial sum)** If some descriptor of the mapping lacks the property set there is no estimate at
all: the outcome carries no value (for any registered or unregistered set name). -/
theorem C01_missing_no_value (reg : List S) (lib : Library N S) (gs : List (N × Rat)) (s : S)
    (g : N × Rat) (hg : g ∈ gs) (hno : corrOf lib s g.1 = none) (e : Estimator) :
    estimate reg lib gs s ≠ .ok e := by
  intro h
  obtain ⟨_, hm, _⟩ := (estimate_ok_iff reg lib gs s e).mp h
  obtain ⟨c, hc⟩ := (specMissing_nil_iff lib s gs).mp hm g hg
  rw [hno] at hc; cases hc

/-- The `KeyError` of `lib[group]['thermochem']` inside the estimator cannot occur: the check comes first. -/
theorem C01_no_keyError (reg : List S) (lib : Library N S) (gs : List (N × Rat)) (s : S) :
    estimate reg lib gs s ≠ .error .keyError := by
  unfold estimate
  rw [missingGroups_eq_spec]
  split
  · split
    · rename_i hm
      intro h
      rcases construct_error lib s gs _ h hm with ⟨g, hg⟩ | hg | hg <;> cases hg
    · intro h; cases h
  · intro h; cases h

/-- `GroupLibrary.__getitem__` returns the empty collection of property sets for a descriptor the library does
not know; such a descriptor therefore counts as lacking every property set. -/
theorem C01_lookup_unknown (lib : Library N S) (s : S) (g : N) (hg : ∀ p ∈ lib.contents, p.1 ≠ g) :
    lib.getItem g = [] ∧ corrOf lib s g = none := by
  have : lib.contents.lookup g = none := by
    rw [List.lookup_eq_none_iff]
    intro p hp
    simpa using (hg p hp).symm
  simp [corrOf, Library.getItem, this]

/-- **T4 (order, outcome)** Whether `Estimate` succeeds does not depend on the order of the mapping. -/
theorem C01_perm_outcome (reg : List S) (lib : Library N S) {gs gs' : List (N × Rat)} (s : S) (hp : gs.Perm gs') :
    (∃ e, estimate reg lib gs s = .ok e) ↔ (∃ e', estimate reg lib gs' s = .ok e') := by
  constructor
  · rintro ⟨e, he⟩; obtain ⟨e', he', _⟩ := estimate_perm reg lib s e hp he; exact ⟨e', he'⟩
  · rintro ⟨e, he⟩; obtain ⟨e', he', _⟩ := estimate_perm reg lib s e hp.symm he; exact ⟨e', he'⟩

/-- **T4 (order, Cp/R)** -/
theorem C01_perm_Cp (reg : List S) (lib : Library N S) {gs gs' : List (N × Rat)} (s : S) (e e' : Estimator) (T v : Rat)
    (hp : gs.Perm gs') (he : estimate reg lib gs s = .ok e) (he' : estimate reg lib gs' s = .ok e') :
    e.CpoR T = .ok v ↔ e'.CpoR T = .ok v :=
  (wsum_perm _ (perm_terms reg lib s e e' hp he he').1 v).symm

/-- **T4 (order, H/RT)** The order of the mapping does not change `get_HoRT`. -/
theorem C01_perm_H (reg : List S) (lib : Library N S) {gs gs' : List (N × Rat)} (s : S) (e e' : Estimator) (T v : Rat)
    (hp : gs.Perm gs') (he : estimate reg lib gs s = .ok e) (he' : estimate reg lib gs' s = .ok e') :
    e.HoRT T = .ok v ↔ e'.HoRT T = .ok v :=
  (wsum_perm _ (perm_terms reg lib s e e' hp he he').1 v).symm

/-- **T4 (order, S/R)**, with or without the elemental term. -/
theorem C01_perm_S (reg : List S) (lib : Library N S) {gs gs' : List (N × Rat)} (s : S) (e e' : Estimator) (T v : Rat)
    (sel : Nat → Option Rat) (flag : PyFlag)
    (hp : gs.Perm gs') (he : estimate reg lib gs s = .ok e) (he' : estimate reg lib gs' s = .ok e') :
    e.SoR sel T flag = .ok v ↔ e'.SoR sel T flag = .ok v := by
  obtain ⟨h1, h2, _⟩ := perm_terms reg lib s e e' hp he he'
  rw [SoR_ok_iff, SoR_ok_iff, h2]
  simp only [wsum_perm _ h1]

/-- **T4 (order, G/RT)** -/
theorem C01_perm_G (reg : List S) (lib : Library N S) {gs gs' : List (N × Rat)} (s : S) (e e' : Estimator) (T v : Rat)
    (sel : Nat → Option Rat) (flag : PyFlag)
    (hp : gs.Perm gs') (he : estimate reg lib gs s = .ok e) (he' : estimate reg lib gs' s = .ok e') :
    (e.toND sel).GoRT T flag = .ok v ↔ (e'.toND sel).GoRT T flag = .ok v := by
  rw [GoRT_ok_iff, GoRT_ok_iff]
  simp only [Estimator.toND, C01_perm_H reg lib s e e' T _ hp he he', C01_perm_S reg lib s e e' T _ sel flag hp he he']

/-- **T4 (linearity: splitting the mapping)** For any datum, the estimate of `g₁ ++ g₂` has the value `v` iff the
estimates of `g₁` and `g₂` have values adding up to `v`: `est(g₁ ++ g₂) = est g₁ + est g₂`. -/
theorem C01_append (get : Corr → Val) (reg : List S) (lib : Library N S) (g1 g2 : List (N × Rat)) (s : S)
    (e e1 e2 : Estimator) (he : estimate reg lib (g1 ++ g2) s = .ok e)
    (he1 : estimate reg lib g1 s = .ok e1) (he2 : estimate reg lib g2 s = .ok e2) (v : Rat) :
    wsum get e.correlations = .ok v ↔
      ∃ v1 v2, wsum get e1.correlations = .ok v1 ∧ wsum get e2.correlations = .ok v2 ∧ v = v1 + v2 := by
  simp only [C01_value_iff get reg lib _ s _ he, C01_value_iff get reg lib _ s _ he1, C01_value_iff get reg lib _ s _ he2,
    specEstimate_append, List.mem_append]
  constructor
  · rintro ⟨h, rfl⟩
    exact ⟨_, _, ⟨fun g hg => h g (Or.inl hg), rfl⟩, ⟨fun g hg => h g (Or.inr hg), rfl⟩, rfl⟩
  · rintro ⟨v1, v2, ⟨h1, rfl⟩, ⟨h2, rfl⟩, rfl⟩
    exact ⟨fun g hg => hg.elim (h1 g) (h2 g), rfl⟩

/-- **T4 (linearity: scaling)** Multiplying every count by `k` multiplies every property by `k`. -/
theorem C01_scale (get : Corr → Val) (reg : List S) (lib : Library N S) (gs : List (N × Rat)) (s : S) (k : Rat)
    (e e' : Estimator) (he : estimate reg lib gs s = .ok e)
    (he' : estimate reg lib (gs.map fun g => (g.1, k * g.2)) s = .ok e') (v : Rat)
    (hv : wsum get e.correlations = .ok v) : wsum get e'.correlations = .ok (k * v) := by
  rw [C01_value_iff get reg lib _ s _ he] at hv
  rw [C01_value_iff get reg lib _ s _ he']
  obtain ⟨h, rfl⟩ := hv
  refine ⟨?_, ?_⟩
  · intro g hg
    obtain ⟨g0, hg0, rfl⟩ := List.mem_map.mp hg
    exact h g0 hg0
  · exact (specEstimate_scale lib s get k gs).symm

/-- **T4 (merging counts)** Giving a descriptor the count `n₁ + n₂` is the same as listing it twice with `n₁`, `n₂`. -/
theorem C01_merge_counts (get : Corr → Val) (reg : List S) (lib : Library N S) (d : N) (n1 n2 : Rat)
    (rest : List (N × Rat)) (s : S) (e e' : Estimator)
    (he : estimate reg lib ((d, n1) :: (d, n2) :: rest) s = .ok e)
    (he' : estimate reg lib ((d, n1 + n2) :: rest) s = .ok e') (v : Rat) :
    wsum get e.correlations = .ok v ↔ wsum get e'.correlations = .ok v := by
  rw [C01_value_iff get reg lib _ s _ he, C01_value_iff get reg lib _ s _ he']
  have hs : specEstimate lib s get ((d, n1) :: (d, n2) :: rest) = specEstimate lib s get ((d, n1 + n2) :: rest) := by
    simp only [specEstimate, List.map_cons, List.sum_cons]; ring
  rw [hs]
  simp only [List.mem_cons, forall_eq_or_imp]
  tauto

/-- **Zero counts** A descriptor with count 0 adds nothing to any value, but it still has to have the datum. -/
theorem C01_zero_count (get : Corr → Val) (reg : List S) (lib : Library N S) (d : N) (rest : List (N × Rat)) (s : S)
    (e e' : Estimator) (he : estimate reg lib ((d, 0) :: rest) s = .ok e) (he' : estimate reg lib rest s = .ok e') (v : Rat) :
    wsum get e.correlations = .ok v ↔ HasDatum lib s get d ∧ wsum get e'.correlations = .ok v := by
  rw [C01_value_iff get reg lib _ s _ he, C01_value_iff get reg lib _ s _ he']
  have hs : specEstimate lib s get ((d, 0) :: rest) = specEstimate lib s get rest := by
    simp [specEstimate]
  rw [hs]
  simp only [List.mem_cons, forall_eq_or_imp]
  tauto

/-- **Range** The range of a successful estimate is a non-empty interval inside the range of every constituent
that declares one (and is absent exactly when no constituent declares one). -/
theorem C01_range_inter (reg : List S) (lib : Library N S) (gs : List (N × Rat)) (s : S) (e : Estimator)
    (he : estimate reg lib gs s = .ok e) :
    match e.range with
    | none => ∀ c ∈ e.correlations, c.1.range = none
    | some (lo, hi) => lo ≤ hi ∧ ∀ c ∈ e.correlations, ∀ a b, c.1.range = some (a, b) → a ≤ lo ∧ hi ≤ b := by
  obtain ⟨_, _, hc⟩ := (estimate_ok_iff reg lib gs s e).mp he
  obtain ⟨cs, uq, _, _, hf⟩ := (construct_ok_iff lib s gs e).mp hc
  have spec := foldRange_spec cs none
  unfold finish at hf
  unfold commonRange at hf
  split at hf
  · rename_i h0
    cases hf
    rw [h0] at spec
    exact spec.2
  · rename_i lo hi h0
    split at hf
    · rename_i hle
      cases hf
      rw [h0] at spec
      exact ⟨hle, spec.2⟩
    · cases hf

end

/-! ### non-vacuity: a concrete library and mappings meeting the hypotheses -/
namespace Ex01

def cA : Corr := ⟨fun _ => .ok 2, fun T => .ok (T / 100), fun _ => .ok (1/2), some (100, 1000)⟩
def cB : Corr := ⟨fun _ => .error .incomplete, fun _ => .ok (-3), fun _ => .error .incomplete, some (200, 1500)⟩
def cC : Corr := ⟨fun _ => .ok 1, fun _ => .ok 7, fun _ => .ok 1, some (1200, 1300)⟩
/-- descriptors 1, 2, 4 carry property set 0; descriptor 3 is listed without it; 5 is unknown -/
def lib : Library Nat Nat := ⟨[(1, [(0, cA)]), (2, [(0, cB)]), (3, [(9, cA)]), (4, [(0, cC)])], none, none⟩

def okVal (r : Val) (v : Rat) : Bool := match r with | .ok w => w == v | .error _ => false
def errVal (r : Val) (e : Err) : Bool := match r with | .ok _ => false | .error e' => e' == e
def chk (gs : List (Nat × Rat)) (f : Estimator → Bool) : Bool :=
  match estimate [0] lib gs 0 with | .ok e => f e | .error _ => false
def errIs (gs : List (Nat × Rat)) (s : Nat) (err : EstErr Nat) : Bool :=
  match estimate [0] lib gs s with | .ok _ => false | .error e => e == err

/-- fractional, negative and zero counts: H/RT(300) = 2·3 + (−1/2)·(−3) + 0·3 = 15/2 -/
example : chk [(1, 2), (2, -1/2)] (fun e => okVal (e.HoRT 300) (15/2)) = true := by decide +kernel
/-- Cp/R: the second descriptor has no heat-capacity datum → incomplete-data error, although H/RT exists -/
example : chk [(1, 2), (2, -1/2)] (fun e => errVal (e.CpoR 300) .incomplete) = true := by decide +kernel
example : chk [(1, 2), (1, 3)] (fun e => okVal (e.HoRT 300) 15) = true := by decide +kernel
example : chk [(1, 0), (2, 1)] (fun e => okVal (e.HoRT 300) (-3)) = true := by decide +kernel
/-- range: intersection [200, 1000] -/
example : chk [(1, 2), (2, -1/2)] (fun e => e.range == some (200, 1000)) = true := by decide +kernel
/-- missing data: exactly the descriptors without the set, in mapping order; an unregistered set; disjoint ranges -/
example : errIs [(5, 1), (1, 2), (3, 0)] 0 (.missing [5, 3]) = true := by decide +kernel
example : errIs [(1, 2)] 7 .invalidSet = true := by decide +kernel
example : errIs [(1, 1), (4, 1)] 0 .emptyRange = true := by decide +kernel

end Ex01

end PGA.Estimate
