import PGA.Model.Pipeline
namespace PGA.Pipeline
end PGA.Pipeline
