import PGA.Proofs.PipelineCompose
import PGA.Props.C07
import PGA.Props.C19
import PGA.Props.C20
/-!
# The pipeline `lib.Estimate(lib.GetDescriptors(x), 'thermochem').get_X(T)` — composition theorems

What a user of pgradd relies on is the *composition* of the layers that C01–C04, C07, C19, C20 decide one by one.
`PGA.Pipeline.pipeline reg S lib m set` (`PGA/Model/Pipeline.lean`) is that composition — `decompose S m`, then
`estimate` over the resulting dictionary with string keys — and the theorems below are about it, for every scheme,
library, molecule graph and temperature:

* `PIPE_value_depends_on_counts_only` — an estimate sees a dictionary only through the count of each name;
* `PIPE_relabel_invariant` (C03 ∘ C01) — renumbering the atoms changes nothing of the outcome;
* `PIPE_mixture_additive`, `PIPE_mixture_failure`, `PIPE_mixture_range`, `PIPE_mixture_quadratic` (C04 ∘ C01/C20) —
  `A ⊔ B`: values add up, failures propagate stage by stage, the range is the intersection, `xᵀMx` gets a cross term;
* `PIPE_spelling_*` (C19 ∘ C14/C01) — how a library file spells a group does not matter, how a *string key* spells it does;
* `PIPE_dimensional_*` (∘ C07) — all of the above for `H`, `G`, `S`, `Cp` in units.

Vocabulary (`SameVal`, `SumVal`, `Agree`, `NDSame`, `NDSum`, `SameOutcome`, `UnionHyps`, `SeparatedMol`, `PKind`, `mixP`, `mixRange`,
`EstKind`, `outcomeKind`, `mixKind`, `specBilin`, `SameSpelling`) in `PGA/Spec/Pipeline.lean`; helper lemmas in
`PGA/Proofs/Pipeline.lean`, `PipelineKeys.lean`, `PipelineCompose.lean`.
-/
namespace PGA.Pipeline
open PGA PGA.Spec PGA.Scheme PGA.Decompose PGA.Match PGA.Estimate

/-- the driver (`PGA/Drv/Pipeline.lean`) decomposes a molecule once and runs `estimateOf` for each temperature's library: what it
reports is `pipeline` -/
theorem PIPE_driver_computes_pipeline (reg : List String) (S : SchemeDef) (lib : Lib) (m : Mol) (set : String) :
    estimateOf reg set (remember lib m, decompose S m) = pipeline reg S lib m set := rfl

/-! ### an estimate sees a dictionary through its counts only -/

/-- **Counts only, any datum.** Two dictionaries (distinct keys) giving every name the same count — the entries may come
in any order, and a name may be listed with the count 0 in one and be absent from the other: if `Estimate` succeeds for
both, no datum of the two estimates can differ.  If moreover the same names are listed, each datum exists for one exactly
when it exists for the other. -/
theorem PIPE_wsum_depends_on_counts_only (get : Corr → Val) (reg : List String) (lib : Lib) (c c' : Counts) (s : String)
    (e e' : Estimator) (hc : (Counts.keys c).Nodup) (hc' : (Counts.keys c').Nodup) (hget : ∀ k, c.get k = c'.get k)
    (he : estimate reg lib c s = .ok e) (he' : estimate reg lib c' s = .ok e') :
    Agree (wsum get e.correlations) (wsum get e'.correlations) ∧
    ((∀ k, k ∈ Counts.keys c ↔ k ∈ Counts.keys c') → SameVal (wsum get e.correlations) (wsum get e'.correlations)) := by
  constructor
  · intro v v' hv hv'
    rw [C01_value_iff get reg lib c s e he] at hv
    rw [C01_value_iff get reg lib c' s e' he'] at hv'
    rw [hv.2, hv'.2]
    exact specEstimate_congr lib s get c c' hc hc' hget
  · intro hk v
    have hp := counts_perm c c' hc hc' hk hget
    exact (wsum_perm _ (perm_terms reg lib s e e' hp he he').1 v).symm

/-- **Counts only: `H/RT`, `Cp/R`, `S/R` (entropy not taken relative to the elements) at every temperature.**
Same hypotheses as above.  `C01_perm_*` (order), `C01_merge_counts`, `C01_zero_count` are instances. -/
theorem PIPE_value_depends_on_counts_only (reg : List String) (lib : Lib) (c c' : Counts) (s : String)
    (e e' : Estimator) (hc : (Counts.keys c).Nodup) (hc' : (Counts.keys c').Nodup) (hget : ∀ k, c.get k = c'.get k)
    (he : estimate reg lib c s = .ok e) (he' : estimate reg lib c' s = .ok e') (T : Rat) :
    Agree (e.HoRT T) (e'.HoRT T) ∧ Agree (e.CpoR T) (e'.CpoR T) ∧
    (∀ sel flag, flag.truthy = false → Agree (e.SoR sel T flag) (e'.SoR sel T flag)) ∧
    ((∀ k, k ∈ Counts.keys c ↔ k ∈ Counts.keys c') →
      SameVal (e.HoRT T) (e'.HoRT T) ∧ SameVal (e.CpoR T) (e'.CpoR T) ∧
      ∀ sel flag, SameVal (e.SoR sel T flag) (e'.SoR sel T flag)) := by
  refine ⟨(PIPE_wsum_depends_on_counts_only (·.hort T) reg lib c c' s e e' hc hc' hget he he').1,
    (PIPE_wsum_depends_on_counts_only (·.cp T) reg lib c c' s e e' hc hc' hget he he').1, ?_, ?_⟩
  · intro sel flag hf
    rw [SoR_plain sel e T flag hf, SoR_plain sel e' T flag hf]
    exact (PIPE_wsum_depends_on_counts_only (·.sor T) reg lib c c' s e e' hc hc' hget he he').1
  · intro hk
    have hp := counts_perm c c' hc hc' hk hget
    exact ⟨fun v => C01_perm_H reg lib s e e' T v hp he he', fun v => C01_perm_Cp reg lib s e e' T v hp he he',
      fun sel flag v => C01_perm_S reg lib s e e' T v sel flag hp he he'⟩

/-- **Counts only: whether there is an estimate at all.** With the same names listed (and the same counts), `Estimate`
succeeds for one dictionary exactly when it does for the other, fails at the same stage, and a missing-data error names
the same descriptors. -/
theorem PIPE_outcome_depends_on_counts_only (reg : List String) (lib : Lib) (c c' : Counts) (s : String)
    (hc : (Counts.keys c).Nodup) (hc' : (Counts.keys c').Nodup) (hget : ∀ k, c.get k = c'.get k)
    (hk : ∀ k, k ∈ Counts.keys c ↔ k ∈ Counts.keys c') :
    kindOf (estimate reg lib c' s) = kindOf (estimate reg lib c s) ∧
    ∀ ds, estimate reg lib c s = .error (.missing ds) → ∃ ds', estimate reg lib c' s = .error (.missing ds') ∧ ds'.Perm ds :=
  estimate_perm_kind reg lib s (counts_perm c c' hc hc' hk hget)

/-! #### non-vacuity: one name listed with the count 0 / absent, two names in either order -/
namespace ExCounts
def cA : Corr := ⟨fun _ => .ok 2, fun T => .ok (T / 100), fun _ => .ok (1/2), some (100, 1000)⟩
def cB : Corr := ⟨fun _ => .ok 1, fun _ => .ok (-3), fun _ => .ok 4, some (200, 1500)⟩
def lib : Lib := ⟨[("a", [("thermochem", cA)]), ("b", [("thermochem", cB)]), ("z", [("thermochem", cA)])], none, none⟩
def c₁ : Counts := [("a", 2), ("z", 0), ("b", 1/2)]
def c₂ : Counts := [("b", 1/2), ("a", 2)]
example : (Counts.keys c₁).Nodup ∧ (Counts.keys c₂).Nodup := by decide
example : ∀ k, c₁.get k = c₂.get k := by
  intro k
  simp only [c₁, c₂, Counts.get]
  by_cases ha : "a" = k
  · subst ha; simp
  · by_cases hz : "z" = k
    · subst hz; simp
    · by_cases hb : "b" = k
      · subst hb; simp
      · simp [ha, hz, hb]
def hAt (c : Counts) (T : Rat) : Option Rat :=
  match estimate ["thermochem"] lib c "thermochem" with
  | .ok e => (match e.HoRT T with | .ok v => some v | .error _ => none)
  | .error _ => none
example : hAt c₁ 300 = some (9/2) ∧ hAt c₂ 300 = some (9/2) := by decide +kernel
end ExCounts

/-- **Full statement — "same counts ⇒ the same values, failures included", with no condition on which names are listed — is
false of the code**: a descriptor listed with the count 0 contributes nothing to any value, but it is a term of the estimate — its
datum is asked for (`sum(count*correlation.get_X(T) …)` evaluates every term), its range is intersected, and it must have data. -/
def PIPE_value_depends_on_counts_only_full : Prop :=
  ∀ (reg : List String) (lib : Lib) (c c' : Counts) (s : String) (e e' : Estimator),
    (Counts.keys c).Nodup → (Counts.keys c').Nodup → (∀ k, c.get k = c'.get k) →
    estimate reg lib c s = .ok e → estimate reg lib c' s = .ok e' → ∀ T, SameVal (e.CpoR T) (e'.CpoR T)

/-- the witness: `{a: 1}` and `{a: 1, z: 0}` where `z` has no heat-capacity datum (on the real code: BensonGA, ethane's
`{'C(C)(H)3': 2}` with `'C[d](C[B])2(C[d])': 0` added — `Cp/R(300)` raises `IncompleteDataError`, the range shrinks from
`(298, 1500)` to `(298, 300)`, `H/RT` is unchanged: `notes/Pipeline.md`) -/
theorem PIPE_value_depends_on_counts_only_full_fails : ¬ PIPE_value_depends_on_counts_only_full := by
  intro h
  let cA : Corr := ⟨fun _ => .ok 2, fun _ => .ok 1, fun _ => .ok 1, none⟩
  let cZ : Corr := ⟨fun _ => .error .incomplete, fun _ => .ok 5, fun _ => .ok 1, none⟩
  let lib : Lib := ⟨[("a", [("t", cA)]), ("z", [("t", cZ)])], none, none⟩
  have find : ∀ (c : Counts) (p : Val → Bool), (match estimate ["t"] lib c "t" with | .ok e => p (e.CpoR 300) | .error _ => false) = true →
      ∃ e, estimate ["t"] lib c "t" = .ok e ∧ p (e.CpoR 300) = true := by
    intro c p hp
    cases he : estimate ["t"] lib c "t" with
    | error err => rw [he] at hp; cases hp
    | ok e => rw [he] at hp; exact ⟨e, rfl, hp⟩
  have h1 : ∃ e, estimate ["t"] lib [("a", 1)] "t" = .ok e ∧ e.CpoR 300 = .ok 2 := by
    obtain ⟨e, he, hp⟩ := find [("a", 1)] (fun v => Ex01.okVal v 2) (by decide +kernel)
    refine ⟨e, he, ?_⟩
    cases hv : e.CpoR 300 with
    | error err => simp [hv, Ex01.okVal] at hp
    | ok w => simp only [hv, Ex01.okVal, beq_iff_eq] at hp; rw [hp]
  have h2 : ∃ e, estimate ["t"] lib [("a", 1), ("z", 0)] "t" = .ok e ∧ e.CpoR 300 = .error .incomplete := by
    obtain ⟨e, he, hp⟩ := find [("a", 1), ("z", 0)] (fun v => Ex01.errVal v .incomplete) (by decide +kernel)
    refine ⟨e, he, ?_⟩
    cases hv : e.CpoR 300 with
    | error err => simp only [hv, Ex01.errVal, beq_iff_eq] at hp; rw [hp]
    | ok w => simp [hv, Ex01.errVal] at hp
  obtain ⟨e, he, hv⟩ := h1
  obtain ⟨e', he', hv'⟩ := h2
  have hg : ∀ k, Counts.get [("a", 1)] k = Counts.get [("a", 1), ("z", 0)] k := by
    intro k
    by_cases ha : "a" = k
    · subst ha; simp [Counts.get]
    · by_cases hz : "z" = k
      · subst hz; simp [Counts.get]
      · simp [Counts.get, ha, hz]
  have := (h ["t"] lib _ _ "t" e e' (by decide) (by decide) hg he he' 300 2).mp hv
  rw [hv'] at this
  cases this

/-! ### C03 ∘ C01 — renumbering the atoms -/

/-- **C03 ∘ C01: the pipeline does not see how the atoms are numbered.**  Under the hypotheses of `C03_decompose_relabel`
— `m'` is `m` with its atoms renumbered by any bijection `π` (`MolIso π m m'`: atoms renamed; bonds renamed, in any order;
rings renamed, in the same order), the graph well-formed, the scheme's queries well-formed (reader), no `*` suffix, every
pattern's candidate count below the cap on both aromatised graphs, chain-free remap table — and for **every** library,
registry and property-set name: `lib.Estimate(lib.GetDescriptors(m'), set)` has the same outcome as for `m` —
`PatternMatchError` for one iff for the other; an `Estimate` error of the same stage for one iff for the other, a
missing-data error naming the same descriptors; or two estimates with the same range and, at **every** temperature and for
every `S_elements` flag, the same `Cp/R`, `H/RT`, `S/R` (a getter fails for one iff it fails for the other). -/
theorem PIPE_relabel_invariant (sel : Nat → Option Rat) (reg : List String) (S : SchemeDef) (lib : Lib) (set : String)
    {π : Nat → Nat} {m m' : Mol} (iso : MolIso π m m')
    (hm : m.wf = true) (hq : S.wf = true) (hs : S.noStar = true)
    (hcap : maxRaw S (aromatizeBenson m) < maxMatches) (hcap' : maxRaw S (aromatizeBenson m') < maxMatches)
    (hcf : ChainFree S.remaps) :
    SameOutcome sel (pipeline reg S lib m set) (pipeline reg S lib m' set) := by
  have R := PGA.C03.C03_decompose_relabel S iso hm hq hs hcap hcap' hcf
  apply sameOutcome_of_perm sel reg S lib set m m' R.1
  · intro c c' hc hc'
    exact counts_perm c c' (decompose_nodup S m c hc) (decompose_nodup S m' c' hc')
      (fun k => (decompose_relabel_keys S iso hm hq hs hcap hcap' hcf c c' hc hc' k).symm)
      (fun k => (R.2 c c' hc hc' k).symm)
  · exact (iso.atoms_perm'.map (·.Z)).symm

/-- **C03 ∘ C01, presentation of the rings (proved part).**  Under the hypotheses of `C03_decompose_ring_presentation_partial` —
`rs'` presents the same rings as `m.rings` (each ring's atom list rotated/reflected at will, the list reordered at will) and no two
rings that pass Benson's check share a bond (`EligibleRingsBondDisjoint`; without it the decomposition itself depends on the ring
order: finding F3, `C03_decompose_ring_presentation_full_fails`) — the pipeline has the same outcome on the graph with either
ring list. -/
theorem PIPE_ring_presentation_invariant_partial (sel : Nat → Option Rat) (reg : List String) (S : SchemeDef) (lib : Lib)
    (set : String) (m : Mol) (rs' : List (List Nat)) (h : RingsSame m.rings rs') (hd : EligibleRingsBondDisjoint m)
    (hm : m.wf = true) (hq : S.wf = true) (hs : S.noStar = true)
    (hcap : maxRaw S (aromatizeBenson m) < maxMatches)
    (hcap' : maxRaw S { aromatizeBenson m with rings := rs' } < maxMatches) (hcf : ChainFree S.remaps) :
    SameOutcome sel (pipeline reg S lib m set) (pipeline reg S lib { m with rings := rs' } set) := by
  have R := PGA.C03.C03_decompose_ring_presentation_partial S m rs' h hd hm hq hs hcap hcap' hcf
  apply sameOutcome_of_perm sel reg S lib set m { m with rings := rs' } R.1
  · intro c c' hc hc'
    exact counts_perm c c' (decompose_nodup S m c hc) (decompose_nodup S _ c' hc')
      (fun k => (decompose_ring_presentation_keys S m rs' h hd hm hq hs hcap hcap' hcf c c' hc hc' k).symm)
      (fun k => (R.2 c c' hc hc' k).symm)
  · exact List.Perm.refl _

/-- **C03 ∘ C20: the quadratic form does not see the numbering either.**  Under the hypotheses of `PIPE_relabel_invariant`, for a
library with uncertainty data (distinct basis entries): the two estimates carry the same `q = xᵀMx`, RMSE correlation and degrees
of freedom — hence the same standard errors (C20). -/
theorem PIPE_relabel_quadratic (reg : List String) (S : SchemeDef) (lib : Lib) (set : String)
    {π : Nat → Nat} {m m' : Mol} (iso : MolIso π m m')
    (hm : m.wf = true) (hq : S.wf = true) (hs : S.noStar = true)
    (hcap : maxRaw S (aromatizeBenson m) < maxMatches) (hcap' : maxRaw S (aromatizeBenson m') < maxMatches)
    (hcf : ChainFree S.remaps) (u : UQ String) (hu : lib.uq = some u) (hb : u.basis.Nodup)
    (e e' : Estimator) (he : pipeline reg S lib m set = .ok e) (he' : pipeline reg S lib m' set = .ok e') :
    ∃ q q', e.uq = some q ∧ e'.uq = some q' ∧ q'.q = q.q ∧ q'.rmse = q.rmse ∧ q'.dof = q.dof := by
  obtain ⟨c, e0, hc, he0, rfl⟩ := (pipeline_ok_iff reg S lib m set e).mp he
  obtain ⟨c', e0', hc', he0', rfl⟩ := (pipeline_ok_iff reg S lib m' set e').mp he'
  have R := PGA.C03.C03_decompose_relabel S iso hm hq hs hcap hcap' hcf
  have nc := decompose_nodup S m c hc
  have nc' := decompose_nodup S m' c' hc'
  have hp := counts_perm c c' nc nc'
    (fun k => (decompose_relabel_keys S iso hm hq hs hcap hcap' hcf c c' hc hc' k).symm) (fun k => (R.2 c c' hc hc' k).symm)
  obtain ⟨q, a1, a2, a3, _, _⟩ := C20_q reg lib c set e0 u he0 hu nc hb
  obtain ⟨q', b1, b2, b3, _, _⟩ := C20_q reg lib c' set e0' u he0' hu nc' hb
  obtain ⟨h1, h2⟩ := C20_order reg lib c c' set e0 e0' u q q' hp he0 he0' hu nc hb a1 b1
  exact ⟨q, q', a1, b1, h1, h2, by rw [a3, b3]⟩

/-! #### non-vacuity: the C–H fragment of `Props/C03.lean` and the same fragment with its two atoms swapped -/
namespace ExRelabel
open PGA.C03

theorem iso : MolIso swap01 chMol hcMol := by
  refine ⟨fun x y h => by rw [← swap01_invol x, ← swap01_invol y, h], fun y => ⟨swap01 y, swap01_invol y⟩, ?_, rfl, ?_,
    List.Perm.refl _, rfl⟩
  · intro i
    unfold swap01
    show (if i = 0 then 1 else if i = 1 then 0 else i) < 2 ↔ i < 2
    by_cases h0 : i = 0
    · subst h0; simp
    · by_cases h1 : i = 1
      · subst h1; simp
      · simp [h0, h1]
  · intro i
    unfold swap01
    by_cases h0 : i = 0
    · subst h0; rfl
    · by_cases h1 : i = 1
      · subst h1; rfl
      · have : 2 ≤ i := by omega
        simp only [h0, h1, if_false]
        rw [List.getElem?_eq_none_iff.2 (by simpa [hcMol] using this), List.getElem?_eq_none_iff.2 (by simpa [chMol] using this)]

example : chMol.wf = true ∧ PGA.C04.exScheme.wf = true ∧ PGA.C04.exScheme.noStar = true ∧
    maxRaw PGA.C04.exScheme (aromatizeBenson chMol) < maxMatches ∧ maxRaw PGA.C04.exScheme (aromatizeBenson hcMol) < maxMatches := by
  decide

def cC : Corr := ⟨fun _ => .ok 2, fun T => .ok (T / 100), fun _ => .ok 3, some (100, 1000)⟩
def cH : Corr := ⟨fun _ => .ok 1, fun _ => .ok (-1), fun _ => .ok (1/2), some (200, 1500)⟩
def cD : Corr := ⟨fun _ => .ok 0, fun _ => .ok (1/4), fun _ => .error .incomplete, none⟩
def lib : Lib := ⟨[("C(H)", [("thermochem", cC)]), ("H(C)", [("thermochem", cH)]), ("CH", [("thermochem", cD)])], none, none⟩
def hAt (r : Except Err Estimator) (T : Rat) : Option Rat :=
  match r with | .ok e => (match e.HoRT T with | .ok v => some v | .error _ => none) | .error _ => none
def order (S : SchemeDef) (m : Mol) : Option (List String) :=
  match decompose S m with | .ok c => some (c.map (·.1)) | .error _ => none

/-- the two numberings list the descriptors in different orders (the hydrogen's group first when the hydrogen is atom 0) and give
the same `H/RT(300) = 9/4` -/
example : order PGA.C04.exScheme chMol = some ["C(H)", "H(C)", "CH"] ∧ order PGA.C04.exScheme hcMol = some ["H(C)", "C(H)", "CH"] ∧
    hAt (pipeline ["thermochem"] PGA.C04.exScheme lib chMol "thermochem") 300 = some (9/4) ∧
    hAt (pipeline ["thermochem"] PGA.C04.exScheme lib hcMol "thermochem") 300 = some (9/4) := by decide +kernel
end ExRelabel

/-! ### C04 ∘ C01 — a mixture `A ⊔ B` -/

/-- **C04 ∘ C01: the estimate of a mixture is the sum of the estimates of its components.**  Under the hypotheses of
`C04_decompose_union` (`UnionHyps`, and `SeparatedMol`: descriptor-side names carry no group count) and for every
library, registry and property-set name: if `lib.Estimate(lib.GetDescriptors(x), set)` returns an estimate for `A ⊔ B`,
for `A` and for `B`, then at **every** temperature `Cp/R`, `H/RT` and `S/R` of `A ⊔ B` are the sums of those of `A` and
`B` — precisely: the mixture's getter returns a value exactly when both components' getters do, and then the sum — for
`S/R` both without and with the elemental reference (the elemental term is additive too); and the mixture's validity range
is the intersection of the components'. -/
theorem PIPE_mixture_additive (sel : Nat → Option Rat) (reg : List String) (S : SchemeDef) (lib : Lib) (set : String)
    (A B : Mol) (H : UnionHyps S A B) (hsep : SeparatedMol S A B) (eU eA eB : Estimator)
    (hU : pipeline reg S lib (A.union B) set = .ok eU) (hA : pipeline reg S lib A set = .ok eA)
    (hB : pipeline reg S lib B set = .ok eB) :
    NDSum (eU.toND sel) (eA.toND sel) (eB.toND sel) ∧ eU.range = interRange eA.range eB.range := by
  obtain ⟨rU, eU0, hdU, heU, rfl⟩ := (pipeline_ok_iff reg S lib _ set eU).mp hU
  obtain ⟨rA, eA0, hdA, heA, rfl⟩ := (pipeline_ok_iff reg S lib _ set eA).mp hA
  obtain ⟨rB, eB0, hdB, heB, rfl⟩ := (pipeline_ok_iff reg S lib _ set eB).mp hB
  obtain ⟨nU, nA, nB, hk, hg⟩ := union_counts H rU rA rB hdU hdA hdB
  have hg := hg hsep
  have W := fun get => wsum_union get reg lib set rU rA rB eU0 eA0 eB0 nU nA nB hg hk heU heA heB
  refine ⟨⟨fun T v => W (·.cp T) v, fun T v => W (·.hort T) v, fun T flag v => ?_⟩, ?_⟩
  · show (withName _ eU0).SoR sel T flag = .ok v ↔
      ∃ x y, (withName _ eA0).SoR sel T flag = .ok x ∧ (withName _ eB0).SoR sel T flag = .ok y ∧ v = x + y
    simp only [SoR_ok_iff]
    show (∃ sele s, (if flag.truthy then selements sel (some (atomsOf (A.union B))) else .ok 0) = .ok sele ∧
        wsum (·.sor T) eU0.correlations = .ok s ∧ v = s - sele) ↔
      ∃ x y, (∃ sele s, (if flag.truthy then selements sel (some (atomsOf A)) else .ok 0) = .ok sele ∧
        wsum (·.sor T) eA0.correlations = .ok s ∧ x = s - sele) ∧
        (∃ sele s, (if flag.truthy then selements sel (some (atomsOf B)) else .ok 0) = .ok sele ∧
        wsum (·.sor T) eB0.correlations = .ok s ∧ y = s - sele) ∧ v = x + y
    by_cases hf : flag.truthy = true
    · simp only [hf, if_true, W (·.sor T), selements_union]
      constructor
      · rintro ⟨_, _, ⟨a, b, ha, hb, rfl⟩, ⟨x, y, hx, hy, rfl⟩, rfl⟩
        exact ⟨x - a, y - b, ⟨a, x, ha, hx, rfl⟩, ⟨b, y, hb, hy, rfl⟩, by ring⟩
      · rintro ⟨_, _, ⟨a, x, ha, hx, rfl⟩, ⟨b, y, hb, hy, rfl⟩, rfl⟩
        exact ⟨a + b, x + y, ⟨a, b, ha, hb, rfl⟩, ⟨x, y, hx, hy, rfl⟩, by ring⟩
    · simp only [hf, Bool.false_eq_true, if_false, W (·.sor T), Except.ok.injEq]
      constructor
      · rintro ⟨_, _, rfl, ⟨x, y, hx, hy, rfl⟩, rfl⟩
        exact ⟨x, y, ⟨0, x, rfl, hx, by ring⟩, ⟨0, y, rfl, hy, by ring⟩, by ring⟩
      · rintro ⟨_, _, ⟨_, x, rfl, hx, rfl⟩, ⟨_, y, rfl, hy, rfl⟩, rfl⟩
        exact ⟨0, x + y, rfl, ⟨x, y, hx, hy, rfl⟩, by ring⟩
  · show eU0.range = interRange eA0.range eB0.range
    rw [(estimate_range reg lib rU set eU0 heU).1, (estimate_range reg lib rA set eA0 heA).1,
      (estimate_range reg lib rB set eB0 heB).1]
    exact commonRange_termsOf_union lib set rU rA rB hk

/-! #### the failure clause -/

/-- **C04 ∘ C01, failure clause: exactly when — and how — the pipeline of a mixture fails, given the outcomes of the
parts.**  Under the hypotheses of `C04_decompose_union` (no separation hypothesis is needed here: failures depend on the
*names* listed, not on their counts), for every library, registry and set name: the stage at which
`lib.Estimate(lib.GetDescriptors(A ⊔ B), set)` stops is `mixP` of the stages at which it stops for `A` and for `B` — in
particular it raises `PatternMatchError` iff one part does; otherwise the missing-data error iff one part does — and the
descriptors a missing-data error of the mixture names are exactly those named for `A` or for `B`. -/
theorem PIPE_mixture_failure (reg : List String) (S : SchemeDef) (lib : Lib) (set : String) (A B : Mol)
    (H : UnionHyps S A B) :
    pkindOf (pipeline reg S lib (A.union B) set) =
      mixP (pkindOf (pipeline reg S lib A set)) (pkindOf (pipeline reg S lib B set)) (mixRange S lib set A B) ∧
    ∀ dsU, pipeline reg S lib (A.union B) set = .error (.estimate (.missing dsU)) →
      ∀ g, g ∈ dsU ↔ (∃ dsA, pipeline reg S lib A set = .error (.estimate (.missing dsA)) ∧ g ∈ dsA) ∨
                     (∃ dsB, pipeline reg S lib B set = .error (.estimate (.missing dsB)) ∧ g ∈ dsB) := by
  have C := (PGA.C04.C04_decompose_union S A B H.hA H.hB H.hq H.hs H.hmp H.hcn H.capa H.capb H.capu H.hcf).1
  constructor
  · rw [pkindOf_pipeline, pkindOf_pipeline, pkindOf_pipeline]
    unfold mixRange
    cases hA : decompose S A with
    | error e =>
      cases e
      rw [C.mpr (Or.inl hA)]
      simp [mixP]
    | ok rA =>
      cases hB : decompose S B with
      | error e =>
        cases e
        rw [C.mpr (Or.inr hB)]
        simp [mixP]
      | ok rB =>
        obtain ⟨rU, hU⟩ := union_decomposes H rA rB hA hB
        obtain ⟨_, _, _, hk, _⟩ := union_counts H rU rA rB hU hA hB
        simp only [hU, mixP, map_estimate_ne_patternMatch, or_self, if_false, estPart_map]
        rw [estimate_kind, estimate_kind, estimate_kind, outcomeKind_union reg lib set rU rA rB hk]
  · intro dsU hU g
    obtain ⟨rU, hdU, heU⟩ := (pipeline_esterr_iff reg S lib _ set _).mp hU
    obtain ⟨hr, rfl, _⟩ := (C01_missing_iff reg lib rU set dsU).mp heU
    have hnA : decompose S A ≠ .error .patternMatch := fun h => by rw [C.mpr (Or.inl h)] at hdU; cases hdU
    have hnB : decompose S B ≠ .error .patternMatch := fun h => by rw [C.mpr (Or.inr h)] at hdU; cases hdU
    cases hA : decompose S A with
    | error e => cases e; exact absurd hA hnA
    | ok rA =>
      cases hB : decompose S B with
      | error e => cases e; exact absurd hB hnB
      | ok rB =>
        obtain ⟨_, _, _, hk, _⟩ := union_counts H rU rA rB hdU hA hB
        rw [specMissing_union lib set rU rA rB hk g]
        have part : ∀ (m : Mol) (r : Counts), decompose S m = .ok r →
            (g ∈ specMissing lib set r ↔ ∃ ds, pipeline reg S lib m set = .error (.estimate (.missing ds)) ∧ g ∈ ds) := by
          intro m r hm
          constructor
          · intro hg
            refine ⟨specMissing lib set r, (pipeline_esterr_iff reg S lib m set _).mpr ⟨r, hm, ?_⟩, hg⟩
            exact (C01_missing_iff reg lib r set _).mpr ⟨hr, rfl, fun e => by rw [e] at hg; cases hg⟩
          · rintro ⟨ds, hp, hg⟩
            obtain ⟨r', hm', he'⟩ := (pipeline_esterr_iff reg S lib m set _).mp hp
            rw [hm] at hm'; cases hm'
            obtain ⟨_, rfl, _⟩ := (C01_missing_iff reg lib r set ds).mp he'
            exact hg
        rw [part A rA hA, part B rB hB]

/-- **Corollary: when both components are estimated**, the mixture is estimated exactly when the intersection of the two
validity ranges is not empty (or neither has a range); otherwise it fails with the range `AssertionError` — never in any
other way. -/
theorem PIPE_mixture_estimate_iff (reg : List String) (S : SchemeDef) (lib : Lib) (set : String) (A B : Mol)
    (H : UnionHyps S A B) (eA eB : Estimator) (hA : pipeline reg S lib A set = .ok eA) (hB : pipeline reg S lib B set = .ok eB) :
    pkindOf (pipeline reg S lib (A.union B) set) = (rangeKindOf (interRange eA.range eB.range)).map PKind.estimate := by
  rw [(PIPE_mixture_failure reg S lib set A B H).1, hA, hB]
  obtain ⟨rA, eA0, hdA, heA, rfl⟩ := (pipeline_ok_iff reg S lib _ set eA).mp hA
  obtain ⟨rB, eB0, hdB, heB, rfl⟩ := (pipeline_ok_iff reg S lib _ set eB).mp hB
  unfold mixRange
  simp only [hdA, hdB]
  show mixP none none _ = (rangeKindOf (interRange eA0.range eB0.range)).map PKind.estimate
  rw [(estimate_range reg lib rA set eA0 heA).1, (estimate_range reg lib rB set eB0 heB).1]
  simp [mixP, mixKind, estPart]

/-- **A mixture as RDKit numbers it.**  RDKit's graph `M` of `'A.B'` is `A ⊔ B` renumbered (`MolIso π (A ⊔ B) M`, re-checked
by the harness on every mixture with the explicit permutation): the pipeline on `M` has the same outcome as on `A ⊔ B`, so
`PIPE_mixture_additive` / `PIPE_mixture_failure` speak about `lib.Estimate(lib.GetDescriptors('A.B'), set)`.
(`PIPE_relabel_invariant` at `m := A ⊔ B`.) -/
theorem PIPE_mixture_as_numbered_by_rdkit (sel : Nat → Option Rat) (reg : List String) (S : SchemeDef) (lib : Lib) (set : String)
    (A B M : Mol) {π : Nat → Nat} (iso : MolIso π (A.union B) M) (H : UnionHyps S A B)
    (capm : maxRaw S (aromatizeBenson M) < maxMatches) :
    SameOutcome sel (pipeline reg S lib (A.union B) set) (pipeline reg S lib M set) := by
  have capu' : maxRaw S (aromatizeBenson (A.union B)) < maxMatches := by
    rw [aromatizeBenson_union A B H.hA H.hB]; exact H.capu
  exact PIPE_relabel_invariant sel reg S lib set iso (wf_union A B H.hA H.hB) H.hq H.hs capu' capm H.hcf

/-! #### the uncertainty block: `xᵀMx` is quadratic, not additive -/

/-- **C04 ∘ C20: the quadratic form of a mixture.**  Under the hypotheses of `PIPE_mixture_additive`, for a library with
uncertainty data `u` (distinct basis entries): the count vectors add up, `x(A ⊔ B) = x(A) + x(B)` (in basis order), and
therefore `q = xᵀMx` of the mixture is `q_A + q_B + x_AᵀM x_B + x_BᵀM x_A` (`= q_A + q_B + 2·x_AᵀM x_B` for a symmetric `M`) —
with the library's RMSE correlation and degrees of freedom unchanged.  The standard error `|RMSE|·√q` (C20) of a mixture is
therefore **not** the sum of the components' (`PIPE_mixture_quadratic_additive_full_fails`). -/
theorem PIPE_mixture_quadratic (reg : List String) (S : SchemeDef) (lib : Lib) (set : String)
    (A B : Mol) (H : UnionHyps S A B) (hsep : SeparatedMol S A B) (eU eA eB : Estimator)
    (hU : pipeline reg S lib (A.union B) set = .ok eU) (hA : pipeline reg S lib A set = .ok eA)
    (hB : pipeline reg S lib B set = .ok eB) (u : UQ String) (hu : lib.uq = some u) (hb : u.basis.Nodup) :
    ∃ rU rA rB qU qA qB, decompose S (A.union B) = .ok rU ∧ decompose S A = .ok rA ∧ decompose S B = .ok rB ∧
      eU.uq = some qU ∧ eA.uq = some qA ∧ eB.uq = some qB ∧
      specX u.basis rU = vplus (specX u.basis rA) (specX u.basis rB) ∧
      qU.q = qA.q + qB.q + specBilin u.mat (specX u.basis rA) (specX u.basis rB)
                         + specBilin u.mat (specX u.basis rB) (specX u.basis rA) ∧
      qU.rmse = u.rmse ∧ qA.rmse = u.rmse ∧ qB.rmse = u.rmse ∧ qU.dof = u.dof ∧ qA.dof = u.dof ∧ qB.dof = u.dof := by
  obtain ⟨rU, eU0, hdU, heU, rfl⟩ := (pipeline_ok_iff reg S lib _ set eU).mp hU
  obtain ⟨rA, eA0, hdA, heA, rfl⟩ := (pipeline_ok_iff reg S lib _ set eA).mp hA
  obtain ⟨rB, eB0, hdB, heB, rfl⟩ := (pipeline_ok_iff reg S lib _ set eB).mp hB
  obtain ⟨nU, nA, nB, hk, hg⟩ := union_counts H rU rA rB hdU hdA hdB
  have hg := hg hsep
  obtain ⟨qU, u1, u2, u3, u4, _⟩ := C20_q reg lib rU set eU0 u heU hu nU hb
  obtain ⟨qA, a1, a2, a3, a4, _⟩ := C20_q reg lib rA set eA0 u heA hu nA hb
  obtain ⟨qB, b1, b2, b3, b4, _⟩ := C20_q reg lib rB set eB0 u heB hu nB hb
  have hx := specX_add u.basis rU rA rB hg
  refine ⟨rU, rA, rB, qU, qA, qB, hdU, hdA, hdB, u1, a1, b1, hx, ?_, u2, a2, b2, u3, a3, b3⟩
  rw [u4, a4, b4, hx]
  exact specQuad_vplus u.mat _ _ (by rw [specX_length, specX_length])

/-- **… for a symmetric matrix** (the stored matrices are symmetric: table obligation of C14 for the shipped libraries):
`q(A ⊔ B) = q_A + q_B + 2·x_AᵀM x_B`. -/
theorem PIPE_mixture_quadratic_symmetric (reg : List String) (S : SchemeDef) (lib : Lib) (set : String)
    (A B : Mol) (H : UnionHyps S A B) (hsep : SeparatedMol S A B) (eU eA eB : Estimator)
    (hU : pipeline reg S lib (A.union B) set = .ok eU) (hA : pipeline reg S lib A set = .ok eA)
    (hB : pipeline reg S lib B set = .ok eB) (u : UQ String) (hu : lib.uq = some u) (hb : u.basis.Nodup)
    (hsym : ∀ i j, entry u.mat i j = entry u.mat j i) :
    ∃ rA rB qU qA qB, decompose S A = .ok rA ∧ decompose S B = .ok rB ∧
      eU.uq = some qU ∧ eA.uq = some qA ∧ eB.uq = some qB ∧
      qU.q = qA.q + qB.q + 2 * specBilin u.mat (specX u.basis rA) (specX u.basis rB) := by
  obtain ⟨rU, rA, rB, qU, qA, qB, hdU, hdA, hdB, u1, a1, b1, _, hq, _⟩ :=
    PIPE_mixture_quadratic reg S lib set A B H hsep eU eA eB hU hA hB u hu hb
  refine ⟨rA, rB, qU, qA, qB, hdA, hdB, u1, a1, b1, ?_⟩
  obtain ⟨rU', eU0, hdU', heU, rfl⟩ := (pipeline_ok_iff reg S lib _ set eU).mp hU
  rw [hdU] at hdU'; cases hdU'
  obtain ⟨_, _, _, _, _, hsq⟩ := C20_q reg lib rU set eU0 u heU hu (decompose_nodup _ _ _ hdU) hb
  rw [hq, specBilin_symm u.basis.length u.mat (specX u.basis rB) (specX u.basis rA) hsq (specX_length _ _) (specX_length _ _) hsym]
  ring

/-- **The full statement — standard errors of a mixture from additive quadratic forms — is false of the code (and of any
quadratic form).** -/
def PIPE_mixture_quadratic_additive_full : Prop :=
  ∀ (reg : List String) (S : SchemeDef) (lib : Lib) (set : String) (A B : Mol), UnionHyps S A B → SeparatedMol S A B →
    ∀ eU eA eB qU qA qB, pipeline reg S lib (A.union B) set = .ok eU → pipeline reg S lib A set = .ok eA →
      pipeline reg S lib B set = .ok eB → eU.uq = some qU → eA.uq = some qA → eB.uq = some qB → qU.q = qA.q + qB.q

/-! #### non-vacuity and the witness: two copies of a C–H fragment under the two-entry scheme of `Props/C04.lean` -/
namespace ExMix
open PGA.C04

def cC : Corr := ⟨fun _ => .ok 2, fun T => .ok (T / 100), fun _ => .ok 3, some (100, 1000)⟩
def cH : Corr := ⟨fun _ => .ok 1, fun _ => .ok (-1), fun _ => .ok (1/2), some (200, 1500)⟩
def cD : Corr := ⟨fun _ => .ok 0, fun _ => .ok (1/4), fun _ => .error .incomplete, none⟩
def rm : Corr := ⟨fun _ => .ok 1, fun _ => .ok 1, fun _ => .ok 1, none⟩
/-- the three names the scheme produces on the fragment, with an uncertainty block whose matrix has off-diagonal entries -/
def lib : Lib :=
  ⟨[("C(H)", [("thermochem", cC)]), ("H(C)", [("thermochem", cH)]), ("CH", [("thermochem", cD)])],
   some ⟨rm, ["CH", "C(H)", "H(C)"], [[1, 0, 0], [0, 2, 1], [0, 1, 3]], 5⟩, none⟩
/-- the same without the entry for the correction descriptor -/
def libNoCH : Lib := ⟨[("C(H)", [("thermochem", cC)]), ("H(C)", [("thermochem", cH)])], none, none⟩

theorem hyps : UnionHyps exScheme exMol exMol :=
  ⟨by decide, by decide, by decide, by decide, by decide, by decide, by decide, by decide, by decide,
   by intro k ts h; simp [exScheme, lookupRemap] at h⟩

theorem separated : SeparatedMol exScheme exMol exMol := by
  intro a b ha hb
  have hd : descsOf (toInput exScheme (aromatizeBenson exMol)) = [("CH", 1)] := by decide +kernel
  have hasg : assignCentres (toInput exScheme (aromatizeBenson exMol)) = .ok [(1, ("H", "H")), (0, ("C", "C"))] := by
    decide +kernel
  rw [hasg] at ha hb
  cases ha; cases hb
  have hgr : groupsOf (toInput exScheme (aromatizeBenson exMol)) [(1, ("H", "H")), (0, ("C", "C"))]
      = [("C(H)", 1), ("H(C)", 1)] := by decide +kernel
  intro t ht
  rw [hd] at ht
  have : t = "CH" := by simpa [Counts.keys] using ht
  subst this
  rw [hgr]
  decide +kernel

def hOf (r : Except Err Estimator) (T : Rat) : Option Rat :=
  match r with | .ok e => (match e.HoRT T with | .ok v => some v | .error _ => none) | .error _ => none
def qOf (r : Except Err Estimator) : Option Rat :=
  match r with | .ok e => e.uq.map (·.q) | .error _ => none
def rangeOf (r : Except Err Estimator) : Option (Option (Rat × Rat)) :=
  match r with | .ok e => some e.range | .error _ => none

/-- the three pipelines return estimates; `H/RT(300)`: 3 − 1 + 1/4 = 9/4 for the fragment, 9/2 for the pair -/
example : hOf (pipeline ["thermochem"] exScheme lib exMol "thermochem") 300 = some (9/4) ∧
    hOf (pipeline ["thermochem"] exScheme lib (exMol.union exMol) "thermochem") 300 = some (9/2) := by decide +kernel
/-- the range of the pair is the intersection `[200, 1000]` of `[100, 1000]` and `[200, 1500]` -/
example : rangeOf (pipeline ["thermochem"] exScheme lib (exMol.union exMol) "thermochem") = some (some (200, 1000)) := by
  decide +kernel
/-- `x = (1,1,1)` gives `q = 8`; the pair has `x = (2,2,2)` and `q = 32 = 8 + 8 + 8 + 8` -/
example : qOf (pipeline ["thermochem"] exScheme lib exMol "thermochem") = some 8 ∧
    qOf (pipeline ["thermochem"] exScheme lib (exMol.union exMol) "thermochem") = some 32 := by decide +kernel
/-- failure clause: without data for the correction descriptor each part and the pair raise the missing-data error naming it -/
example : pkindOf (pipeline ["thermochem"] exScheme libNoCH exMol "thermochem") = some (.estimate .missing) ∧
    pkindOf (pipeline ["thermochem"] exScheme libNoCH (exMol.union exMol) "thermochem") = some (.estimate .missing) := by
  decide +kernel

/-- the matrix of the example library is symmetric (hypothesis of `PIPE_mixture_quadratic_symmetric`), its basis has distinct
entries, and the cross term is `2·x_AᵀMx_A = 16` -/
example : ∀ i j, entry ([[1, 0, 0], [0, 2, 1], [0, 1, 3]] : List (List Rat)) i j = entry [[1, 0, 0], [0, 2, 1], [0, 1, 3]] j i := by
  intro i j
  rcases i with _ | _ | _ | i <;> rcases j with _ | _ | _ | j <;> simp [entry]
example : (["CH", "C(H)", "H(C)"] : List String).Nodup ∧
    2 * specBilin [[1, 0, 0], [0, 2, 1], [0, 1, 3]] [1, 1, 1] [1, 1, 1] = 16 := by decide +kernel
end ExMix

/-- the witness: `q(A ⊔ A) = 32 ≠ 8 + 8` -/
theorem PIPE_mixture_quadratic_additive_full_fails : ¬ PIPE_mixture_quadratic_additive_full := by
  intro h
  open ExMix PGA.C04 in
  have e1 : qOf (pipeline ["thermochem"] exScheme lib exMol "thermochem") = some 8 := by decide +kernel
  open ExMix PGA.C04 in
  have e2 : qOf (pipeline ["thermochem"] exScheme lib (exMol.union exMol) "thermochem") = some 32 := by decide +kernel
  cases hA : pipeline ["thermochem"] PGA.C04.exScheme ExMix.lib PGA.C04.exMol "thermochem" with
  | error e => rw [hA] at e1; cases e1
  | ok eA =>
    cases hU : pipeline ["thermochem"] PGA.C04.exScheme ExMix.lib (PGA.C04.exMol.union PGA.C04.exMol) "thermochem" with
    | error e => rw [hU] at e2; cases e2
    | ok eU =>
      rw [hA] at e1; rw [hU] at e2
      simp only [ExMix.qOf] at e1 e2
      cases hqA : eA.uq with
      | none => rw [hqA] at e1; cases e1
      | some qA =>
        cases hqU : eU.uq with
        | none => rw [hqU] at e2; cases e2
        | some qU =>
          have := h _ _ _ _ _ _ ExMix.hyps ExMix.separated eU eA eA qU qA qA hU hA hA hqU hqA hqA
          rw [hqA] at e1; rw [hqU] at e2
          simp only [Option.map_some, Option.some.injEq] at e1 e2
          rw [e1, e2] at this
          exact absurd this (by decide +kernel)

/-! ### C19 ∘ C14/C01 — the spelling of group names -/

section
open PGA.GroupName

/-- **The spelling of a group name in a library file does not matter.**  Two `groups:` sections that differ only in how the
entries' names are written — the peripherals in any order, split into runs at will, repeat counts written or not
(`SameSpelling`: well-formed spellings of the same centre and the same multiset, C19) — are keyed identically by
`GroupLibrary._do_load` (same dict, same insertion order, or the same error), whatever the `other_descriptors:` section.
Hence the loaded libraries are equal and every pipeline outcome — for every scheme, molecule, property set, temperature — is
the same. -/
theorem PIPE_spelling_independent (groups groups' : List (Name × List (String × Corr))) (descs : List (String × List (String × Corr)))
    (h : SameSpelling groups groups') :
    loadContents groups' descs = loadContents groups descs ∧
    ∀ c c', loadContents groups descs = .ok c → loadContents groups' descs = .ok c' →
      ∀ (uq : Option (UQ String)) (nm : Option (List Nat)) (reg : List String) (S : SchemeDef) (m : Mol) (set : String),
        pipeline reg S ⟨c', uq, nm⟩ m set = pipeline reg S ⟨c, uq, nm⟩ m set := by
  have e : loadContents groups' descs = loadContents groups descs := by
    unfold loadContents
    rw [loadGroups_sameSpelling groups groups' h]
  refine ⟨e, ?_⟩
  intro c c' hc hc' uq nm reg S m set
  rw [e, hc] at hc'
  cases hc'
  rfl

/-- **Looking a group up by `Group` object does not depend on the order of its peripherals**, and finds the entry however the
library file spelled it: if the library loaded and its `groups:` section has an entry written `spell c r` (well-formed),
then `lib[Group(scheme, c, psgs)]` is that entry's data for every list `psgs` that is a reordering of the peripherals `r`
denotes.  This is the look-up the decomposition performs for the groups it finds: the name it hands over for an atom is
the canonical name of `Group(centre, neighbours' peripherals)` (`PIPE_group_keys_canonical`). -/
theorem PIPE_spelling_lookup (groups : List (Name × List (String × Corr))) (descs : List (String × List (String × Corr)))
    (cont : List (String × List (String × Corr))) (hl : loadContents groups descs = .ok cont)
    (c : Name) (r : List Run) (ps : List (String × Corr)) (hm : (spell c r, ps) ∈ groups) (hw : WFRuns c r)
    (psgs : List Name) (hp : (expandRuns r).Perm psgs) (uq : Option (UQ String)) (nm : Option (List Nat)) :
    getItemGroup ⟨cont, uq, nm⟩ c psgs = ps := by
  unfold loadContents at hl
  cases hg : loadGroups groups [] with
  | error e => simp [hg] at hl
  | ok acc =>
    simp only [hg] at hl
    have h1 := (loadGroups_lookup groups [] acc hg).2 (spell c r) ps ⟨c, expandRuns r⟩ hm (C19_parse_spell c r hw)
    have h2 := loadDescs_lookup descs acc cont hl _ _ h1
    unfold getItemGroup Library.getItem
    have : canon c psgs = Group.name ⟨c, expandRuns r⟩ := (canon_perm c hp).symm
    rw [this]
    simp only [h2]

/-- the same entry through two `Group` objects with the peripherals in different orders (`Group.__eq__`/`__hash__` go by
canonical name: C19) -/
theorem PIPE_spelling_group_order (lib : Lib) (c : Name) (ps ps' : List Name) (h : ps.Perm ps') :
    getItemGroup lib c ps = getItemGroup lib c ps' := by
  unfold getItemGroup; rw [canon_perm c h]

/-- **The names the decomposition produces for groups are canonical names**: every name the group loop lists is
`Group(centre, peripherals).name` for the centre name of an atom and the peripheral names of its neighbours — so the string
key handed to `Estimate` is the one the library's `Group` keys compare equal to.  (Remap targets and correction-descriptor
names, by contrast, reach `Estimate` exactly as the scheme file spells them.) -/
theorem PIPE_group_keys_canonical (a : Assign) (nbrs : List (List Nat)) (is : List Nat) (t : String)
    (h : t ∈ Counts.keys (countGroups a nbrs is [])) :
    ∃ csg psgs, t = String.ofList (canon csg psgs) := by
  rw [mem_keys_countGroups] at h
  rcases h with h | ⟨i, _, hi⟩
  · simp [Counts.keys] at h
  · unfold groupName at hi
    split at hi
    · cases hi
    · split at hi
      · cases hi
      · cases hi
        exact ⟨_, _, rfl⟩

/-- **Where the string keys handed to `Estimate` come from**: every name the decomposition of a molecule lists is (i) the
canonical name of a `Group` (from the group loop), or (ii) the name of a correction descriptor of the scheme, or (iii) a remap
target — (ii) and (iii) exactly as the scheme file spells them.  So the only strings whose *spelling* decides whether data are
found are descriptor names and remap targets: they must be written as the library keys them (`PIPE_spelling_raw_string_*`). -/
theorem PIPE_keys_origin (S : SchemeDef) (m : Mol) (res : Counts) (hcf : ChainFree S.remaps)
    (h : decompose S m = .ok res) (t : String) (ht : t ∈ Counts.keys res) :
    (∃ csg psgs, t = String.ofList (canon csg psgs)) ∨ (∃ d ∈ S.descs, t = d.name) ∨
    (∃ k ts, lookupRemap S.remaps k = some ts ∧ ∃ p ∈ ts, p.2 = t) := by
  obtain ⟨a, ha, _⟩ := getDescriptors_ok _ res h
  have hnil : (Counts.keys ([] : Counts)).Nodup := by simp [Counts.keys]
  rcases (getDescriptors_keys _ a res ha h t).mp ht with hg | hd
  · unfold groupsOf at hg
    rcases (mem_keys_remapAll _ hcf _ (countGroups_nodup _ _ _ _ hnil) t).mp hg with ⟨h1, _⟩ | ⟨k, _, ts, hts, hp⟩
    · exact Or.inl (PIPE_group_keys_canonical _ _ _ t h1)
    · exact Or.inr (Or.inr ⟨k, ts, hts, hp⟩)
  · unfold descsOf at hd
    rcases (mem_keys_remapAll _ hcf _ (countDescs_nodup _ [] hnil) t).mp hd with ⟨h1, _⟩ | ⟨k, _, ts, hts, hp⟩
    · rcases mem_keys_countDescs _ [] t h1 with h' | ⟨d, hd', e⟩
      · simp [Counts.keys] at h'
      · obtain ⟨d0, hd0, rfl⟩ := List.mem_map.mp hd'
        exact Or.inr (Or.inl ⟨d0, hd0, e.symm⟩)
    · exact Or.inr (Or.inr ⟨k, ts, hts, hp⟩)

/-- **Full statement for string keys — false of the code.**  A *string* key is compared with the stored `Group`'s canonical
name (`Descriptor.__eq__` against `str`), so a string that spells the group differently finds nothing: the look-up returns
`{}` and `Estimate` raises `GroupMissingDataError`. -/
def PIPE_spelling_raw_string_full : Prop :=
  ∀ (groups : List (Name × List (String × Corr))) (descs : List (String × List (String × Corr)))
    (cont : List (String × List (String × Corr))), loadContents groups descs = .ok cont →
    ∀ (c : Name) (r : List Run) (ps : List (String × Corr)), (spell c r, ps) ∈ groups → WFRuns c r →
    ∀ uq nm, (⟨cont, uq, nm⟩ : Lib).getItem (String.ofList (spell c r)) = ps

/-- **… proved part**: a string key finds the entry when it *is* the canonical name. -/
theorem PIPE_spelling_raw_string_partial (groups : List (Name × List (String × Corr))) (descs : List (String × List (String × Corr)))
    (cont : List (String × List (String × Corr))) (hl : loadContents groups descs = .ok cont)
    (c : Name) (r : List Run) (ps : List (String × Corr)) (hm : (spell c r, ps) ∈ groups) (hw : WFRuns c r)
    (t : String) (ht : t = String.ofList (canon c (expandRuns r))) (uq : Option (UQ String)) (nm : Option (List Nat)) :
    (⟨cont, uq, nm⟩ : Lib).getItem t = ps := by
  rw [ht]
  exact PIPE_spelling_lookup groups descs cont hl c r ps hm hw (expandRuns r) (List.Perm.refl _) uq nm

namespace ExSpell
def corr : Corr := ⟨fun _ => .ok 1, fun _ => .ok (3/2), fun _ => .ok 2, none⟩
/-- `C(H)(C)` and `C(C)1(H)`: two spellings of the group whose canonical name is `C(C)(H)` -/
def r₁ : List Run := [⟨['H'], none⟩, ⟨['C'], none⟩]
def r₂ : List Run := [⟨['C'], some 1⟩, ⟨['H'], none⟩]
def groups₁ : List (Name × List (String × Corr)) := [(spell ['C'] r₁, [("thermochem", corr)])]
def groups₂ : List (Name × List (String × Corr)) := [(spell ['C'] r₂, [("thermochem", corr)])]

theorem small (n : Nat) (h : n < 10) : n < PGA.Chars.intLimit := by
  show n < 10 ^ PGA.Gen.Chars.intMaxStrDigits
  exact Nat.lt_of_lt_of_le h (Nat.le_self_pow (Nat.pos_iff_ne_zero.mp C19_tab_limit_pos) 10)

theorem wf₁ : WFRuns ['C'] r₁ := by
  refine ⟨by decide +kernel, ?_⟩
  intro r hr
  simp only [r₁, List.mem_cons, List.not_mem_nil, or_false] at hr
  rcases hr with rfl | rfl
  · exact ⟨by decide +kernel, small 1 (by decide)⟩
  · exact ⟨by decide +kernel, small 1 (by decide)⟩

theorem wf₂ : WFRuns ['C'] r₂ := by
  refine ⟨by decide +kernel, ?_⟩
  intro r hr
  simp only [r₂, List.mem_cons, List.not_mem_nil, or_false] at hr
  rcases hr with rfl | rfl
  · exact ⟨by decide +kernel, small 1 (by decide)⟩
  · exact ⟨by decide +kernel, small 1 (by decide)⟩

/-- non-vacuity of `PIPE_spelling_independent` -/
theorem same : SameSpelling groups₁ groups₂ :=
  List.Forall₂.cons ⟨rfl, ['C'], r₁, r₂, rfl, rfl, wf₁, wf₂, by decide⟩ List.Forall₂.nil

/-- the sorted distinct peripherals (`List.mergeSort` is unfolded by `simp`: the kernel does not reduce it) -/
theorem keys_HC : keys [['H'], ['C']] = [['C'], ['H']] := by
  unfold keys
  have : GroupName.uniq [['H'], ['C']] = [['H'], ['C']] := by decide +kernel
  rw [this]
  simp [List.mergeSort, List.MergeSort.Internal.splitInTwo, List.merge, nameLe]
  decide

theorem canon_HC : String.ofList (canon ['C'] [['H'], ['C']]) = "C(C)(H)" := by
  unfold canon
  rw [keys_HC]
  decide +kernel

/-- the library loaded from the first file is keyed by the canonical name … -/
theorem loaded : loadContents groups₁ [] = .ok [("C(C)(H)", [("thermochem", corr)])] := by
  have hp : parse (spell ['C'] r₁) = .ok ⟨['C'], expandRuns r₁⟩ := C19_parse_spell ['C'] r₁ wf₁
  have hk : String.ofList (Group.name ⟨['C'], expandRuns r₁⟩) = "C(C)(H)" := canon_HC
  unfold loadContents groups₁
  rw [loadGroups_cons_ok _ _ _ _ _ hp, hk]
  rfl

/-- … and so is the one loaded from the second -/
example : loadContents groups₂ [] = .ok [("C(C)(H)", [("thermochem", corr)])] := by
  rw [(PIPE_spelling_independent groups₁ groups₂ [] same).1]; exact loaded

/-- `lib[Group('C', ['C', 'H'])]` and `lib[Group('C', ['H', 'C'])]` both find the entry written `C(H)(C)` -/
example : getItemGroup ⟨[("C(C)(H)", [("thermochem", corr)])], none, none⟩ ['C'] [['C'], ['H']] = [("thermochem", corr)] :=
  PIPE_spelling_lookup groups₁ [] _ loaded ['C'] r₁ _ (by simp [groups₁]) wf₁ [['C'], ['H']] (by decide) none none
end ExSpell

/-- the witness: a library whose only entry is written `C(H)(C)` is keyed `C(C)(H)`; the string `'C(H)(C)'` finds nothing
(on the real code: `lib.Estimate({'C(H)3(C)': 2}, 'thermochem')` raises `GroupMissingDataError` where the same library
answers for `'C(C)(H)3'` and for `Group.parse(scheme, 'C(H)3(C)')` — `notes/Pipeline.md`) -/
theorem PIPE_spelling_raw_string_full_fails : ¬ PIPE_spelling_raw_string_full := by
  intro h
  have := h ExSpell.groups₁ [] _ ExSpell.loaded ['C'] ExSpell.r₁ [("thermochem", ExSpell.corr)] (by simp [ExSpell.groups₁])
    ExSpell.wf₁ none none
  have hne : ((⟨[("C(C)(H)", [("thermochem", ExSpell.corr)])], none, none⟩ : Lib).getItem
      (String.ofList (spell ['C'] ExSpell.r₁))).length = 0 := by decide +kernel
  rw [this] at hne
  cases hne

end

/-! ### ∘ C07 — the dimensional getters -/

/-- **Same non-dimensional values ⇒ same `G/RT`, `H`, `G`, `S`, `Cp` in every unit** (each getter returns a value for one
object exactly when it does for the other, and the same value; `KeyError` for an unknown unit string on both sides). -/
theorem PIPE_dimensional_same (R : RTable) (o o' : ND) (h : NDSame o o') (T : Rat) (u : UnitStr) (flag : PyFlag) :
    SameVal (o.GoRT T flag) (o'.GoRT T flag) ∧ SameVal (o.H R T u) (o'.H R T u) ∧
    SameVal (o.G R T u flag) (o'.G R T u flag) ∧ SameVal (o.Sdim R T u flag) (o'.Sdim R T u flag) ∧
    SameVal (o.Cp R T u) (o'.Cp R T u) := by
  refine ⟨fun v => ?_, fun v => ?_, fun v => ?_, fun v => ?_, fun v => ?_⟩
  · simp only [GoRT_ok_iff, h.hort T _, h.sor T flag _]
  · simp only [C07_H, h.hort T _]
  · simp only [C07_G, h.hort T _, h.sor T flag _]
  · simp only [C07_S, h.sor T flag _]
  · simp only [C07_Cp, h.cp T _]

/-- **Additive non-dimensional values ⇒ additive `G/RT`, `H`, `G`, `S`, `Cp` in every unit**: `H(T,u) = (H/RT)·T·R(u/K)` etc. are
linear in the non-dimensional value (C07), so `X_U = X_A + X_B` lifts: the mixture's getter returns a value exactly when both
components' do, and then their sum. -/
theorem PIPE_dimensional_sum (R : RTable) (oU oA oB : ND) (h : NDSum oU oA oB) (T : Rat) (u : UnitStr) (flag : PyFlag) :
    SumVal (oU.GoRT T flag) (oA.GoRT T flag) (oB.GoRT T flag) ∧ SumVal (oU.H R T u) (oA.H R T u) (oB.H R T u) ∧
    SumVal (oU.G R T u flag) (oA.G R T u flag) (oB.G R T u flag) ∧
    SumVal (oU.Sdim R T u flag) (oA.Sdim R T u flag) (oB.Sdim R T u flag) ∧
    SumVal (oU.Cp R T u) (oA.Cp R T u) (oB.Cp R T u) := by
  refine ⟨fun v => ?_, fun v => ?_, fun v => ?_, fun v => ?_, fun v => ?_⟩
  · simp only [GoRT_ok_iff, h.hort T _, h.sor T flag _]
    constructor
    · rintro ⟨_, _, ⟨ha, hb, h1, h2, rfl⟩, ⟨sa, sb, s1, s2, rfl⟩, rfl⟩
      exact ⟨ha - sa, hb - sb, ⟨ha, sa, h1, s1, rfl⟩, ⟨hb, sb, h2, s2, rfl⟩, by ring⟩
    · rintro ⟨_, _, ⟨ha, sa, h1, s1, rfl⟩, ⟨hb, sb, h2, s2, rfl⟩, rfl⟩
      exact ⟨ha + hb, sa + sb, ⟨ha, hb, h1, h2, rfl⟩, ⟨sa, sb, s1, s2, rfl⟩, by ring⟩
  · simp only [C07_H, h.hort T _]
    constructor
    · rintro ⟨_, r, ⟨ha, hb, h1, h2, rfl⟩, hr, rfl⟩
      exact ⟨ha * T * r, hb * T * r, ⟨ha, r, h1, hr, rfl⟩, ⟨hb, r, h2, hr, rfl⟩, by ring⟩
    · rintro ⟨_, _, ⟨ha, r, h1, hr, rfl⟩, ⟨hb, r', h2, hr', rfl⟩, rfl⟩
      rw [hr] at hr'; cases hr'
      exact ⟨ha + hb, r, ⟨ha, hb, h1, h2, rfl⟩, hr, by ring⟩
  · simp only [C07_G, h.hort T _, h.sor T flag _]
    constructor
    · rintro ⟨_, _, r, ⟨ha, hb, h1, h2, rfl⟩, ⟨sa, sb, s1, s2, rfl⟩, hr, rfl⟩
      exact ⟨(ha - sa) * T * r, (hb - sb) * T * r, ⟨ha, sa, r, h1, s1, hr, rfl⟩, ⟨hb, sb, r, h2, s2, hr, rfl⟩, by ring⟩
    · rintro ⟨_, _, ⟨ha, sa, r, h1, s1, hr, rfl⟩, ⟨hb, sb, r', h2, s2, hr', rfl⟩, rfl⟩
      rw [hr] at hr'; cases hr'
      exact ⟨ha + hb, sa + sb, r, ⟨ha, hb, h1, h2, rfl⟩, ⟨sa, sb, s1, s2, rfl⟩, hr, by ring⟩
  · simp only [C07_S, h.sor T flag _]
    constructor
    · rintro ⟨_, r, ⟨sa, sb, s1, s2, rfl⟩, hr, rfl⟩
      exact ⟨sa * r, sb * r, ⟨sa, r, s1, hr, rfl⟩, ⟨sb, r, s2, hr, rfl⟩, by ring⟩
    · rintro ⟨_, _, ⟨sa, r, s1, hr, rfl⟩, ⟨sb, r', s2, hr', rfl⟩, rfl⟩
      rw [hr] at hr'; cases hr'
      exact ⟨sa + sb, r, ⟨sa, sb, s1, s2, rfl⟩, hr, by ring⟩
  · simp only [C07_Cp, h.cp T _]
    constructor
    · rintro ⟨_, r, ⟨ca, cb, c1, c2, rfl⟩, hr, rfl⟩
      exact ⟨ca * r, cb * r, ⟨ca, r, c1, hr, rfl⟩, ⟨cb, r, c2, hr, rfl⟩, by ring⟩
    · rintro ⟨_, _, ⟨ca, r, c1, hr, rfl⟩, ⟨cb, r', c2, hr', rfl⟩, rfl⟩
      rw [hr] at hr'; cases hr'
      exact ⟨ca + cb, r, ⟨ca, cb, c1, c2, rfl⟩, hr, by ring⟩

/-- **∘ C07: mixture additivity in units.**  Under the hypotheses of `PIPE_mixture_additive`, for every gas-constant table,
temperature, unit string and `S_elements` flag: `G/RT`, `H`, `G`, `S`, `Cp` of `lib.Estimate(lib.GetDescriptors(A ⊔ B), set)`
are the sums of those for `A` and `B` (a value exactly when both components give one; an unknown unit string is `KeyError` for
all three). -/
theorem PIPE_dimensional (R : RTable) (sel : Nat → Option Rat) (reg : List String) (S : SchemeDef) (lib : Lib) (set : String)
    (A B : Mol) (H : UnionHyps S A B) (hsep : SeparatedMol S A B) (eU eA eB : Estimator)
    (hU : pipeline reg S lib (A.union B) set = .ok eU) (hA : pipeline reg S lib A set = .ok eA)
    (hB : pipeline reg S lib B set = .ok eB) (T : Rat) (u : UnitStr) (flag : PyFlag) :
    SumVal ((eU.toND sel).GoRT T flag) ((eA.toND sel).GoRT T flag) ((eB.toND sel).GoRT T flag) ∧
    SumVal ((eU.toND sel).H R T u) ((eA.toND sel).H R T u) ((eB.toND sel).H R T u) ∧
    SumVal ((eU.toND sel).G R T u flag) ((eA.toND sel).G R T u flag) ((eB.toND sel).G R T u flag) ∧
    SumVal ((eU.toND sel).Sdim R T u flag) ((eA.toND sel).Sdim R T u flag) ((eB.toND sel).Sdim R T u flag) ∧
    SumVal ((eU.toND sel).Cp R T u) ((eA.toND sel).Cp R T u) ((eB.toND sel).Cp R T u) :=
  PIPE_dimensional_sum R _ _ _ (PIPE_mixture_additive sel reg S lib set A B H hsep eU eA eB hU hA hB).1 T u flag

/-- **∘ C07: renumbering invariance in units.**  Under the hypotheses of `PIPE_relabel_invariant`, when the pipeline returns an
estimate for `m` it returns one for `m'` with the same `G/RT`, `H`, `G`, `S`, `Cp` in every unit at every temperature. -/
theorem PIPE_dimensional_relabel (R : RTable) (sel : Nat → Option Rat) (reg : List String) (S : SchemeDef) (lib : Lib) (set : String)
    {π : Nat → Nat} {m m' : Mol} (iso : MolIso π m m')
    (hm : m.wf = true) (hq : S.wf = true) (hs : S.noStar = true)
    (hcap : maxRaw S (aromatizeBenson m) < maxMatches) (hcap' : maxRaw S (aromatizeBenson m') < maxMatches)
    (hcf : ChainFree S.remaps) (e : Estimator) (he : pipeline reg S lib m set = .ok e) :
    ∃ e', pipeline reg S lib m' set = .ok e' ∧ ∀ T u flag,
      SameVal ((e.toND sel).GoRT T flag) ((e'.toND sel).GoRT T flag) ∧ SameVal ((e.toND sel).H R T u) ((e'.toND sel).H R T u) ∧
      SameVal ((e.toND sel).G R T u flag) ((e'.toND sel).G R T u flag) ∧
      SameVal ((e.toND sel).Sdim R T u flag) ((e'.toND sel).Sdim R T u flag) ∧
      SameVal ((e.toND sel).Cp R T u) ((e'.toND sel).Cp R T u) := by
  obtain ⟨e', he', _, hnd⟩ := (PIPE_relabel_invariant sel reg S lib set iso hm hq hs hcap hcap' hcf).estimate e he
  exact ⟨e', he', fun T u flag => PIPE_dimensional_same R _ _ hnd T u flag⟩

/-! #### non-vacuity: the pair of C–H fragments in J/mol with a one-entry gas-constant table -/
namespace ExMix
open PGA.C04
def Rtab : RTable := [(['J', '/', 'm', 'o', 'l', '/', 'K'], 8)]
def HOf (r : Except Err Estimator) (T : Rat) : Option Rat :=
  match r with
  | .ok e => (match (e.toND (fun _ => none)).H Rtab T ['J', '/', 'm', 'o', 'l'] with | .ok v => some v | .error _ => none)
  | .error _ => none
/-- `H(300 K) = (9/4)·300·8 = 5400` for the fragment and `10800` for the pair -/
example : HOf (pipeline ["thermochem"] exScheme lib exMol "thermochem") 300 = some 5400 ∧
    HOf (pipeline ["thermochem"] exScheme lib (exMol.union exMol) "thermochem") 300 = some 10800 := by decide +kernel
end ExMix

end PGA.Pipeline
