import PGA.Proofs.Match
import PGA.Proofs.Read
/-!
# C08 — RING fragment matching returns exactly the embeddings it denotes

Property theorems about the model of `pgradd/RINGParser/MolQueryRead.py` (`PGA/Model/Query.lean`)
and `pgradd/RDkitWrapper/MolQuery.py` (`PGA/Model/Match.lean`).  The denotation `Embeds` and the
reference tables are in `PGA/Spec/Embeds.lean`; helper lemmas in `PGA/Proofs/{Enum,Cand,Tables,
Neighbours,Match}.lean`.  All quantifiers are unbounded: every query (any number of atoms, bonds,
constraints), every molecule graph, every assignment.
-/
namespace PGA.C08
open PGA PGA.Spec PGA.Match

/-! ## Table obligations (regenerated from the live objects on every run) -/

/-- Table obligation: `MolQuery.ops` has exactly the five operators of the reference table and,
probed on the grid `[-2, 11]²`, each computes what the reference table says
(`ops['<']` turned into `<=` fails here). -/
theorem C08_tab_ops :
    PGA.Gen.MolQuery.opNames = ["<", "<=", "=", ">", ">="] ∧
    PGA.Gen.MolQuery.opsGrid.map (·.1) = PGA.Gen.MolQuery.opNames ∧
    (PGA.Gen.MolQuery.opsGrid.all fun row =>
      match opOfText row.1 with
      | some op => row.2.length == 196 && row.2.all fun r => decide (Cmp op r.1 r.2.1) == r.2.2
      | none => false) = true := by
  decide +kernel

/-- bond kind of a name used in the generated probe table -/
def kindOfName : String → Option BondKind
  | "single" => some .single | "double" => some .double | "triple" => some .triple
  | "quadruple" => some .quadruple | "aromatic" => some .aromatic | "zero" => some .zero
  | "dative" => some .dative | "other" => some .other | "misc" => some .misc
  | _ => none

/-- Table obligation: `BondQuery` accepts exactly the ten RING bond words and, probed on real RDKit
bonds of every bond type in and out of a ring, each word holds exactly when the reference table
says so (dropping `TRIPLE` from `strong` fails here). -/
theorem C08_tab_bondwords :
    PGA.Gen.MolQuery.bondWords =
      ["single", "double", "triple", "quadruple", "ring", "nonring", "aromatic", "any", "strong", "partial"] ∧
    PGA.Gen.MolQuery.bondGrid.map (·.1) = PGA.Gen.MolQuery.bondWords ∧
    (PGA.Gen.MolQuery.bondGrid.all fun row =>
      match bondOfText row.1 with
      | some s => decide (18 ≤ row.2.length) && row.2.all fun r =>
          match kindOfName r.1 with
          | some k => decide (BondHolds s ⟨0, 1, k, r.2.1, .none, []⟩) == r.2.2
          | none => false
      | none => false) = true := by
  decide +kernel

/-- Table obligation: `ConstraintNumber` reads the literal strings the reader hands it
(`'>=1'` default count, `'=0'…'=3'` radical counts, `'=-1'` charge) as the operator and number
the model uses for them. -/
theorem C08_tab_cn :
    PGA.Gen.MolQuery.cnLiterals =
      [(">=1", ">=", 1), ("=0", "=", 0), ("=1", "=", 1), ("=2", "=", 2), ("=3", "=", 3), ("=-1", "=", -1)] := by
  decide +kernel

/-- the model reads operator and bond words as the reference tables do -/
theorem C08_words_as_reference :
    (∀ s, Read.cmpOpOf s = opOfText s) ∧
    (∀ s, Read.bondSpec s = match bondOfText s with | some b => .ok b | none => .error .notImplemented) := by
  refine ⟨fun s => ?_, fun s => ?_⟩
  · unfold Read.cmpOpOf opOfText; split <;> simp_all
  · unfold Read.bondSpec bondOfText; split <;> simp_all <;> rfl

/-! ## T1: matches = embeddings -/

/-- **T1, full statement**: for every well-formed query and graph the matcher returns exactly the
embeddings.  False of the code as it is because of the `*` suffix (finding FM1): see
`C08_matches_iff_full_fails`. -/
def C08_matches_iff_full : Prop :=
  ∀ (q : Query) (m : Mol) (f : List Nat), q.wf = true → m.wf = true →
    (f ∈ queryMatches q m ↔ Embeds q m f)

/-- **T1 (proved part)**: for every query whose bonds and stereo statements refer to declared atoms
(`q.wf`, guaranteed by the reader: `C08_read_wf`), every well-formed molecule graph (`m.wf`: no
loops, no parallel bonds, rings without repeated atoms) and every assignment `f`: the matcher
returns `f` exactly when `f` embeds the fragment in the molecule — nothing satisfying the pattern
is omitted and nothing violating it is returned.  Guard: the fragment does not use the `*`
suffix. -/
theorem C08_matches_iff_partial (q : Query) (m : Mol) (f : List Nat)
    (hq : q.wf = true) (hm : m.wf = true) (hstar : NoStar q = true) :
    f ∈ queryMatches q m ↔ Embeds q m f :=
  mem_queryMatches q m f hq hm hstar

/-- **T1, duplicates**: no assignment is returned twice — for every query and graph, no guard. -/
theorem C08_matches_nodup (q : Query) (m : Mol) : (queryMatches q m).Nodup :=
  queryMatches_nodup q m

/-- example graph: propene's carbon skeleton `C=C-C` with one hydrogen on the last carbon -/
def exMol : Mol :=
  { atoms := [⟨6, 0, 0, false, some 4⟩, ⟨6, 0, 0, false, some 4⟩, ⟨6, 0, 0, false, some 4⟩, ⟨1, 0, 0, false, some 1⟩]
    bonds := [⟨0, 1, .double, false, .none, []⟩, ⟨1, 2, .single, false, .none, []⟩, ⟨2, 3, .single, false, .none, []⟩]
    rings := [] }

/-- example query: `C labeled a {connected to >=1 H}  allylic C labeled b single bond to a` under `olefinic` -/
def exQuery : Query :=
  { name := "ex", molPre := [.olefinic]
    atoms := [⟨"a", ⟨none, .elem 6, .none⟩, [.conn false ⟨.ge, 1⟩ ⟨none, .elem 1, .none⟩ .single]⟩,
              ⟨"b", ⟨some .allylic, .elem 6, .none⟩, []⟩]
    bonds := [⟨1, 0, .single⟩], stereo := [] }

/-- non-vacuity of T1: a concrete query and graph meet the hypotheses and have exactly one match -/
example : exQuery.wf = true ∧ exMol.wf = true ∧ NoStar exQuery = true ∧
    queryMatches exQuery exMol = [[2, 1]] := by decide

example : Embeds exQuery exMol [2, 1] :=
  (C08_matches_iff_partial exQuery exMol [2, 1] (by decide) (by decide) (by decide)).1 (by decide)

/-- witness of FM1: `C* labeled a` on a neutral carbon -/
def starQuery : Query :=
  { name := "s", molPre := [], atoms := [⟨"a", ⟨none, .elem 6, .star⟩, []⟩], bonds := [], stereo := [] }

/-- The full statement fails on the code as it is: `C*` matches a neutral carbon, which is not an
embedding (the `*` suffix asks for formal charge +1). -/
theorem C08_matches_iff_full_fails : ¬ C08_matches_iff_full := by
  intro h
  have hm : [0] ∈ queryMatches starQuery exMol := by decide
  have he := (h starQuery exMol [0] (by decide) (by decide)).1 hm
  have ha := he.atoms 0 _ 0 rfl rfl
  have : TypeHolds exMol ⟨none, .elem 6, .star⟩ 0 := ha.1
  revert this
  decide

/-! ## The reader: well-formed queries, label names do not matter -/

/-- **Reader, well-formedness**: every query the reader returns — for every parse tree — has its
bonds and stereo statements between declared atoms, i.e. meets the hypothesis `q.wf` of T1. -/
theorem C08_read_wf (t : Ast) (q : Query) (h : readFragment t = .ok q) : q.wf = true := by
  unfold readFragment at h
  simp only [bind, Except.bind] at h
  cases hf : Frag.ofAst t with
  | error e => simp [hf] at h
  | ok f => simp only [hf] at h; exact Read.frag_wf f q h

/-- **Reader, outcome classes**: whatever tree it is given, the reader model ends with a query, a
`RINGReaderError`, a `NotImplementedError`, or — only on a tree the parser cannot produce — `shape`.
There is no other outcome: the one non-RING exception the reader could raise on a parser-produced
tree (`TypeError` from the dead duplicate-label guard, FM2) was repaired in the repository and the
corresponding constructor and branch were removed from the model, so this holds by construction of
the outcome type; the correspondence check holds the implementation to it (an implementation
exception of any other class on a generated fragment is a disagreement and a violation). -/
theorem C08_read_only_ring_errors (t : Ast) (e : ReadErr) (_h : readFragment t = .error e) :
    e = .reader ∨ e = .notImplemented ∨ e = .shape := by
  cases e <;> simp

/-- **T1 from the parse tree on**: for every parse tree the reader accepts, every well-formed
molecule graph and every assignment, the matches of the query read from the tree are exactly the
embeddings of that query (guard: no `*` suffix). -/
theorem C08_fragment_matches_iff_partial (t : Ast) (q : Query) (m : Mol) (f : List Nat)
    (hread : readFragment t = .ok q) (hm : m.wf = true) (hstar : NoStar q = true) :
    f ∈ queryMatches q m ↔ Embeds q m f :=
  C08_matches_iff_partial q m f (C08_read_wf t q hread) hm hstar

/-- **T3, reading, full statement**: renaming the labels by any injective renaming changes nothing
but the label names in what the reader returns.  Before the repository repair of finding FM2 this was
false of the code (an atom *called* `AtomLabel` made the reader fail with `TypeError` at the next
bonded atom, so the proved statement carried the guard "σ neither introduces nor removes the word
`AtomLabel`"); the dead guard is gone, the model has no such branch any more, and the full statement
is now a theorem (`C08_alpha_read`).  The former failing input stays in `corpus/C08/FM2.json` and must
be read. -/
def C08_alpha_read_full : Prop :=
  ∀ (σ : String → String), Function.Injective σ → ∀ f : Frag,
    Read.frag (f.rename σ) = (Read.frag f).map (Query.relabel σ)

/-- **T3, reading**: renaming the atom labels of a fragment by *any* injective renaming `σ` changes
nothing but the label names in what the reader returns — same outcome class, same atoms, bonds,
constraints and stereo statements.  Every fragment, every length, no guard on the label words.
(Stated on the typed fragment `Frag` the tree is first decoded into; layout and white space are
consumed by the parser and do not reach the tree — see `PGA/Props/C08Text.lean`.) -/
theorem C08_alpha_read (σ : String → String) (hσ : Function.Injective σ) (f : Frag) :
    Read.frag (f.rename σ) = (Read.frag f).map (Query.relabel σ) :=
  Read.frag_rename σ hσ f

/-- the full statement of T3 (reading) holds -/
theorem C08_alpha_read_full_holds : C08_alpha_read_full := C08_alpha_read

/-- **T3, label names are not part of a query's meaning**: relabelling a query leaves its matches
on every molecule unchanged. -/
theorem C08_labels_irrelevant (σ : String → String) (q : Query) (m : Mol) :
    queryMatches (q.relabel σ) m = queryMatches q m :=
  queryMatches_relabel σ q m

/-- **T3**: the matches of a fragment do not depend on the choice of label names: for every
fragment, every injective renaming and every molecule, reading the renamed fragment and matching
gives the same outcome (same error, or the same list of matches).  No guard. -/
theorem C08_alpha_matches (σ : String → String) (hσ : Function.Injective σ) (f : Frag) (m : Mol) :
    (Read.frag (f.rename σ)).map (queryMatches · m) = (Read.frag f).map (queryMatches · m) := by
  rw [C08_alpha_read σ hσ f]
  cases Read.frag f with
  | error e => rfl
  | ok q => simp only [Except.map]; rw [C08_labels_irrelevant]

/-- a typed fragment for the examples: `C labeled a  C labeled b double bond to a` -/
def exFrag : Frag :=
  { pre := [], name := "x", ty0 := ⟨none, "C", none⟩, label0 := "a", chain0 := [],
    items := [.bonded ⟨none, "C", none⟩ "b" "double" "a" []] }

/-- a renaming for the examples: swap the labels `a` and `b` -/
def swapAB (s : String) : String := if s = "a" then "b" else if s = "b" then "a" else s

theorem swapAB_injective : Function.Injective swapAB := by
  have inv : ∀ s, swapAB (swapAB s) = s := by
    intro s
    unfold swapAB
    by_cases h1 : s = "a"
    · subst h1; decide
    · by_cases h2 : s = "b"
      · subst h2; decide
      · simp [h1, h2]
  intro x y h
  rw [← inv x, ← inv y, h]

/-- non-vacuity of T3: an injective renaming that really moves the labels of the example -/
example : (exFrag.rename swapAB).label0 = "b" := by decide

example (m : Mol) : (Read.frag (exFrag.rename swapAB)).map (queryMatches · m) =
    (Read.frag exFrag).map (queryMatches · m) :=
  C08_alpha_matches swapAB swapAB_injective exFrag m

/-- a renaming that *introduces* the word `AtomLabel` (the class the old guard excluded): swap `a` and `AtomLabel` -/
def swapAL (s : String) : String := if s = "a" then "AtomLabel" else if s = "AtomLabel" then "a" else s

theorem swapAL_injective : Function.Injective swapAL := by
  have inv : ∀ s, swapAL (swapAL s) = s := by
    intro s
    unfold swapAL
    by_cases h1 : s = "a"
    · subst h1; decide
    · by_cases h2 : s = "AtomLabel"
      · subst h2; decide
      · simp [h1, h2]
  intro x y h
  rw [← inv x, ← inv y, h]

/-- the former FM2 class is covered: the first atom of the example is now called `AtomLabel`, a bonded atom follows,
and reading and matching are unchanged -/
example : (exFrag.rename swapAL).label0 = "AtomLabel" := by decide

example (m : Mol) : (Read.frag (exFrag.rename swapAL)).map (queryMatches · m) =
    (Read.frag exFrag).map (queryMatches · m) :=
  C08_alpha_matches swapAL swapAL_injective exFrag m

/-! ## The cap of 10 000 candidates (F30) -/

/-- **T1 with the cap, full statement**: the capped matcher returns exactly the embeddings.  False of
the code as it is (F30): beyond 10 000 candidates embeddings are omitted — refuted in
`PGA/Props/C08Cap.lean` (`C08_capped_iff_full_fails`); the failing input on the real code is
`corpus/C08/F30.json` (10 728 embeddings, 10 000 returned). -/
def C08_capped_iff_full : Prop :=
  ∀ (q : Query) (m : Mol) (f : List Nat), q.wf = true → m.wf = true → NoStar q = true →
    (f ∈ queryMatchesCapped q m ↔ Embeds q m f)

/-- **Cap, completeness under the guard**: when the candidate enumeration stays below RDKit's
`maxMatches` the capped matcher is the uncapped one. -/
theorem C08_cap_inactive (q : Query) (m : Mol) (h : (rawMatches q m).length < maxMatches) :
    queryMatchesCapped q m = queryMatches q m := by
  unfold queryMatchesCapped queryMatches
  rw [List.take_of_length_le (Nat.le_of_lt h)]

/-- **T1 with the cap explicit**: below 10 000 candidates the capped matcher returns exactly the
embeddings. -/
theorem C08_capped_iff_partial (q : Query) (m : Mol) (f : List Nat)
    (hq : q.wf = true) (hm : m.wf = true) (hstar : NoStar q = true)
    (hcap : (rawMatches q m).length < maxMatches) :
    f ∈ queryMatchesCapped q m ↔ Embeds q m f := by
  rw [C08_cap_inactive q m hcap]; exact C08_matches_iff_partial q m f hq hm hstar

/-- **Cap, soundness without the guard**: whichever candidates a truncated enumeration keeps
(any sub-collection of the candidates), everything the pipeline then returns is an embedding.
Only completeness is lost at the cap. -/
theorem C08_truncated_sound (q : Query) (m : Mol) (kept : List (List Nat)) (f : List Nat)
    (hq : q.wf = true) (hm : m.wf = true) (hstar : NoStar q = true)
    (hkept : ∀ g ∈ kept, g ∈ rawMatches q m) (hf : f ∈ pipeline kept q m) : Embeds q m f := by
  apply (C08_matches_iff_partial q m f hq hm hstar).1
  unfold queryMatches
  unfold pipeline at hf ⊢
  split at hf
  · rename_i hmol
    simp only [hmol, if_true, List.mem_filter] at hf ⊢
    exact ⟨⟨⟨hkept f hf.1.1.1, hf.1.1.2⟩, hf.1.2⟩, hf.2⟩
  · simp at hf

example : (rawMatches exQuery exMol).length < maxMatches := by decide

end PGA.C08
