import PGA.Proofs.ThermoRange
import PGA.Props.C05
import PGA.Spec.LibThermo
/-!
# C14-T1 — every well-formed group record evaluates for every temperature of its range

The connection between the C14 tables (`wfGroup` on every record of every shipped library,
`PGA/Gen/LibObl_<lib>.groups_wf`) and the thermo model of C05/C06: a record that passes the Boolean
check `wfGroup` *can be constructed* in the thermo model (every guard of `ThermochemIncomplete.__init__`,
`ThermochemRawData.__init__` and `ThermochemBase.__init__` passes) and the constructed object returns a
value — never an error outcome, in particular no division by zero — for `Cp/R`, `H/RT`, `S/R`, `G/RT`
at every rational `T` of its range, for each property it has data for; this for **every** interpolant
(the SciPy spline, QUADPACK and `log` are parameters: no hypothesis on them is needed for this part).
For an interpolant that passes through the table and has additive integrals (`Hits`, `Good`) the object
moreover reproduces its reference values at `T_ref` and its table.  The generated modules instantiate
both per library from `groups_wf` (`groups_evaluate`, `groups_reproduce`).
-/
namespace PGA.LibTable
open PGA PGA.Thermo

/-! ## decimal literals -/

/-- the conversion between the two decimal-literal types keeps the value -/
theorem Dec.toThermo_toRat (d : PGA.Dec) : d.toThermo.toRat = d.toRat := by
  unfold PGA.Dec.toThermo PGA.Thermo.Dec.toRat PGA.Dec.toRat
  simp only [ge_iff_le]

/-! ## the table of a record in the two vocabularies -/

/-- the value column of a table all of whose values are plain numbers -/
def valOf (p : Dec × Val) : Rat := (p.2.rat?).getD 0

theorem filterMap_pts (l : List (Dec × Val)) (h : ∀ p ∈ l, p.2.isNum = true) :
    (l.filterMap fun p => p.2.rat?.map fun v => (p.1.toRat, v)) = l.map fun p => (p.1.toRat, valOf p) := by
  induction l with
  | nil => rfl
  | cons p ps ih =>
    have hp := h p (List.mem_cons_self ..)
    have ih' := ih (fun q hq => h q (List.mem_cons_of_mem _ hq))
    cases hv : p.2 with
    | num d =>
      rw [List.filterMap_cons, List.map_cons, ih']
      simp [hv, Val.rat?, valOf]
    | absent => simp [hv, Val.isNum] at hp
    | notNumber w => simp [hv, Val.isNum] at hp

theorem pts_eq_map (g : GroupRec) (h : ∀ p ∈ g.cp, p.2.isNum = true) :
    g.pts = g.cp.map fun p => (p.1.toRat, valOf p) := filterMap_pts g.cp h

theorem strictInc_eq (l : List Pt) : strictInc l = strictlyIncreasing (l.map (·.1)) := by
  induction l with
  | nil => rfl
  | cons p ps ih =>
    cases ps with
    | nil => rfl
    | cons q qs =>
      simp only [strictInc, List.map_cons, strictlyIncreasing]
      rw [ih]; rfl

end PGA.LibTable

namespace PGA.Thermo

/-- **the constructor guards, positively**: a non-empty table with strictly increasing temperatures, and either a
declared range `lo ≤ hi` containing the table and `T_ref`, or no declared range and `T_ref` between two tabulated
temperatures — then `ThermochemRawData.__init__` succeeds (whatever the interpolant and the reference values) -/
theorem RawData.mk_ok_of {ip : Interp} {Href Sref : Rat} {pts : List Pt} {Tref : Rat} {range : Option Range}
    (hne : pts ≠ []) (hinc : strictInc pts = true)
    (hr : ∀ r, range = some r → r.1 ≤ r.2 ∧ (∀ p ∈ pts, r.1 ≤ p.1 ∧ p.1 ≤ r.2) ∧ r.1 ≤ Tref ∧ Tref ≤ r.2)
    (hn : range = none → ∃ p ∈ pts, ∃ q ∈ pts, p.1 ≤ Tref ∧ Tref ≤ q.1) :
    ∃ d, RawData.mk ip Href Sref pts Tref range = .ok d := by
  have hlt := (strictInc_iff pts).mp hinc
  have hle : pts.Pairwise KeyLe := hlt.imp (fun h => le_of_lt h)
  have hs := sortPts_of_sorted pts hle
  obtain ⟨p0, rest, rfl⟩ := List.exists_cons_of_ne_nil hne
  have hmin : ∀ x ∈ p0 :: rest, p0.1 ≤ x.1 := by
    intro x hx
    rcases List.mem_cons.mp hx with rfl | hx
    · exact le_refl _
    · exact (List.pairwise_cons.mp hle).1 x hx
  have hmax := le_lastPt p0 rest hle
  have hlm := lastPt_mem p0 rest
  unfold RawData.mk
  rw [hs]
  simp only
  cases range with
  | none =>
    obtain ⟨p, hp, q, hq, h1, h2⟩ := hn rfl
    have ho : outsideR (p0.1, (lastPt p0 rest).1) Tref = false :=
      outsideR_false.mpr ⟨le_trans (hmin p hp) h1, le_trans h2 (hmax q hq)⟩
    have hnl : ¬ ((lastPt p0 rest).1 < p0.1) := not_lt.mpr (hmax p0 (List.mem_cons_self ..))
    simp only [ho, Bool.false_eq_true, if_false, hnl]
    cases rest with
    | nil => exact ⟨_, rfl⟩
    | cons q' qs => rw [if_pos hinc]; exact ⟨_, rfl⟩
  | some r =>
    obtain ⟨hlh, hall, h1, h2⟩ := hr r rfl
    have c1 : ¬ (p0.1 < r.1) := not_lt.mpr (hall p0 (List.mem_cons_self ..)).1
    have c2 : ¬ ((lastPt p0 rest).1 > r.2) := not_lt.mpr (hall _ hlm).2
    have ho : outsideR r Tref = false := outsideR_false.mpr ⟨h1, h2⟩
    have hnl : ¬ (r.2 < r.1) := not_lt.mpr hlh
    simp only [c1, c2, decide_false, Bool.or_self, Bool.false_eq_true, if_false, ho, hnl]
    cases rest with
    | nil => exact ⟨_, rfl⟩
    | cons q' qs => rw [if_pos hinc]; exact ⟨_, rfl⟩

end PGA.Thermo

namespace PGA.Thermo

/-- `Incomplete.inside_ok` with the range of the *inner* table correlation in place of a declared range (a
constituent with a table but no declared range is valid on the span of its table) -/
theorem Incomplete.inside_ok' {c : Incomplete} (hw : c.WF) {T : Rat}
    (hT : c.cp ≠ [] → ∀ d, c.corr = some d → 0 < d.range.1 ∧ inRange T (some d.range)) :
    (c.cp ≠ [] → ∃ v, c.CpoR T = (.ok v, false)) ∧
    (c.Href ≠ none → IsValue (c.HoRT T)) ∧ (c.Sref ≠ none → IsValue (c.SoR T)) := by
  by_cases hcp : c.cp = []
  · exact Incomplete.inside_ok hw (fun h => absurd hcp h)
  · obtain ⟨ip, d, hd, hc⟩ := hw.hascp hcp
    obtain ⟨hpos, hin⟩ := hT hcp d hc
    obtain ⟨⟨v1, e1⟩, ⟨v2, e2⟩, ⟨v3, e3⟩, _⟩ := RawData.inside_ok hd hpos (T := T) hin
    obtain ⟨q, qs, hq⟩ := List.exists_cons_of_ne_nil hcp
    refine ⟨fun _ => ⟨v1, ?_⟩, fun hh => ?_, fun hs => ?_⟩
    · unfold Incomplete.CpoR; rw [hq, hc]; simp only [e1, convertErr_ok]
    · unfold Incomplete.HoRT; rw [hq, hc]
      cases h : c.Href with
      | none => exact absurd h hh
      | some v => exact ⟨v2, by simp only [e2, convertErr_ok]⟩
    · unfold Incomplete.SoR; rw [hq, hc]
      cases h : c.Sref with
      | none => exact absurd h hs
      | some v => exact ⟨v3, by simp only [e3, convertErr_ok]⟩

end PGA.Thermo

namespace PGA.LibTable
open PGA PGA.Thermo

/-! ## what `wfGroup` says -/

theorem foldl_min_mem (a : Rat) (l : List Rat) : l.foldl min a = a ∨ l.foldl min a ∈ l := by
  induction l generalizing a with
  | nil => exact Or.inl rfl
  | cons x xs ih =>
    simp only [List.foldl_cons, List.mem_cons]
    rcases ih (min a x) with h | h
    · rw [h]
      rcases min_choice a x with e | e
      · exact Or.inl e
      · exact Or.inr (Or.inl e)
    · exact Or.inr (Or.inr h)

theorem foldl_max_mem (a : Rat) (l : List Rat) : l.foldl max a = a ∨ l.foldl max a ∈ l := by
  induction l generalizing a with
  | nil => exact Or.inl rfl
  | cons x xs ih =>
    simp only [List.foldl_cons, List.mem_cons]
    rcases ih (max a x) with h | h
    · rw [h]
      rcases max_choice a x with e | e
      · exact Or.inl e
      · exact Or.inr (Or.inl e)
    · exact Or.inr (Or.inr h)

/-- the Boolean check `wfGroup`, unpacked -/
theorem wfGroup_facts (g : GroupRec) (h : wfGroup g = true) :
    ∃ tr, g.tref.rat? = some tr ∧ 0 < tr ∧ (∀ p ∈ g.cp, p.2.isNum = true) ∧
      g.href.okOrAbsent = true ∧ g.sref.okOrAbsent = true ∧
      strictlyIncreasing (g.cp.map fun p => p.1.toRat) = true ∧
      (g.cp ≠ [] → ∃ lo hi, effRange g = some (lo, hi) ∧ 0 < lo ∧ lo ≤ hi ∧ lo ≤ tr ∧ tr ≤ hi ∧
        ∀ p ∈ g.cp, lo ≤ p.1.toRat ∧ p.1.toRat ≤ hi) ∧
      (∀ lo hi, effRange g = some (lo, hi) → 0 < lo ∧ lo ≤ hi) := by
  simp only [wfGroup, Bool.and_eq_true] at h
  obtain ⟨⟨⟨⟨⟨_, _⟩, h2⟩, h3⟩, h4⟩, h5⟩ := h
  cases htr : g.tref.rat? with
  | none => simp [htr] at h5
  | some tr =>
    simp only [htr, Bool.and_eq_true, decide_eq_true_eq] at h5
    obtain ⟨⟨hpos, hinc⟩, hr⟩ := h5
    refine ⟨tr, rfl, hpos, fun p hp => (List.all_eq_true.mp h4) p hp, h2, h3, hinc, ?_, ?_⟩
    · intro hne
      have hcpne : g.cp.isEmpty = false := by
        cases hcp : g.cp with
        | nil => exact absurd hcp hne
        | cons a b => rfl
      cases he : effRange g with
      | none => simp [he, hcpne] at hr
      | some r =>
        obtain ⟨lo, hi⟩ := r
        simp only [he, Bool.and_eq_true, decide_eq_true_eq, Bool.or_eq_true, hcpne, Bool.false_eq_true, false_or] at hr
        obtain ⟨⟨⟨hlo, hlh⟩, htr'⟩, hall⟩ := hr
        refine ⟨lo, hi, rfl, hlo, hlh, htr'.1, htr'.2, fun p hp => ?_⟩
        have := (List.all_eq_true.mp hall) p hp
        simpa using this
    · intro lo hi he
      simp only [he, Bool.and_eq_true, decide_eq_true_eq] at hr
      exact ⟨hr.1.1.1, hr.1.1.2⟩

/-! ## the effective range of a record -/

theorem mem_pts_of_mem_cp (g : GroupRec) (hnum : ∀ p ∈ g.cp, p.2.isNum = true) (p : Dec × Val) (hp : p ∈ g.cp) :
    (p.1.toRat, valOf p) ∈ g.pts := by
  rw [pts_eq_map g hnum]; exact List.mem_map.mpr ⟨p, hp, rfl⟩

theorem mem_cp_of_mem_pts (g : GroupRec) (hnum : ∀ p ∈ g.cp, p.2.isNum = true) (q : Pt) (hq : q ∈ g.pts) :
    ∃ p ∈ g.cp, q.1 = p.1.toRat := by
  rw [pts_eq_map g hnum] at hq
  obtain ⟨p, hp, rfl⟩ := List.mem_map.mp hq
  exact ⟨p, hp, rfl⟩

theorem pts_ne_nil (g : GroupRec) (hnum : ∀ p ∈ g.cp, p.2.isNum = true) : g.pts ≠ [] ↔ g.cp ≠ [] := by
  rw [pts_eq_map g hnum]; simp

/-- the effective range is the declared one, or — when none is declared — runs from a tabulated temperature to a
tabulated temperature -/
theorem effRange_cases (g : GroupRec) (hnum : ∀ p ∈ g.cp, p.2.isNum = true) (lo hi : Rat)
    (he : effRange g = some (lo, hi)) :
    g.declRange = some (lo, hi) ∨
      (g.declRange = none ∧ ∃ p ∈ g.pts, ∃ q ∈ g.pts, p.1 = lo ∧ q.1 = hi) := by
  unfold effRange at he
  unfold GroupRec.declRange
  cases hr : g.range with
  | some r =>
    obtain ⟨a, b⟩ := r
    rw [hr] at he
    simp only [Option.some.injEq, Prod.mk.injEq] at he
    left; simp [he.1, he.2]
  | none =>
    rw [hr] at he
    right
    refine ⟨rfl, ?_⟩
    simp only at he
    cases hm : g.cp.map (fun p => p.1.toRat) with
    | nil => rw [hm] at he; cases he
    | cons t ts =>
      rw [hm] at he
      simp only [Option.some.injEq, Prod.mk.injEq] at he
      have m1 : lo ∈ t :: ts := by
        rw [← he.1]
        rcases foldl_min_mem t (t :: ts) with e | e
        · rw [e]; exact List.mem_cons_self ..
        · exact e
      have m2 : hi ∈ t :: ts := by
        rw [← he.2]
        rcases foldl_max_mem t (t :: ts) with e | e
        · rw [e]; exact List.mem_cons_self ..
        · exact e
      rw [← hm] at m1 m2
      obtain ⟨p, hp, e1⟩ := List.mem_map.mp m1
      obtain ⟨q, hq, e2⟩ := List.mem_map.mp m2
      exact ⟨_, mem_pts_of_mem_cp g hnum p hp, _, mem_pts_of_mem_cp g hnum q hq, e1, e2⟩

/-! ## C14-T1 -/

/-- **C14-T1a (construction)**: a record that passes `wfGroup` can be constructed in the thermo model: every
guard of `ThermochemBase.__init__` (`range[1] >= range[0]`), of `ThermochemIncomplete.__init__` and of
`ThermochemRawData.__init__` (non-empty sorted table inside the range, `T_ref` inside the range, strictly
increasing temperatures for the spline) passes — for every interpolant.  The object carries the record's data. -/
theorem C14_wf_group_constructs (ip : Interp) (g : GroupRec) (h : wfGroup g = true) :
    ∃ c tr, g.correlation ip = .ok c ∧ g.tref.rat? = some tr ∧
      Incomplete.mk ip g.href.rat? g.sref.rat? g.pts tr g.declRange = .ok c := by
  obtain ⟨tr, htr, _, hnum, _, _, hinc, hcp, hrng⟩ := wfGroup_facts g h
  have hbase : baseInitOk g.declRange = true := by
    unfold GroupRec.declRange baseInitOk
    cases hr : g.range with
    | none => rfl
    | some r =>
      obtain ⟨a, b⟩ := r
      have he : effRange g = some (a.toRat, b.toRat) := by unfold effRange; rw [hr]
      simpa using (hrng _ _ he).2
  suffices hs : ∃ c, Incomplete.mk ip g.href.rat? g.sref.rat? g.pts tr g.declRange = .ok c by
    obtain ⟨c, hc⟩ := hs
    exact ⟨c, tr, by unfold GroupRec.correlation; rw [htr]; exact hc, htr, hc⟩
  unfold Incomplete.mk
  rw [if_neg (by simp [hbase])]
  cases hp : g.pts with
  | nil => exact ⟨_, rfl⟩
  | cons q qs =>
    simp only
    rw [← hp, mk_sortPts]
    have hne : g.pts ≠ [] := by rw [hp]; simp
    have hcpne := (pts_ne_nil g hnum).mp hne
    obtain ⟨lo, hi, he, _, hlh, h1, h2, hall⟩ := hcp hcpne
    have hinc' : strictInc g.pts = true := by
      rw [strictInc_eq, pts_eq_map g hnum, List.map_map]
      exact hinc
    have key := effRange_cases g hnum lo hi he
    obtain ⟨d, hd⟩ := RawData.mk_ok_of (ip := ip) (Href := g.href.rat?.getD 0) (Sref := g.sref.rat?.getD 0)
      (Tref := tr) (range := g.declRange) hne hinc'
      (by
        intro r hr
        rcases key with k | ⟨k, _⟩
        · rw [k] at hr; cases hr
          refine ⟨hlh, fun p hp' => ?_, h1, h2⟩
          obtain ⟨p', hp'', e⟩ := mem_cp_of_mem_pts g hnum p hp'
          rw [e]; exact hall p' hp''
        · rw [k] at hr; cases hr)
      (by
        intro hn
        rcases key with k | ⟨_, p, hp', q, hq, e1, e2⟩
        · rw [k] at hn; cases hn
        · exact ⟨p, hp', q, hq, by rw [e1]; exact h1, by rw [e2]; exact h2⟩)
    rw [hd]
    exact ⟨_, rfl⟩

/-- **C14-T1 (evaluation)**: for a record `g` that passes `wfGroup`, the correlation the thermo model builds from
`g`'s data — for every interpolant — is constructed, and at every rational temperature `T` of `g`'s range
(`lo ≤ T ≤ hi` of the declared range, or of the span of the table when none is declared; every `T` when the record
has neither) it returns a value, not an error outcome, for `Cp/R`, `H/RT`, `S/R` and `G/RT`, each whenever the
record has the data for it; for a record with a table no warning is issued. -/
theorem C14_wf_group_evaluates (ip : Interp) (g : GroupRec) (h : wfGroup g = true) :
    ∃ c, g.correlation ip = .ok c ∧ ∀ T, inRange T (effRange g) → EvaluatesAt g c T := by
  obtain ⟨c, tr, hc, htr, hmk⟩ := C14_wf_group_constructs ip g h
  obtain ⟨tr', htr', _, hnum, hho, hso, _, hcp, _⟩ := wfGroup_facts g h
  obtain ⟨hw, eH, eS, eCp, _, eR⟩ := Incomplete.mk_wf hmk
  refine ⟨c, hc, fun T hT => ?_⟩
  have key := Incomplete.inside_ok' hw (T := T) (by
    intro hcne d hd
    have hcpne : g.cp ≠ [] := (pts_ne_nil g hnum).mp (eCp ▸ hcne)
    obtain ⟨lo, hi, he, hlo, _, _, _, hall⟩ := hcp hcpne
    rw [he] at hT
    obtain ⟨ip', d', hd', hc'⟩ := hw.hascp hcne
    rw [hc'] at hd; cases hd
    have hb := RawData.mk_built hd'
    rw [eCp, eR] at hb
    rcases effRange_cases g hnum lo hi he with k | ⟨k, p, hp, q, hq, e1, e2⟩
    · have := hb.range_some _ k
      rw [this]; exact ⟨hlo, hT⟩
    · have hr := hb.range_none k
      rw [hr]
      obtain ⟨p', hp', e⟩ := mem_cp_of_mem_pts g hnum _ hb.min_mem
      have hmin : lo ≤ d.minT := by simp only at e; rw [e]; exact (hall p' hp').1
      refine ⟨lt_of_lt_of_le hlo hmin, ?_, ?_⟩
      · exact le_trans (e1 ▸ hb.min_le p hp) hT.1
      · exact le_trans hT.2 (e2 ▸ hb.le_max q hq))
  have hH : g.href.isNum = true → c.Href ≠ none := by
    intro hn; rw [eH]; cases hv : g.href <;> simp_all [Val.isNum, Val.rat?]
  have hS : g.sref.isNum = true → c.Sref ≠ none := by
    intro hn; rw [eS]; cases hv : g.sref <;> simp_all [Val.isNum, Val.rat?]
  refine ⟨fun hne => key.1 (by rw [eCp]; exact (pts_ne_nil g hnum).mpr hne), fun hn => key.2.1 (hH hn),
    fun hn => key.2.2 (hS hn), fun hn1 hn2 => ?_⟩
  exact gibbs_value (s := fun _ => c.SoR T) (key.2.1 (hH hn1)) (key.2.2 (hS hn2))

/-- the inner table correlation of a well-formed record has a positive lower range end -/
theorem wf_built_pos (g : GroupRec) (h : wfGroup g = true) (hne : g.pts ≠ []) {ip : Interp} {H S tr : Rat}
    {d : RawData} (hd : RawData.mk ip H S g.pts tr g.declRange = .ok d) : 0 < d.range.1 := by
  obtain ⟨_, _, _, hnum, _, _, _, hcp, _⟩ := wfGroup_facts g h
  have hb := RawData.mk_built hd
  obtain ⟨lo, hi, he, hlo, _, _, _, hall⟩ := hcp ((pts_ne_nil g hnum).mp hne)
  rcases effRange_cases g hnum lo hi he with k | ⟨k, _⟩
  · rw [hb.range_some _ k]; exact hlo
  · rw [hb.range_none k]
    obtain ⟨p', hp', e⟩ := mem_cp_of_mem_pts g hnum _ hb.min_mem
    simp only at e; rw [e]; exact lt_of_lt_of_le hlo (hall p' hp').1

/-- **C14-T1 (the data are reproduced)**: for an interpolant that passes through the table (`Hits`) and whose
integrals are additive (`Good`: what A-spline asserts of the SciPy spline, QUADPACK and `log`), the object of a
well-formed record returns every tabulated `Cp/R` at its temperature and, when it has a table, the reference
`H/RT` and `S/R` at `T_ref` — C05-T1/T4 instantiated on the record. -/
theorem C14_wf_group_reproduces (ip : Interp) (hg : ip.Good) (g : GroupRec) (h : wfGroup g = true)
    (hh : ip.Hits g.pts) :
    ∃ c, g.correlation ip = .ok c ∧ ReproducesData g c := by
  obtain ⟨c, tr, hc, htr, hmk⟩ := C14_wf_group_constructs ip g h
  obtain ⟨_, _, _, hnum, _, _, _, _, _⟩ := wfGroup_facts g h
  refine ⟨c, hc, ?_⟩
  by_cases hne : g.pts = []
  · exact ⟨(fun p hp => by rw [hne] at hp; cases hp),
      (fun hcne => absurd hne ((pts_ne_nil g hnum).mpr hcne)),
      (fun hcne => absurd hne ((pts_ne_nil g hnum).mpr hcne))⟩
  · refine ⟨fun p hp => ?_, fun _ tr' hv e1 e2 => ?_, fun _ tr' sv e1 e2 => ?_⟩
    · obtain ⟨d, hd, _, hev⟩ := C05_incomplete_delegates hmk hne
      rw [(hev p.1).1, C05_cp_at_data_points hd hh p hp]; rfl
    · rw [htr] at e1; cases e1
      rw [e2] at hmk
      obtain ⟨d, hd, _, hev⟩ := C05_incomplete_delegates hmk hne
      rw [(hev tr).2.1]
      simp only [C05_ref_enthalpy hd hg (wf_built_pos g h hne hd), Option.getD_some]; rfl
    · rw [htr] at e1; cases e1
      rw [e2] at hmk
      obtain ⟨d, hd, _, hev⟩ := C05_incomplete_delegates hmk hne
      rw [(hev tr).2.2]
      simp only [C05_ref_entropy hd hg (wf_built_pos g h hne hd), Option.getD_some]; rfl

/-! ## the same record in the C06 table -/

theorem strictlyIncreasing_head_lt : ∀ (a : Rat) (l : List Rat), strictlyIncreasing (a :: l) = true → ∀ x ∈ l, a < x
  | _, [], _, x, hx => by cases hx
  | a, b :: rest, h, x, hx => by
    simp only [strictlyIncreasing, Bool.and_eq_true, decide_eq_true_eq] at h
    rcases List.mem_cons.mp hx with rfl | hx
    · exact h.1
    · exact lt_trans h.1 (strictlyIncreasing_head_lt b rest h.2 x hx)

/-- **C14 ↔ C06 tables**: the row the C06 translator writes for a group (`PGA.Gen.ThermoRanges`, decimal type
`PGA.Thermo.Dec`) passes the C06 table check `RangeRow.ok` whenever the C14 record of the group passes `wfGroup`,
declares a range and has a heat-capacity table — for such groups the C14 obligation `groups_wf` implies, record by
record, what `C06_tab_shipped_ranges` checks.  (For a group *without* a table `RangeRow.ok` additionally asks that
`T_ref` lies inside the declared range — the F27 class —, which `wfGroup` does not: there the C06 obligation is the
stronger one.) -/
theorem C14_wf_group_range_row (lib : String) (g : GroupRec) (h : wfGroup g = true) (lo hi : Dec)
    (hr : g.range = some (lo, hi)) (hne : g.cp ≠ []) :
    ∃ row, g.rangeRow lib = some row ∧ row.ok = true := by
  obtain ⟨tr, htr, _, hnum, _, _, hinc, hcp, hrng⟩ := wfGroup_facts g h
  have he : effRange g = some (lo.toRat, hi.toRat) := by unfold effRange; rw [hr]
  obtain ⟨lo', hi', he', hlo, hlh, h1, h2, hall⟩ := hcp hne
  rw [he] at he'
  simp only [Option.some.injEq, Prod.mk.injEq] at he'
  obtain ⟨e1, e2⟩ := he'
  subst e1 e2
  cases ht : g.tref with
  | absent => simp [ht, Val.rat?] at htr
  | notNumber w => simp [ht, Val.rat?] at htr
  | num trd =>
    have htr' : trd.toRat = tr := by simpa [ht, Val.rat?] using htr
    unfold GroupRec.rangeRow
    rw [ht]
    refine ⟨_, rfl, ?_⟩
    unfold RangeRow.ok
    simp only [hr, Option.map_some, Dec.toThermo_toRat, Bool.and_eq_true, decide_eq_true_eq, htr']
    obtain ⟨p, ps, hc⟩ := List.exists_cons_of_ne_nil hne
    simp only [hc]
    have hlast : (p :: ps).getLast (List.cons_ne_nil _ _) ∈ g.cp := by rw [hc]; exact List.getLast_mem _
    have hp : p ∈ g.cp := by rw [hc]; exact List.mem_cons_self ..
    refine ⟨⟨⟨⟨hlo, hlh⟩, h1⟩, h2⟩, ?_⟩
    simp only [Dec.toThermo_toRat, Bool.and_eq_true, decide_eq_true_eq]
    refine ⟨⟨(hall p hp).1, ?_⟩, (hall _ hlast).2⟩
    rw [hc, List.map_cons] at hinc
    cases ps with
    | nil => simp
    | cons q qs =>
      apply le_of_lt
      apply strictlyIncreasing_head_lt _ _ hinc
      have e : (p :: q :: qs).getLast (List.cons_ne_nil _ _) = (q :: qs).getLast (List.cons_ne_nil _ _) :=
        List.getLast_cons (List.cons_ne_nil _ _)
      rw [e]
      exact List.mem_map.mpr ⟨_, List.getLast_mem (List.cons_ne_nil q qs), rfl⟩

/-! ## non-vacuity -/

/-- a record with a three-point table and a declared range (the shape of most shipped groups) -/
def exRec : GroupRec :=
  { name := "ex", hasThermo := true, tref := .num ⟨29815, -2⟩, href := .num ⟨-1, 0⟩, sref := .num ⟨2, 0⟩,
    cp := [(⟨300, 0⟩, .num ⟨3, 0⟩), (⟨400, 0⟩, .num ⟨35, -1⟩), (⟨500, 0⟩, .num ⟨4, 0⟩)], range := some (⟨298, 0⟩, ⟨1, 3⟩) }
/-- the same without a declared range (valid on the span of its table), reference entropy missing -/
def exRecNoRange : GroupRec :=
  { exRec with tref := .num ⟨350, 0⟩, sref := .absent, range := none }
/-- a record without a table -/
def exRecNoCp : GroupRec := { exRec with cp := [] }

example : wfGroup exRec = true ∧ wfGroup exRecNoRange = true ∧ wfGroup exRecNoCp = true := by decide +kernel
example : effRange exRec = some (298, 1000) ∧ effRange exRecNoRange = some (300, 500) := by decide +kernel

example (ip : Interp) : ∃ c, exRec.correlation ip = .ok c ∧ ∀ T, inRange T (effRange exRec) → EvaluatesAt exRec c T :=
  C14_wf_group_evaluates ip exRec (by decide +kernel)
example (ip : Interp) : ∃ c, exRecNoRange.correlation ip = .ok c ∧
    ∀ T, inRange T (effRange exRecNoRange) → EvaluatesAt exRecNoRange c T :=
  C14_wf_group_evaluates ip exRecNoRange (by decide +kernel)
/-- a record that fails `wfGroup` (reference temperature outside the declared range) is *not* constructible:
the hypothesis of the theorem is not idle -/
example : wfGroup { exRec with tref := .num ⟨200, 0⟩ } = false := by decide +kernel
example : (match ({ exRec with tref := .num ⟨200, 0⟩ } : GroupRec).correlation exIp with
    | .ok _ => false | .error e => decide (e = .value)) = true := by decide +kernel
example : ∃ row, exRec.rangeRow "x" = some row ∧ row.ok = true :=
  C14_wf_group_range_row "x" exRec (by decide +kernel) _ _ rfl (by decide)

end PGA.LibTable
