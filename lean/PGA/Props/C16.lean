import PGA.Model.Rxn
namespace PGA.C16
open PGA PGA.Rxn

theorem mapM_length {α β ε : Type} (g : α → Except ε β) : ∀ (l : List α) (r : List β), l.mapM g = .ok r → r.length = l.length := by
  intro l
  induction l with
  | nil => intro r h; simp [List.mapM_nil, pure, Except.pure] at h; subst h; rfl
  | cons a l ih =>
    intro r h
    rw [List.mapM_cons] at h
    cases hg : g a with
    | error e => simp [hg, bind, Except.bind] at h
    | ok b =>
      cases hl : l.mapM g with
      | error e => simp [hg, hl, bind, Except.bind] at h
      | ok bs =>
        simp [hg, hl, bind, Except.bind, pure, Except.pure] at h
        subst h
        simp [ih bs hl]

/-- T4: one product set per match -/
theorem C16_one_product_set_per_match (r : Rule) (m : Mol) (ps : List ProductSet)
    (h : runReactants r m = .ok ps) : ps.length = (queryMatches r.query m).length :=
  mapM_length _ _ _ h

end PGA.C16
