import PGA.Proofs.Rxn
import PGA.Props.C08
import Mathlib.Data.Set.Card
/-!
# C16 — a RING reaction rule applies exactly its declared edit per match

Property theorems about the model of `pgradd/RINGParser/ReactionQueryRead.py` and
`pgradd/RDkitWrapper/ReactionQuery.py` (`PGA/Model/Rxn.lean`), on top of the C08 models of the fragment
reader and the matcher.  Vocabulary in `PGA/Spec/Rxn.lean`, helper lemmas in `PGA/Proofs/Rxn.lean`.
All quantifiers are unbounded: every rule tree, every edit list of any length, every molecule graph
(`Mol.wf`: no loops, no parallel bonds — checked by the driver on every generated graph), every index map.

Electron convention (the code's): `E x` = 2·(bond order sum + radical electrons + formal charge) at atom `x`,
with `aromatic` = 1.5 and `partial` (dative) = 0; lone pairs are not represented.
-/
namespace PGA.C16
open PGA PGA.Rxn PGA.Spec PGA.Match List

/-! ## Preliminaries -/

theorem ofMol_wf (m : Mol) (h : m.wf = true) : (WMol.ofMol m).wf = true := by
  simp only [Mol.wf, Bool.and_eq_true, List.all_eq_true, decide_eq_true_eq, bne_iff_ne, ne_eq] at h
  obtain ⟨⟨hall, hpw⟩, _⟩ := h
  simp only [WMol.wf, WMol.ofMol, WMol.natoms, List.length_map, Bool.and_eq_true, List.all_eq_true, List.mem_map,
    decide_eq_true_eq, bne_iff_ne, ne_eq, List.pairwise_map]
  refine ⟨?_, ?_⟩
  · rintro e ⟨b, hb, rfl⟩
    exact hall b hb
  · exact hpw.imp (by
      intro a b hab
      simpa [WBond.joins, Bond.joins] using hab)

theorem mem_queryMatches_raw {q : Query} {m : Mol} {f : List Nat} (h : f ∈ queryMatches q m) : f ∈ rawMatches q m := by
  unfold queryMatches pipeline at h
  split at h
  · exact (List.mem_filter.1 (List.mem_filter.1 (List.mem_filter.1 h).1).1).1
  · simp at h

theorem readRule_raw {t : Ast} {r : Rule} (h : readRule t = .ok r) : ∃ raw, RawRule.ofAst t = .ok raw ∧ readRaw raw = .ok r := by
  unfold readRule at h
  exact bind_ok h

/-! ## T1 — atoms and elements are conserved; the product molecules partition the atoms -/

/-- **T1a**: for every edit list, index map and well-formed graph: a successful application has the same number of
atoms and the same element at every atom index — no edit adds, removes or transmutes an atom. -/
theorem C16_atoms_conserved (f : List Nat) (es : List Edit) (m p : WMol) (hw : m.wf = true)
    (h : applyEdits f m es = .ok p) : p.natoms = m.natoms ∧ p.elements = m.elements :=
  let s := applyEdits_spec f es m p hw h
  ⟨s.natoms, s.elements⟩

/-- **T1b**: for every molecule graph whatsoever, the product molecules `GetMolFrags` stands for (`components`)
list every atom index exactly once: their concatenation is a permutation of `0 … natoms−1`. -/
theorem C16_components_partition (p : WMol) : (components p).flatten.Perm (List.range p.natoms) :=
  components_perm p

/-- **T1**: for every rule, well-formed molecule and index map on which all edits succeed: the elements of the atoms
of the product molecules, taken together, are the elements of the reactant's atoms (as multisets, with
multiplicity) — the atoms of every element are conserved. -/
theorem C16_elements_conserved (r : Rule) (m : Mol) (f : List Nat) (ps : ProductSet) (hm : m.wf = true)
    (h : runMatch r m f = .ok ps) :
    (ps.comps.flatten.filterMap fun i => (ps.mol.atoms[i]?).map (·.Z)).Perm (m.atoms.map (·.Z)) := by
  unfold runMatch at h
  obtain ⟨p, hp, h2⟩ := bind_ok h
  simp only [pure, Except.pure, Except.ok.injEq] at h2
  subst h2
  obtain ⟨hn, he⟩ := C16_atoms_conserved f r.edits _ p (ofMol_wf m hm) hp
  have h1 : ((components p).flatten.filterMap fun i => (p.atoms[i]?).map (·.Z)).Perm
      ((List.range p.natoms).filterMap fun i => (p.atoms[i]?).map (·.Z)) :=
    (C16_components_partition p).filterMap _
  have h2 : ((List.range p.natoms).filterMap fun i => (p.atoms[i]?).map (·.Z)) = p.elements := by
    apply List.ext_getElem?
    intro j
    simp only [WMol.elements, WMol.natoms, List.getElem?_map]
    by_cases hj : j < p.atoms.length
    · have e1 : ((List.range p.atoms.length).filterMap fun i => (p.atoms[i]?).map (·.Z)) =
          (List.range p.atoms.length).map fun i => (p.atoms[i]?.map (·.Z)).getD 0 := by
        rw [← List.filterMap_eq_map]
        apply List.filterMap_congr
        intro i hi
        rw [List.mem_range] at hi
        simp [List.getElem?_eq_getElem hi]
      rw [e1, List.getElem?_map, List.getElem?_range hj]
      simp [List.getElem?_eq_getElem hj]
    · have hlen : ((List.range p.atoms.length).filterMap fun i => (p.atoms[i]?).map (·.Z)).length ≤ p.atoms.length := by
        have := List.length_filterMap_le (fun i => (p.atoms[i]?).map (·.Z)) (List.range p.atoms.length)
        simpa using this
      rw [List.getElem?_eq_none (by omega), List.getElem?_eq_none (by omega)]
      rfl
  have h3 : p.elements = m.atoms.map (·.Z) := by
    rw [he]; simp [WMol.elements, WMol.ofMol, List.map_map, Function.comp_def]
  rw [h2, h3] at h1
  exact h1

/-- **T1c, every product molecule is connected**: for every molecule graph, any two atoms that `components` puts into
the same product molecule are joined by a path of bonds of that graph — no product "molecule" lumps separate pieces. -/
theorem C16_components_connected (p : WMol) : ∀ c ∈ components p, ∀ a ∈ c, ∀ b ∈ c, Conn p a b :=
  components_connected p

/-- **T1d, the product molecules are the connected components**: for every well-formed graph the two ends of every
bond are in the same product molecule; with `C16_components_connected` and `C16_components_partition`: two atoms are in
the same product molecule exactly when a path of bonds joins them.  (The labelling always reaches its fixed point:
every relaxation pass that changes something lowers the sum of the labels, which starts below `natoms²`.) -/
theorem C16_components_closed (p : WMol) (hw : p.wf = true) :
    ∀ e ∈ p.bonds, ∃ c ∈ components p, e.a ∈ c ∧ e.b ∈ c :=
  components_closed p hw

/-- **T1e**: two atoms are put into the same product molecule exactly when they are connected by bonds (for atoms of
the molecule). -/
theorem C16_same_molecule_iff_connected (p : WMol) (hw : p.wf = true) (a b : Nat) (ha : a < p.natoms) (hb : b < p.natoms) :
    (∃ c ∈ components p, a ∈ c ∧ b ∈ c) ↔ Conn p a b := by
  constructor
  · rintro ⟨c, hc, hac, hbc⟩
    exact C16_components_connected p c hc a hac b hbc
  · intro hconn
    -- every atom is in some product molecule; walking along the path never leaves it
    have hin : ∀ x, x < p.natoms → ∃ c ∈ components p, x ∈ c := by
      intro x hx
      have hp := (C16_components_partition p).mem_iff (a := x)
      have : x ∈ (components p).flatten := hp.2 (List.mem_range.2 hx)
      obtain ⟨c, hc, hxc⟩ := List.mem_flatten.1 this
      exact ⟨c, hc, hxc⟩
    -- two product molecules sharing an atom are the same list (the partition has no repeated atom)
    have huniq : ∀ c1 ∈ components p, ∀ c2 ∈ components p, ∀ x, x ∈ c1 → x ∈ c2 → c1 = c2 := by
      intro c1 h1 c2 h2 x hx1 hx2
      simp only [components, groupsBy, List.mem_map] at h1 h2
      obtain ⟨r1, _, rfl⟩ := h1
      obtain ⟨r2, _, rfl⟩ := h2
      have e1 := (List.mem_filter.1 hx1).2
      have e2 := (List.mem_filter.1 hx2).2
      simp only [beq_iff_eq] at e1 e2
      rw [← e1, ← e2]
    induction hconn with
    | refl => obtain ⟨c, hc, hac⟩ := hin a ha; exact ⟨c, hc, hac, hac⟩
    | @step b' c' _ hadj ih =>
      obtain ⟨e, he, hj⟩ := hadj
      have hwf := hw
      simp only [WMol.wf, Bool.and_eq_true, List.all_eq_true, decide_eq_true_eq, bne_iff_ne, ne_eq] at hwf
      obtain ⟨⟨hea, heb⟩, _⟩ := hwf.1 e he
      have hsp := (joins_iff e b' c').1 hj
      have hb' : b' < p.natoms := by unfold SamePair at hsp; omega
      obtain ⟨c1, hc1, hac1, hbc1⟩ := ih hb'
      obtain ⟨c2, hc2, h2a, h2b⟩ := C16_components_closed p hw e he
      have hb2 : b' ∈ c2 ∧ c' ∈ c2 := by
        unfold SamePair at hsp
        rcases hsp with ⟨h1, h2⟩ | ⟨h1, h2⟩
        · rw [← h1, ← h2]; exact ⟨h2a, h2b⟩
        · rw [← h1, ← h2]; exact ⟨h2b, h2a⟩
      have : c1 = c2 := huniq c1 hc1 c2 hc2 b' hbc1 hb2.1
      subst this
      exact ⟨c1, hc1, hac1, hb2.2⟩

/-! ## T2 — every edit does exactly what it declares, and nothing else -/

/-- **T2, per operator**: for every edit object, index map and well-formed graph: if the edit is applied
successfully, then (`Edit.Effect`) the named bond had the type the operator needs and has the declared type
afterwards (form: none → k; break: the balanced-for type → none; modify: old → new; increase / decrease: one step
on the ladder single-double-triple-quadruple-quintuple, a single bond decreased disappears), every other bond type
and every atom's element, charge and radical count are as before; respectively the named atom's radical count /
charge changed by exactly ±1 (or was set, from the declared count), every other atom and every bond are as before. -/
theorem C16_edit_exact (f : List Nat) (m m' : WMol) (e : Edit) (hw : m.wf = true)
    (h : applyEdit f m e = .ok m') : e.Effect f m m' :=
  (applyEdit_spec f m m' e hw h).effect

/-- **T2, applicability**: for every edit object, index map and well-formed graph, the edit is applied successfully
exactly when its precondition `Edit.Pre` holds: the labels are mapped to atoms of the molecule and — form: the atoms are
distinct and not bonded; break / modify: they are bonded with the type the rule was balanced for; increase / decrease:
bonded with a type on the ladder; radical set: the atom carries the declared count; radical −1: at least one radical
electron; the remaining edits always apply. -/
theorem C16_edit_applicable_iff (f : List Nat) (m : WMol) (e : Edit) (hw : m.wf = true) :
    (∃ m', applyEdit f m e = .ok m') ↔ e.Pre f m :=
  applyEdit_ok_iff f m e hw

/-- **T2, frame for atoms**, edit lists of any length: an atom that no radical / charge edit of the rule names under
the index map keeps its element, formal charge and radical electrons. -/
theorem C16_frame_atoms (f : List Nat) (es : List Edit) (m p : WMol) (hw : m.wf = true)
    (h : applyEdits f m es = .ok p) (z : Nat) (hz : z ∉ namedAtoms f es) :
    (p.atoms[z]?).map WAtom.core = (m.atoms[z]?).map WAtom.core :=
  (applyEdits_spec f es m p hw h).frameAtoms z hz

/-- **T2, frame for bonds**, edit lists of any length: a pair of atoms that no bond edit of the rule names under the
index map is bonded (or not) exactly as before, with the same bond type. -/
theorem C16_frame_bonds (f : List Nat) (es : List Edit) (m p : WMol) (hw : m.wf = true)
    (h : applyEdits f m es = .ok p) (u v : Nat) (hp : ∀ q ∈ namedPairs f es, ¬ SamePair u v q.1 q.2) :
    p.kindBetween u v = m.kindBetween u v :=
  (applyEdits_spec f es m p hw h).frameBonds u v hp

/-- **T2**: a rule made of bond edits only changes no atom's element, charge or radical electrons. -/
theorem C16_bond_edits_leave_atoms (f : List Nat) (es : List Edit) (m p : WMol) (hw : m.wf = true)
    (h : applyEdits f m es = .ok p) (hb : ∀ e ∈ es, e.atomLabel = none) :
    p.atoms.map WAtom.core = m.atoms.map WAtom.core := by
  have hnil : namedAtoms f es = [] := by
    unfold namedAtoms
    rw [List.filterMap_eq_nil_iff]
    intro e he
    simp [hb e he]
  apply List.ext_getElem?
  intro z
  have := C16_frame_atoms f es m p hw h z (by simp [hnil])
  simpa [List.getElem?_map] using this

/-- **T2**: a rule made of radical / charge edits only changes no bond. -/
theorem C16_atom_edits_leave_bonds (f : List Nat) (es : List Edit) (m p : WMol) (hw : m.wf = true)
    (h : applyEdits f m es = .ok p) (ha : ∀ e ∈ es, e.bondLabels = none) (u v : Nat) :
    p.kindBetween u v = m.kindBetween u v := by
  have hnil : namedPairs f es = [] := by
    unfold namedPairs
    rw [List.filterMap_eq_nil_iff]
    intro e he
    simp [ha e he]
  exact C16_frame_bonds f es m p hw h u v (by simp [hnil])

/-- well-formedness (no loops, no parallel bonds, endpoints in range) is preserved by every successful edit list -/
theorem C16_wf_preserved (f : List Nat) (es : List Edit) (m p : WMol) (hw : m.wf = true)
    (h : applyEdits f m es = .ok p) : p.wf = true :=
  (applyEdits_spec f es m p hw h).wf

/-! ## T3 — the electron balance -/

/-- **T3, per operator**: for every edit a rule text can produce, every index map without repetitions and every
well-formed graph: if the edit is applied successfully then, at the atom of every label `l`, the change of
2·(bond order sum + radical electrons + formal charge) is exactly minus the increment the reader books for that
edit at `l` (`Edit.inc`: form −order, break +order, modify −(new − old), increase −1, decrease +1, radical or charge
+1 ↦ −1 and −1 ↦ +1, radical set −(r − declared)). -/
theorem C16_edit_balance (f : List Nat) (hf : f.Nodup) (m m' : WMol) (e : Edit) (hw : m.wf = true)
    (ht : e.isText = true) (h : applyEdit f m e = .ok m') (l z : Nat) (hl : f[l]? = some z) :
    m'.E z = m.E z - e.inc l :=
  (applyEdit_spec f m m' e hw h).balance hf ht l z hl

/-- **Reader**: every edit of a rule that was read is one a rule text can produce and names only declared atoms
of the reactant pattern; its declared increments cancel at every label. -/
theorem C16_read_edits_in_range (t : Ast) (r : Rule) (h : readRule t = .ok r) :
    (∀ e ∈ r.edits, e.isText = true) ∧ (∀ e ∈ r.edits, ∀ l ∈ e.labels, l < r.query.atoms.length) ∧
    ∀ l, incSum r.edits l = 0 := by
  obtain ⟨raw, _, hr⟩ := readRule_raw h
  obtain ⟨_, h1, h2, h3⟩ := readRaw_spec hr
  exact ⟨h1, h2, h3⟩

/-- **T3**: for every parse tree the rule reader accepts, every well-formed molecule and every index map without
repetitions (in particular every match of the rule's reactant pattern: `C16_matches_injective`) on which all edits
succeed: at every labelled atom, bond order sum + radical electrons + formal charge is the same after as before —
the electrons of every labelled atom are balanced. -/
theorem C16_balance (t : Ast) (r : Rule) (hread : readRule t = .ok r) (m : Mol) (hm : m.wf = true)
    (f : List Nat) (hf : f.Nodup) (p : WMol) (hrun : applyEdits f (WMol.ofMol m) r.edits = .ok p)
    (l z : Nat) (hl : f[l]? = some z) : p.E z = (WMol.ofMol m).E z := by
  obtain ⟨ht, _, hb⟩ := C16_read_edits_in_range t r hread
  have := (applyEdits_spec f r.edits _ p (ofMol_wf m hm) hrun).balance hf ht l z hl
  rw [this, hb l]; omega

/-- **T3, rejection**: once the reactant pattern is read (`q`), there is no `constraints` block and every edit
statement has a meaning (`steps … = ok s`): the rule is read exactly when the declared increments cancel at every
label, and if they do not cancel at some label the outcome is `RINGReaderError`. -/
theorem C16_unbalanced_rejected (raw : RawRule) (q : Query) (s : ReadRule.St)
    (hq : readFragment (.node "Fragment" raw.reactant) = .ok q) (hc : raw.hasConstraints = false)
    (hs : ReadRule.steps q ⟨List.replicate q.atoms.length 0, []⟩ raw.edits = .ok s) :
    (readRaw raw = .ok ⟨raw.name, q, s.edits⟩ ↔ ∀ l, incSum s.edits l = 0) ∧
    ((∃ l, incSum s.edits l ≠ 0) → readRaw raw = .error .reader) :=
  readRaw_unbalanced hq hc hs

/-! ### Why the edits verify what they were balanced for (finding FX4)

Before the repair `BondBreak` removed whatever bond it found (or none), while the reader had balanced it for the
bond type of the reactant pattern.  With that unchecked operator the balance theorem is false. -/

/-- the `BondBreak.__call__` of the unrepaired code: `RemoveBond`, unconditionally -/
def breakUnchecked (f : List Nat) (m : WMol) (i j : Nat) : Except RunErr WMol := do
  let x ← mapped f m i
  let y ← mapped f m j
  pure (m.removeBond x y)

/-- two carbons joined by a single bond -/
def cc : WMol := ⟨[⟨6, 0, 0, false⟩, ⟨6, 0, 0, false⟩], [⟨0, 1, .single⟩]⟩

/-- **FX4 in the model**: `increase bond order (c1, c2)  break bond (c1, c2)` on a declared single bond books −1 and +1
at both labels (balanced), but with the unchecked break the double bond made by the first edit is removed: each
carbon ends one bond order short (`E` drops by 2 half electrons).  With the repaired operator the second edit is
a `ReactionQueryError`. -/
theorem C16_static_balance_unsound_without_checks :
    incSum [.bondIncrease 0 1, .bondBreak 0 1 .single] 0 = 0 ∧ incSum [.bondIncrease 0 1, .bondBreak 0 1 .single] 1 = 0 ∧
    (∃ p, (applyEdit [0, 1] cc (.bondIncrease 0 1) >>= fun m1 => breakUnchecked [0, 1] m1 0 1) = .ok p ∧
      p.E 0 = cc.E 0 - 2 ∧ p.E 1 = cc.E 1 - 2) ∧
    applyEdits [0, 1] cc [.bondIncrease 0 1, .bondBreak 0 1 .single] = .error .queryError := by
  refine ⟨by decide, by decide, ⟨⟨cc.atoms, []⟩, by decide, by decide, by decide⟩, by decide⟩

/-! ## T4 — one product set per match -/

theorem mapM_length {α β ε : Type} (g : α → Except ε β) : ∀ (l : List α) (r : List β), l.mapM g = .ok r → r.length = l.length := by
  intro l
  induction l with
  | nil => intro r h; simp [List.mapM_nil, pure, Except.pure] at h; subst h; rfl
  | cons a l ih =>
    intro r h
    rw [List.mapM_cons] at h
    cases hg : g a with
    | error e => simp [hg, bind, Except.bind] at h
    | ok b =>
      cases hl : l.mapM g with
      | error e => simp [hg, hl, bind, Except.bind] at h
      | ok bs =>
        simp [hg, hl, bind, Except.bind, pure, Except.pure] at h
        subst h
        simp [ih bs hl]

/-- **T4**: for every rule and molecule, if `RunReactants` returns, it returns exactly one product set per match of
the reactant query. -/
theorem C16_one_product_set_per_match (r : Rule) (m : Mol) (ps : List ProductSet)
    (h : runReactants r m = .ok ps) : ps.length = (queryMatches r.query m).length :=
  mapM_length _ _ _ h

/-- **T4, per match**: the k-th product set is the result of applying the rule at the k-th match. -/
theorem C16_run_per_match (r : Rule) (m : Mol) (ps : List ProductSet) (h : runReactants r m = .ok ps)
    (k : Nat) (f : List Nat) (hk : (queryMatches r.query m)[k]? = some f) :
    ∃ p, ps[k]? = some p ∧ runMatch r m f = .ok p :=
  mapM_getElem _ _ _ h k f hk

/-- every match of the reactant pattern of a rule that was read is an index map without repetitions, of the
pattern's length, into the molecule: the hypothesis of `C16_balance` holds for every match. -/
theorem C16_matches_injective (t : Ast) (r : Rule) (hread : readRule t = .ok r) (m : Mol) (f : List Nat)
    (hf : f ∈ queryMatches r.query m) :
    f.Nodup ∧ f.length = r.query.atoms.length ∧ ∀ x ∈ f, x < m.natoms := by
  obtain ⟨raw, _, hr⟩ := readRule_raw hread
  obtain ⟨hq, _, _, _⟩ := readRaw_spec hr
  have hwf := PGA.C08.C08_read_wf _ _ hq
  have hc := (mem_rawMatches r.query m f hwf).1 (mem_queryMatches_raw hf)
  exact ⟨hc.inj, hc.length, hc.range⟩

/-- **T3 for `RunReactants`**: for every parse tree the rule reader accepts and every well-formed molecule: if
`RunReactants` returns, then in the k-th product set every atom of the k-th match has the same bond order sum +
radical electrons + formal charge as in the reactant. -/
theorem C16_balance_run (t : Ast) (r : Rule) (hread : readRule t = .ok r) (m : Mol) (hm : m.wf = true)
    (ps : List ProductSet) (h : runReactants r m = .ok ps) (k : Nat) (f : List Nat) (p : ProductSet)
    (hk : (queryMatches r.query m)[k]? = some f) (hp : ps[k]? = some p) (z : Nat) (hz : z ∈ f) :
    p.mol.E z = (WMol.ofMol m).E z := by
  obtain ⟨p', hp', hrun⟩ := C16_run_per_match r m ps h k f hk
  rw [hp] at hp'
  have : p = p' := Option.some.inj hp'
  subst this
  have hf : f ∈ queryMatches r.query m := List.mem_of_getElem? hk
  obtain ⟨hnd, _, _⟩ := C16_matches_injective t r hread m f hf
  unfold runMatch at hrun
  obtain ⟨q, hq, h2⟩ := bind_ok hrun
  simp only [pure, Except.pure, Except.ok.injEq] at h2
  subst h2
  obtain ⟨l, hl⟩ := List.getElem?_of_mem hz
  exact C16_balance t r hread m hm f hnd q hq l z hl

/-- **T4 with C08 (proved part)**: for every rule that was read whose reactant pattern does not use the `*` suffix
(C08's guard, finding FM1) and every well-formed molecule: if `RunReactants` returns, the number of product sets is
the number of embeddings of the reactant pattern in the molecule. -/
theorem C16_product_sets_eq_embeddings_partial (t : Ast) (r : Rule) (hread : readRule t = .ok r) (m : Mol)
    (hm : m.wf = true) (hstar : NoStar r.query = true) (ps : List ProductSet) (h : runReactants r m = .ok ps) :
    ps.length = Set.ncard {f | Embeds r.query m f} := by
  obtain ⟨raw, _, hr⟩ := readRule_raw hread
  obtain ⟨hq, _, _, _⟩ := readRaw_spec hr
  have hset : {f | Embeds r.query m f} = ↑(queryMatches r.query m).toFinset := by
    ext f
    simp only [Set.mem_ofPred_eq, Finset.mem_coe, List.mem_toFinset]
    exact (PGA.C08.C08_fragment_matches_iff_partial _ _ m f hq hm hstar).symm
  rw [hset, Set.ncard_coe_finset, List.toFinset_card_of_nodup (PGA.C08.C08_matches_nodup _ _)]
  exact C16_one_product_set_per_match r m ps h

/-! ## Non-vacuity: the reader's docstring example, C–H scission on ethane -/

/-- `C labeled c1  H labeled h1 single bond to c1` -/
def chQuery : Query :=
  { name := "r1", molPre := [],
    atoms := [⟨"c1", ⟨none, .elem 6, .none⟩, []⟩, ⟨"h1", ⟨none, .elem 1, .none⟩, []⟩],
    bonds := [⟨1, 0, .single⟩], stereo := [] }

/-- `increase number of radical (c1)  increase number of radical (h1)  break bond (c1, h1)` -/
def scission : Rule := ⟨"increaseBO", chQuery, [.radicalIncrease 0, .radicalIncrease 1, .bondBreak 0 1 .single]⟩

/-- ethane with explicit hydrogens (`Chem.AddHs(MolFromSmiles('CC'))`) -/
def ethane : Mol :=
  let c : Atom := ⟨6, 0, 0, false, some 4⟩
  let h : Atom := ⟨1, 0, 0, false, some 1⟩
  let b (x y : Nat) : Bond := ⟨x, y, .single, false, .none, []⟩
  { atoms := [c, c, h, h, h, h, h, h],
    bonds := [b 0 1, b 0 2, b 0 3, b 0 4, b 1 5, b 1 6, b 1 7], rings := [] }

/-- **The docstring example**: the C–H scission rule on ethane has six matches and six product sets; the first is
ethyl + H: the carbon and the hydrogen each carry one radical electron, the C–H bond is gone, the other six bonds
are untouched, and the product molecules are `{0,1,3,4,5,6,7}` and `{2}`.  The rule's declared increments cancel. -/
theorem C16_ethane_scission :
    ethane.wf = true ∧ (∀ l, l < 2 → incSum scission.edits l = 0) ∧
    queryMatches scission.query ethane = [[0, 2], [0, 3], [0, 4], [1, 5], [1, 6], [1, 7]] ∧
    (runReactants scission ethane).toOption.map (fun ps => ps.map (·.comps)) =
      some [[[0, 1, 3, 4, 5, 6, 7], [2]], [[0, 1, 2, 4, 5, 6, 7], [3]], [[0, 1, 2, 3, 5, 6, 7], [4]],
            [[0, 1, 2, 3, 4, 6, 7], [5]], [[0, 1, 2, 3, 4, 5, 7], [6]], [[0, 1, 2, 3, 4, 5, 6], [7]]] ∧
    (runMatch scission ethane [0, 2]).toOption.map (fun p => (p.mol.radAt 0, p.mol.radAt 2)) = some (1, 1) ∧
    (runMatch scission ethane [0, 2]).toOption.map (fun p => (p.mol.kindBetween 0 2, p.mol.kindBetween 0 1)) =
      some (none, some .single) ∧
    (runMatch scission ethane [0, 2]).toOption.map (fun p => p.mol.bonds.length) = some 6 := by
  refine ⟨by decide, by decide, by decide +kernel, by decide +kernel, by decide +kernel, by decide +kernel, by decide +kernel⟩

theorem kindBetween_ofMol (m : Mol) (x y : Nat) :
    (WMol.ofMol m).kindBetween x y = (m.bondBetween x y).map (fun e => BK.ofKind e.kind) := by
  simp only [WMol.kindBetween, WMol.bondBetween, WMol.ofMol, Mol.bondBetween, List.find?_map, Option.map_map]
  rfl

theorem bond_joins_comm (e : Bond) (x y : Nat) : e.joins x y = e.joins y x := by
  simp only [Bond.joins, Bool.or_comm]

theorem mapM_ok_of_forall {α β ε : Type} (g : α → Except ε β) : ∀ (l : List α), (∀ a ∈ l, ∃ b, g a = .ok b) →
    ∃ r, l.mapM g = .ok r := by
  intro l
  induction l with
  | nil => intro _; exact ⟨[], by simp [List.mapM_nil, pure, Except.pure]⟩
  | cons a l ih =>
    intro h
    obtain ⟨b, hb⟩ := h a (List.mem_cons_self)
    obtain ⟨bs, hbs⟩ := ih (fun x hx => h x (List.mem_cons_of_mem _ hx))
    exact ⟨b :: bs, by rw [List.mapM_cons]; simp [hb, hbs, bind, Except.bind, pure, Except.pure]⟩

/-- **The docstring rule never fails**: on every well-formed molecule `RunReactants` of the C–H scission rule returns
(one product set per match, by `C16_one_product_set_per_match`): the hypothesis "all edits succeed" of the run theorems
is met by every match of this rule on every molecule. -/
theorem C16_scission_total (m : Mol) (hm : m.wf = true) : ∃ ps, runReactants scission m = .ok ps := by
  apply mapM_ok_of_forall
  intro f hf
  have hc := (mem_rawMatches chQuery m f (by decide)).1 (mem_queryMatches_raw hf)
  have hlen : f.length = 2 := hc.length
  obtain ⟨x, y, rfl⟩ : ∃ x y, f = [x, y] := by
    match f, hlen with
    | [x, y], _ => exact ⟨x, y, rfl⟩
  have hx : x < m.natoms := hc.range x (by simp)
  have hy : y < m.natoms := hc.range y (by simp)
  have hb := hc.bonds ⟨1, 0, .single⟩ (by simp [chQuery])
  simp only [bondAt, List.getElem?_cons_succ, List.getElem?_cons_zero] at hb
  have hkind : (WMol.ofMol m).kindBetween x y = some .single := by
    rw [kindBetween_ofMol]
    have : m.bondBetween x y = m.bondBetween y x := by
      simp only [Mol.bondBetween]
      congr 1; funext e; exact bond_joins_comm e x y
    rw [this]
    cases hbb : m.bondBetween y x with
    | none => simp [hbb] at hb
    | some e =>
      simp only [hbb, rdBondMatch, rdBondKind, beq_iff_eq] at hb
      simp [hb, BK.ofKind]
  -- the three edits in turn
  have hw0 := ofMol_wf m hm
  have hn0 : (WMol.ofMol m).natoms = m.natoms := by simp [WMol.natoms, WMol.ofMol, Mol.natoms]
  obtain ⟨m1, h1⟩ := (applyEdit_ok_iff [x, y] (WMol.ofMol m) (.radicalIncrease 0) hw0).2 ⟨x, rfl, by rw [hn0]; exact hx⟩
  have s1 := applyEdit_spec _ _ _ _ hw0 h1
  obtain ⟨_, _, _, _, _, _, hb1⟩ := s1.effect
  obtain ⟨m2, h2⟩ := (applyEdit_ok_iff [x, y] m1 (.radicalIncrease 1) s1.wf).2 ⟨y, rfl, by rw [s1.natoms, hn0]; exact hy⟩
  have s2 := applyEdit_spec _ _ _ _ s1.wf h2
  obtain ⟨_, _, _, _, _, _, hb2⟩ := s2.effect
  have hk2 : m2.kindBetween x y = some .single := by
    rw [kindBetween_of_bonds hb2, kindBetween_of_bonds hb1]; exact hkind
  obtain ⟨m3, h3⟩ := (applyEdit_ok_iff [x, y] m2 (.bondBreak 0 1 .single) s2.wf).2
    ⟨x, y, rfl, rfl, by rw [s2.natoms, s1.natoms, hn0]; exact hx, by rw [s2.natoms, s1.natoms, hn0]; exact hy, hk2⟩
  refine ⟨⟨m3, components m3⟩, ?_⟩
  simp only [runMatch, scission, applyEdits, h1, h2, h3, bind, Except.bind, pure, Except.pure]

/-- non-vacuity of `C16_balance`'s conclusion on the example: on the first match the sum is unchanged at both
labelled atoms (carbon: −1 bond, +1 radical; hydrogen likewise) -/
example : (applyEdits [0, 2] (WMol.ofMol ethane) scission.edits).toOption.map
      (fun p => (p.E 0 - (WMol.ofMol ethane).E 0, p.E 2 - (WMol.ofMol ethane).E 2, p.E 0)) = some (0, 0, 8) := by
  decide +kernel

/-- non-vacuity of the frame theorems' hypotheses: atom 1 and the pair (0, 1) are not named by the rule under the
first match, atom 0 and the pair (0, 2) are -/
example : 1 ∉ namedAtoms [0, 2] scission.edits ∧ 0 ∈ namedAtoms [0, 2] scission.edits ∧
    namedPairs [0, 2] scission.edits = [(0, 2)] := by decide

/-- non-vacuity of the error outcomes: removing a radical electron the atom does not have, forming a bond that
exists, increasing the order of a bond that is not there, breaking a bond that is not the declared one -/
example : applyEdit [0, 1] cc (.radicalDecrease 0) = .error .overflow ∧
    applyEdit [0, 1] cc (.bondForm 0 1 .single) = .error .rdkit ∧
    applyEdit [0, 0] cc (.bondIncrease 0 1) = .error .attribute ∧
    applyEdit [0, 1] cc (.bondBreak 0 1 .double) = .error .queryError ∧
    applyEdit [0] cc (.bondBreak 0 1 .single) = .error .index := by decide

end PGA.C16
