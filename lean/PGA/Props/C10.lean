import PGA.Proofs.UnitsTablesLive
import PGA.Proofs.UnitsTablesRef
import PGA.Proofs.UnitsExt
import PGA.Proofs.UnitsDen
import PGA.Proofs.UnitsLex
import PGA.Proofs.Qty
/-!
# C10 — unit expressions evaluate to the exact SI value and dimension
-/
namespace PGA.Units
open PGA.SI SExpr

/-! ## Table obligations (decided by the kernel over the regenerated `PGA.Gen.Units`) -/

/-- Table obligation: evaluating `builtin.py`'s definitional strings through the model's own parser, in order,
succeeds (no definition is unparsable, refers to a later unit, or divides by zero). -/
theorem C10_tab_db_built : ∃ c, buildCfg = .ok c ∧ liveCfg = c := by
  unfold liveCfg
  have h : (match buildCfg with | .ok _ => true | .error _ => false) = true := by decide +kernel
  split
  · next c hc => exact ⟨c, hc, rfl⟩
  · next e he => rw [he] at h; exact absurd h (by simp)

/-- Table obligation: the model's database has exactly the keys of the live `units_db` (same order); every key is a
unit of the hand-written SI reference or a *new* unit consistent with its definition (a unit of the extended reference,
`PGA/Spec/SIExt.lean`); every reference unit is in the database. -/
theorem C10_tab_names : checkNames liveCfg = true := by decide +kernel

/-- Table obligation: the live prefix table is the SI prefix table: each SI prefix is present with value `10^k`
exactly, and there is no other prefix. -/
theorem C10_tab_prefixes :
    (∀ pk ∈ SI.prefixes, liveCfg.prefixes.find pk.1 = some ((10 : Rat) ^ pk.2)) ∧
    (∀ pv ∈ liveCfg.prefixes, ∃ pk ∈ SI.prefixes, pk.1 = pv.1) :=
  checkPrefixes_sound (by decide +kernel)

/-- Table obligation **T1**: for every unit `r` of the SI reference and every SI prefix `p = 10^k` (and no prefix,
`k = 0`), unless `p ++ r.name` is itself a unit name, `lookup (p ++ r.name)` is an exact magnitude within the entry's
tolerance of `10^k · r.value` (tolerance 0: equal) with exactly the reference dimension. -/
theorem C10_tab_units : ∀ r ∈ SI.units, ∀ pk ∈ allPrefixes, find (pk.1 ++ r.name) = none →
    ResolvesTo liveCfg (pk.1 ++ r.name) ((10 : Rat) ^ pk.2) r :=
  fun r hr pk hpk => ((checkAllUnits_sound checkAllUnits_live) r hr pk hpk).1

/-- Table obligation: the prefixed names that are themselves unit names are exactly `min` (minute, not milli-inch)
and `ft` (foot, not femto-tonne), and each resolves to that unit. -/
theorem C10_tab_collisions :
    collisions = [(['m'], ['i', 'n'], ['m', 'i', 'n']), (['f'], ['t'], ['f', 't'])] ∧
    ∀ r ∈ SI.units, ∀ pk ∈ allPrefixes, ∀ r', find (pk.1 ++ r.name) = some r' →
      ResolvesTo liveCfg (pk.1 ++ r.name) 1 r' :=
  ⟨by decide +kernel, fun r hr pk hpk => ((checkAllUnits_sound checkAllUnits_live) r hr pk hpk).2⟩

/-- Table obligation: `Consts.GAS_CONSTANT` is the molar gas constant: J/(mol·K) and within 10⁻⁵ of 8.31446261815324. -/
theorem C10_tab_gas_constant : checkGasConstant = true := by decide +kernel

/-- Table obligation: every database entry is an exact positive magnitude with integer exponents, every prefix is
positive and the snapping threshold is strictly between 0 and 1/2 (hypotheses of the general theorems, discharged
for the live tables). -/
theorem C10_tab_db_integral : checkIntegral liveCfg = true := by decide +kernel

/-! ## Units the reference does not know: their meaning is their definition (`PGA/Spec/SIExt.lean`) -/

/-- Table obligation: every unit of the live tables that the SI reference does not know is **new and consistent with
its definition**: none of its 21 spellings (the name, and each SI prefix before it) had a meaning over the reference
extended by the new units registered before it — so it takes over, hides or is hidden by nothing (`Eh` ≠ exa-hour,
`dam` ≠ deci-`am`) —, its definition evaluates over that table to an exact positive magnitude with integer
exponents, and over the final extended reference the definition string still evaluates to exactly what the unit
means.  (No new unit: nothing to check.) -/
theorem C10_tab_new_units_accepted :
    ∀ x ∈ liveVerdicts, ∃ r, x.2.2 = .accepted r ∧ r ∈ newUnits ∧ r.name = x.1 ∧
      ∀ s, x.2.1 = .text s → evalStr extCfg s = .ok ⟨.exact r.value, r.dim⟩ := by
  have h : checkNewAccepted = true := by decide +kernel
  intro x hx
  have hacc := (List.all_eq_true.mp h) x hx
  obtain ⟨n, df, v⟩ := x
  cases v with
  | accepted r =>
    exact ⟨r, rfl, mem_acceptedOf hx, ext_name _ hx r rfl, fun s hs => (ext_defined _ hx s r hs rfl).1⟩
  | ambiguous s => simp [Verdict.isAccepted] at hacc
  | badDefinition e => simp [Verdict.isAccepted] at hacc
  | unsupported => simp [Verdict.isAccepted] at hacc
  | notAWord => simp [Verdict.isAccepted] at hacc

-- non-vacuity of the verdicts, independent of the live tables: `kWh` is accepted and means 3.6 MJ exactly; `Eh` would take
-- over exa-hour; `tm` would make `datm` ambiguous; a definition through an unknown name is refused; `amu` inherits `u`'s tolerance
example : (match judge SI.units ['k', 'W', 'h'] (.text ['3', '.', '6', '*', '1', '0', '^', '6', ' ', 'J']) with
    | .accepted r => decide (r.value = 3600000 ∧ r.dim = SI.energy ∧ r.tol = 0)
    | _ => false) = true := by decide +kernel
example : (match judge SI.units ['E', 'h'] (.text ['J']) with
    | .ambiguous s => decide (s = ['E', 'h'])
    | _ => false) = true := by decide +kernel
example : (match judge SI.units ['t', 'm'] (.text ['k', 'm']) with
    | .ambiguous s => decide (s = ['d', 'a', 't', 'm'])
    | _ => false) = true := by decide +kernel
example : (match judge SI.units ['w', 'k'] (.text ['7', ' ', 'd', 'y']) with
    | .badDefinition e => decide (e = .unitsParse)
    | _ => false) = true := by decide +kernel
example : (match judge SI.units ['a', 'm', 'u'] (.text ['u']) with
    | .accepted r => decide (r.tol = 1 / 10 ^ 6)
    | _ => false) = true := by decide +kernel

/-- Table obligation **T1 for new units**: for every new unit `r` and every SI prefix `p = 10^k` (and no prefix), the
package's `lookup (p ++ r.name)` is an exact magnitude equal to `10^k` times what the definition of `r` means over the
extended reference (within the tolerance the definition inherits from units tied to measured constants; 0 otherwise)
with exactly that dimension.  The package evaluated the definition when it registered the unit, against its database
as it was then: a definition placed before a unit it uses, or a changed unit underneath it, fails here. -/
theorem C10_tab_new_units : ∀ r ∈ newUnits, ∀ pk ∈ allPrefixes,
    ResolvesTo liveCfg (pk.1 ++ r.name) ((10 : Rat) ^ pk.2) r :=
  checkNewUnits_sound checkNewUnits_live

/-- **A fresh unit changes no meaning** (all tables, all expressions): if no spelling of `n` — bare or with a prefix
of the table — had a meaning over `c`, then after `units_db.add(n, v)` every expression tree of any size that had a
value has the same value. -/
theorem C10_new_unit_changes_nothing (c : Cfg) (n : Name) (v : Val) (hf : Fresh c n) (t : Tree) (w : Val)
    (h : evalTree c t = .ok w) : evalTree (addUnit c n v) t = .ok w :=
  evalTree_extend (conservative_addUnit v hf) t w h

-- non-vacuity: `kWh` is fresh over the reference
example : Fresh (cfgOf SI.units) ['k', 'W', 'h'] := fresh_of_firstTaken (by decide +kernel)

/-- **The extended reference is a conservative extension of the reference** — by construction, whatever
`builtin.py` defines: every text that has a value over the hand-written SI reference has the same value over the
reference extended by the accepted new units (every name, prefixed name and expression keeps its meaning). -/
theorem C10_ext_conservative (s : List Char) (w : Val) (h : evalStr (cfgOf SI.units) s = .ok w) :
    evalStr extCfg s = .ok w :=
  evalStr_extend ext_conservative s w h

example : evalStr (cfgOf SI.units) ['k', 'J', '/', 'm', 'o', 'l'] =
    .ok ⟨.exact 1000, ⟨2, 1, -2, 0, 0, -1, 0⟩⟩ := by decide +kernel

/-- Table obligation: the extended reference read through the three-step lookup means what it says: every spelling
`p ++ name` of a reference unit resolves to `10^k · value` with the unit's dimension — unless it is itself a
reference unit name (`min`, `ft`), which it then is —, and every spelling of a new unit resolves to `10^k` times what
the unit means. -/
theorem C10_tab_ext_spellings :
    (∀ r ∈ SI.units, ∀ pk ∈ allPrefixes,
      (find (pk.1 ++ r.name) = none →
        lookup extCfg (pk.1 ++ r.name) = .ok ⟨.exact ((10 : Rat) ^ pk.2 * r.value), r.dim⟩) ∧
      (∀ r', find (pk.1 ++ r.name) = some r' → lookup extCfg (pk.1 ++ r.name) = .ok ⟨.exact r'.value, r'.dim⟩)) ∧
    (∀ r ∈ newUnits, ∀ pk ∈ allPrefixes,
      lookup extCfg (pk.1 ++ r.name) = .ok ⟨.exact ((10 : Rat) ^ pk.2 * r.value), r.dim⟩) := by
  refine ⟨fun r hr pk hpk => ?_, checkExtNew_sound (by decide +kernel)⟩
  have h := checkRefSelf_sound checkRefSelf_holds r hr pk hpk
  exact ⟨fun hn => ext_conservative.2 _ _ (h.1 hn), fun r' hs => ext_conservative.2 _ _ (h.2 r' hs)⟩

/-- Table obligation: every entry of the extended reference is an exact positive magnitude with integer exponents
(hypothesis of the general theorems, discharged for the extended reference). -/
theorem C10_tab_ext_integral : checkIntegral extCfg = true := by decide +kernel

/-! ## T3 — every token list ends in a value, the units parse error or an arithmetic error -/

/-- **T3** For every configuration (any unit database, prefix table, threshold) and every token list of any length
whose number tokens respect the interpreter's digit limit: evaluation never ends in an internal outcome (the
model's recursion budget, `ValueError`, a complex number, `KeyError`, `AttributeError`) nor in the units error. -/
theorem C10_no_internal_outcome (cfg : Cfg) (ts : List Tok) (hd : ∀ t ∈ ts, t.digitsOK) :
    (∀ k, evalTokens cfg ts ≠ .error (.internal k)) ∧ evalTokens cfg ts ≠ .error .unitsError := by
  have key : ∀ e, evalTokens cfg ts = .error e → e = .unitsParse ∨ e = .math := by
    intro e h
    simp only [evalTokens, bind, Except.bind] at h
    split at h
    · next e' he =>
      injection h with h; subst h
      rcases parseTokens_errors ts e' he with hp | ⟨_, t, hm, hb⟩
      · exact Or.inl hp
      · exact absurd (hd t hm) hb
    · next t ht => exact evalTree_error cfg t e h
  refine ⟨fun k h => ?_, fun h => ?_⟩
  · rcases key _ h with h' | h' <;> cases h'
  · rcases key _ h with h' | h' <;> cases h'

example : ∀ t ∈ [Tok.word ['m'], .sym '^', .num true ['2']], t.digitsOK := by
  intro t ht
  simp only [List.mem_cons, List.mem_nil_iff, or_false] at ht
  rcases ht with rfl | rfl | rfl <;> simp [Tok.digitsOK] <;> decide

/-- **T3** Exactly one of the three outcomes. -/
theorem C10_outcome_trichotomy (cfg : Cfg) (ts : List Tok) (hd : ∀ t ∈ ts, t.digitsOK) :
    (∃ v, evalTokens cfg ts = .ok v) ∨ evalTokens cfg ts = .error .unitsParse ∨ evalTokens cfg ts = .error .math := by
  have h := C10_no_internal_outcome cfg ts hd
  cases hr : evalTokens cfg ts with
  | ok v => exact Or.inl ⟨v, rfl⟩
  | error e =>
    cases e with
    | unitsParse => exact Or.inr (Or.inl rfl)
    | math => exact Or.inr (Or.inr rfl)
    | unitsError => exact absurd hr h.2
    | internal k => exact absurd hr (h.1 k)

/-- **T3** A token list outside the grammar (the parser fails on it) is rejected with the units parse error — never
with another exception — and an unknown name in a parsed tree likewise. -/
theorem C10_malformed_rejected (cfg : Cfg) (ts : List Tok) (hd : ∀ t ∈ ts, t.digitsOK) (e : Err)
    (h : parseTokens ts = .error e) : evalTokens cfg ts = .error .unitsParse := by
  rcases parseTokens_errors ts e h with hp | ⟨_, t, hm, hb⟩
  · subst hp; simp [evalTokens, h, bind, Except.bind]
  · exact absurd (hd t hm) hb

example : parseTokens [Tok.word ['m'], .sym '^'] = .error .unitsParse := by decide +kernel

/-! ## T2 — parser and evaluator are correct on all expression trees -/

/-- the table obligation `C10_tab_db_integral` in the form the general theorems use -/
theorem checkIntegral_sound {cfg : Cfg} (h : checkIntegral cfg = true) : CfgGood cfg := by
  simp only [checkIntegral, Bool.and_eq_true, decide_eq_true_eq] at h
  obtain ⟨⟨⟨hdb, _⟩, hthr⟩, _⟩ := h
  refine ⟨le_of_lt hthr, fun kv hkv => ?_⟩
  have := (List.all_eq_true.mp hdb) kv hkv
  simp only [Bool.and_eq_true] at this
  obtain ⟨hm, hd⟩ := this
  have hq : ∃ q, kv.2.mag = .exact q := by
    cases hmag : kv.2.mag with
    | exact q => exact ⟨q, rfl⟩
    | inexact n => rw [hmag] at hm; simp [Mag.isExactPos] at hm
  obtain ⟨q, hq⟩ := hq
  refine ⟨q, hq, ?_⟩
  simp only [Dim.isIntegral, Dim.toList, List.all_cons, List.all_nil, Bool.and_true, Bool.and_eq_true] at hd
  obtain ⟨h1, h2, h3, h4, h5, h6, h7⟩ := hd
  exact ⟨h1, h2, h3, h4, h5, h6, h7⟩

theorem liveCfg_good : CfgGood liveCfg := checkIntegral_sound C10_tab_db_integral

/-- **T2 (parser)** For every well-formed expression tree — any depth of parentheses, any length of
left-associated `*`, `/` and juxtaposition chains, integer, negative, fractional and parenthesised powers — the
parser reads the rendered token list back as the tree's syntax tree: no backtracking path, precedence or
associativity error exists. -/
theorem C10_parse_render (e : SExpr) (hwf : e.WF) : parseTokens (render e) = .ok (toTree e) :=
  parseTokens_render e hwf

-- non-vacuity: `2.5 kJ/(mol K^-1)` is well formed, and is read back
example : (SExpr.bin (.bin (.num ⟨false, ['2', '.', '5']⟩ none) .juxt (.name ['k', 'J'] none)) .over
    (.paren (.bin (.name ['m', 'o', 'l'] none) .juxt (.name ['K'] (some ⟨⟨true, ['1']⟩, false⟩))) none)).WF := by
  simp only [SExpr.WF, SExpr.pwWF, NumLit.WF, SExpr.isFactor]; decide +kernel

/-- **T2** `evalTokens (render e) = ⟦e⟧` for every well-formed tree with integer powers (any depth), over any
database whose entries are exact magnitudes with integer exponents: a value is the denoted magnitude and
exponent vector exactly; an unknown name is the units parse error; a zero divisor is the arithmetic error. -/
theorem C10_eval_render (cfg : Cfg) (hg : CfgGood cfg) (e : SExpr) (hwf : e.WF) (hint : e.IntPows) :
    match den cfg e with
    | .ok v => evalTokens cfg (render e) = .ok v.toVal
    | .error err => evalTokens cfg (render e) = .error err := by
  have h := eval_den hg e hint
  simp only [evalTokens, parseTokens_render e hwf, bind, Except.bind]
  cases hd : den cfg e with
  | ok v => rw [hd] at h; exact h.1
  | error err => rw [hd] at h; exact h

/-- the same for the live tables of the working tree (hypothesis discharged by the table obligation) -/
theorem C10_eval_render_live (e : SExpr) (hwf : e.WF) (hint : e.IntPows) :
    match den liveCfg e with
    | .ok v => evalTokens liveCfg (render e) = .ok v.toVal
    | .error err => evalTokens liveCfg (render e) = .error err :=
  C10_eval_render liveCfg liveCfg_good e hwf hint

/-- **T2 over the extended reference**: every well-formed tree with integer powers over the reference extended by
the new units evaluates to the value its tree denotes under the extended reference. -/
theorem C10_eval_render_ext (e : SExpr) (hwf : e.WF) (hint : e.IntPows) :
    match den extCfg e with
    | .ok v => evalTokens extCfg (render e) = .ok v.toVal
    | .error err => evalTokens extCfg (render e) = .error err :=
  C10_eval_render extCfg (checkIntegral_sound C10_tab_ext_integral) e hwf hint

/-! ### the package agrees with the extended reference on every expression over exactly defined units -/

theorem absR_eq_zero {x : Rat} (h : absR x ≤ 0) : x = 0 := by
  unfold absR at h
  split at h <;> linarith

theorem admits_exact {r : Ref} {k v : Rat} (ht : r.tol = 0) (h : r.admits k v = true) : v = k * r.value := by
  simp only [Ref.admits, ht, zero_mul, decide_eq_true_eq] at h
  have := absR_eq_zero h
  linarith

/-- `s` is a spelling `p ++ name` (or `name`) of a unit of the extended reference that is defined exactly
(tolerance 0: not tied to a measured constant or a rounded decimal), and if it is itself a unit name, that unit is -/
def isExactSpelling (s : Name) : Bool :=
  extUnits.any fun r => decide (r.tol = 0) && allPrefixes.any fun pk => decide (s = pk.1 ++ r.name) &&
    (match find s with
     | some r' => decide (r'.tol = 0)
     | none => true)

/-- Table obligation: the snapping threshold of the package is the documented `10⁻⁷` of the reference. -/
theorem C10_tab_threshold : liveCfg.thr = extCfg.thr := by decide +kernel

/-- On every exact spelling the package's database and the extended reference agree **exactly** (magnitude as a
rational, all seven exponents) — consequence of T1, T1 for new units and the reference's self-consistency. -/
theorem C10_exact_spellings_agree (s : Name) (h : isExactSpelling s = true) : lookup liveCfg s = lookup extCfg s := by
  simp only [isExactSpelling, List.any_eq_true, Bool.and_eq_true, decide_eq_true_eq] at h
  obtain ⟨r, hr, htol, pk, hpk, hs, hcol⟩ := h
  rcases List.mem_append.mp hr with hr | hr
  · have h1 := checkAllUnits_sound checkAllUnits_live r hr pk hpk
    have h2 := C10_tab_ext_spellings.1 r hr pk hpk
    rw [← hs] at h1 h2
    cases hf : find s with
    | none =>
      obtain ⟨v, dm, hl, hd, ha⟩ := h1.1 hf
      rw [hl, h2.1 hf, hd, admits_exact htol ha]
    | some r' =>
      rw [hf] at hcol
      have ht' : r'.tol = 0 := by simpa using hcol
      obtain ⟨v, dm, hl, hd, ha⟩ := h1.2 r' hf
      rw [hl, h2.2 r' hf, hd, admits_exact ht' ha, one_mul]
  · obtain ⟨v, dm, hl, hd, ha⟩ := C10_tab_new_units r hr pk hpk
    rw [hs, hl, C10_tab_ext_spellings.2 r hr pk hpk, hd, admits_exact htol ha]

/-- **Lifting to all expressions**: every syntax tree of any size — products, quotients, integer, negative and
fractional powers — all of whose names are exact spellings evaluates in the package's database to exactly what it
evaluates to over the extended reference: the same value or the same error. -/
theorem C10_live_eq_ext_tree (t : Tree) (h : ∀ s ∈ t.names, isExactSpelling s = true) :
    evalTree liveCfg t = evalTree extCfg t :=
  evalTree_congr C10_tab_threshold t (fun s hs => C10_exact_spellings_agree s (h s hs))

/-- … and so does every token list of any length (parser included). -/
theorem C10_live_eq_ext (ts : List Tok)
    (h : ∀ t, parseTokens ts = .ok t → ∀ s ∈ t.names, isExactSpelling s = true) :
    evalTokens liveCfg ts = evalTokens extCfg ts := by
  simp only [evalTokens, bind, Except.bind]
  cases hp : parseTokens ts with
  | error e => rfl
  | ok t => exact C10_live_eq_ext_tree t (h t hp)

-- non-vacuity: `kJ / (mol K)` parses, and `kJ`, `mol`, `K` are exact spellings
example : (match parseTokens [Tok.word ['k', 'J'], .sym '/', .sym '(', .word ['m', 'o', 'l'], .word ['K'], .sym ')'] with
    | .ok t => t.names.all isExactSpelling
    | .error _ => false) = true := by decide +kernel

-- non-vacuity: `(k m / s ^ (-2)) 3` is well formed with integer powers
example : (SExpr.bin (.paren (.bin (.name ['k'] none) .juxt (.bin (.name ['m'] none) .over
      (.name ['s'] (some ⟨⟨true, ['2']⟩, true⟩)))) none) .juxt (.num ⟨false, ['3']⟩ none)).IntPows := by
  simp only [IntPows, pwInt]; decide +kernel

/-- `evalTokens (render e)` is the denotation of `e` -/
def EvalIsDen (cfg : Cfg) (e : SExpr) : Prop :=
  match den cfg e with
  | .ok v => evalTokens cfg (render e) = .ok v.toVal
  | .error err => evalTokens cfg (render e) = .error err

instance (cfg : Cfg) (e : SExpr) : Decidable (EvalIsDen cfg e) := by
  unfold EvalIsDen; split <;> infer_instance

/-- evaluating the spaced *text* of `e` gives the denotation of `e` -/
def EvalIsDen' (cfg : Cfg) (e : SExpr) : Prop :=
  match den cfg e with
  | .ok v => evalStr cfg (spaced (render e)) = .ok v.toVal
  | .error err => evalStr cfg (spaced (render e)) = .error err

/-- the statement without the restriction to integer powers … -/
def C10_eval_render_full : Prop :=
  ∀ (cfg : Cfg), CfgGood cfg → ∀ e : SExpr, e.WF → EvalIsDen cfg e

/-- … does not hold: a non-integer power of a magnitude other than 0 and 1 is irrational in general; the model
carries it as an inexact magnitude and `den` does not define it (`4^0.5`). -/
theorem C10_eval_render_full_false : ¬ C10_eval_render_full := by
  intro h
  have := h ⟨1 / 10 ^ 7, [], []⟩ ⟨by decide +kernel, fun kv hkv => by simp at hkv⟩
    (.num ⟨false, ['4']⟩ (some ⟨⟨false, ['0', '.', '5']⟩, false⟩))
    ⟨by constructor <;> decide +kernel, by constructor <;> decide +kernel⟩
  revert this
  decide +kernel

/-- **T2 (fractional powers, partial)** a sub-expression of magnitude 1 (a coherent SI unit or product of such)
raised to *any* power literal — fractional, negative — evaluates to magnitude 1 with the exponents scaled (and
snapped); where the scaled exponents are integers or farther than the threshold from an integer, scaled exactly. -/
theorem C10_eval_render_fractional_partial (cfg : Cfg) (ht : 0 ≤ cfg.thr) (s : Name) (d : Dim) (p : PowLit)
    (hl : lookup cfg s = .ok ⟨.exact 1, d⟩) (hp : p.lit.WF) :
    evalTokens cfg (render (.name s (some p))) = .ok ⟨.exact 1, Dim.pow cfg.thr d p.lit.value⟩ ∧
    ((Dim.smul p.lit.value d).All (Stable cfg.thr) →
      evalTokens cfg (render (.name s (some p))) = .ok ⟨.exact 1, Dim.smul p.lit.value d⟩) := by
  have hparse := parseTokens_render (.name s (some p)) hp
  have hpow : Mag.pow (.exact 1) p.lit.value = .ok (.exact 1) := by
    unfold Mag.pow
    by_cases hi : isInt p.lit.value = true
    · simp [hi]
    · simp [hi]
  have key : evalTokens cfg (render (.name s (some p))) = .ok ⟨.exact 1, Dim.pow cfg.thr d p.lit.value⟩ := by
    simp only [evalTokens, hparse, bind, Except.bind, toTree, pwTree, evalTree, hl, Mag.isNeg]
    have : decide ((1 : Rat) < 0) = false := by decide
    simp only [this, Bool.false_and, Bool.false_eq_true, if_false, Val.pow, hpow, bind, Except.bind, pure, Except.pure]
  exact ⟨key, fun hs => by rw [key, Dim.pow_of_stable ht hs]⟩

example : lookup liveCfg ['m'] = .ok ⟨.exact 1, ⟨1, 0, 0, 0, 0, 0, 0⟩⟩ := by decide +kernel

/-! ## From token lists to texts -/

/-- **T3 (texts)** every text (any characters, any length up to the interpreter's digit limit of 4300 — longer texts
only matter if they contain a longer digit string) evaluates to a value, the units parse error or an arithmetic error. -/
theorem C10_no_internal_outcome_text (cfg : Cfg) (s : List Char) (h : s.length ≤ PGA.Gen.Chars.intMaxStrDigits) :
    (∀ k, evalStr cfg s ≠ .error (.internal k)) ∧ evalStr cfg s ≠ .error .unitsError :=
  C10_no_internal_outcome cfg (lex s) (lex_digitsOK s h)

/-- **T2 (texts)** writing the tokens of a tree separated by blanks and evaluating the *text* — scanner, parser,
evaluator — gives the denotation. -/
theorem C10_eval_text (cfg : Cfg) (hg : CfgGood cfg) (e : SExpr) (hwf : e.WF) (hint : e.IntPows)
    (hclean : ∀ t ∈ render e, CleanTok t) : EvalIsDen' cfg e := by
  have h := C10_eval_render cfg hg e hwf hint
  unfold EvalIsDen'
  simp only [evalStr, lex_spaced (render e) hclean]
  exact h

example : ∀ t ∈ render (.bin (.name ['k', 'J'] none) .over (.paren (.bin (.name ['m', 'o', 'l'] none) .juxt
    (.name ['K'] (some ⟨⟨true, ['1']⟩, false⟩))) none)), CleanTok t := by
  decide +kernel

/-! ## T4 — conversion laws -/

/-- **T4** `q.in_units(u)` for operands of the same dimension is the ratio of the SI magnitudes (a plain number). -/
theorem C10_in_units_ratio (thr : Rat) (ht : 0 ≤ thr) (x m : Rat) (d : Dim) (hm : m ≠ 0) :
    inUnits thr ⟨.exact x, d⟩ ⟨.exact m, d⟩ = .ok (.exact (x / m)) := by
  have hz : (Dim.zero).isZero = true := by decide
  simp [inUnits, Val.div, Mag.div, Mag.isZero, hm, Mag.mul, Mag.inv, bind, Except.bind, pure, Except.pure,
    Dim.div_self ht, hz, Rat.div_def]

/-- **T4** conversion between dimensions that differ (by more than the threshold in some exponent; for integer
exponents: that differ at all) is the units error. -/
theorem C10_in_units_incompatible (thr : Rat) (ht : 0 ≤ thr) (x m : Rat) (dq du : Dim) (hm : m ≠ 0)
    (hd : PGA.Qty.Dim.Differs thr dq du) :
    inUnits thr ⟨.exact x, dq⟩ ⟨.exact m, du⟩ = .error .unitsError := by
  have hne : (Dim.div thr dq du).isZero = false := by
    rw [← Bool.not_eq_true, Dim.isZero_iff]; exact PGA.Qty.div_ne_zero_of_differs ht hd
  simp [inUnits, Val.div, Mag.div, Mag.isZero, hm, bind, Except.bind, pure, Except.pure, hne]

theorem C10_in_units_incompatible_integral (thr : Rat) (ht : 0 ≤ thr) (ht1 : thr < 1) (x m : Rat) (dq du : Dim)
    (hm : m ≠ 0) (hq : dq.Integral) (hu : du.Integral) (hd : dq ≠ du) :
    inUnits thr ⟨.exact x, dq⟩ ⟨.exact m, du⟩ = .error .unitsError :=
  C10_in_units_incompatible thr ht x m dq du hm (PGA.Qty.differs_of_integral ht1 hq hu hd)

/-- **T4** `in_units(with_units(x, u), u) = x` for EVERY number `x` — zero included, since the repair of F12 — and every
unit `u` of non-zero magnitude whose exponents `_build` leaves alone. -/
theorem C10_in_with_units (thr : Rat) (ht : 0 ≤ thr) (x m : Rat) (d : Dim) (hm : m ≠ 0)
    (hs : d.All (Stable thr)) :
    inUnits thr (withUnits thr x ⟨.exact m, d⟩) ⟨.exact m, d⟩ = .ok (.exact x) := by
  have hd : Dim.mul thr Dim.zero d = d := by
    have h0 : Dim.add Dim.zero d = d := Dim.zero_add d
    rw [Dim.mul_of_stable ht (by rw [h0]; exact hs), h0]
  have hz : (Dim.zero).isZero = true := by decide
  have : x * m * m⁻¹ = x := by field_simp
  simp [withUnits, Val.mul, Val.plain, Mag.mul, hd, inUnits, Val.div, Mag.div, Mag.isZero, hm, Mag.inv, bind,
    Except.bind, pure, Except.pure, Dim.div_self ht, hz, this]

example : inUnits (1 / 10 ^ 7) (withUnits (1 / 10 ^ 7) (5 / 2) ⟨.exact (1 / 100), ⟨1, 0, 0, 0, 0, 0, 0⟩⟩)
    ⟨.exact (1 / 100), ⟨1, 0, 0, 0, 0, 0, 0⟩⟩ = .ok (.exact (5 / 2)) := by decide +kernel   -- 2.5 cm in cm
example : inUnits (1 / 10 ^ 7) (withUnits (1 / 10 ^ 7) 0 ⟨.exact (1 / 100), ⟨1, 0, 0, 0, 0, 0, 0⟩⟩)
    ⟨.exact (1 / 100), ⟨1, 0, 0, 0, 0, 0, 0⟩⟩ = .ok (.exact 0) := by decide +kernel   -- 0 cm in cm

/-- **T4** `from_SI_to(to_SI_from(x, u), u) = x` for every unit of non-zero magnitude … -/
theorem C10_from_to_SI (x m : Rat) (d : Dim) (hd : d.isZero = false) (hm : m ≠ 0) :
    toSI x ⟨.exact m, d⟩ = .ok (.exact (x * m)) ∧ fromSI (x * m) ⟨.exact m, d⟩ = .ok (.exact x) := by
  have : x * m * m⁻¹ = x := by field_simp
  simp [toSI, fromSI, hd, Mag.mul, Mag.div, Mag.isZero, hm, Mag.inv, this]

/-- **T4** … and `to_SI_from(from_SI_to(x, u), u) = x`. -/
theorem C10_to_from_SI (x m : Rat) (d : Dim) (hd : d.isZero = false) (hm : m ≠ 0) :
    fromSI x ⟨.exact m, d⟩ = .ok (.exact (x / m)) ∧ toSI (x / m) ⟨.exact m, d⟩ = .ok (.exact x) := by
  have : x / m * m = x := by field_simp
  simp [toSI, fromSI, hd, Mag.mul, Mag.div, Mag.isZero, hm, Mag.inv, this, Rat.div_def]

/-- general form of the lookup order used by the table obligations: a name in the database is itself; otherwise a
one-letter prefix is tried, then the two-letter prefix `da` — never a `KeyError`. -/
theorem C10_lookup_prefixed (cfg : Cfg) (n : Name) :
    (∀ v, cfg.db.find n = some v → lookup cfg n = .ok v) ∧
    (cfg.db.find n = none → ∀ v p, cfg.db.find (n.drop 1) = some v → cfg.prefixes.find (n.take 1) = some p →
      lookup cfg n = .ok (scale cfg.thr p v)) ∧
    (∀ e, lookup cfg n = .error e → e = .unitsParse) := by
  refine ⟨fun v h => by simp only [lookup, h], fun hn v p hv hp => by simp only [lookup, hn, hv, hp],
    fun e h => lookup_error h⟩

end PGA.Units
