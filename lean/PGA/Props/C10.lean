import PGA.Spec.SI
namespace PGA.Units
end PGA.Units
