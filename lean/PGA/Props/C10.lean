import PGA.Proofs.UnitsTables
/-!
# C10 — unit expressions evaluate to the exact SI value and dimension
-/
namespace PGA.Units
open PGA.SI

/-! ## Table obligations (decided by the kernel over the regenerated `PGA.Gen.Units`) -/

/-- Table obligation: evaluating `builtin.py`'s definitional strings through the model's own parser, in order,
succeeds (no definition is unparsable, refers to a later unit, or divides by zero). -/
theorem C10_tab_db_built : ∃ c, buildCfg = .ok c ∧ liveCfg = c := by
  unfold liveCfg
  have h : (match buildCfg with | .ok _ => true | .error _ => false) = true := by decide +kernel
  split
  · next c hc => exact ⟨c, hc, rfl⟩
  · next e he => rw [he] at h; exact absurd h (by simp)

/-- Table obligation: the model's database has exactly the keys of the live `units_db` (same order), every key has
an entry in the hand-written SI reference, and every reference unit is in the database. -/
theorem C10_tab_names : checkNames liveCfg = true := by decide +kernel

/-- Table obligation: the live prefix table is the SI prefix table: each SI prefix is present with value `10^k`
exactly, and there is no other prefix. -/
theorem C10_tab_prefixes :
    (∀ pk ∈ SI.prefixes, liveCfg.prefixes.find pk.1 = some ((10 : Rat) ^ pk.2)) ∧
    (∀ pv ∈ liveCfg.prefixes, ∃ pk ∈ SI.prefixes, pk.1 = pv.1) :=
  checkPrefixes_sound (by decide +kernel)

theorem checkAllUnits_live : checkAllUnits liveCfg = true := by decide +kernel

/-- Table obligation **T1**: for every unit `r` of the SI reference and every SI prefix `p = 10^k` (and no prefix,
`k = 0`), unless `p ++ r.name` is itself a unit name, `lookup (p ++ r.name)` is an exact magnitude within the entry's
tolerance of `10^k · r.value` (tolerance 0: equal) with exactly the reference dimension. -/
theorem C10_tab_units : ∀ r ∈ SI.units, ∀ pk ∈ allPrefixes, find (pk.1 ++ r.name) = none →
    ResolvesTo liveCfg (pk.1 ++ r.name) ((10 : Rat) ^ pk.2) r :=
  fun r hr pk hpk => ((checkAllUnits_sound checkAllUnits_live) r hr pk hpk).1

/-- Table obligation: the prefixed names that are themselves unit names are exactly `min` (minute, not milli-inch)
and `ft` (foot, not femto-tonne), and each resolves to that unit. -/
theorem C10_tab_collisions :
    collisions = [(['m'], ['i', 'n'], ['m', 'i', 'n']), (['f'], ['t'], ['f', 't'])] ∧
    ∀ r ∈ SI.units, ∀ pk ∈ allPrefixes, ∀ r', find (pk.1 ++ r.name) = some r' →
      ResolvesTo liveCfg (pk.1 ++ r.name) 1 r' :=
  ⟨by decide +kernel, fun r hr pk hpk => ((checkAllUnits_sound checkAllUnits_live) r hr pk hpk).2⟩

/-- Table obligation: `Consts.GAS_CONSTANT` is the molar gas constant: J/(mol·K) and within 10⁻⁵ of 8.31446261815324. -/
theorem C10_tab_gas_constant : checkGasConstant = true := by decide +kernel

/-- Table obligation: every database entry is an exact positive magnitude with integer exponents, every prefix is
positive and the snapping threshold is strictly between 0 and 1/2 (hypotheses of the general theorems, discharged
for the live tables). -/
theorem C10_tab_db_integral : checkIntegral liveCfg = true := by decide +kernel

end PGA.Units
