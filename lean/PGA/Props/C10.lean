import PGA.Proofs.UnitsTablesLive
import PGA.Proofs.UnitsEval
/-!
# C10 — unit expressions evaluate to the exact SI value and dimension
-/
namespace PGA.Units
open PGA.SI

/-! ## Table obligations (decided by the kernel over the regenerated `PGA.Gen.Units`) -/

/-- Table obligation: evaluating `builtin.py`'s definitional strings through the model's own parser, in order,
succeeds (no definition is unparsable, refers to a later unit, or divides by zero). -/
theorem C10_tab_db_built : ∃ c, buildCfg = .ok c ∧ liveCfg = c := by
  unfold liveCfg
  have h : (match buildCfg with | .ok _ => true | .error _ => false) = true := by decide +kernel
  split
  · next c hc => exact ⟨c, hc, rfl⟩
  · next e he => rw [he] at h; exact absurd h (by simp)

/-- Table obligation: the model's database has exactly the keys of the live `units_db` (same order), every key has
an entry in the hand-written SI reference, and every reference unit is in the database. -/
theorem C10_tab_names : checkNames liveCfg = true := by decide +kernel

/-- Table obligation: the live prefix table is the SI prefix table: each SI prefix is present with value `10^k`
exactly, and there is no other prefix. -/
theorem C10_tab_prefixes :
    (∀ pk ∈ SI.prefixes, liveCfg.prefixes.find pk.1 = some ((10 : Rat) ^ pk.2)) ∧
    (∀ pv ∈ liveCfg.prefixes, ∃ pk ∈ SI.prefixes, pk.1 = pv.1) :=
  checkPrefixes_sound (by decide +kernel)

/-- Table obligation **T1**: for every unit `r` of the SI reference and every SI prefix `p = 10^k` (and no prefix,
`k = 0`), unless `p ++ r.name` is itself a unit name, `lookup (p ++ r.name)` is an exact magnitude within the entry's
tolerance of `10^k · r.value` (tolerance 0: equal) with exactly the reference dimension. -/
theorem C10_tab_units : ∀ r ∈ SI.units, ∀ pk ∈ allPrefixes, find (pk.1 ++ r.name) = none →
    ResolvesTo liveCfg (pk.1 ++ r.name) ((10 : Rat) ^ pk.2) r :=
  fun r hr pk hpk => ((checkAllUnits_sound checkAllUnits_live) r hr pk hpk).1

/-- Table obligation: the prefixed names that are themselves unit names are exactly `min` (minute, not milli-inch)
and `ft` (foot, not femto-tonne), and each resolves to that unit. -/
theorem C10_tab_collisions :
    collisions = [(['m'], ['i', 'n'], ['m', 'i', 'n']), (['f'], ['t'], ['f', 't'])] ∧
    ∀ r ∈ SI.units, ∀ pk ∈ allPrefixes, ∀ r', find (pk.1 ++ r.name) = some r' →
      ResolvesTo liveCfg (pk.1 ++ r.name) 1 r' :=
  ⟨by decide +kernel, fun r hr pk hpk => ((checkAllUnits_sound checkAllUnits_live) r hr pk hpk).2⟩

/-- Table obligation: `Consts.GAS_CONSTANT` is the molar gas constant: J/(mol·K) and within 10⁻⁵ of 8.31446261815324. -/
theorem C10_tab_gas_constant : checkGasConstant = true := by decide +kernel

/-- Table obligation: every database entry is an exact positive magnitude with integer exponents, every prefix is
positive and the snapping threshold is strictly between 0 and 1/2 (hypotheses of the general theorems, discharged
for the live tables). -/
theorem C10_tab_db_integral : checkIntegral liveCfg = true := by decide +kernel

/-! ## T3 — every token list ends in a value, the units parse error or an arithmetic error -/

/-- **T3** For every configuration (any unit database, prefix table, threshold) and every token list of any length
whose number tokens respect the interpreter's digit limit: evaluation never ends in an internal outcome (the
model's recursion budget, `ValueError`, a complex number, `KeyError`, `AttributeError`) nor in the units error. -/
theorem C10_no_internal_outcome (cfg : Cfg) (ts : List Tok) (hd : ∀ t ∈ ts, t.digitsOK) :
    (∀ k, evalTokens cfg ts ≠ .error (.internal k)) ∧ evalTokens cfg ts ≠ .error .unitsError := by
  have key : ∀ e, evalTokens cfg ts = .error e → e = .unitsParse ∨ e = .math := by
    intro e h
    simp only [evalTokens, bind, Except.bind] at h
    split at h
    · next e' he =>
      injection h with h; subst h
      rcases parseTokens_errors ts e' he with hp | ⟨_, t, hm, hb⟩
      · exact Or.inl hp
      · exact absurd (hd t hm) hb
    · next t ht => exact evalTree_error cfg t e h
  refine ⟨fun k h => ?_, fun h => ?_⟩
  · rcases key _ h with h' | h' <;> cases h'
  · rcases key _ h with h' | h' <;> cases h'

example : ∀ t ∈ [Tok.word ['m'], .sym '^', .num true ['2']], t.digitsOK := by
  intro t ht
  simp only [List.mem_cons, List.mem_nil_iff, or_false] at ht
  rcases ht with rfl | rfl | rfl <;> simp [Tok.digitsOK] <;> decide

/-- **T3** Exactly one of the three outcomes. -/
theorem C10_outcome_trichotomy (cfg : Cfg) (ts : List Tok) (hd : ∀ t ∈ ts, t.digitsOK) :
    (∃ v, evalTokens cfg ts = .ok v) ∨ evalTokens cfg ts = .error .unitsParse ∨ evalTokens cfg ts = .error .math := by
  have h := C10_no_internal_outcome cfg ts hd
  cases hr : evalTokens cfg ts with
  | ok v => exact Or.inl ⟨v, rfl⟩
  | error e =>
    cases e with
    | unitsParse => exact Or.inr (Or.inl rfl)
    | math => exact Or.inr (Or.inr rfl)
    | unitsError => exact absurd hr h.2
    | internal k => exact absurd hr (h.1 k)

/-- **T3** A token list outside the grammar (the parser fails on it) is rejected with the units parse error — never
with another exception — and an unknown name in a parsed tree likewise. -/
theorem C10_malformed_rejected (cfg : Cfg) (ts : List Tok) (hd : ∀ t ∈ ts, t.digitsOK) (e : Err)
    (h : parseTokens ts = .error e) : evalTokens cfg ts = .error .unitsParse := by
  rcases parseTokens_errors ts e h with hp | ⟨_, t, hm, hb⟩
  · subst hp; simp [evalTokens, h, bind, Except.bind]
  · exact absurd (hd t hm) hb

example : parseTokens [Tok.word ['m'], .sym '^'] = .error .unitsParse := by decide +kernel

end PGA.Units
