import PGA.Proofs.EstimateUQ
import PGA.Proofs.DiagDominant
import Mathlib.Analysis.Real.Sqrt
import PGA.Gen.Uq
/-!
# C20 — standard errors are the scaled quadratic form of the descriptors

Property theorems about the model (`PGA.Model.Estimate`) of the uncertainty block of
`ThermochemGroupAdditive.__init__` and of `get_CpoR_SE/get_HoRT_SE/get_SoR_SE` (`pgradd/ThermoChem/group_data.py`),
and of `GroupLibrary.Estimate` as far as it reaches them.  The model keeps the radicand
`SE² = RMSE_X(T)²·xᵀMx` exactly (`Estimator.SE2`); the square root `np.sqrt` applies is not modelled
numerically: it enters as an abstract function with the properties `SqrtLike`, and — stronger — as
Mathlib's real square root (`C20_SE_real*`).  A mapping is a list with distinct keys (`Nodup`), as a Python
`dict` is; the basis of a well-formed library has distinct entries (checked for the shipped ones by
`C20_tab_shipped`).
-/
namespace PGA.Estimate

section
variable {N S : Type} [DecidableEq N] [DecidableEq S]

/-- **T1 (the quadratic form)** For a library with uncertainty data, a successful estimate stores
`q = xᵀMx` where `x` holds the mapping's counts in the order of the uncertainty basis (0 for basis entries the
mapping does not mention) and `M` is the stored matrix (necessarily `n × n`, `n` the basis length), together
with the library's RMSE correlation and degrees of freedom. -/
theorem C20_q (reg : List S) (lib : Library N S) (gs : List (N × Rat)) (s : S) (e : Estimator) (u : UQ N)
    (he : estimate reg lib gs s = .ok e) (hu : lib.uq = some u)
    (hk : (gs.map (·.1)).Nodup) (hb : u.basis.Nodup) :
    ∃ q, e.uq = some q ∧ q.rmse = u.rmse ∧ q.dof = u.dof ∧
      q.q = specQuad u.mat (specX u.basis gs) ∧ Square u.basis.length u.mat := by
  obtain ⟨q, hq, heq⟩ := estimate_uq reg lib gs s e u he hu
  obtain ⟨x, hx, hs, rfl⟩ := buildUQ_ok u gs q hq
  have hxs : x = specX u.basis gs := by
    rw [placeX_spec u.basis hb gs hk _ x (by simp [zeros]) hx, fillX_zeros]
  obtain ⟨_, hsq⟩ := (shapeOK_iff _ _).mp hs
  refine ⟨_, heq, rfl, rfl, ?_, hsq⟩
  show quad x u.mat = _
  rw [quad_eq_specQuad x u.mat (by intro row hr; rw [hxs, specX_length]; exact hsq.2 row hr), hxs]

/-- **T1 (the radicand)** `get_X_SE(T)² = RMSE_X(T)² · q` for `X` any of Cp/R, H/RT, S/R (`get` selects the datum of
the RMSE correlation); it fails exactly when the RMSE correlation fails at `T`. -/
theorem C20_SE2 (e : Estimator) (q : UQE) (hq : e.uq = some q) (get : Corr → Val) (v : Rat) :
    e.SE2 get = .ok v ↔ ∃ r, get q.rmse = .ok r ∧ v = r * r * q.q := by
  unfold Estimator.SE2
  rw [hq]
  cases h : get q.rmse with
  | error err => simp [h]
  | ok r => simp only [h, Except.ok.injEq, exists_eq_left']; exact eq_comm

/-- instances of T1 for the three getters -/
theorem C20_SE2_H (e : Estimator) (q : UQE) (hq : e.uq = some q) (T v : Rat) :
    e.HoRT_SE2 T = .ok v ↔ ∃ r, q.rmse.hort T = .ok r ∧ v = r * r * q.q := C20_SE2 e q hq (·.hort T) v
theorem C20_SE2_Cp (e : Estimator) (q : UQE) (hq : e.uq = some q) (T v : Rat) :
    e.CpoR_SE2 T = .ok v ↔ ∃ r, q.rmse.cp T = .ok r ∧ v = r * r * q.q := C20_SE2 e q hq (·.cp T) v
theorem C20_SE2_S (e : Estimator) (q : UQE) (hq : e.uq = some q) (T v : Rat) :
    e.SoR_SE2 T = .ok v ↔ ∃ r, q.rmse.sor T = .ok r ∧ v = r * r * q.q := C20_SE2 e q hq (·.sor T) v

/-- A library without uncertainty data gives estimates without standard errors: asking is an error. -/
theorem C20_no_uq (reg : List S) (lib : Library N S) (gs : List (N × Rat)) (s : S) (e : Estimator)
    (he : estimate reg lib gs s = .ok e) (hu : lib.uq = none) (get : Corr → Val) : e.SE2 get = .error .noUQ := by
  obtain ⟨_, _, hc⟩ := (estimate_ok_iff reg lib gs s e).mp he
  obtain ⟨cs, uq, _, huq, hf⟩ := (construct_ok_iff lib s gs e).mp hc
  obtain ⟨_, _, _, h4⟩ := finish_ok _ _ _ _ hf
  unfold uqPart at huq
  rw [hu] at huq
  cases huq
  simp [Estimator.SE2, h4]

/-- **T2 (order)** The order of the mapping does not change the quadratic form (hence no standard error). -/
theorem C20_order (reg : List S) (lib : Library N S) (gs gs' : List (N × Rat)) (s : S) (e e' : Estimator) (u : UQ N)
    (q q' : UQE) (hp : gs.Perm gs') (he : estimate reg lib gs s = .ok e) (he' : estimate reg lib gs' s = .ok e')
    (hu : lib.uq = some u) (hk : (gs.map (·.1)).Nodup) (hb : u.basis.Nodup)
    (hq : e.uq = some q) (hq' : e'.uq = some q') : q'.q = q.q ∧ q'.rmse = q.rmse := by
  have hk' : (gs'.map (·.1)).Nodup := (hp.map _).nodup_iff.mp hk
  obtain ⟨q1, a1, a2, _, a4, _⟩ := C20_q reg lib gs s e u he hu hk hb
  obtain ⟨q2, b1, b2, _, b4, _⟩ := C20_q reg lib gs' s e' u he' hu hk' hb
  rw [hq] at a1; cases a1
  rw [hq'] at b1; cases b1
  rw [a4, b4, specX_perm u.basis gs gs' hp hk, a2, b2]
  exact ⟨rfl, rfl⟩

/-- **T3 (scaling, the quadratic form)** Multiplying every count by `c` multiplies `q` by `c²`. -/
theorem C20_scale_q (reg : List S) (lib : Library N S) (gs : List (N × Rat)) (s : S) (c : Rat) (e e' : Estimator) (u : UQ N)
    (q q' : UQE) (he : estimate reg lib gs s = .ok e)
    (he' : estimate reg lib (gs.map fun g => (g.1, c * g.2)) s = .ok e')
    (hu : lib.uq = some u) (hk : (gs.map (·.1)).Nodup) (hb : u.basis.Nodup)
    (hq : e.uq = some q) (hq' : e'.uq = some q') : q'.q = c * c * q.q ∧ q'.rmse = q.rmse := by
  have hk' : ((gs.map fun g => (g.1, c * g.2)).map (·.1)).Nodup := by
    have : (fun x : N × Rat => x.1) ∘ (fun g : N × Rat => (g.1, c * g.2)) = fun x => x.1 := rfl
    rw [List.map_map, this]; exact hk
  obtain ⟨q1, a1, a2, _, a4, _⟩ := C20_q reg lib gs s e u he hu hk hb
  obtain ⟨q2, b1, b2, _, b4, _⟩ := C20_q reg lib _ s e' u he' hu hk' hb
  rw [hq] at a1; cases a1
  rw [hq'] at b1; cases b1
  rw [a4, b4, specX_scale, specQuad_smul, a2, b2]
  exact ⟨rfl, rfl⟩

/-- **T4 (out of basis → error)** If every descriptor has data but some descriptor of the mapping is not in the
uncertainty basis, `Estimate` fails (`ValueError` of `list.index`), naming the first such descriptor; the
descriptor is never silently dropped from `x`. -/
theorem C20_out_of_basis (reg : List S) (lib : Library N S) (s : S) (u : UQ N)
    (pre : List (N × Rat)) (g : N) (n : Rat) (post : List (N × Rat))
    (hr : reg.contains s = true) (hm : specMissing lib s (pre ++ (g, n) :: post) = []) (hu : lib.uq = some u)
    (hpre : ∀ p ∈ pre, p.1 ∈ u.basis) (hg : g ∉ u.basis) :
    estimate reg lib (pre ++ (g, n) :: post) s = .error (.notInBasis g) := by
  unfold estimate
  rw [missingGroups_eq_spec, hm]
  simp only [hr, if_true]
  unfold construct
  obtain ⟨cs, hcs⟩ := collect_of_noMissing lib s _ hm
  simp only [hcs, uqPart, hu, buildUQ, placeX_notInBasis u.basis pre g n post _ hpre hg]

/-- **T4 (converse)** A successful estimate of a library with uncertainty data has every descriptor of the
mapping in the basis. -/
theorem C20_all_in_basis (reg : List S) (lib : Library N S) (gs : List (N × Rat)) (s : S) (e : Estimator) (u : UQ N)
    (he : estimate reg lib gs s = .ok e) (hu : lib.uq = some u) : ∀ g ∈ gs, g.1 ∈ u.basis := by
  obtain ⟨q, hq, _⟩ := estimate_uq reg lib gs s e u he hu
  exact ((buildUQ_ok_iff u gs).mp ⟨q, hq⟩).1

/-- **T5 (sign)** Given that the stored matrix is positive semi-definite (certified for the shipped matrices under
C14), `q ≥ 0` and every radicand `RMSE² · q ≥ 0`. -/
theorem C20_nonneg (reg : List S) (lib : Library N S) (gs : List (N × Rat)) (s : S) (e : Estimator) (u : UQ N) (q : UQE)
    (he : estimate reg lib gs s = .ok e) (hu : lib.uq = some u) (hk : (gs.map (·.1)).Nodup) (hb : u.basis.Nodup)
    (hpsd : PSD u.basis.length u.mat) (hq : e.uq = some q) :
    0 ≤ q.q ∧ ∀ get v, e.SE2 get = .ok v → 0 ≤ v := by
  obtain ⟨q1, a1, _, _, a4, _⟩ := C20_q reg lib gs s e u he hu hk hb
  rw [hq] at a1; cases a1
  have h0 : 0 ≤ q.q := by rw [a4]; exact hpsd _ (specX_length _ _)
  refine ⟨h0, ?_⟩
  intro get v hv
  obtain ⟨r, _, rfl⟩ := (C20_SE2 e q hq get v).mp hv
  exact mul_nonneg (mul_self_nonneg r) h0

end

/-! ### the square root -/

/-- **T1 (SE, abstract root)** `SE = |RMSE| · √q` for any function with the properties of a square root. -/
theorem C20_SE_abs (sqrt : Rat → Rat) (hs : SqrtLike sqrt) (r q : Rat) (hq : 0 ≤ q) :
    sqrt (r * r * q) = rabs r * sqrt q ∧ 0 ≤ sqrt (r * r * q) := ⟨hs.sq_mul r q hq, hs.nonneg _⟩

/-- **T3 (SE, abstract root)** scaling all counts by `c` scales the standard error by `|c|`. -/
theorem C20_SE_scale (sqrt : Rat → Rat) (hs : SqrtLike sqrt) (r q c : Rat) (hq : 0 ≤ q) :
    sqrt (r * r * (c * c * q)) = rabs c * sqrt (r * r * q) := by
  have h : r * r * (c * c * q) = c * c * (r * r * q) := by ring
  rw [h]
  exact hs.sq_mul c _ (mul_nonneg (mul_self_nonneg r) hq)

/-- **T1 (SE, real root)** With the real square root: `√(RMSE²·q) = |RMSE|·√q`, a non-negative real number. -/
theorem C20_SE_real (r q : Rat) (hq : 0 ≤ q) :
    Real.sqrt ((r * r * q : Rat) : ℝ) = |(r : ℝ)| * Real.sqrt (q : ℝ) ∧ 0 ≤ Real.sqrt ((r * r * q : Rat) : ℝ) := by
  refine ⟨?_, Real.sqrt_nonneg _⟩
  have hq' : (0 : ℝ) ≤ (q : ℝ) := by exact_mod_cast hq
  push_cast
  rw [Real.sqrt_mul (mul_self_nonneg _), Real.sqrt_mul_self_eq_abs]

/-- **T3 (SE, real root)** `SE` of the mapping scaled by `c` is `|c|` times the `SE` of the mapping. -/
theorem C20_SE_real_scale (r q c : Rat) :
    Real.sqrt ((r * r * (c * c * q) : Rat) : ℝ) = |(c : ℝ)| * Real.sqrt ((r * r * q : Rat) : ℝ) := by
  have h : ((r * r * (c * c * q) : Rat) : ℝ) = (c : ℝ) * (c : ℝ) * ((r * r * q : Rat) : ℝ) := by push_cast; ring
  rw [h, Real.sqrt_mul (mul_self_nonneg _), Real.sqrt_mul_self_eq_abs]

/-- the real square root, read on rationals through any retraction, is not needed: the abstract hypotheses are
satisfiable — e.g. by the zero function (trivially) — and `C20_SE_real` gives the genuine instance. -/
example : SqrtLike (fun _ => 0) := ⟨rfl, fun _ => le_refl _, fun _ _ _ _ => le_refl _, fun _ _ _ => by simp⟩

/-! ### a general sufficient condition for the PSD hypothesis -/

/-- **General lemma, any size** A square matrix that is symmetric and diagonally dominant (for every row the
off-diagonal absolute values sum to at most the diagonal entry — so the diagonal is non-negative) is positive
semi-definite: `0 ≤ xᵀEx` for every `x`.  (The PSD certificate of the shipped matrices — `M = LLᵀ + E` with `E` of
this kind — is built under C14; this is the lemma it rests on.) -/
theorem C20_diag_dominant_psd (n : ℕ) (E : List (List Rat)) (hsq : Square n E)
    (hsym : ∀ i j : Fin n, entry E i j = entry E j i)
    (hdd : ∀ i : Fin n, ∑ j ∈ Finset.univ.erase i, |entry E i j| ≤ entry E i i) : PSD n E :=
  diagDominant_PSD n E hsq hsym hdd

/-! ### table obligation over the regenerated uncertainty blocks (`PGA.Gen.Uq`) -/

open PGA.Gen.Uq in
/-- every shipped library with uncertainty data has a basis of distinct descriptors and an `n × n` matrix with
`n` the basis length (`n ≠ 0`): the hypotheses `Nodup basis` and the shape check of the theorems above hold for them -/
theorem C20_tab_shipped :
    libs.all (fun l => decide l.2.1.Nodup && shapeOK l.2.1.length (l.2.2.1.map (·.map Dec.toRat))) = true
    ∧ libs.length ≠ 0 := by decide +kernel

/-! ### non-vacuity -/
namespace Ex20

def cA : Corr := ⟨fun _ => .ok 2, fun T => .ok (T / 100), fun _ => .ok (1/2), none⟩
def rm : Corr := ⟨fun _ => .error .incomplete, fun _ => .ok (-3/2), fun _ => .ok 2, none⟩
/-- basis order 4, 1, 2; M = AᵀA-like symmetric PSD matrix -/
def u : UQ Nat := ⟨rm, [4, 1, 2], [[2, 1, 0], [1, 2, 1], [0, 1, 2]], 98⟩
def lib : Library Nat Nat := ⟨[(1, [(0, cA)]), (2, [(0, cA)]), (4, [(0, cA)]), (7, [(0, cA)])], some u, none⟩

def qIs (gs : List (Nat × Rat)) (v : Rat) : Bool :=
  match estimate [0] lib gs 0 with
  | .ok e => (match e.uq with | some q => q.q == v | none => false)
  | .error _ => false
def se2Is (gs : List (Nat × Rat)) (v : Rat) : Bool :=
  match estimate [0] lib gs 0 with
  | .ok e => (match e.HoRT_SE2 300 with | .ok w => w == v | .error _ => false)
  | .error _ => false
def errIs (gs : List (Nat × Rat)) (err : EstErr Nat) : Bool :=
  match estimate [0] lib gs 0 with | .ok _ => false | .error e => e == err

/-- x = (0, 3, −1/2) in basis order (4, 1, 2): q = 2·9 + 2·3·(−1/2)·1 + 2·(1/4) = 31/2 -/
example : qIs [(2, -1/2), (1, 3)] (31/2) = true := by decide +kernel
example : qIs [(1, 3), (2, -1/2)] (31/2) = true := by decide +kernel
example : qIs [(1, 6), (2, -1)] (4 * (31/2)) = true := by decide +kernel
example : se2Is [(1, 3), (2, -1/2)] (9/4 * (31/2)) = true := by decide +kernel
/-- descriptor 7 has data but is outside the basis: error, never ignored -/
example : errIs [(1, 3), (7, 1), (2, 1)] (.notInBasis 7) = true := by decide +kernel
example : specX [4, 1, 2] [(2, -1/2), (1, 3)] = [0, 3, -1/2] := by decide +kernel

/-- the example matrix is symmetric and diagonally dominant, hence PSD: the hypothesis of `C20_nonneg` is satisfiable -/
example : PSD 3 u.mat :=
  C20_diag_dominant_psd 3 u.mat ((shapeOK_iff 3 u.mat).mp (by decide +kernel)).2 (by decide +kernel) (by decide +kernel)

end Ex20

end PGA.Estimate
