import PGA.Proofs.Scheme
import PGA.Proofs.SchemeSets
/-!
# C02 — descriptors equal the scheme file's declared decomposition

Theorems about `PGA.Scheme.getDescriptors` (the model of `Scheme.py` above the matcher).  They hold for every
number of atoms, every list of centre patterns / correction descriptors with *arbitrary* match lists, every
neighbour structure and every remap table meeting the stated (decidable, table-checked) conditions.
The meaning of the match lists themselves — "exactly the embeddings the RING text denotes" — is C08.
-/
namespace PGA.Scheme
open PGA

/-- **Centre classification succeeds exactly when every atom is matched by one centre pattern and none by two.**
`cnt ps i` is the number of pattern entries of the scheme having atom `i` as the first atom of some match. -/
theorem C02_assignCentres_ok_iff (inp : Input) :
    (∃ a, assignCentres inp = .ok a) ↔ (∀ i, cnt inp.centres i ≤ 1) ∧ (∀ i < inp.n, cnt inp.centres i = 1) :=
  assignCentres_ok_iff inp

/-- **…and then each atom carries the centre and peripheral names of the pattern that matches it.** -/
theorem C02_assignCentres_names (inp : Input) (a : Assign) (h : assignCentres inp = .ok a) (j : Nat) :
    a.get? j = firstMatch inp.centres j := assignCentres_get inp a h j

/-- **Failure clause.** The pattern-match error is raised exactly when some atom is matched by no centre pattern,
or some atom index is matched by more than one. -/
theorem C02_assignCentres_error_iff (inp : Input) :
    assignCentres inp = .error .patternMatch ↔
      (∃ i, 2 ≤ cnt inp.centres i) ∨ (∃ i, i < inp.n ∧ cnt inp.centres i = 0) := by
  have hiff := assignCentres_ok_iff inp
  constructor
  · intro he
    by_contra hcon
    have hno : ¬ ((∃ i, 2 ≤ cnt inp.centres i) ∨ (∃ i, i < inp.n ∧ cnt inp.centres i = 0)) := hcon
    have : (∀ i, cnt inp.centres i ≤ 1) ∧ (∀ i < inp.n, cnt inp.centres i = 1) := by
      constructor
      · intro i
        by_contra h; exact hno (Or.inl ⟨i, by omega⟩)
      · intro i hi
        have h1 : cnt inp.centres i ≤ 1 := by
          by_contra h; exact hno (Or.inl ⟨i, by omega⟩)
        have h0 : cnt inp.centres i ≠ 0 := fun h => hno (Or.inr ⟨i, hi, h⟩)
        omega
    obtain ⟨a, ha⟩ := hiff.mpr this
    rw [ha] at he; cases he
  · intro h
    cases hr : assignCentres inp with
    | error e => cases e; rfl
    | ok a =>
      obtain ⟨h1, h2⟩ := hiff.mp ⟨a, hr⟩
      rcases h with ⟨i, hi⟩ | ⟨i, hi, h0⟩
      · have := h1 i; omega
      · have := h2 i hi; omega

/-- **Each atom with a named centre contributes one group**: the count of a group name is the number of atoms whose
centre name and multiset of neighbour peripheral names give that canonical name. -/
theorem C02_countGroups_declared (a : Assign) (nbrs : List (List Nat)) (n : Nat) (g : String) :
    (countGroups a nbrs (List.range n) []).get g =
      (((List.range n).filter fun i => decide (groupName a nbrs i = some g)).length : Rat) := by
  rw [countGroups_get]; simp [Counts.get]

/-- **Each correction descriptor is counted once per distinct set of matched atoms.** -/
theorem C02_distinctSets_card (ms : List Match) :
    distinctSets ms = ((ms.map List.toFinset).toFinset).card := distinctSets_card ms

/-- the count of a correction-descriptor name is the sum, over the entries carrying that name, of their numbers
of distinct matched atom sets -/
theorem C02_countDescs_declared (ds : List DescPat) (name : String) :
    (countDescs ds []).get name =
      ((ds.filter fun d => decide (d.name = name)).map fun d => (distinctSets d.ms : Rat)).sum := by
  rw [countDescs_get]; simp [Counts.get]

/-- **Remap rules are applied as linear substitutions** (chain-free table, any dictionary with distinct keys):
the resulting count of every name is the sum of the contributions of the original entries. -/
theorem C02_remap_linear (rm : List (String × List (Rat × String))) (hcf : ChainFree rm)
    (c : Counts) (hc : (Counts.keys c).Nodup) (t : String) :
    (remapAll rm c).get t = (c.map fun p => contrib rm p.1 p.2 t).sum := remapAll_get rm hcf c hc t

/-- …hence independent of the order in which the keys happen to be visited. -/
theorem C02_remap_order_independent (rm : List (String × List (Rat × String))) (hcf : ChainFree rm)
    (c c' : Counts) (hc : (Counts.keys c).Nodup) (hp : c.Perm c') (t : String) :
    (remapAll rm c).get t = (remapAll rm c').get t := remapAll_perm rm hcf c c' hc hp t

/-- the decomposition fails exactly when centre classification fails (never a partial result) -/
theorem C02_getDescriptors_error_iff (inp : Input) :
    getDescriptors inp = .error .patternMatch ↔ assignCentres inp = .error .patternMatch := by
  unfold getDescriptors
  cases h : assignCentres inp with
  | error e => cases e; simp
  | ok a => simp

/-- **End to end.** On success the value of every name is: the remapped correction-descriptor count if the name occurs
among the (remapped) correction descriptors, else the remapped group count. -/
theorem C02_getDescriptors_value (inp : Input) (a : Assign) (res : Counts)
    (ha : assignCentres inp = .ok a) (hr : getDescriptors inp = .ok res) (t : String) :
    res.get t =
      let groups := remapAll inp.remaps (countGroups a inp.nbrs (List.range inp.n) [])
      let descs := remapAll inp.remaps (countDescs inp.descs [])
      if t ∈ Counts.keys descs then descs.get t else groups.get t := by
  unfold getDescriptors at hr
  simp only [ha, Except.ok.injEq] at hr
  subst hr
  apply mergeUpdate_get
  exact remapAll_nodup _ _ (countDescs_nodup _ _ (by simp [Counts.keys]))

/-! ### non-vacuity: a concrete three-atom input (one centre pattern matching all atoms, a second matching atom 0 too) -/
example : cnt [⟨"C", "C", [[0, 1], [1, 0], [2]]⟩] 1 = 1 := by decide +kernel
example : assignCentres ⟨2, [[1], [0]], [⟨"C", "C", [[0, 1], [1, 0]]⟩], [], []⟩ =
    .ok [(1, ("C", "C")), (0, ("C", "C"))] := by decide +kernel
example : assignCentres ⟨2, [[1], [0]], [⟨"C", "C", [[0, 1], [1, 0]]⟩, ⟨"X", "X", [[0]]⟩], [], []⟩ =
    .error .patternMatch := by decide +kernel
example : distinctSets [[0, 8], [8, 0], [1, 2]] = 2 := by decide +kernel
example : ChainFree [("a", [((1 : Rat) / 2, "b")])] := by
  intro k ts h p hp
  simp only [lookupRemap, List.find?_cons] at h
  by_cases e : ("a" == k) = true
  · simp [e] at h; subst h; simp at hp; subst hp; decide
  · simp [e] at h

end PGA.Scheme
