import PGA.Props.C08
import PGA.Props.C09
import PGA.Spec.RingLayout
/-!
# C08 from the text on — parser model (C09) ∘ bridge ∘ reader model ∘ matcher model

`PGA.readText`/`PGA.matchText` (`PGA/Model/RingAstBridge.lean`) compose the C09 model of `Parser.py`
on the regenerated grammar, the bridge `Ring.Ast → PGA.Ast` over the regenerated rule-name table, the
C08 reader and the C08 matcher.  The theorems below are the C08 and C09 theorems carried to that
composition: they hold for **every text** (any length, any characters).  The last section states the
layout clause of C08 ("layout and whitespace do not matter") on the token-level rendering of a
fragment; it is *stated, not proved* (documented gap, see `notes/C08.md`).
-/
namespace PGA.C08
open PGA PGA.Spec PGA.Match PGA.Ring PGA.Gen.RingGrammar

/-! ## The bridge -/

/-- **Bridge, nodes**: a node of rule index `n` becomes the node named by the regenerated rule-name
table, over the bridged children in the same order; leaves keep their text, integer leaves become
their decimal rendering. -/
theorem C08_bridge_shape (n : Nat) (kids : List Ring.Ast) (s : List Char) (v : Nat) :
    (Ring.Ast.node n kids).toPGA = .node (ruleNameOf ruleNames n) (kids.map Ring.Ast.toPGA) ∧
    (Ring.Ast.str s).toPGA = .leaf (String.ofList s) ∧
    (Ring.Ast.int v).toPGA = .leaf (toString v) := by
  refine ⟨?_, rfl, rfl⟩
  simp only [Ring.Ast.toPGA, Ring.Ast.toPGAWith, toPGAList_eq_map]
  rfl

/-- the names the reader model dispatches on are entries of the regenerated table (table obligation:
a renamed grammar rule breaks this, and with it the reader's `assert tree[0].name == …`) -/
theorem C08_tab_rule_names :
    (["RINGInput", "Fragment", "FragmentName", "MolQuery", "Prefix", "Atom", "AtomType", "AtomPrefix", "Symbols",
      "AtomSuffix", "AtomLabel", "AtomConstraintChain", "AtomConstraints", "AtomConstraintConnectivity",
      "AtomConstraintRing", "AtomConstraintRadical", "AtomConstraintNRing", "Boolean", "ConstraintNumber", "GroupName",
      "BondType", "AtomChain", "BondedAtom", "RingBond", "StereoDoubleBond", "DoubleBondStereoType"].all
        fun n => ruleNames.contains n) = true := by
  decide +kernel

/-! ## Outcomes of reading a text -/

/-- **Text, no abort**: for every text the composed reader ends with a query, a syntax error or a
reader outcome — the parser model's abort outcomes (stuck, missing rule, hang, internal) are
unreachable on the shipped grammar (C09-T2 with the regenerated rank witness). -/
theorem C08_text_never_aborts (s : List Char) (a : Ring.Abort) : readText s ≠ .error (.abort a) := by
  unfold readText parseText
  cases hp : parse enhanced s with
  | abort b => exact absurd hp ((C09_shipped_never_stuck s).1 b)
  | syntaxError e => simp
  | accepted t fin =>
    simp only
    cases readFragment t.toPGA <;> simp

/-- **Text, error position**: a syntax error reported for a text lies inside the text (end
position included) — C09-T3 carried to the composition. -/
theorem C08_text_syntax_inside (s : List Char) (l c : Nat) (h : readText s = .error (.syntax l c)) :
    Inside s l c := by
  unfold readText parseText at h
  cases hp : parse enhanced s with
  | abort b => rw [hp] at h; simp at h
  | syntaxError e =>
    rw [hp] at h
    simp only [Except.error.injEq, TextErr.syntax.injEq] at h
    obtain ⟨rfl, rfl⟩ := h
    exact C09_error_inside enhanced s e hp
  | accepted t fin =>
    rw [hp] at h
    simp only at h
    cases hr : readFragment t.toPGA <;> simp [hr] at h

/-- **Text, consumption**: a query is returned only for a text the parser consumed to its last
character, and it is the reader's result on the bridged tree of that parse. -/
theorem C08_text_query_consumed (s : List Char) (q : Query) (h : readText s = .ok q) :
    ∃ t fin, parse enhanced s = .accepted t fin ∧ fin.rest = [] ∧ fin.idx = s.length ∧
      readFragment t.toPGA = .ok q := by
  unfold readText parseText at h
  cases hp : parse enhanced s with
  | abort b => rw [hp] at h; simp at h
  | syntaxError e => rw [hp] at h; simp at h
  | accepted t fin =>
    rw [hp] at h
    simp only at h
    have hc := C09_accepted_consumed enhanced s t fin hp
    cases hr : readFragment t.toPGA with
    | error e => simp [hr] at h
    | ok q' =>
      simp only [hr, Except.ok.injEq] at h
      subst h
      exact ⟨t, fin, rfl, hc.1, hc.2.1, hr⟩

/-- **Text, well-formedness**: every query read from a text meets the hypothesis `q.wf` of T1. -/
theorem C08_text_read_wf (s : List Char) (q : Query) (h : readText s = .ok q) : q.wf = true := by
  obtain ⟨t, _, _, _, _, hr⟩ := C08_text_query_consumed s q h
  exact C08_read_wf _ q hr

/-! ## T1 from the text on -/

/-- **T1 from the text on**: for every text the composed reader accepts, every well-formed molecule
graph and every assignment: the matcher returns the assignment exactly when it embeds the fragment
the text was read as (guard: no `*` suffix, finding FM1) — no tree supplied from outside: the tree
is the parser model's. -/
theorem C08_text_matches_iff_partial (s : List Char) (q : Query) (m : Mol) (f : List Nat)
    (hread : readText s = .ok q) (hm : m.wf = true) (hstar : NoStar q = true) :
    f ∈ queryMatches q m ↔ Embeds q m f :=
  C08_matches_iff_partial q m f (C08_text_read_wf s q hread) hm hstar

/-- **T1 from the text on, as one function**: whatever `matchText` returns for a text and a graph is
duplicate-free, and (same guards) it contains exactly the embeddings of the query read from the text. -/
theorem C08_matchText_sound_complete_partial (s : List Char) (m : Mol) (l : List (List Nat))
    (h : matchText s m = .ok l) :
    l.Nodup ∧ ∃ q, readText s = .ok q ∧
      (m.wf = true → NoStar q = true → ∀ f, f ∈ l ↔ Embeds q m f) := by
  unfold matchText at h
  cases hr : readText s with
  | error e => simp [hr, Except.map] at h
  | ok q =>
    simp only [hr, Except.map, Except.ok.injEq] at h
    subst h
    exact ⟨C08_matches_nodup q m, q, rfl, fun hm hs f => C08_text_matches_iff_partial s q m f hr hm hs⟩

/-! ## Layout (stated, not proved) -/

open PGA.Spec.Layout in
/-- **T3, layout, full statement (NOT PROVED — documented gap)**: for every fragment, any two valid
layouts of its token sequence (a filler run before the first token and after every token, non-empty
between two tokens unless one is a brace, a comma, or the first is `!`) are parsed alike by the
parser model: both rejected, or both accepted with the same tree — hence the same query and the same
matches on every molecule.  Stated for fragments whose fields are lexically what the grammar expects
(`lexOK`).  What a proof needs and why it is heavy: a simulation of two runs of the backtracking
engine in lock-step under a relation on the remaining texts, *plus* the fact that on a rendered
fragment no literal containing a blank (`any atom`, `bond to`, …) can match across a token boundary —
a parse∘render argument over the whole fragment grammar.  The claim is exercised instead, on every
run, by `c08.layouts` (parser model: tree and query of 2–4 further random layouts of every random
fragment equal those of the first) and by the implementation's parser on the same texts. -/
def C08_layout_irrelevant_full : Prop :=
  ∀ (f : Frag), lexOK f = true → ∀ (L L' : Layout),
    L.ok (tokens f) = true → L'.ok (tokens f) = true →
    treeOf (render (tokens f) L) = treeOf (render (tokens f) L')

/-- what the layout statement buys once it is available: equal trees give equal queries and equal
matches (this step *is* proved: everything after the parser is a function of the tree). -/
theorem C08_same_tree_same_matches (s s' : List Char) (m : Mol)
    (h : PGA.Spec.Layout.treeOf s = PGA.Spec.Layout.treeOf s')
    (ha : (PGA.Spec.Layout.treeOf s).isSome = true) :
    matchText s m = matchText s' m := by
  unfold PGA.Spec.Layout.treeOf at h ha
  unfold matchText readText
  cases hp : parseText s with
  | error e => simp [hp, Except.toOption] at ha
  | ok t =>
    cases hp' : parseText s' with
    | error e => simp [hp, hp', Except.toOption] at h
    | ok t' =>
      simp only [hp, hp', Except.toOption, Option.some.injEq] at h
      subst h; rfl

end PGA.C08
