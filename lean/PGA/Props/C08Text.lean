import PGA.Props.C08
import PGA.Props.C09
import PGA.Spec.RingLayout
import PGA.Proofs.RingLayout
/-!
# C08 from the text on — parser model (C09) ∘ bridge ∘ reader model ∘ matcher model

`PGA.readText`/`PGA.matchText` (`PGA/Model/RingAstBridge.lean`) compose the C09 model of `Parser.py`
on the regenerated grammar, the bridge `Ring.Ast → PGA.Ast` over the regenerated rule-name table, the
C08 reader and the C08 matcher.  The theorems below are the C08 and C09 theorems carried to that
composition: they hold for **every text** (any length, any characters).  The last section states the
layout clause of C08 ("layout and whitespace do not matter") on the token-level rendering of a
fragment; it is *stated, not proved* (documented gap, see `notes/C08.md`).
-/
namespace PGA.C08
open PGA PGA.Spec PGA.Match PGA.Ring PGA.Gen.RingGrammar

/-! ## The bridge -/

/-- **Bridge, nodes**: a node of rule index `n` becomes the node named by the regenerated rule-name
table, over the bridged children in the same order; leaves keep their text, integer leaves become
their decimal rendering. -/
theorem C08_bridge_shape (n : Nat) (kids : List Ring.Ast) (s : List Char) (v : Nat) :
    (Ring.Ast.node n kids).toPGA = .node (ruleNameOf ruleNames n) (kids.map Ring.Ast.toPGA) ∧
    (Ring.Ast.str s).toPGA = .leaf (String.ofList s) ∧
    (Ring.Ast.int v).toPGA = .leaf (toString v) := by
  refine ⟨?_, rfl, rfl⟩
  simp only [Ring.Ast.toPGA, Ring.Ast.toPGAWith, toPGAList_eq_map]
  rfl

/-- the names the reader model dispatches on are entries of the regenerated table (table obligation:
a renamed grammar rule breaks this, and with it the reader's `assert tree[0].name == …`) -/
theorem C08_tab_rule_names :
    (["RINGInput", "Fragment", "FragmentName", "MolQuery", "Prefix", "Atom", "AtomType", "AtomPrefix", "Symbols",
      "AtomSuffix", "AtomLabel", "AtomConstraintChain", "AtomConstraints", "AtomConstraintConnectivity",
      "AtomConstraintRing", "AtomConstraintRadical", "AtomConstraintNRing", "Boolean", "ConstraintNumber", "GroupName",
      "BondType", "AtomChain", "BondedAtom", "RingBond", "StereoDoubleBond", "DoubleBondStereoType"].all
        fun n => ruleNames.contains n) = true := by
  decide +kernel

/-! ## Outcomes of reading a text -/

/-- **Text, no abort**: for every text the composed reader ends with a query, a syntax error or a
reader outcome — the parser model's abort outcomes (stuck, missing rule, hang, internal) are
unreachable on the shipped grammar (C09-T2 with the regenerated rank witness). -/
theorem C08_text_never_aborts (s : List Char) (a : Ring.Abort) : readText s ≠ .error (.abort a) := by
  unfold readText parseText
  cases hp : parse enhanced s with
  | abort b => exact absurd hp ((C09_shipped_never_stuck s).1 b)
  | syntaxError e => simp
  | accepted t fin =>
    simp only
    cases readFragment t.toPGA <;> simp

/-- **Text, error position**: a syntax error reported for a text lies inside the text (end
position included) — C09-T3 carried to the composition. -/
theorem C08_text_syntax_inside (s : List Char) (l c : Nat) (h : readText s = .error (.syntax l c)) :
    Inside s l c := by
  unfold readText parseText at h
  cases hp : parse enhanced s with
  | abort b => rw [hp] at h; simp at h
  | syntaxError e =>
    rw [hp] at h
    simp only [Except.error.injEq, TextErr.syntax.injEq] at h
    obtain ⟨rfl, rfl⟩ := h
    exact C09_error_inside enhanced s e hp
  | accepted t fin =>
    rw [hp] at h
    simp only at h
    cases hr : readFragment t.toPGA <;> simp [hr] at h

/-- **Text, consumption**: a query is returned only for a text the parser consumed to its last
character, and it is the reader's result on the bridged tree of that parse. -/
theorem C08_text_query_consumed (s : List Char) (q : Query) (h : readText s = .ok q) :
    ∃ t fin, parse enhanced s = .accepted t fin ∧ fin.rest = [] ∧ fin.idx = s.length ∧
      readFragment t.toPGA = .ok q := by
  unfold readText parseText at h
  cases hp : parse enhanced s with
  | abort b => rw [hp] at h; simp at h
  | syntaxError e => rw [hp] at h; simp at h
  | accepted t fin =>
    rw [hp] at h
    simp only at h
    have hc := C09_accepted_consumed enhanced s t fin hp
    cases hr : readFragment t.toPGA with
    | error e => simp [hr] at h
    | ok q' =>
      simp only [hr, Except.ok.injEq] at h
      subst h
      exact ⟨t, fin, rfl, hc.1, hc.2.1, hr⟩

/-- **Text, well-formedness**: every query read from a text meets the hypothesis `q.wf` of T1. -/
theorem C08_text_read_wf (s : List Char) (q : Query) (h : readText s = .ok q) : q.wf = true := by
  obtain ⟨t, _, _, _, _, hr⟩ := C08_text_query_consumed s q h
  exact C08_read_wf _ q hr

/-! ## T1 from the text on -/

/-- **T1 from the text on**: for every text the composed reader accepts, every well-formed molecule
graph and every assignment: the matcher returns the assignment exactly when it embeds the fragment
the text was read as (guard: no `*` suffix, finding FM1) — no tree supplied from outside: the tree
is the parser model's. -/
theorem C08_text_matches_iff_partial (s : List Char) (q : Query) (m : Mol) (f : List Nat)
    (hread : readText s = .ok q) (hm : m.wf = true) (hstar : NoStar q = true) :
    f ∈ queryMatches q m ↔ Embeds q m f :=
  C08_matches_iff_partial q m f (C08_text_read_wf s q hread) hm hstar

/-- **T1 from the text on, as one function**: whatever `matchText` returns for a text and a graph is
duplicate-free, and (same guards) it contains exactly the embeddings of the query read from the text. -/
theorem C08_matchText_sound_complete_partial (s : List Char) (m : Mol) (l : List (List Nat))
    (h : matchText s m = .ok l) :
    l.Nodup ∧ ∃ q, readText s = .ok q ∧
      (m.wf = true → NoStar q = true → ∀ f, f ∈ l ↔ Embeds q m f) := by
  unfold matchText at h
  cases hr : readText s with
  | error e => simp [hr, Except.map] at h
  | ok q =>
    simp only [hr, Except.map, Except.ok.injEq] at h
    subst h
    exact ⟨C08_matches_nodup q m, q, rfl, fun hm hs f => C08_text_matches_iff_partial s q m f hr hm hs⟩

/-! ## Layout -/

/-- the filler characters that occur in no token of the grammar: a gap containing one of them cannot lie inside a
token such as `bond to` -/
def hardFiller (c : Char) : Bool := c == '\n' || c == '\t'

/-- **Table obligation (layout hypotheses of the shipped grammar)**: `''` is not a filler; the filler characters
(blank, newline, tab) are neither identifier characters nor decimal digits; every `Literal` / `Filler` / `Literals`
token of every rule is non-empty, contains neither newline nor tab, has no two adjacent filler characters and does
not end with one — regenerated from the live `Grammar.py` / `Parser.py` objects on every run. -/
theorem C08_tab_layout_enhanced : PGA.Ring.LayoutOK enhanced hardFiller :=
  PGA.Ring.checkLayout_sound _ _ (by decide +kernel)

open PGA.Spec.Layout in
/-- two gap lists for the same tokens that differ only where it is provably harmless: between two tokens the gaps
are equal, or both *opaque* (all filler, and at least two characters long or containing a newline or tab); after
the last token both are any filler -/
def GapsAlike : List (List Char) → List (List Char) → List (List Char) → Prop
  | [], [], [] => True
  | [_], [g], [g'] => PGA.Ring.allFil enhanced g ∧ PGA.Ring.allFil enhanced g'
  | _ :: t2 :: ts, g :: gs, g' :: gs' =>
    (g = g' ∨ (PGA.Ring.Opaque enhanced hardFiller g ∧ PGA.Ring.Opaque enhanced hardFiller g')) ∧
      GapsAlike (t2 :: ts) gs gs'
  | _, _, _ => False

open PGA.Spec.Layout in
theorem interleave_LG : ∀ (toks : List (List Char)) (gs gs' : List (List Char)), GapsAlike toks gs gs' →
    PGA.Ring.LG enhanced hardFiller (interleave toks gs) (interleave toks gs')
  | [], [], [], _ => PGA.Ring.LG.refl _ _ _
  | [t], [g], [g'], h => by
    simp only [interleave, List.append_nil]
    exact PGA.Ring.LG.append_left t (.trail h.1 h.2)
  | t :: t2 :: ts, g :: gs, g' :: gs', h => by
    simp only [interleave, List.append_assoc]
    apply PGA.Ring.LG.append_left t
    have ih := interleave_LG (t2 :: ts) gs gs' h.2
    rcases h.1 with rfl | ⟨o1, o2⟩
    · exact PGA.Ring.LG.append_left g ih
    · exact .gap o1 o2 ih
  | [], _ :: _, _, h => by cases h
  | [], [], _ :: _, h => by cases h
  | [_], [], _, h => by cases h
  | [_], [_], [], h => by cases h
  | [_], [_], _ :: _ :: _, h => by cases h
  | [_], _ :: _ :: _, _, h => by cases h
  | _ :: _ :: _, [], _, h => by cases h
  | _ :: _ :: _, _ :: _, [], h => by cases h

open PGA.Spec.Layout in
/-- **T3, layout (proved part)**: for **every** token sequence (in particular the token-level rendering of any
fragment) and any two layouts of it whose leading runs are filler and whose gaps are `GapsAlike` — equal, or both
opaque (two or more filler characters, or containing a newline or a tab), any filler after the last token — the
parser model takes the same decisions on the two texts: both are rejected, or both are accepted **with the same
tree** (hence the same query and the same matches: `C08_same_tree_same_matches`).  Proved by a lock-step simulation
of the backtracking engine (`PGA.Ring.eval_sim`) for every grammar table meeting the layout hypotheses, instantiated
on the regenerated grammar (`C08_tab_layout_enhanced`).  What is *not* covered is turning a **single blank** into
another gap (or gluing): that is unsound inside tokens such as `bond to` and needs the parse∘render argument
(`C08_layout_irrelevant_full`). -/
theorem C08_layout_irrelevant_partial (toks : List (List Char)) (L L' : Layout)
    (hl : PGA.Ring.allFil enhanced L.lead) (hl' : PGA.Ring.allFil enhanced L'.lead)
    (hg : GapsAlike toks L.gaps L'.gaps) :
    treeOf (render toks L) = treeOf (render toks L') := by
  have hlg : PGA.Ring.LG enhanced hardFiller (PGA.Ring.stripF enhanced (render toks L))
      (PGA.Ring.stripF enhanced (render toks L')) := by
    unfold render
    rw [PGA.Ring.stripF_append _ _ _ hl, PGA.Ring.stripF_append _ _ _ hl']
    exact (interleave_LG toks _ _ hg).strip
  have hp := PGA.Ring.parse_layout C08_tab_layout_enhanced _ _ hlg
  unfold treeOf parseText
  generalize parse enhanced (render toks L) = p1 at hp ⊢
  generalize parse enhanced (render toks L') = p2 at hp ⊢
  cases hp <;> rfl

/-- the same for arbitrary texts: related texts are read alike — both are syntax errors (possibly at different
positions), or the outcomes of `readText` are equal (same query, or the same reader error) -/
theorem C08_layout_read_partial (s s' : List Char)
    (h : PGA.Ring.LG enhanced hardFiller (PGA.Ring.stripF enhanced s) (PGA.Ring.stripF enhanced s')) :
    (∃ l c l' c', readText s = .error (.syntax l c) ∧ readText s' = .error (.syntax l' c')) ∨
      readText s = readText s' := by
  have hp := PGA.Ring.parse_layout C08_tab_layout_enhanced _ _ h
  unfold readText parseText
  generalize parse enhanced s = p1 at hp ⊢
  generalize parse enhanced s' = p2 at hp ⊢
  cases hp with
  | accepted t fin fin' => exact Or.inr rfl
  | syntaxError e e' => exact Or.inl ⟨_, _, _, _, rfl, rfl⟩
  | abort a => exact Or.inr rfl

/-- non-vacuity: a gap of one newline and a gap of tab + blanks are both opaque; a single blank is not -/
example : PGA.Ring.Opaque enhanced hardFiller ['\n'] ∧ PGA.Ring.Opaque enhanced hardFiller ['\t', ' ', ' '] ∧
    ¬ PGA.Ring.Opaque enhanced hardFiller [' '] := by
  refine ⟨⟨by decide +kernel, Or.inr ⟨'\n', by simp, rfl⟩⟩, ⟨by decide +kernel, Or.inl (by simp)⟩, ?_⟩
  rintro ⟨_, h | ⟨c, hc, hh⟩⟩
  · simp at h
  · simp only [List.mem_singleton] at hc; subst hc; simp [hardFiller] at hh

open PGA.Spec.Layout in
/-- non-vacuity: `fragment a{C labeled c1}` written on one line with double blanks and written over three indented lines -/
example : GapsAlike [tk "fragment", tk "a", tk "{", tk "C", tk "labeled", tk "c1", tk "}"]
    [[' ', ' '], [], [' ', ' '], [' '], [' ', ' '], [], []]
    [['\n'], [], ['\n', ' ', ' '], [' '], ['\t'], [], ['\n']] := by
  refine ⟨Or.inr ⟨⟨by decide +kernel, Or.inl (by simp)⟩, ⟨by decide +kernel, Or.inr ⟨'\n', by simp, rfl⟩⟩⟩,
    Or.inl rfl, Or.inr ⟨⟨by decide +kernel, Or.inl (by simp)⟩, ⟨by decide +kernel, Or.inl (by simp)⟩⟩,
    Or.inl rfl, Or.inr ⟨⟨by decide +kernel, Or.inl (by simp)⟩, ⟨by decide +kernel, Or.inr ⟨'\t', by simp, rfl⟩⟩⟩,
    Or.inl rfl, by decide +kernel, by decide +kernel⟩

/-! ### the remaining gap (stated, not proved) -/



open PGA.Spec.Layout in
/-- **T3, layout, full statement (NOT PROVED — documented gap)**: for every fragment, any two valid
layouts of its token sequence (a filler run before the first token and after every token, non-empty
between two tokens unless one is a brace, a comma, or the first is `!`) are parsed alike by the
parser model: both rejected, or both accepted with the same tree — hence the same query and the same
matches on every molecule.  Stated for fragments whose fields are lexically what the grammar expects
(`lexOK`).  Beyond `C08_layout_irrelevant_partial` this asks that a *single blank* between two tokens
may become any gap (and that gaps next to braces and commas may be closed): that needs the fact that
on a rendered fragment no literal containing a blank (`any atom`, `bond to`, …) can match across a
token boundary — a parse∘render argument over the whole fragment grammar.  That part is exercised, on
every run, by `c08.layouts` (parser model: tree and query of 2–4 further random layouts of every
random fragment equal those of the first) and by the implementation's parser on the same texts. -/
def C08_layout_irrelevant_full : Prop :=
  ∀ (f : Frag), lexOK f = true → ∀ (L L' : Layout),
    L.ok (tokens f) = true → L'.ok (tokens f) = true →
    treeOf (render (tokens f) L) = treeOf (render (tokens f) L')

/-- what the layout statement buys once it is available: equal trees give equal queries and equal
matches (this step *is* proved: everything after the parser is a function of the tree). -/
theorem C08_same_tree_same_matches (s s' : List Char) (m : Mol)
    (h : PGA.Spec.Layout.treeOf s = PGA.Spec.Layout.treeOf s')
    (ha : (PGA.Spec.Layout.treeOf s).isSome = true) :
    matchText s m = matchText s' m := by
  unfold PGA.Spec.Layout.treeOf at h ha
  unfold matchText readText
  cases hp : parseText s with
  | error e => simp [hp, Except.toOption] at ha
  | ok t =>
    cases hp' : parseText s' with
    | error e => simp [hp, hp', Except.toOption] at h
    | ok t' =>
      simp only [hp, hp', Except.toOption, Option.some.injEq] at h
      subst h; rfl

end PGA.C08
