import PGA.Proofs.SchemeRelabel
import PGA.Props.C02
/-!
# C03 — descriptors do not depend on how the molecule is written

For the model of the decomposition above the matcher: any renumbering `π` of the atoms (a bijection preserving
`0..n-1`), with the neighbour lists transported as multisets and the patterns' matches transported as *sets*
(`Relabel`, `PGA/Spec/Relabel.lean`), leaves every count and the failure outcome unchanged.  Every molecule size,
every scheme, every chain-free remap table.  That a correct matcher transports matches this way is C08.

Not covered here (and false of the code for fused rings, finding F3): independence of the Benson C6 perception from the
ORDER in which RDKit lists the rings.
-/
namespace PGA.Scheme
open PGA

variable {inp inp' : Input} {π : Nat → Nat}

/-- every atom is matched by as many centre patterns after renumbering as before -/
theorem C03_cnt_relabel (R : Relabel inp inp' π) (i : Nat) : cnt inp'.centres (π i) = cnt inp.centres i :=
  cnt_relabel R i

/-- centre classification succeeds for one numbering iff for the other, and gives atom `π i` the names of atom `i` -/
theorem C03_centres_relabel (R : Relabel inp inp' π) :
    ((∃ a', assignCentres inp' = .ok a') ↔ (∃ a, assignCentres inp = .ok a)) ∧
    ∀ a a', assignCentres inp = .ok a → assignCentres inp' = .ok a' → ∀ i, a'.get? (π i) = a.get? i :=
  ⟨centres_ok_relabel R, fun a a' ha ha' i => get_relabel R a a' ha ha' i⟩

/-- the group contributed by an atom is the same (canonical names ignore neighbour order: C19) -/
theorem C03_groupName_relabel (R : Relabel inp inp' π) (a a' : Assign)
    (ha : assignCentres inp = .ok a) (ha' : assignCentres inp' = .ok a') (i : Nat) :
    groupName a' inp'.nbrs (π i) = groupName a inp.nbrs i := groupName_relabel R a a' ha ha' i

theorem C03_groupCount_relabel (R : Relabel inp inp' π) (a a' : Assign)
    (ha : assignCentres inp = .ok a) (ha' : assignCentres inp' = .ok a') (g : String) :
    ((List.range inp'.n).filter fun j => decide (groupName a' inp'.nbrs j = some g)).length
      = ((List.range inp.n).filter fun i => decide (groupName a inp.nbrs i = some g)).length :=
  groupCount_relabel R a a' ha ha' g

/-- the number of distinct matched atom sets is preserved by an injective renumbering -/
theorem C03_distinctSets_relabel (hinj : Function.Injective π) (ms ms' : List Match)
    (h : (ms'.map List.toFinset).toFinset = ((ms.map List.toFinset).toFinset).image (Finset.image π)) :
    distinctSets ms' = distinctSets ms := distinctSets_relabel hinj ms ms' h

/-- the remap pass sees a dictionary only through its counts, never through its insertion order -/
theorem C03_remap_depends_on_counts_only (rm : List (String × List (Rat × String))) (hcf : ChainFree rm)
    (c c' : Counts) (hc : (Counts.keys c).Nodup) (hc' : (Counts.keys c').Nodup)
    (hget : ∀ k, c.get k = c'.get k) (t : String) :
    (remapAll rm c).get t = (remapAll rm c').get t := remapAll_get_congr rm hcf c c' hc hc' hget t

/-- **C03 for the decomposition model.** Renumbering the atoms changes neither the failure outcome nor the count of any
descriptor. -/
theorem C03_descriptors_relabel (R : Relabel inp inp' π) (hcf : ChainFree inp.remaps) :
    (getDescriptors inp' = .error .patternMatch ↔ getDescriptors inp = .error .patternMatch) ∧
    ∀ res res', getDescriptors inp = .ok res → getDescriptors inp' = .ok res' → ∀ t, res'.get t = res.get t := by
  constructor
  · rw [C02_getDescriptors_error_iff, C02_getDescriptors_error_iff]
    have hok := centres_ok_relabel R
    constructor
    · intro he
      cases hr : assignCentres inp with
      | error e => cases e; rfl
      | ok a =>
        obtain ⟨a', ha'⟩ := hok.mpr ⟨a, hr⟩
        rw [ha'] at he; cases he
    · intro he
      cases hr : assignCentres inp' with
      | error e => cases e; rfl
      | ok a' =>
        obtain ⟨a, ha⟩ := hok.mp ⟨a', hr⟩
        rw [ha] at he; cases he
  · intro res res' hres hres' t
    have hsome : ∃ a, assignCentres inp = .ok a := by
      cases hr : assignCentres inp with
      | error e => unfold getDescriptors at hres; simp [hr] at hres
      | ok a => exact ⟨a, rfl⟩
    have hsome' : ∃ a', assignCentres inp' = .ok a' := by
      cases hr : assignCentres inp' with
      | error e => unfold getDescriptors at hres'; simp [hr] at hres'
      | ok a => exact ⟨a, rfl⟩
    obtain ⟨a, ha⟩ := hsome
    obtain ⟨a', ha'⟩ := hsome'
    rw [C02_getDescriptors_value inp a res ha hres t, C02_getDescriptors_value inp' a' res' ha' hres' t]
    simp only
    have hd : countDescs inp'.descs [] = countDescs inp.descs [] := countDescs_relabel_aux R.inj _ _ R.descs []
    rw [hd, R.remaps]
    have hg : (remapAll inp.remaps (countGroups a' inp'.nbrs (List.range inp'.n) [])).get t
        = (remapAll inp.remaps (countGroups a inp.nbrs (List.range inp.n) [])).get t := by
      apply remapAll_get_congr inp.remaps hcf
      · exact countGroups_nodup _ _ _ _ (by simp [Counts.keys])
      · exact countGroups_nodup _ _ _ _ (by simp [Counts.keys])
      · intro g
        rw [countGroups_get, countGroups_get, groupCount_relabel R a a' ha ha' g]
    rw [hg]

/-! ### non-vacuity: ethane-like two-atom input and its swap -/
example : Relabel ⟨2, [[1], [0]], [⟨"C", "C", [[0, 1], [1, 0]]⟩], [], []⟩
    ⟨2, [[1], [0]], [⟨"C", "C", [[1, 0], [0, 1]]⟩], [], []⟩ (fun i => if i = 0 then 1 else if i = 1 then 0 else i) := by
  refine ⟨?_, ?_, rfl, ?_, ?_, ?_, ?_, rfl⟩
  · intro x y h
    simp only at h
    by_cases hx0 : x = 0 <;> by_cases hy0 : y = 0 <;> by_cases hx1 : x = 1 <;> by_cases hy1 : y = 1 <;> simp_all <;> omega
  · intro y
    by_cases h0 : y = 0
    · exact ⟨1, by simp [h0]⟩
    · by_cases h1 : y = 1
      · exact ⟨0, by simp [h1]⟩
      · exact ⟨y, by simp [h0, h1]⟩
  · intro i
    by_cases h0 : i = 0
    · subst h0; simp
    · by_cases h1 : i = 1
      · subst h1; simp
      · simp [h0, h1]
  · intro i
    by_cases h0 : i = 0
    · subst h0; simp
    · by_cases h1 : i = 1
      · subst h1; simp
      · have : ¬ i < 2 := by omega
        simp [h0, h1, List.getD, this]
  · refine List.Forall₂.cons ⟨rfl, rfl, ?_⟩ List.Forall₂.nil
    intro i
    have e1 : firstAtoms [[1, 0], [0, 1]] = [1, 0] := by decide +kernel
    have e2 : firstAtoms [[0, 1], [1, 0]] = [0, 1] := by decide +kernel
    simp only [e1, e2]
    by_cases h0 : i = 0
    · subst h0; simp
    · by_cases h1 : i = 1
      · subst h1; simp
      · simp [h0, h1]
  · exact List.Forall₂.nil

end PGA.Scheme
